import GridVerif.Model.Elem
import GridVerif.Model.Proto

import GridVerif.Model.Elem

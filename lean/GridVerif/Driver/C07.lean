import GridVerif.Model.Proto
import GridVerif.Model.Elem

namespace GridVerif.Driver.C07
open GridVerif.Proto

/-- Line-protocol handler of property C07: `C07.<op> args…` ↦ one answer line
(`none` = malformed, answered `bad-op`). -/
def handle : List String → Option String
  | _ => none

end GridVerif.Driver.C07

import GridVerif.Model.Proto
import GridVerif.Model.Elem
import GridVerif.Model.MolGrid
import GridVerif.Gen.MolGrid

/-
  Driver of C07 (line protocol, see harness/props/c07.py).

  Grid spec (shared by `init`, `get`, `integrate`, `savekeys`):
    <store 0|1> <aim> <atnums vec> <ngrids> { <points mat r×3> <weights vec> <center vec> }*
  aim:  arr <vec> | other | cbZ | cb1 <float> | cbshort | cbarr <vec>
    cbarr v callable returning the array v, whatever its length (no size check on this route)
    cbZ     callable: aim[j] = 1/(1+atnums[k]) for j in the k-th segment of `indices`
    cb1 c   callable returning the one-element array [c]        (NumPy broadcast)
    cbshort callable returning size-1 ones                       (ValueError)

  `C07.init`, `C07.get`, `C07.integrate`, `C07.savekeys` run the *generated* constructor and
  accessors (`Gen.MolGrid.init`, `Gen.MolGrid.getAtomicGrid`, `Gen.MolGrid.getItem`: the text
  translated from the current molgrid.py); `C07.hinit`, `C07.hget` run the hand model
  (`MolGrid.init`, `MolGrid.getAtomicGrid`, `MolGrid.getItem`) on the same line format. The harness
  compares both with the implementation.

  Round 3: `C07.interp <nargs> <deriv> <ds> <ord> <f vec> <pts mat> <grid spec>` runs the generated
  `interpolate` / `interpolate_low` on the synthetic atomic interpolation `synthInterp`, `C07.hinterp` the
  hand model; `C07.defaults` prints the generated signature defaults; `C07.defaultRgridRow z angstrom bohr`
  runs the generated `_generate_default_rgrid` on recording components, `C07.defaultRgridLit z` prints a
  row of the generated table (values at `Float` and the exact decimals).

  Fan-out ops work on integer identifiers (which radial grid / preset / sector list an atom
  receives); the abstract atomic-grid constructor records its arguments in the `points` of the
  grid it returns, the driver prints them atom by atom.
-/
namespace GridVerif.Driver.C07
open GridVerif.Proto GridVerif.MolGrid

abbrev Pt := List Float

def errTag : PyErr → String := PyErr.tag

/-- `cbZ`: depends on `atnums` and `indices` (and on nothing else). -/
def cbZ (_pts : List Pt) (_atc : List Pt) (atnums : List Nat) (indices : List Nat) : List Float :=
  let segs := indices.zip indices.tail
  (segs.zip atnums).flatMap fun (ab, z) =>
    List.replicate (ab.2 - ab.1) (1.0 / (1.0 + Float.ofNat z))

def pAim : List String → Option (AimArg Pt Float × List String)
  | "arr" :: rest => do
    let (a, tl) ← pVec pFloat rest
    pure (.array a, tl)
  | "other" :: rest => pure (.other, rest)
  | "cbZ" :: rest => pure (.callable cbZ, rest)
  | "cb1" :: c :: rest => do
    let c ← pFloat c
    pure (.callable (fun _ _ _ _ => [c]), rest)
  | "cbarr" :: rest => do
    let (a, tl) ← pVec pFloat rest
    pure (.callable (fun _ _ _ _ => a), tl)
  | "cbshort" :: rest => pure (.callable (fun p _ _ _ => List.replicate (p.length - 1) 1.0), rest)
  | _ => none

def pGrids : Nat → List String → Option (List (AtGrid Pt Float) × List String)
  | 0, rest => pure ([], rest)
  | n + 1, rest => do
    let (pts, r1) ← pMat pFloat rest
    let (w, r2) ← pVec pFloat r1
    let (c, r3) ← pVec pFloat r2
    let (gs, r4) ← pGrids n r3
    pure (⟨pts, w, c⟩ :: gs, r4)

structure Spec where
  store : Bool
  aim : AimArg Pt Float
  atnums : List Nat
  grids : List (AtGrid Pt Float)

def pSpec : List String → Option Spec
  | st :: rest => do
    let store ← (match st with | "0" => some false | "1" => some true | _ => none)
    let (aim, r1) ← pAim rest
    let (atnums, r2) ← pVec pNat r1
    match r2 with
    | n :: r3 => do
      let n ← pNat n
      let (gs, r4) ← pGrids n r3
      if r4 ≠ [] then none else pure ⟨store, aim, atnums, gs⟩
    | [] => none
  | [] => none

/-- the generated constructor (`np.zeros` rows are `[0, 0, 0]`) -/
def Spec.build (s : Spec) : Py (MolGrid Pt Float) :=
  Gen.MolGrid.init [0.0, 0.0, 0.0] s.atnums s.grids s.aim s.store

/-- the hand model -/
def Spec.buildH (s : Spec) : Py (MolGrid Pt Float) := MolGrid.init s.atnums s.grids s.aim s.store

def sPts (p : List Pt) : String := sMat sFloat p

def sMol (m : MolGrid Pt Float) : String :=
  s!"ok {sNats m.indices} {sPts m.points} {sFloats m.weights} {sFloats m.atweights} " ++
  s!"{sFloats m.aimWeights} {sPts m.atcoords} {if m.atgrids.isSome then 1 else 0}"

def sSub (g : SubGrid Pt Float) : String :=
  s!"ok {if g.isAtom then 1 else 0} {sPts g.points} {sFloats g.weights} {sFloats g.center}"

def answer {α} (r : Py α) (f : α → String) : String :=
  match r with
  | .ok a => f a
  | .error e => errTag e

/-! ### fan-out on identifiers -/

def pArg : List String → Option (PyArg Nat × List String)
  | "obj" :: x :: rest => do pure (.obj (← pNat x), rest)
  | "list" :: rest => do
    let (l, tl) ← pVec pNat rest
    pure (.list l, tl)
  | "dict" :: rest => do
    let (l, tl) ← pVec pNat rest
    -- flat key value key value …; later keys win (Python dict literal)
    let rec pairs : List Nat → Option (List (Nat × Nat))
      | [] => some []
      | k :: v :: r => (pairs r).map ((k, v) :: ·)
      | _ => none
    let ps ← pairs l
    pure (.dict (fun z => (ps.reverse.find? (fun p => p.1 == z)).map Prod.snd), tl)
  | "none" :: rest => pure (.none, rest)
  | "other" :: rest => pure (.other, rest)
  | _ => none

/-- Default radial grid of element `z`: identifier `1000 + z`, defined on the regenerated keys. -/
def dfltId : Nat → Py Nat :=
  defaultRgrid (Gen.MolGrid.defaultRgridNpt.map fun p => (p.1, p.1)) (fun z => 1000 + z)

def onesAim : AimArg Nat Nat := .callable fun p _ _ _ => p.map fun _ => 1

def sAtoms (m : MolGrid Nat Nat) : String :=
  "ok " ++ sNats m.indices ++ " " ++ sNats m.points

/-- Answer of a fan-out op: `ok indices points` on success; on an exception the tag followed by
the number `k` of atoms whose grids were built before it was raised and what they were built
from (`run k` = the model's per-atom loop on the first `k` atoms; `pre = false`: an exception of
the statements before the loop). The harness needs the prefix because the *real* `AtomGrid`
constructor (abstract and total here) may raise earlier. -/
def fanoutAnswer (full : Py (MolGrid Nat Nat)) (pre : Bool) (n : Nat)
    (run : Nat → Py (List (AtGrid Nat Nat))) : String :=
  match full with
  | .ok m => sAtoms m
  | .error e =>
    let gs : List (AtGrid Nat Nat) :=
      if pre then
        ((List.range (n + 1)).reverse.findSome? fun k =>
          match run k with | .ok gs => some gs | .error _ => none).getD []
      else []
    errTag e ++ " " ++ toString gs.length ++ " " ++ sNats (gs.flatMap AtGrid.points)


/-! ### round 3: interpolate, signature defaults, default radial grid -/

/-- The synthetic `AtomGrid.interpolate` of the correspondence (the same function is a Python class in
harness/props/c07.py): with `c = Σ_j vals[j]·weights[j]` (left to right) and
`s = c·(1 + deriv + 2·deriv_spherical + 4·only_radial_derivs)`,
* an atom that was handed exactly one value answers the row `[s, s, s]` (shape `(3,)`) when
  `deriv_spherical`, else `[s]` (shape `(1,)`) — exercises the broadcasting of `+=`;
* every other atom answers `s + ⟨p, center⟩·(t+1)` per point `p` and column `t < 3` (shape `(M, 3)`)
  when `deriv_spherical`, else `s + ⟨p, center⟩` (shape `(M,)`);
* `deriv > 3` raises `ValueError`. -/
def synthInterp (g : AtGrid Pt Float) (vals : List Float) : Py (Interp (List Pt) Float) :=
  pure fun pts d ds ord =>
    if d > 3 then throw .valueError else
    let c := (List.zipWith (· * ·) vals g.weights).foldl (· + ·) 0.0
    let s := c * (1.0 + Float.ofInt d + (if ds then 2.0 else 0.0) + (if ord then 4.0 else 0.0))
    let dot (p : Pt) : Float := (List.zipWith (· * ·) p g.center).foldl (· + ·) 0.0
    if vals.length == 1 then
      pure (if ds then ⟨[3], [s, s, s]⟩ else ⟨[1], [s]⟩)
    else if ds then
      pure ⟨[pts.length, 3], pts.flatMap fun p => [s + dot p * 1.0, s + dot p * 2.0, s + dot p * 3.0]⟩
    else pure ⟨[pts.length], pts.map fun p => s + dot p⟩

def sArr (a : NdArr Float) : String := s!"ok {sNats a.shape} {sFloats a.data}"

/-- `mg.interpolate(f)(pts[, deriv[, deriv_spherical[, only_radial_derivs]]])` with `nargs` of the optional
arguments given: `nargs = 3` calls the closure the generated `interpolate` hands back; fewer arguments go
through the generated `interpolate_low` with its generated defaults (on the list of atomic interpolants
the hand model builds). -/
def runInterp (m : MolGrid Pt Float) (f : List Float) (pts : List Pt) (nargs : Nat) (d : Int) (ds ord : Bool) :
    Py (NdArr Float) := do
  let I ← Gen.MolGrid.interpolate synthInterp m f
  match nargs with
  | 3 => I pts d ds ord
  | k => do
    let gs ← (match m.atgrids with | some gs => pure gs | none => throw .valueError : Py (List (AtGrid Pt Float)))
    let fa ← npMul1 f m.aimWeights
    let fs ← allOk (fun i : Nat => do
      let a ← pyGet m.indices (i : Int)
      let b ← pyGet m.indices ((i : Int) + 1)
      let g ← pyGet gs (i : Int)
      synthInterp g (pySlice fa a b)) (List.range m.atcoords.length)
    match k with
    | 0 => Gen.MolGrid.interpolate_low fs pts
    | 1 => Gen.MolGrid.interpolate_low fs pts d
    | _ => Gen.MolGrid.interpolate_low fs pts d ds

def pBool : String → Option Bool
  | "0" => some false
  | "1" => some true
  | _ => none

def sBool (b : Bool) : String := if b then "1" else "0"

def handle : List String → Option String
  | "C07.init" :: rest => do
    let s ← pSpec rest
    pure (answer s.build sMol)
  | "C07.hinit" :: rest => do
    let s ← pSpec rest
    pure (answer s.buildH sMol)
  | "C07.get" :: which :: idx :: rest => do
    let s ← pSpec rest
    let i ← pInt idx
    match which with
    | "atomic" => pure (answer (do let m ← s.build; Gen.MolGrid.getAtomicGrid m i) sSub)
    | "item" => pure (answer (do let m ← s.build; Gen.MolGrid.getItem m i) sSub)
    | _ => none
  | "C07.hget" :: which :: idx :: rest => do
    let s ← pSpec rest
    let i ← pInt idx
    match which with
    | "atomic" => pure (answer (do let m ← s.buildH; m.getAtomicGrid i) sSub)
    | "item" => pure (answer (do let m ← s.buildH; m.getItem i) sSub)
    | _ => none
  | "C07.integrate" :: rest => do
    let (f, r1) ← pVec pFloat rest
    let s ← pSpec r1
    pure (answer (do let m ← s.build; m.integrate f) fun x => s!"ok {sFloat x}")
  | "C07.savekeys" :: rest => do
    let s ← pSpec rest
    pure (answer (do let m ← s.build; m.saveKeys) fun ks =>
      "ok " ++ String.intercalate " " (toString ks.length :: ks))
  | "C07.preset" :: rest => do
    let (atnums, r1) ← pVec pNat rest
    match r1 with
    | nc :: r2 => do
      let nc ← pNat nc
      let (preset, r3) ← pArg r2
      let (rgrid, r4) ← pArg r3
      if r4 ≠ [] then none else
      let mkAt : Nat → Nat → Nat → Nat → Unit → Py (AtGrid Nat Nat) :=
        fun z gd rad c _ => pure ⟨[z, gd, rad, c], [1, 1, 1, 1], c⟩
      let selR := Gen.MolGrid.fromPreset_rad dfltId
      let selP := Gen.MolGrid.fromPreset_gd_type (α := Nat) fun _ => throw .typeError
      pure (fanoutAnswer (fromPresetWith selR selP mkAt onesAim atnums (List.range nc) preset rgrid
          none () false) (atnums.length == nc) atnums.length fun k =>
        presetGrids selR selP mkAt (atnums.take k) (List.range nc) preset rgrid ())
    | [] => none
  | "C07.size" :: rest => do
    let (atnums, r1) ← pVec pNat rest
    match r1 with
    | nc :: r2 => do
      let nc ← pNat nc
      let (rgrid, r3) ← pArg r2
      if r3 ≠ [] then none else
      let mkAt : Nat → Unit → Nat → Unit → Py (AtGrid Nat Nat) :=
        fun rad _ c _ => pure ⟨[rad, c], [1, 1], c⟩
      let selR : PyArg Nat → (Nat → Py Nat) → Nat → Py Nat :=
        fun a d z => Gen.MolGrid.fromSize_rad_grid d a z
      pure (fanoutAnswer (fromSizeWith selR dfltId mkAt onesAim atnums (List.range nc) () rgrid none
          () false) true atnums.length fun k =>
        sizeGrids selR dfltId mkAt (atnums.take k) (List.range nc) () rgrid ())
    | [] => none
  | "C07.pruned" :: rest => do
    let (atnums, r1) ← pVec pNat rest
    match r1 with
    | nc :: r2 => do
      let nc ← pNat nc
      let (radius, r3) ← (match r2 with
        | "float" :: x :: r => do pure (RadArg.float (← pNat x), r)
        | "list" :: r => do
          let (l, tl) ← pVec pNat r
          pure (RadArg.list l, tl)
        | "other" :: r => pure (RadArg.other, r)
        | _ => none : Option (RadArg Nat × List String))
      match r3 with
      | nr :: r4 => do
        let nr ← pNat nr
        let (d, r5) ← (match r4 with
          | "int" :: x :: r => do pure (DArg.int (← pNat x), r)
          | "list" :: r => do
            let (l, tl) ← pVec pNat r
            pure (DArg.list l, tl)
          | _ => none : Option (DArg Nat × List String))
        let (s, r6) ← (match r5 with
          | "none" :: r => pure (SArg.none, r)
          | "int" :: r => pure (SArg.int, r)
          | "list" :: r => do
            let (l, tl) ← pVec pNat r
            pure (SArg.list l, tl)
          | _ => none : Option (SArg Nat × List String))
        let (rgrid, r7) ← pArg r6
        if r7 ≠ [] then none else
        let enc : Option Nat → Nat := fun o => match o with | some x => x + 1 | none => 0
        let mkAt : Nat → Nat → Nat → Option Nat → Option Nat → Nat → Unit → Py (AtGrid Nat Nat) :=
          fun rad ra rs ds ss c _ => pure ⟨[rad, ra, rs, enc ds, enc ss, c], [1, 1, 1, 1, 1, 1], c⟩
        let selR := Gen.MolGrid.fromPruned_rad dfltId
        let sec := prunedSectors nc nr d s
        pure (fanoutAnswer (fromPrunedWith selR mkAt onesAim atnums (List.range nc) radius
            (List.range nr) d s rgrid none () false)
          (atnums.length == nc && (match sec with | .ok _ => true | .error _ => false))
          atnums.length fun k =>
            match sec with
            | .ok (dl, sl) => prunedGrids selR mkAt (atnums.take k) (List.range nc) radius
                (List.range nr) dl sl rgrid ()
            | .error e => .error e)
      | [] => none
    | [] => none
  | "C07.interp" :: nargs :: d :: ds :: ord :: rest => do
    let nargs ← pNat nargs
    let d ← pInt d
    let ds ← pBool ds
    let ord ← pBool ord
    let (f, r1) ← pVec pFloat rest
    let (pts, r2) ← pMat pFloat r1
    let s ← pSpec r2
    if nargs > 3 then none else
    pure (answer (do let m ← s.build; runInterp m f pts nargs d ds ord) sArr)
  | "C07.hinterp" :: d :: ds :: ord :: rest => do
    let d ← pInt d
    let ds ← pBool ds
    let ord ← pBool ord
    let (f, r1) ← pVec pFloat rest
    let (pts, r2) ← pMat pFloat r1
    let s ← pSpec r2
    pure (answer (do let m ← s.buildH; let I ← m.interpolate synthInterp f; I pts d ds ord) sArr)
  | ["C07.aimroute", ctor, kind] => do
    -- which object reaches `cls(...)`: the generated aim-weights default of the constructor on None / callable / array / other
    let becke : Nat → AimArg Pt Float := fun k => .array [Float.ofNat k]      -- stands for BeckeWeights(order=k)
    let arg ← (match kind with
      | "none" => some none
      | "callable" => some (some (.callable cbZ))
      | "array" => some (some (.array [-1.0]))
      | "other" => some (some .other)
      | _ => none : Option (Option (AimArg Pt Float)))
    let r ← (match ctor with
      | "from_preset" => some (Gen.MolGrid.fromPreset_aim becke arg)
      | "from_size" => some (Gen.MolGrid.fromSize_aim becke arg)
      | "from_pruned" => some (Gen.MolGrid.fromPruned_aim becke arg)
      | _ => none)
    pure (match r with
      | .callable _ => "ok callable"
      | .other => "ok other"
      | .array a => if a == [-1.0] then "ok array" else s!"ok becke {sFloats a}")
  | ["C07.defaults"] =>
    pure (s!"ok preset {Gen.MolGrid.fromPreset_default_rotate} {sBool Gen.MolGrid.fromPreset_default_store} " ++
      s!"size {Gen.MolGrid.fromSize_default_rotate} {sBool Gen.MolGrid.fromSize_default_store} " ++
      s!"pruned {Gen.MolGrid.fromPruned_default_d_sectors} {Gen.MolGrid.fromPruned_default_rotate} " ++
      s!"{sBool Gen.MolGrid.fromPruned_default_store}")
  | ["C07.defaultRgridRow", z, ang, bohr] => do
    let z ← pNat z
    let ang ← pFloat ang
    let bohr ← pFloat bohr
    pure (answer (Gen.MolGrid.generate_default_rgrid (K := Float) ang bohr (fun n => pure n)
        (fun a b g => pure (a, b, g)) z) fun r => s!"ok {sFloat r.1} {sFloat r.2.1} {r.2.2}")
  | ["C07.defaultRgridLit", z] => do
    let z ← pNat z
    pure (answer (pyDictGet Gen.MolGrid.defaultRgridParams z) fun r =>
      s!"ok {sFloat (Dec.val r.1)} {sFloat (Dec.val r.2.1)} {r.2.2} {r.1.mant} {r.1.scale} {r.2.1.mant} {r.2.1.scale}")
  | ["C07.defaultRgrid", z] => do
    let z ← pNat z
    pure (answer (defaultRgrid Gen.MolGrid.defaultRgridNpt id z) fun n => s!"ok {n}")
  | _ => none

end GridVerif.Driver.C07

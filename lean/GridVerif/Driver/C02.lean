import GridVerif.Model.Proto
import GridVerif.Model.Elem
import GridVerif.Model.Harmonics
import GridVerif.Model.SphereQuad

namespace GridVerif.Driver.C02
open GridVerif.Proto GridVerif.Harmonics

/-- `n x₁ … xₙ` at the front of a token list ↦ `FloatArray` (no intermediate `List Float`). -/
def pFloatArray : List String → Option (FloatArray × List String)
  | [] => none
  | n :: rest => do
    let k ← n.toNat?
    let rec go (k : Nat) (ts : List String) (acc : FloatArray) : Option (FloatArray × List String) :=
      match k, ts with
      | 0, ts => some (acc, ts)
      | _ + 1, [] => none
      | k + 1, t :: ts => do
        let x ← pFloat t
        go k ts (acc.push x)
    go k rest (FloatArray.emptyWithCapacity k)

/-- Line-protocol handler of property C02 (`none` = malformed, answered `bad-op`).

* `C02.file degree 3n x₁ y₁ z₁ … n w₁ … wₙ` ↦
  `ok size maxNormDev sumW (degree+1) err₀ … err_degree (degree+1) m₀ … m_degree` (`AngularCheck.file`;
  `m_l` = an order at which the error of degree `l` is attained, negative = sine row);
  `value-error` when the number of coordinates is not three times the number of weights.
* `C02.screen degree k m₁ … m_k 3n … n …` ↦ the same report restricted to the orders `|m| ∈ {0, m₁, …, m_k}`
  (`AngularCheck.fileSel`).
* `C02.moments degree 3n … n …` ↦ `ok (degree+1)² moments…` in the row order of the harmonics.
* `C02.table kind kp kw L T a 4n W₁ X₁ Y₁ Z₁ …` (`kind` = `unit` | `4pi`; the integers of a generated table
  `Gen/AngularData/*.lean`) ↦ `ok s d o k m₁ … m_k`: `s` = the sliced integer test of slice `a` (`sliceOkUnit` /
  `sliceOk4pi`), `d` = the direct test on the same monomials (`okUnit` / `ok4pi` over `sliceMonos`), `o` = `onSphere`
  (each `1`/`0`), and the integer moments `sliceMoments t a (L+1-a)` in the order of `sliceMonos`. -/
def handle : List String → Option String
  | "C02.file" :: d :: rest => do
    let d ← pNat d
    let (pts, rest) ← pFloatArray rest
    let (w, rest) ← pFloatArray rest
    if rest ≠ [] then none else
    if pts.size ≠ 3 * w.size then pure "value-error" else
    let r := AngularCheck.file pts w d
    pure s!"ok {r.size} {sFloat r.maxNormDev} {sFloat r.sumW} {sFloats r.errByDegree.toList} {sInts r.argByDegree.toList}"
  | "C02.screen" :: d :: rest => do
    let d ← pNat d
    let (ms, rest) ← pVec pNat rest
    let (pts, rest) ← pFloatArray rest
    let (w, rest) ← pFloatArray rest
    if rest ≠ [] then none else
    if pts.size ≠ 3 * w.size then pure "value-error" else
    let r := AngularCheck.fileSel pts w d ms
    pure s!"ok {r.size} {sFloat r.maxNormDev} {sFloat r.sumW} {sFloats r.errByDegree.toList} {sInts r.argByDegree.toList}"
  | "C02.moments" :: d :: rest => do
    let d ← pNat d
    let (pts, rest) ← pFloatArray rest
    let (w, rest) ← pFloatArray rest
    if rest ≠ [] then none else
    if pts.size ≠ 3 * w.size then pure "value-error" else
    pure ("ok " ++ sFloats (AngularCheck.momentRows pts w d))
  | "C02.table" :: kind :: kp :: kw :: L :: T :: a :: rest => do
    let kp ← pNat kp
    let kw ← pNat kw
    let L ← pNat L
    let T ← pNat T
    let a ← pNat a
    let (xs, rest) ← pVec pInt rest
    if rest ≠ [] then none else
    if xs.length % 4 ≠ 0 then pure "value-error" else
    let rec rows : List Int → List (Int × Int × Int × Int)
      | w :: x :: y :: z :: r => (w, x, y, z) :: rows r
      | _ => []
    let t : SphereQuad.Table := ⟨kp, kw, rows xs⟩
    let b (v : Bool) : Nat := if v then 1 else 0
    let n := L + 1 - a
    match kind with
    | "unit" =>
      let direct := (SphereQuad.sliceMonos n).all fun q => SphereQuad.okUnit t T a q.1 q.2
      pure s!"ok {b (SphereQuad.sliceOkUnit t L T a)} {b direct} {b (SphereQuad.onSphere t T)} {sInts (SphereQuad.sliceMoments t a n)}"
    | "4pi" =>
      let direct := (SphereQuad.sliceMonos n).all fun q => SphereQuad.ok4pi t T a q.1 q.2
      pure s!"ok {b (SphereQuad.sliceOk4pi t L T a)} {b direct} {b (SphereQuad.onSphere t T)} {sInts (SphereQuad.sliceMoments t a n)}"
    | _ => none
  | _ => none

end GridVerif.Driver.C02

import GridVerif.Model.Proto
import GridVerif.Model.Elem
import GridVerif.Model.Coulomb
import GridVerif.Gen.Coulomb
import GridVerif.Gen.CoulombParams

namespace GridVerif.Driver.C17
open GridVerif.Proto GridVerif.Coulomb GridVerif.Gen.Coulomb

def pBool : String → Option Bool
  | "0" => some false
  | "1" => some true
  | _ => none

/-- rows of an `n × 3` matrix as points. -/
def toP3 : List (List Float) → Option (List (P3 Float))
  | [] => some []
  | [x, y, z] :: rest => (toP3 rest).map ((x, y, z) :: ·)
  | _ => none

def mkGauss : List (P3 Float) → List Float → List Float → Option (List (Gauss Float))
  | [], [], [] => some []
  | c :: cs, k :: ks, a :: as => (mkGauss cs ks as).map (⟨c, k, a⟩ :: ·)
  | _, _, _ => none

/-- Parse `centres(mat) coeffs(vec) alphas(vec)`. -/
def pGaussians (toks : List String) : Option (List (Gauss Float) × List String) := do
  let (m, t1) ← pMat pFloat toks
  let (ks, t2) ← pVec pFloat t1
  let (as, t3) ← pVec pFloat t2
  let gs ← mkGauss (← toP3 m) ks as
  pure (gs, t3)

/-- Decimal `(m, e)` = `m × 10^e` of the JSON file as the double Python's `float()` gives
(up to the last-bit rounding of `Float.ofScientific`). -/
def decToFloat (p : Int × Int) : Float :=
  let v := if p.2 < 0 then Float.ofScientific p.1.natAbs true (-p.2).toNat
           else Float.ofScientific p.1.natAbs false p.2.toNat
  if p.1 < 0 then -v else v

def scalarOp (f : Float → Float → Bool → Float) (rej : Float → Float → Bool)
    (r a n : String) : Option String := do
  let r ← pFloat r
  let a ← pFloat a
  let n ← pBool n
  if rej r a then pure "value-error" else pure ("ok " ++ sFloat (f r a n))

/-- Line-protocol handler of property C17: `C17.<op> args…` ↦ one answer line
(`none` = malformed, answered `bad-op`). -/
def handle : List String → Option String
  | ["C17.thr"] => some ("ok " ++ sFloat (rZeroThreshold : Float))
  | ["C17.s", r, a, n] => scalarOp coulombGaussianS coulombGaussianSRejects r a n
  | ["C17.p", r, a, n] => scalarOp coulombGaussianP coulombGaussianPRejects r a n
  | ["C17.pcorr", r, a, n] => scalarOp coulombGaussianPCorrected coulombGaussianPRejects r a n
  | "C17.pot" :: n :: rest => do
    let n ← pBool n
    let (pm, t1) ← pMat pFloat rest
    let pts ← toP3 pm
    let (ss, t2) ← pGaussians t1
    match t2 with
    | ["0"] =>
      match coulombPotential n pts ss [] with
      | some v => pure ("ok " ++ sFloats v)
      | none => pure "value-error"
    | "1" :: t3 =>
      let (ps, t4) ← pGaussians t3
      if t4 ≠ [] then none else
      match coulombPotential n pts ss ps with
      | some v => pure ("ok " ++ sFloats v)
      | none => pure "value-error"
    | _ => none
  | "C17.load" :: "sym" :: rest => do
    let (cs, tl) ← pVec pNat rest
    if tl ≠ [] then none else
    if cs.any (· ≥ 128) then none else
    match load Gen.CoulombParams.elements Gen.CoulombParams.table (.sym (cs.map Char.ofNat)) with
    | some (c, a) => pure ("ok " ++ sFloats (c.map decToFloat) ++ " " ++ sFloats (a.map decToFloat))
    | none => pure "value-error"
  | ["C17.load", "num", n] => do
    let n ← pInt n
    match load Gen.CoulombParams.elements Gen.CoulombParams.table (.num n) with
    | some (c, a) => pure ("ok " ++ sFloats (c.map decToFloat) ++ " " ++ sFloats (a.map decToFloat))
    | none => pure "value-error"
  | _ => none

end GridVerif.Driver.C17

import GridVerif.Model.Proto
import GridVerif.Model.Elem
import GridVerif.Model.Coulomb
import GridVerif.Gen.Coulomb
import GridVerif.Gen.CoulombParams
import GridVerif.Model.CoulombPy
import GridVerif.Gen.CoulombPotential
import GridVerif.Gen.CoulombLoader

namespace GridVerif.Driver.C17
open GridVerif.Proto GridVerif.Coulomb GridVerif.Gen.Coulomb

def pBool : String → Option Bool
  | "0" => some false
  | "1" => some true
  | _ => none

/-- Parse an array: `k d₁ … d_k  n x₁ … x_n` (shape, then row-major data). -/
def pNd (toks : List String) : Option (NdArg Float × List String) := do
  let (sh, t1) ← pVec pNat toks
  let (xs, t2) ← pVec pFloat t1
  pure (⟨sh, xs⟩, t2)

/-- Parse an optional array: `0` (= `None`) or `1 <array>`. -/
def pOptNd : List String → Option (Option (NdArg Float) × List String)
  | "0" :: rest => some (none, rest)
  | "1" :: rest => (pNd rest).map fun (a, t) => (some a, t)
  | _ => none

def sNd (a : NdArg Float) : String := sNats a.shape ++ " " ++ sFloats a.data

/-- Decimal `(m, e)` = `m × 10^e` of the JSON file as the double Python's `float()` gives
(up to the last-bit rounding of `Float.ofScientific`). -/
def decToFloat (p : Int × Int) : Float :=
  let v := if p.2 < 0 then Float.ofScientific p.1.natAbs true (-p.2).toNat
           else Float.ofScientific p.1.natAbs false p.2.toNat
  if p.1 < 0 then -v else v

def scalarOp (f : Float → Float → Bool → Float) (rej : Float → Float → Bool)
    (r a n : String) : Option String := do
  let r ← pFloat r
  let a ← pFloat a
  let n ← pBool n
  if rej r a then pure "value-error" else pure ("ok " ++ sFloat (f r a n))

/-- Line-protocol handler of property C17: `C17.<op> args…` ↦ one answer line
(`none` = malformed, answered `bad-op`). -/
def handle : List String → Option String
  | ["C17.thr"] => some ("ok " ++ sFloat (rZeroThreshold : Float))
  | ["C17.s", r, a, n] => scalarOp coulombGaussianS coulombGaussianSRejects r a n
  | ["C17.p", r, a, n] => scalarOp coulombGaussianP coulombGaussianPRejects r a n
  | ["C17.pcorr", r, a, n] => scalarOp coulombGaussianPCorrected coulombGaussianPRejects r a n
  | "C17.pot" :: n :: rest => do
    -- the GENERATED `coulomb_potential` on arrays with explicit shapes (malformed shapes included)
    let n ← pBool n
    let (points, t1) ← pNd rest
    let (centers_s, t2) ← pNd t1
    let (coeffs_s, t3) ← pNd t2
    let (alphas_s, t4) ← pNd t3
    let (centers_p, t5) ← pOptNd t4
    let (coeffs_p, t6) ← pOptNd t5
    let (alphas_p, t7) ← pOptNd t6
    if t7 ≠ [] then none else
    if !(points.WF && centers_s.WF && coeffs_s.WF && alphas_s.WF
          && [centers_p, coeffs_p, alphas_p].all fun a => match a with | some x => decide x.WF | none => true) then none else
    match Gen.CoulombPotential.coulomb_potential points centers_s coeffs_s alphas_s centers_p coeffs_p alphas_p n with
    | .ok v => pure ("ok " ++ sNd v)
    | .error e => e.tag
  | "C17.load" :: cache :: kind :: rest => do
    -- the GENERATED loader, started with an empty (`cold`) or a filled (`warm`) module-level cache;
    -- the answer ends with the state of the cache after the call (`0` = still `None`)
    let c0 : Cache ← match cache with
      | "cold" => some none
      | "warm" => some (some Gen.CoulombParams.json)
      | _ => none
    let el : PyObj ← match kind, rest with
      | "str", _ => do
        let (cs, tl) ← pVec pNat rest
        if tl ≠ [] then none else
        if cs.any (· ≥ 128) then none else
        pure (PyObj.str (String.ofList (cs.map Char.ofNat)))
      | "int", [n] => (pInt n).map PyObj.int
      | "npint", [n] => (pInt n).map PyObj.npInt
      | "bool", [b] => (pBool b).map PyObj.bool
      | "other", [] => some PyObj.other
      | _, _ => none
    let (r, c1) := (Gen.CoulombLoader.load_atomic_gaussian_params Gen.CoulombLoader.env el).run c0
    let st := match c1 with
      | none => " 0"
      | some t => if t == Gen.CoulombParams.json then " 1" else " 2"
    match r with
    | .ok (c, a) => pure ("ok " ++ sFloats (c.map decToFloat) ++ " " ++ sFloats (a.map decToFloat) ++ st)
    | .error e => e.tag.map (· ++ st)
  | _ => none

end GridVerif.Driver.C17

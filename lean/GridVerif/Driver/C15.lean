import GridVerif.Model.Proto
import GridVerif.Model.Elem
import GridVerif.Model.Ode
import GridVerif.Gen.Ode
import GridVerif.Model.OdeSolve

namespace GridVerif.Driver.C15
open GridVerif.Proto GridVerif.Ode GridVerif.Gen.Ode

def inf : Float := 1.0 / 0.0

/-- A transform object whose five methods return the given values (the model only ever evaluates them
at the one point of the op); domain = the whole line. -/
def constTf (t inv d1 d2 d3 : Float) : TransformFns Float :=
  ⟨fun _ => t, fun _ => inv, fun _ => d1, fun _ => d2, fun _ => d3, (-inf, inf)⟩

def consts (a : List Float) : List (Coeff Float) := a.map Coeff.const

def optVec : Option (List Float) → String → String
  | some v, _ => "ok " ++ sFloats v
  | none, err => err

def errTag : OdeErr → String
  | .valueError => "value-error"
  | .notImplementedError => "not-implemented-error"
  | .indexError => "index-error"

def pBd : Nat → List String → Option (List (Nat × Nat × Float) × List String)
  | 0, rest => some ([], rest)
  | n + 1, i :: j :: c :: rest => do
    let i ← pNat i
    let j ← pNat j
    let c ← pFloat c
    let (t, rest) ← pBd n rest
    pure ((i, j, c) :: t, rest)
  | _, _ => none

def pFloats : Nat → List String → Option (List Float × List String)
  | 0, rest => some ([], rest)
  | n + 1, s :: rest => do
    let v ← pFloat s
    let (t, rest) ← pFloats n rest
    pure (v :: t, rest)
  | _, _ => none

/-- A transform object given by its values at up to three points (`x0`, `x1`, anything else = the evaluation point). -/
def tableTf (x0 x1 : Float) (at0 at1 atp : List Float) (lo hi : Float) : TransformFns Float :=
  let pick (k : Nat) (x : Float) : Float :=
    (if x == x0 then at0 else if x == x1 then at1 else atp).getD k 0.0
  ⟨pick 0, pick 1, pick 2, pick 3, pick 4, (lo, hi)⟩

/-- Line-protocol handler of property C15: `C15.<op> args…` ↦ one answer line
(`none` = malformed, answered `bad-op`). -/
def handle : List String → Option String
  | "C15.bell" :: n :: k :: rest => do
    let n ← pNat n
    let k ← pNat k
    let (ds, tl) ← pVec pFloat rest
    if tl ≠ [] then none else
    pure ("ok " ++ sFloat (bell (seqOfList ds) n k))
  | "C15.coeffb" :: rest => do
    let (a, rest) ← pVec pFloat rest
    match rest with
    | [d0, d1, d2] =>
      let d0 ← pFloat d0
      let d1 ← pFloat d1
      let d2 ← pFloat d2
      -- the generated `_transform_ode_from_rtransform` (coefficients through `_evaluate_coeffs_on_points`)
      pure (optVec (transformOdeFromRtransform (consts a) (constTf 0.0 0.0 d0 d1 d2) 0.0) "not-modelled")
    | _ => none
  | "C15.dmat" :: order :: rest => do
    let order ← pNat order
    let (ds, tl) ← pVec pFloat rest
    if tl ≠ [] then none else
    if derivMatrixRaises order ds.length then pure "value-error" else
    pure ("ok " ++ sMat sFloat
      (matRows (derivativeTransformationMatrix (ds.map fun (d : Float) => fun (_ : Float) => d) 0.0 order) order))
  | "C15.explicit" :: rest => do
    let (y, rest) ← pVec pFloat rest
    let (b, rest) ← pVec pFloat rest
    match rest with
    | [fx] =>
      let fx ← pFloat fx
      match rearrangeToExplicitOde y b fx with
      | some v => pure ("ok " ++ sFloat v)
      | none => pure "index-error"
    | _ => none
  | "C15.warns" :: rest => do
    -- round 3: the generated test of the warning block of `_rearrange_to_explicit_ode` (one point)
    let (b, tl) ← pVec pFloat rest
    if tl ≠ [] then none else
    match rearrangeWarns ([] : List Float) b 0.0 with
    | some w => pure (if w then "ok 1" else "ok 0")
    | none => pure "index-error"
  | "C15.coeffbany" :: rest => do
    -- round 3: `_transform_ode_from_derivs` for any number of coefficients (Bell loop of the higher orders) and any
    -- number of derivative functions
    let (a, rest) ← pVec pFloat rest
    let (ds, tl) ← pVec pFloat rest
    if tl ≠ [] then none else
    pure (optVec (transformOdeFromDerivsAny (consts a) (ds.map fun (d : Float) => fun (_ : Float) => d) 0.0) "index-error")
  | ["C15.defaults"] =>
    -- round 3: the defaults of the keyword parameters as generated from the two signatures
    pure ("ok " ++ (if ivpDefaultNoDerivatives then "1" else "0") ++ " " ++ sFloat (ivpDefaultRtol : Float) ++ " "
      ++ sFloat (ivpDefaultAtol : Float) ++ " " ++ (if bvpDefaultNoDerivatives then "1" else "0") ++ " "
      ++ sFloat (bvpDefaultTol : Float) ++ " " ++ toString bvpDefaultMaxNodes ++ " " ++ ivpDefaultMethod)
  | op :: rest =>
    if op == "C15.func" || op == "C15.bfunc" then do
      let (a, rest) ← pVec pFloat rest
      match rest with
      | d0 :: d1 :: d2 :: fx :: rest =>
        let d0 ← pFloat d0
        let d1 ← pFloat d1
        let d2 ← pFloat d2
        let fx ← pFloat fx
        let (y, tl) ← pVec pFloat rest
        if tl ≠ [] then none else
        let f := if op == "C15.func" then ivpFunc (K := Float) else bvpFunc (K := Float)
        pure (optVec (f (consts a) (some (constTf 0.0 0.0 d0 d1 d2)) (fun _ => fx) 0.0 y) "error")
      | _ => none
    else if op == "C15.funcd" || op == "C15.bfuncd" then do
      let (a, rest) ← pVec pFloat rest
      match rest with
      | fx :: rest =>
        let fx ← pFloat fx
        let (y, tl) ← pVec pFloat rest
        if tl ≠ [] then none else
        let f := if op == "C15.funcd" then ivpFunc (K := Float) else bvpFunc (K := Float)
        pure (optVec (f (consts a) none (fun _ => fx) 0.0 y) "error")
      | _ => none
    else if op == "C15.ivpinit" then
      match rest with
      | x0 :: x1 :: t0 :: t1 :: d0 :: d1 :: d2 :: rest => do
        let x0 ← pFloat x0
        let x1 ← pFloat x1
        let t0 ← pFloat t0
        let t1 ← pFloat t1
        let d0 ← pFloat d0
        let d1 ← pFloat d1
        let d2 ← pFloat d2
        let (y0, tl) ← pVec pFloat rest
        if tl ≠ [] then none else
        -- the transform object: `transform(x0) = t0`, `transform(x1) = t1`, derivatives at `x0` as given
        let tf := tableTf x0 x1 [t0, 0.0, d0, d1, d2] [t1, 0.0, d0, d1, d2] [t1, 0.0, d0, d1, d2] (-inf) inf
        match ivpTransformSetup forwardSolve Float.isInf [x0, x1] y0 tf y0.length with
        | .ok (sp, y) => pure ("ok " ++ sFloats (sp ++ y))
        | .error e => pure (errTag e)
      | _ => none
    else if op == "C15.back" then
      match rest with
      | order :: nod :: d0 :: d1 :: d2 :: rest => do
        let order ← pNat order
        let nod ← pNat nod
        let d0 ← pFloat d0
        let d1 ← pFloat d1
        let d2 ← pFloat d2
        let (interp, tl) ← pVec pFloat rest
        if tl ≠ [] then none else
        pure (optVec (transformSolutionToOriginalDomain (okResult fun _ => interp) (constTf 0.0 0.0 d0 d1 d2) (nod != 0)
          order 0.0) "index-error")
      | _ => none
    else if op == "C15.bc" then
      match rest with
      | n :: rest => do
        let n ← pNat n
        let (bd, rest) ← pBd n rest
        let (ya, rest) ← pVec pFloat rest
        let (yb, tl) ← pVec pFloat rest
        if tl ≠ [] then none else
        pure (optVec (bvpBc bd ya yb) "index-error")
      | _ => none
    else if op == "C15.solveivp" then do
      -- whole `solve_ode_ivp`: has_tf nod status | x0 x1 pt | lo hi | 5 values of the transform at x0, x1, pt |
      -- coefficients | y0 | dense output (constant column)
      match rest with
      | hastf :: nod :: status :: x0 :: x1 :: pt :: lo :: hi :: rest =>
        let hastf ← pNat hastf
        let nod ← pNat nod
        let status ← pInt status
        let x0 ← pFloat x0
        let x1 ← pFloat x1
        let pt ← pFloat pt
        let lo ← pFloat lo
        let hi ← pFloat hi
        let (at0, rest) ← pFloats 5 rest
        let (at1, rest) ← pFloats 5 rest
        let (atp, rest) ← pFloats 5 rest
        let (a, rest) ← pVec pFloat rest
        let (y0, rest) ← pVec pFloat rest
        let (interp, tl) ← pVec pFloat rest
        if tl ≠ [] then none else
        let tf := if hastf != 0 then some (tableTf x0 x1 at0 at1 atp lo hi) else none
        -- the recorder: remembers nothing, answers with the given status and dense output; span / y0 it was handed
        -- are reported through the second run below
        let solve_ivp := fun (_ : Float → List Float → Option (List Float)) (_ _ : List Float) =>
          (⟨status, fun _ => interp⟩ : SolveResult Float)
        -- `nod = 2`: the keyword is left out by the caller (generated default wrapper)
        match (if nod == 2 then solveOdeIvpDefault solve_ivp forwardSolve Float.isInf [x0, x1] (fun _ => 0.0) (consts a) y0 tf
               else solveOdeIvp solve_ivp forwardSolve Float.isInf [x0, x1] (fun _ => 0.0) (consts a) y0 tf (nod != 0)) with
        | .error e => pure (errTag e)
        | .ok F => pure (optVec (F pt) "index-error")
      | _ => none
    else if op == "C15.solvebvp" then do
      -- whole `solve_ode_bvp`: has_tf nod status | pt | 5 values of the transform at pt | coefficients | n bd | dense output
      match rest with
      | hastf :: nod :: status :: pt :: rest =>
        let hastf ← pNat hastf
        let nod ← pNat nod
        let status ← pInt status
        let pt ← pFloat pt
        let (atp, rest) ← pFloats 5 rest
        let (a, rest) ← pVec pFloat rest
        match rest with
        | n :: rest =>
          let n ← pNat n
          let (bd, rest) ← pBd n rest
          let (interp, tl) ← pVec pFloat rest
          if tl ≠ [] then none else
          let tf := if hastf != 0 then some (tableTf pt pt atp atp atp (-inf) inf) else none
          let solve_bvp := fun (_ : Float → List Float → Option (List Float))
              (_ : List Float → List Float → Option (List Float)) (_ : List Float) =>
            (⟨status, fun _ => interp⟩ : SolveResult Float)
          match (if nod == 2 then solveOdeBvpDefault solve_bvp [pt] (fun _ => 0.0) (consts a) bd tf
                 else solveOdeBvp solve_bvp [pt] (fun _ => 0.0) (consts a) bd tf (nod != 0)) with
          | .error e => pure (errTag e)
          | .ok F => pure (optVec (F pt) "index-error")
        | _ => none
      | _ => none
    else none
  | _ => none

end GridVerif.Driver.C15

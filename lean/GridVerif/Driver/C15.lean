import GridVerif.Model.Proto
import GridVerif.Model.Elem
import GridVerif.Model.Ode
import GridVerif.Gen.Ode
import GridVerif.Model.OdeSolve

namespace GridVerif.Driver.C15
open GridVerif.Proto GridVerif.Ode GridVerif.Gen.Ode

/-- A transform object whose five methods return the given values (the model only ever evaluates them
at the one point of the op). -/
def constTf (t inv d1 d2 d3 : Float) : TransformFns Float :=
  ⟨fun _ => t, fun _ => inv, fun _ => d1, fun _ => d2, fun _ => d3⟩

def consts (a : List Float) : List (Coeff Float) := a.map Coeff.const

def optVec : Option (List Float) → String → String
  | some v, _ => "ok " ++ sFloats v
  | none, err => err

def pBd : Nat → List String → Option (List (Nat × Nat × Float) × List String)
  | 0, rest => some ([], rest)
  | n + 1, i :: j :: c :: rest => do
    let i ← pNat i
    let j ← pNat j
    let c ← pFloat c
    let (t, rest) ← pBd n rest
    pure ((i, j, c) :: t, rest)
  | _, _ => none

/-- Line-protocol handler of property C15: `C15.<op> args…` ↦ one answer line
(`none` = malformed, answered `bad-op`). -/
def handle : List String → Option String
  | "C15.bell" :: n :: k :: rest => do
    let n ← pNat n
    let k ← pNat k
    let (ds, tl) ← pVec pFloat rest
    if tl ≠ [] then none else
    pure ("ok " ++ sFloat (bell (seqOfList ds) n k))
  | "C15.coeffb" :: rest => do
    let (a, rest) ← pVec pFloat rest
    match rest with
    | [d0, d1, d2] =>
      let d0 ← pFloat d0
      let d1 ← pFloat d1
      let d2 ← pFloat d2
      pure (optVec (coeffB (evalCoeffs 0.0 (consts a)) d0 d1 d2) "not-modelled")
    | _ => none
  | "C15.dmat" :: order :: rest => do
    let order ← pNat order
    let (ds, tl) ← pVec pFloat rest
    if tl ≠ [] then none else
    if derivMatrixRaises order ds.length then pure "value-error" else
    pure ("ok " ++ sMat sFloat (matRows (derivMatrix (bell (seqOfList ds)) order) order))
  | "C15.explicit" :: rest => do
    let (y, rest) ← pVec pFloat rest
    let (b, rest) ← pVec pFloat rest
    match rest with
    | [fx] =>
      let fx ← pFloat fx
      match rearrangeToExplicitOde y b fx with
      | some v => pure ("ok " ++ sFloat v)
      | none => pure "index-error"
    | _ => none
  | "C15.func" :: rest => do
    let (a, rest) ← pVec pFloat rest
    match rest with
    | d0 :: d1 :: d2 :: fx :: rest =>
      let d0 ← pFloat d0
      let d1 ← pFloat d1
      let d2 ← pFloat d2
      let fx ← pFloat fx
      let (y, tl) ← pVec pFloat rest
      if tl ≠ [] then none else
      pure (optVec (odeFuncTransformed (consts a) (constTf 0.0 0.0 d0 d1 d2) (fun _ => fx) 0.0 y) "error")
    | _ => none
  | "C15.funcd" :: rest => do
    let (a, rest) ← pVec pFloat rest
    match rest with
    | fx :: rest =>
      let fx ← pFloat fx
      let (y, tl) ← pVec pFloat rest
      if tl ≠ [] then none else
      pure (optVec (odeFuncDirect (consts a) (fun _ => fx) 0.0 y) "error")
    | _ => none
  | "C15.ivpinit" :: x0 :: x1 :: t0 :: t1 :: d0 :: d1 :: d2 :: rest => do
    let x0 ← pFloat x0
    let x1 ← pFloat x1
    let t0 ← pFloat t0
    let t1 ← pFloat t1
    let d0 ← pFloat d0
    let d1 ← pFloat d1
    let d2 ← pFloat d2
    let (y0, tl) ← pVec pFloat rest
    if tl ≠ [] then none else
    -- the transform object: `transform(x0) = t0`, `transform(x1) = t1`, derivatives at `x0` as given
    let tf : TransformFns Float :=
      ⟨fun x => if x == x0 then t0 else t1, fun _ => 0.0, fun _ => d0, fun _ => d1, fun _ => d2⟩
    match ivpSetup tf x0 x1 y0 with
    | some ((a, b), y) => pure ("ok " ++ sFloats (a :: b :: y))
    | none => pure "index-error"
  | "C15.back" :: order :: nod :: d0 :: d1 :: d2 :: rest => do
    let order ← pNat order
    let nod ← pNat nod
    let d0 ← pFloat d0
    let d1 ← pFloat d1
    let d2 ← pFloat d2
    let (interp, tl) ← pVec pFloat rest
    if tl ≠ [] then none else
    pure (optVec (returnedCallable (constTf 0.0 0.0 d0 d1 d2) order (nod != 0) (fun _ => interp) 0.0) "index-error")
  | "C15.bc" :: n :: rest => do
    let n ← pNat n
    let (bd, rest) ← pBd n rest
    let (ya, rest) ← pVec pFloat rest
    let (yb, tl) ← pVec pFloat rest
    if tl ≠ [] then none else
    pure (optVec (bcResiduals bd ya yb) "index-error")
  | _ => none

end GridVerif.Driver.C15

import GridVerif.Model.Proto
import GridVerif.Model.Elem
import GridVerif.Model.NGrid
import GridVerif.Gen.NGrid

namespace GridVerif.Driver.C18
open GridVerif.Proto GridVerif.NGrid

/-
  Protocol (points travel as their index in their grid, `α = Nat`; the integrand as its
  table of values over the product set, row-major with the last domain fastest):

  gridspec := <mode: list|repeat> <nd> <ngrids> <fvec weights₁> … <fvec weights_k>
  C18.new    mode nd ngrids n₁ … n_k           -> ok | value-error
  C18.struct gridspec                          -> ok size <mat index combos> <fvec weights>
  C18.nonvec c gridspec <fvec table>           -> ok value
  C18.vec    gridspec <fvec table>             -> ok value | value-error
  C18.vecbad gridspec <fvec table>             -> (integrand returns one value too few) value-error
  C18.chunks c n                               -> ok k len₁ … len_k   (chunk lengths of n items)

  The same operations on the generated programs (Gen/NGrid.lean), run as they are:
  C18.gen-new / gen-struct / gen-nonvec / gen-vec / gen-vecbad / gen-chunks   (same arguments, same answers)
  C18.gen-moments orders type_mom|default 0|1|default gridspec <mat centres> <fvec values>  -> not-implemented
  C18.gen-localgrid gridspec <fvec centre> <fvec radius>                                    -> not-implemented
-/

def parseGrids : Nat → List String → Option (List (Grid Nat Float) × List String)
  | 0, rest => some ([], rest)
  | k + 1, toks => do
    let (w, rest) ← pVec pFloat toks
    let (gs, rest) ← parseGrids k rest
    pure (⟨List.range w.length, w⟩ :: gs, rest)

/-- -> (constructor result, remaining tokens) -/
def parseSpec : List String → Option (Except Err (MGrid Nat Float) × List String)
  | mode :: nd :: ng :: rest => do
    let nd ← pNat nd
    let ng ← pNat ng
    let (gs, rest) ← parseGrids ng rest
    match mode with
    | "list" => pure (MGrid.mk? gs none, rest)
    | "repeat" => pure (MGrid.mk? gs (some nd), rest)
    | _ => none
  | _ => none

def tableFun (g : MGrid Nat Float) (table : List Float) : List Nat → Float :=
  let sizes := g.domains.map Grid.size
  fun combo => table.getD (flatIndex sizes combo) (0.0 / 0.0)

def showRes : Except Err Float → String
  | .ok v => "ok " ++ sFloat v
  | .error .valueError => "value-error"
  | .error .typeError => "type-error"
  | .error .indexError => "index-error"
  | .error .notImplementedError => "not-implemented"
  | .error .nonTermination => "non-termination"

/-- the generated constructor on a grid specification -/
def parseSpecGen : List String → Option (Except Err (Gen.NGrid.MultiDomainGrid Nat Float) × List String)
  | mode :: nd :: ng :: rest => do
    let nd ← pNat nd
    let ng ← pNat ng
    let (gs, rest) ← parseGrids ng rest
    match mode with
    | "list" => pure (Gen.NGrid.MultiDomainGrid.init gs none, rest)
    | "repeat" => pure (Gen.NGrid.MultiDomainGrid.init gs (some nd), rest)
    | _ => none
  | _ => none

def showResE : Except Err String → String
  | .ok s => s
  | .error .valueError => "value-error"
  | .error .typeError => "type-error"
  | .error .indexError => "index-error"
  | .error .notImplementedError => "not-implemented"
  | .error .nonTermination => "non-termination"

def genIntegrand (g : Gen.NGrid.MultiDomainGrid Nat Float) (table : List Float) (bad : Bool) : Integrand Nat Float :=
  let f := tableFun ⟨g.grid_list, g._num_domains⟩ table
  ⟨f, fun pre xs => (xs.map fun x => f (pre ++ [x])).drop (if bad then 1 else 0)⟩

def handleGen : List String → Option String
  | "C18.gen-new" :: mode :: nd :: ng :: rest => do
    let nd ← pNat nd
    let ng ← pNat ng
    let ns ← rest.mapM pNat
    if ns.length ≠ ng then none else
    let gs : List (Grid Nat Float) := ns.map fun n => ⟨List.range n, List.replicate n 1.0⟩
    let r ← match mode with
      | "list" => some (Gen.NGrid.MultiDomainGrid.init gs none)
      | "repeat" => some (Gen.NGrid.MultiDomainGrid.init gs (some nd))
      | _ => none
    pure (showResE (r.map fun _ => "ok"))
  | "C18.gen-struct" :: spec => do
    let (r, rest) ← parseSpecGen spec
    if rest ≠ [] then none else
    pure (showResE do
      let g ← r
      let size ← g.size
      let points ← g.points
      let weights ← g.weights
      pure s!"ok {size} {sMat toString points} {sFloats weights}")
  | "C18.gen-nonvec" :: c :: spec => do
    let c ← pNat c
    let (r, rest) ← parseSpecGen spec
    let (table, rest) ← pVec pFloat rest
    if rest ≠ [] then none else
    pure (showResE do
      let g ← r
      let v ← g.integrate (genIntegrand g table false) true c
      pure ("ok " ++ sFloat v))
  | "C18.gen-vec" :: spec => do
    let (r, rest) ← parseSpecGen spec
    let (table, rest) ← pVec pFloat rest
    if rest ≠ [] then none else
    pure (showResE do
      let g ← r
      let v ← g.integrate (genIntegrand g table false) false 6000
      pure ("ok " ++ sFloat v))
  | "C18.gen-vecbad" :: spec => do
    let (r, rest) ← parseSpecGen spec
    let (table, rest) ← pVec pFloat rest
    if rest ≠ [] then none else
    pure (showResE do
      let g ← r
      let v ← g.integrate (genIntegrand g table true) false 6000
      pure ("ok " ++ sFloat v))
  | "C18.gen-moments" :: orders :: tm :: ro :: spec => do
    -- orders, type_mom (a word, or `default` = argument omitted), return_orders (0 / 1 / `default`),
    -- grid specification, centres (matrix), function values (vector)
    let orders ← pInt orders
    let (r, rest) ← parseSpecGen spec
    let (centers, rest) ← pMat pFloat rest
    let (vals, rest) ← pVec pFloat rest
    if rest ≠ [] then none else
    let ro ← match ro with
      | "0" => some (some false)
      | "1" => some (some true)
      | "default" => some none
      | _ => none
    pure (showResE do
      let g ← r
      let _m : List (List Float) ← match tm, ro with
        | "default", none => g.moments orders centers vals
        | "default", some b => g.moments orders centers vals (return_orders := b)
        | t, none => g.moments orders centers vals t
        | t, some b => g.moments orders centers vals t b
      pure "ok")
  | "C18.gen-localgrid" :: spec => do
    let (r, rest) ← parseSpecGen spec
    let (center, rest) ← pVec pFloat rest
    let (radius, rest) ← pVec pFloat rest
    if rest ≠ [] then none else
    pure (showResE do
      let g ← r
      let _l : Gen.NGrid.MultiDomainGrid Nat Float ← g.get_localgrid center radius
      pure "ok")
  | ["C18.gen-chunks", c, n] => do
    let c ← pNat c
    let n ← pNat n
    pure (showResE do
      let chunks ← Gen.NGrid.chunkedIterator (List.range n) c
      pure ("ok " ++ sNats (chunks.map List.length)))
  | _ => none

def handle : List String → Option String
  | "C18.new" :: mode :: nd :: ng :: rest => do
    let nd ← pNat nd
    let ng ← pNat ng
    let ns ← rest.mapM pNat
    if ns.length ≠ ng then none else
    let gs : List (Grid Nat Float) := ns.map fun n => ⟨List.range n, List.replicate n 1.0⟩
    let r ← match mode with
      | "list" => some (MGrid.mk? gs none)
      | "repeat" => some (MGrid.mk? gs (some nd))
      | _ => none
    match r with
    | .ok _ => pure "ok"
    | .error _ => pure "value-error"
  | "C18.struct" :: spec => do
    let (r, rest) ← parseSpec spec
    if rest ≠ [] then none else
    match r with
    | .error _ => pure "value-error"
    | .ok g => pure s!"ok {g.size} {sMat toString g.points} {sFloats g.weights}"
  | "C18.nonvec" :: c :: spec => do
    let c ← pNat c
    let (r, rest) ← parseSpec spec
    let (table, rest) ← pVec pFloat rest
    if rest ≠ [] then none else
    match r with
    | .error _ => pure "value-error"
    | .ok g =>
      if table.length ≠ g.size then none else
      pure (showRes (.ok (g.integrateNonVec (tableFun g table) c)))
  | "C18.vec" :: spec => do
    let (r, rest) ← parseSpec spec
    let (table, rest) ← pVec pFloat rest
    if rest ≠ [] then none else
    match r with
    | .error _ => pure "value-error"
    | .ok g =>
      if table.length ≠ g.size then none else
      let f := tableFun g table
      pure (showRes (g.integrateVec fun pre xs => xs.map fun x => f (pre ++ [x])))
  | "C18.vecbad" :: spec => do
    let (r, rest) ← parseSpec spec
    let (table, rest) ← pVec pFloat rest
    if rest ≠ [] then none else
    match r with
    | .error _ => pure "value-error"
    | .ok g =>
      if table.length ≠ g.size then none else
      let f := tableFun g table
      pure (showRes (g.integrateVec fun pre xs => (xs.map fun x => f (pre ++ [x])).drop 1))
  | ["C18.chunks", c, n] => do
    let c ← pNat c
    let n ← pNat n
    pure ("ok " ++ sNats ((chunked c (List.range n)).map List.length))
  | toks => handleGen toks

end GridVerif.Driver.C18

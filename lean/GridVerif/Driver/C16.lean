import GridVerif.Model.Proto
import GridVerif.Model.Elem
import GridVerif.Model.Poisson
import GridVerif.Gen.Poisson
import GridVerif.Gen.PoissonRobust
import GridVerif.Model.PoissonRobust

namespace GridVerif.Driver.C16
open GridVerif.Proto GridVerif.Poisson GridVerif.Gen.Poisson GridVerif.PoissonRobust GridVerif.Gen.PoissonRobust

def pBool : String → Option Bool
  | "0" => some false
  | "1" => some true
  | _ => none

def sBool (b : Bool) : String := if b then "1" else "0"

def sBc (bc : List (Nat × Nat × Float)) : String :=
  String.intercalate " " (toString bc.length :: bc.map fun t => s!"{t.1} {t.2.1} {sFloat t.2.2}")

/-- parse `k` groups `center(vec) coeffs(vec)` -/
def pSteps : Nat → List String → Option (List (List Float × List Float) × List String)
  | 0, rest => some ([], rest)
  | k + 1, rest => do
    let (c, t1) ← pVec pFloat rest
    let (x, t2) ← pVec pFloat t1
    let (more, t3) ← pSteps k t2
    pure ((c, x) :: more, t3)

/-- Round-3 ops: the statement-wise generated text of `robust_poisson.py` and the additions to the
generated text of `poisson.py`. -/
def handle2 : List String → Option String
  | ["C16.consts2"] =>
    some (String.intercalate " " ["ok",
      sFloat (ivpPublicIntervalDefault : Float × Float).1, sFloat (ivpPublicIntervalDefault : Float × Float).2,
      sBool bvpPublicIncludeOriginDefault, sFloat (bvpPublicRemoveLargeDefault : Float),
      sFloat (molWrapWeight : Float), sFloat (molWrapAtnum : Float), sBool molWrapStore, sBool molRequiresStore,
      sFloat (bvpY00Angles : Float × Float).1, sFloat (bvpY00Angles : Float × Float).2,
      sFloat (ivpY00Angles : Float × Float).1, sFloat (ivpY00Angles : Float × Float).2,
      toString bvpDomainIndex, toString bvpWhereIndex,
      sFloat (defaultBasisStart : Float), sFloat (defaultBasisStop : Float), toString defaultBasisNum,
      toString fitEmptyCentersShape.1, toString fitEmptyCentersShape.2, toString robustFitInitShape.1, toString robustFitInitShape.2,
      sBool coreZipStrict, sBool robustZipStrict, toString coreSumAxis, toString fitSumAxis, toString totalTileCols,
      sBool robustSplit2Dflt, sBool robustCopiesDensity, sBool fitCopiesResidual])
  | ["C16.domain", d] => do
    let d ← pFloat d
    if bvpDomainRejects d then pure "value-error" else pure "ok"
  | ["C16.typeguard", opt, kind] =>
    match typeGuardAccepts bvpTypeGuards opt kind with
    | some true => some "ok"
    | some false => some "type-error"
    | none => some "ok no-guard"
  | ["C16.splineidx", n] => do
    let n ← pNat n
    pure ("ok " ++ sNats (splineIndexSeq bvpSplineStart bvpSplineStep n) ++ " " ++ sNats (splineIndexSeq ivpSplineStart ivpSplineStep n))
  | ["C16.harmdeg", lmax] => do
    let lmax ← pNat lmax
    pure s!"ok {bvpHarmDegree lmax} {ivpHarmDegree lmax}"
  | ["C16.wrap", size] => do
    let size ← pNat size
    pure ("ok " ++ sFloats (wrapWeights (molWrapWeight : Float) size))
  | "C16.core2" :: rest => do
    let (p, t1) ← pVec pFloat rest
    let (c, t2) ← pVec pFloat t1
    let (cs, t3) ← pVec pFloat t2
    let (as, t4) ← pVec pFloat t3
    if t4 ≠ [] ∨ p.length ≠ c.length then none else
    match coreDensityAt p c cs as with
    | some v => pure ("ok " ++ sFloat v ++ " " ++ sFloat (coreRSq p c))
    | none => pure "value-error"
  | "C16.fitmatrix" :: rest => do
    let (c, t1) ← pVec pFloat rest
    let (as, t2) ← pVec pFloat t1
    let (pts, t3) ← pMat pFloat t2
    if t3 ≠ [] then none else
    pure ("ok " ++ sMat sFloat (fitMatrix pts c as))
  | "C16.fit" :: rest => do
    let (as, t1) ← pVec pFloat rest
    let (pts, t2) ← pMat pFloat t1
    let (res, t3) ← pVec pFloat t2
    match t3 with
    | [] => none
    | k :: t4 => do
      let k ← pNat k
      let (steps, t5) ← pSteps k t4
      if t5 ≠ [] ∨ res.length ≠ pts.length then none else
      if steps.any (fun s => s.2.length ≠ as.length) then pure "value-error" else
      let kept := fitKept as steps
      let trace := (List.zip pts res).map fun pr => fitResidualTrace as steps pr.1 pr.2
      pure (String.intercalate " " ["ok", sFloats (kept.map (·.1)), sFloats (kept.map (·.2.1)), sMat sFloat (kept.map (·.2.2)),
        sMat sFloat trace, sFloats ((List.zip pts res).map fun pr => fittedDensityAt kept pr.1)])
  | ["C16.defaultbasis"] => some ("ok " ++ sFloats (defaultBasis : List Float))
  | ["C16.shape", ndim, len, npts] => do
    let ndim ← pNat ndim
    let len ← pNat len
    let npts ← pNat npts
    if robustShapeRejects ndim len npts then pure "value-error" else pure "ok"
  | ["C16.basis", ndim, size] => do
    let ndim ← pNat ndim
    let size ← pNat size
    if robustBasisRejects ndim size then pure "value-error" else pure "ok"
  | "C16.alphas" :: rest => do
    let (as, t1) ← pVec pFloat rest
    if t1 ≠ [] then none else
    if as.any (fun a => decide (robustAlphaRejects a)) then pure "value-error" else pure "ok"
  | ["C16.tpoints", ndim, cols] => do
    let ndim ← pNat ndim
    let cols ← pNat cols
    if totalPointsRejects ndim cols then pure "value-error" else pure "ok"
  | "C16.resid2" :: rho :: rest => do
    let rho ← pFloat rho
    let (cores, t1) ← pVec pFloat rest
    if t1 ≠ [] then none else
    pure ("ok " ++ sFloat (robustResidualAt rho cores))
  | "C16.total2" :: nfit :: vf :: vr :: rest => do
    let nfit ← pNat nfit
    let vf ← pFloat vf
    let vr ← pFloat vr
    let (pots, t1) ← pVec pFloat rest
    if t1 ≠ [] then none else
    pure ("ok " ++ sFloat (totalAt pots nfit vf vr))
  | _ => none

/-- Line-protocol handler of property C16: `C16.<op> args…` ↦ one answer line
(`none` = malformed, answered `bad-op`). -/
def handle : List String → Option String
  | ["C16.y00"] => some ("ok " ++ sFloat (y00 : Float))
  | ["C16.consts"] =>
    some (String.intercalate " " ["ok", sFloat (bvpTol : Float), toString bvpMaxNodes, sBool bvpNoDerivatives,
      sFloat (bvpRemoveLargeDefault : Float), sBool bvpIncludeOriginDefault, ivpMethod, sFloat (ivpRtol : Float),
      sFloat (ivpAtol : Float), sFloat (ivpIntervalDefault : Float × Float).1, sFloat (ivpIntervalDefault : Float × Float).2,
      sBool robustSplit2Default])
  | ["C16.bvp", l, r, rho] => do
    let l ← pNat l
    let r ← pFloat r
    let rho ← pFloat rho
    pure ("ok " ++ sFloats (bvpCoeffs l r) ++ " " ++ sFloat (bvpRhs rho r))
  | ["C16.ivp", l, r, rho] => do
    let l ← pNat l
    let r ← pFloat r
    let rho ← pFloat rho
    pure ("ok " ++ sFloats (ivpCoeffs l r) ++ " " ++ sFloat (ivpRhs rho r))
  | ["C16.boundary", q, y] => do
    let q ← pFloat q
    let y ← pFloat y
    pure ("ok " ++ sFloat (bvpBoundary q y) ++ " " ++ sFloat (ivpBoundary q y))
  | ["C16.bvpseq", lmax, b] => do
    let lmax ← pNat lmax
    let b ← pFloat b
    let ps := bvpProblems lmax b
    pure (String.intercalate " " ("ok" :: toString ps.length :: ps.map fun p => s!"{p.1} {p.2.1} {sBc p.2.2}"))
  | ["C16.ivpseq", lmax, b, rmax] => do
    let lmax ← pNat lmax
    let b ← pFloat b
    let rmax ← pFloat rmax
    let ps := ivpProblems lmax b rmax
    pure (String.intercalate " " ("ok" :: toString ps.length :: ps.map fun p => s!"{p.1} {p.2.1} {sFloats p.2.2}"))
  | ["C16.interval", r0, r1] => do
    let r0 ← pFloat r0
    let r1 ← pFloat r1
    if ivpRejects r0 r1 then pure "value-error" else pure ("ok " ++ sFloat (ivpRMax r0 r1))
  | "C16.radpts" :: inc :: rl :: t :: rest => do
    let inc ← pBool inc
    let rl ← pBool rl
    let t ← pFloat t
    let (pts, tl) ← pVec pFloat rest
    if tl ≠ [] then none else
    pure ("ok " ++ sFloats (radPoints pts inc (if rl then some t else none)))
  | ["C16.value", u, r] => do
    let u ← pFloat u
    let r ← pFloat r
    pure ("ok " ++ sFloat (bvpValue u r) ++ " " ++ sFloat (ivpValue u r))
  | "C16.pot" :: r :: rest => do
    let r ← pFloat r
    let (us, t1) ← pVec pFloat rest
    let (ys, t2) ← pVec pFloat t1
    if t2 ≠ [] ∨ us.length ≠ ys.length then none else
    pure ("ok " ++ sFloat (bvpPotentialAt us r ys) ++ " " ++ sFloat (ivpPotentialAt us r ys))
  | "C16.slices" :: rest => do
    let (f, t1) ← pVec pFloat rest
    let (w, t2) ← pVec pFloat t1
    let (idx, t3) ← pVec pNat t2
    if t3 ≠ [] ∨ f.length ≠ w.length then none else
    match atomSlices f w idx with
    | some ss => pure (String.intercalate " " ("ok" :: toString ss.length :: ss.map sFloats))
    | none => pure "index-error"
  | "C16.molsum" :: rest => do
    let (vs, t1) ← pVec pFloat rest
    if t1 ≠ [] then none else
    match molSum vs with
    | some v => pure ("ok " ++ sFloat v)
    | none => pure "index-error"
  | "C16.core" :: rsq :: rest => do
    let rsq ← pFloat rsq
    let (cs, t1) ← pVec pFloat rest
    let (as, t2) ← pVec pFloat t1
    if t2 ≠ [] then none else
    if cs.length ≠ as.length then pure "value-error" else
    pure ("ok " ++ sFloat (coreDensity cs as rsq))
  | "C16.residual" :: rho :: rest => do
    let rho ← pFloat rho
    let (cores, t1) ← pVec pFloat rest
    if t1 ≠ [] then none else
    pure ("ok " ++ sFloat (robustResidualAll rho cores))
  | "C16.total" :: vb :: vr :: rest => do
    let vb ← pFloat vb
    let vr ← pFloat vr
    let (pots, t1) ← pVec pFloat rest
    if t1 ≠ [] then none else
    pure ("ok " ++ sFloat (robustPotential pots vb vr))
  | ["C16.lapconsts"] =>
    some (String.intercalate " " ["ok", sFloat (lapCutoffDefault : Float), sFloat (lapCutOffDefault : Float), sBool lapRequiresStore,
      toString lapFirstOrder, toString lapSecondOrder, toString lapThirdOrder])
  | ["C16.lapclamp", r, c] => do
    let r ← pFloat r
    let c ← pFloat c
    pure ("ok " ++ sFloat (lapClamp r c))
  | ["C16.lapdeg", lmax] => do
    let lmax ← pNat lmax
    let ds := lapDegrees lmax
    pure (String.intercalate " " ("ok" :: toString ds.length :: ds.map toString))
  | "C16.lap" :: lmax :: r :: c :: rest => do
    let lmax ← pNat lmax
    let r ← pFloat r
    let c ← pFloat c
    let (rho, t1) ← pVec pFloat rest
    let (rho1, t2) ← pVec pFloat t1
    let (rho2, t3) ← pVec pFloat t2
    let (ys, t4) ← pVec pFloat t3
    let degs : List Float := lapDegreesK lmax
    if t4 ≠ [] then none else
    if rho.length ≠ ys.length ∨ rho1.length ≠ ys.length ∨ rho2.length ≠ ys.length ∨ degs.length ≠ ys.length then pure "value-error" else
    pure ("ok " ++ sFloat (laplacianAt rho rho1 rho2 degs ys r c))
  | "C16.lapslices" :: rest => do
    let (f, t1) ← pVec pFloat rest
    let (w, t2) ← pVec pFloat t1
    let (idx, t3) ← pVec pNat t2
    if t3 ≠ [] ∨ f.length ≠ w.length then none else
    match lapTermSlices f w idx with
    | some ss => pure (String.intercalate " " ("ok" :: toString ss.length :: ss.map fun p => toString p.1 ++ " " ++ sFloats p.2))
    | none => pure "index-error"
  | "C16.lapsum" :: rest => do
    let (vs, t1) ← pVec pFloat rest
    if t1 ≠ [] then none else
    match lapSum vs with
    | some v => pure ("ok " ++ sFloat v)
    | none => pure "index-error"
  | args => handle2 args

end GridVerif.Driver.C16

import GridVerif.Model.Proto
import GridVerif.Model.Elem
import GridVerif.Model.Moments
import GridVerif.Gen.Moments
import GridVerif.Model.MomentsNum
import GridVerif.Gen.MomentsNum

namespace GridVerif.Driver.C14
open GridVerif.Proto GridVerif.Moments

/-
  C14.horton   <type> <dim> <l>                      -> ok <imat rows> | value-error
  C14.orders   <type> <dim> <L>                      -> ok <imat rows>          (stacked, no checks)
  C14.rowindex <l> <m>                               -> ok <int>
  C14.moments  <type> <L> <dim> <fmat points> <fvec weights> <fvec f> <fmat centres>
               <ntabs> <fmat tab>…                   -> ok <fmat values> <imat orders> | error tag
  C14.moments-flat <type> <L> <fvec points> <fvec weights> <fvec f> <fmat centres>   (points.ndim == 1)
  C14.dipole   <dim> <fmat points> <fvec weights> <fvec density> <fmat coords> <fvec charges>
               <fvec masses>                         -> ok <fvec> | error tag
  type ∈ cartesian | radial | pure | pure-radial

  the generated programs (Gen/Moments.lean), run as they are:
  C14.gen-horton  <type-string> <dim:int> <l:int>     -> ok <arr> | error tag
  C14.gen-orders  <ivec points.shape> <ivec centers.shape> <ivec func_vals.shape> <L:int>
                  <type name of orders> <type-string>  -> ok <dim> <ivec orders> <arr> | error tag
  C14.gen-degree  <ivec orders>                        -> ok <int> | error tag
  C14.gen-indices <arr>                                -> ok <ivec> | error tag
  arr := 1 <ivec>  |  2 <imat>

  the generated numeric programs (Gen/MomentsNum.lean), run as they are (round 3):
  C14.gen-moments <type-string | default> <L:int> <type name of orders> <0 | 1 | default : return_orders>
                  <ivec points.shape> <fmat point rows> <fvec weights> <ivec centers.shape> <fmat centres>
                  <ivec func_vals.shape> <fvec f> <ntabs> <fmat tab>…
                                                        -> ok <fmat values> (0 | 1 <arr>) | error tag
                  (the tables are `solid_harmonics(L, sph(points - centre))` per centre, from the library;
                   `convert_cart_to_sph` rejects points that are not three-dimensional, as the library does)
  C14.gen-integrate <size:int> <fvec weights> <nargs> (nd <ivec shape> <fvec data> | other)…  -> ok <float> | error tag
  C14.gen-mass <Z:int>                                 -> ok <float> | key-error
  C14.gen-dipole <ivec points.shape> <fmat points> <fvec weights> <fvec density> <fmat coords> <ivec charges>
                                                        -> ok <fvec> | error tag
  C14.gen-multidomain <L:int> <type-string | default> <0 | 1 | default>   -> not-implemented-error
-/

def pType : String → Option MomType
  | "cartesian" => some .cartesian
  | "radial" => some .radial
  | "pure" => some .pure
  | "pure-radial" => some .pureRadial
  | _ => none

def sErr : Err → String
  | .valueError => "value-error"
  | .typeError => "type-error"
  | .indexError => "index-error"
  | .keyError => "key-error"
  | .unboundLocalError => "unbound-local-error"
  | .notImplementedError => "not-implemented-error"
  | .attributeError => "attribute-error"

def sArr : IntArr → String
  | .d1 v => "1 " ++ sInts v
  | .d2 r => "2 " ++ sMat toString r

def pArr : List String → Option (IntArr × List String)
  | "1" :: rest => do
    let (v, rest) ← pVec pInt rest
    pure (.d1 v, rest)
  | "2" :: rest => do
    let (m, rest) ← pMat pInt rest
    pure (.d2 m, rest)
  | _ => none

def pTabs : Nat → List String → Option (List (List (List Float)) × List String)
  | 0, rest => some ([], rest)
  | k + 1, toks => do
    let (t, rest) ← pMat pFloat toks
    let (ts, rest) ← pTabs k rest
    pure (t :: ts, rest)

/-- `convert_cart_to_sph` as far as the moments need it: it rejects points that are not `(N, 3)`; the
spherical coordinates themselves only travel on to `solid_harmonics`, so the centred points are handed on. -/
def sphOracle (pts : List (List Float)) : Except Err (List (List Float)) :=
  if pts.all (fun p => p.length == 3) then .ok pts else .error .valueError

/-- `solid_harmonics(deg, sph(points - centre))`: the table the library computed for that centre. -/
def solidOracle (points centres : List (List Float)) (tabs : List (List (List Float))) (_deg : Int)
    (cp : List (List Float)) : Except Err (List (List Float)) :=
  match (centres.zip tabs).find? (fun ct => (points.map fun p => vsub p ct.1) == cp) with
  | some ct => .ok ct.2
  | none => .error .keyError

def pArgs : Nat → List String → Option (List (PyArg Float) × List String)
  | 0, rest => some ([], rest)
  | k + 1, "other" :: rest => do
    let (as, rest) ← pArgs k rest
    pure (.other :: as, rest)
  | k + 1, "nd" :: rest => do
    let (sh, rest) ← pVec pInt rest
    let (d, rest) ← pVec pFloat rest
    let (as, rest) ← pArgs k rest
    pure (.ndarray sh d :: as, rest)
  | _, _ => none

def pRet (dflt : Bool) : String → Option Bool
  | "0" => some false
  | "1" => some true
  | "default" => some dflt
  | _ => none

def handleNum : List String → Option String
  | "C14.gen-moments" :: ty :: L :: otype :: ret :: rest => do
    let ty := if ty == "default" then Gen.MomentsNum.gridMomentsDefaultTypeMom else ty
    let L ← pInt L
    let ret ← pRet Gen.MomentsNum.gridMomentsDefaultReturnOrders ret
    let (ps, rest) ← pVec pInt rest
    let (pts, rest) ← pMat pFloat rest
    let (w, rest) ← pVec pFloat rest
    let (cs, rest) ← pVec pInt rest
    let (cen, rest) ← pMat pFloat rest
    let (fs, rest) ← pVec pInt rest
    let (f, rest) ← pVec pFloat rest
    let nt ← rest.head?.bind pNat
    let (tabs, rest) ← pTabs nt (rest.drop 1)
    if rest ≠ [] then none else
    match Gen.MomentsNum.gridMoments sphOracle (solidOracle pts cen tabs) ps pts w L otype cs cen fs f ty ret with
    | .ok (vals, none) => pure s!"ok {sMat sFloat vals} 0"
    | .ok (vals, some a) => pure s!"ok {sMat sFloat vals} 1 {sArr a}"
    | .error e => pure (sErr e)
  | "C14.gen-integrate" :: size :: rest => do
    let size ← pInt size
    let (w, rest) ← pVec pFloat rest
    let n ← rest.head?.bind pNat
    let (args, rest) ← pArgs n (rest.drop 1)
    if rest ≠ [] then none else
    match Gen.MomentsNum.gridIntegrate size w args with
    | .ok v => pure ("ok " ++ sFloat v)
    | .error e => pure (sErr e)
  | ["C14.gen-mass", z] => do
    let z ← pInt z
    match pyDictGet (Gen.MomentsNum.isotopic_masses (K := Float)) z with
    | .ok v => pure ("ok " ++ sFloat v)
    | .error e => pure (sErr e)
  | "C14.gen-dipole" :: rest => do
    let (ps, rest) ← pVec pInt rest
    let (pts, rest) ← pMat pFloat rest
    let (w, rest) ← pVec pFloat rest
    let (dens, rest) ← pVec pFloat rest
    let (coords, rest) ← pMat pFloat rest
    let (charges, rest) ← pVec pInt rest
    if rest ≠ [] then none else
    let gm := fun (o : Int) (ot : String) (cen : List (List Float)) (f : List Float) (ty : String) (ret : Bool) =>
      Gen.MomentsNum.gridMoments sphOracle (fun _ _ => .error .keyError) ps pts w o ot
        [(cen.length : Int), ((cen.headD []).length : Int)] cen [(f.length : Int)] f ty ret
    match Gen.MomentsNum.dipoleMomentOfMolecule gm dens coords charges with
    | .ok v => pure ("ok " ++ sFloats v)
    | .error e => pure (sErr e)
  | ["C14.gen-multidomain", L, ty, ret] => do
    let L ← pInt L
    let ty := if ty == "default" then Gen.MomentsNum.multiDomainGridMomentsDefaultTypeMom else ty
    let ret ← pRet Gen.MomentsNum.multiDomainGridMomentsDefaultReturnOrders ret
    match Gen.MomentsNum.multiDomainGridMoments L [] [] ty ret with
    | .ok _ => pure "ok"
    | .error e => pure (sErr e)
  | _ => none

def handle : List String → Option String
  | ["C14.horton", ty, dim, l] => do
    let ty ← pType ty
    let dim ← pNat dim
    let l ← pNat l
    match hortonOrders ty dim l with
    | .ok rows => pure ("ok " ++ sMat toString rows)
    | .error e => pure (sErr e)
  | ["C14.orders", ty, dim, L] => do
    let ty ← pType ty
    let dim ← pNat dim
    let L ← pNat L
    pure ("ok " ++ sMat toString (allOrdersRaw ty L dim))
  | ["C14.rowindex", l, m] => do
    let l ← pInt l
    let m ← pInt m
    pure s!"ok {rowIndex l m}"
  | "C14.moments" :: ty :: L :: dim :: rest => do
    let ty ← pType ty
    let L ← pNat L
    let dim ← pNat dim
    let (pts, rest) ← pMat pFloat rest
    let (w, rest) ← pVec pFloat rest
    let (f, rest) ← pVec pFloat rest
    let (cs, rest) ← pMat pFloat rest
    let nt ← rest.head?.bind pNat
    let (tabs, rest) ← pTabs nt (rest.drop 1)
    if rest ≠ [] then none else
    if pts.length ≠ w.length then none else
    match moments ty L (⟨dim, pts, w⟩ : Grid Float) cs f tabs with
    | .ok (vals, orders) => pure s!"ok {sMat sFloat vals} {sMat toString orders}"
    | .error e => pure (sErr e)
  | "C14.moments-flat" :: ty :: L :: rest => do
    -- Grid.moments on a grid with a one-dimensional point array (OneDGrid)
    let ty ← pType ty
    let L ← pNat L
    let (pts, rest) ← pVec pFloat rest
    let (w, rest) ← pVec pFloat rest
    let (f, rest) ← pVec pFloat rest
    let (cs, rest) ← pMat pFloat rest
    if rest ≠ [] then none else
    if pts.length ≠ w.length then none else
    match moments ty L (Grid.ofFlat pts w : Grid Float) cs f [] with
    | .ok (vals, orders) => pure s!"ok {sMat sFloat vals} {sMat toString orders}"
    | .error e => pure (sErr e)
  | "C14.dipole" :: dim :: rest => do
    let dim ← pNat dim
    let (pts, rest) ← pMat pFloat rest
    let (w, rest) ← pVec pFloat rest
    let (dens, rest) ← pVec pFloat rest
    let (coords, rest) ← pMat pFloat rest
    let (charges, rest) ← pVec pFloat rest
    let (masses, rest) ← pVec pFloat rest
    if rest ≠ [] then none else
    if pts.length ≠ w.length ∨ coords.length ≠ charges.length ∨ masses.length ≠ charges.length then none else
    match dipole (⟨dim, pts, w⟩ : Grid Float) dens coords charges masses with
    | .ok v => pure ("ok " ++ sFloats v)
    | .error e => pure (sErr e)
  | ["C14.gen-horton", ty, dim, l] => do
    let dim ← pInt dim
    let l ← pInt l
    match Gen.Moments.generateOrdersHortonOrder l ty dim with
    | .ok a => pure ("ok " ++ sArr a)
    | .error e => pure (sErr e)
  | "C14.gen-orders" :: rest => do
    let (ps, rest) ← pVec pInt rest
    let (cs, rest) ← pVec pInt rest
    let (fs, rest) ← pVec pInt rest
    match rest with
    | [L, otype, ty] =>
      let L ← pInt L
      match Gen.Moments.momentsOrders ps cs fs L otype ty with
      | .ok (dim, os, a) => pure s!"ok {dim} {sInts os} {sArr a}"
      | .error e => pure (sErr e)
    | _ => none
  | "C14.gen-degree" :: rest => do
    let (os, rest) ← pVec pInt rest
    if rest ≠ [] then none else
    match Gen.Moments.momentsSolidDegree os with
    | .ok d => pure s!"ok {d}"
    | .error e => pure (sErr e)
  | "C14.gen-indices" :: rest => do
    let (a, rest) ← pArr rest
    if rest ≠ [] then none else
    match Gen.Moments.momentsPureRadialIndices a with
    | .ok idx => pure ("ok " ++ sInts idx)
    | .error e => pure (sErr e)
  | toks => handleNum toks

end GridVerif.Driver.C14

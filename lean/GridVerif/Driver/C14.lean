import GridVerif.Model.Proto
import GridVerif.Model.Elem
import GridVerif.Model.Moments
import GridVerif.Gen.Moments

namespace GridVerif.Driver.C14
open GridVerif.Proto GridVerif.Moments

/-
  C14.horton   <type> <dim> <l>                      -> ok <imat rows> | value-error
  C14.orders   <type> <dim> <L>                      -> ok <imat rows>          (stacked, no checks)
  C14.rowindex <l> <m>                               -> ok <int>
  C14.moments  <type> <L> <dim> <fmat points> <fvec weights> <fvec f> <fmat centres>
               <ntabs> <fmat tab>…                   -> ok <fmat values> <imat orders> | error tag
  C14.moments-flat <type> <L> <fvec points> <fvec weights> <fvec f> <fmat centres>   (points.ndim == 1)
  C14.dipole   <dim> <fmat points> <fvec weights> <fvec density> <fmat coords> <fvec charges>
               <fvec masses>                         -> ok <fvec> | error tag
  type ∈ cartesian | radial | pure | pure-radial

  the generated programs (Gen/Moments.lean), run as they are:
  C14.gen-horton  <type-string> <dim:int> <l:int>     -> ok <arr> | error tag
  C14.gen-orders  <ivec points.shape> <ivec centers.shape> <ivec func_vals.shape> <L:int>
                  <type name of orders> <type-string>  -> ok <dim> <ivec orders> <arr> | error tag
  C14.gen-degree  <ivec orders>                        -> ok <int> | error tag
  C14.gen-indices <arr>                                -> ok <ivec> | error tag
  arr := 1 <ivec>  |  2 <imat>
-/

def pType : String → Option MomType
  | "cartesian" => some .cartesian
  | "radial" => some .radial
  | "pure" => some .pure
  | "pure-radial" => some .pureRadial
  | _ => none

def sErr : Err → String
  | .valueError => "value-error"
  | .typeError => "type-error"
  | .indexError => "index-error"

def sArr : IntArr → String
  | .d1 v => "1 " ++ sInts v
  | .d2 r => "2 " ++ sMat toString r

def pArr : List String → Option (IntArr × List String)
  | "1" :: rest => do
    let (v, rest) ← pVec pInt rest
    pure (.d1 v, rest)
  | "2" :: rest => do
    let (m, rest) ← pMat pInt rest
    pure (.d2 m, rest)
  | _ => none

def pTabs : Nat → List String → Option (List (List (List Float)) × List String)
  | 0, rest => some ([], rest)
  | k + 1, toks => do
    let (t, rest) ← pMat pFloat toks
    let (ts, rest) ← pTabs k rest
    pure (t :: ts, rest)

def handle : List String → Option String
  | ["C14.horton", ty, dim, l] => do
    let ty ← pType ty
    let dim ← pNat dim
    let l ← pNat l
    match hortonOrders ty dim l with
    | .ok rows => pure ("ok " ++ sMat toString rows)
    | .error e => pure (sErr e)
  | ["C14.orders", ty, dim, L] => do
    let ty ← pType ty
    let dim ← pNat dim
    let L ← pNat L
    pure ("ok " ++ sMat toString (allOrdersRaw ty L dim))
  | ["C14.rowindex", l, m] => do
    let l ← pInt l
    let m ← pInt m
    pure s!"ok {rowIndex l m}"
  | "C14.moments" :: ty :: L :: dim :: rest => do
    let ty ← pType ty
    let L ← pNat L
    let dim ← pNat dim
    let (pts, rest) ← pMat pFloat rest
    let (w, rest) ← pVec pFloat rest
    let (f, rest) ← pVec pFloat rest
    let (cs, rest) ← pMat pFloat rest
    let nt ← rest.head?.bind pNat
    let (tabs, rest) ← pTabs nt (rest.drop 1)
    if rest ≠ [] then none else
    if pts.length ≠ w.length then none else
    match moments ty L (⟨dim, pts, w⟩ : Grid Float) cs f tabs with
    | .ok (vals, orders) => pure s!"ok {sMat sFloat vals} {sMat toString orders}"
    | .error e => pure (sErr e)
  | "C14.moments-flat" :: ty :: L :: rest => do
    -- Grid.moments on a grid with a one-dimensional point array (OneDGrid)
    let ty ← pType ty
    let L ← pNat L
    let (pts, rest) ← pVec pFloat rest
    let (w, rest) ← pVec pFloat rest
    let (f, rest) ← pVec pFloat rest
    let (cs, rest) ← pMat pFloat rest
    if rest ≠ [] then none else
    if pts.length ≠ w.length then none else
    match moments ty L (Grid.ofFlat pts w : Grid Float) cs f [] with
    | .ok (vals, orders) => pure s!"ok {sMat sFloat vals} {sMat toString orders}"
    | .error e => pure (sErr e)
  | "C14.dipole" :: dim :: rest => do
    let dim ← pNat dim
    let (pts, rest) ← pMat pFloat rest
    let (w, rest) ← pVec pFloat rest
    let (dens, rest) ← pVec pFloat rest
    let (coords, rest) ← pMat pFloat rest
    let (charges, rest) ← pVec pFloat rest
    let (masses, rest) ← pVec pFloat rest
    if rest ≠ [] then none else
    if pts.length ≠ w.length ∨ coords.length ≠ charges.length ∨ masses.length ≠ charges.length then none else
    match dipole (⟨dim, pts, w⟩ : Grid Float) dens coords charges masses with
    | .ok v => pure ("ok " ++ sFloats v)
    | .error e => pure (sErr e)
  | ["C14.gen-horton", ty, dim, l] => do
    let dim ← pInt dim
    let l ← pInt l
    match Gen.Moments.generateOrdersHortonOrder l ty dim with
    | .ok a => pure ("ok " ++ sArr a)
    | .error e => pure (sErr e)
  | "C14.gen-orders" :: rest => do
    let (ps, rest) ← pVec pInt rest
    let (cs, rest) ← pVec pInt rest
    let (fs, rest) ← pVec pInt rest
    match rest with
    | [L, otype, ty] =>
      let L ← pInt L
      match Gen.Moments.momentsOrders ps cs fs L otype ty with
      | .ok (dim, os, a) => pure s!"ok {dim} {sInts os} {sArr a}"
      | .error e => pure (sErr e)
    | _ => none
  | "C14.gen-degree" :: rest => do
    let (os, rest) ← pVec pInt rest
    if rest ≠ [] then none else
    match Gen.Moments.momentsSolidDegree os with
    | .ok d => pure s!"ok {d}"
    | .error e => pure (sErr e)
  | "C14.gen-indices" :: rest => do
    let (a, rest) ← pArr rest
    if rest ≠ [] then none else
    match Gen.Moments.momentsPureRadialIndices a with
    | .ok idx => pure ("ok " ++ sInts idx)
    | .error e => pure (sErr e)
  | _ => none

end GridVerif.Driver.C14

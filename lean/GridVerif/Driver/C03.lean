import GridVerif.Model.Proto
import GridVerif.Model.Elem
import GridVerif.Model.RTransform
import GridVerif.Gen.RTransform

/-
  Driver ops of property C03: the generated definitions of `Gen/RTransform.lean` at `K = Float`.

    C03.eval    <Class> <method> <trim 0|1> <size> <n> p₁ … pₙ <x>   method of the class (8 names)
    C03.evalinv <Class> <method> <trim 0|1> <size> <n> p₁ … pₙ <x>   same method of InverseRTransform(<Class>(…))
    C03.scalar  <Class> <method> <trim 0|1> <n> p₁ … pₙ <x>          `isinstance(x, Number)` branch
    C03.admissible <Class> <trim 0|1> <n> p₁ … pₙ                   constructor guards
    C03.convinf array|scalar <x>                                     `_convert_inf` with the default replacement
    C03.convinf2 array|scalar <x> <replace_inf>
    C03.static <Class> <method> <n> p₁ … pₙ <m> a₁ … aₘ              static helper (`find_parameter`): scalar arguments, array
    C03.domain <inv 0|1> <Class> <trim 0|1> <n> p₁ … pₙ              `tf.domain` and `tf.codomain` (4 floats; `inv`: of InverseRTransform(tf))

    C03.warns <Class> <method> <trim 0|1> <n> p₁ … pₙ <x>           does the method body issue its warning at `x`?  `ok 0|1 <Category> <stacklevel>`; `ok none`: no warning in the body
    C03.setb <Class> <has_b 0|1> <b> <x_max>                         `set_maximum_parameter_b` on an object whose attribute is `b` (`None` when has_b = 0) with `np.max(x) = x_max`:
                                                                     `ok <b after the call>` | `value-error <b after the rejected call>` (`none` = `None`)

  `size` is the number of elements of the array argument (only `HyperbolicRTransform` looks at it).
  Answers: `ok <float>` | `ok 0|1` | `value-error` | `zero-division-error` | `index-error`.
-/
namespace GridVerif.Driver.C03
open GridVerif.Proto GridVerif.Gen.RTransform

def pBool : String → Option Bool
  | "0" => some false
  | "1" => some true
  | _ => none

def primary : List String := ["transform", "inverse", "deriv", "deriv2", "deriv3"]

/-- The error the class's own method bodies raise when `meth` is called (in call order). -/
def classRaise (cls meth : String) (ps : List Float) (trim : Bool) (size x : Float) : Option String :=
  let called := if primary.contains meth then [meth] else primary.filter (· ≠ "transform")
  match called.find? (fun m => raisesOf cls m ps trim size x == some true) with
  | some m => raisesKindOf cls m
  | none => none

def answer (v : Option Float) : Option String := v.map fun y => "ok " ++ sFloat y

/-- An end of an interval as a float (`±inf` for the infinite ends). -/
def extFloat : ExtVal Float → Float
  | .fin x => x
  | .posInf => 1.0 / 0.0
  | .negInf => -1.0 / 0.0

def handle : List String → Option String
  | "C03.eval" :: cls :: meth :: trim :: size :: rest => do
    let trim ← pBool trim
    let size ← pNat size
    let (ps, tl) ← pVec pFloat rest
    let [x] := tl | none
    let x ← pFloat x
    let f ← opsOf cls ps trim
    match classRaise cls meth ps trim (Float.ofNat size) x with
    | some tag => pure tag
    | none =>
      if raisesOps f meth x == some true then raisesKindOf "BaseTransform" meth
      else answer (evalOps f meth x)
  | "C03.evalinv" :: cls :: meth :: trim :: size :: rest => do
    let trim ← pBool trim
    let size ← pNat size
    let (ps, tl) ← pVec pFloat rest
    let [x] := tl | none
    let x ← pFloat x
    let f ← opsOf cls ps trim
    let g := wrapInverseRTransform f
    match classRaise cls "deriv_inverse" ps trim (Float.ofNat size) x with
    | some tag => pure tag
    | none =>
      -- the wrapper's own methods raise when the wrapped first derivative vanishes; the inherited
      -- `deriv*_inverse` of the wrapper call them at `g.inverse x`
      let own := if primary.contains meth then raisesInverseRTransform f meth x
                 else raisesInverseRTransform f "deriv" (g.inverse x)
      if own == some true then raisesKindOf "InverseRTransform" "deriv"
      else if raisesOps g meth x == some true then raisesKindOf "BaseTransform" meth
      else answer (evalOps g meth x)
  | "C03.scalar" :: cls :: meth :: trim :: rest => do
    let trim ← pBool trim
    let (ps, tl) ← pVec pFloat rest
    let [x] := tl | none
    let x ← pFloat x
    answer (scalarOf cls meth ps trim x)
  | "C03.admissible" :: cls :: trim :: rest => do
    let trim ← pBool trim
    let (ps, tl) ← pVec pFloat rest
    if tl ≠ [] then none else
    let b ← admissibleOf cls ps trim
    pure (if b then "ok 1" else "ok 0")
  | "C03.static" :: cls :: meth :: rest => do
    let (ps, tl) ← pVec pFloat rest
    let (arr, tl) ← pVec pFloat tl
    if tl ≠ [] then none else
    let v ← staticOf cls meth arr ps
    if staticRaisesOf cls meth arr ps == some true then staticRaisesKindOf cls meth
    else match v with
      | some y => pure ("ok " ++ sFloat y)
      | none => pure "index-error"
  | "C03.domain" :: inv :: cls :: trim :: rest => do
    let inv ← pBool inv
    let trim ← pBool trim
    let (ps, tl) ← pVec pFloat rest
    if tl ≠ [] then none else
    let d ← domainOf cls ps trim
    let c ← codomainOf cls ps trim
    let (d, c) := if inv then (InverseRTransform.domainExt d c, InverseRTransform.codomainExt d c) else (d, c)
    pure ("ok " ++ sFloat (extFloat d.1) ++ " " ++ sFloat (extFloat d.2) ++ " " ++ sFloat (extFloat c.1) ++ " "
      ++ sFloat (extFloat c.2))
  | "C03.warns" :: cls :: meth :: trim :: rest => do
    let trim ← pBool trim
    let (ps, tl) ← pVec pFloat rest
    let [x] := tl | none
    let x ← pFloat x
    let _ ← opsOf cls ps trim
    match warnKindOf cls meth, warnsOf cls meth ps trim x with
    | some (cat, level), some w => pure ("ok " ++ (if w then "1 " else "0 ") ++ cat ++ " " ++ toString level)
    | none, none => pure "ok none"
    | _, _ => none
  | ["C03.setb", cls, hasb, b, xmax] => do
    let hasb ← pBool hasb
    let b ← pFloat b
    let xmax ← pFloat xmax
    let b0 : Option Float := if hasb then some b else none
    let after ← setbOf cls b0 xmax
    let shown := match after with
      | some y => sFloat y
      | none => "none"
    if setbRaisesOf cls b0 xmax == some true then do
      let tag ← setbRaisesKindOf cls
      pure (tag ++ " " ++ shown)
    else pure ("ok " ++ shown)
  | ["C03.convinf", "array", x] => do
    let x ← pFloat x
    pure ("ok " ++ sFloat (BaseTransform.convert_inf x))
  | ["C03.convinf", "scalar", x] => do
    let x ← pFloat x
    pure ("ok " ++ sFloat (BaseTransform.convert_inf_scalar x))
  | ["C03.convinf2", "array", x, r] => do
    let x ← pFloat x
    let r ← pFloat r
    pure ("ok " ++ sFloat (BaseTransform.convert_inf x r))
  | ["C03.convinf2", "scalar", x, r] => do
    let x ← pFloat x
    let r ← pFloat r
    pure ("ok " ++ sFloat (BaseTransform.convert_inf_scalar x r))
  | _ => none

end GridVerif.Driver.C03

import GridVerif.Model.Proto
import GridVerif.Model.Elem
import GridVerif.Model.Becke
import GridVerif.Gen.Becke

namespace GridVerif.Driver.C06
open GridVerif.Proto GridVerif.Becke GridVerif.Gen.Becke

def showErr : Err → String
  | .valueError => "value-error"
  | .indexError => "index-error"
  | .keyError => "key-error"
  | .zeroDivision => "zero-division-error"

def showRes : Except Err (List Float) → String
  | .ok xs => "ok " ++ sFloats xs
  | .error e => showErr e

def toV3 : List Float → Option (V3 Float)
  | [x, y, z] => some ⟨x, y, z⟩
  | _ => none

/-- `k z₁ v₁ … z_k v_k` (a nan value is the dictionary entry nan). -/
def pOverrides : List String → Option (List (Nat × Option Float) × List String)
  | [] => none
  | n :: rest => do
    let k ← n.toNat?
    if rest.length < 2 * k then none else
    let rec go : Nat → List String → Option (List (Nat × Option Float))
      | 0, _ => some []
      | k + 1, z :: v :: tl => do
        let z ← pNat z
        let v ← pFloat v
        let r ← go k tl
        pure ((z, if v != v then none else some v) :: r)
      | _, _ => none
    let xs ← go k rest
    pure (xs, rest.drop (2 * k))

/-- `-` = None, else a vector. -/
def pOpt {α} (p : String → Option α) : List String → Option (Option (List α) × List String)
  | "-" :: rest => some (none, rest)
  | toks => do
    let (xs, rest) ← pVec p toks
    pure (some xs, rest)

structure MolIn where
  order : Nat
  mol : Except Err (Mol Float)
  rest : List String

/-- `order atnums overrides coords` -/
def pMol (toks : List String) : Option MolIn := do
  match toks with
  | [] => none
  | o :: rest =>
    let order ← pNat o
    let (atnums, rest) ← pVec pNat rest
    let (ov, rest) ← pOverrides rest
    let (coords, rest) ← pMat pFloat rest
    let pos ← coords.mapM toV3
    if pos.length ≠ atnums.length then none else
    let d : RadDict Float := updateDict braggDict ov
    let radii : Except Err (List Float) := atnums.mapM (effRadius d)
    let posA := pos.toArray
    let mol := radii.map fun rs =>
      let rA := rs.toArray
      ({ natom := pos.length, pos := fun i => posA.getD i ⟨0, 0, 0⟩, rad := fun i => rA.getD i 0 } : Mol Float)
    pure ⟨order, mol, rest⟩

def pPoints (toks : List String) : Option (List (V3 Float) × List String) := do
  let (pts, rest) ← pMat pFloat toks
  let ps ← pts.mapM toV3
  pure (ps, rest)

def routeOf : String → Option (Route Float)
  | "gw" => some routeGW
  | "caw" => some routeCAW
  | _ => none

def showTrace (t : List (Nat × Nat × List Int)) : String :=
  String.intercalate " " (toString t.length :: t.map fun (b, n, ind) => s!"{b} {n} {sInts ind}")

def handle : List String → Option String
  -- generated formulas (translator self-check)
  | ["C06.switch", x, order] => do
    let x ← pFloat x; let n ← pNat order
    pure ("ok " ++ sFloat (switchFunc x n))
  | ["C06.alpha", ra, rb] => do
    let ra ← pFloat ra; let rb ← pFloat rb
    pure ("ok " ++ sFloat (alpha ra rb))
  | ["C06.alphaclip", a, c] => do
    let a ← pFloat a; let c ← pFloat c
    pure ("ok " ++ sFloat (alphaClip a c))
  | ["C06.cutoff"] => pure ("ok " ++ sFloat (defaultCutoff : Float))
  | ["C06.chunk", n, m] => do
    let n ← pNat n; let m ← pNat m
    if m = 0 then pure "zero-division-error" else pure s!"ok {chunkSize n m}"
  | "C06.radius" :: z :: rest => do
    let z ← pNat z
    let (ov, rest) ← pOverrides rest
    if rest ≠ [] then none else
    match effRadius (updateDict (braggDict : RadDict Float) ov) z with
    | .ok r => pure ("ok " ++ sFloat r)
    | .error e => pure (showErr e)
  -- all normalised cell values: matrix points × atoms
  | "C06.weights" :: route :: rest => do
    let r ← routeOf route
    let m ← pMol rest
    let (pts, rest) ← pPoints m.rest
    if rest ≠ [] then none else
    match m.mol with
    | .error e => pure (showErr e)
    | .ok mol =>
      let rows := pts.map fun p => (List.range mol.natom).map fun A => weight r mol m.order p A
      pure ("ok " ++ sMat sFloat rows)
  | "C06.generate" :: rest => do
    let m ← pMol rest
    let (pts, rest) ← pPoints m.rest
    let (sel, rest) ← pOpt pNat rest
    let (ind, rest) ← pOpt pInt rest
    if rest ≠ [] then none else
    match m.mol with
    | .error e => pure (showErr e)
    | .ok mol => pure (showRes (generateWeights (weight routeGW mol m.order) mol.natom pts sel ind))
  | "C06.compute" :: rest => do
    let m ← pMol rest
    let (pts, rest) ← pPoints m.rest
    let (sel, rest) ← pOpt pNat rest
    let (ind, rest) ← pOpt pInt rest
    if rest ≠ [] then none else
    match m.mol with
    | .error e => pure (showErr e)
    | .ok mol => pure (showRes (computeWeights (weight routeCAW mol m.order) mol.natom pts sel ind))
  | "C06.atom" :: rest => do
    let m ← pMol rest
    let (pts, rest) ← pPoints m.rest
    match rest with
    | [k] =>
      let k ← pNat k
      match m.mol with
      | .error e => pure (showErr e)
      | .ok mol => pure (showRes (computeAtomWeight (weight routeCAW mol m.order) mol.natom pts k))
    | _ => none
  | "C06.call" :: rest => do
    let m ← pMol rest
    let (pts, rest) ← pPoints m.rest
    let (ind, rest) ← pVec pInt rest
    if rest ≠ [] then none else
    match m.mol with
    | .error e => pure (showErr e)
    | .ok mol => pure (showRes (call (weight routeGW mol m.order) mol.natom pts ind))
  | "C06.calltrace" :: n :: m :: rest => do
    let n ← pNat n; let m ← pNat m
    let (ind, rest) ← pVec pInt rest
    if rest ≠ [] then none else
    if m = 0 then pure "zero-division-error" else
    pure ("ok " ++ showTrace (callTrace n m ind))
  -- Hirshfeld: matrix atoms × points of pro-atom densities, index table
  | "C06.hirshfeld" :: rest => do
    let (rho, rest) ← pMat pFloat rest
    let (ind, rest) ← pVec pInt rest
    if rest ≠ [] then none else
    let M := rho.length
    let N := match rho with | [] => 0 | r :: _ => r.length
    let arr := (rho.map List.toArray).toArray
    let rhoF : Nat → Nat → Float := fun i j => (arr.getD i #[]).getD j 0
    pure (showRes (hirshfeld rhoF M (List.range N) ind))
  | _ => none

end GridVerif.Driver.C06

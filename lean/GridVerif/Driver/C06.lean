import GridVerif.Model.Proto
import GridVerif.Model.Elem
import GridVerif.Model.Becke
import GridVerif.Gen.Becke
import GridVerif.Model.BeckePy
import GridVerif.Gen.BeckeRoutes
import GridVerif.Gen.Hirshfeld
import GridVerif.Model.CovRadiiPy
import GridVerif.Gen.CovRadii

namespace GridVerif.Driver.C06
open GridVerif.Proto GridVerif.Becke GridVerif.Gen.Becke GridVerif.BeckePy GridVerif.CovRadiiPy

def showErr : Err → String
  | .valueError => "value-error"
  | .indexError => "index-error"
  | .keyError => "key-error"
  | .zeroDivision => "zero-division-error"
  | .typeError => "type-error"
  | .fileNotFound => "file-not-found-error"

def showRes : Except Err (List Float) → String
  | .ok xs => "ok " ++ sFloats xs
  | .error e => showErr e

def toV3 : List Float → Option (V3 Float)
  | [x, y, z] => some ⟨x, y, z⟩
  | _ => none

/-- `k z₁ v₁ … z_k v_k` (a nan value is the dictionary entry nan). -/
def pOverrides : List String → Option (List (Nat × Option Float) × List String)
  | [] => none
  | n :: rest => do
    let k ← n.toNat?
    if rest.length < 2 * k then none else
    let rec go : Nat → List String → Option (List (Nat × Option Float))
      | 0, _ => some []
      | k + 1, z :: v :: tl => do
        let z ← pNat z
        let v ← pFloat v
        let r ← go k tl
        pure ((z, if v != v then none else some v) :: r)
      | _, _ => none
    let xs ← go k rest
    pure (xs, rest.drop (2 * k))

/-- `-` = None, else a vector. -/
def pOpt {α} (p : String → Option α) : List String → Option (Option (List α) × List String)
  | "-" :: rest => some (none, rest)
  | toks => do
    let (xs, rest) ← pVec p toks
    pure (some xs, rest)

/-- `grid.utils._bragg` as floats. -/
def utilsBraggF : List (Option Float) :=
  Gen.BeckeRoutes.utilsBragg.map (Option.map fun pq => Float.ofNat pq.1 / Float.ofNat pq.2)

/-- the `radii` argument from the override list: empty = `None` (the harness passes `over or None`). -/
def radiiArgOf (ov : List (Nat × Option Float)) : Option (RadiiArg (Option Float)) :=
  if ov.isEmpty then none else some (.dict (ov.map fun e => (Key.int (e.1 : Int), e.2)))

/-- `-` = None, `i k` = an integer, else a vector. -/
def pSelect : List String → Option (SelectArg × List String)
  | "-" :: rest => some (.none, rest)
  | "i" :: k :: rest => do let k ← pNat k; pure (.int k, rest)
  | toks => do
    let (xs, rest) ← pVec pNat toks
    pure (.seq xs, rest)

structure MolIn where
  order : Nat
  mol : Except Err (Mol Float)
  /-- the object built by the *generated* `__init__` -/
  self : Except Err (BW (Option Float))
  atnums : List Int
  coords : List (V3 Float)
  rest : List String

/-- `order atnums overrides coords` -/
def pMol (toks : List String) : Option MolIn := do
  match toks with
  | [] => none
  | o :: rest =>
    let order ← pNat o
    let (atnums, rest) ← pVec pNat rest
    let (ov, rest) ← pOverrides rest
    let (coords, rest) ← pMat pFloat rest
    let pos ← coords.mapM toV3
    if pos.length ≠ atnums.length then none else
    let d : RadDict Float := updateDict braggDict ov
    let radii : Except Err (List Float) := atnums.mapM (effRadius d)
    let posA := pos.toArray
    let mol := radii.map fun rs =>
      let rA := rs.toArray
      ({ natom := pos.length, pos := fun i => posA.getD i ⟨0, 0, 0⟩, rad := fun i => rA.getD i 0 } : Mol Float)
    let self := Gen.BeckeRoutes.init utilsBraggF (radiiArgOf ov) (.int (order : Int))
    pure ⟨order, mol, self, atnums.map fun (z : Nat) => (z : Int), pos, rest⟩

def pPoints (toks : List String) : Option (List (V3 Float) × List String) := do
  let (pts, rest) ← pMat pFloat toks
  let ps ← pts.mapM toV3
  pure (ps, rest)

def routeOf : String → Option (Route Float)
  | "gw" => some routeGW
  | "caw" => some (routeCAW cawDefaultCutoff)
  | _ => none

def showTrace (t : List (Nat × Nat × List Int)) : String :=
  String.intercalate " " (toString t.length :: t.map fun (b, n, ind) => s!"{b} {n} {sInts ind}")

/-- a regenerated covalent-radius table as floats (`none` = nan). -/
def covTableF (t : List (Option (Nat × Nat))) : List Float :=
  t.map fun e => match e with
    | some pq => Float.ofNat pq.1 / Float.ofNat pq.2
    | none => 0.0 / 0.0

def handle : List String → Option String
  -- generated `grid.utils.get_cov_radii`: `cov_type` as character codes (`d` = omitted), then `i n` (scalar) or `s vec` (sequence)
  | "C06.covradii" :: rest => do
    let (ty, rest) ← (match rest with
      | "d" :: tl => pure (Gen.CovRadii.covTypeDefault, tl)          -- `cov_type` not passed: the generated default
      | _ => do
        let (cs, tl) ← pVec pNat rest
        pure (String.ofList (cs.map Char.ofNat), tl))
    let arg ← (match rest with
      | ["i", n] => do let n ← pInt n; pure (CovArg.int n)
      | "s" :: tl => do
        let (l, tl) ← pVec pInt tl
        if tl ≠ [] then none else pure (CovArg.seq l)
      | _ => none)
    pure (showRes (Gen.CovRadii.get_cov_radii (covTableF Gen.CovRadii.bragg) (covTableF Gen.CovRadii.cambridge)
      (covTableF Gen.CovRadii.alvarez) arg ty))
  -- generated formulas (translator self-check)
  | ["C06.switch", x, order] => do
    let x ← pFloat x; let n ← pNat order
    pure ("ok " ++ sFloat (switchFunc x n))
  | ["C06.alpha", ra, rb] => do
    let ra ← pFloat ra; let rb ← pFloat rb
    pure ("ok " ++ sFloat (alpha ra rb))
  | ["C06.alphaclip", a, c] => do
    let a ← pFloat a; let c ← pFloat c
    pure ("ok " ++ sFloat (alphaClip a c))
  | ["C06.cutoff"] => pure ("ok " ++ sFloat (defaultCutoff : Float))
  | ["C06.chunk", n, m] => do
    let n ← pNat n; let m ← pNat m
    if m = 0 then pure "zero-division-error" else pure s!"ok {chunkSize n m}"
  | "C06.radius" :: z :: rest => do
    let z ← pNat z
    let (ov, rest) ← pOverrides rest
    if rest ≠ [] then none else
    match effRadius (updateDict (braggDict : RadDict Float) ov) z with
    | .ok r => pure ("ok " ++ sFloat r)
    | .error e => pure (showErr e)
  -- all normalised cell values: matrix points × atoms
  | "C06.weights" :: route :: rest => do
    let r ← routeOf route
    let m ← pMol rest
    let (pts, rest) ← pPoints m.rest
    if rest ≠ [] then none else
    match m.mol with
    | .error e => pure (showErr e)
    | .ok mol =>
      let rows := pts.map fun p => (List.range mol.natom).map fun A => weight r mol m.order p A
      pure ("ok " ++ sMat sFloat rows)
  -- the routines below run the GENERATED translations (`Gen/BeckeRoutes.lean`) on the object built by the generated `__init__`
  | "C06.generate" :: rest => do
    let m ← pMol rest
    let (pts, rest) ← pPoints m.rest
    let (sel, rest) ← pSelect rest
    let (ind, rest) ← pOpt pInt rest
    if rest ≠ [] then none else
    match m.self with
    | .error e => pure (showErr e)
    | .ok self => pure (showRes (Gen.BeckeRoutes.generate_weights self pts m.coords m.atnums sel ind))
  | "C06.compute" :: rest => do
    let m ← pMol rest
    let (pts, rest) ← pPoints m.rest
    let (sel, rest) ← pSelect rest
    let (ind, rest) ← pOpt pInt rest
    if rest ≠ [] then none else
    match m.self with
    | .error e => pure (showErr e)
    | .ok self => pure (showRes (Gen.BeckeRoutes.compute_weights self pts m.coords m.atnums sel ind))
  | "C06.atom" :: rest => do
    let m ← pMol rest
    let (pts, rest) ← pPoints m.rest
    match rest with
    | [k] =>
      let k ← pNat k
      match m.self with
      | .error e => pure (showErr e)
      | .ok self => pure (showRes (Gen.BeckeRoutes.compute_atom_weight self pts m.coords m.atnums k cawDefaultCutoff))
    | [k, c] =>
      let k ← pNat k
      let c ← pFloat c
      match m.self with
      | .error e => pure (showErr e)
      | .ok self => pure (showRes (Gen.BeckeRoutes.compute_atom_weight self pts m.coords m.atnums k c))
    | _ => none
  | "C06.call" :: rest => do
    let m ← pMol rest
    let (pts, rest) ← pPoints m.rest
    let (ind, rest) ← pVec pInt rest
    if rest ≠ [] then none else
    match m.self with
    | .error e => pure (showErr e)
    | .ok self => pure (showRes (Gen.BeckeRoutes.call self pts m.coords m.atnums ind))
  -- the hand model of the same routines (what the theorems of parts 1–3 are stated on; proved equal to the above)
  | "C06.hgenerate" :: rest => do
    let m ← pMol rest
    let (pts, rest) ← pPoints m.rest
    let (sel, rest) ← pOpt pNat rest
    let (ind, rest) ← pOpt pInt rest
    if rest ≠ [] then none else
    match m.mol with
    | .error e => pure (showErr e)
    | .ok mol => pure (showRes (generateWeights (weight routeGW mol m.order) mol.natom pts sel ind))
  | "C06.hcompute" :: rest => do
    let m ← pMol rest
    let (pts, rest) ← pPoints m.rest
    let (sel, rest) ← pOpt pNat rest
    let (ind, rest) ← pOpt pInt rest
    if rest ≠ [] then none else
    match m.mol with
    | .error e => pure (showErr e)
    | .ok mol => pure (showRes (computeWeights (weight (routeCAW cawDefaultCutoff) mol m.order) mol.natom pts sel ind))
  | "C06.hcall" :: rest => do
    let m ← pMol rest
    let (pts, rest) ← pPoints m.rest
    let (ind, rest) ← pVec pInt rest
    if rest ≠ [] then none else
    match m.mol with
    | .error e => pure (showErr e)
    | .ok mol => pure (showRes (call (weight routeGW mol m.order) mol.natom pts ind))
  -- the generated `__init__`: `order` (`i n` = int, `o` = not an int), `radii` (`-` None, `x` not a dict,
  -- `d k (i z | o) v …` a dictionary), then atomic numbers whose radius is looked up through the generated comprehension
  | "C06.ginit" :: rest => do
    let (order, rest) ← (match rest with
      | "i" :: n :: tl => do let n ← pInt n; pure (OrderArg.int n, tl)
      | "o" :: tl => pure (OrderArg.other, tl)
      | _ => none)
    let (radii, rest) ← (match rest with
      | "-" :: tl => pure (none, tl)
      | "x" :: tl => pure (some RadiiArg.other, tl)
      | "d" :: k :: tl => do
        let k ← pNat k
        let rec go : Nat → List String → Option (List (Key × Option Float) × List String)
          | 0, tl => some ([], tl)
          | k + 1, "i" :: z :: v :: tl => do
            let z ← pInt z; let v ← pFloat v
            let (r, tl) ← go k tl
            pure ((Key.int z, if v != v then none else some v) :: r, tl)
          | k + 1, "o" :: v :: tl => do
            let v ← pFloat v
            let (r, tl) ← go k tl
            pure ((Key.other, if v != v then none else some v) :: r, tl)
          | _, _ => none
        let (es, tl) ← go k tl
        pure (some (RadiiArg.dict es), tl)
      | _ => none)
    let (zs, rest) ← pVec pInt rest
    if rest ≠ [] then none else
    match Gen.BeckeRoutes.init utilsBraggF radii order with
    | .error e => pure (showErr e)
    | .ok self =>
      let look := zs.map fun z => match Gen.BeckeRoutes.radiusGW self.radii z, Gen.BeckeRoutes.radiusCAW self.radii z with
        | .ok r, .ok r' => if r.toBits == r'.toBits then "v " ++ sFloat r else "copies-differ"
        | .error e, .error e' => if e == e' then showErr e else "copies-differ"
        | _, _ => "copies-differ"
      pure (String.intercalate " " ("ok" :: toString self.order :: look))
  | "C06.calltrace" :: n :: m :: rest => do
    let n ← pNat n; let m ← pNat m
    let (ind, rest) ← pVec pInt rest
    if rest ≠ [] then none else
    if m = 0 then pure "zero-division-error" else
    pure ("ok " ++ showTrace (callTrace n m ind))
  -- Hirshfeld: matrix atoms × points of pro-atom densities, index table
  | "C06.hirshfeld" :: rest => do
    let (rho, rest) ← pMat pFloat rest
    let (ind, rest) ← pVec pInt rest
    if rest ≠ [] then none else
    let M := rho.length
    let N := match rho with | [] => 0 | r :: _ => r.length
    let arr := (rho.map List.toArray).toArray
    let rhoF : Nat → Nat → Float := fun i j => (arr.getD i #[]).getD j 0
    pure (showRes (hirshfeld rhoF M (List.range N) ind))
  -- generated `HirshfeldWeights.__call__`: `dtypeIsInt atnums coords points indices` then the spline oracle supplied by the
  -- harness: per shipped file (index into the generated listing) the pairs (distance, spline value) it evaluated with SciPy
  | "C06.ghirsh" :: dt :: rest => do
    let dt ← pNat dt
    let (atnums, rest) ← pVec pInt rest
    let (coords, rest) ← pMat pFloat rest
    let pos ← coords.mapM toV3
    let (pts, rest) ← pPoints rest
    let (ind, rest) ← pVec pInt rest
    let (nf, rest) ← (match rest with | n :: tl => do let n ← pNat n; pure (n, tl) | [] => none)
    let rec files : Nat → List String → Option (List (Nat × Array (Float × Float)) × List String)
      | 0, tl => some ([], tl)
      | k + 1, fi :: tl => do
        let fi ← pNat fi
        let (xy, tl) ← pVec pFloat tl
        if xy.length % 2 ≠ 0 then none else
        let rec pairs : List Float → List (Float × Float)
          | x :: y :: r => (x, y) :: pairs r
          | _ => []
        let (r, tl) ← files k tl
        pure ((fi, (pairs xy).toArray) :: r, tl)
      | _, _ => none
    let (tabs, rest) ← files nf rest
    if rest ≠ [] then none else
    let env : ProEnv Float := {
      npLoad := fun pkg name =>
        if pkg != Gen.Hirshfeld.proatomPackage then .error .fileNotFound else
        match Gen.Hirshfeld.proatomFiles.findIdx? (· == name) with
        | some i => .ok [("r", [Float.ofNat i]), ("dn", [Float.ofNat i])]
        | none => .error .fileNotFound
      cubicSplineNatural := fun r _dn x =>
        match r with
        | [fi] =>
          match tabs.find? (fun t => Float.ofNat t.1 == fi) with
          | some t =>
            -- the tabulated abscissa nearest to x
            let best := t.2.foldl (fun (b : Float × Float) (e : Float × Float) =>
              if (e.1 - x).abs < (b.1 - x).abs then e else b) (Float.ofScientific 1 false 300, 0.0 / 0.0)
            if (best.1 - x).abs ≤ 1e-9 * (1.0 + x.abs) then best.2 else 0.0 / 0.0
          | none => 0.0 / 0.0
        | _ => 0.0 / 0.0 }
    pure (showRes (Gen.Hirshfeld.call env pts pos ⟨dt == 1, atnums⟩ ind))
  | _ => none

end GridVerif.Driver.C06

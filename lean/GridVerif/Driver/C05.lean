import GridVerif.Model.Proto
import GridVerif.Model.Elem
import GridVerif.Model.Bisect
import GridVerif.Model.AtomGrid
import GridVerif.Gen.AngularTables
import GridVerif.Gen.Presets
import GridVerif.Gen.AtomGrid

/-
  Driver of C05 (line protocol, see harness/props/c05.py).
  `C05.ginit` / `C05.gpruned` / `C05.gcheck` / `C05.ggen` / `C05.gpreset` run the definitions
  regenerated from atomgrid.py (`Gen/AtomGrid.lean`) on Python-level arguments (the token `default`
  stands for an omitted argument: the regenerated default value is used); the shell grids they print
  come from the regenerated `get_shell_grid`; `C05.sectors` / `C05.pruned` run the regenerated
  lookup *and* the hand model and answer `gen-model-mismatch` should they differ; `C05.build` is the
  hand-model constructor (kept; the harness uses `C05.ginit`).
-/
namespace GridVerif.Driver.C05
open GridVerif.Proto GridVerif.AtomGrid GridVerif.Bisect GridVerif.Gen.Presets GridVerif.Gen.Angular

def tablesOf : String → Option (List (Nat × Nat) × List (Nat × Nat))
  | "lebedev" => some (lebedevDegrees, lebedevNPoints)
  | "spherical" => some (sphericalDegrees, sphericalNPoints)
  | "maxdet" => some (maxdetDegrees, maxdetNPoints)
  | "ahrens_beylkin" => some (ahrensDegrees, ahrensNPoints)
  | _ => none

def errTag : Err → Option String
  | .valueError => some "value-error"
  | .indexError => some "index-error"
  | .typeError => some "type-error"
  | .keyError => some "key-error"
  | .noData => none

def toV3s : List Float → Option (List (V3 Float))
  | [] => some []
  | x :: y :: z :: rest => (toV3s rest).map (⟨x, y, z⟩ :: ·)
  | _ => none

def pV3 (toks : List String) : Option (V3 Float × List String) :=
  match toks with
  | a :: b :: c :: rest => do pure (⟨← pFloat a, ← pFloat b, ← pFloat c⟩, rest)
  | _ => none

def sV3s (ps : List (V3 Float)) : String :=
  String.intercalate " " (toString ps.length :: "3" :: (ps.map fun p => s!"{sFloat p.x} {sFloat p.y} {sFloat p.z}"))

/-- `k` then `k` records `degree npts <3*npts floats> <npts floats>` -/
def pAngular : Nat → List String → Option (List (Nat × List (V3 Float) × List Float) × List String)
  | 0, rest => some ([], rest)
  | k + 1, d :: n :: rest => do
    let d ← pNat d
    let n ← pNat n
    if rest.length < 4 * n then none else
    let ps ← toV3s (← (rest.take (3 * n)).mapM pFloat)
    let ws ← ((rest.drop (3 * n)).take n).mapM pFloat
    let (more, tl) ← pAngular k (rest.drop (4 * n))
    pure ((d, ps, ws) :: more, tl)
  | _, _ => none

/-- `m` then `m` records `seed <9 floats, row-major>` -/
def pMats : Nat → List String → Option (List (Nat × M3 Float) × List String)
  | 0, rest => some ([], rest)
  | k + 1, s :: rest => do
    let s ← pNat s
    let (a, rest) ← pV3 rest
    let (b, rest) ← pV3 rest
    let (c, rest) ← pV3 rest
    let (more, tl) ← pMats k rest
    pure ((s, ⟨a, b, c⟩) :: more, tl)
  | _, _ => none

def pPairsIntBool : Nat → List String → Option (List (Int × Bool) × List String)
  | 0, rest => some ([], rest)
  | k + 1, i :: b :: rest => do
    let i ← pInt i
    -- `d`: `r_sq` omitted by the caller = the regenerated default
    let b ← match b with | "1" => some true | "0" => some false | "d" => some Gen.AtomGrid.get_shell_grid_default_r_sq | _ => none
    let (more, tl) ← pPairsIntBool k rest
    pure ((i, b) :: more, tl)
  | _, _ => none

def zeroM : M3 Float := ⟨⟨0, 0, 0⟩, ⟨0, 0, 0⟩, ⟨0, 0, 0⟩⟩

def pRequest (kind : String) (xs : List Nat) : Option Request :=
  match kind with
  | "deg" => some (.degrees xs)
  | "size" => some (.sizes xs)
  | _ => none

def sRequest : Request → String
  | .degrees ds => "degrees " ++ sNats ds
  | .sizes ss => "sizes " ++ sNats ss

def findEntry (p : Preset) (z : Nat) : Option Entry :=
  entries.find? fun e => e.preset == p && e.atnum == z


/-! ### Python-level arguments of the generated definitions (`Gen/AtomGrid.lean`) -/

/-- `none` | `other` | `seq <vec>` | `default` (argument omitted: `dflt`) -/
def pSeqArg (dflt : SeqArg) : List String → Option (SeqArg × List String)
  | "default" :: rest => some (dflt, rest)
  | "none" :: rest => some (.none, rest)
  | "other" :: rest => some (.other, rest)
  | "seq" :: rest => do
    let (xs, rest) ← pVec pNat rest
    pure (.seq xs, rest)
  | _ => none

/-- `none` | `seq <vec>` | `default` -/
def pOptNats (dflt : Option (List Nat)) : List String → Option (Option (List Nat) × List String)
  | "default" :: rest => some (dflt, rest)
  | "none" :: rest => some (none, rest)
  | "seq" :: rest => do
    let (xs, rest) ← pVec pNat rest
    pure (some xs, rest)
  | _ => none

/-- `int n` | `npint n` | `bool 0|1` | `other` | `default` -/
def pRotArg (dflt : RotArg) : List String → Option (RotArg × List String)
  | "default" :: rest => some (dflt, rest)
  | "int" :: n :: rest => do pure (.int (← pInt n), rest)
  | "npint" :: n :: rest => do pure (.npInt (← pInt n), rest)
  | "bool" :: "0" :: rest => some (.bool false, rest)
  | "bool" :: "1" :: rest => some (.bool true, rest)
  | "other" :: rest => some (.other, rest)
  | _ => none

/-- `none` | `vec <vec>` | `default` -/
def pCenter (dflt : Option (List Float)) : List String → Option (Option (List Float) × List String)
  | "default" :: rest => some (dflt, rest)
  | "none" :: rest => some (none, rest)
  | "vec" :: rest => do
    let (xs, rest) ← pVec pFloat rest
    pure (some xs, rest)
  | _ => none

/-- `<isOneDGrid 0|1> (nodom | dom a b) <points vec> <weights vec>` -/
def pRGrid : List String → Option (RGrid Float × List String)
  | o :: rest => do
    let isO ← match o with | "1" => some true | "0" => some false | _ => none
    let (dom, rest) ← (match rest with
      | "nodom" :: r => some (none, r)
      | "dom" :: a :: b :: r => do pure (some (← pFloat a, ← pFloat b), r)
      | _ => none : Option (Option (Float × Float) × List String))
    let (ps, rest) ← pVec pFloat rest
    let (ws, rest) ← pVec pFloat rest
    if ps.length ≠ ws.length then none else
    pure (⟨isO, dom, ps, ws⟩, rest)
  | _ => none

/-- the angular data, the matrices and the shell-grid requests that follow the arguments -/
def pWorld (dg np : List (Nat × Nat)) (rest : List String) :
    Option (Env Float × List (Nat × M3 Float) × List (Int × Bool)) := do
  let k :: rest := rest | none
  let (ang, rest) ← pAngular (← pNat k) rest
  let k :: rest := rest | none
  let (mats, rest) ← pMats (← pNat k) rest
  let k :: rest := rest | none
  let (sgs, rest) ← pPairsIntBool (← pNat k) rest
  if rest ≠ [] then none else
  let env : Env Float := {
    degreesTbl := dg, npointsTbl := np,
    load := fun d => (ang.find? fun q => q.1 == d).map fun q => q.2,
    rotation := fun s => ((mats.find? fun q => q.1 == s).map (·.2)).getD zeroM }
  pure (env, mats, sgs)

/-- print a built grid (and the requested shell grids); every seed the model asks for must have
been supplied: the default matrix is never used (matrices do not influence which exception is
raised, so errors are answered before) -/
def sGrid (env : Env Float) (mats : List (Nat × M3 Float)) (sgs : List (Int × Bool))
    (r : Except Err (Grid Float)) : Option String :=
  match r with
  | .error e => errTag e
  | .ok g =>
    let n := g.rgrid.length
    let need := (if rotates g.rotate then (List.range n).map (shellSeed g.rotate) else []) ++
      (if shellGridRotates g.rotate then
        sgs.filterMap fun (i, _) => if 0 ≤ i ∧ i < n then some (shellGridSeed g.rotate i.toNat) else none
       else [])
    if need.any fun s => (mats.find? fun q => q.1 == s).isNone then none else do
    -- the regenerated `get_shell_grid` (proved equal to `getShellGrid` on built grids)
    let sg ← sgs.mapM fun (i, b) =>
      match Gen.AtomGrid.get_shell_grid env g i b with
      | .ok a => some s!"sg-ok {sV3s a.points} {sFloats a.weights}"
      | .error e => (errTag e).map ("sg-" ++ ·)
    pure (String.intercalate " "
      (["ok", sNats g.indices, sNats g.degrees, toString g.size, sV3s g.points, sFloats g.weights] ++ sg))

/-- the world of `from_preset`: `(none | entry atnum rmin rmax npt) angstrom bohr (nogrid | grid rmin rmax npt <rgrid>)`:
the entry of `_DEFAULT_POWER_RTRANSFORM_PARAMS` for the element, the two SciPy constants, and what
`PowerRTransform(rmin, rmax).transform_1d_grid(UniformInteger(npt))` is for one triple of arguments
(compared bit for bit; any other triple yields a grid that is not a `OneDGrid`, which the regenerated
`_input_type_check` rejects — the harness then sees a `type-error` where the library builds a grid) -/
def pPresetWorld (rest : List String) : Option (PresetWorld Float × List String) := do
  let (dp, rest) ← (match rest with
    | "none" :: r => some ([], r)
    | "entry" :: z :: a :: b :: n :: r => do pure ([(← pNat z, (← pFloat a, ← pFloat b, ← pNat n))], r)
    | _ => none : Option (List (Nat × (Float × Float × Nat)) × List String))
  let a :: b :: rest := rest | none
  let ang ← pFloat a
  let bohr ← pFloat b
  let (tbl, rest) ← (match rest with
    | "nogrid" :: r => some (none, r)
    | "grid" :: x :: y :: n :: r => do
      let (g, r) ← pRGrid r
      pure (some (← pFloat x, ← pFloat y, ← pNat n, g), r)
    | _ => none : Option (Option (Float × Float × Nat × RGrid Float) × List String))
  let sentinel : RGrid Float := ⟨false, none, [], []⟩
  pure ({ defaultParams := dp, angstrom := ang, atomicUnitOfLength := bohr,
          powerTransformGrid := fun x y u => match tbl with
            | some (x0, y0, n0, g) => if x.toBits == x0.toBits && y.toBits == y0.toBits && u.npoints == n0 then g else sentinel
            | none => sentinel,
          toK := dyadicToFloat }, rest)

def handle : List String → Option String
  | "C05.ginit" :: m :: rest => do
    -- the regenerated constructor: degrees sizes center rotate rgrid, then the world
    let (dg, np) ← tablesOf m
    let (degrees, rest) ← pSeqArg Gen.AtomGrid.init_default_degrees rest
    let (sizes, rest) ← pSeqArg Gen.AtomGrid.init_default_sizes rest
    let (center, rest) ← pCenter (Gen.AtomGrid.init_default_center Float) rest
    let (rotate, rest) ← pRotArg Gen.AtomGrid.init_default_rotate rest
    let (rg, rest) ← pRGrid rest
    let (env, mats, sgs) ← pWorld dg np rest
    sGrid env mats sgs (Gen.AtomGrid.init env rg degrees sizes center rotate)
  | "C05.gpruned" :: m :: rest => do
    -- the regenerated from_pruned: d_sectors s_sectors radius r_sectors center rotate rgrid, then the world
    let (dg, np) ← tablesOf m
    let (dsec, rest) ← pOptNats Gen.AtomGrid.from_pruned_default_d_sectors rest
    let (ssec, rest) ← pOptNats Gen.AtomGrid.from_pruned_default_s_sectors rest
    let r :: rest := rest | none
    let radius ← pFloat r
    let (rsect, rest) ← pVec pFloat rest
    let (center, rest) ← pCenter (Gen.AtomGrid.from_pruned_default_center Float) rest
    let (rotate, rest) ← pRotArg Gen.AtomGrid.from_pruned_default_rotate rest
    let (rg, rest) ← pRGrid rest
    let (env, mats, sgs) ← pWorld dg np rest
    sGrid env mats sgs (Gen.AtomGrid.from_pruned env rg radius rsect dsec ssec center rotate)
  | "C05.ggen" :: m :: rest => do
    -- the regenerated static method `_generate_atomic_grid(rgrid, degrees, rotate=…, method=…)`
    let (dg, np) ← tablesOf m
    let (degrees, rest) ← pVec pNat rest
    let (rotate, rest) ← pRotArg Gen.AtomGrid.generate_atomic_grid_default_rotate rest
    let (rg, rest) ← pRGrid rest
    let (env, mats, _) ← pWorld dg np rest
    match Gen.AtomGrid.generate_atomic_grid env rg degrees rotate with
    | .error e => errTag e
    | .ok (p, w, idx, dgs) =>
      -- every matrix the loop asked for must have been supplied (errors do not depend on them)
      let need := if rotate.isInt && rotate.val != 0 then (List.range degrees.length).map fun (i : Nat) => rotate.val + (i : Int) else []
      if need.any fun s => (mats.find? fun q => (q.1 : Int) == s).isNone then none else
      pure (String.intercalate " " ["ok", sV3s p, sFloats w, sNats idx, sNats dgs])
  | "C05.gpreset" :: m :: z :: p :: rest => do
    -- the regenerated `from_preset(atnum, preset, rgrid, center, rotate, method)`: (none | default | some <rgrid>) center rotate, the preset world, the world
    let (dg, np) ← tablesOf m
    let z ← pNat z
    let p ← Preset.ofName? p
    let (rgo, rest) ← (match rest with
      | "default" :: r => some (Gen.AtomGrid.from_preset_default_rgrid Float, r)
      | "none" :: r => some (none, r)
      | "some" :: r => do
        let (g, r) ← pRGrid r
        pure (some g, r)
      | _ => none : Option (Option (RGrid Float) × List String))
    let (center, rest) ← pCenter (Gen.AtomGrid.from_preset_default_center Float) rest
    let (rotate, rest) ← pRotArg Gen.AtomGrid.from_preset_default_rotate rest
    let (world, rest) ← pPresetWorld rest
    let (env, mats, sgs) ← pWorld dg np rest
    sGrid env mats sgs (Gen.AtomGrid.from_preset env world z p rgo center rotate)
  | "C05.default-method" :: [] =>
    pure (String.intercalate " " ["ok", Gen.AtomGrid.init_default_method, Gen.AtomGrid.from_pruned_default_method,
      Gen.AtomGrid.from_preset_default_method, Gen.AtomGrid.generate_atomic_grid_default_method,
      Gen.AtomGrid.generate_degree_from_radius_default_method])
  | "C05.gcheck" :: rest => do
    -- the regenerated _input_type_check
    let (rg, rest) ← pRGrid rest
    let (c, rest) ← pVec pFloat rest
    if rest ≠ [] then none else
    match Gen.AtomGrid.input_type_check rg c with
    | .ok _ => pure "ok"
    | .error e => errTag e
  | "C05.build" :: m :: kind :: rest => do
    let (dg, np) ← tablesOf m
    let (reqs, rest) ← pVec pNat rest
    let req ← pRequest kind reqs
    let rot :: rest := rest | none
    let rotate ← pNat rot
    let (c, rest) ← pV3 rest
    let (rs, rest) ← pVec pFloat rest
    let (ws, rest) ← pVec pFloat rest
    if rs.length ≠ ws.length then none else
    let k :: rest := rest | none
    let (ang, rest) ← pAngular (← pNat k) rest
    let k :: rest := rest | none
    let (mats, rest) ← pMats (← pNat k) rest
    let k :: rest := rest | none
    let (sgs, rest) ← pPairsIntBool (← pNat k) rest
    if rest ≠ [] then none else
    let env : Env Float := {
      degreesTbl := dg, npointsTbl := np,
      load := fun d => (ang.find? fun q => q.1 == d).map fun q => q.2,
      rotation := fun s => ((mats.find? fun q => q.1 == s).map (·.2)).getD zeroM }
    match init env (rs.zip ws) req c rotate with
    | .error e => errTag e
    | .ok g =>
      -- every seed the model asks for must have been supplied: the default matrix is never used
      -- (matrices do not influence which exception is raised, so errors are answered above)
      let need := (if rotates rotate then (List.range rs.length).map (shellSeed rotate) else []) ++
        (if shellGridRotates rotate then
          sgs.filterMap fun (i, _) => if 0 ≤ i ∧ i < rs.length then some (shellGridSeed rotate i.toNat) else none
         else [])
      if need.any fun s => (mats.find? fun q => q.1 == s).isNone then none else
      let sg ← sgs.mapM fun (i, b) =>
        match getShellGrid env g i b with
        | .ok (p, w) => some s!"sg-ok {sV3s p} {sFloats w}"
        | .error e => (errTag e).map ("sg-" ++ ·)
      pure (String.intercalate " "
        (["ok", sNats g.indices, sNats g.degrees, toString g.size, sV3s g.points, sFloats g.weights] ++ sg))
  | "C05.sectors" :: rest => do
    let (rp, rest) ← pVec pFloat rest
    let (bs, rest) ← pVec pFloat rest
    let (ds, rest) ← pVec pNat rest
    if rest ≠ [] then none else
    -- the regenerated lookup and the hand model must agree (the theorem says so; checked here on floats)
    let a := Gen.AtomGrid.find_degrees_for_radial_points rp bs ds
    let b := findDegreesForRadialPoints rp bs ds
    let show1 : Except Err (List Nat) → Option String := fun r => match r with
      | .ok v => some ("ok " ++ sNats v)
      | .error e => errTag e
    if show1 a != show1 b then pure "gen-model-mismatch" else show1 a
  | "C05.pruned" :: m :: kind :: rest => do
    let (dg, np) ← tablesOf m
    let (sect, rest) ← pVec pNat rest
    let req ← pRequest kind sect
    let r :: rest := rest | none
    let radius ← pFloat r
    let (rsect, rest) ← pVec pFloat rest
    let (rp, rest) ← pVec pFloat rest
    if rest ≠ [] then none else
    let env : Env Float := { degreesTbl := dg, npointsTbl := np, load := fun _ => none, rotation := fun _ => zeroM }
    let rg : RGrid Float := ⟨true, none, rp, rp⟩
    -- regenerated `_generate_degree_from_radius` (sizes converted first, as `from_pruned` does)
    let a : Except Err (List Nat) := match req with
      | .degrees ds => Gen.AtomGrid.generate_degree_from_radius env rg radius rsect (some ds)
      | .sizes ss => match convertAngularSizesToDegrees env ss with
        | .ok ds => Gen.AtomGrid.generate_degree_from_radius env rg radius rsect (some ds)
        | .error e => .error e
    let b := generateDegreeFromRadius dg np rp radius rsect req
    let show1 : Except Err (List Nat) → Option String := fun r => match r with
      | .ok v => some ("ok " ++ sNats v)
      | .error e => errTag e
    if show1 a != show1 b then pure "gen-model-mismatch" else show1 a
  | "C05.preset" :: p :: z :: m :: rest => do
    let p ← Preset.ofName? p
    let z ← pNat z
    let (_, np) ← tablesOf m
    let (rp, rest) ← pVec pFloat rest
    if rest ≠ [] then none else
    match findEntry p z with
    | none => pure "key-error"
    | some e =>
      match presetRequest dyadicToFloat np e rp with
      | .ok r => pure ("ok " ++ sRequest r)
      | .error err => errTag err
  | ["C05.branch", p, z] => do
    let p ← Preset.ofName? p
    let z ← pNat z
    pure (if takesShellCountBranch p z then "ok shell-count" else "ok sector")
  | ["C05.prescribed", p, z] => do
    let p ← Preset.ofName? p
    let z ← pNat z
    match findEntry p z with
    | none => pure "key-error"
    | some e =>
      match prescribedSize e with
      | some n => pure s!"ok {n}"
      | none => pure "ok none"
  | ["C05.entry", p, z] => do
    let p ← Preset.ofName? p
    let z ← pNat z
    match findEntry p z with
    | none => pure "key-error"
    | some e =>
      pure (String.intercalate " " ["ok", toString e.lenRad, toString e.lenNpt, if e.radIsInt then "1" else "0",
        toString e.radSum, sNats e.npt, sFloats (e.radSectors.map dyadicToFloat)])
  | _ => none

end GridVerif.Driver.C05

import GridVerif.Model.Proto
import GridVerif.Model.Elem
import GridVerif.Model.OneD
import GridVerif.Gen.OneDFormulas
import GridVerif.Model.OneDPy
import GridVerif.Gen.OneDCtor

namespace GridVerif.Driver.C01
open GridVerif.Proto GridVerif.OneD

def showErr : Err → String
  | .valueError => "value-error"
  | .typeError => "type-error"
  | .runtimeError => "runtime-error"

def showGrid : Except Err (Grid1D Float) → String
  | .error e => showErr e
  | .ok g =>
    "ok " ++ sFloats g.points ++ " " ++ sFloats g.weights ++ " " ++ sFloat g.lo ++ " " ++
      (match g.hi with | some h => sFloat h | none => "inf")

def fnan (x : Float) : Bool := x != x

/-- `P W` (two vectors) at the end of a line: the output of the NumPy/SciPy Gauss call. -/
def pGauss (toks : List String) : Option (Nat → List Float × List Float) := do
  let (p, r) ← pVec pFloat toks
  let (w, r) ← pVec pFloat r
  if r ≠ [] then none else pure (fun _ => (p, w))

/-- Constructors callable as `quadrature(npoints)` (default extra parameters as in the source). -/
def baseRule (gauss : Nat → List Float × List Float) :
    String → Option (Int → Except Err (Grid1D Float))
  | "GaussLaguerre" => some fun n => GaussLaguerre.make fnan gauss n 0.0
  | "GaussLegendre" => some (GaussLegendre.make gauss)
  | "GaussChebyshev" => some (GaussChebyshev.make gauss)
  | "UniformInteger" => some UniformInteger.make
  | "GaussChebyshevType2" => some (GaussChebyshevType2.make gauss)
  | "GaussChebyshevLobatto" => some GaussChebyshevLobatto.make
  | "Trapezoidal" => some Trapezoidal.make
  | "RectangleRuleSineEndPoints" => some RectangleRuleSineEndPoints.make
  | "TanhSinh" => some fun n => TanhSinh.make n Gen.OneD.TanhSinh.hDefault
  | "Simpson" => some Simpson.make
  | "MidPoint" => some MidPoint.make
  | "ClenshawCurtis" => some ClenshawCurtis.make
  | "FejerFirst" => some FejerFirst.make
  | "FejerSecond" => some FejerSecond.make
  | "TrefethenCC" => some fun n => TrefethenCC.make n 9
  | "TrefethenGC2" => some fun n => TrefethenGC2.make gauss n 9
  | "TrefethenStripCC" => some fun n => TrefethenStripCC.make n (11.0 / 10.0)
  | "TrefethenStripGC2" => some fun n => TrefethenStripGC2.make gauss n (11.0 / 10.0)
  | "ExpSinh" => some fun n => ExpSinh.make n Gen.OneD.ExpSinh.hDefault
  | "LogExpSinh" => some fun n => LogExpSinh.make n Gen.OneD.LogExpSinh.hDefault
  | "ExpExp" => some fun n => ExpExp.make n Gen.OneD.ExpExp.hDefault
  | "SingleTanh" => some fun n => SingleTanh.make n Gen.OneD.SingleTanh.hDefault
  | "SingleExp" => some fun n => SingleExp.make n Gen.OneD.SingleExp.hDefault
  | "SingleArcSinhExp" => some fun n => SingleArcSinhExp.make n Gen.OneD.SingleArcSinhExp.hDefault
  | _ => none

def noArg : String → Option (Int → Except Err (Grid1D Float))
  | "UniformInteger" => some UniformInteger.make
  | "GaussChebyshevLobatto" => some GaussChebyshevLobatto.make
  | "Trapezoidal" => some Trapezoidal.make
  | "RectangleRuleSineEndPoints" => some RectangleRuleSineEndPoints.make
  | "Simpson" => some Simpson.make
  | "MidPoint" => some MidPoint.make
  | "ClenshawCurtis" => some ClenshawCurtis.make
  | "FejerFirst" => some FejerFirst.make
  | "FejerSecond" => some FejerSecond.make
  | "FejerSecondCorrected" => some FejerSecondCorrected.make  -- hand-written complete series (not the code)
  | _ => none

def stepArg : String → Option (Int → Float → Except Err (Grid1D Float))
  | "TanhSinh" => some TanhSinh.make
  | "ExpSinh" => some ExpSinh.make
  | "LogExpSinh" => some LogExpSinh.make
  | "ExpExp" => some ExpExp.make
  | "SingleTanh" => some SingleTanh.make
  | "SingleExp" => some SingleExp.make
  | "SingleArcSinhExp" => some SingleArcSinhExp.make
  | "TrefethenStripCC" => some TrefethenStripCC.make
  | _ => none

def gaussArg : String → Option ((Nat → List Float × List Float) → Int → Except Err (Grid1D Float))
  | "GaussLegendre" => some GaussLegendre.make
  | "GaussChebyshev" => some GaussChebyshev.make
  | "GaussChebyshevType2" => some GaussChebyshevType2.make
  | _ => none

open Gen.OneD in
def fn2 : String → Option (Float → Float → Float)
  | "TanhSinh.node" => some TanhSinh.node | "TanhSinh.weight" => some TanhSinh.weight
  | "ExpSinh.node" => some ExpSinh.node | "ExpSinh.weight" => some ExpSinh.weight
  | "LogExpSinh.node" => some LogExpSinh.node | "LogExpSinh.weight" => some LogExpSinh.weight
  | "ExpExp.node" => some ExpExp.node | "ExpExp.weight" => some ExpExp.weight
  | "SingleTanh.node" => some SingleTanh.node | "SingleTanh.weight" => some SingleTanh.weight
  | "SingleExp.node" => some SingleExp.node | "SingleExp.weight" => some SingleExp.weight
  | "SingleArcSinhExp.node" => some SingleArcSinhExp.node
  | "SingleArcSinhExp.weight" => some SingleArcSinhExp.weight
  | "gstrip" => some gstrip
  | "dergstrip" => some OneD.dergstrip
  | "dergstripAt" => some dergstripAt
  | _ => none

open Gen.OneD in
def fn1 : String → Option (Float → Float)
  | "g2" => some g2 | "derg2" => some derg2 | "g3" => some g3 | "derg3" => some derg3
  | _ => none

open Gen.OneD in
def nat1 : String → Option (Nat → Nat)
  | "ClenshawCurtis.jmed" => some ClenshawCurtis.jmed
  | "ClenshawCurtis.jLen" => some ClenshawCurtis.jLen
  | "ClenshawCurtis.jOff" => some ClenshawCurtis.jOff
  | "ClenshawCurtis.bjLen" => some ClenshawCurtis.bjLen
  | "ClenshawCurtis.patchIdx" => some ClenshawCurtis.patchIdx
  | "ClenshawCurtis.patchCond" => some fun n => if ClenshawCurtis.patchCond n then 1 else 0
  | "FejerFirst.nsum" => some FejerFirst.nsum
  | "FejerFirst.jLen" => some FejerFirst.jLen
  | "FejerFirst.jOff" => some FejerFirst.jOff
  | "FejerFirst.bjLen" => some FejerFirst.bjLen
  | "FejerSecond.nsum" => some FejerSecond.nsum
  | "FejerSecond.jLen" => some FejerSecond.jLen
  | "FejerSecond.jOff" => some FejerSecond.jOff
  | "FejerSecond.bjLen" => some FejerSecond.bjLen
  | "TanhSinh.kLen" => some TanhSinh.kLen
  | "ExpSinh.kLen" => some ExpSinh.kLen
  | "LogExpSinh.kLen" => some LogExpSinh.kLen
  | "ExpExp.kLen" => some ExpExp.kLen
  | "SingleTanh.kLen" => some SingleTanh.kLen
  | "SingleExp.kLen" => some SingleExp.kLen
  | "SingleArcSinhExp.kLen" => some SingleArcSinhExp.kLen
  | _ => none

open Gen.OneD in
def nat2 : String → Option (Nat → Nat → Nat)
  | "ClenshawCurtis.denom" => some ClenshawCurtis.denom
  | "ClenshawCurtis.freq" => some ClenshawCurtis.freq
  | "FejerFirst.denom" => some FejerFirst.denom
  | "FejerFirst.freq" => some FejerFirst.freq
  | "FejerSecond.denom" => some FejerSecond.denom
  | "FejerSecond.freq" => some FejerSecond.freq
  | _ => none

open Gen.OneD in
def int1 : String → Option (Nat → Int)
  | "TanhSinh.kFirst" => some TanhSinh.kFirst
  | "ExpSinh.kFirst" => some ExpSinh.kFirst
  | "LogExpSinh.kFirst" => some LogExpSinh.kFirst
  | "ExpExp.kFirst" => some ExpExp.kFirst
  | "SingleTanh.kFirst" => some SingleTanh.kFirst
  | "SingleExp.kFirst" => some SingleExp.kFirst
  | "SingleArcSinhExp.kFirst" => some SingleArcSinhExp.kFirst
  | _ => none

/-! ### the generated constructors (`Gen/OneDCtor.lean`) -/

open GridVerif.OneD.Py in
def showPy : Except Err (PyGrid Float) → String
  | .error e => showErr e
  | .ok g =>
    "ok " ++ sFloats g.points ++ " " ++ sFloats g.weights ++ " " ++
      (match g.domain with
       | none => "none none"
       | some d => sFloat d.lo ++ " " ++ (match d.hi with | some h => sFloat h | none => "inf"))

/-- the NumPy/SciPy routines, all answering with the vectors given on the line -/
def mkExt (g : Nat → List Float × List Float) : Py.Ext Float :=
  ⟨g, g, g, fun n _ => g n, fnan⟩

open Gen.OneD in
/-- generated constructors callable as `quadrature(npoints)` (generated default parameters) -/
def baseCtor (ext : Py.Ext Float) : String → Option (Int → Except Err (Py.PyGrid Float))
  | "GaussLaguerre" => some fun n => GaussLaguerre.ctor ext n GaussLaguerre.alphaDefault
  | "GaussLegendre" => some (GaussLegendre.ctor ext)
  | "GaussChebyshev" => some (GaussChebyshev.ctor ext)
  | "UniformInteger" => some UniformInteger.ctor
  | "GaussChebyshevType2" => some (GaussChebyshevType2.ctor ext)
  | "GaussChebyshevLobatto" => some GaussChebyshevLobatto.ctor
  | "Trapezoidal" => some Trapezoidal.ctor
  | "RectangleRuleSineEndPoints" => some RectangleRuleSineEndPoints.ctor
  | "TanhSinh" => some fun n => TanhSinh.ctor n TanhSinh.hDefault
  | "Simpson" => some Simpson.ctor
  | "MidPoint" => some MidPoint.ctor
  | "ClenshawCurtis" => some ClenshawCurtis.ctor
  | "FejerFirst" => some FejerFirst.ctor
  | "FejerSecond" => some FejerSecond.ctor
  | "TrefethenCC" => some fun n => TrefethenCC.ctor n TrefethenCC.dDefault
  | "TrefethenGC2" => some fun n => TrefethenGC2.ctor ext n TrefethenGC2.dDefault
  | "TrefethenStripCC" => some fun n => TrefethenStripCC.ctor n TrefethenStripCC.rhoDefault
  | "TrefethenStripGC2" => some fun n => TrefethenStripGC2.ctor ext n TrefethenStripGC2.rhoDefault
  | "ExpSinh" => some fun n => ExpSinh.ctor n ExpSinh.hDefault
  | "LogExpSinh" => some fun n => LogExpSinh.ctor n LogExpSinh.hDefault
  | "ExpExp" => some fun n => ExpExp.ctor n ExpExp.hDefault
  | "SingleTanh" => some fun n => SingleTanh.ctor n SingleTanh.hDefault
  | "SingleExp" => some fun n => SingleExp.ctor n SingleExp.hDefault
  | "SingleArcSinhExp" => some fun n => SingleArcSinhExp.ctor n SingleArcSinhExp.hDefault
  | _ => none

open Gen.OneD in
def noArgCtor : String → Option (Int → Except Err (Py.PyGrid Float))
  | "UniformInteger" => some UniformInteger.ctor
  | "GaussChebyshevLobatto" => some GaussChebyshevLobatto.ctor
  | "Trapezoidal" => some Trapezoidal.ctor
  | "RectangleRuleSineEndPoints" => some RectangleRuleSineEndPoints.ctor
  | "Simpson" => some Simpson.ctor
  | "MidPoint" => some MidPoint.ctor
  | "ClenshawCurtis" => some ClenshawCurtis.ctor
  | "FejerFirst" => some FejerFirst.ctor
  | "FejerSecond" => some FejerSecond.ctor
  | _ => none

open Gen.OneD in
def stepArgCtor : String → Option (Int → Float → Except Err (Py.PyGrid Float))
  | "TanhSinh" => some TanhSinh.ctor
  | "ExpSinh" => some ExpSinh.ctor
  | "LogExpSinh" => some LogExpSinh.ctor
  | "ExpExp" => some ExpExp.ctor
  | "SingleTanh" => some SingleTanh.ctor
  | "SingleExp" => some SingleExp.ctor
  | "SingleArcSinhExp" => some SingleArcSinhExp.ctor
  | "TrefethenStripCC" => some TrefethenStripCC.ctor
  | _ => none

open Gen.OneD in
def gaussArgCtor : String → Option (Py.Ext Float → Int → Except Err (Py.PyGrid Float))
  | "GaussLegendre" => some GaussLegendre.ctor
  | "GaussChebyshev" => some GaussChebyshev.ctor
  | "GaussChebyshevType2" => some GaussChebyshevType2.ctor
  | _ => none

open Gen.OneD in
/-- generated default of the extra parameter -/
def defaultOf : String → Option String
  | "GaussLaguerre" => some (sFloat GaussLaguerre.alphaDefault)
  | "TanhSinh" => some (sFloat TanhSinh.hDefault)
  | "ExpSinh" => some (sFloat ExpSinh.hDefault)
  | "LogExpSinh" => some (sFloat LogExpSinh.hDefault)
  | "ExpExp" => some (sFloat ExpExp.hDefault)
  | "SingleTanh" => some (sFloat SingleTanh.hDefault)
  | "SingleExp" => some (sFloat SingleExp.hDefault)
  | "SingleArcSinhExp" => some (sFloat SingleArcSinhExp.hDefault)
  | "TrefethenStripCC" => some (sFloat TrefethenStripCC.rhoDefault)
  | "TrefethenStripGC2" => some (sFloat TrefethenStripGC2.rhoDefault)
  | "TrefethenStripGeneral" => some (sFloat TrefethenStripGeneral.rhoDefault)
  | "TrefethenCC" => some s!"{TrefethenCC.dDefault}"
  | "TrefethenGC2" => some s!"{TrefethenGC2.dDefault}"
  | "TrefethenGeneral" => some s!"{TrefethenGeneral.dDefault}"
  | _ => none

/-- `C01.ctor …`: the same lines as `C01.make …`, answered by the generated constructors. -/
def handleCtor : List String → Option String
  | [cls, n] => do
    let mk ← noArgCtor cls
    pure (showPy (mk (← pInt n)))
  | ["TrefethenCC", n, d] => do
    pure (showPy (Gen.OneD.TrefethenCC.ctor (← pInt n) (← pInt d)))
  | [cls, n, h] => do
    let mk ← stepArgCtor cls
    pure (showPy (mk (← pInt n) (← pFloat h)))
  | "GaussLaguerre" :: n :: alpha :: rest => do
    pure (showPy (Gen.OneD.GaussLaguerre.ctor (mkExt (← pGauss rest)) (← pInt n) (← pFloat alpha)))
  | "TrefethenGC2" :: n :: d :: rest => do
    pure (showPy (Gen.OneD.TrefethenGC2.ctor (mkExt (← pGauss rest)) (← pInt n) (← pInt d)))
  | "TrefethenStripGC2" :: n :: rho :: rest => do
    pure (showPy (Gen.OneD.TrefethenStripGC2.ctor (mkExt (← pGauss rest)) (← pInt n) (← pFloat rho)))
  | "TrefethenGeneral" :: n :: base :: d :: rest => do
    let g ← pGauss rest
    let q ← if base = "-" then pure none else (baseCtor (mkExt g) base).map some
    pure (showPy (Gen.OneD.TrefethenGeneral.ctor (← pInt n) q (← pInt d)))
  | "TrefethenStripGeneral" :: n :: base :: rho :: rest => do
    let g ← pGauss rest
    let q ← baseCtor (mkExt g) base
    pure (showPy (Gen.OneD.TrefethenStripGeneral.ctor (← pInt n) q (← pFloat rho)))
  | cls :: n :: rest => do
    let mk ← gaussArgCtor cls
    pure (showPy (mk (mkExt (← pGauss rest)) (← pInt n)))
  | _ => none

/-- `C01.init <P> <W> none` / `C01.init <P> <W> dom <lo> <hi|inf>`: the generated `OneDGrid.__init__`. -/
def handleInit (toks : List String) : Option String := do
  let (p, r) ← pVec pFloat toks
  let (w, r) ← pVec pFloat r
  match r with
  | ["none"] => pure (showPy (Gen.OneD.OneDGrid.init p w none))
  | ["dom", lo, hi] =>
    let h ← if hi = "inf" then pure none else (pFloat hi).map some
    pure (showPy (Gen.OneD.OneDGrid.init p w (some ⟨← pFloat lo, h⟩)))
  | _ => none

/-- Line-protocol handler of property C01: `C01.<op> args…` ↦ one answer line
(`none` = malformed, answered `bad-op`).

* `C01.make <Class> <npoints> [<param>] [<P> <W>]`  — constructor
* `C01.make TrefethenGeneral <npoints> <base|-> <d> <P> <W>`, `… TrefethenStripGeneral <npoints> <base> <rho> <P> <W>`
* `C01.make FejerSecondCorrected <npoints>` — the hand-written complete Fejér-2 series;
  `C01.fejer2missing <n>` — the per-weight contribution of the term the code leaves out
* `C01.ctor …` — the same lines as `C01.make …`, answered by the generated constructors (`Gen/OneDCtor.lean`);
  `C01.init <P> <W> none | dom <lo> <hi|inf>` — the generated `OneDGrid.__init__`; `C01.default <Class>`
* `C01.fn <generated function> x [y]`, `C01.nat <generated bound> n [j]`, `C01.int <…kFirst> n` -/
def handle : List String → Option String
  | "C01.ctor" :: rest => handleCtor rest
  | "C01.init" :: rest => handleInit rest
  | ["C01.default", cls] => do pure ("ok " ++ (← defaultOf cls))
  | ["C01.make", cls, n] => do
    let mk ← noArg cls
    pure (showGrid (mk (← pInt n)))
  | ["C01.fejer2missing", n] => do
    pure ("ok " ++ sFloats (FejerSecondCorrected.missing (K := Float) (← pNat n)))
  | ["C01.make", "TrefethenCC", n, d] => do
    pure (showGrid (TrefethenCC.make (← pInt n) (← pInt d)))
  | ["C01.make", cls, n, h] => do
    let mk ← stepArg cls
    pure (showGrid (mk (← pInt n) (← pFloat h)))
  | "C01.make" :: "GaussLaguerre" :: n :: alpha :: rest => do
    pure (showGrid (GaussLaguerre.make fnan (← pGauss rest) (← pInt n) (← pFloat alpha)))
  | "C01.make" :: "TrefethenGC2" :: n :: d :: rest => do
    pure (showGrid (TrefethenGC2.make (← pGauss rest) (← pInt n) (← pInt d)))
  | "C01.make" :: "TrefethenStripGC2" :: n :: rho :: rest => do
    pure (showGrid (TrefethenStripGC2.make (← pGauss rest) (← pInt n) (← pFloat rho)))
  | "C01.make" :: "TrefethenGeneral" :: n :: base :: d :: rest => do
    let g ← pGauss rest
    let q ← if base = "-" then pure none else (baseRule g base).map some
    pure (showGrid (TrefethenGeneral.make q (← pInt n) (← pInt d)))
  | "C01.make" :: "TrefethenStripGeneral" :: n :: base :: rho :: rest => do
    let g ← pGauss rest
    let q ← baseRule g base
    pure (showGrid (TrefethenStripGeneral.make q (← pInt n) (← pFloat rho)))
  | "C01.make" :: cls :: n :: rest => do
    let mk ← gaussArg cls
    pure (showGrid (mk (← pGauss rest) (← pInt n)))
  | ["C01.fn", f, x] => do
    pure ("ok " ++ sFloat ((← fn1 f) (← pFloat x)))
  | ["C01.fn", f, x, y] => do
    pure ("ok " ++ sFloat ((← fn2 f) (← pFloat x) (← pFloat y)))
  | ["C01.nat", f, n] => do
    pure s!"ok {(← nat1 f) (← pNat n)}"
  | ["C01.nat", f, n, j] => do
    pure s!"ok {(← nat2 f) (← pNat n) (← pNat j)}"
  | ["C01.int", f, n] => do
    pure s!"ok {(← int1 f) (← pNat n)}"
  | _ => none

end GridVerif.Driver.C01

import GridVerif.Model.Proto
import GridVerif.Model.Elem

namespace GridVerif.Driver.C11
open GridVerif.Proto

/-- Line-protocol handler of property C11: `C11.<op> args…` ↦ one answer line
(`none` = malformed, answered `bad-op`). -/
def handle : List String → Option String
  | _ => none

end GridVerif.Driver.C11

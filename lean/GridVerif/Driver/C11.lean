import GridVerif.Model.Proto
import GridVerif.Model.Elem
import GridVerif.Model.Periodic
import GridVerif.Model.LocalGridGen
import GridVerif.Gen.PeriodicGridInit
import GridVerif.Driver.C10

/-
  Driver of C11.  Constructor and operations are executed by the **generated** definitions
  (`Gen/LocalGrid.lean`: `PeriodicGrid_init`, `LocalGridGen.genPStep`); `Props/C11/Gen.lean` proves
  that they are those of the hand model.  One line = one PeriodicGrid with its whole history:

    C11.hist <oned 0|1> <dim> <points: mat> <weights: vec> <realvecs: mat k×dim>
             <recivecs parameter: mat k×dim> <wrap 0|1> <nops> <op>*

  with the ops of C10 (`q`, `sp`, `sw`, `gi`).  Answer: the error tag of the constructor or

    ok C <points: mat> <recivecs: mat> <spacings: vec> <frac_intvls: mat k×2> <warn> | <out> | …
    out := L <ilc: mat n×k> <indices: vec> <points: mat> <weights: vec>
         | G <points: mat> <weights: vec> <frac_intvls: mat> <warn>
         | D <frac_intvls: mat>          (after `sp`)    | D   (after `sw`)
         | E <error>
    warn := W0 | W1:<category>:<stacklevel> | WE:<error> | WU
            (the **generated** warning block `Gen/PeriodicGridInit.lean: PeriodicGrid_init_warning` run on the
             `_frac_intvls` of the object just constructed: no warning / one warning / raises / unmodelled)
-/
namespace GridVerif.Driver.C11
open GridVerif.Proto GridVerif.LocalGrid GridVerif.Periodic GridVerif.LocalGridGen
open GridVerif.Gen.LocalGrid (PeriodicGrid_init)
open GridVerif.Gen.PeriodicGridInit (PeriodicGrid_init_warning)
open GridVerif.Driver.C10 (P pTok pBool pOps sErr)

def sIntv (iv : List (Float × Float)) : String :=
  sMat sFloat (iv.map fun p => [p.1, p.2])

/-- The generated warning block of the constructor on the intervals of a constructed object. -/
def sWarn (g : PGrid Float) : String :=
  match PeriodicGrid_init_warning g.fracIntvls with
  | none => "WU"
  | some (.error e) => s!"WE:{sErr e}"
  | some (.ok none) => "W0"
  | some (.ok (some (cat, lvl))) => s!"W1:{cat}:{lvl}"

def toPOp : Op Float → POp Float
  | .query c r => .query c r
  | .setPoints o d v => .setPoints o d v
  | .setWeights w => .setWeights w
  | .getItem i => .getItem i

/-- Runs the history, printing each outcome (the `L` answers also carry the integer
combination of every entry, recomputed with `entries`). -/
def runShow (g : PGrid Float) : List (Op Float) → List String
  | [] => []
  | op :: ops =>
    match genPStep g (toPOp op) with
    | none => ["unmodelled"]   -- the generated code left the modelled fragment
    | some (g', o) =>
    let s : String := match o, op with
      | .out (.localGrid idx lp lw), .query c (.fin r) =>
        let tree := match g.tree with
          | some t => t
          | none => g.points
        let es := match centreOf g c with
          | some c => entries g tree c r
          | none => []
        s!"L {sMat toString (es.map (·.1))} {sNats idx} {sMat sFloat lp} {sFloats lw}"
      | .out (.localGrid idx lp lw), _ => s!"L 0 0 {sNats idx} {sMat sFloat lp} {sFloats lw}"
      | .out .done, .setPoints .. => s!"D {sIntv g'.fracIntvls}"
      | .out .done, _ => "D"
      | .out (.error e), _ => s!"E {sErr e}"
      | .out (.grid ..), _ => "E unexpected"
      | .grid sub, _ => s!"G {sMat sFloat sub.points} {sFloats sub.weights} {sIntv sub.fracIntvls} {sWarn sub}"
    s :: runShow g' ops

def handle : List String → Option String
  | "C11.hist" :: ts => do
    let (oned, ts) ← pBool ts
    let (dim, ts) ← pTok pNat ts
    let (pts, ts) ← pMat pFloat ts
    let (w, ts) ← pVec pFloat ts
    let (rv, ts) ← pMat pFloat ts
    let (reci, ts) ← pMat pFloat ts
    let (wrap, ts) ← pBool ts
    let (nops, ts) ← pTok pNat ts
    let (ops, ts) ← pOps nops ts
    if ts ≠ [] then none else
    match PeriodicGrid_init oned dim pts w rv reci wrap with
    | none => pure "unmodelled"
    | some (.error e) => pure (sErr e)
    | some (.ok g) =>
      let head := s!"C {sMat sFloat g.points} {sMat sFloat g.recivecs} {sFloats g.spacings} {sIntv g.fracIntvls} {sWarn g}"
      pure ("ok " ++ String.intercalate " | " (head :: runShow g ops))
  | _ => none

end GridVerif.Driver.C11

import GridVerif.Model.Proto
import GridVerif.Model.Elem
import GridVerif.Model.AtomInterp

namespace GridVerif.Driver.C09
open GridVerif.Proto GridVerif.AtomInterp

/-
  Protocol (arrays travel as tables; a table is read back as a function of its index, an index outside
  the table answers nan, which no comparison accepts):

  grid := n <fvec r> <fvec w> <vec deg> <vec idx (n+1)> <fvec wts (N)> <fvec regenW (N, laid out like wts)>
  C09.integrate  grid <fvec f>                 -> ok <fvec per-shell> <reweighted sum> <grid integral>
  C09.average    grid <fvec f>                 -> ok <fvec per-shell / 4π> <radial 4π r² quadrature of them>
  C09.components grid <fmat basis rows×N> <fvec f>
                                               -> ok <lMax> <fmat nRows(lMax/2) × n> | shape-mismatch <rows expected>
  C09.cart_to_sph <3 floats centre> <fmat M×3>  -> ok <fmat M×3 (r, θ, φ)>
  C09.grid_angles n <fvec r> <vec idx> <3 floats centre> <fmat pts N×3> <fmat regenPts N×3>
                                               -> ok <fmat N×2 (θ, φ)>
  C09.assemble   nrows deriv dsph onlyrad <fmat sph M×3> <fmat sNu rows×M> <fmat s0> <fmat y> <fmat dyt> <fmat dyp>
                                               -> ok <vec shape> <fvec data> | value-error
  C09.mol_combine k <fvec out_0> … <fvec out_{k-1}> -> ok <fvec>
-/

def nan : Float := 0.0 / 0.0

/-- Tables are converted to arrays by the caller (`let a := xs.toArray` in the handler, evaluated once);
`tabA a` is then a closure over the finished array.  (A definition `tab xs := let a := xs.toArray; fun j => …`
is compiled with arity 2 and would convert the list on every look-up.) -/
@[noinline] def tabA (a : Array Float) (j : Nat) : Float := a.getD j nan

@[noinline] def tabNA (a : Array Nat) (j : Nat) : Nat := a.getD j 0

@[noinline] def tab2A (a : Array (Array Float)) (i j : Nat) : Float := (a.getD i #[]).getD j nan

def arr2 (m : List (List Float)) : Array (Array Float) := (m.map List.toArray).toArray

def toVec3 : List Float → Option (Vec3 Float)
  | [x, y, z] => some ⟨x, y, z⟩
  | _ => none

def p3 : List String → Option (Vec3 Float × List String)
  | a :: b :: c :: rest => do
    let a ← pFloat a
    let b ← pFloat b
    let c ← pFloat c
    pure (⟨a, b, c⟩, rest)
  | _ => none

def pBool : String → Option Bool
  | "0" => some false
  | "1" => some true
  | _ => none

/-- `grid` of the protocol; points are not needed by the list-algebra ops. -/
def pGrid (toks : List String) : Option (AGrid Float × Nat × List String) :=
  match toks with
  | [] => none
  | n :: rest => do
    let n ← pNat n
    let (r, rest) ← pVec pFloat rest
    let (w, rest) ← pVec pFloat rest
    let (deg, rest) ← pVec pNat rest
    let (idx, rest) ← pVec pNat rest
    let (wts, rest) ← pVec pFloat rest
    let (rw, rest) ← pVec pFloat rest
    if r.length ≠ n ∨ w.length ≠ n ∨ deg.length ≠ n ∨ idx.length ≠ n + 1 then none else
    let npts := idx.getLast?.getD 0
    if wts.length ≠ npts ∨ rw.length ≠ npts then none else
    let idxA := idx.toArray
    let rwA := rw.toArray
    let rA := r.toArray
    let wA := w.toArray
    let degA := deg.toArray
    let wtsA := wts.toArray
    let idxf := tabNA idxA
    let rwf := tabA rwA
    let z : Vec3 Float := ⟨0.0, 0.0, 0.0⟩
    pure ({ nShells := n, r := tabA rA, w := tabA wA, deg := tabNA degA, idx := idxf, wts := tabA wtsA,
            pts := fun _ => z, center := z,
            regenW := fun i k => rwf (idxf i + k), regenPts := fun _ _ => z }, npts, rest)

def showOut : Except Err (List Nat × List Float) → String
  | .ok (shape, data) => s!"ok {sNats shape} {sFloats data}"
  | .error .valueError => "value-error"

def rowsOf (m : List (List Float)) : Option (List (Vec3 Float)) := m.mapM toVec3

def handle : List String → Option String
  | "C09.integrate" :: rest => do
    let (g, npts, rest) ← pGrid rest
    let (f, rest) ← pVec pFloat rest
    if rest ≠ [] ∨ f.length ≠ npts then none else
    let fA := f.toArray
    let ff := tabA fA
    let a := integrateAngular g ff
    pure s!"ok {sFloats ((List.range g.nShells).map a)} {sFloat (reweightedSum g a)} {sFloat (gridIntegral g ff)}"
  | "C09.average" :: rest => do
    let (g, npts, rest) ← pGrid rest
    let (f, rest) ← pVec pFloat rest
    if rest ≠ [] ∨ f.length ≠ npts then none else
    let fA := f.toArray
    let a := averageValues g (tabA fA)
    let vals := (List.range g.nShells).map a
    -- the radial quadrature of the node values (a spline that interpolates returns them at the nodes)
    let valsA := vals.toArray
    let av := tabA valsA
    let back := sumTo g.nShells (fun i => (((4 : Nat) : Float) * Elem.pi * (g.r i * g.r i) * av i) * g.w i)
    pure s!"ok {sFloats vals} {sFloat back}"
  | "C09.components" :: rest => do
    let (g, npts, rest) ← pGrid rest
    let (bas, rest) ← pMat pFloat rest
    let (f, rest) ← pVec pFloat rest
    if rest ≠ [] ∨ f.length ≠ npts then none else
    let rows := nRows (g.lMax / 2)
    if bas.length ≠ rows then pure s!"shape-mismatch {rows}" else
    if bas.any (fun r => r.length ≠ npts) then none else
    let basA := arr2 bas
    let fA := f.toArray
    let c := radialComponents g (tab2A basA) (tabA fA)
    pure s!"ok {g.lMax} {sMat sFloat ((List.range rows).map fun row => (List.range g.nShells).map (c row))}"
  | "C09.cart_to_sph" :: rest => do
    let (c, rest) ← p3 rest
    let (m, rest) ← pMat pFloat rest
    if rest ≠ [] then none else
    let ps ← rowsOf m
    pure ("ok " ++ sMat sFloat (ps.map fun p => let s := cartToSph c p; [s.r, s.theta, s.phi]))
  | "C09.grid_angles" :: n :: rest => do
    let n ← pNat n
    let (r, rest) ← pVec pFloat rest
    let (idx, rest) ← pVec pNat rest
    let (c, rest) ← p3 rest
    let (pm, rest) ← pMat pFloat rest
    let (rm, rest) ← pMat pFloat rest
    if rest ≠ [] ∨ r.length ≠ n ∨ idx.length ≠ n + 1 then none else
    let npts := idx.getLast?.getD 0
    let ps ← rowsOf pm
    let rs ← rowsOf rm
    if ps.length ≠ npts ∨ rs.length ≠ npts then none else
    let idxA := idx.toArray
    let idxf := tabNA idxA
    let bad : Vec3 Float := ⟨nan, nan, nan⟩
    let pa := ps.toArray
    let ra := rs.toArray
    let rA := r.toArray
    let g : AGrid Float :=
      { nShells := n, r := tabA rA, w := fun _ => nan, deg := fun _ => 0, idx := idxf, wts := fun _ => nan,
        pts := fun j => pa.getD j bad, center := c, regenW := fun _ _ => nan,
        regenPts := fun i k => ra.getD (idxf i + k) bad }
    let ang := gridAngles g
    pure ("ok " ++ sMat sFloat ((List.range npts).map fun j => [(ang j).1, (ang j).2]))
  | "C09.assemble" :: nrows :: deriv :: dsph :: orad :: rest => do
    let nrows ← pNat nrows
    let deriv ← pNat deriv
    let dsph ← pBool dsph
    let orad ← pBool orad
    let (sph, rest) ← pMat pFloat rest
    let (sNu, rest) ← pMat pFloat rest
    let (s0, rest) ← pMat pFloat rest
    let (y, rest) ← pMat pFloat rest
    let (dyt, rest) ← pMat pFloat rest
    let (dyp, rest) ← pMat pFloat rest
    if rest ≠ [] then none else
    let qs ← rowsOf sph
    let m := qs.length
    let okShape := fun (t : List (List Float)) => t.length = nrows ∧ t.all (fun r => r.length = m)
    if ¬ (okShape sNu ∧ okShape s0 ∧ okShape y ∧ okShape dyt ∧ okShape dyp) then none else
    let aN := arr2 sNu
    let a0 := arr2 s0
    let aY := arr2 y
    let aT := arr2 dyt
    let aP := arr2 dyp
    let tN := tab2A aN
    let t0 := tab2A a0
    let tY := tab2A aY
    let tT := tab2A aT
    let tP := tab2A aP
    let pts : List (PtData Float) := (List.range m).zip qs |>.map fun (k, q) =>
      { sph := ⟨q.x, q.y, q.z⟩, sNu := fun row => tN row k, s0 := fun row => t0 row k,
        y := fun row => tY row k, dyt := fun row => tT row k, dyp := fun row => tP row k }
    pure (showOut (assemble nrows pts deriv dsph orad))
  | "C09.mol_combine" :: k :: rest => do
    let k ← pNat k
    let rec go : Nat → List String → Option (List (List Float))
      | 0, [] => some []
      | 0, _ => none
      | k + 1, toks => do
        let (v, rest) ← pVec pFloat toks
        let tl ← go k rest
        pure (v :: tl)
    let outs ← go k rest
    if k = 0 then none else
    let oa := outs.toArray
    pure (showOut (molCombine k fun A => .ok ([], oa.getD A [])))
  | _ => none

end GridVerif.Driver.C09

import GridVerif.Model.Proto
import GridVerif.Model.Elem
import GridVerif.Model.AtomInterp
import GridVerif.Model.Harmonics
import GridVerif.Gen.AtomInterp

namespace GridVerif.Driver.C09
open GridVerif.Proto GridVerif.AtomInterp

/-
  Protocol (arrays travel as tables; a table is read back as a function of its index, an index outside
  the table answers nan, which no comparison accepts):

  grid := n <fvec r> <fvec w> <vec deg> <vec idx (n+1)> <fvec wts (N)> <fvec regenW (N, laid out like wts)>
  C09.integrate  grid <fvec f>                 -> ok <fvec per-shell> <reweighted sum> <grid integral>
  C09.average    grid <fvec f>                 -> ok <fvec per-shell / 4π> <radial 4π r² quadrature of them>
  C09.components grid <fmat basis rows×N> <fvec f>
                                               -> ok <lMax> <fmat nRows(lMax/2) × n> | shape-mismatch <rows expected>
  C09.cart_to_sph <3 floats centre> <fmat M×3>  -> ok <fmat M×3 (r, θ, φ)>
  C09.grid_angles n <fvec r> <vec idx> <3 floats centre> <fmat pts N×3> <fmat regenPts N×3>
                                               -> ok <fmat N×2 (θ, φ)>
  C09.assemble   nrows deriv dsph onlyrad <fmat sph M×3> <fmat sNu rows×M> <fmat s0> <fmat y> <fmat dyt> <fmat dyp>
                                               -> ok <vec shape> <fvec data> | value-error
  C09.mol_combine k <fvec out_0> … <fvec out_{k-1}> -> ok <fvec>

  Round 3 — the *generated* definitions of `Gen/AtomInterp.lean` (the hand-model ops above stay):
  C09.gen_integrate / C09.gen_average / C09.gen_components   same arguments and answers as the ops without `gen_`
  C09.gen_grid_angles   same arguments as C09.grid_angles, through `Gen.AtomInterp.basisAngles`
  C09.gen_convert <3 floats grid centre> <vec shape> <fvec flat points> <0 | 1 cx cy cz>
                                               -> ok <fmat M×3 (r, θ, φ)> | value-error
                        (`Gen.AtomInterp.convertCartesianToSpherical g (some points) center`)
  C09.gen_interp_low <3 floats centre> <vec degrees> <fvec knots> nrows <fmat coefficients nrows × 4(n-1): scipy's
                        `CubicSpline.c[k, i]` at column `k (n-1) + i`> <vec shape> <fvec flat points> deriv dsph onlyrad
                                               -> ok <vec shape> <fvec data> | value-error
                        (`Gen.AtomInterp.interpolateLow`; harmonics and their derivatives from `Model/Harmonics.lean`)
  C09.gen_mol_low k <vec shape_0> <fvec out_0> …  -> ok <vec shape> <fvec> | index-error   (`Gen.AtomInterp.molInterpolateLow`)
  C09.gen_mol_interp k <vec indices (k+1)> <fvec aim_weights> <fvec func_vals>
                                               -> ok <vec shape> <fvec>   (`Gen.AtomInterp.molInterpolate` with an atomic routine that hands back
                                                  the function values it is given: the sum over the atoms of `(func_vals * aim_weights)[indices[A]:indices[A+1]]`)
  C09.gen_defaults                              -> ok deriv dsph onlyrad deriv dsph onlyrads   (atomic, molecular signature)
  C09.gen_warns dsph onlyrad                    -> ok 0|1
  C09.reshape <vec shape> <ints dims>           -> ok <vec shape> | value-error   (primitive `pyReshape`)
-/

def nan : Float := 0.0 / 0.0

/-- Tables are converted to arrays by the caller (`let a := xs.toArray` in the handler, evaluated once);
`tabA a` is then a closure over the finished array.  (A definition `tab xs := let a := xs.toArray; fun j => …`
is compiled with arity 2 and would convert the list on every look-up.) -/
@[noinline] def tabA (a : Array Float) (j : Nat) : Float := a.getD j nan

@[noinline] def tabNA (a : Array Nat) (j : Nat) : Nat := a.getD j 0

@[noinline] def tab2A (a : Array (Array Float)) (i j : Nat) : Float := (a.getD i #[]).getD j nan

def arr2 (m : List (List Float)) : Array (Array Float) := (m.map List.toArray).toArray

def toVec3 : List Float → Option (Vec3 Float)
  | [x, y, z] => some ⟨x, y, z⟩
  | _ => none

def p3 : List String → Option (Vec3 Float × List String)
  | a :: b :: c :: rest => do
    let a ← pFloat a
    let b ← pFloat b
    let c ← pFloat c
    pure (⟨a, b, c⟩, rest)
  | _ => none

def pBool : String → Option Bool
  | "0" => some false
  | "1" => some true
  | _ => none

/-- `grid` of the protocol; points are not needed by the list-algebra ops. -/
def pGrid (toks : List String) : Option (AGrid Float × Nat × List String) :=
  match toks with
  | [] => none
  | n :: rest => do
    let n ← pNat n
    let (r, rest) ← pVec pFloat rest
    let (w, rest) ← pVec pFloat rest
    let (deg, rest) ← pVec pNat rest
    let (idx, rest) ← pVec pNat rest
    let (wts, rest) ← pVec pFloat rest
    let (rw, rest) ← pVec pFloat rest
    if r.length ≠ n ∨ w.length ≠ n ∨ deg.length ≠ n ∨ idx.length ≠ n + 1 then none else
    let npts := idx.getLast?.getD 0
    if wts.length ≠ npts ∨ rw.length ≠ npts then none else
    let idxA := idx.toArray
    let rwA := rw.toArray
    let rA := r.toArray
    let wA := w.toArray
    let degA := deg.toArray
    let wtsA := wts.toArray
    let idxf := tabNA idxA
    let rwf := tabA rwA
    let z : Vec3 Float := ⟨0.0, 0.0, 0.0⟩
    pure ({ nShells := n, r := tabA rA, w := tabA wA, deg := tabNA degA, idx := idxf, wts := tabA wtsA,
            pts := fun _ => z, center := z,
            regenW := fun i k => rwf (idxf i + k), regenPts := fun _ _ => z }, npts, rest)

def showOut : Except Err (List Nat × List Float) → String
  | .ok (shape, data) => s!"ok {sNats shape} {sFloats data}"
  | .error .valueError => "value-error"
  | .error .indexError => "index-error"

/-- scipy's `PPoly` evaluation of a cubic spline: knots `x` (`n ≥ 2`), `c k i` = coefficient of `(t - x_i)^(3-k)` on interval `i`,
derivative of order `nu`, extrapolation by the first / last piece. -/
def ppoly (x : Array Float) (c : Nat → Nat → Float) (t : Float) (nu : Nat) : Float :=
  let n := x.size
  let i := (List.range (n - 1)).foldl (fun acc k => if x.getD k nan ≤ t then k else acc) 0
  let d := t - x.getD i nan
  let c0 := c 0 i
  let c1 := c 1 i
  let c2 := c 2 i
  let c3 := c 3 i
  match nu with
  | 0 => ((c0 * d + c1) * d + c2) * d + c3
  | 1 => (3.0 * c0 * d + 2.0 * c1) * d + c2
  | 2 => 6.0 * c0 * d + 2.0 * c1
  | 3 => 6.0 * c0
  | _ => 0.0

def sameBits (a b : Float) : Bool := a.toBits == b.toBits

def showSph : Except Err (Nat × (Nat → Float × Float × Float)) → String
  | .ok (n, sp) => "ok " ++ sMat sFloat ((List.range n).map fun j => [(sp j).1, (sp j).2.1, (sp j).2.2])
  | .error .valueError => "value-error"
  | .error .indexError => "index-error"

/-- a grid of which only the centre, the degrees (for `l_max`) are known -/
def bareGrid (c : Vec3 Float) (deg : List Nat) : AGrid Float :=
  let dA := deg.toArray
  let z : Vec3 Float := ⟨nan, nan, nan⟩
  { nShells := deg.length, r := fun _ => nan, w := fun _ => nan, deg := tabNA dA, idx := fun _ => 0, wts := fun _ => nan,
    pts := fun _ => z, center := c, regenW := fun _ _ => nan, regenPts := fun _ _ => z }

def rowsOf (m : List (List Float)) : Option (List (Vec3 Float)) := m.mapM toVec3

def handleGen : List String → Option String
  | "C09.gen_integrate" :: rest => do
    let (g, npts, rest) ← pGrid rest
    let (f, rest) ← pVec pFloat rest
    if rest ≠ [] ∨ f.length ≠ npts then none else
    let fA := f.toArray
    let ff := tabA fA
    let a := Gen.AtomInterp.integrateAngular g ff
    pure s!"ok {sFloats ((List.range g.nShells).map a)} {sFloat (reweightedSum g a)} {sFloat (gridIntegral g ff)}"
  | "C09.gen_average" :: rest => do
    let (g, npts, rest) ← pGrid rest
    let (f, rest) ← pVec pFloat rest
    if rest ≠ [] ∨ f.length ≠ npts then none else
    let fA := f.toArray
    let a := Gen.AtomInterp.averageValues g (tabA fA)
    let vals := (List.range g.nShells).map a
    let valsA := vals.toArray
    let av := tabA valsA
    let back := sumTo g.nShells (fun i => (((4 : Nat) : Float) * Elem.pi * (g.r i * g.r i) * av i) * g.w i)
    pure s!"ok {sFloats vals} {sFloat back}"
  | "C09.gen_components" :: rest => do
    let (g, npts, rest) ← pGrid rest
    let (bas, rest) ← pMat pFloat rest
    let (f, rest) ← pVec pFloat rest
    if rest ≠ [] ∨ f.length ≠ npts then none else
    let rows := nRows (Gen.AtomInterp.basisDegree g.lMax)
    if bas.length ≠ rows then pure s!"shape-mismatch {rows}" else
    if bas.any (fun r => r.length ≠ npts) then none else
    if Gen.AtomInterp.splinesRejects g f.length then pure "value-error" else
    let basA := arr2 bas
    let fA := f.toArray
    let c := Gen.AtomInterp.radialComponents g (tab2A basA) (tabA fA)
    pure s!"ok {g.lMax} {sMat sFloat ((List.range rows).map fun row => (List.range g.nShells).map (c row))}"
  | "C09.gen_grid_angles" :: n :: rest => do
    let n ← pNat n
    let (r, rest) ← pVec pFloat rest
    let (idx, rest) ← pVec pNat rest
    let (c, rest) ← p3 rest
    let (pm, rest) ← pMat pFloat rest
    let (rm, rest) ← pMat pFloat rest
    if rest ≠ [] ∨ r.length ≠ n ∨ idx.length ≠ n + 1 then none else
    let npts := idx.getLast?.getD 0
    let ps ← rowsOf pm
    let rs ← rowsOf rm
    if ps.length ≠ npts ∨ rs.length ≠ npts then none else
    let idxA := idx.toArray
    let idxf := tabNA idxA
    let bad : Vec3 Float := ⟨nan, nan, nan⟩
    let pa := ps.toArray
    let ra := rs.toArray
    let rA := r.toArray
    let g : AGrid Float :=
      { nShells := n, r := tabA rA, w := fun _ => nan, deg := fun _ => 0, idx := idxf, wts := fun _ => nan,
        pts := fun j => pa.getD j bad, center := c, regenW := fun _ _ => nan,
        regenPts := fun i k => ra.getD (idxf i + k) bad }
    match Gen.AtomInterp.basisAngles g with
    | .ok ang => pure ("ok " ++ sMat sFloat ((List.range npts).map fun j => [(ang j).1, (ang j).2]))
    | .error _ => pure "value-error"
  | "C09.gen_convert" :: rest => do
    let (c, rest) ← p3 rest
    let (shape, rest) ← pVec pNat rest
    let (flat, rest) ← pVec pFloat rest
    let (center, rest) ← (match rest with
      | "0" :: rest => some (none, rest)
      | "1" :: rest => do
        let (cc, rest) ← p3 rest
        pure (some cc.tup, rest)
      | _ => none : Option (Option (Float × Float × Float) × List String))
    if rest ≠ [] ∨ flat.length ≠ shape.foldl (· * ·) 1 then none else
    let fA := flat.toArray
    let arr : NdArr Float := ⟨shape, tabA fA⟩
    pure (showSph (Gen.AtomInterp.convertCartesianToSpherical (bareGrid c []) (some arr) center))
  | "C09.gen_interp_low" :: rest => do
    let (c, rest) ← p3 rest
    let (deg, rest) ← pVec pNat rest
    let (x, rest) ← pVec pFloat rest
    match rest with
    | nrows :: rest => do
      let nrows ← pNat nrows
      let (cm, rest) ← pMat pFloat rest
      let (shape, rest) ← pVec pNat rest
      let (flat, rest) ← pVec pFloat rest
      match rest with
      | [deriv, dsph, orad] => do
        let deriv ← pNat deriv
        let dsph ← pBool dsph
        let orad ← pBool orad
        let n := x.length
        if n < 2 ∨ cm.length ≠ nrows ∨ cm.any (fun r => r.length ≠ 4 * (n - 1)) ∨ flat.length ≠ shape.foldl (· * ·) 1 then none else
        let xA := x.toArray
        let cA := arr2 cm
        let ct := tab2A cA
        let splines : Nat → Float → Nat → Float := fun row t nu => ppoly xA (fun k i => ct row (k * (n - 1) + i)) t nu
        let g := bareGrid c deg
        let fA := flat.toArray
        let arr : NdArr Float := ⟨shape, tabA fA⟩
        let L := g.lMax / 2
        -- the harmonics at the angles the generated code computes (same routine, same floats), one table per point
        let tabs : Array (Float × Float × List Float × List Float × List Float) :=
          match Gen.AtomInterp.convertCartesianToSpherical g (some arr) none with
          | .ok (m, sp) => ((List.range m).map fun j =>
              let th := (sp j).2.1
              let ph := (sp j).2.2
              let d := Harmonics.dYlm L th ph
              (th, ph, Harmonics.ylmCode L th ph, d.1, d.2)).toArray
          | .error _ => #[]
        let find : Float → Float → Option (Float × Float × List Float × List Float × List Float) := fun th ph =>
          tabs.find? fun e => sameBits e.1 th && sameBits e.2.1 ph
        let Yl : Nat → Nat → Float → Float → Float := fun d i th ph =>
          if d ≠ L then nan else match find th ph with
            | some e => e.2.2.1.getD i nan
            | none => nan
        let dYl : Nat → Nat → Nat → Float → Float → Float := fun d a i th ph =>
          if d ≠ L then nan else match find th ph with
            | some e => if a = 0 then e.2.2.2.1.getD i nan else if a = 1 then e.2.2.2.2.getD i nan else nan
            | none => nan
        pure (showOut (Gen.AtomInterp.interpolateLow g nrows splines Yl dYl arr deriv dsph orad))
      | _ => none
    | _ => none
  | "C09.gen_mol_low" :: k :: rest => do
    let k ← pNat k
    let rec go : Nat → List String → Option (List (List Nat × List Float))
      | 0, [] => some []
      | 0, _ => none
      | k + 1, toks => do
        let (sh, rest) ← pVec pNat toks
        let (v, rest) ← pVec pFloat rest
        let tl ← go k rest
        pure ((sh, v) :: tl)
    let outs ← go k rest
    let funcs : List (Unit → Nat → Bool → Bool → Except Err (List Nat × List Float)) := outs.map fun o => fun _ _ _ _ => .ok o
    pure (showOut (Gen.AtomInterp.molInterpolateLow funcs () 0 false false))
  | "C09.gen_mol_interp" :: k :: rest => do
    let k ← pNat k
    let (idx, rest) ← pVec pNat rest
    let (aim, rest) ← pVec pFloat rest
    let (f, rest) ← pVec pFloat rest
    if rest ≠ [] ∨ idx.length ≠ k + 1 ∨ aim.length ≠ f.length ∨ idx.getLast?.getD 0 ≠ f.length then none else
    let idxA := idx.toArray
    let aimA := aim.toArray
    let fA := f.toArray
    let idxf := tabNA idxA
    -- the stored atomic grid of atom A is recognised by its number of shells (= A here); the "atomic interpolant" is the slice it was given
    let m : MGrid Float := { nAtoms := k, atom := fun A => { bareGrid ⟨0.0, 0.0, 0.0⟩ [] with nShells := A }, aidx := idxf, aim := tabA aimA }
    let atomI : AGrid Float → (Nat → Float) → Unit → Nat → Bool → Bool → Except Err (List Nat × List Float) := fun g fa _ _ _ _ =>
      let len := idxf (g.nShells + 1) - idxf g.nShells
      .ok ([len], (List.range len).map fa)
    pure (showOut (Gen.AtomInterp.molInterpolate m atomI (tabA fA) () 0 false false))
  | ["C09.gen_defaults"] =>
    let a := (Gen.AtomInterp.interpolateLowDefaults : Nat × Bool × Bool)
    let m := (Gen.AtomInterp.molInterpolateLowDefaults : Nat × Bool × Bool)
    let b : Bool → String := fun x => if x then "1" else "0"
    pure s!"ok {a.1} {b a.2.1} {b a.2.2} {m.1} {b m.2.1} {b m.2.2}"
  | ["C09.gen_warns", dsph, orad] => do
    let dsph ← pBool dsph
    let orad ← pBool orad
    pure (if Gen.AtomInterp.warnsFlagIgnored dsph orad then "ok 1" else "ok 0")
  | "C09.reshape" :: rest => do
    let (shape, rest) ← pVec pNat rest
    let (dims, rest) ← pVec pInt rest
    if rest ≠ [] then none else
    match pyReshape (⟨shape, fun _ => nan⟩ : NdArr Float) dims with
    | some a => pure s!"ok {sNats a.shape}"
    | none => pure "value-error"
  | _ => none

def handle : List String → Option String
  | "C09.integrate" :: rest => do
    let (g, npts, rest) ← pGrid rest
    let (f, rest) ← pVec pFloat rest
    if rest ≠ [] ∨ f.length ≠ npts then none else
    let fA := f.toArray
    let ff := tabA fA
    let a := integrateAngular g ff
    pure s!"ok {sFloats ((List.range g.nShells).map a)} {sFloat (reweightedSum g a)} {sFloat (gridIntegral g ff)}"
  | "C09.average" :: rest => do
    let (g, npts, rest) ← pGrid rest
    let (f, rest) ← pVec pFloat rest
    if rest ≠ [] ∨ f.length ≠ npts then none else
    let fA := f.toArray
    let a := averageValues g (tabA fA)
    let vals := (List.range g.nShells).map a
    -- the radial quadrature of the node values (a spline that interpolates returns them at the nodes)
    let valsA := vals.toArray
    let av := tabA valsA
    let back := sumTo g.nShells (fun i => (((4 : Nat) : Float) * Elem.pi * (g.r i * g.r i) * av i) * g.w i)
    pure s!"ok {sFloats vals} {sFloat back}"
  | "C09.components" :: rest => do
    let (g, npts, rest) ← pGrid rest
    let (bas, rest) ← pMat pFloat rest
    let (f, rest) ← pVec pFloat rest
    if rest ≠ [] ∨ f.length ≠ npts then none else
    let rows := nRows (g.lMax / 2)
    if bas.length ≠ rows then pure s!"shape-mismatch {rows}" else
    if bas.any (fun r => r.length ≠ npts) then none else
    let basA := arr2 bas
    let fA := f.toArray
    let c := radialComponents g (tab2A basA) (tabA fA)
    pure s!"ok {g.lMax} {sMat sFloat ((List.range rows).map fun row => (List.range g.nShells).map (c row))}"
  | "C09.cart_to_sph" :: rest => do
    let (c, rest) ← p3 rest
    let (m, rest) ← pMat pFloat rest
    if rest ≠ [] then none else
    let ps ← rowsOf m
    pure ("ok " ++ sMat sFloat (ps.map fun p => let s := cartToSph c p; [s.r, s.theta, s.phi]))
  | "C09.grid_angles" :: n :: rest => do
    let n ← pNat n
    let (r, rest) ← pVec pFloat rest
    let (idx, rest) ← pVec pNat rest
    let (c, rest) ← p3 rest
    let (pm, rest) ← pMat pFloat rest
    let (rm, rest) ← pMat pFloat rest
    if rest ≠ [] ∨ r.length ≠ n ∨ idx.length ≠ n + 1 then none else
    let npts := idx.getLast?.getD 0
    let ps ← rowsOf pm
    let rs ← rowsOf rm
    if ps.length ≠ npts ∨ rs.length ≠ npts then none else
    let idxA := idx.toArray
    let idxf := tabNA idxA
    let bad : Vec3 Float := ⟨nan, nan, nan⟩
    let pa := ps.toArray
    let ra := rs.toArray
    let rA := r.toArray
    let g : AGrid Float :=
      { nShells := n, r := tabA rA, w := fun _ => nan, deg := fun _ => 0, idx := idxf, wts := fun _ => nan,
        pts := fun j => pa.getD j bad, center := c, regenW := fun _ _ => nan,
        regenPts := fun i k => ra.getD (idxf i + k) bad }
    let ang := gridAngles g
    pure ("ok " ++ sMat sFloat ((List.range npts).map fun j => [(ang j).1, (ang j).2]))
  | "C09.assemble" :: nrows :: deriv :: dsph :: orad :: rest => do
    let nrows ← pNat nrows
    let deriv ← pNat deriv
    let dsph ← pBool dsph
    let orad ← pBool orad
    let (sph, rest) ← pMat pFloat rest
    let (sNu, rest) ← pMat pFloat rest
    let (s0, rest) ← pMat pFloat rest
    let (y, rest) ← pMat pFloat rest
    let (dyt, rest) ← pMat pFloat rest
    let (dyp, rest) ← pMat pFloat rest
    if rest ≠ [] then none else
    let qs ← rowsOf sph
    let m := qs.length
    let okShape := fun (t : List (List Float)) => t.length = nrows ∧ t.all (fun r => r.length = m)
    if ¬ (okShape sNu ∧ okShape s0 ∧ okShape y ∧ okShape dyt ∧ okShape dyp) then none else
    let aN := arr2 sNu
    let a0 := arr2 s0
    let aY := arr2 y
    let aT := arr2 dyt
    let aP := arr2 dyp
    let tN := tab2A aN
    let t0 := tab2A a0
    let tY := tab2A aY
    let tT := tab2A aT
    let tP := tab2A aP
    let pts : List (PtData Float) := (List.range m).zip qs |>.map fun (k, q) =>
      { sph := ⟨q.x, q.y, q.z⟩, sNu := fun row => tN row k, s0 := fun row => t0 row k,
        y := fun row => tY row k, dyt := fun row => tT row k, dyp := fun row => tP row k }
    pure (showOut (assemble nrows pts deriv dsph orad))
  | "C09.mol_combine" :: k :: rest => do
    let k ← pNat k
    let rec go : Nat → List String → Option (List (List Float))
      | 0, [] => some []
      | 0, _ => none
      | k + 1, toks => do
        let (v, rest) ← pVec pFloat toks
        let tl ← go k rest
        pure (v :: tl)
    let outs ← go k rest
    if k = 0 then none else
    let oa := outs.toArray
    pure (showOut (molCombine k fun A => .ok ([], oa.getD A [])))
  | toks => handleGen toks

end GridVerif.Driver.C09

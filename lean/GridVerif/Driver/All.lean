/-
  Dispatch table of the driver: `Cxx.op args…` goes to the handler of property Cxx.
-/
import GridVerif.Model.Proto
import GridVerif.Model.Elem
import GridVerif.Driver.C01
import GridVerif.Driver.C02
import GridVerif.Driver.C03
import GridVerif.Driver.C04
import GridVerif.Driver.C05
import GridVerif.Driver.C06
import GridVerif.Driver.C07
import GridVerif.Driver.C08
import GridVerif.Driver.C09
import GridVerif.Driver.C10
import GridVerif.Driver.C11
import GridVerif.Driver.C12
import GridVerif.Driver.C13
import GridVerif.Driver.C14
import GridVerif.Driver.C15
import GridVerif.Driver.C16
import GridVerif.Driver.C17
import GridVerif.Driver.C18
import GridVerif.Driver.C19
import GridVerif.Driver.C20

namespace GridVerif.Driver

def handlers : List (String × (List String → Option String)) := [
  ("C01.", C01.handle),
  ("C02.", C02.handle),
  ("C03.", C03.handle),
  ("C04.", C04.handle),
  ("C05.", C05.handle),
  ("C06.", C06.handle),
  ("C07.", C07.handle),
  ("C08.", C08.handle),
  ("C09.", C09.handle),
  ("C10.", C10.handle),
  ("C11.", C11.handle),
  ("C12.", C12.handle),
  ("C13.", C13.handle),
  ("C14.", C14.handle),
  ("C15.", C15.handle),
  ("C16.", C16.handle),
  ("C17.", C17.handle),
  ("C18.", C18.handle),
  ("C19.", C19.handle),
  ("C20.", C20.handle)
]

def dispatch (toks : List String) : Option String :=
  match toks with
  | [] => none
  | op :: args =>
    match handlers.find? (fun h => op.startsWith h.1) with
    | some h => h.2 (op :: args)
    | none => none

end GridVerif.Driver

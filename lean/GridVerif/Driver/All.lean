/-
  Dispatch table of the driver: `Cxx.op args…` goes to the handler of property Cxx.
-/
import GridVerif.Model.Proto
import GridVerif.Model.Elem
import GridVerif.Driver.C12

namespace GridVerif.Driver

def handlers : List (String × (List String → Option String)) := [
  ("C12.", C12.handle)
]

def dispatch (toks : List String) : Option String :=
  match toks with
  | [] => none
  | op :: args =>
    match handlers.find? (fun h => op.startsWith h.1) with
    | some h => h.2 (op :: args)
    | none => none

end GridVerif.Driver

import GridVerif.Model.Proto
import GridVerif.Model.AngularPy
import GridVerif.Model.AngularNp
import GridVerif.Gen.AngularLogic

/-
  Driver of C12: every op runs the *generated* decision logic (`Gen/AngularLogic.lean`), the hand
  model `Model/Bisect.lean` only supplies the primitives (`bisect_left` loop, dict lookup, max).
  Scalar arguments travel as `none`, `other` (neither None nor an `int | np.integer`) or a decimal
  integer (negative allowed).
-/
namespace GridVerif.Driver.C12
open GridVerif.AngularPy GridVerif.Proto GridVerif.Gen.AngularLogic

def pVal : String → Option Val
  | "none" => some .none
  | "other" => some .other
  | s => (pInt s).map Val.int

def sVal : Val → String
  | .none => "None"
  | .other => "other"
  | .int i => toString i

def showPair : Py (Val × Val) → String
  | .ok (d, s) => s!"ok {sVal d} {sVal s}"
  | .error e => e.tag

/-- A warning as one token: `category:stacklevel:depth:message` (blanks of the message as `_`). -/
def sWarn (w : Warning) : String :=
  s!"{w.category}:{w.stacklevel}:{w.depth}:{w.message.replace " " "_"}"

def sWarns (l : List Warning) : String := sVec sWarn l

/-- Every `(package, file name)` of the regenerated listing, in order. -/
def flatFiles : List (String × String) := packageFiles.flatMap fun e => e.2.map fun x => (e.1, x.1)

/-- A file system for cache histories: a listed file loads as one "point" carrying the file's
position in `flatFiles` and a single weight; anything else does not exist. -/
def tokenLoad (pkg name : String) : Py (Npz Float) :=
  match flatFiles.findIdx? (· == (pkg, name)) with
  | some i => .ok ⟨[[Float.ofNat i]], [1.0]⟩
  | none => .error .osError

def tokenName (p : List (List Float)) : String :=
  match p with
  | [[x]] => match flatFiles[x.toUInt64.toNat]? with
    | some (pkg, name) => s!"{pkg}/{name}"
    | none => "?"
  | _ => "?"

def sCaches (c : Caches Float) : String :=
  sVec (fun e => s!"{e.1.1}:{e.1.2}:{tokenName e.2.1}") c

/-- `k` constructor calls `(method, degree, size, cache)` one after the other on the same cache
dictionaries (empty at the start), through the generated `initFull`. -/
def runHist (caches : Caches Float) : List String → Option (List String)
  | [] => some []
  | m :: a :: b :: c :: rest => do
    let a ← pVal a
    let b ← pVal b
    let c ← match c with | "1" => some true | "0" => some false | _ => none
    match initFull tokenLoad caches a b c m with
    | .ok (d, mm, p, _, caches', l) =>
      let tl ← runHist caches' rest
      pure (s!"ok {sVal d} {mm} {tokenName p} {sCaches caches'} {sWarns l}" :: tl)
    | .error e =>
      let tl ← runHist caches rest
      pure (e.tag :: tl)
  | _ => none

def handle : List String → Option String
  | ["C12.resolve", m, "deg", n] => do
    let n ← pNat n
    pure (showPair (getDegreeAndSize (.int n) .none m))
  | ["C12.resolve", m, "size", n] => do
    let n ← pNat n
    pure (showPair (getDegreeAndSize .none (.int n) m))
  | ["C12.gds", m, a, b] => do
    let a ← pVal a
    let b ← pVal b
    pure (showPair (getDegreeAndSize a b m))
  | ["C12.load", m, a, b] => do
    let a ← pVal a
    let b ← pVal b
    match loadPrecomputedAngularGrid a b m with
    | .ok (pkg, file) => pure s!"ok {pkg} {file}"
    | .error e => pure e.tag
  | ["C12.init", m, a, b] => do
    let a ← pVal a
    let b ← pVal b
    match initSelect a b m with
    | .ok (d, s, c, k, pkg, file) => pure s!"ok {sVal d} {sVal s} {c} {sVal k} {pkg} {file}"
    | .error e => pure e.tag
  | ["C12.init0"] =>
    match initDefault with
    | .ok (d, s, c, k, pkg, file) => pure s!"ok {sVal d} {sVal s} {c} {sVal k} {pkg} {file}"
    | .error e => pure e.tag
  | ["C12.gdsw", m, a, b] => do
    let a ← pVal a
    let b ← pVal b
    match getDegreeAndSize_warnings a b m with
    | .ok l => pure ("ok " ++ sWarns l)
    | .error e => pure e.tag
  | ["C12.cachedefault"] => pure (if initCacheDefault then "ok 1" else "ok 0")
  | "C12.tail" :: npts :: rest => do
    -- the loader after np.load, on the arrays of a real file (points as that many dummy rows)
    let n ← pNat npts
    let (ws, tl) ← pVec pFloat rest
    if tl ≠ [] then none else
    match loadPrecomputedAngularGrid_data (K := Float) ⟨List.replicate n [0.0, 0.0, 0.0], ws⟩ with
    | .ok (p, w) => pure s!"ok {p.length} {sFloats w}"
    | .error e => pure e.tag
  | "C12.build" :: m :: a :: b :: c :: npts :: rest => do
    -- one construction in a fresh state, the named file's arrays supplied by the caller
    let a ← pVal a
    let b ← pVal b
    let c ← match c with | "1" => some true | "0" => some false | _ => none
    let n ← pNat npts
    let (ws, tl) ← pVec pFloat rest
    if tl ≠ [] then none else
    match initFull (fun _ _ => .ok ⟨List.replicate n [0.0, 0.0, 0.0], ws⟩) [] a b c m with
    | .ok (d, mm, p, w, caches', l) => pure s!"ok {sVal d} {mm} {p.length} {caches'.length} {sWarns l} {sFloats w}"
    | .error e => pure e.tag
  | "C12.hist" :: rest => do
    let out ← runHist [] rest
    pure (String.intercalate " | " out)
  | "C12.convert" :: m :: rest => do
    let (xs, tl) ← pVec pInt rest
    if tl ≠ [] then none else
    match convertAngularSizesToDegrees xs m with
    | .ok ds => pure ("ok " ++ sInts ds)
    | .error e => pure e.tag
  | _ => none

end GridVerif.Driver.C12

import GridVerif.Model.Proto
import GridVerif.Model.AngularPy
import GridVerif.Gen.AngularLogic

/-
  Driver of C12: every op runs the *generated* decision logic (`Gen/AngularLogic.lean`), the hand
  model `Model/Bisect.lean` only supplies the primitives (`bisect_left` loop, dict lookup, max).
  Scalar arguments travel as `none`, `other` (neither None nor an `int | np.integer`) or a decimal
  integer (negative allowed).
-/
namespace GridVerif.Driver.C12
open GridVerif.AngularPy GridVerif.Proto GridVerif.Gen.AngularLogic

def pVal : String → Option Val
  | "none" => some .none
  | "other" => some .other
  | s => (pInt s).map Val.int

def sVal : Val → String
  | .none => "None"
  | .other => "other"
  | .int i => toString i

def showPair : Py (Val × Val) → String
  | .ok (d, s) => s!"ok {sVal d} {sVal s}"
  | .error e => e.tag

def handle : List String → Option String
  | ["C12.resolve", m, "deg", n] => do
    let n ← pNat n
    pure (showPair (getDegreeAndSize (.int n) .none m))
  | ["C12.resolve", m, "size", n] => do
    let n ← pNat n
    pure (showPair (getDegreeAndSize .none (.int n) m))
  | ["C12.gds", m, a, b] => do
    let a ← pVal a
    let b ← pVal b
    pure (showPair (getDegreeAndSize a b m))
  | ["C12.load", m, a, b] => do
    let a ← pVal a
    let b ← pVal b
    match loadPrecomputedAngularGrid a b m with
    | .ok (pkg, file) => pure s!"ok {pkg} {file}"
    | .error e => pure e.tag
  | ["C12.init", m, a, b] => do
    let a ← pVal a
    let b ← pVal b
    match initSelect a b m with
    | .ok (d, s, c, k, pkg, file) => pure s!"ok {sVal d} {sVal s} {c} {sVal k} {pkg} {file}"
    | .error e => pure e.tag
  | ["C12.init0"] =>
    match initDefault with
    | .ok (d, s, c, k, pkg, file) => pure s!"ok {sVal d} {sVal s} {c} {sVal k} {pkg} {file}"
    | .error e => pure e.tag
  | "C12.convert" :: m :: rest => do
    let (xs, tl) ← pVec pInt rest
    if tl ≠ [] then none else
    match convertAngularSizesToDegrees xs m with
    | .ok ds => pure ("ok " ++ sInts ds)
    | .error e => pure e.tag
  | _ => none

end GridVerif.Driver.C12

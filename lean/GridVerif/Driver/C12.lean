import GridVerif.Model.Proto
import GridVerif.Model.Bisect
import GridVerif.Gen.AngularTables

namespace GridVerif.Driver.C12
open GridVerif.Bisect GridVerif.Proto GridVerif.Gen.Angular

def tablesOf : String → Option (List (Nat × Nat) × List (Nat × Nat))
  | "lebedev" => some (lebedevDegrees, lebedevNPoints)
  | "spherical" => some (sphericalDegrees, sphericalNPoints)
  | "maxdet" => some (maxdetDegrees, maxdetNPoints)
  | "ahrens_beylkin" => some (ahrensDegrees, ahrensNPoints)
  | _ => none

def showOut : Out → String
  | .ok d s => s!"ok {d} {s}"
  | .valueError => "value-error"
  | .indexError => "index-error"

def handle : List String → Option String
  | ["C12.resolve", m, "deg", n] => do
    let (dg, np) ← tablesOf m
    let n ← pNat n
    pure (showOut (getDegreeAndSize dg np (some n) none))
  | ["C12.resolve", m, "size", n] => do
    let (dg, np) ← tablesOf m
    let n ← pNat n
    pure (showOut (getDegreeAndSize dg np none (some n)))
  | "C12.convert" :: m :: rest => do
    let (_, np) ← tablesOf m
    let (xs, tl) ← pVec pNat rest
    if tl ≠ [] then none else
    match convertSizes np xs with
    | some ds => pure ("ok " ++ sNats ds)
    | none => pure "value-error"
  | _ => none

end GridVerif.Driver.C12

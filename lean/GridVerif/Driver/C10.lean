import GridVerif.Model.Proto
import GridVerif.Model.Elem
import GridVerif.Model.LocalGrid
import GridVerif.Model.LocalGridGen
import GridVerif.Gen.LocalGridCtor

/-
  Driver of C10.  The operations are executed by the **generated** definitions
  (`Gen/LocalGrid.lean` through `LocalGridGen.genRun`); `Props/C10/Gen.lean` proves that they are
  the operations of the hand model.  One line = one object with its whole history:

    C10.hist <cls> <oned 0|1> <dim> <points: mat> <centre: 0 | 1 vec> <weights: vec>
             <domain: 0 | 1 lo hi> <nops> <op>*

    op :=  q s <x> <r>  |  q v <vec> <r>           get_localgrid(center, radius)
        |  sp <oned 0|1> <mat>                     grid.points = value
        |  sw <vec>                                grid.weights = value
        |  gi i <int> | gi n <int> | gi s <a|N> <b|N> <c|N> | gi a <ints: vec> | gi m <0/1: vec>

  Answer: `ok <out> | <out> | …` with
    out := L <indices: vec> <points: mat> <weights: vec> | G <cls> <points: mat> <weights: vec> <dom>
         | D | E <error>
  or the error tag of the constructor.

  The generated constructors (`Gen/LocalGridCtor.lean`) — the arguments travel as `ndim` and
  `len()` (that is all the constructors look at):

    C10.ginit  <points.ndim> <len> <weights.ndim> <len>
    C10.lginit <points.ndim> <len> <weights.ndim> <len> <indices: N | ndim len>

  Answer: `ok p <ndim> <len> w <ndim> <len> t <0: no tree | 1> [i N | i <ndim> <len>]` (what the
  object holds) or the error tag.  `C10.treeargs`: the regenerated keyword arguments of the
  neighbour search, `ok <leafsize> <boxsize is None> <p num> <p den> <eps num> <eps den>`.
-/
namespace GridVerif.Driver.C10
open GridVerif.Proto GridVerif.LocalGrid GridVerif.LocalGridGen GridVerif.LocalGridCtor

abbrev P (α : Type) := List String → Option (α × List String)

def pTok (p : String → Option α) : P α
  | [] => none
  | t :: ts => (p t).map (·, ts)

def pBool : P Bool := pTok fun s => if s = "1" then some true else if s = "0" then some false else none

def pCls : String → Option Cls
  | "grid" => some .grid | "oned" => some .oned | "atom" => some .atom
  | "mol" => some .mol | "rect" => some .rect | "loc" => some .loc | _ => none

def sCls : Cls → String
  | .grid => "grid" | .oned => "oned" | .atom => "atom" | .mol => "mol" | .rect => "rect" | .loc => "loc"

def sErr : Err → String
  | .valueError => "value-error" | .typeError => "type-error"
  | .indexError => "index-error" | .attributeError => "attribute-error"

def pRadius : P (Radius Float) := pTok fun s => (pFloat s).map fun r =>
  if r.isNaN then .nan else if r == Float.ofScientific 1 false 0 / Float.ofNat 0 then .inf else .fin r

def pOptInt : P (Option Int) := pTok fun s => if s = "N" then some none else (pInt s).map some

def pOp : P (Op Float)
  | "q" :: "s" :: ts => do
    let (x, ts) ← pTok pFloat ts
    let (r, ts) ← pRadius ts
    pure (.query (.scalar x) r, ts)
  | "q" :: "v" :: ts => do
    let (xs, ts) ← pVec pFloat ts
    let (r, ts) ← pRadius ts
    pure (.query (.vector xs) r, ts)
  | "sp" :: ts => do
    let (oned, ts) ← pBool ts
    match ts with
    | _ :: c :: _ =>
      let dim ← pNat c
      let (m, ts) ← pMat pFloat ts
      pure (.setPoints oned dim m, ts)
    | _ => none
  | "sw" :: ts => do
    let (w, ts) ← pVec pFloat ts
    pure (.setWeights w, ts)
  | "gi" :: "i" :: ts => do let (i, ts) ← pTok pInt ts; pure (.getItem (.int i), ts)
  | "gi" :: "n" :: ts => do let (i, ts) ← pTok pInt ts; pure (.getItem (.npInt i), ts)
  | "gi" :: "s" :: ts => do
    let (a, ts) ← pOptInt ts
    let (b, ts) ← pOptInt ts
    let (c, ts) ← pOptInt ts
    pure (.getItem (.slice a b c), ts)
  | "gi" :: "a" :: ts => do let (is, ts) ← pVec pInt ts; pure (.getItem (.array is), ts)
  | "gi" :: "m" :: ts => do
    let (bs, ts) ← pVec (fun s => if s = "1" then some true else if s = "0" then some false else none) ts
    pure (.getItem (.mask bs), ts)
  | _ => none

def pOps : Nat → List String → Option (List (Op Float) × List String)
  | 0, ts => some ([], ts)
  | n + 1, ts => do
    let (op, ts) ← pOp ts
    let (ops, ts) ← pOps n ts
    pure (op :: ops, ts)

def sDom : Option (Float × Float) → String
  | none => "0"
  | some (lo, hi) => s!"1 {sFloat lo} {sFloat hi}"

def sOut : Out Float → String
  | .localGrid idx p w => s!"L {sNats idx} {sMat sFloat p} {sFloats w}"
  | .grid c p w d => s!"G {sCls c} {sMat sFloat p} {sFloats w} {sDom d}"
  | .done => "D"
  | .error e => s!"E {sErr e}"

def sGridObj (o : GridObj Float) : String :=
  s!"p {o.upoints.ndim} {o.upoints.rows.length} w {o.uweights.ndim} {o.uweights.rows.length} t {if o.ukdtree.isNone then 0 else 1}"

def handleCtor : List String → Option String
  | ["C10.treeargs"] =>
    let a := GridVerif.Gen.LocalGrid.Grid_get_localgrid_tree_args
    pure s!"ok {a.leafsize} {if a.boxsizeNone then 1 else 0} {a.pNum} {a.pDen} {a.epsNum} {a.epsDen}"
  | ["C10.ginit", pnd, plen, wnd, wlen] => do
    let pnd ← pNat pnd; let plen ← pNat plen; let wnd ← pNat wnd; let wlen ← pNat wlen
    match GridVerif.Gen.LocalGridCtor.Grid_init (K := Float) ⟨pnd, List.replicate plen []⟩ ⟨wnd, List.replicate wlen 0⟩ with
    | .error e => pure (sErr e)
    | .ok o => pure ("ok " ++ sGridObj o)
  | "C10.lginit" :: pnd :: plen :: wnd :: wlen :: rest => do
    let pnd ← pNat pnd; let plen ← pNat plen; let wnd ← pNat wnd; let wlen ← pNat wlen
    let idx : Option (NdArg Nat) ← (match rest with
      | ["N"] => some none
      | [ind, ilen] => do
        let ind ← pNat ind; let ilen ← pNat ilen
        pure (some ⟨ind, List.range ilen⟩)
      | _ => none)
    match GridVerif.Gen.LocalGridCtor.LocalGrid_init (K := Float) ⟨pnd, List.replicate plen []⟩ ⟨wnd, List.replicate wlen 0⟩
        (.scalar 0) idx with
    | .error e => pure (sErr e)
    | .ok o =>
      let i := match o.uindices with
        | none => "i N"
        | some a => s!"i {a.ndim} {a.rows.length}"
      pure ("ok " ++ sGridObj o.base ++ " " ++ i)
  | _ => none

def handle : List String → Option String
  | "C10.treeargs" :: ts => handleCtor ("C10.treeargs" :: ts)
  | "C10.ginit" :: ts => handleCtor ("C10.ginit" :: ts)
  | "C10.lginit" :: ts => handleCtor ("C10.lginit" :: ts)
  | "C10.hist" :: cls :: ts => do
    let cls ← pCls cls
    let (oned, ts) ← pBool ts
    let (dim, ts) ← pTok pNat ts
    let (pts, ts) ← pMat pFloat ts
    let (hasC, ts) ← pBool ts
    let (centre, ts) ← (if hasC then (pVec pFloat ts).map fun (c, ts) => (some c, ts) else some (none, ts))
    let (w, ts) ← pVec pFloat ts
    let (hasD, ts) ← pBool ts
    let (dom, ts) ← (if hasD then do
        let (lo, ts) ← pTok pFloat ts
        let (hi, ts) ← pTok pFloat ts
        pure (some (lo, hi), ts)
      else some (none, ts))
    let (nops, ts) ← pTok pNat ts
    let (ops, ts) ← pOps nops ts
    if ts ≠ [] then none else
    match init cls oned dim pts centre w dom with
    | .error e => pure (sErr e)
    | .ok s =>
      match genRun s ops with
      | some (_, outs) => pure ("ok " ++ String.intercalate " | " (outs.map sOut))
      | none => pure "unmodelled"   -- the generated code left the modelled fragment
  | _ => none

end GridVerif.Driver.C10

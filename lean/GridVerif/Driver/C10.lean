import GridVerif.Model.Proto
import GridVerif.Model.Elem

namespace GridVerif.Driver.C10
open GridVerif.Proto

/-- Line-protocol handler of property C10: `C10.<op> args…` ↦ one answer line
(`none` = malformed, answered `bad-op`). -/
def handle : List String → Option String
  | _ => none

end GridVerif.Driver.C10

import GridVerif.Model.Proto
import GridVerif.Model.Elem
import GridVerif.Model.Cubic
import GridVerif.Gen.CubicIndex
import GridVerif.Model.CubicNp
import GridVerif.Gen.CubicGrid
import GridVerif.Gen.CubicCube
import GridVerif.Model.CubicInterpNp
import GridVerif.Gen.CubicInterp

namespace GridVerif.Driver.C13
open GridVerif.Proto GridVerif.Cubic GridVerif.Gen.CubicIndex

def err (e : PyErr) : String := e.tag

def showPy {α} (s : α → String) : Py α → String
  | .ok a => "ok " ++ s a
  | .error e => err e

/-- polynomial (monomial coefficients in `t = x − x₀`, lowest first) through the first
`min n 4` nodes, by Newton's divided differences. Exact on cubics for `n ≥ 4`; for `n = 2, 3`
it is what `CubicSpline` degenerates to (line, parabola). -/
def newtonPoly (xs ys : List Float) : List Float :=
  let xs := xs.take 4; let ys := ys.take 4
  let x0 := xs.headD 0.0
  let ts := xs.map (· - x0)
  -- divided differences
  let rec dd (fuel : Nat) (ts : List Float) (col : List Float) (k : Nat) (acc : List Float) : List Float :=
    match fuel with
    | 0 => acc
    | fuel + 1 =>
      match col with
      | [] => acc
      | c :: _ =>
        let next := (List.range (col.length - 1)).map fun i =>
          (col.getD (i + 1) 0.0 - col.getD i 0.0) / (ts.getD (i + k + 1) 0.0 - ts.getD i 0.0)
        dd fuel ts next (k + 1) (acc ++ [c])
  let coefs := dd 5 ts ys 0 []
  -- Σ_k coefs[k] · Π_{m<k} (t − ts[m]) expanded
  let mulLin (p : List Float) (a : Float) : List Float :=   -- p(t)·(t − a)
    let shifted := 0.0 :: p
    let scaled := (p.map (· * a)) ++ [0.0]
    List.zipWith (· - ·) shifted scaled
  let addP (p q : List Float) : List Float :=
    (List.range (max p.length q.length)).map fun i => p.getD i 0.0 + q.getD i 0.0
  let (res, _) := (List.range coefs.length).foldl (fun (st : List Float × List Float) k =>
      let (acc, basis) := st
      (addP acc (basis.map (· * coefs.getD k 0.0)), mulLin basis (ts.getD k 0.0))) ([], [1.0])
  res

def lagrange4 : Interp1 Float := fun xs ys nu x =>
  let c := newtonPoly xs ys
  let t := x - xs.headD 0.0
  -- nu-th derivative of Σ c_a t^a
  (List.range c.length).foldl (fun acc a =>
    if a < nu then acc else
      let fac := (List.range nu).foldl (fun f m => f * Float.ofNat (a - m)) 1.0
      acc + c.getD a 0.0 * fac * Float.pow t (Float.ofNat (a - nu))) 0.0


/-- cell index and local coordinate of `x` on an axis with strictly monotone nodes (either direction);
outside the nodes the first / last cell. -/
def axisCell (nodes : List Float) (x : Float) : Nat × Float :=
  let n := nodes.length
  let asc := nodes.getD 0 0.0 ≤ nodes.getD (n - 1) 0.0
  let i := (List.range (n - 1)).foldl (fun acc i =>
    let a := nodes.getD i 0.0
    if (if asc then x < a else x > a) then acc else i) 0
  let a := nodes.getD i 0.0
  let b := nodes.getD (i + 1) 0.0
  (i, (x - a) / (b - a))

/-- executable stand-in for `RegularGridInterpolator(..., method=method)`: multilinear interpolant of the cell
holding the point (`"linear"`), value at the nearest node per axis (`"nearest"`, a tie goes to the lower index). -/
def rgiFloat (method : String) : InterpGrid Float := fun xs ys zs vals p =>
  let (i, tx) := axisCell xs p.1
  let (j, ty) := axisCell ys p.2.1
  let (k, tz) := axisCell zs p.2.2
  if method == "nearest" then
    let r (i : Nat) (t : Float) : Nat := if t ≤ 0.5 then i else i + 1
    vals.getD (r i tx * (ys.length * zs.length) + r j ty * zs.length + r k tz) 0.0
  else cellValue xs ys zs vals i j k p

/-- SciPy's validation of the nodes of a `CubicSpline`: at least two, strictly increasing. -/
def splineNodesOk (l : List Float) : Bool :=
  decide (2 ≤ l.length) && (List.range (l.length - 1)).all fun i => l.getD i 0.0 < l.getD (i + 1) 0.0

def sameJunk {α} (s : α → String) (f : Int → Py α) : String :=
  let a := showPy s (f 0)
  let b := showPy s (f 123456789)
  if a != b then "junk-dependent" else a

def pScheme (s : String) : Option (Option Scheme) :=
  match Scheme.ofString s with
  | some x => some (some x)
  | none => if s.startsWith "Bad" then some none else none

def natsOfInts (l : List Int) : Option (List Nat) :=
  l.mapM fun i => if i < 0 then none else some i.toNat

def handle : List String → Option String
  | "C13.i2c" :: nd :: rest => do
    let nd ← pInt nd
    let (shape, tl) ← pVec pInt rest
    match tl with
    | [idx] =>
      let idx ← pInt idx
      pure (showPy sInts (indexToCoordinates nd shape idx))
    | _ => none
  | "C13.c2i" :: nd :: rest => do
    let nd ← pInt nd
    let (shape, tl) ← pVec pInt rest
    let (ind, tl) ← pVec pInt tl
    if tl ≠ [] then none else
    -- two different contents of the uninitialised array must give the same answer
    let a := coordinatesToIndex nd shape 0 ind
    let b := coordinatesToIndex nd shape 123456789 ind
    if showPy toString a != showPy toString b then pure "junk-dependent" else
    pure (showPy toString a)
  | "C13.ugrid" :: sch :: rest => do
    let sch ← pScheme sch
    let (origin, tl) ← pVec pFloat rest
    let (axes, tl) ← pMat pFloat tl
    let (shape, tl) ← pVec pInt tl
    if tl ≠ [] then none else
    pure (showPy (fun (r : List (List Float) × List Float) => sMat sFloat r.1 ++ " " ++ sFloats r.2)
      (uniformGrid origin axes shape sch))
  | "C13.tensor" :: rest => do
    let (d, tl) ← pVec pNat rest      -- sizes of the 1-D grids
    let rec take (ds : List Nat) (tl : List String) (accP accW : List (List Float)) :
        Option (List (List Float) × List (List Float) × List String) :=
      match ds with
      | [] => some (accP.reverse, accW.reverse, tl)
      | _ :: ds => do
        let (p, tl) ← pVec pFloat tl
        let (w, tl) ← pVec pFloat tl
        take ds tl (p :: accP) (w :: accW)
    let (ps, ws, tl) ← take d tl [] []
    if tl ≠ [] then none else
    pure (showPy (fun (w : List Float) => sMat sFloat (tensorPoints ps) ++ " " ++ sFloats w) (tensorWeights ws))
  | "C13.from_molecule" :: rot :: rest => do
    let (nums, tl) ← pVec pFloat rest
    let (coords, tl) ← pMat pFloat tl
    match tl with
    | sp :: ex :: tl =>
      let sp ← pFloat sp
      let ex ← pFloat ex
      let v ← (match rot, tl with
        | "0", [] => some none
        | "1", tl => (pMat pFloat tl).bind fun (m, tl) => if tl = [] then some (some m) else none
        | _, _ => none)
      pure (showPy (fun (r : List Float × List (List Float) × List Int) =>
          sFloats r.1 ++ " " ++ sMat sFloat r.2.1 ++ " " ++ sInts r.2.2)
        (fromMolecule nums coords sp ex v))
    | _ => none
  | "C13.closest" :: which :: rest => do
    let w : Option Which := match which with
      | "closest" => some .closest | "origin" => some .origin | _ => none
    let (origin, tl) ← pVec pFloat rest
    let (axes, tl) ← pMat pFloat tl
    let (shape, tl) ← pVec pNat tl
    let (pt, tl) ← pVec pFloat tl
    if tl ≠ [] then none else
    pure (showPy toString (closestPoint origin axes shape pt w))
  | "C13.interp" :: lg :: rest => do
    let (shape, tl) ← pVec pNat rest
    let (pts, tl) ← pMat pFloat tl
    let (vals, tl) ← pVec pFloat tl
    match tl with
    | [a, b, c, x, y, z] =>
      let nu := ((← pNat a), (← pNat b), (← pNat c))
      let p := ((← pFloat x), (← pFloat y), (← pFloat z))
      -- CubicSpline raises for fewer than two nodes
      if shape.any (· < 5) then pure "value-error" else
      match lg with
      | "0" => pure (showPy sFloat (interpCubic lagrange4 shape pts vals nu p))
      | "1" => pure (showPy sFloat (interpLog lagrange4 shape pts vals nu p))
      | _ => none
    | _ => none
  | "C13.axes_points" :: rest => do
    let (shape, tl) ← pVec pNat rest
    let (pts, tl) ← pMat pFloat tl
    if tl ≠ [] then none else
    pure (showPy (fun (r : List Float × List Float × List Float) =>
      sFloats r.1 ++ " " ++ sFloats r.2.1 ++ " " ++ sFloats r.2.2) (pointsAlongAxes shape pts))
  | "C13.interp_support" :: rest => do
    -- flat indices of the function values the cubic method reads (operator := sum of its values)
    let (shape, tl) ← pVec pNat rest
    if tl ≠ [] then none else
    let n := numPoints shape
    let pts : List (List Float) := List.replicate n [0.0, 0.0, 0.0]
    let sumOp : Interp1 Float := fun _ vals _ _ => vals.foldl (· + ·) 0.0
    let hits := (List.range n).filter fun m =>
      match interpCubic sumOp shape pts ((List.range n).map fun i => if i = m then 1.0 else 0.0)
          (0, 0, 0) (0.0, 0.0, 0.0) with
      | .ok v => v != 0.0
      | .error _ => false
    pure ("ok " ++ sNats hits)
  | "C13.bell" :: n :: rest => do
    let n ← pNat n
    let (g, tl) ← pVec pFloat rest
    if tl ≠ [] then none else
    pure ("ok " ++ sFloat (completeBell (fun i => g.getD (i - 1) 0.0) n))
  -- ---- generated float code (Gen/CubicGrid.lean) ----
  | "C13.gweights" :: sch :: rest => do
    let (axes, tl) ← pMat pFloat rest
    let (shape, tl) ← pVec pNat tl
    if tl ≠ [] then none else
    pure (showPy sFloats (Gen.CubicGrid.chooseWeightScheme axes sch shape))
  | "C13.gvolume" :: rest => do
    let (axes, tl) ← pMat pFloat rest
    let (shape, tl) ← pVec pNat tl
    if tl ≠ [] then none else
    pure (showPy sFloat (Gen.CubicGrid.calculateVolume axes shape) ++ " "
      ++ showPy sFloat (Gen.CubicGrid.calculateAlternativeVolume axes shape))
  | "C13.gclosest" :: which :: rest => do
    let (origin, tl) ← pVec pFloat rest
    let (axes, tl) ← pMat pFloat tl
    let (shape, tl) ← pVec pNat tl
    let (pt, tl) ← pVec pFloat tl
    if tl ≠ [] then none else
    let a := Gen.CubicGrid.closestPoint origin axes shape 0 pt which
    let b := Gen.CubicGrid.closestPoint origin axes shape 123456789 pt which
    if showPy toString a != showPy toString b then pure "junk-dependent" else
    pure (showPy toString a)
  | "C13.gitensor" :: rest => do
    -- the inertia tensor accumulated by the translated loop of from_molecule: with `eigh := id` and
    -- spacing 1 the returned axes are `1.0 * itensor`
    let (nums, tl) ← pVec pFloat rest
    let (coords, tl) ← pMat pFloat tl
    if tl ≠ [] then none else
    pure (showPy (fun (r : List Float × List (List Float) × List Int) => sMat sFloat r.2.1)
      (Gen.CubicGrid.fromMolecule (fun m => ([], m)) nums coords 1.0 1.0 true "Trapezoid"))
  | "C13.gfrom_molecule" :: rot :: rest => do
    let (nums, tl) ← pVec pFloat rest
    let (coords, tl) ← pMat pFloat tl
    match tl with
    | sp :: ex :: tl =>
      let sp ← pFloat sp
      let ex ← pFloat ex
      let (rotate, v) ← (match rot, tl with
        | "0", [] => some (false, ([] : List (List Float)))
        | "1", tl => (pMat pFloat tl).bind fun (m, tl) => if tl = [] then some (true, m) else none
        | _, _ => none)
      pure (showPy (fun (r : List Float × List (List Float) × List Int) =>
          sFloats r.1 ++ " " ++ sMat sFloat r.2.1 ++ " " ++ sInts r.2.2)
        (Gen.CubicGrid.fromMolecule (fun _ => ([], v)) nums coords sp ex rotate "Trapezoid"))
    | _ => none
  | "C13.linear" :: rest => do
    -- interpolate(method="linear") with the multilinear cell interpolant as operator
    let (shape, tl) ← pVec pNat rest
    let (pts, tl) ← pMat pFloat tl
    let (vals, tl) ← pVec pFloat tl
    match tl with
    | [x, y, z] =>
      let p := ((← pFloat x), (← pFloat y), (← pFloat z))
      pure (showPy sFloat (interpLinear multilinearCell shape pts vals p))
    | _ => none
  -- ---- generated constructors / get_points_along_axes / interpolate (Gen/CubicInterp.lean) ----
  | "C13.gaxes" :: rest => do
    let (shape, tl) ← pVec pNat rest
    let (pts, tl) ← pMat pFloat tl
    if tl ≠ [] then none else
    pure (sameJunk (fun (r : List (List Float)) => String.intercalate " " (toString r.length :: r.map sFloats))
      (fun junk => Gen.CubicInterp.getPointsAlongAxes shape junk pts))
  | "C13.ginterp" :: lg :: method :: rest => do
    let (shape, tl) ← pVec pNat rest
    let (pts, tl) ← pMat pFloat tl
    let (vals, tl) ← pVec pFloat tl
    match tl with
    | a :: b :: c :: tl =>
      let (nx, ny, nz) := ((← pNat a), (← pNat b), (← pNat c))
      let (q, tl) ← pMat pFloat tl
      if tl ≠ [] then none else
      let ul ← (match lg with | "0" => some false | "1" => some true | _ => none)
      let ans := sameJunk sFloats (fun junk =>
        Gen.CubicInterp.interpolate lagrange4 rgiFloat sympyBell shape junk pts q vals ul nx ny nz method)
      -- CubicSpline validates its nodes (the operator in here is total)
      if method == "cubic" && ans.startsWith "ok" then
        match Gen.CubicInterp.getPointsAlongAxes shape 0 pts with
        | .ok nodes => if nodes.all (fun l => splineNodesOk (slice l 1 (l.length - 2))) then pure ans else pure "value-error"
        | .error e => pure (err e)
      else pure ans
    | _ => none
  | "C13.ghrinit" :: rest => do
    let (pts, tl) ← pMat pFloat rest
    let (w, tl) ← pVec pFloat tl
    let (shape, tl) ← pVec pInt tl
    if tl ≠ [] then none else
    pure (showPy (fun (r : List (List Float) × List Float × List Int) => toString r.1.length ++ " " ++ toString r.2.1.length ++ " " ++ sInts r.2.2)
      (Gen.CubicInterp.hyperRectangleInit pts w shape))
  | "C13.gugrid" :: sch :: rest => do
    let (origin, tl) ← pVec pFloat rest
    let (axes, tl) ← pMat pFloat tl
    let (shape, tl) ← pVec pInt tl
    if tl ≠ [] then none else
    let sch := if sch.startsWith "Bad" then "no such scheme" else sch
    pure (showPy (fun (r : List (List Float) × List Float × List Int) => sMat sFloat r.1 ++ " " ++ sFloats r.2.1)
      (Gen.CubicInterp.uniformGridInit origin axes shape sch))
  | "C13.gtensor" :: rest => do
    let (d, tl) ← pVec pNat rest      -- sizes of the 1-D grids (two or three)
    let rec takeG (ds : List Nat) (tl : List String) (acc : List (List Float × List Float)) :
        Option (List (List Float × List Float) × List String) :=
      match ds with
      | [] => some (acc.reverse, tl)
      | _ :: ds => do
        let (p, tl) ← pVec pFloat tl
        let (w, tl) ← pVec pFloat tl
        takeG ds tl ((p, w) :: acc)
    let (gs, tl) ← takeG d tl []
    if tl ≠ [] then none else
    match gs with
    | [gx, gy] => pure (showPy (fun (r : List (List Float) × List Float × List Int) => sMat sFloat r.1 ++ " " ++ sFloats r.2.1 ++ " " ++ sInts r.2.2)
        (Gen.CubicInterp.tensor1DInit gx gy none))
    | [gx, gy, gz] => pure (showPy (fun (r : List (List Float) × List Float × List Int) => sMat sFloat r.1 ++ " " ++ sFloats r.2.1 ++ " " ++ sInts r.2.2)
        (Gen.CubicInterp.tensor1DInit gx gy (some gz)))
    | _ => none
  | "C13.gorigin" :: rest => do
    let (pts, tl) ← pMat pFloat rest
    if tl ≠ [] then none else
    pure (showPy sFloats (Gen.CubicInterp.tensorOrigin pts))
  | "C13.gbell" :: n :: k :: rest => do
    let n ← pNat n
    let k ← pNat k
    let (g, tl) ← pVec pFloat rest
    if tl ≠ [] then none else
    pure ("ok " ++ sFloat (sympyBell n k g))
  | ["C13.gdefaults"] =>
    let d := Gen.CubicInterp.interpolateDefaults
    let m : Float × Float × Bool × String := Gen.CubicInterp.fromMoleculeDefaults
    pure ("ok " ++ toString d.1 ++ " " ++ toString d.2.1 ++ " " ++ toString d.2.2.1 ++ " " ++ toString d.2.2.2.1 ++ " " ++ d.2.2.2.2
      ++ " " ++ sFloat m.1 ++ " " ++ sFloat m.2.1 ++ " " ++ toString m.2.2.1 ++ " " ++ m.2.2.2)
  | "C13.cube_units" :: _ => pure ("ok " ++ Gen.CubicCube.summary)
  | _ => none

end GridVerif.Driver.C13

import GridVerif.Model.Proto
import GridVerif.Model.Elem
import GridVerif.Model.RTransform
import GridVerif.Gen.RTransform
import GridVerif.Model.Transform1D
import GridVerif.Model.Transform1DGen

/-
  Driver ops of property C04: the model `Model/Transform1D.lean` at `K = Float`, the transform
  object being the generated definitions of `Gen/RTransform.lean`.

    C04.transform <inv 0|1> <Class> <trim 0|1> <n> p₁ … pₙ <tfLo> <tfHi> <hasDomain 0|1> <gLo> <gHi> <pts> <wts>
        `tf.transform_1d_grid(OneDGrid(pts, wts, domain))`, `tf = Class(p…)` or `InverseRTransform(Class(p…))`;
        `tfLo tfHi` = `tf.domain` of the implementation (may be infinite); the model uses the generated
        domain of the class and answers `domain-differs <lo> <hi>` when the two are not the same numbers
    C04.onedgrid <hasDomain 0|1> <lo> <hi> <pts> <wts>
        the `OneDGrid` constructor alone (1-D array of points)
    C04.onedgrid_nd <points.ndim> <hasDomain 0|1> <lo> <hi> <pts> <wts>
        the same with `points.ndim` given (`pts` = the entries of the flattened array)

  Round 3: both ops run the constructor **generated** from `OneDGrid.__init__` (`Gen/OneDGridInit.lean`), and
  `C04.transform` runs `transform1dGridGen` (the model ending in the generated constructor;
  `Props/C04/Constructor.lean` proves it equal to `transform1dGrid` for every carrier).

  Answers: `ok <pts> <wts> <hasDomain> <lo> <hi>` | `type-error` | `value-error` | `zero-division-error`.
-/
namespace GridVerif.Driver.C04
open GridVerif.Proto GridVerif.Transform1D
open GridVerif.Gen.RTransform (opsOf raisesOf wrapInverseRTransform raisesInverseRTransform BaseTransform domainOf
  codomainOf InverseRTransform)

def pBool : String → Option Bool
  | "0" => some false
  | "1" => some true
  | _ => none

def errTag : Err → String
  | .typeError => "type-error"
  | .valueError => "value-error"
  | .zeroDivisionError => "zero-division-error"

def showGrid (g : Grid1D Float) : String :=
  let d := match g.domain with
    | none => "0 0 0"
    | some (lo, hi) => "1 " ++ sFloat lo ++ " " ++ sFloat hi
  "ok " ++ sFloats g.pts ++ " " ++ sFloats g.wts ++ " " ++ d

def answer : Except Err (Grid1D Float) → String
  | .ok g => showGrid g
  | .error e => errTag e

/-- An end of `tf.domain` as the guard of `transform_1d_grid` sees it (`±inf` for the infinite ends). -/
def extFloat : GridVerif.ExtVal Float → Float
  | .fin x => x
  | .posInf => 1.0 / 0.0
  | .negInf => -1.0 / 0.0

/-- The transform object seen by `transform_1d_grid`.  Its declared domain is the *generated* one
(`domainOf`; for `InverseRTransform` the generated swap of domain and codomain); the `tfLo tfHi` sent by
the harness (the implementation's `tf.domain`) must be the same numbers, else the op answers `domain-differs`. -/
def mkTf (inv : Bool) (cls : String) (ps : List Float) (trim : Bool) (lo hi : Float) : Option (Except String (Tf Float)) := do
  let f ← opsOf cls ps trim
  let d ← domainOf cls ps trim
  let c ← codomainOf cls ps trim
  let dom := if inv then InverseRTransform.domainExt d c else d
  let (glo, ghi) := (extFloat dom.1, extFloat dom.2)
  if !(glo == lo && ghi == hi) then
    pure (.error ("domain-differs " ++ sFloat glo ++ " " ++ sFloat ghi))
  else
  let sizeRaises := fun (n : Nat) =>
    raisesOf cls (if inv then "inverse" else "transform") ps trim (Float.ofNat n) 0.0 == some true
  if inv then
    let g := wrapInverseRTransform f
    let tf : Tf Float :=
      { transform := g.transform, inverse := g.inverse, deriv := g.deriv, deriv2 := g.deriv2, deriv3 := g.deriv3,
        domLo := some glo, domHi := some ghi, sizeRaises := sizeRaises,
        derivRaises := fun x => raisesInverseRTransform f "deriv" x == some true }
    pure (.ok tf)
  else
    let tf : Tf Float :=
      { transform := f.transform, inverse := f.inverse, deriv := f.deriv, deriv2 := f.deriv2, deriv3 := f.deriv3,
        domLo := some glo, domHi := some ghi, sizeRaises := sizeRaises }
    pure (.ok tf)

def pDomain (has lo hi : String) : Option (Option (Float × Float)) := do
  let has ← pBool has
  let lo ← pFloat lo
  let hi ← pFloat hi
  pure (if has then some (lo, hi) else none)

def handle : List String → Option String
  | "C04.transform" :: inv :: cls :: trim :: rest => do
    let inv ← pBool inv
    let trim ← pBool trim
    let (ps, tl) ← pVec pFloat rest
    let tfLo :: tfHi :: has :: gLo :: gHi :: tl := tl | none
    let tfLo ← pFloat tfLo
    let tfHi ← pFloat tfHi
    let dom ← pDomain has gLo gHi
    let (pts, tl) ← pVec pFloat tl
    let (wts, tl) ← pVec pFloat tl
    if tl ≠ [] then none else
    match ← mkTf inv cls ps trim tfLo tfHi with
    | .error e => pure e
    | .ok tf => pure (answer (transform1dGridGen tf { pts := pts, wts := wts, domain := dom }))
  | "C04.onedgrid" :: has :: lo :: hi :: rest => do
    let dom ← pDomain has lo hi
    let (pts, tl) ← pVec pFloat rest
    let (wts, tl) ← pVec pFloat tl
    if tl ≠ [] then none else
    pure (answer (GridVerif.Gen.OneDGridInit.init 1 pts wts dom))
  | "C04.onedgrid_nd" :: ndim :: has :: lo :: hi :: rest => do
    let ndim ← ndim.toNat?
    let dom ← pDomain has lo hi
    let (pts, tl) ← pVec pFloat rest
    let (wts, tl) ← pVec pFloat tl
    if tl ≠ [] then none else
    pure (answer (GridVerif.Gen.OneDGridInit.init ndim pts wts dom))
  | _ => none

end GridVerif.Driver.C04

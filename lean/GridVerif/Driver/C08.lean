import GridVerif.Model.Proto
import GridVerif.Model.Elem
import GridVerif.Model.Harmonics
import GridVerif.Gen.Harmonics

namespace GridVerif.Driver.C08
open GridVerif.Proto GridVerif.Harmonics

/-- Line-protocol handler of property C08: `C08.<op> args…` ↦ one answer line
(`none` = malformed, answered `bad-op`).

* `C08.ylmCode L θ φ`, `C08.ylmNorm L θ φ` ↦ `ok (L+1)² rows…`
* `C08.dYlm L θ φ` ↦ `ok n dθ-rows… n dφ-rows…`
* `C08.solid L r θ φ` ↦ `ok n rows…`
* `C08.cartToSph px py pz cx cy cz` ↦ `ok r θ φ`
* `C08.genCartToSph px py pz cx cy cz` ↦ `ok r θ φ` by the *generated* `Gen.Harmonics.cartToSph` (its equality with the hand
  model is proved over ℝ only: `r == 0.0` vs `0 < r`; the other generated routines are proved equal for every scalar type)
* `C08.sphToCart r θ φ cx cy cz` ↦ `ok x y z`
* `C08.convDeriv dr dθ dφ r θ φ` ↦ `ok 3 gx gy gz`
* `C08.rowIndex l m` ↦ `ok index`;  `C08.lmOrder L` ↦ `ok n l₀ m₀ l₁ m₁ …`. -/
def handle : List String → Option String
  | ["C08.ylmCode", L, t, p] => do
    let L ← pNat L; let t ← pFloat t; let p ← pFloat p
    pure ("ok " ++ sFloats (ylmCode L t p))
  | ["C08.ylmNorm", L, t, p] => do
    let L ← pNat L; let t ← pFloat t; let p ← pFloat p
    pure ("ok " ++ sFloats (ylmNorm L t p))
  | ["C08.dYlm", L, t, p] => do
    let L ← pNat L; let t ← pFloat t; let p ← pFloat p
    let d := dYlm L t p
    pure ("ok " ++ sFloats d.1 ++ " " ++ sFloats d.2)
  | ["C08.solid", L, r, t, p] => do
    let L ← pNat L; let r ← pFloat r; let t ← pFloat t; let p ← pFloat p
    pure ("ok " ++ sFloats (solidHarmonics L r t p))
  | ["C08.cartToSph", px, py, pz, cx, cy, cz] => do
    let px ← pFloat px; let py ← pFloat py; let pz ← pFloat pz
    let cx ← pFloat cx; let cy ← pFloat cy; let cz ← pFloat cz
    let s := cartToSph (px, py, pz) (cx, cy, cz)
    pure s!"ok {sFloat s.1} {sFloat s.2.1} {sFloat s.2.2}"
  | ["C08.genCartToSph", px, py, pz, cx, cy, cz] => do
    let px ← pFloat px; let py ← pFloat py; let pz ← pFloat pz
    let cx ← pFloat cx; let cy ← pFloat cy; let cz ← pFloat cz
    let s := Gen.Harmonics.cartToSph (px, py, pz) (cx, cy, cz)
    pure s!"ok {sFloat s.1} {sFloat s.2.1} {sFloat s.2.2}"
  | ["C08.sphToCart", r, t, p, cx, cy, cz] => do
    let r ← pFloat r; let t ← pFloat t; let p ← pFloat p
    let cx ← pFloat cx; let cy ← pFloat cy; let cz ← pFloat cz
    let s := sphToCart (r, t, p) (cx, cy, cz)
    pure s!"ok {sFloat s.1} {sFloat s.2.1} {sFloat s.2.2}"
  | ["C08.convDeriv", dr, dt, dp, r, t, p] => do
    let dr ← pFloat dr; let dt ← pFloat dt; let dp ← pFloat dp
    let r ← pFloat r; let t ← pFloat t; let p ← pFloat p
    pure ("ok " ++ sFloats (convDeriv dr dt dp r t p))
  | ["C08.rowIndex", l, m] => do
    let l ← pNat l; let m ← pInt m
    if m.natAbs ≤ l then pure s!"ok {rowIndex l m}" else pure "index-error"
  | ["C08.lmOrder", L] => do
    let L ← pNat L
    let xs := lmOrder L
    pure ("ok " ++ String.intercalate " " (toString xs.length :: xs.map (fun lm => s!"{lm.1} {lm.2}")))
  | _ => none

end GridVerif.Driver.C08

import GridVerif.Model.Proto
import GridVerif.Model.Elem

namespace GridVerif.Driver.C08
open GridVerif.Proto

/-- Line-protocol handler of property C08: `C08.<op> args…` ↦ one answer line
(`none` = malformed, answered `bad-op`). -/
def handle : List String → Option String
  | _ => none

end GridVerif.Driver.C08

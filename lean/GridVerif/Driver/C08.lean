import GridVerif.Model.Proto
import GridVerif.Model.Elem
import GridVerif.Model.Harmonics
import GridVerif.Gen.Harmonics
import GridVerif.Gen.HarmonicsScipy
import GridVerif.Model.HarmonicsSciPy

namespace GridVerif.Driver.C08
open GridVerif.Proto GridVerif.Harmonics

/-- Line-protocol handler of property C08: `C08.<op> args…` ↦ one answer line
(`none` = malformed, answered `bad-op`).

* `C08.ylmCode L θ φ`, `C08.ylmNorm L θ φ` ↦ `ok (L+1)² rows…`
* `C08.dYlm L θ φ` ↦ `ok n dθ-rows… n dφ-rows…`
* `C08.solid L r θ φ` ↦ `ok n rows…`
* `C08.cartToSph px py pz cx cy cz` ↦ `ok r θ φ`
* `C08.genCartToSph px py pz cx cy cz` ↦ `ok r θ φ` by the *generated* `Gen.Harmonics.cartToSph` (its equality with the hand
  model is proved over ℝ only: `r == 0.0` vs `0 < r`; the other generated routines are proved equal for every scalar type)
* `C08.sphToCart r θ φ cx cy cz` ↦ `ok x y z`
* `C08.convDeriv dr dθ dφ r θ φ` ↦ `ok 3 gx gy gz`
* `C08.genScipy any L θ φ` ↦ `ok (L+1)² rows…` by the *generated* `Gen.HarmonicsScipy.ylm_scipy` (translation of
  `generate_real_spherical_harmonics_scipy`; `any` = `0`/`1`, the value of `np.any(outside)` over the caller's whole array;
  `np.empty` is filled with NaN, so a row the loop does not write shows)
* `C08.genScipyFits any L θ φ` ↦ `ok 0|1`: the shape requirements of that text
* `C08.sphHarmYAll n m φ θ` ↦ `ok (n+1)(2m+1) re im …`: the contract for `scipy.special.sph_harm_y_all`, row-major
* `C08.genYlm L θ φ`, `C08.genSolid L r θ φ`, `C08.genConvDeriv dr dθ dφ r θ φ` ↦ the generated `Gen.Harmonics.ylm` (unbound
  `factorial` = NaN), `solid`, `convDeriv`
* `C08.rowIndex l m` ↦ `ok index`;  `C08.lmOrder L` ↦ `ok n l₀ m₀ l₁ m₁ …`. -/
def handle : List String → Option String
  | ["C08.ylmCode", L, t, p] => do
    let L ← pNat L; let t ← pFloat t; let p ← pFloat p
    pure ("ok " ++ sFloats (ylmCode L t p))
  | ["C08.ylmNorm", L, t, p] => do
    let L ← pNat L; let t ← pFloat t; let p ← pFloat p
    pure ("ok " ++ sFloats (ylmNorm L t p))
  | ["C08.dYlm", L, t, p] => do
    let L ← pNat L; let t ← pFloat t; let p ← pFloat p
    let d := dYlm L t p
    pure ("ok " ++ sFloats d.1 ++ " " ++ sFloats d.2)
  | ["C08.solid", L, r, t, p] => do
    let L ← pNat L; let r ← pFloat r; let t ← pFloat t; let p ← pFloat p
    pure ("ok " ++ sFloats (solidHarmonics L r t p))
  | ["C08.cartToSph", px, py, pz, cx, cy, cz] => do
    let px ← pFloat px; let py ← pFloat py; let pz ← pFloat pz
    let cx ← pFloat cx; let cy ← pFloat cy; let cz ← pFloat cz
    let s := cartToSph (px, py, pz) (cx, cy, cz)
    pure s!"ok {sFloat s.1} {sFloat s.2.1} {sFloat s.2.2}"
  | ["C08.genCartToSph", px, py, pz, cx, cy, cz] => do
    let px ← pFloat px; let py ← pFloat py; let pz ← pFloat pz
    let cx ← pFloat cx; let cy ← pFloat cy; let cz ← pFloat cz
    let s := Gen.Harmonics.cartToSph (px, py, pz) (cx, cy, cz)
    pure s!"ok {sFloat s.1} {sFloat s.2.1} {sFloat s.2.2}"
  | ["C08.sphToCart", r, t, p, cx, cy, cz] => do
    let r ← pFloat r; let t ← pFloat t; let p ← pFloat p
    let cx ← pFloat cx; let cy ← pFloat cy; let cz ← pFloat cz
    let s := sphToCart (r, t, p) (cx, cy, cz)
    pure s!"ok {sFloat s.1} {sFloat s.2.1} {sFloat s.2.2}"
  | ["C08.convDeriv", dr, dt, dp, r, t, p] => do
    let dr ← pFloat dr; let dt ← pFloat dt; let dp ← pFloat dp
    let r ← pFloat r; let t ← pFloat t; let p ← pFloat p
    pure ("ok " ++ sFloats (convDeriv dr dt dp r t p))
  | ["C08.genScipy", any, L, t, p] => do
    let any ← pNat any; let L ← pNat L; let t ← pFloat t; let p ← pFloat p
    pure ("ok " ++ sFloats (Gen.HarmonicsScipy.ylm_scipy (0.0 / 0.0) (any != 0) L t p))
  | ["C08.genScipyFits", any, L, t, p] => do
    let any ← pNat any; let L ← pNat L; let t ← pFloat t; let p ← pFloat p
    pure (if Gen.HarmonicsScipy.ylm_scipy_fits (0.0 / 0.0) (any != 0) L t p then "ok 1" else "ok 0")
  | ["C08.sphHarmYAll", n, m, p, t] => do
    let n ← pNat n; let m ← pNat m; let p ← pFloat p; let t ← pFloat t
    let tbl := SciPyBase.sph_harm_y_all n m p t
    pure ("ok " ++ sFloats (tbl.flatMap (fun row => row.flatMap (fun z => [z.1, z.2]))))
  | ["C08.genYlm", L, t, p] => do
    let L ← pNat L; let t ← pFloat t; let p ← pFloat p
    pure ("ok " ++ sFloats (Gen.Harmonics.ylm (0.0 / 0.0) L t p))
  | ["C08.genSolid", L, r, t, p] => do
    let L ← pNat L; let r ← pFloat r; let t ← pFloat t; let p ← pFloat p
    pure ("ok " ++ sFloats (Gen.Harmonics.solid (0.0 / 0.0) L r t p))
  | ["C08.genConvDeriv", dr, dt, dp, r, t, p] => do
    let dr ← pFloat dr; let dt ← pFloat dt; let dp ← pFloat dp
    let r ← pFloat r; let t ← pFloat t; let p ← pFloat p
    pure ("ok " ++ sFloats (Gen.Harmonics.convDeriv dr dt dp r t p))
  | ["C08.rowIndex", l, m] => do
    let l ← pNat l; let m ← pInt m
    if m.natAbs ≤ l then pure s!"ok {rowIndex l m}" else pure "index-error"
  | ["C08.lmOrder", L] => do
    let L ← pNat L
    let xs := lmOrder L
    pure ("ok " ++ String.intercalate " " (toString xs.length :: xs.map (fun lm => s!"{lm.1} {lm.2}")))
  | _ => none

end GridVerif.Driver.C08

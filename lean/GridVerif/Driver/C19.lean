import GridVerif.Model.Proto
import GridVerif.Model.Aliasing
import GridVerif.Gen.AngularCache
import GridVerif.Model.AliasingCfg

namespace GridVerif.Driver.C19
open GridVerif.Proto GridVerif.Aliasing GridVerif.Gen.AngularCache GridVerif.Gen.ModuleState

/-- abstract content of the shipped file for key `(method, degree)`; edits use values `< 1000` -/
def sp (k : Key) : Nat := 1000 + 1000 * k.1 + k.2
def sw (k : Key) : Nat := 500000 + 1000 * k.1 + k.2

def parseOps : List String → Option (List Op)
  | [] => some []
  | "c" :: m :: dg :: sc :: uc :: rest => do
    let m ← pNat m
    let dg ← pNat dg
    let sc ← pNat sc
    let uc ← pNat uc
    let tl ← parseOps rest
    pure (Op.construct (m, dg) (sc != 0) (uc != 0) :: tl)
  | "e" :: c :: v :: rest => do
    let c ← pNat c
    let v ← pNat v
    let tl ← parseOps rest
    pure (Op.edit c v :: tl)
  | _ => none

def showOut : Option Out → String
  | some o => s!"{o.pCell} {o.wCell} {o.pVal} {o.wVal}"
  | none => "-"

def setB (cls : String) : Option (Option Float → Float → Option Float) :=
  match cls with
  | "LinearInfiniteRTransform" => some setMaxB_LinearInfiniteRTransform
  | "ExpRTransform" => some setMaxB_ExpRTransform
  | "PowerRTransform" => some setMaxB_PowerRTransform
  | _ => none

def parseMOps : List String → Option (List MOp)
  | [] => some []
  | "q" :: rest => (parseMOps rest).map (MOp.query :: ·)
  | "h" :: rest => (parseMOps rest).map (MOp.handout :: ·)
  | "s" :: v :: rest => do
    let v ← pNat v
    let tl ← parseMOps rest
    pure (MOp.setSrc v :: tl)
  | "e" :: v :: rest => do
    let v ← pNat v
    let tl ← parseMOps rest
    pure (MOp.editHeld v :: tl)
  | "i" :: v :: rest => do
    let v ← pNat v
    let tl ← parseMOps rest
    pure (MOp.editSrcInPlace v :: tl)
  | _ => none

/-- abstract "value computed from the source content" of the memo machine -/
def memoF (x : Nat) : Nat := x + 100000

def memoCfgOf : String → Option MemoCfg
  | "kdtree" => some kdtreeCfg
  | "basis" => some basisCfg
  | _ => none

def setBChecked (cls : String) : Option (Option Float → Float → Option Float × Bool) :=
  match cls with
  | "LinearInfiniteRTransform" => some (setMaxBChecked_LinearInfiniteRTransform bTooSmall_LinearInfiniteRTransform)
  | "ExpRTransform" => some (setMaxBChecked_ExpRTransform bTooSmall_ExpRTransform)
  | "PowerRTransform" => some (setMaxBChecked_PowerRTransform bTooSmall_PowerRTransform)
  | _ => none

/-- `(ok, mx)` pairs: `ok = 0` a `transform_1d_grid` call on a grid its guards refuse -/
def parseCalls : List String → Option (List (Bool × Float))
  | [] => some []
  | ok :: mx :: rest => do
    let ok ← pNat ok
    let mx ← pFloat mx
    let tl ← parseCalls rest
    pure ((ok != 0, mx) :: tl)
  | _ => none

def handle : List String → Option String
  | "C19.run" :: rest => do
    let ops ← parseOps rest
    let (st, outs) := run discipline sp sw init ops
    let keys := st.cache.map (fun e => s!"{e.1.1} {e.1.2}")
    pure ("ok " ++ String.intercalate " ; " (outs.map showOut) ++ " | " ++ String.intercalate " " keys)
  | "C19.shipped" :: m :: dg :: [] => do
    let m ← pNat m
    let dg ← pNat dg
    pure s!"ok {sp (m, dg)} {sw (m, dg)}"
  | "C19.b" :: cls :: b0 :: rest => do
    let f ← setB cls
    let st : Option Float ← if b0 == "none" then some none else (pFloat b0).map some
    let (mxs, tl) ← pVec pFloat rest
    if tl ≠ [] then none else
    -- state after each call
    let (_, trace) := mxs.foldl (fun (acc : Option Float × List (Option Float)) mx =>
      let s' := f acc.1 mx
      (s', acc.2 ++ [s'])) (st, [])
    pure ("ok " ++ String.intercalate " " (trace.map fun o => match o with | some v => sFloat v | none => "none"))
  | ["C19.facts"] =>
    pure s!"ok {discipline.pointsFreshPlain} {discipline.weightsFreshPlain} {discipline.pointsFreshScaled} {discipline.weightsFreshScaled} {coulombLoaderFresh}"
  | "C19.bchk" :: cls :: b0 :: rest => do
    let f ← setBChecked cls
    let st : Option Float ← if b0 == "none" then some none else (pFloat b0).map some
    let (mxs, tl) ← pVec pFloat rest
    if tl ≠ [] then none else
    -- after each call: the state and whether the call raised
    let (_, trace) := mxs.foldl (fun (acc : Option Float × List String) mx =>
      let (s', r) := f acc.1 mx
      (s', acc.2 ++ [(match s' with | some v => sFloat v | none => "none") ++ " " ++ (if r then "1" else "0")])) (st, [])
    pure ("ok " ++ String.intercalate " " trace)
  | "C19.bcalls" :: cls :: b0 :: rest => do
    let f ← setBChecked cls
    let st : Option Float ← if b0 == "none" then some none else (pFloat b0).map some
    let calls ← parseCalls rest
    let (_, trace) := calls.foldl (fun (acc : Option Float × List String) c =>
      let (s', r) := t1dStep (guardsFirst t1dStatements) f c.1 acc.1 c.2
      (s', acc.2 ++ [(match s' with | some v => sFloat v | none => "none") ++ " " ++ (if r then "1" else "0")])) (st, [])
    pure ("ok " ++ String.intercalate " " trace)
  | "C19.memo" :: which :: v0 :: rest => do
    let cfg ← memoCfgOf which
    let v0 ← pNat v0
    let ops ← parseMOps rest
    let outs := mrun cfg memoF (minit v0) ops
    pure ("ok " ++ String.intercalate " ; " (outs.map fun (o, src) =>
      (match o with | some v => toString v | none => "-") ++ " " ++ toString src))
  | ["C19.objects"] =>
    pure ("ok " ++ String.intercalate " " (moduleObjects.map fun o =>
      o.qual ++ ":" ++ (if o.isConstant then "const" else "state") ++ ":" ++ o.kind.replace " " "_"))
  | ["C19.state"] =>
    pure s!"ok {functionCaches.length} {cacheImports.length} {mutableDefaults.length} {classObjects.length} {globalRebinds.length} {nonlocals.length} {lateAttrs.length} {memos.length} {setters.length} {kdtreeCfg.resetOnSet} {kdtreeCfg.handoutFresh} {basisCfg.resetOnSet} {basisCfg.handoutFresh}"
  | ["C19.memos"] =>
    pure ("ok " ++ String.intercalate " " (memos.map fun m =>
      m.cls ++ "." ++ m.attr ++ ":" ++ (if m.handedOut.any (fun h => h.2 == "itself") then "itself" else "private")))
  | ["C19.modules"] => pure ("ok " ++ String.intercalate " " modules)
  | _ => none

end GridVerif.Driver.C19

import GridVerif.Model.Proto
import GridVerif.Model.Aliasing
import GridVerif.Gen.AngularCache

namespace GridVerif.Driver.C19
open GridVerif.Proto GridVerif.Aliasing GridVerif.Gen.AngularCache

/-- abstract content of the shipped file for key `(method, degree)`; edits use values `< 1000` -/
def sp (k : Key) : Nat := 1000 + 1000 * k.1 + k.2
def sw (k : Key) : Nat := 500000 + 1000 * k.1 + k.2

def parseOps : List String → Option (List Op)
  | [] => some []
  | "c" :: m :: dg :: sc :: uc :: rest => do
    let m ← pNat m
    let dg ← pNat dg
    let sc ← pNat sc
    let uc ← pNat uc
    let tl ← parseOps rest
    pure (Op.construct (m, dg) (sc != 0) (uc != 0) :: tl)
  | "e" :: c :: v :: rest => do
    let c ← pNat c
    let v ← pNat v
    let tl ← parseOps rest
    pure (Op.edit c v :: tl)
  | _ => none

def showOut : Option Out → String
  | some o => s!"{o.pCell} {o.wCell} {o.pVal} {o.wVal}"
  | none => "-"

def setB (cls : String) : Option (Option Float → Float → Option Float) :=
  match cls with
  | "LinearInfiniteRTransform" => some setMaxB_LinearInfiniteRTransform
  | "ExpRTransform" => some setMaxB_ExpRTransform
  | "PowerRTransform" => some setMaxB_PowerRTransform
  | _ => none

def handle : List String → Option String
  | "C19.run" :: rest => do
    let ops ← parseOps rest
    let (st, outs) := run discipline sp sw init ops
    let keys := st.cache.map (fun e => s!"{e.1.1} {e.1.2}")
    pure ("ok " ++ String.intercalate " ; " (outs.map showOut) ++ " | " ++ String.intercalate " " keys)
  | "C19.shipped" :: m :: dg :: [] => do
    let m ← pNat m
    let dg ← pNat dg
    pure s!"ok {sp (m, dg)} {sw (m, dg)}"
  | "C19.b" :: cls :: b0 :: rest => do
    let f ← setB cls
    let st : Option Float ← if b0 == "none" then some none else (pFloat b0).map some
    let (mxs, tl) ← pVec pFloat rest
    if tl ≠ [] then none else
    -- state after each call
    let (_, trace) := mxs.foldl (fun (acc : Option Float × List (Option Float)) mx =>
      let s' := f acc.1 mx
      (s', acc.2 ++ [s'])) (st, [])
    pure ("ok " ++ String.intercalate " " (trace.map fun o => match o with | some v => sFloat v | none => "none"))
  | ["C19.facts"] =>
    pure s!"ok {discipline.pointsFreshPlain} {discipline.weightsFreshPlain} {discipline.pointsFreshScaled} {discipline.weightsFreshScaled} {coulombLoaderFresh}"
  | _ => none

end GridVerif.Driver.C19

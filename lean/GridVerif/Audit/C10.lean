import GridVerif.Props.C10

#print axioms GridVerif.C10.inv_init
#print axioms GridVerif.C10.inv_step
#print axioms GridVerif.C10.inv_history
#print axioms GridVerif.C10.ballQuery_spec
#print axioms GridVerif.C10.query_spec
#print axioms GridVerif.C10.localgrid_correct
#print axioms GridVerif.C10.query_inf_whole_grid
#print axioms GridVerif.C10.query_empty_sphere
#print axioms GridVerif.C10.query_rejects
#print axioms GridVerif.C10.inBall_iff_sqrt
#print axioms GridVerif.C10.stale_tree_would_fail
#print axioms GridVerif.C10.select_lt
#print axioms GridVerif.C10.getitem_spec
#print axioms GridVerif.C10.select_int
#print axioms GridVerif.C10.select_array
#print axioms GridVerif.C10.select_mask
#print axioms GridVerif.C10.select_slice
#print axioms GridVerif.C10.select_slice_default_step
#print axioms GridVerif.C10.getitem_unsupported
#print axioms GridVerif.C10.setters_spec

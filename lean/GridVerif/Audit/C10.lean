import GridVerif.Props.C10
import GridVerif.Props.C10.Gen
import GridVerif.Props.C10.Ctor
import GridVerif.Props.C10.Effects
import GridVerif.Props.C10.Boundary

#print axioms GridVerif.C10.inv_init
#print axioms GridVerif.C10.inv_step
#print axioms GridVerif.C10.inv_history
#print axioms GridVerif.C10.ballQuery_spec
#print axioms GridVerif.C10.query_spec
#print axioms GridVerif.C10.localgrid_correct
#print axioms GridVerif.C10.query_inf_whole_grid
#print axioms GridVerif.C10.query_empty_sphere
#print axioms GridVerif.C10.query_rejects
#print axioms GridVerif.C10.inBall_iff_sqrt
#print axioms GridVerif.C10.stale_tree_would_fail
#print axioms GridVerif.C10.select_lt
#print axioms GridVerif.C10.getitem_spec
#print axioms GridVerif.C10.select_int
#print axioms GridVerif.C10.select_array
#print axioms GridVerif.C10.select_mask
#print axioms GridVerif.C10.select_slice
#print axioms GridVerif.C10.select_slice_default_step
#print axioms GridVerif.C10.getitem_unsupported
#print axioms GridVerif.C10.setters_spec
#print axioms GridVerif.C10.gen_setter_effects
#print axioms GridVerif.C10.gen_points_set_eq
#print axioms GridVerif.C10.gen_weights_set_eq
#print axioms GridVerif.C10.gen_query_eq
#print axioms GridVerif.C10.getitem_branches
#print axioms GridVerif.C10.gen_getitem_eq
#print axioms GridVerif.C10.gen_oned_getitem_eq
#print axioms GridVerif.C10.genStep_eq_step
#print axioms GridVerif.C10.genRun_eq_run
#print axioms GridVerif.C10.gen_inv_step
#print axioms GridVerif.C10.gen_localgrid_correct
#print axioms GridVerif.C10.gen_grid_init_spec
#print axioms GridVerif.C10.gen_localgrid_init_spec
#print axioms GridVerif.C10.gen_grid_init_eq
#print axioms GridVerif.C10.gen_localgrid_of_query
#print axioms GridVerif.C10.gen_localgrid_of_query_inf
#print axioms GridVerif.C10.gen_tree_args_exact
#print axioms GridVerif.C10.gen_dispatch_pinned
#print axioms GridVerif.C10.gen_setters_never_write_through
#print axioms GridVerif.C10.gen_setter_frame
#print axioms GridVerif.C10.gen_setter_rebinds
#print axioms GridVerif.C10.gen_shared_weights_kept
#print axioms GridVerif.C10.write_through_would_overwrite
#print axioms GridVerif.C10.gen_boundary_point_included
#print axioms GridVerif.C10.gen_closed_ball_3_4_5
#print axioms GridVerif.C10.gen_closed_ball_radius_zero

import GridVerif.Props.C15
import GridVerif.Props.C15.Solve
import GridVerif.Props.C15.Unique

#print axioms GridVerif.C15.faa_di_bruno_3
#print axioms GridVerif.C15.derivs_of_comp
#print axioms GridVerif.C15.transformed_ode_pointwise₁
#print axioms GridVerif.C15.transformed_ode_pointwise₂
#print axioms GridVerif.C15.transformed_ode_pointwise₃
#print axioms GridVerif.C15.transformed_leading_coeff
#print axioms GridVerif.C15.transformed_ode_equiv₁
#print axioms GridVerif.C15.transformed_ode_equiv₂
#print axioms GridVerif.C15.transformed_ode_equiv₃
#print axioms GridVerif.C15.deriv_matrix_entries
#print axioms GridVerif.C15.deriv_matrix_maps_derivatives
#print axioms GridVerif.C15.deriv_matrix_invertible_iff
#print axioms GridVerif.C15.explicit_form
#print axioms GridVerif.C15.initial_data_roundtrip
#print axioms GridVerif.C15.deriv_matrix_spec
#print axioms GridVerif.C15.forwardSolve_solves
#print axioms GridVerif.C15.bvp_bc_spec
#print axioms GridVerif.C15.bvp_bc_meaning
#print axioms GridVerif.C15.direct_contract_gives_solution₃
#print axioms GridVerif.C15.transformed_contract_gives_solution₁
#print axioms GridVerif.C15.transformed_contract_gives_solution₂
#print axioms GridVerif.C15.transformed_contract_gives_solution₃
#print axioms GridVerif.C15.ivp_initial_conditions
#print axioms GridVerif.C15.bvp_boundary_conditions
#print axioms GridVerif.C15.through_transform_eq_direct_partial
#print axioms GridVerif.C15.linear_ivp_unique₃
#print axioms GridVerif.C15.through_transform_eq_direct
#print axioms GridVerif.C15.direct_contract_gives_solution₁
#print axioms GridVerif.C15.direct_contract_gives_solution₂
#print axioms GridVerif.C15.linear_ivp_unique₁
#print axioms GridVerif.C15.linear_ivp_unique₂
#print axioms GridVerif.C15.through_transform_eq_direct₁
#print axioms GridVerif.C15.through_transform_eq_direct₂
#print axioms GridVerif.C15.rtransform_passes_derivs_in_order
#print axioms GridVerif.C15.bell_loop_not_reached_up_to_order_3
#print axioms GridVerif.C15.deriv_matrix_guard
#print axioms GridVerif.Ode.bell_indep_of_tail
#print axioms GridVerif.Ode.rearrange_eq

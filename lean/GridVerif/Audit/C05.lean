import GridVerif.Props.C05
import GridVerif.Props.C05.Gen
import GridVerif.Props.C05.Gen3
import GridVerif.Props.C05.Gen6

#print axioms GridVerif.C05.indices_spec
#print axioms GridVerif.C05.slice_shell
#print axioms GridVerif.C05.init_spec
#print axioms GridVerif.C05.integral_factorises
#print axioms GridVerif.C05.integral_factorises_exact
#print axioms GridVerif.C05.centre_translates
#print axioms GridVerif.C05.rotation_preserves_radii
#print axioms GridVerif.C05.point_radius
#print axioms GridVerif.C05.weights_independent_of_rotation_and_centre
#print axioms GridVerif.C05.reproducible_from_seed
#print axioms GridVerif.C05.shell_grid_spec
#print axioms GridVerif.C05.shell_grid_rejects
#print axioms GridVerif.C05.sector_degree
#print axioms GridVerif.C05.built_degree_not_below_request
#print axioms GridVerif.C05.built_size_not_below_request
#print axioms GridVerif.C05.init_succeeds
#print axioms GridVerif.C05.preset_builds
#print axioms GridVerif.C05.preset_table_partial
#print axioms GridVerif.C05.preset_shape_fails_at_sg3_14
#print axioms GridVerif.C05.preset_shape_fails_at_sg0_7
#print axioms GridVerif.C05.preset_shape_fails_at_sg0_15
#print axioms GridVerif.C05.preset_request_ok
#print axioms GridVerif.C05.preset_request_fails_at_sg3_14
#print axioms GridVerif.C05.preset_sizes_supported
#print axioms GridVerif.C05.preset_prescribed_size
#print axioms GridVerif.C05.gen_find_degrees_eq_model
#print axioms GridVerif.C05.gen_generate_degree_eq_model
#print axioms GridVerif.C05.gen_input_type_check_spec
#print axioms GridVerif.C05.gen_init_eq_model
#print axioms GridVerif.C05.gen_init_int_eq_model
#print axioms GridVerif.C05.gen_init_bool
#print axioms GridVerif.C05.gen_init_npInt_rejected
#print axioms GridVerif.C05.gen_from_pruned_eq_model
#print axioms GridVerif.C05.sector_degree_gen
#print axioms GridVerif.C05.preset_request_sector_gen
#print axioms GridVerif.C05.pruned_builds
#print axioms GridVerif.C05.gen_get_shell_grid_eq_model
#print axioms GridVerif.C05.loop_body_ok
#print axioms GridVerif.C05.loop_spec
#print axioms GridVerif.C05.gen_generate_atomic_grid_eq_model
#print axioms GridVerif.C05.flatMap_expand
#print axioms GridVerif.C05.entries_rad_wellformed
#print axioms GridVerif.C05.gen_from_preset_eq_model
#print axioms GridVerif.C05.preset_builds_gen
#print axioms GridVerif.C05.shell_grid_default_is_slice
#print axioms GridVerif.C05.shell_grid_gen_rejects
#print axioms GridVerif.C05.default_arguments
#print axioms GridVerif.C05.gen_shell_independent
#print axioms GridVerif.C05.gen_shell_unaffected_by_other_shells
#print axioms GridVerif.C05.gen_get_shell_grid_reads_only
#print axioms GridVerif.C05.gen_init_sizes_route

import GridVerif.Props.C05

#print axioms GridVerif.C05.indices_spec
#print axioms GridVerif.C05.slice_shell
#print axioms GridVerif.C05.init_spec
#print axioms GridVerif.C05.integral_factorises
#print axioms GridVerif.C05.integral_factorises_exact
#print axioms GridVerif.C05.centre_translates
#print axioms GridVerif.C05.rotation_preserves_radii
#print axioms GridVerif.C05.point_radius
#print axioms GridVerif.C05.weights_independent_of_rotation_and_centre
#print axioms GridVerif.C05.reproducible_from_seed
#print axioms GridVerif.C05.shell_grid_spec
#print axioms GridVerif.C05.shell_grid_rejects
#print axioms GridVerif.C05.sector_degree
#print axioms GridVerif.C05.built_degree_not_below_request
#print axioms GridVerif.C05.built_size_not_below_request
#print axioms GridVerif.C05.init_succeeds
#print axioms GridVerif.C05.preset_builds
#print axioms GridVerif.C05.preset_table_partial
#print axioms GridVerif.C05.preset_shape_fails_at_sg3_14
#print axioms GridVerif.C05.preset_shape_fails_at_sg0_7
#print axioms GridVerif.C05.preset_shape_fails_at_sg0_15
#print axioms GridVerif.C05.preset_request_ok
#print axioms GridVerif.C05.preset_request_fails_at_sg3_14
#print axioms GridVerif.C05.preset_sizes_supported
#print axioms GridVerif.C05.preset_prescribed_size

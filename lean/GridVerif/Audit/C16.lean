import GridVerif.Props.C16
import GridVerif.Props.C16.Laplacian

#print axioms GridVerif.C16.posed_bvp_eq
#print axioms GridVerif.C16.posed_ivp_eq
#print axioms GridVerif.C16.bvp_value_eq
#print axioms GridVerif.C16.u_form_equiv
#print axioms GridVerif.C16.radial_poisson_of_lm
#print axioms GridVerif.C16.y00_normalised
#print axioms GridVerif.C16.boundary_value_spec
#print axioms GridVerif.C16.boundary_value_origin
#print axioms GridVerif.C16.boundary_value_higher
#print axioms GridVerif.C16.initial_value_spec
#print axioms GridVerif.C16.posed_linear
#print axioms GridVerif.C16.linear_combination_solves
#print axioms GridVerif.C16.linear_in_density
#print axioms GridVerif.C16.bvp_unique_monopole
#print axioms GridVerif.C16.bvp_unique_higher
#print axioms GridVerif.C16.bvp_solution_example
#print axioms GridVerif.C16.robust_fold
#print axioms GridVerif.C16.core_term_is_c17_density
#print axioms GridVerif.C16.robust_split
#print axioms GridVerif.C16.zero_solves_zero
#print axioms GridVerif.C16.robust_exact_core
#print axioms GridVerif.C16.robust_vs_plain
#print axioms GridVerif.C16.s_reference
#print axioms GridVerif.C16.problems_count
#print axioms GridVerif.C16.call_shapes
#print axioms GridVerif.C16.lap_gen_eq
#print axioms GridVerif.C16.laplacianAt_eq
#print axioms GridVerif.C16.laplacian_expansion
#print axioms GridVerif.C16.lap_degrees_spec
#print axioms GridVerif.C16.laplacian_expansion_code
#print axioms GridVerif.C16.laplacian_of_potential
#print axioms GridVerif.C16.lap_fanout_eq
#print axioms GridVerif.C16.lap_molecular_slice_full
#print axioms GridVerif.zero_of_second_deriv_eq_pos_mul

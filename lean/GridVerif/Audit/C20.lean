import GridVerif.Props.C20

#print axioms GridVerif.C20.analysis_sound
#print axioms GridVerif.C20.all_functions_safe
#print axioms GridVerif.C20.library_never_writes_caller_data

import GridVerif.Props.C20
import GridVerif.Props.C20.Pinned

#print axioms GridVerif.C20.analysis_sound
#print axioms GridVerif.C20.all_functions_safe
#print axioms GridVerif.C20.library_never_writes_caller_data
#print axioms GridVerif.C20.supplied_none_of_fits
#print axioms GridVerif.C20.enter_pinned
#print axioms GridVerif.C20.enter_conservative
#print axioms GridVerif.C20.run_of_runC
#print axioms GridVerif.C20.runC_sound
#print axioms GridVerif.C20.all_pins_ok
#print axioms GridVerif.C20.library_never_writes_caller_data_with_calls

import GridVerif.Props.C06
import GridVerif.Props.C06.Index
import GridVerif.Props.C06.Radii
import GridVerif.Props.C06.Routes
import GridVerif.Props.C06.Select
import GridVerif.Props.C06.Init
import GridVerif.Props.C06.CallGen
import GridVerif.Props.C06.Hirshfeld
import GridVerif.Props.C06.CovRadii
import GridVerif.Props.C06.Window
import GridVerif.Props.C06.Clauses

#print axioms GridVerif.C06.switch_maps_unit
#print axioms GridVerif.C06.switch_lt_one
#print axioms GridVerif.C06.cutoff_lt_half
#print axioms GridVerif.C06.alpha_antisymm_clipped
#print axioms GridVerif.C06.nu_in_unit
#print axioms GridVerif.C06.mu_bounds
#print axioms GridVerif.C06.s_pair
#print axioms GridVerif.C06.cell_sum_pos
#print axioms GridVerif.C06.weights_in_unit
#print axioms GridVerif.C06.weights_sum_one
#print axioms GridVerif.C06.weight_at_nuclei
#print axioms GridVerif.C06.rigid_motion_invariant
#print axioms GridVerif.C06.isometry_invariant
#print axioms GridVerif.C06.relabel_equivariant
#print axioms GridVerif.C06.routes_formula_agree
#print axioms GridVerif.C06.routes_agree
#print axioms GridVerif.C06.per_atom_route
#print axioms GridVerif.C06.routes_differ_explicit_select
#print axioms GridVerif.C06.becke_chunked_eq
#print axioms GridVerif.C06.call_eq_generate
#print axioms GridVerif.C06.chunk_size_spec
#print axioms GridVerif.C06.segmentwise_owner
#print axioms GridVerif.C06.becke_call_partition
#print axioms GridVerif.C06.hirshfeld_share
#print axioms GridVerif.C06.hirshfeld_sum_one
#print axioms GridVerif.C06.bragg_table_good
#print axioms GridVerif.C06.bragg_radii_positive
#print axioms GridVerif.C06.caw_cutoff_parameter_unused
#print axioms GridVerif.C06.routes_pass_order
#print axioms GridVerif.C06.radius_generated
#print axioms GridVerif.C06.generate_weights_generated
#print axioms GridVerif.C06.generate_weights_key_error
#print axioms GridVerif.C06.compute_atom_weight_generated
#print axioms GridVerif.C06.compute_weights_generated
#print axioms GridVerif.C06.routes_agree_generated
#print axioms GridVerif.C06.per_atom_route_generated
#print axioms GridVerif.C06.generate_select_formula
#print axioms GridVerif.C06.compute_select_formula
#print axioms GridVerif.C06.compute_select_perm
#print axioms GridVerif.C06.generate_select_owner
#print axioms GridVerif.C06.compute_select_owner
#print axioms GridVerif.C06.init_generated
#print axioms GridVerif.C06.cov_radii_table
#print axioms GridVerif.C06.init_default_dict
#print axioms GridVerif.C06.init_update_lookup
#print axioms GridVerif.C06.call_generated
#print axioms GridVerif.C06.becke_call_partition_generated
#print axioms GridVerif.C06.proatom_files
#print axioms GridVerif.C06.hirshfeld_generated
#print axioms GridVerif.C06.hirshfeld_share_generated
#print axioms GridVerif.C06.hirshfeld_sum_one_generated
#print axioms GridVerif.C06.hirshfeld_needs_files
#print axioms GridVerif.C06.get_cov_radii_generated
#print axioms GridVerif.C06.get_cov_radii_bragg_eq
#print axioms GridVerif.C06.cov_bragg_table_eq
#print axioms GridVerif.C06.init_reads_generated_table
#print axioms GridVerif.C06.cov_tables_shape
#print axioms GridVerif.C06.cov_radii_positive_other
#print axioms GridVerif.C06.alpha_raw_closed_form
#print axioms GridVerif.C06.alpha_clip_window
#print axioms GridVerif.C06.compute_atom_weight_pointwise
#print axioms GridVerif.C06.compute_atom_weight_origin
#print axioms GridVerif.C06.compute_atom_weight_split
#print axioms GridVerif.C06.compute_weights_after_empty_segment

import GridVerif.Props.C11

#print axioms GridVerif.C11.ilc_in_box
#print axioms GridVerif.C11.periodic_complete
#print axioms GridVerif.C11.periodic_sound
#print axioms GridVerif.C11.periodic_nodup
#print axioms GridVerif.C11.construct_inv
#print axioms GridVerif.C11.oned_dual
#print axioms GridVerif.C11.wrap_spec
#print axioms GridVerif.C11.setPoints_inv
#print axioms GridVerif.C11.setWeights_inv
#print axioms GridVerif.C11.step_inv
#print axioms GridVerif.C11.pinv_history
#print axioms GridVerif.C11.getLocalgrid_spec
#print axioms GridVerif.C11.periodic_localgrid_correct
#print axioms GridVerif.C11.periodic_empty_sphere
#print axioms GridVerif.C11.periodic_query_rejects
#print axioms GridVerif.C11.no_lattice_is_grid
#print axioms GridVerif.C11.periodic_getitem_spec
#print axioms GridVerif.C11.recivec_norm_pos
#print axioms GridVerif.C11.exDual

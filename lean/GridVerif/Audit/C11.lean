import GridVerif.Props.C11
import GridVerif.Props.C11.Gen
import GridVerif.Props.C11.Warn
import GridVerif.Props.C11.Indep
import GridVerif.Props.C11.Handed

#print axioms GridVerif.C11.ilc_in_box
#print axioms GridVerif.C11.periodic_complete
#print axioms GridVerif.C11.periodic_sound
#print axioms GridVerif.C11.periodic_nodup
#print axioms GridVerif.C11.construct_inv
#print axioms GridVerif.C11.oned_dual
#print axioms GridVerif.C11.wrap_spec
#print axioms GridVerif.C11.setPoints_inv
#print axioms GridVerif.C11.setWeights_inv
#print axioms GridVerif.C11.step_inv
#print axioms GridVerif.C11.pinv_history
#print axioms GridVerif.C11.getLocalgrid_spec
#print axioms GridVerif.C11.periodic_localgrid_correct
#print axioms GridVerif.C11.periodic_empty_sphere
#print axioms GridVerif.C11.periodic_query_rejects
#print axioms GridVerif.C11.no_lattice_is_grid
#print axioms GridVerif.C11.periodic_getitem_spec
#print axioms GridVerif.C11.recivec_norm_pos
#print axioms GridVerif.C11.exDual
#print axioms GridVerif.C11.gen_psetter_effects
#print axioms GridVerif.C11.gen_ranges_eq
#print axioms GridVerif.C11.gen_init_eq
#print axioms GridVerif.C11.gen_ppoints_set_eq
#print axioms GridVerif.C11.gen_pweights_set_eq
#print axioms GridVerif.C11.gen_pgetitem_eq
#print axioms GridVerif.C11.pyFor_body_spec
#print axioms GridVerif.C11.gen_pquery_eq
#print axioms GridVerif.C11.genPStep_eq_step
#print axioms GridVerif.C11.genPRun_eq_run
#print axioms GridVerif.C11.gen_construct_inv
#print axioms GridVerif.C11.gen_wrap_spec
#print axioms GridVerif.C11.gen_setPoints_inv
#print axioms GridVerif.C11.gen_ilc_in_box
#print axioms GridVerif.C11.gen_getLocalgrid_spec
#print axioms GridVerif.C11.gen_periodic_localgrid_correct
#print axioms GridVerif.C11.gen_periodic_getitem_spec
#print axioms GridVerif.C11.gen_init_warning_site
#print axioms GridVerif.C11.gen_init_warning_total
#print axioms GridVerif.C11.gen_init_warning_eq
#print axioms GridVerif.C11.gen_init_warning_iff
#print axioms GridVerif.C11.construct_intervals_attained
#print axioms GridVerif.C11.gen_init_warning_spec
#print axioms GridVerif.C11.gen_wrap_never_warns
#print axioms GridVerif.C11.gen_nowarn_range_small
#print axioms GridVerif.C11.gen_pquery_closed
#print axioms GridVerif.C11.gen_localgrid_pairs_independent_of_weights
#print axioms GridVerif.C11.gen_init_recivecs_dual
#print axioms GridVerif.C11.exL_left_handed
#print axioms GridVerif.C11.exLDual
#print axioms GridVerif.C11.gen_init_left_handed

import GridVerif.Props.C13.Index
import GridVerif.Props.C13.Weights
import GridVerif.Props.C13.Helpers
import GridVerif.Props.C13.Interp
import GridVerif.Props.C13.InterpModel
import GridVerif.Props.C13.GenWeights
import GridVerif.Props.C13.GenHelpers
import GridVerif.Props.C13.Linear
import GridVerif.Props.C13.CubeUnits
import GridVerif.Props.C13.Fourier1
import GridVerif.Props.C13.GenInterp
import GridVerif.Props.C13.GenAxes
import GridVerif.Props.C13.GenCtor
import GridVerif.Props.C13.GenTensor
import GridVerif.Props.C13.VolumeDet
import GridVerif.Props.C13.VolumeDetWeights

#print axioms GridVerif.C13.coordinates_to_index_eq3
#print axioms GridVerif.C13.coordinates_to_index_eq2
#print axioms GridVerif.C13.index_roundtrip3
#print axioms GridVerif.C13.index_roundtrip2
#print axioms GridVerif.C13.coords_roundtrip3
#print axioms GridVerif.C13.coords_roundtrip2
#print axioms GridVerif.C13.index_negative_rejected
#print axioms GridVerif.C13.layout3
#print axioms GridVerif.C13.layout2
#print axioms GridVerif.C13.point_formula3
#print axioms GridVerif.C13.point_formula2
#print axioms GridVerif.C13.last_index_fastest3
#print axioms GridVerif.C13.last_index_fastest2
#print axioms GridVerif.C13.tensor_layout3
#print axioms GridVerif.C13.tensor_layout2
#print axioms GridVerif.C13.tensor_weight3
#print axioms GridVerif.C13.tensor_weight2
#print axioms GridVerif.C13.separable_integral3
#print axioms GridVerif.C13.separable_integral2
#print axioms GridVerif.C13.volume_eq3
#print axioms GridVerif.C13.volume_eq2
#print axioms GridVerif.C13.rectangle_sum
#print axioms GridVerif.C13.trapezoid_sum
#print axioms GridVerif.C13.alternative_sum
#print axioms GridVerif.C13.rectangle_bound
#print axioms GridVerif.C13.trapezoid_bound
#print axioms GridVerif.C13.alternative_bound
#print axioms GridVerif.C13.fourier2_raises_2d
#print axioms GridVerif.C13.fourier2_dir_sum_two
#print axioms GridVerif.C13.fourier2_sum_zero_at
#print axioms GridVerif.C13.fourier2_dir_sum_even
#print axioms GridVerif.C13.fourier2_sum_zero_even
#print axioms GridVerif.C13.fourier2_bound_fails_at
#print axioms GridVerif.C13.weight_schemes_full_false
#print axioms GridVerif.C13.from_molecule_margin_partial
#print axioms GridVerif.C13.from_molecule_spec
#print axioms GridVerif.C13.from_molecule_margin_centred
#print axioms GridVerif.C13.from_molecule_witness
#print axioms GridVerif.C13.from_molecule_margin_fails_at
#print axioms GridVerif.C13.from_molecule_margin_full_false
#print axioms GridVerif.C13.from_molecule_rotate_witness
#print axioms GridVerif.C13.from_molecule_rotate_fails_at
#print axioms GridVerif.C13.closest_point_spec3
#print axioms GridVerif.C13.closest_point_spec2
#print axioms GridVerif.C13.axis_nearest_clip
#print axioms GridVerif.C13.closest_point_full_holds
#print axioms GridVerif.C13.closest_point_origin_spec3
#print axioms GridVerif.C13.closest_point_repaired_at
#print axioms GridVerif.C13.nested_interp_exact
#print axioms GridVerif.C13.tensor_cubic_partial_derivs
#print axioms GridVerif.C13.log_chain_rule
#print axioms GridVerif.C13.interp_cubic_eq_nested
#print axioms GridVerif.C13.interp_cubic_exact
#print axioms GridVerif.C13.uniform_diag_is_tensor
#print axioms GridVerif.C13.gen_volume_eq3
#print axioms GridVerif.C13.gen_volume_eq2
#print axioms GridVerif.C13.gen_volume_of_model
#print axioms GridVerif.C13.gen_alt_volume_of_model
#print axioms GridVerif.C13.gen_rectangle
#print axioms GridVerif.C13.gen_trapezoid
#print axioms GridVerif.C13.gen_alternative
#print axioms GridVerif.C13.gen_fourier2_dir
#print axioms GridVerif.C13.gen_fourier2_3d
#print axioms GridVerif.C13.gen_fourier2_2d
#print axioms GridVerif.C13.gen_fourier1_step
#print axioms GridVerif.C13.gen_fourier1_3d
#print axioms GridVerif.C13.gen_fourier1_2d
#print axioms GridVerif.C13.gen_unknown_scheme
#print axioms GridVerif.C13.rectangle_sum_gen
#print axioms GridVerif.C13.trapezoid_sum_gen
#print axioms GridVerif.C13.alternative_sum_gen
#print axioms GridVerif.C13.scheme_bounds_gen
#print axioms GridVerif.C13.fourier2_sum_zero_even_gen
#print axioms GridVerif.C13.gen_closest_eval3
#print axioms GridVerif.C13.gen_closest_eval2
#print axioms GridVerif.C13.gen_closest_eq_model3
#print axioms GridVerif.C13.gen_closest_eq_model2
#print axioms GridVerif.C13.closest_point_spec3_gen
#print axioms GridVerif.C13.closest_point_spec2_gen
#print axioms GridVerif.C13.closest_point_origin_spec3_gen
#print axioms GridVerif.C13.closest_point_rejects_gen
#print axioms GridVerif.C13.gen_from_molecule_spec
#print axioms GridVerif.C13.gen_from_molecule_norotate
#print axioms GridVerif.C13.gen_from_molecule_rotate
#print axioms GridVerif.C13.from_molecule_margin_centred_gen
#print axioms GridVerif.C13.from_molecule_witness_gen
#print axioms GridVerif.C13.from_molecule_rotate_witness_gen
#print axioms GridVerif.C13.fourier1_sum
#print axioms GridVerif.C13.fourier1_bound_of_axis_bounds
#print axioms GridVerif.C13.fourier1_bound_of_axis_bounds_gen
#print axioms GridVerif.C13.exists_cell
#print axioms GridVerif.C13.multilinear_cell_exact
#print axioms GridVerif.C13.pointsAlongAxes_tensor
#print axioms GridVerif.C13.linear_reproduces_trilinear
#print axioms GridVerif.C13.from_cube_paths_agree
#print axioms GridVerif.C13.from_cube_angstrom_converted
#print axioms GridVerif.C13.from_cube_bohr_unconverted
#print axioms GridVerif.C13.from_cube_atoms_converted
#print axioms GridVerif.C13.from_cube_unit_flag
#print axioms GridVerif.C13.generate_cube_writes_stored_units
#print axioms GridVerif.C13.diag_splineCallM
#print axioms GridVerif.C13.interpCubic_closed
#print axioms GridVerif.C13.gen_zSpline
#print axioms GridVerif.C13.gen_ySplines
#print axioms GridVerif.C13.gen_xSpline
#print axioms GridVerif.C13.gen_interpolateStep_cubic
#print axioms GridVerif.C13.gen_interpolate_cubic_eq_model
#print axioms GridVerif.C13.gen_interpolate_defaults
#print axioms GridVerif.C13.interp_cubic_exact_gen
#print axioms GridVerif.C13.bell_sum_eq_complete1
#print axioms GridVerif.C13.bell_sum_eq_complete2
#print axioms GridVerif.C13.bell_sum_eq_complete3
#print axioms GridVerif.C13.bell_step
#print axioms GridVerif.C13.interpLog_closed
#print axioms GridVerif.C13.gen_interpolate_log_x
#print axioms GridVerif.C13.gen_interpolate_log_y
#print axioms GridVerif.C13.gen_interpolate_log_z
#print axioms GridVerif.C13.gen_interpolate_log_0
#print axioms GridVerif.C13.gen_interpolate_log_mixed
#print axioms GridVerif.C13.gen_interpolate_log_eq_model
#print axioms GridVerif.C13.pointsAlongAxes_closed
#print axioms GridVerif.C13.gen_getPointsAlongAxes_eq_model
#print axioms GridVerif.C13.gen_getPointsAlongAxes2
#print axioms GridVerif.C13.gen_interpolate_linear_eq_model
#print axioms GridVerif.C13.linear_reproduces_trilinear_gen
#print axioms GridVerif.C13.coords_rows3
#print axioms GridVerif.C13.coords_rows2
#print axioms GridVerif.C13.gen_points3
#print axioms GridVerif.C13.gen_points2
#print axioms GridVerif.C13.gen_hyperRectangleInit_spec
#print axioms GridVerif.C13.gen_uniformGridInit3
#print axioms GridVerif.C13.gen_uniformGridInit2
#print axioms GridVerif.C13.gen_weights_eq_model3
#print axioms GridVerif.C13.weights_length3
#print axioms GridVerif.C13.hyperRectangleInit_uniform3
#print axioms GridVerif.C13.uniformGrid_closed3
#print axioms GridVerif.C13.gen_uniformGridInit_eq_model3
#print axioms GridVerif.C13.gen_from_molecule_defaults
#print axioms GridVerif.C13.gen_tensor_points3
#print axioms GridVerif.C13.gen_tensor_points2
#print axioms GridVerif.C13.gen_tensor1DInit_eq_model
#print axioms GridVerif.C13.gen_tensorOrigin
#print axioms GridVerif.C13.gen_volume_is_det3
#print axioms GridVerif.C13.gen_volume_is_det2
#print axioms GridVerif.C13.gen_volume_skew_witness
#print axioms GridVerif.C13.weights_sum_det_gen3

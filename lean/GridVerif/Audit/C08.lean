import GridVerif.Props.C08
import GridVerif.Props.C08.Gen
import GridVerif.Props.C08.Scipy
import GridVerif.Props.C08.Windows
import GridVerif.Props.C08.Effects

#print axioms GridVerif.C08.row_index_bij
#print axioms GridVerif.C08.ylm_rows_spec
#print axioms GridVerif.C08.ylm_normalisation
#print axioms GridVerif.C08.ylm_low_degree
#print axioms GridVerif.C08.ylm_reparam
#print axioms GridVerif.C08.ylm_theta_periodic
#print axioms GridVerif.C08.ylm_phi_periodic
#print axioms GridVerif.C08.ylm_reparam_gt_pi
#print axioms GridVerif.C08.dtheta_spec
#print axioms GridVerif.C08.solid_spec
#print axioms GridVerif.C08.sph_roundtrip
#print axioms GridVerif.C08.sph_center_and_range
#print axioms GridVerif.C08.jacobian_spec
#print axioms GridVerif.C08.dphi_partial
#print axioms GridVerif.C08.dphi_unsigned_formula_fails_at
#print axioms GridVerif.C08.addition_theorem_partial
#print axioms GridVerif.C08.ylm_norm_eq_code
#print axioms GridVerif.C08.weights_sum
#print axioms GridVerif.C08.gen_ylm_eq_model
#print axioms GridVerif.C08.gen_ylm_rows_spec
#print axioms GridVerif.C08.gen_deriv_eq_model
#print axioms GridVerif.C08.gen_deriv_pieces
#print axioms GridVerif.C08.gen_solid_eq_model
#print axioms GridVerif.C08.gen_cart_to_sph_eq_model
#print axioms GridVerif.C08.gen_jacobian_eq_model
#print axioms GridVerif.C08.accumulator_is_extended_precision
#print axioms GridVerif.C08.gen_scipy_eq_model
#print axioms GridVerif.C08.gen_scipy_guards_and_shapes
#print axioms GridVerif.C08.scipy_agrees_with_recursion
#print axioms GridVerif.C08.scipy_angle_window
#print axioms GridVerif.C08.gen_threshold_windows
#print axioms GridVerif.C08.gen_effects_routines
#print axioms GridVerif.C08.gen_arguments_not_written
#print axioms GridVerif.C08.gen_points_axis_whole
#print axioms GridVerif.C08.gen_scipy_column_independent
#print axioms GridVerif.C08.gen_scipy_split_additive
#print axioms GridVerif.C08.gen_solid_rows_spec

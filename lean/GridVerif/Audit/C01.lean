import GridVerif.Props.C01.NewtonCotes
import GridVerif.Props.C01.Fejer
import GridVerif.Props.C01.Fejer2
import GridVerif.Props.C01.ClenshawCurtis
import GridVerif.Props.C01.Gauss
import GridVerif.Props.C01.GaussCheb2
import GridVerif.Props.C01.Subst
import GridVerif.Props.C01.Closed
import GridVerif.Props.C01.Strip
import GridVerif.Props.C01.Shape
import GridVerif.Props.C01.StripShape
import GridVerif.Props.C01.Ctor
import GridVerif.Props.C01.CtorSeries
import GridVerif.Props.C01.Init
import GridVerif.Props.C01.Clauses

#print axioms GridVerif.C01.trapezoid_exact
#print axioms GridVerif.C01.midpoint_exact
#print axioms GridVerif.C01.simpson_exact
#print axioms GridVerif.C01.fejer1_gen_facts
#print axioms GridVerif.C01.fejer1_exact_T
#print axioms GridVerif.C01.fejer1_exact
#print axioms GridVerif.C01.fejer2_weights_two
#print axioms GridVerif.C01.fejer2_fails_at_2
#print axioms GridVerif.C01.fejer2_series_U
#print axioms GridVerif.C01.fejer2_corrected_exact_U
#print axioms GridVerif.C01.fejer2_corrected_exact
#print axioms GridVerif.C01.fejer2_corrected_make
#print axioms GridVerif.C01.fejer2_gen_facts
#print axioms GridVerif.C01.fejer2_code_weights_defect
#print axioms GridVerif.C01.fejer2_code_U
#print axioms GridVerif.C01.fejer2_code_defect
#print axioms GridVerif.C01.fejer2_code_not_exact
#print axioms GridVerif.C01.fejer2_code_exact_below
#print axioms GridVerif.C01.cc_gen_facts
#print axioms GridVerif.C01.clenshawcurtis_exact_T
#print axioms GridVerif.C01.clenshawcurtis_exact
#print axioms GridVerif.C01.gauss_weight_division
#print axioms GridVerif.C01.quad_reverse_points_only
#print axioms GridVerif.C01.gausslegendre_exact
#print axioms GridVerif.C01.gausscheb2_exact
#print axioms GridVerif.C01.gausslaguerre_exact
#print axioms GridVerif.C01.gausscheb1_exact
#print axioms GridVerif.C01.integral_sqrt_mul_U
#print axioms GridVerif.C01.chebyu_gaussExact
#print axioms GridVerif.C01.gausscheb2_closed_exact
#print axioms GridVerif.C01.tanhsinh_weight_is_step_times_deriv
#print axioms GridVerif.C01.tanhsinh_strictMono
#print axioms GridVerif.C01.tanhsinh_shape
#print axioms GridVerif.C01.expsinh_weight_is_step_times_deriv
#print axioms GridVerif.C01.expsinh_strictMono
#print axioms GridVerif.C01.expsinh_shape
#print axioms GridVerif.C01.logexpsinh_weight_is_step_times_deriv
#print axioms GridVerif.C01.logexpsinh_strictMono
#print axioms GridVerif.C01.logexpsinh_shape
#print axioms GridVerif.C01.expexp_weight_is_step_times_deriv
#print axioms GridVerif.C01.expexp_strictMono
#print axioms GridVerif.C01.expexp_shape
#print axioms GridVerif.C01.singletanh_weight_is_step_times_deriv
#print axioms GridVerif.C01.singletanh_strictMono
#print axioms GridVerif.C01.singletanh_shape
#print axioms GridVerif.C01.singleexp_weight_is_step_times_deriv
#print axioms GridVerif.C01.singleexp_strictMono
#print axioms GridVerif.C01.singleexp_shape
#print axioms GridVerif.C01.singlearcsinhexp_weight_is_step_times_deriv
#print axioms GridVerif.C01.singlearcsinhexp_strictMono
#print axioms GridVerif.C01.singlearcsinhexp_shape
#print axioms GridVerif.C01.tanhsinh_in_domain
#print axioms GridVerif.C01.derg2_is_deriv_g2
#print axioms GridVerif.C01.derg3_is_deriv_g3
#print axioms GridVerif.C01.g2_endpoints
#print axioms GridVerif.C01.g3_endpoints
#print axioms GridVerif.C01.derg2_pos
#print axioms GridVerif.C01.derg3_pos
#print axioms GridVerif.C01.dergstrip_is_deriv_gstrip
#print axioms GridVerif.C01.gstrip_cn_pos
#print axioms GridVerif.C01.gstrip_endpoints
#print axioms GridVerif.C01.gstrip_strictMonoOn
#print axioms GridVerif.C01.dergstrip_end_is_limit
#print axioms GridVerif.C01.dergstrip_end_is_limit_left
#print axioms GridVerif.C01.gstrip_shape
#print axioms GridVerif.C01.dergstripMask_iff
#print axioms GridVerif.C01.dergstrip_eq_interior
#print axioms GridVerif.C01.dergstrip_is_deriv_outside_window
#print axioms GridVerif.C01.dergstrip_eq_end
#print axioms GridVerif.C01.trapezoidal_shape
#print axioms GridVerif.C01.simpson_shape
#print axioms GridVerif.C01.midpoint_shape
#print axioms GridVerif.C01.rectanglesine_shape
#print axioms GridVerif.C01.uniforminteger_shape
#print axioms GridVerif.C01.chebyshevlobatto_shape
#print axioms GridVerif.C01.clenshawcurtis_shape
#print axioms GridVerif.C01.fejerfirst_shape
#print axioms GridVerif.C01.fejersecond_shape
#print axioms GridVerif.C01.chebyshevlobatto_weights_formula
#print axioms GridVerif.C01.rectanglesine_weights_formula
#print axioms GridVerif.C01.trefethen_poly_shape
#print axioms GridVerif.C01.trefethen_poly_reject
#print axioms GridVerif.C01.trefethencc_shape
#print axioms GridVerif.C01.trefethen_strip_shape
#print axioms GridVerif.C01.trefethenstripcc_shape
#print axioms GridVerif.C01.trapezoidal_ctor_eq_make
#print axioms GridVerif.C01.simpson_ctor_eq_make
#print axioms GridVerif.C01.midpoint_ctor_eq_make
#print axioms GridVerif.C01.uniforminteger_ctor_eq_make
#print axioms GridVerif.C01.chebyshevlobatto_ctor_eq_make
#print axioms GridVerif.C01.rectanglesine_ctor_eq_make
#print axioms GridVerif.C01.tanhsinh_ctor_eq_make
#print axioms GridVerif.C01.expsinh_ctor_eq_make
#print axioms GridVerif.C01.logexpsinh_ctor_eq_make
#print axioms GridVerif.C01.expexp_ctor_eq_make
#print axioms GridVerif.C01.singletanh_ctor_eq_make
#print axioms GridVerif.C01.singleexp_ctor_eq_make
#print axioms GridVerif.C01.singlearcsinhexp_ctor_eq_make
#print axioms GridVerif.C01.gausslegendre_ctor_eq_make
#print axioms GridVerif.C01.gausschebyshev_ctor_eq_make
#print axioms GridVerif.C01.gausschebyshevtype2_ctor_eq_make
#print axioms GridVerif.C01.gausslaguerre_ctor_eq_make
#print axioms GridVerif.C01.trefethengeneral_ctor_eq_make
#print axioms GridVerif.C01.trefethenstripgeneral_ctor_eq_make
#print axioms GridVerif.C01.dergstripAt_eq
#print axioms GridVerif.C01.cc_gen_points_eq
#print axioms GridVerif.C01.cc_gen_weights_eq
#print axioms GridVerif.C01.clenshawcurtis_ctor_eq_make
#print axioms GridVerif.C01.fejer1_gen_points_eq
#print axioms GridVerif.C01.fejer1_gen_weights_eq
#print axioms GridVerif.C01.fejerfirst_ctor_eq_make
#print axioms GridVerif.C01.fejer2_gen_points_eq
#print axioms GridVerif.C01.fejer2_gen_weights_eq
#print axioms GridVerif.C01.fejersecond_ctor_eq_make
#print axioms GridVerif.C01.onedgrid_init_eq_model
#print axioms GridVerif.C01.oneDGrid_ok_iff
#print axioms GridVerif.C01.onedgrid_init_accepts_iff
#print axioms GridVerif.C01.onedgrid_init_rejects_below
#print axioms GridVerif.C01.onedgrid_init_rejects_above
#print axioms GridVerif.C01.onedgrid_init_no_domain
#print axioms GridVerif.C01.onedgrid_init_empty
#print axioms GridVerif.C01.onedgrid_init_descending
#print axioms GridVerif.C01.trapezoidal_ctor_accepts_iff
#print axioms GridVerif.C01.midpoint_ctor_accepts_iff
#print axioms GridVerif.C01.uniforminteger_ctor_accepts_iff
#print axioms GridVerif.C01.chebyshevlobatto_ctor_accepts_iff
#print axioms GridVerif.C01.rectanglesine_ctor_accepts_iff
#print axioms GridVerif.C01.clenshawcurtis_ctor_accepts_iff
#print axioms GridVerif.C01.fejerfirst_ctor_accepts_iff
#print axioms GridVerif.C01.fejersecond_ctor_accepts_iff
#print axioms GridVerif.C01.simpson_ctor_accepts_iff
#print axioms GridVerif.C01.tanhsinh_ctor_accepts_iff
#print axioms GridVerif.C01.expsinh_ctor_accepts_iff
#print axioms GridVerif.C01.logexpsinh_ctor_accepts_iff
#print axioms GridVerif.C01.expexp_ctor_accepts_iff
#print axioms GridVerif.C01.singletanh_ctor_accepts_iff
#print axioms GridVerif.C01.singleexp_ctor_accepts_iff
#print axioms GridVerif.C01.singlearcsinhexp_ctor_accepts_iff
#print axioms GridVerif.C01.trefethencc_ctor_eq_make
#print axioms GridVerif.C01.trefethenstripcc_ctor_eq_make
#print axioms GridVerif.C01.trefethengc2_ctor_eq_make
#print axioms GridVerif.C01.trefethenstripgc2_ctor_eq_make
#print axioms GridVerif.C01.gausslaguerre_gen_exact
#print axioms GridVerif.C01.init_ok_eq
#print axioms GridVerif.C01.trefethenstripgeneral_gen_clause
#print axioms GridVerif.C01.trefethengeneral_gen_clause

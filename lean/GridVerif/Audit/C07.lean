import GridVerif.Props.C07

#print axioms GridVerif.C07.molgrid_slices
#print axioms GridVerif.C07.weights_spec
#print axioms GridVerif.C07.aim_array_size
#print axioms GridVerif.C07.weights_broadcast
#print axioms GridVerif.C07.integral_decomposes
#print axioms GridVerif.C07.init_store_false
#print axioms GridVerif.C07.store_independent
#print axioms GridVerif.C07.getAtomicGrid_spec
#print axioms GridVerif.C07.getAtomicGrid_errors
#print axioms GridVerif.C07.getAtomicGrid_store_independent
#print axioms GridVerif.C07.getItem_spec
#print axioms GridVerif.C07.getItem_store_independent_partial
#print axioms GridVerif.C07.getItem_store_independent_fails_at
#print axioms GridVerif.C07.getItem_negative_index_fails_at
#print axioms GridVerif.C07.save_needs_store
#print axioms GridVerif.C07.fanout_spec
#print axioms GridVerif.C07.gen_selection_eq_model
#print axioms GridVerif.C07.call_sites_pinned
#print axioms GridVerif.C07.fromPreset_eq_hand_built
#print axioms GridVerif.C07.fromSize_eq_hand_built
#print axioms GridVerif.C07.prunedSectors_spec
#print axioms GridVerif.C07.radiusAtom_spec
#print axioms GridVerif.C07.fromPruned_eq_hand_built
#print axioms GridVerif.C07.defaultRgrid_spec
#print axioms GridVerif.C07.defaultRgrid_table_ok

import GridVerif.Props.C07
import GridVerif.Props.C07.Interp
import GridVerif.Props.C07.DefaultRgrid
import GridVerif.Props.C07.Defaults
import GridVerif.Props.C07.GenInit
import GridVerif.Props.C07.AimRoute

#print axioms GridVerif.C07.molgrid_shape
#print axioms GridVerif.C07.molgrid_slices
#print axioms GridVerif.C07.weights_spec
#print axioms GridVerif.C07.aim_array_size
#print axioms GridVerif.C07.weights_broadcast
#print axioms GridVerif.C07.integral_decomposes
#print axioms GridVerif.C07.init_store_false
#print axioms GridVerif.C07.store_independent
#print axioms GridVerif.C07.getAtomicGrid_spec
#print axioms GridVerif.C07.getAtomicGrid_errors
#print axioms GridVerif.C07.getAtomicGrid_store_independent
#print axioms GridVerif.C07.getItem_spec
#print axioms GridVerif.C07.getItem_store_independent_partial
#print axioms GridVerif.C07.getItem_store_independent_fails_at
#print axioms GridVerif.C07.getItem_negative_index_fails_at
#print axioms GridVerif.C07.save_needs_store
#print axioms GridVerif.C07.fanout_spec
#print axioms GridVerif.C07.gen_selection_eq_model
#print axioms GridVerif.C07.call_sites_pinned
#print axioms GridVerif.C07.fromPreset_eq_hand_built
#print axioms GridVerif.C07.fromSize_eq_hand_built
#print axioms GridVerif.C07.prunedSectors_spec
#print axioms GridVerif.C07.radiusAtom_spec
#print axioms GridVerif.C07.fromPruned_eq_hand_built
#print axioms GridVerif.C07.defaultRgrid_spec
#print axioms GridVerif.C07.defaultRgrid_table_ok
#print axioms GridVerif.C07.init_loop_step
#print axioms GridVerif.C07.init_loop_spec
#print axioms GridVerif.C07.gen_init_eq_model
#print axioms GridVerif.C07.gen_init_overwrites_zeros
#print axioms GridVerif.C07.gen_getAtomicGrid_eq_model
#print axioms GridVerif.C07.gen_getItem_eq_model
#print axioms GridVerif.C07.gen_interpolate_low_eq_model
#print axioms GridVerif.C07.interpolate_low_defaults
#print axioms GridVerif.C07.gen_interpolate_eq_model
#print axioms GridVerif.C07.interpolate_needs_store
#print axioms GridVerif.C07.interpolate_sum_over_atoms
#print axioms GridVerif.C07.sumInterp_same_shape
#print axioms GridVerif.C07.defaultRgridParams_npt
#print axioms GridVerif.C07.gen_defaultRgrid_eq_model
#print axioms GridVerif.C07.defaultRgrid_rows_ok
#print axioms GridVerif.C07.defaultRgrid_clause
#print axioms GridVerif.C07.generate_default_rgrid_spec
#print axioms GridVerif.C07.signature_defaults_pinned
#print axioms GridVerif.C07.fromPruned_default_sectors
#print axioms GridVerif.C07.save_site_pinned
#print axioms GridVerif.C07.gen_aim_eq_model
#print axioms GridVerif.C07.aim_passed_through_every_route
#print axioms GridVerif.C07.gen_init_weights_any_aim_array
#print axioms GridVerif.C07.gen_init_weights_any_aim_callable
#print axioms GridVerif.C07.gen_init_one_atom

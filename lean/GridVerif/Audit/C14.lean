import GridVerif.Props.C14
import GridVerif.Props.C14.Values
import GridVerif.Props.C14.Dipole

#print axioms GridVerif.C14.cartesian_orders_spec
#print axioms GridVerif.C14.pure_orders_spec
#print axioms GridVerif.C14.pure_radial_orders_spec
#print axioms GridVerif.C14.row_lookup_correct
#print axioms GridVerif.C14.moments_entry
#print axioms GridVerif.C14.moments_entry_points1d
#print axioms GridVerif.C14.moments_rejects
#print axioms GridVerif.C14.dipole_spec

import GridVerif.Props.C14
import GridVerif.Props.C14.Values
import GridVerif.Props.C14.Dipole
import GridVerif.Props.C14.Gen

#print axioms GridVerif.C14.cartesian_orders_spec
#print axioms GridVerif.C14.pure_orders_spec
#print axioms GridVerif.C14.pure_radial_orders_spec
#print axioms GridVerif.C14.row_lookup_correct
#print axioms GridVerif.C14.moments_entry
#print axioms GridVerif.C14.moments_entry_points1d
#print axioms GridVerif.C14.moments_rejects
#print axioms GridVerif.C14.dipole_spec
#print axioms GridVerif.C14.gen_horton_eq_model
#print axioms GridVerif.C14.gen_horton_unknown_type
#print axioms GridVerif.C14.gen_indices_eq_rowIndex
#print axioms GridVerif.C14.gen_moments_orders_spec
#print axioms GridVerif.C14.gen_moments_rejects
#print axioms GridVerif.C14.gen_moments_orders_radial_zero
#print axioms GridVerif.C14.gen_solid_degree
#print axioms GridVerif.C14.gen_row_lookup_correct

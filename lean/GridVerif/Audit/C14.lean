import GridVerif.Props.C14
import GridVerif.Props.C14.Values
import GridVerif.Props.C14.Dipole
import GridVerif.Props.C14.Gen
import GridVerif.Props.C14.GenNum
import GridVerif.Props.C14.GenDipole
import GridVerif.Props.C14.GenAdditive

#print axioms GridVerif.C14.cartesian_orders_spec
#print axioms GridVerif.C14.pure_orders_spec
#print axioms GridVerif.C14.pure_radial_orders_spec
#print axioms GridVerif.C14.row_lookup_correct
#print axioms GridVerif.C14.moments_entry
#print axioms GridVerif.C14.moments_entry_points1d
#print axioms GridVerif.C14.moments_rejects
#print axioms GridVerif.C14.dipole_spec
#print axioms GridVerif.C14.gen_horton_eq_model
#print axioms GridVerif.C14.gen_horton_unknown_type
#print axioms GridVerif.C14.gen_indices_eq_rowIndex
#print axioms GridVerif.C14.gen_moments_orders_spec
#print axioms GridVerif.C14.gen_moments_rejects
#print axioms GridVerif.C14.gen_moments_orders_radial_zero
#print axioms GridVerif.C14.gen_solid_degree
#print axioms GridVerif.C14.gen_row_lookup_correct
#print axioms GridVerif.C14.gen_centre_eq_model
#print axioms GridVerif.C14.gen_moments_entry
#print axioms GridVerif.C14.gen_masses_keys
#print axioms GridVerif.C14.gen_masses_entries
#print axioms GridVerif.C14.gen_masses_sane
#print axioms GridVerif.C14.gen_masses_distinct
#print axioms GridVerif.C14.gen_masses_increasing
#print axioms GridVerif.C14.gen_mass_keyerror
#print axioms GridVerif.C14.gen_mass_last
#print axioms GridVerif.C14.massR_lookup
#print axioms GridVerif.C14.gen_dipole_eq_model
#print axioms GridVerif.C14.gen_dipole_spec
#print axioms GridVerif.C14.gen_integrate_spec
#print axioms GridVerif.C14.gen_moments_defaults
#print axioms GridVerif.C14.gen_multidomain_not_implemented
#print axioms GridVerif.C14.gen_moments_additive
#print axioms GridVerif.C14.gen_integrate_additive
#print axioms GridVerif.C14.gen_returns_fresh

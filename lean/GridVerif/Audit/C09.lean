import GridVerif.Props.C09
import GridVerif.Props.C09.Example
import GridVerif.Props.C09.Gen
import GridVerif.Props.C09.Gen2
import GridVerif.Props.C09.Mol

#print axioms GridVerif.C09.reweighted_sum_is_integral
#print axioms GridVerif.C09.angular_integral_exact
#print axioms GridVerif.C09.components_recovered
#print axioms GridVerif.C09.interpolant_is_sum
#print axioms GridVerif.C09.splines_through_components
#print axioms GridVerif.C09.interpolant_reproduces_grid_values
#print axioms GridVerif.C09.interpolant_at_centre_shell
#print axioms GridVerif.C09.derivs_consistent_radial
#print axioms GridVerif.C09.derivs_consistent_spherical
#print axioms GridVerif.C09.jacobian_inverse_transpose
#print axioms GridVerif.C09.derivs_consistent_cartesian_partial
#print axioms GridVerif.C09.cart_deriv_fails_on_pos_z_axis
#print axioms GridVerif.C09.cart_deriv_fails_at_centre
#print axioms GridVerif.C09.higher_deriv_rejected
#print axioms GridVerif.C09.average_integrates_back
#print axioms GridVerif.C09.mol_interp_is_sum
#print axioms GridVerif.C09.spline_contract_satisfiable
#print axioms GridVerif.C09.ex_H1
#print axioms GridVerif.C09.gen_integrate_eq_model
#print axioms GridVerif.C09.gen_components_eq_model
#print axioms GridVerif.C09.gen_splines_eq_model
#print axioms GridVerif.C09.gen_degrees_agree
#print axioms GridVerif.C09.gen_reweighted_sum_is_integral
#print axioms GridVerif.C09.gen_angular_integral_exact
#print axioms GridVerif.C09.gen_components_recovered
#print axioms GridVerif.C09.gen_cartToSph_eq_model
#print axioms GridVerif.C09.gen_convDeriv_eq_model
#print axioms GridVerif.C09.gen_convert_points
#print axioms GridVerif.C09.gen_convert_points_flat
#print axioms GridVerif.C09.gen_convert_rejects
#print axioms GridVerif.C09.gen_convert_atomic
#print axioms GridVerif.C09.gen_basis_angles_eq_model
#print axioms GridVerif.C09.gen_interpolate_low_eq_model
#print axioms GridVerif.C09.gen_mol_low_eq_model
#print axioms GridVerif.C09.gen_mol_low_empty
#print axioms GridVerif.C09.gen_defaults
#print axioms GridVerif.C09.gen_default_call_is_value
#print axioms GridVerif.C09.gen_mol_interp_is_sum
#print axioms GridVerif.C09.gen_integrate_window
#print axioms GridVerif.C09.gen_convert_atomic_window
#print axioms GridVerif.C09.gen_mol_interpolate_eq_model
#print axioms GridVerif.C09.gen_mol_one_atom
#print axioms GridVerif.C09.gen_mol_is_sum_of_atomic

import GridVerif.Props.C19
import GridVerif.Props.C19.State
import GridVerif.Props.C19.BReject
import GridVerif.Props.C19.T1D
import GridVerif.Props.C19.Handout

#print axioms GridVerif.C19.safe_init
#print axioms GridVerif.C19.step_safe
#print axioms GridVerif.C19.cache_safe
#print axioms GridVerif.C19.discipline_all_fresh
#print axioms GridVerif.C19.angular_grids_always_shipped
#print axioms GridVerif.C19.cache_corruptible
#print axioms GridVerif.C19.b_set_once
#print axioms GridVerif.C19.b_results_order_independent
#print axioms GridVerif.C19.b_first_call_fixes
#print axioms GridVerif.C19.b_only_set_by_setter_and_loader_fresh
#print axioms GridVerif.C19.module_objects_disciplined
#print axioms GridVerif.C19.registered_caches_present
#print axioms GridVerif.C19.module_object_names_unique
#print axioms GridVerif.C19.no_other_process_state
#print axioms GridVerif.C19.cache_protocol_as_modelled
#print axioms GridVerif.C19.mutable_defaults_never_written
#print axioms GridVerif.C19.gstep_frame
#print axioms GridVerif.C19.grun_frame
#print axioms GridVerif.C19.module_tables_never_change
#print axioms GridVerif.C19.late_attrs_registered
#print axioms GridVerif.C19.memos_registered
#print axioms GridVerif.C19.kdtree_cfg_safe
#print axioms GridVerif.C19.mstep_inv
#print axioms GridVerif.C19.memo_queries_current
#print axioms GridVerif.C19.kdtree_always_current
#print axioms GridVerif.C19.memo_stale_without_reset
#print axioms GridVerif.C19.basis_cfg_as_is
#print axioms GridVerif.C19.basis_memo_corruptible_at
#print axioms GridVerif.C19.basis_current_without_edits
#print axioms GridVerif.C19.memo_stale_after_inplace_edit_at
#print axioms GridVerif.C19.setMaxBChecked_state
#print axioms GridVerif.C19.b_fixed_never_rejects
#print axioms GridVerif.C19.b_first_call_rejects_iff
#print axioms GridVerif.C19.b_rejected_call_leaves_no_trace
#print axioms GridVerif.C19.b_history_ignores_rejected_calls
#print axioms GridVerif.C19.b_history_after_rejection_at
#print axioms GridVerif.C19.b_partial_no_rejection
#print axioms GridVerif.C19.t1d_guards_precede_state
#print axioms GridVerif.C19.t1d_accepted_is_method_call
#print axioms GridVerif.C19.t1d_rejected_leaves_no_trace
#print axioms GridVerif.C19.t1d_guard_after_state_fails_at
#print axioms GridVerif.C19.b_history_any_entry_point
#print axioms GridVerif.C19.shell_grid_arrays_fresh
#print axioms GridVerif.C19.shell_grid_edit_leaves_parent
#print axioms GridVerif.C19.shell_view_edit_changes_parent_at
#print axioms GridVerif.C19.request_resolved_on_every_path
#print axioms GridVerif.C19.size_request_independent_of_cache
#print axioms GridVerif.C19.degree_request_independent_of_cache
#print axioms GridVerif.C19.resolve_skipped_on_hit_fails_at

import GridVerif.Props.C19

#print axioms GridVerif.C19.safe_init
#print axioms GridVerif.C19.step_safe
#print axioms GridVerif.C19.cache_safe
#print axioms GridVerif.C19.discipline_all_fresh
#print axioms GridVerif.C19.angular_grids_always_shipped
#print axioms GridVerif.C19.cache_corruptible
#print axioms GridVerif.C19.b_set_once
#print axioms GridVerif.C19.b_results_order_independent
#print axioms GridVerif.C19.b_first_call_fixes
#print axioms GridVerif.C19.b_only_set_by_setter_and_loader_fresh

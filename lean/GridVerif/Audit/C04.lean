import GridVerif.Props.C04.General
import GridVerif.Props.C04.Concrete

#print axioms GridVerif.C04.integrate_transformed_signed
#print axioms GridVerif.C04.integrate_transformed_partial
#print axioms GridVerif.C04.integrate_transformed_decreasing
#print axioms GridVerif.C04.reflection_midpoint1
#print axioms GridVerif.C04.integrate_transformed_fails_at
#print axioms GridVerif.C04.weights_nonneg_partial
#print axioms GridVerif.C04.weights_nonneg_fails_at
#print axioms GridVerif.C04.weights_neg_of_decreasing
#print axioms GridVerif.C04.integral_pos_partial
#print axioms GridVerif.C04.integral_nonneg_partial
#print axioms GridVerif.C04.integral_pos_fails_at
#print axioms GridVerif.C04.domain_guard
#print axioms GridVerif.C04.domain_ordered_image
#print axioms GridVerif.C04.nodes_in_domain
#print axioms GridVerif.C04.transform_accepts_of_monotone
#print axioms GridVerif.C04.multiexp_negative_weights
#print axioms GridVerif.C04.multiexp_integral_neg
#print axioms GridVerif.C04.integrate_transformed_fails_at_multiexp
#print axioms GridVerif.C04.gl_linear_exact
#print axioms GridVerif.C04.linearFinite_accepts

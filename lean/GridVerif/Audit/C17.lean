import GridVerif.Props.C17

#print axioms GridVerif.C17.s_solves_poisson
#print axioms GridVerif.C17.s_far
#print axioms GridVerif.C17.s_total_charge
#print axioms GridVerif.C17.s_origin
#print axioms GridVerif.C17.s_switch_below_rounding
#print axioms GridVerif.C17.s_code_vs_closed_form
#print axioms GridVerif.C17.s_closed_form_is_coulomb_integral
#print axioms GridVerif.C17.s_origin_is_coulomb_integral
#print axioms GridVerif.C17.s_unnormalised_factor
#print axioms GridVerif.C17.s_unnormalised_solves_poisson
#print axioms GridVerif.C17.p_correct
#print axioms GridVerif.C17.p_correct_far
#print axioms GridVerif.C17.p_correct_origin
#print axioms GridVerif.C17.p_correct_is_coulomb_integral
#print axioms GridVerif.C17.p_code_ne_correct
#print axioms GridVerif.C17.p_code_fails_poisson
#print axioms GridVerif.C17.p_code_minus_correct
#print axioms GridVerif.C17.p_code_consistent
#print axioms GridVerif.C17.p_unnormalised_factor
#print axioms GridVerif.C17.multi_centre_is_sum
#print axioms GridVerif.C17.table_ok
#print axioms GridVerif.C17.alphas_positive
#print axioms GridVerif.C17.load_every_element
#print axioms GridVerif.C17.load_normalises
#print axioms GridVerif.C17.load_unknown_rejected

import GridVerif.Props.C18
import GridVerif.Props.C18.Gen
import GridVerif.Props.C18.CallTime

#print axioms GridVerif.C18.mem_product
#print axioms GridVerif.C18.product_order
#print axioms GridVerif.C18.constructor_spec
#print axioms GridVerif.C18.domains_spec
#print axioms GridVerif.C18.points_weights_enumerate
#print axioms GridVerif.C18.size_eq
#print axioms GridVerif.C18.integrate_nonvec_eq
#print axioms GridVerif.C18.integrate_chunk_independent
#print axioms GridVerif.C18.integrate_chunk_zero
#print axioms GridVerif.C18.integrate_vec_eq
#print axioms GridVerif.C18.vectorised_eq_pointwise
#print axioms GridVerif.C18.productSum_nested
#print axioms GridVerif.C18.separable
#print axioms GridVerif.C18.integrate_separable
#print axioms GridVerif.NGrid.chunk_fold
#print axioms GridVerif.NGrid.flatten_chunked
#print axioms GridVerif.C18.gen_chunked_eq_model
#print axioms GridVerif.C18.gen_init_eq_model
#print axioms GridVerif.C18.gen_size_eq_model
#print axioms GridVerif.C18.gen_weights_eq_model
#print axioms GridVerif.C18.gen_points_eq_model
#print axioms GridVerif.C18.gen_integrate_nonvec_eq_model
#print axioms GridVerif.C18.gen_integrate_vec_eq_model
#print axioms GridVerif.C18.gen_constructor_wf
#print axioms GridVerif.C18.gen_size_points_weights
#print axioms GridVerif.C18.gen_integrate_nonvec_eq
#print axioms GridVerif.C18.gen_integrate_chunk_independent
#print axioms GridVerif.C18.gen_integrate_vec_eq
#print axioms GridVerif.C18.gen_moments_not_implemented
#print axioms GridVerif.C18.gen_moments_defaults
#print axioms GridVerif.C18.gen_get_localgrid_not_implemented
#print axioms GridVerif.C18.gen_init_fields
#print axioms GridVerif.C18.gen_observations_of_current_components
#print axioms GridVerif.C18.gen_update_component
#print axioms GridVerif.C18.gen_integrate_pointwise_only
#print axioms GridVerif.C18.gen_integrate_one_domain

import GridVerif.Props.C08

#print axioms GridVerif.C08.row_index_bij
#print axioms GridVerif.C08.ylm_rows_spec
#print axioms GridVerif.C08.ylm_normalisation
#print axioms GridVerif.C08.ylm_low_degree
#print axioms GridVerif.C08.ylm_norm_eq_code
#print axioms GridVerif.C08.weights_sum

import GridVerif.Props.C08
import GridVerif.Props.C02.Exact

#print axioms GridVerif.C08.row_index_bij
#print axioms GridVerif.C08.ylm_rows_spec
#print axioms GridVerif.C08.ylm_normalisation
#print axioms GridVerif.C08.ylm_low_degree
#print axioms GridVerif.C08.ylm_norm_eq_code
#print axioms GridVerif.C08.weights_sum
#print axioms GridVerif.C02.allOkUnit_sound
#print axioms GridVerif.C02.allOk4pi_sound
#print axioms GridVerif.C02.quadQ_eq
#print axioms GridVerif.C02.poly_bound
#print axioms GridVerif.C02.carried_eq
#print axioms GridVerif.C02.lebedev_11_50_poly
#print axioms GridVerif.C02.lebedev_3_6_exact
#print axioms GridVerif.C02.lebedev_5_18_exact
#print axioms GridVerif.C02.lebedev_7_26_exact
#print axioms GridVerif.C02.lebedev_9_38_exact
#print axioms GridVerif.C02.lebedev_11_50_exact
#print axioms GridVerif.C02.spherical_1_2_exact
#print axioms GridVerif.C02.spherical_3_6_exact
#print axioms GridVerif.C02.spherical_5_12_exact
#print axioms GridVerif.C02.spherical_7_32_exact
#print axioms GridVerif.C02.spherical_9_48_exact
#print axioms GridVerif.C02.spherical_11_70_exact
#print axioms GridVerif.C02.maxdet_1_4_exact
#print axioms GridVerif.C02.maxdet_2_9_exact
#print axioms GridVerif.C02.maxdet_3_16_exact
#print axioms GridVerif.C02.maxdet_4_25_exact
#print axioms GridVerif.C02.maxdet_5_36_exact
#print axioms GridVerif.C02.maxdet_6_49_exact
#print axioms GridVerif.C02.maxdet_7_64_exact
#print axioms GridVerif.C02.maxdet_8_81_exact
#print axioms GridVerif.C02.maxdet_9_100_exact

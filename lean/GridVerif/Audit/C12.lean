import GridVerif.Props.C12

#print axioms GridVerif.C12.bisect_left_least_index
#print axioms GridVerif.C12.resolve_spec
#print axioms GridVerif.C12.resolve_reject
#print axioms GridVerif.C12.tables_ok
#print axioms GridVerif.C12.degree_request
#print axioms GridVerif.C12.size_request
#print axioms GridVerif.C12.request_above_max_rejected
#print axioms GridVerif.C12.convert_is_map

import GridVerif.Props.C12
import GridVerif.Props.C12.Listing
import GridVerif.Props.C12.Logic
import GridVerif.Props.C12.Full
import GridVerif.Props.C12.FullDemo
import GridVerif.Props.C12.Sectors

#print axioms GridVerif.C12.bisect_left_least_index
#print axioms GridVerif.C12.resolve_spec
#print axioms GridVerif.C12.resolve_reject
#print axioms GridVerif.C12.tables_ok
#print axioms GridVerif.C12.degree_request
#print axioms GridVerif.C12.size_request
#print axioms GridVerif.C12.request_above_max_rejected
#print axioms GridVerif.C12.convert_is_map
#print axioms GridVerif.C12.gen_body_eq_model
#print axioms GridVerif.C12.gen_eq_model
#print axioms GridVerif.C12.gen_malformed_rejected
#print axioms GridVerif.C12.gen_never_unmodelled
#print axioms GridVerif.C12.gen_dispatch_iff
#print axioms GridVerif.C12.gen_dispatch_unknown
#print axioms GridVerif.C12.listing_names
#print axioms GridVerif.C12.loader_ok
#print axioms GridVerif.C12.gen_loader_resolved
#print axioms GridVerif.C12.gen_degree_request
#print axioms GridVerif.C12.gen_size_request
#print axioms GridVerif.C12.gen_request_above_max_rejected
#print axioms GridVerif.C12.gen_convert_is_map
#print axioms GridVerif.C12.gen_convert_elementwise
#print axioms GridVerif.C12.gen_ok_in_table
#print axioms GridVerif.C12.gen_init_size_overrides_degree
#print axioms GridVerif.C12.gen_init_resolved
#print axioms GridVerif.C12.gen_init_degree_request
#print axioms GridVerif.C12.gen_init_size_request
#print axioms GridVerif.C12.gen_cache_key_sound
#print axioms GridVerif.C12.gen_warnings_body_eq
#print axioms GridVerif.C12.gen_warnings_of_ok
#print axioms GridVerif.C12.gen_loader_data
#print axioms GridVerif.C12.gen_loader_data_shape
#print axioms GridVerif.C12.gen_initFull_unfold
#print axioms GridVerif.C12.gen_init_full
#print axioms GridVerif.C12.gen_init_independent_of_cache
#print axioms GridVerif.C12.gen_init_full_reject
#print axioms GridVerif.C12.gen_init_full_unknown_method
#print axioms GridVerif.C12.demoLoad_ok
#print axioms GridVerif.C12.gen_find_degrees_unfold
#print axioms GridVerif.C12.gen_sector_per_shell
#print axioms GridVerif.C12.gen_pruned_shell_not_coarser
#print axioms GridVerif.C12.gen_find_degrees_append

/-
  Named primitives of the *generated* constructors of C01 (`Gen/OneDCtor.lean`, written by
  `harness/translate/onedctor.py` from `src/grid/onedgrid.py` and `OneDGrid.__init__` of
  `src/grid/basegrid.py`): what the Python / NumPy / SciPy names that occur in the constructor
  bodies denote at the level of lists.  Hand-written, trusted, exercised against the library by the
  correspondence of C01 (`C01.ctor`, `C01.init` driver ops).

  No Mathlib import.
-/
import GridVerif.Model.OneD

namespace GridVerif.OneD.Py
open GridVerif GridVerif.OneD

/-- A `domain` tuple `(lo, hi)` with a finite lower end; `hi = none` is `np.inf`.
(The 26 constructors declare `(-1, 1)` or `(0, np.inf)`.) -/
structure Domain (K : Type) where
  lo : K
  hi : Option K

/-- A constructed `OneDGrid` object: `points`, `weights`, `_domain` (`None` allowed). -/
structure PyGrid (K : Type) where
  points : List K
  weights : List K
  domain : Option (Domain K)

/-- The hand model's grid seen as the Python object. -/
def _root_.GridVerif.OneD.Grid1D.toPy {K : Type} (g : Grid1D K) : PyGrid K :=
  ⟨g.points, g.weights, some ⟨g.lo, g.hi⟩⟩

/-- The NumPy / SciPy routines the constructors call, by name: `np.polynomial.legendre.leggauss(n)`,
`np.polynomial.chebyshev.chebgauss(n)`, `scipy.special.roots_chebyu(n)`,
`scipy.special.roots_genlaguerre(n, alpha)` (each returns `(points, weights)`), and `np.isnan`. -/
structure Ext (K : Type) where
  leggauss : Nat → List K × List K
  chebgauss : Nat → List K × List K
  roots_chebyu : Nat → List K × List K
  roots_genlaguerre : Nat → K → List K × List K
  isnan : K → Bool

section
variable {K : Type}

/-- `warnings.warn(msg, stacklevel=s)`: no effect on the constructed object. -/
@[inline] def pyWarn {α : Type} (_stacklevel : Nat) (k : α) : α := k

/-- `array.ndim` of a 1-D array. -/
def ndim (_xs : List K) : Int := 1

/-- `len(domain)` of a 2-tuple. -/
def Domain.len (_d : Domain K) : Int := 2

/-- `issubclass(quadrature, OneDGrid)`: the argument is modelled as `some ctor` when it is a
`OneDGrid` subclass, `none` otherwise. -/
def isOneDGridClass {α : Type} (q : Option α) : Bool := q.isSome

/-- `quadrature(npoints)` for an argument that passed (or was never put to) the subclass test;
calling something that is not a class of grids is a `TypeError`. -/
def callClass (q : Option (Int → Except Err (PyGrid K))) (npoints : Int) : Except Err (PyGrid K) :=
  match q with
  | some f => f npoints
  | none => .error .typeError

/-- `Grid.__init__(points, weights)` as far as `OneDGrid` reaches it (1-D arrays):
`len(points) != len(weights)` raises `ValueError`; `_domain` is set by the caller. -/
def gridInit (points weights : List K) : Except Err (PyGrid K) :=
  if points.length ≠ weights.length then .error .valueError else .ok ⟨points, weights, none⟩

/-- `self._domain = domain` -/
def PyGrid.setDomain (g : PyGrid K) (d : Option (Domain K)) : PyGrid K := { g with domain := d }

variable [LT K] [DecidableLT K] [LE K] [DecidableLE K]

/-- `np.minimum(a, b)` of two scalars: `a` if `a < b` or `a` is NaN (`¬ a ≤ a`), else `b`. -/
def minimum (a b : K) : K := if a < b ∨ ¬ (a ≤ a) then a else b

/-- `np.maximum(a, b)`. -/
def maximum (a b : K) : K := if b < a ∨ ¬ (a ≤ a) then a else b

/-- `np.min(points)`: `ValueError` on a zero-size array, NaN propagates. -/
def npMin : List K → Except Err K
  | [] => .error .valueError
  | x :: xs => .ok (xs.foldl minimum x)

/-- `np.max(points)`. -/
def npMax : List K → Except Err K
  | [] => .error .valueError
  | x :: xs => .ok (xs.foldl maximum x)

/-! comparisons and sums with an upper end that may be `np.inf` (`none`) -/

/-- `hi + c` -/
def hiAdd [Add K] (h : Option K) (c : K) : Option K := h.map (· + c)
/-- `hi - c` -/
def hiSub [Sub K] (h : Option K) (c : K) : Option K := h.map (· - c)
/-- `hi < x` (never for `np.inf`) -/
def hiLt (h : Option K) (x : K) : Bool := match h with | none => false | some a => decide (a < x)
/-- `hi <= x` -/
def hiLe (h : Option K) (x : K) : Bool := match h with | none => false | some a => decide (a ≤ x)
/-- `hi > x` (always for `np.inf`) -/
def hiGt (h : Option K) (x : K) : Bool := match h with | none => true | some a => decide (x < a)
/-- `hi >= x` -/
def hiGe (h : Option K) (x : K) : Bool := match h with | none => true | some a => decide (x ≤ a)
/-- `x > hi` -/
def gtHi (x : K) (h : Option K) : Bool := hiLt h x
/-- `x >= hi` -/
def geHi (x : K) (h : Option K) : Bool := hiLe h x
/-- `x < hi` -/
def ltHi (x : K) (h : Option K) : Bool := hiGt h x
/-- `x <= hi` -/
def leHi (x : K) (h : Option K) : Bool := hiGe h x

end

end GridVerif.OneD.Py

/-
  C02 (proof tier for the small shipped tables): exact integer arithmetic on a shipped angular table.

  A table entry is an IEEE double, i.e. a dyadic rational; the translator `harness/translate/angular_data.py`
  writes every entry as an integer over a common power of two (`x = X / 2^kp`, `w = W / 2^kw`), so the
  quadrature sum of a monomial `x^a y^b z^c` is the integer `moment a b c` over `2^(kw + kp (a+b+c))`, with
  no rounding anywhere.  `okUnit` / `ok4pi` compare it with the mean of the monomial over the unit sphere,

      (1/4π) ∫ x^a y^b z^c dΩ = (a-1)!! (b-1)!! (c-1)!! / (a+b+c+1)!!   (all of a, b, c even; 0 otherwise),

  to a tolerance `1 / tolInv`; both are decidable statements about integers, evaluated by the kernel
  (`decide +kernel`) in the generated files `Gen/AngularData/*.lean`.  No Mathlib here.
-/
namespace GridVerif.SphereQuad

/-- double factorial, `dfact 0 = dfact 1 = 1` (so `(0 - 1)!! = (-1)!! = 1` with truncated subtraction). -/
def dfact : Nat → Nat
  | 0 => 1
  | 1 => 1
  | (n + 2) => (n + 2) * dfact n

/-- numerator of the sphere mean of `x^a y^b z^c`. -/
def meanNum (a b c : Nat) : Nat :=
  if a % 2 = 0 ∧ b % 2 = 0 ∧ c % 2 = 0 then dfact (a - 1) * dfact (b - 1) * dfact (c - 1) else 0

/-- denominator of the sphere mean of `x^a y^b z^c`. -/
def meanDen (a b c : Nat) : Nat := dfact (a + b + c + 1)

/-- A shipped table: `(W, X, Y, Z)` per node with `w = W / 2^kw`, `(x, y, z) = (X, Y, Z) / 2^kp`. -/
structure Table where
  kp : Nat
  kw : Nat
  pts : List (Int × Int × Int × Int)

/-- `2^(kw + kp (a+b+c)) * Σ_i w_i x_i^a y_i^b z_i^c`, an integer. -/
def moment (t : Table) (a b c : Nat) : Int :=
  t.pts.foldl (fun s p => s + p.1 * p.2.1 ^ a * p.2.2.1 ^ b * p.2.2.2 ^ c) 0

/-- the common scale of `moment`. -/
def scale (t : Table) (a b c : Nat) : Nat := 2 ^ (t.kw + t.kp * (a + b + c))

/-- normalised weights (they sum to one: Lebedev, spherical designs):
`|Σ w x^a y^b z^c - mean| ≤ 1 / tolInv`, cleared of denominators. -/
def okUnit (t : Table) (tolInv a b c : Nat) : Bool :=
  decide ((moment t a b c * (meanDen a b c : Int) - (meanNum a b c : Int) * (scale t a b c : Int)).natAbs * tolInv
    ≤ meanDen a b c * scale t a b c)

/-- `4π` to twenty digits: `fourPiNum / fourPiDen = 4 * 3.14159265358979323846`. -/
def fourPiNum : Nat := 4 * 314159265358979323846
def fourPiDen : Nat := 100000000000000000000

/-- weights that sum to `4π` (maxdet, Ahrens–Beylkin):
`|Σ w x^a y^b z^c - (fourPiNum / fourPiDen) mean| ≤ 1 / tolInv`, cleared of denominators. -/
def ok4pi (t : Table) (tolInv a b c : Nat) : Bool :=
  decide ((moment t a b c * ((meanDen a b c * fourPiDen : Nat) : Int)
      - ((meanNum a b c * fourPiNum : Nat) : Int) * (scale t a b c : Int)).natAbs * tolInv
    ≤ meanDen a b c * fourPiDen * scale t a b c)

/-- all exponent triples with `a + b + c ≤ L`. -/
def monos (L : Nat) : List (Nat × Nat × Nat) :=
  (List.range (L + 1)).flatMap fun a =>
    (List.range (L + 1 - a)).flatMap fun b => (List.range (L + 1 - a - b)).map fun c => (a, b, c)

def allOkUnit (t : Table) (L tolInv : Nat) : Bool := (monos L).all fun m => okUnit t tolInv m.1 m.2.1 m.2.2
def allOk4pi (t : Table) (L tolInv : Nat) : Bool := (monos L).all fun m => ok4pi t tolInv m.1 m.2.1 m.2.2

/-- every node on the unit sphere to `1 / tolInv`: `|x^2 + y^2 + z^2 - 1| ≤ 1 / tolInv`. -/
def onSphere (t : Table) (tolInv : Nat) : Bool :=
  t.pts.all fun p => decide ((p.2.1 ^ 2 + p.2.2.1 ^ 2 + p.2.2.2 ^ 2 - (2 : Int) ^ (2 * t.kp)).natAbs * tolInv ≤ 2 ^ (2 * t.kp))

/-! ### sliced evaluation (round 3)

The same integer test organised so that the kernel reaches larger tables: the moments of one node are produced by
iterated multiplication (`w x^a`, then `· y` per step of `b`, then `· z` per step of `c`: one multiplication per
monomial instead of `a + b + c`), the lists of all nodes are added entry by entry, and the test is split by the first
exponent `a` (`sliceOkUnit t L T a`, `sliceOk4pi t L T a`): the generated files state one kernel-decided theorem per
slice, so that the kernel's memory is released in between.  `Props/C02/Slice.lean` proves that the slices together
are `allOkUnit` / `allOk4pi`. -/

/-- `[s, s m, s m², …]`, `n` entries. -/
def geom (s m : Int) : Nat → List Int
  | 0 => []
  | n + 1 => s :: geom (s * m) m n

/-- `s y^b z^c` for `b = 0 … n-1`, `c = 0 … n-1-b`, in the order of `sliceMonos n`. -/
def goB (s y z : Int) : Nat → List Int
  | 0 => []
  | n + 1 => geom s z (n + 1) ++ goB (s * y) y z n

/-- the exponent pairs `(b, c)` with `b + c < n`, `b` outer. -/
def sliceMonos (n : Nat) : List (Nat × Nat) :=
  (List.range n).flatMap fun b => (List.range (n - b)).map fun c => (b, c)

/-- `w x^a y^b z^c` of one node for fixed `a` and all `(b, c)` of `sliceMonos n`. -/
def nodeSlice (p : Int × Int × Int × Int) (a n : Nat) : List Int := goB (p.1 * p.2.1 ^ a) p.2.2.1 p.2.2.2 n

/-- entrywise sum. -/
def addL (u v : List Int) : List Int := List.zipWith (· + ·) u v

/-- `moment t a b c` for all `(b, c)` of `sliceMonos n` (the start value is the slice of a zero node: a list of zeros). -/
def sliceMoments (t : Table) (a n : Nat) : List Int :=
  t.pts.foldl (fun acc p => addL acc (nodeSlice p a n)) (nodeSlice (0, 0, 0, 0) a n)

/-- `okUnit` with the moment handed in. -/
def okUnitM (t : Table) (tolInv a b c : Nat) (m : Int) : Bool :=
  decide ((m * (meanDen a b c : Int) - (meanNum a b c : Int) * (scale t a b c : Int)).natAbs * tolInv
    ≤ meanDen a b c * scale t a b c)

/-- `ok4pi` with the moment handed in. -/
def ok4piM (t : Table) (tolInv a b c : Nat) (m : Int) : Bool :=
  decide ((m * ((meanDen a b c * fourPiDen : Nat) : Int)
      - ((meanNum a b c * fourPiNum : Nat) : Int) * (scale t a b c : Int)).natAbs * tolInv
    ≤ meanDen a b c * fourPiDen * scale t a b c)

/-- all monomials `x^a y^b z^c`, `a` fixed, `a + b + c ≤ L`, weights normalised to one. -/
def sliceOkUnit (t : Table) (L tolInv a : Nat) : Bool :=
  ((sliceMoments t a (L + 1 - a)).zip (sliceMonos (L + 1 - a))).all fun q => okUnitM t tolInv a q.2.1 q.2.2 q.1

/-- all monomials `x^a y^b z^c`, `a` fixed, `a + b + c ≤ L`, weights summing to `4π`. -/
def sliceOk4pi (t : Table) (L tolInv a : Nat) : Bool :=
  ((sliceMoments t a (L + 1 - a)).zip (sliceMonos (L + 1 - a))).all fun q => ok4piM t tolInv a q.2.1 q.2.2 q.1

end GridVerif.SphereQuad

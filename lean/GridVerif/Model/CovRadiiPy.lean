/-
  C06 — the Python/NumPy primitives the *generated* translation of `grid.utils.get_cov_radii`
  (`Gen/CovRadii.lean`) is written in.  Hand-written, small, each with the Python expression it stands for; tied to
  the code by correspondence (the driver runs the generated function).  No Mathlib.

  Modelled domain of the `atnums` argument: a Python `int` / `np.integer` scalar, or a one-dimensional sequence of
  integers (list or integer ndarray).  (A `bool`, a float array or a tuple is turned by NumPy into a mask / rejected
  as an index: outside the model, recorded by the harness as information.)
-/
import GridVerif.Model.Becke

namespace GridVerif.CovRadiiPy
open GridVerif.Becke

/-- the `atnums` argument of `get_cov_radii`. -/
inductive CovArg where
  /-- `isinstance(atnums, (int, np.integer))` holds -/
  | int (n : Int)
  /-- a list / 1-D integer array -/
  | seq (l : List Int)
  deriving DecidableEq, Repr

/-- `isinstance(atnums, (int, np.integer))`. -/
def CovArg.isInteger : CovArg → Bool
  | .int _ => true
  | .seq _ => false

/-- `np.array([atnums])` of a scalar. -/
def CovArg.wrap : CovArg → CovArg
  | .int n => .seq [n]
  | .seq l => .seq l

/-- `np.array(atnums)` as the list of its entries (a scalar that was not wrapped is a 0-d array: one entry). -/
def CovArg.entries : CovArg → List Int
  | .int n => [n]
  | .seq l => l

/-- `table[atnums]`, NumPy integer (fancy) indexing of a one-dimensional table: a negative index counts from the
end, anything outside `-len ≤ i < len` raises `IndexError`. -/
def npFancyIndex {V : Type} (table : List V) (atnums : CovArg) : Except Err (List V) :=
  atnums.entries.mapM fun (i : Int) =>
    let j := if i < 0 then i + (table.length : Int) else i
    if j < 0 then .error .indexError else
    match table[j.toNat]? with
    | some v => .ok v
    | none => .error .indexError

end GridVerif.CovRadiiPy

/-
  C19 — alias machine for the angular-grid cache, the remembered scale `b` of the
  b-scaled radial transforms, and the lazily loaded Coulomb table.

  Cells are array objects with an abstract content (`Nat`).  `shipped k` is the content of the
  data file for key `k = (method, degree)`; a user can only edit cells it was handed.
  Which arrays `AngularGrid.__init__` hands out as copies is the `Discipline`
  (regenerated from the source: Gen/AngularCache.lean).  No Mathlib import.
-/
namespace GridVerif.Aliasing

abbrev Key := Nat × Nat          -- (method, degree)

/-- What `AngularGrid.__init__` passes to `Grid.__init__`: a new array or the loaded/cached one. -/
structure Discipline where
  /-- points handed out as a new array, in the branch that does not rescale the weights -/
  pointsFreshPlain : Bool
  /-- weights handed out as a new array, in that branch (maxdet, ahrens_beylkin) -/
  weightsFreshPlain : Bool
  /-- points handed out as a new array, in the branch that rescales the weights by 4π -/
  pointsFreshScaled : Bool
  /-- weights handed out as a new array in that branch (lebedev, spherical: `weights * 4π`) -/
  weightsFreshScaled : Bool
  deriving DecidableEq, Repr

def Discipline.allFresh (d : Discipline) : Bool :=
  d.pointsFreshPlain && d.weightsFreshPlain && d.pointsFreshScaled && d.weightsFreshScaled

structure State where
  heap : List Nat                      -- cell id ↦ content
  cache : List (Key × Nat × Nat)       -- key ↦ (points cell, weights cell)
  handles : List Nat                   -- cells the user holds
  deriving Repr

inductive Op where
  /-- `AngularGrid(degree, method=…, cache=useCache)`; `scaled` = method ∈ {lebedev, spherical} -/
  | construct (k : Key) (scaled : Bool) (useCache : Bool)
  /-- in-place edit of an array of a previously returned grid (`grid.points[:] = v`) -/
  | edit (cell : Nat) (v : Nat)
  deriving Repr

def init : State := ⟨[], [], []⟩

def lookup (c : List (Key × Nat × Nat)) (k : Key) : Option (Nat × Nat) :=
  (c.find? (fun e => e.1 == k)).map (·.2)

/-- Output of a step: the cells handed out and their content at hand-out time. -/
structure Out where
  pCell : Nat
  wCell : Nat
  pVal : Nat
  wVal : Nat
  deriving Repr, DecidableEq

def get (h : List Nat) (c : Nat) : Nat := h.getD c 0

/-- One API call.  `shippedP/shippedW` are the file contents. -/
def step (d : Discipline) (shippedP shippedW : Key → Nat) (s : State) : Op → State × Option Out
  | .construct k scaled useCache =>
    -- load or reuse
    let (s1, p0, w0) :=
      match lookup s.cache k with
      | some (p, w) => (s, p, w)
      | none =>
        let p := s.heap.length
        let w := s.heap.length + 1
        let h := s.heap ++ [shippedP k, shippedW k]
        (if useCache then { s with heap := h, cache := (k, p, w) :: s.cache } else { s with heap := h }, p, w)
    -- hand out
    let pf := if scaled then d.pointsFreshScaled else d.pointsFreshPlain
    let wf := if scaled then d.weightsFreshScaled else d.weightsFreshPlain
    let (s2, p) := if pf then ({ s1 with heap := s1.heap ++ [get s1.heap p0] }, s1.heap.length) else (s1, p0)
    let (s3, w) := if wf then ({ s2 with heap := s2.heap ++ [get s2.heap w0] }, s2.heap.length) else (s2, w0)
    ({ s3 with handles := p :: w :: s3.handles }, some ⟨p, w, get s3.heap p, get s3.heap w⟩)
  | .edit c v =>
    if s.handles.contains c then ({ s with heap := s.heap.set c v }, none) else (s, none)

def run (d : Discipline) (sp sw : Key → Nat) : State → List Op → State × List (Option Out)
  | s, [] => (s, [])
  | s, op :: ops =>
    let (s', o) := step d sp sw s op
    let (s'', os) := run d sp sw s' ops
    (s'', o :: os)

/-! ### remembered scale `b` -/

/-- State of a b-scaled transform: the scale, if already fixed. -/
abbrev BState (K : Type) := Option K

/-! ### module-level state, function caches, memo attributes (round 3)

The records below are what `harness/translate/angular_cache.py` extracts from the AST of every
module of `src/grid` (Gen/ModuleState.lean). -/

/-- A module-level binding whose value is not a literal constant. -/
structure ModObj where
  module : String
  name : String
  /-- how the value is built (`dict`, `call:np.array`, …) -/
  kind : String
  /-- `(function, shape)`: statements that change the object or rebind the global -/
  writers : List (String × String)
  /-- `(function, shape)`: places where the object itself (not an element) leaves the function -/
  escapes : List (String × String)
  /-- functions that read elements of the object -/
  elemReaders : List String
  deriving DecidableEq, Repr

def ModObj.qual (o : ModObj) : String := o.module ++ "." ++ o.name

/-- Nothing writes the object and the object itself is never handed on. -/
def ModObj.isConstant (o : ModObj) : Bool := o.writers.isEmpty && o.escapes.isEmpty

/-- An instance attribute filled lazily (`if self.x is None: self.x = …`). -/
structure Memo where
  module : String
  cls : String
  attr : String
  /-- accessors returning it: `(method, "itself" | "copy")` -/
  handedOut : List (String × String)
  filledIn : List String
  fillExpr : List String
  /-- `self.<name>` read by the fill expression (following local names) -/
  reads : List String
  deriving DecidableEq, Repr

/-- A method other than `__init__` that assigns instance attributes. -/
structure Setter where
  module : String
  cls : String
  method : String
  assigns : List String
  resets : List String
  /-- `Base.prop` for `Base.prop.fset(self, …)`, `super().m` -/
  delegates : List String
  deriving DecidableEq, Repr

def Setter.assignsAll (ss : List Setter) (s : Setter) : List String :=
  s.assigns ++ (ss.filter fun t => s.delegates.contains (t.cls ++ "." ++ t.method)).flatMap (·.assigns)

def Setter.resetsAll (ss : List Setter) (s : Setter) : List String :=
  s.resets ++ (ss.filter fun t => s.delegates.contains (t.cls ++ "." ++ t.method)).flatMap (·.resets)

/-- Every method that assigns `src` (itself or through the setter it delegates to) resets `memo`. -/
def resetOnSet (ss : List Setter) (src memo : String) : Bool :=
  ss.all fun s => !(s.assignsAll ss).contains src || (s.resetsAll ss).contains memo

/-- No accessor returns the memo object itself. -/
def handoutFresh (ms : List Memo) (cls attr : String) : Bool :=
  (ms.filter fun m => m.cls == cls && m.attr == attr).all fun m => m.handedOut.all fun h => h.2 != "itself"

/-! #### frame machine: what calls and caller edits can do to module-level objects -/

structure GState where
  content : String → Nat
  /-- objects (qualified names) the caller holds a reference to -/
  held : List String

inductive GOp where
  /-- a call of library function `f`; `nc` is whatever `f` would write -/
  | call (f : String) (nc : String → Nat)
  /-- the caller edits an object in place -/
  | edit (obj : String) (v : Nat)

def writes (objs : List ModObj) (f n : String) : Bool :=
  objs.any fun o => o.qual == n && o.writers.any (·.1 == f)

def leaks (objs : List ModObj) (f n : String) : Bool :=
  objs.any fun o => o.qual == n && o.escapes.any (·.1 == f)

def gstep (objs : List ModObj) (s : GState) : GOp → GState
  | .call f nc =>
    { content := fun n => if writes objs f n then nc n else s.content n,
      held := (objs.filter fun o => o.escapes.any (·.1 == f)).map ModObj.qual ++ s.held }
  | .edit n v =>
    if s.held.contains n then { s with content := fun m => if m == n then v else s.content m } else s

def grun (objs : List ModObj) (s : GState) (ops : List GOp) : GState := ops.foldl (gstep objs) s

/-! #### memo machine: a lazily filled attribute computed from a source attribute -/

structure MemoCfg where
  /-- every setter of the source resets the memo -/
  resetOnSet : Bool
  /-- no accessor hands the memo object itself to the caller -/
  handoutFresh : Bool
  deriving DecidableEq, Repr

structure MState where
  src : Nat
  memo : Option Nat
  /-- the caller holds the memo object itself -/
  held : Bool
  deriving DecidableEq, Repr

inductive MOp where
  /-- a method that uses the memo (fills it first when empty) and returns a result computed from it -/
  | query
  /-- the setter of the source -/
  | setSrc (v : Nat)
  /-- the accessor of the memo -/
  | handout
  /-- in-place edit of the object the accessor returned -/
  | editHeld (v : Nat)
  /-- in-place edit of the source array (no setter involved) -/
  | editSrcInPlace (v : Nat)
  deriving DecidableEq, Repr

/-- Operations available through the API of the class (in-place edits of the source array are not). -/
def MOp.viaApi : MOp → Bool
  | .editSrcInPlace _ => false
  | _ => true

def mstep (cfg : MemoCfg) (f : Nat → Nat) (s : MState) : MOp → MState × Option Nat
  | .query =>
    let m := match s.memo with
      | some m => m
      | none => f s.src
    ({ s with memo := some m }, some m)
  | .setSrc v => ({ s with src := v, memo := if cfg.resetOnSet then none else s.memo }, none)
  | .handout =>
    match s.memo with
    | some m => ({ s with held := s.held || !cfg.handoutFresh }, some m)
    | none => (s, none)
  | .editHeld v => (if s.held then { s with memo := s.memo.map fun _ => v } else s, none)
  | .editSrcInPlace v => ({ s with src := v }, none)

/-- Outputs of a history, each with the source content at that moment. -/
def mrun (cfg : MemoCfg) (f : Nat → Nat) : MState → List MOp → List (Option Nat × Nat)
  | _, [] => []
  | s, op :: ops =>
    let (s', o) := mstep cfg f s op
    (o, s'.src) :: mrun cfg f s' ops

def minit (v : Nat) : MState := ⟨v, none, false⟩

/-! #### statements that can raise relative to calls that can fix state (round 3, `transform_1d_grid`) -/

/-- A top-level statement: does it call a method of the object (which may fix a remembered
parameter), does it contain a `raise`, and a description (`call:transform`, `raise:ValueError`, …). -/
abbrev StmtTag := Bool × Bool × String

/-- No statement containing a `raise` comes at or after the first statement that calls a method of the object. -/
def guardsFirst : List StmtTag → Bool
  | [] => true
  | t :: rest => if t.1 then !t.2.1 && rest.all (fun u => !u.2.1) else guardsFirst rest

/-- `transform_1d_grid` as a step on the remembered scale: `setB` is the (checked) update every method of
the class performs first; `domainOk` says whether the grid passes the guards of `transform_1d_grid`.
With the guards first a refused grid never reaches `setB`; with a guard after the calls the scale is
fixed before the refusal.  Result: new state, and whether the call raised. -/
def t1dStep {K : Type} (guardFirst : Bool) (setB : Option K → K → Option K × Bool) (domainOk : Bool)
    (b : Option K) (mx : K) : Option K × Bool :=
  if guardFirst then (if domainOk then setB b mx else (b, true))
  else ((setB b mx).1, (setB b mx).2 || !domainOk)

/-! #### round 6: the degree / size request, and arrays handed out with a shell grid -/

/-- The key `AngularGrid.__init__` works with, as a function of the request: `clears` — a size request drops the degree
first; `uncond` — the table lookup `_get_degree_and_size` (here `table`) is executed on every path, otherwise only
when the (unresolved) degree is not a key of the cache. -/
def resolvedKey (uncond clears : Bool) (inCache : Option Nat → Bool) (table : Option Nat → Option Nat → Nat)
    (degree size : Option Nat) : Nat :=
  let d := if clears && size.isSome then none else degree
  if uncond || !inCache d then table d size else d.getD 0

/-- An array stored into a grid that is handed out: a new cell holding the parent's content (`fresh`), or the
parent's own cell (a view).  Result: heap, cell of the handed-out array. -/
def handOutArray (fresh : Bool) (h : List Nat) (parentCell : Nat) : List Nat × Nat :=
  if fresh then (h ++ [get h parentCell], h.length) else (h, parentCell)

end GridVerif.Aliasing

/-
  C19 — alias machine for the angular-grid cache, the remembered scale `b` of the
  b-scaled radial transforms, and the lazily loaded Coulomb table.

  Cells are array objects with an abstract content (`Nat`).  `shipped k` is the content of the
  data file for key `k = (method, degree)`; a user can only edit cells it was handed.
  Which arrays `AngularGrid.__init__` hands out as copies is the `Discipline`
  (regenerated from the source: Gen/AngularCache.lean).  No Mathlib import.
-/
namespace GridVerif.Aliasing

abbrev Key := Nat × Nat          -- (method, degree)

/-- What `AngularGrid.__init__` passes to `Grid.__init__`: a new array or the loaded/cached one. -/
structure Discipline where
  /-- points handed out as a new array, in the branch that does not rescale the weights -/
  pointsFreshPlain : Bool
  /-- weights handed out as a new array, in that branch (maxdet, ahrens_beylkin) -/
  weightsFreshPlain : Bool
  /-- points handed out as a new array, in the branch that rescales the weights by 4π -/
  pointsFreshScaled : Bool
  /-- weights handed out as a new array in that branch (lebedev, spherical: `weights * 4π`) -/
  weightsFreshScaled : Bool
  deriving DecidableEq, Repr

def Discipline.allFresh (d : Discipline) : Bool :=
  d.pointsFreshPlain && d.weightsFreshPlain && d.pointsFreshScaled && d.weightsFreshScaled

structure State where
  heap : List Nat                      -- cell id ↦ content
  cache : List (Key × Nat × Nat)       -- key ↦ (points cell, weights cell)
  handles : List Nat                   -- cells the user holds
  deriving Repr

inductive Op where
  /-- `AngularGrid(degree, method=…, cache=useCache)`; `scaled` = method ∈ {lebedev, spherical} -/
  | construct (k : Key) (scaled : Bool) (useCache : Bool)
  /-- in-place edit of an array of a previously returned grid (`grid.points[:] = v`) -/
  | edit (cell : Nat) (v : Nat)
  deriving Repr

def init : State := ⟨[], [], []⟩

def lookup (c : List (Key × Nat × Nat)) (k : Key) : Option (Nat × Nat) :=
  (c.find? (fun e => e.1 == k)).map (·.2)

/-- Output of a step: the cells handed out and their content at hand-out time. -/
structure Out where
  pCell : Nat
  wCell : Nat
  pVal : Nat
  wVal : Nat
  deriving Repr, DecidableEq

def get (h : List Nat) (c : Nat) : Nat := h.getD c 0

/-- One API call.  `shippedP/shippedW` are the file contents. -/
def step (d : Discipline) (shippedP shippedW : Key → Nat) (s : State) : Op → State × Option Out
  | .construct k scaled useCache =>
    -- load or reuse
    let (s1, p0, w0) :=
      match lookup s.cache k with
      | some (p, w) => (s, p, w)
      | none =>
        let p := s.heap.length
        let w := s.heap.length + 1
        let h := s.heap ++ [shippedP k, shippedW k]
        (if useCache then { s with heap := h, cache := (k, p, w) :: s.cache } else { s with heap := h }, p, w)
    -- hand out
    let pf := if scaled then d.pointsFreshScaled else d.pointsFreshPlain
    let wf := if scaled then d.weightsFreshScaled else d.weightsFreshPlain
    let (s2, p) := if pf then ({ s1 with heap := s1.heap ++ [get s1.heap p0] }, s1.heap.length) else (s1, p0)
    let (s3, w) := if wf then ({ s2 with heap := s2.heap ++ [get s2.heap w0] }, s2.heap.length) else (s2, w0)
    ({ s3 with handles := p :: w :: s3.handles }, some ⟨p, w, get s3.heap p, get s3.heap w⟩)
  | .edit c v =>
    if s.handles.contains c then ({ s with heap := s.heap.set c v }, none) else (s, none)

def run (d : Discipline) (sp sw : Key → Nat) : State → List Op → State × List (Option Out)
  | s, [] => (s, [])
  | s, op :: ops =>
    let (s', o) := step d sp sw s op
    let (s'', os) := run d sp sw s' ops
    (s'', o :: os)

/-! ### remembered scale `b` -/

/-- State of a b-scaled transform: the scale, if already fixed. -/
abbrev BState (K : Type) := Option K

end GridVerif.Aliasing

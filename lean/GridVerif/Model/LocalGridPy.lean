/-
  C10 / C11 — the vocabulary of the *generated* definitions `Gen/LocalGrid.lean`
  (translator: harness/translate/localgrid.py).

  Every Python / NumPy / SciPy expression form that the translator carries is mapped to one of
  the small list functions below (or to a function of `Model/LocalGrid.lean` /
  `Model/Periodic.lean`).  Arrays are row lists as in the hand model: a 1-D point array
  `points.ndim == 1` is a list of one-entry rows `[x]`, a 1-D lattice vector `np.array([a])` is
  `[[a]]`; this is why the 1-D spellings (`points * recivecs`, `recivecs * center`,
  `frac_shift * realvecs`) and the N-D spellings (`points @ recivecs.T`, `recivecs @ center`,
  `frac_shift @ realvecs`) of the source are carried to the *same* function.

  Named primitives with a contract (not implemented): `cKDTree` + `queryBallPoint`
  (= `ballQuery`: exactly the positions within the radius, ascending), `np.floor/ceil`
  (`FloorCeil`), `itertools.product` (`Periodic.product`), the SVD pseudo-inverse (a parameter).

  Hand-written; no Mathlib import (linked into the driver).
-/
import GridVerif.Model.Elem
import GridVerif.Model.LocalGrid
import GridVerif.Model.Periodic

namespace GridVerif.LocalGridPy
open GridVerif.LocalGrid GridVerif.Periodic

/-! ### the `radius` argument -/
section radius
variable {K : Type} [NatCast K] [LT K] [DecidableLT K]

/-- `radius < 0` (false for `inf` and NaN). -/
def pyLt0 : Radius K → Bool
  | .fin r => decide (r < ((0 : Nat) : K))
  | .inf => false
  | .nan => false

/-- `np.isfinite(radius)`.  (`-inf` travels as `.fin`: it is `< 0` and is rejected by the
`radius < 0` guard of both classes, with the same exception class.) -/
def pyIsFinite : Radius K → Bool
  | .fin _ => true
  | _ => false

/-- `radius == np.inf`. -/
def pyEqInf : Radius K → Bool
  | .inf => true
  | _ => false

/-- The float that enters NumPy / SciPy arithmetic.  `none`: `inf` or NaN reaches arithmetic —
outside the modelled fragment (the guards of the source exclude it). -/
def pyNum : Radius K → Option K
  | .fin r => some r
  | _ => none
end radius

/-! ### kd-tree, reshape, loops -/
section tree
variable {K : Type} [Add K] [Sub K] [Mul K] [NatCast K] [LE K] [DecidableLE K]

/-- `cKDTree(rows)`: the tree is a snapshot of the rows it was built from. -/
def cKDTree (rows : List (Point K)) : List (Point K) := rows

/-- The keyword arguments of `cKDTree(rows, …)` and `tree.query_ball_point(c, r, …)` that decide
*which* search SciPy performs, defaults filled in by the translator from the signatures of the
installed SciPy (numbers as exact fractions of the source literals). -/
structure TreeArgs where
  /-- `cKDTree(…, leafsize=)`: points per leaf (no influence on the answer of an exact search) -/
  leafsize : Nat
  /-- `cKDTree(…, boxsize=None)`: no periodic topology inside the tree -/
  boxsizeNone : Bool
  /-- `query_ball_point(…, p=)`: the Minkowski norm, `pNum / pDen` -/
  pNum : Nat
  pDen : Nat
  /-- `query_ball_point(…, eps=)`: `epsNum / epsDen`; non-zero = approximate search (branches
  are accepted or rejected by their bounding boxes within a factor `1 + eps`) -/
  epsNum : Nat
  epsDen : Nat
  deriving DecidableEq, Repr

/-- The arguments for which SciPy documents the ball query as *exactly* the points with
Euclidean distance `≤ r` in a non-periodic space — the contract `ballQuery` of the model
(`queryBallPoint`) is assumed for these and only for these. -/
def TreeArgs.exact (a : TreeArgs) : Prop :=
  1 ≤ a.leafsize ∧ a.boxsizeNone = true ∧ a.pDen ≠ 0 ∧ a.pNum = 2 * a.pDen ∧
    a.epsDen ≠ 0 ∧ a.epsNum = 0

instance (a : TreeArgs) : Decidable a.exact := by unfold TreeArgs.exact; infer_instance

/-- `tree.query_ball_point(c, r, p=2.0)` on the attribute `self._kdtree`; `none`: the attribute
is `None` (AttributeError in Python — outside the modelled fragment). -/
def queryBallPoint (tree : Option (List (Point K))) (c : Point K) (r : K) : Option (List Nat) :=
  tree.map fun t => ballQuery t c r

/-- `points.reshape(size, -1)` of an `(N,)` or `(N, M)` array with `size == N`: the rows
themselves; NumPy cannot infer `-1` for `size == 0` (ValueError, `none`). -/
def npReshapeRows (rows : List (Point K)) (size : Nat) : Option (List (Point K)) :=
  if size = 0 then none else some rows
/-- `np.flatnonzero(v <= r)`, `np.flatnonzero(v < r)`: the positions (ascending) of the entries
within / strictly within `r` — a direct scan of an array of distances. -/
def npFlatnonzeroLe (v : List K) (r : K) : List Nat :=
  (v.zipIdx.filter fun x => decide (x.1 ≤ r)).map (·.2)
def npFlatnonzeroLt [LT K] [DecidableLT K] (v : List K) (r : K) : List Nat :=
  (v.zipIdx.filter fun x => decide (x.1 < r)).map (·.2)
end tree

/-! ### a hit list filtered by the parent weights (not used by the pinned source; carried so that such a rewrite changes
the generated text instead of stopping the translator — round 6) -/
section weightfilter
variable {K : Type} [NatCast K] [LT K] [DecidableLT K]

/-- `indices[self._weights[indices] != 0]`: the hits whose parent weight is different from zero. -/
def npIdxNonzeroWeight (w : List K) (idx : List Nat) : List Nat :=
  idx.filter fun i => match w[i]? with
    | some x => decide (x < ((0 : Nat) : K)) || decide (((0 : Nat) : K) < x)
    | none => false
end weightfilter

/-! ### sequencing of expressions that may raise (the generated code binds their value with these) -/

/-- Value of an expression that may fail in one way (`none`): `onNone` is what the function
returns then (an exception, or `none` = outside the modelled fragment). -/
def pyOpt {α β : Type} (x : Option α) (onNone : β) (k : α → β) : β :=
  match x with
  | none => onNone
  | some a => k a

@[simp] theorem pyOpt_none {α β : Type} (b : β) (k : α → β) : pyOpt none b k = b := rfl
@[simp] theorem pyOpt_some {α β : Type} (a : α) (b : β) (k : α → β) : pyOpt (some a) b k = k a := rfl

/-- Value of an expression that may raise (`.error e`). -/
def pyExcept {α β : Type} (x : Except Err α) (onErr : Err → β) (k : α → β) : β :=
  match x with
  | .error e => onErr e
  | .ok a => k a

@[simp] theorem pyExcept_error {α β : Type} (e : Err) (f : Err → β) (k : α → β) :
    pyExcept (.error e) f k = f e := rfl
@[simp] theorem pyExcept_ok {α β : Type} (a : α) (f : Err → β) (k : α → β) :
    pyExcept (.ok a) f k = k a := rfl

/-- Value of an expression that may raise or leave the modelled fragment (`none`). -/
def pyOptExcept {α β : Type} (x : Option (Except Err α)) (unmodelled : β) (onErr : Err → β)
    (k : α → β) : β :=
  match x with
  | none => unmodelled
  | some (.error e) => onErr e
  | some (.ok a) => k a

@[simp] theorem pyOptExcept_none {α β : Type} (u : β) (f : Err → β) (k : α → β) :
    pyOptExcept none u f k = u := rfl
@[simp] theorem pyOptExcept_error {α β : Type} (e : Err) (u : β) (f : Err → β) (k : α → β) :
    pyOptExcept (some (.error e)) u f k = f e := rfl
@[simp] theorem pyOptExcept_ok {α β : Type} (a : α) (u : β) (f : Err → β) (k : α → β) :
    pyOptExcept (some (.ok a)) u f k = k a := rfl

/-- `for x in xs: acc = body(acc, x)`, where the body may raise (`.error`) or leave the modelled
fragment (`none`). -/
def pyFor {ι σ : Type} (body : σ → ι → Option (Except Err σ)) : List ι → σ → Option (Except Err σ)
  | [], acc => some (.ok acc)
  | x :: xs, acc =>
    match body acc x with
    | some (.ok acc') => pyFor body xs acc'
    | other => other

/-- `range(a, b)`. -/
def pyRange2 (a b : Int) : List Int :=
  (List.range (b - a).toNat).map fun (k : Nat) => a + (k : Int)

/-! ### elementwise NumPy arithmetic on per-lattice-vector arrays (`List K`) -/
section vec
variable {K : Type} [Add K] [Sub K] [Mul K] [Div K] [Neg K] [NatCast K] [IntCast K]

/-- `a - b`, `a + b` for two `(Nlv,)` arrays. -/
def npSub (a b : List K) : List K := List.zipWith (· - ·) a b
def npAdd (a b : List K) : List K := List.zipWith (· + ·) a b
/-- `r / v`, `r * v` for a scalar `r`. -/
def npSDiv (r : K) (v : List K) : List K := v.map fun x => r / x
def npSMul (r : K) (v : List K) : List K := v.map fun x => r * x
/-- `1 / v`. -/
def npRecip (v : List K) : List K := v.map fun x => ((1 : Nat) : K) / x
/-- `self._frac_intvls[:, 0]`, `self._frac_intvls[:, 1]`. -/
def npCol0 (iv : List (K × K)) : List K := iv.map (·.1)
def npCol1 (iv : List (K × K)) : List K := iv.map (·.2)
/-- `recivecs @ center` (N-D) and `recivecs * center` (1-D): `bₖ · c` per lattice vector. -/
def npMatVec (a : List (Point K)) (v : Point K) : List K := a.map fun b => dot b v
/-- `points @ recivecs.T` (N-D) and `points * recivecs` (1-D): the fractional coordinates,
one row per point. -/
def npMatMulT (p a : List (Point K)) : List (List K) := p.map fun x => a.map fun b => dot x b
/-- `np.zeros((n, 0))`. -/
def npZerosM (n : Nat) : List (List K) := List.replicate n []
/-- `np.zeros(realvecs.shape)`. -/
def npZerosLike (a : List (Point K)) : List (Point K) := a.map fun r => r.map fun _ => ((0 : Nat) : K)
/-- `1 / realvecs` (1-D lattice vector). -/
def npRecipLat (a : List (Point K)) : List (Point K) := a.map fun r => r.map fun x => ((1 : Nat) : K) / x
/-- `frac_shift @ realvecs` (N-D) and `frac_shift * realvecs` (1-D): one lattice translation per
point. -/
def npMatMul (d : Nat) (f : List (List K)) (a : List (Point K)) : List (Point K) :=
  f.map fun js => lincomb d js a
/-- `points + shift` for two arrays of the same shape. -/
def npAddRows (p q : List (Point K)) : List (Point K) := List.zipWith vadd p q
/-- `rows - delta`, `rows + delta` (a vector broadcast over the rows). -/
def npRowsSub (rows : List (Point K)) (d : Point K) : List (Point K) := rows.map fun x => vsub x d
def npRowsAdd (rows : List (Point K)) (d : Point K) : List (Point K) := rows.map fun x => vadd x d
/-- `-m`, `a + b` on `(N, Nlv)` arrays. -/
def npNegM (m : List (List K)) : List (List K) := m.map fun r => r.map fun x => -x
def npAddM (a b : List (List K)) : List (List K) := List.zipWith (List.zipWith (· + ·)) a b

variable [FloorCeil K]
/-- `np.ceil(v).astype(int)`, `np.floor(v).astype(int)`. -/
def npCeilInt (v : List K) : List Int := v.map FloorCeil.ceil
def npFloorInt (v : List K) : List Int := v.map FloorCeil.floor
/-- `np.floor(m)` on an `(N, Nlv)` array (a float array again). -/
def npFloorM (m : List (List K)) : List (List K) :=
  m.map fun r => r.map fun x => (((FloorCeil.floor x : Int)) : K)

variable [Elem K]
/-- `abs(recivecs)` for the 1-D lattice vector: the entries of the `(1,)` array. -/
def npAbsFlat (a : List (Point K)) : List K := a.flatten.map Elem.abs
/-- `np.linalg.norm(recivecs, axis=1)`. -/
def npNormRows (a : List (Point K)) : List K := a.map norm

/-- `np.cross(u, v)` for two 3-vectors. -/
def cross3 (u v : Point K) : Point K :=
  match u, v with
  | [u0, u1, u2], [v0, v1, v2] => [u1 * v2 - u2 * v1, u2 * v0 - u0 * v2, u0 * v1 - u1 * v0]
  | _, _ => []

/-- `crosses / volume` with `crosses = np.cross(realvecs[[1, 2, 0]], realvecs[[2, 0, 1]])` and
`volume = np.dot(realvecs[0], crosses[0])` (`absVol`: its absolute value) — reciprocal vectors of a 3 × 3 cell without an
SVD.  Not used by the pinned source; carried so that such a rewrite changes the generated text (round 6). -/
def npCrossReci (absVol : Bool) (a : List (Point K)) : List (Point K) :=
  match a with
  | [a0, a1, a2] =>
    let v0 := dot a0 (cross3 a1 a2)
    let v := if absVol then Elem.abs v0 else v0
    [cross3 a1 a2, cross3 a2 a0, cross3 a0 a1].map fun c => c.map fun x => x / v
  | _ => a
end vec

section minmax
variable {K : Type} [LT K] [DecidableLT K]

/-- `np.array([m.min(axis=0), m.max(axis=0)]).T` of an `(N, Nlv)` array, and
`np.array([[m.min(), m.max()]])` of the `(N,)` array of the 1-D case: `(min, max)` per column.
`none`: no rows (`min` of an empty array raises ValueError). -/
def npMinMaxCols : List (List K) → Option (List (K × K))
  | [] => none
  | r0 :: rest =>
    some (r0.zipIdx.map fun xk =>
      (minOf xk.1 (rest.filterMap fun r => r[xk.2]?), maxOf xk.1 (rest.filterMap fun r => r[xk.2]?)))
end minmax

/-! ### `__getitem__` -/

/-- `isinstance(index, (T₁, T₂, …))` for the index kinds of the model. -/
def pyIsInstance (index : Index) (types : List String) : Bool :=
  match index with
  | .int _ => types.contains "int"
  | .npInt _ => types.contains "np.integer"
  | _ => false

/-- `xs[index]` for an integer index (Python or NumPy): one element, IndexError out of range.
`none`: another index kind reaches the expression `np.array([xs[index]])` — outside the
modelled fragment. -/
def npGetScalar {α : Type} (xs : List α) (index : Index) : Option (Except Err α) :=
  match index with
  | .int i | .npInt i =>
    match normIndex i xs.length with
    | some k => match xs[k]? with
      | some x => some (.ok x)
      | none => some (.error .indexError)
    | none => some (.error .indexError)
  | _ => none

/-- `np.array(xs[index])` handed to a grid constructor as `points` / `weights`: slices, index
arrays and masks select a sub-array (CPython / NumPy semantics: `select`); an integer gives one
element, a 0-d array on which the constructor's `len()` raises TypeError. -/
def npGetArr {α : Type} (xs : List α) (index : Index) : Except Err (List α) :=
  match index with
  | .int i | .npInt i =>
    match normIndex i xs.length with
    | some _ => .error .typeError
    | none => .error .indexError
  | _ =>
    match select index xs.length with
    | .error e => .error e
    | .ok sel =>
      match gather xs sel with
      | some ys => .ok ys
      | none => .error .indexError

section ctor
variable {K : Type} [Sub K] [Add K] [Div K] [NatCast K] [LT K] [DecidableLT K]

/-- `self.__class__(points, weights)` in `Grid.__getitem__`: `Grid` accepts; the constructors of
the other classes that inherit the method do not take `(points, weights)` (TypeError).
(`OneDGrid` overrides `__getitem__`.) -/
def pySelfClass (self : State K) (p : List (Point K)) (w : List K) : Out K :=
  match self.cls with
  | .grid => .grid .grid p w none
  | _ => .error .typeError

/-- `OneDGrid(points, weights, domain)`: the constructor re-checks the domain. -/
def pyOneDGrid (p : List (Point K)) (w : List K) (domain : Option (K × K)) : Out K :=
  if onedDomainOk p domain then .grid .oned p w domain else .error .valueError
end ctor

end GridVerif.LocalGridPy

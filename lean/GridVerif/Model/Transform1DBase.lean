/-
  C04 — vocabulary shared by the generated text `Gen/Transform1D.lean` and the hand-written
  model `Model/Transform1D.lean` of `BaseTransform.transform_1d_grid`.

  * `Tf K`     : what `transform_1d_grid` uses of a transform object (`self`): its five methods,
                 its declared `domain` and the two ways its methods can raise;
  * `Grid1D K` : a `OneDGrid` (points, weights, optional domain);
  * `sort2`    : `np.sort` of a two-element array (NaN goes last, as NumPy does);
  * `npMin/npMax` : `np.min/np.max` of a non-empty array (a NaN propagates, as NumPy does).

  No Mathlib import (the driver links this file).
-/
import GridVerif.Model.Elem

namespace GridVerif.Transform1D

/-- The part of a transform object `transform_1d_grid` can see.
`domLo = none` stands for `-∞`, `domHi = none` for `+∞` (`self.domain`); at `K = Float` an
infinite end may equally be given as `some ±inf`, the comparisons of the guard agree.
`sizeRaises n`: the methods reject an array argument with `n` elements with `ValueError`
(only `HyperbolicRTransform` has such a guard, `b·(n-1) ≥ 1`).
`derivRaises x`: `deriv` raises `ZeroDivisionError` on an array containing `x`
(only `InverseRTransform`, when the wrapped first derivative vanishes). -/
structure Tf (K : Type) where
  transform : K → K
  inverse : K → K
  deriv : K → K
  deriv2 : K → K
  deriv3 : K → K
  domLo : Option K
  domHi : Option K
  sizeRaises : Nat → Bool := fun _ => false
  derivRaises : K → Bool := fun _ => false

/-- A `OneDGrid`: `points`, `weights`, `domain` (`None` or a pair). -/
structure Grid1D (K : Type) where
  pts : List K
  wts : List K
  domain : Option (K × K)

/-- The exceptions `transform_1d_grid` can end in. -/
inductive Err where
  | typeError
  | valueError
  | zeroDivisionError
  deriving DecidableEq, Repr

variable {K : Type}

/-! Comparisons of a grid-domain end `x` with an end of `self.domain`
(`…Lo`: `none = -∞`, `…Hi`: `none = +∞`; `x` is a number, so nothing is below `-∞` or above `+∞`). -/

def ltLo [LT K] (x : K) : Option K → Prop
  | some d => x < d
  | none => False
def leLo [LE K] (x : K) : Option K → Prop
  | some d => x ≤ d
  | none => False
def gtLo [LT K] (x : K) : Option K → Prop
  | some d => x > d
  | none => True
def geLo [LE K] (x : K) : Option K → Prop
  | some d => x ≥ d
  | none => True
def ltHi [LT K] (x : K) : Option K → Prop
  | some d => x < d
  | none => True
def leHi [LE K] (x : K) : Option K → Prop
  | some d => x ≤ d
  | none => True
def gtHi [LT K] (x : K) : Option K → Prop
  | some d => x > d
  | none => False
def geHi [LE K] (x : K) : Option K → Prop
  | some d => x ≥ d
  | none => False

instance [LT K] [DecidableLT K] (x : K) (d : Option K) : Decidable (ltLo x d) := by
  cases d <;> unfold ltLo <;> exact inferInstance
instance [LE K] [DecidableLE K] (x : K) (d : Option K) : Decidable (leLo x d) := by
  cases d <;> unfold leLo <;> exact inferInstance
instance [LT K] [DecidableLT K] (x : K) (d : Option K) : Decidable (gtLo x d) := by
  cases d <;> unfold gtLo <;> exact inferInstance
instance [LE K] [DecidableLE K] (x : K) (d : Option K) : Decidable (geLo x d) := by
  cases d <;> unfold geLo <;> exact inferInstance
instance [LT K] [DecidableLT K] (x : K) (d : Option K) : Decidable (ltHi x d) := by
  cases d <;> unfold ltHi <;> exact inferInstance
instance [LE K] [DecidableLE K] (x : K) (d : Option K) : Decidable (leHi x d) := by
  cases d <;> unfold leHi <;> exact inferInstance
instance [LT K] [DecidableLT K] (x : K) (d : Option K) : Decidable (gtHi x d) := by
  cases d <;> unfold gtHi <;> exact inferInstance
instance [LE K] [DecidableLE K] (x : K) (d : Option K) : Decidable (geHi x d) := by
  cases d <;> unfold geHi <;> exact inferInstance

/-- `np.sort` of the two-element array `[a, b]`. A NaN (`¬ a ≤ a`) is placed last. -/
def sort2 [LT K] [LE K] [DecidableLT K] [DecidableLE K] (a b : K) : K × K :=
  if b < a then (b, a) else if a ≤ a then (a, b) else (b, a)

/-- `np.minimum`-style step: a NaN on either side propagates. -/
def minStep [LT K] [LE K] [DecidableLT K] [DecidableLE K] (acc x : K) : K :=
  if acc ≤ acc then (if x ≤ x then (if x < acc then x else acc) else x) else acc

def maxStep [LT K] [LE K] [DecidableLT K] [DecidableLE K] (acc x : K) : K :=
  if acc ≤ acc then (if x ≤ x then (if acc < x then x else acc) else x) else acc

/-- `np.min` of an array; `none` for the empty array (NumPy raises `ValueError`). -/
def npMin [LT K] [LE K] [DecidableLT K] [DecidableLE K] : List K → Option K
  | [] => none
  | x :: xs => some (xs.foldl minStep x)

def npMax [LT K] [LE K] [DecidableLT K] [DecidableLE K] : List K → Option K
  | [] => none
  | x :: xs => some (xs.foldl maxStep x)

/-- Sum of a list, right-nested (`x₀ + (x₁ + (… + 0))`). -/
def sumK [Add K] [NatCast K] : List K → K
  | [] => ((0 : Nat) : K)
  | x :: xs => x + sumK xs

/-- `grid.integrate(f(points))`: `Σᵢ f(pᵢ)·wᵢ`. -/
def integrate [Add K] [Mul K] [NatCast K] (g : Grid1D K) (f : K → K) : K :=
  sumK (List.zipWith (fun p w => f p * w) g.pts g.wts)

end GridVerif.Transform1D

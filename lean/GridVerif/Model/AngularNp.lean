/-
  NumPy / module-state primitives that the *generated* full text of `AngularGrid.__init__`,
  the tail of `AngularGrid._load_precomputed_angular_grid` (everything after `np.load`) and the
  warning logs of `angular.py` (`Gen/AngularLogic.lean`, written by
  harness/translate/angular_logic.py) are expressed in.

  Hand-written and trusted: this file says what a loaded `.npz` (`data["points"]`,
  `data["weights"]`), `np.ones(n)`, `a * b` / `a / b` of one-dimensional arrays (NumPy
  broadcasting of a one-element array) and of an array with a scalar, `np.any(a < x)`,
  `x.copy()` (value-wise: the same array; aliasing is C19's subject), the module-level cache
  dictionaries (`k in d`, `d[k]`, `d[k] = v`), `Grid.__init__(points, weights)` (its length
  check) and `warnings.warn(message, category, stacklevel=n)` mean.

  Numeric code is generic in `K` (`Float` in the driver, any carrier in the theorems).
  No Mathlib import (the driver links this file).
-/
import GridVerif.Model.AngularPy
import GridVerif.Model.Elem

namespace GridVerif.AngularPy

/-- What `np.load` hands back for an angular data file: the arrays `points` (N × 3) and
`weights` (N, or a single broadcast weight). -/
structure Npz (K : Type) where
  points : List (List K)
  weights : List K

/-- One `warnings.warn(message, category, stacklevel=…)` call that was executed: `depth` is the
number of modelled calls between the function the user called and the function that warned
(`0`: the called function itself), so the frame the warning is attributed to is the user's own
exactly when `stacklevel = depth + 2`. -/
structure Warning where
  category : String
  message : String
  stacklevel : Nat
  depth : Nat
  deriving DecidableEq, Repr

/-- Warnings raised inside a callee, seen from the caller. -/
def warnInner (l : List Warning) : List Warning := l.map fun w => { w with depth := w.depth + 1 }

/-- Truth value of a scalar argument in `if degree and size:` (`None` and `0` are false). -/
def pyTruthy : Val → Py Bool
  | .none => pure false
  | .int i => pure (i != 0)
  | .other => throw .unmodelled

section arrays
variable {K : Type}

/-- `x.copy()`: an array with the same values. -/
def npCopy {α : Type} (a : List α) : List α := a

/-- `np.ones(n)`. -/
def npOnes [NatCast K] (n : Nat) : List K := List.replicate n ((1 : Nat) : K)

/-- Element-wise binary operation of two one-dimensional arrays with NumPy broadcasting: equal
lengths pair up, a one-element array is stretched, anything else is a `ValueError`. -/
def npBroadcast (op : K → K → K) (a b : List K) : Py (List K) :=
  if a.length = b.length then pure (List.zipWith op a b)
  else match a, b with
    | [x], _ => pure (b.map fun y => op x y)
    | _, [y] => pure (a.map fun x => op x y)
    | _, _ => throw .valueError

/-- `a * b` for one-dimensional arrays. -/
def npMul [Mul K] (a b : List K) : Py (List K) := npBroadcast (· * ·) a b
/-- `a / b` for one-dimensional arrays. -/
def npDiv [Div K] (a b : List K) : Py (List K) := npBroadcast (· / ·) a b
/-- `a * x` for an array and a scalar. -/
def npMulS [Mul K] (a : List K) (x : K) : List K := a.map (· * x)
/-- `a / x` for an array and a scalar. -/
def npDivS [Div K] (a : List K) (x : K) : List K := a.map (· / x)

/-- `a < x`, `a <= x`, `a > x`, `a >= x` for an array and a scalar: element-wise masks. -/
def npLtS [LT K] [DecidableLT K] (a : List K) (x : K) : List Bool := a.map fun t => decide (t < x)
def npLeS [LE K] [DecidableLE K] (a : List K) (x : K) : List Bool := a.map fun t => decide (t ≤ x)
def npGtS [LT K] [DecidableLT K] (a : List K) (x : K) : List Bool := a.map fun t => decide (x < t)
def npGeS [LE K] [DecidableLE K] (a : List K) (x : K) : List Bool := a.map fun t => decide (x ≤ t)

/-- `np.any(mask)`. -/
def npAny (m : List Bool) : Bool := m.any id

/-- `Grid.__init__(points, weights)`: stores the two arrays; `ValueError` when their lengths
differ (the `ndim` checks cannot fail for a list of rows and a list of numbers). -/
def gridInit (points : List (List K)) (weights : List K) : Py (List (List K) × List K) :=
  if points.length ≠ weights.length then throw .valueError else pure (points, weights)

/-- The module-level cache dictionaries `LEBEDEV_CACHE`, … as one association list
`(dictionary name, key) ↦ (points, weights)`; at most one entry per `(name, key)`. -/
abbrev Caches (K : Type) := List ((String × Int) × (List (List K) × List K))

/-- `key in cache_dict`. -/
def cacheIn (c : Caches K) (name : String) (key : Val) : Py Bool :=
  match key with
  | .none => pure false
  | .other => throw .unmodelled
  | .int i => pure (c.any fun e => e.1 == (name, i))

/-- `cache_dict[key]`; `KeyError` when absent. -/
def cacheGet (c : Caches K) (name : String) (key : Val) : Py (List (List K) × List K) :=
  match key with
  | .other => throw .unmodelled
  | .none => throw .keyError
  | .int i =>
    match c.find? fun e => e.1 == (name, i) with
    | some e => pure e.2
    | none => throw .keyError

/-- `cache_dict[key] = value`: replaces an existing entry. (A key that is not an integer never
reaches this statement; it is left unmodelled.) -/
def cacheSet (c : Caches K) (name : String) (key : Val) (v : List (List K) × List K) : Py (Caches K) :=
  match key with
  | .int i => pure (((name, i), v) :: c.filter fun e => !(e.1 == (name, i)))
  | _ => throw .unmodelled

end arrays

end GridVerif.AngularPy

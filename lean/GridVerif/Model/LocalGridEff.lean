/-
  C10 — effects of the generated setters on arrays (round 6).

  A NumPy array is a *reference* into the process's memory; `self._weights = value` makes the
  attribute refer to another array, `self._weights[...] = value` overwrites the array the attribute
  refers to — and with it every other holder of that array (the caller's array, the parent of an
  infinite-radius local grid, which is handed the parent's own arrays, another grid built from the
  same array).  The translator (harness/translate/localgrid.py) emits, per setter, the list of
  these effects in source order (`Gen/LocalGrid.lean: Grid_points_set_eff`, `Grid_weights_set_eff`).
  Hand-written; no Mathlib import.
-/
namespace GridVerif.LocalGridEff

/-- One statement of a setter, as far as arrays are concerned. -/
inductive Eff where
  /-- `if …: raise …` — reads only -/
  | guard
  /-- `self.<attr> = <name>`: the attribute refers to the array `<name>` from now on -/
  | rebind (attr src : String)
  /-- `self.<attr> = None` -/
  | rebindNone (attr : String)
  /-- `self.<attr>[...] = <name>` (also `[:]`, `+=` …): the array the attribute refers to is overwritten -/
  | write (attr src : String)
  deriving DecidableEq, Repr

abbrev Ref := Nat

/-- The arrays of the process and the attributes of one object. -/
structure World (α : Type) where
  /-- contents of every array -/
  heap : Ref → List α
  /-- which array an attribute of the object refers to (`none`: `None`) -/
  obj : String → Option Ref

/-- One effect; `args` = the arrays the arguments of the call refer to. -/
def exec {α : Type} (args : String → Option Ref) (w : World α) : Eff → World α
  | .guard => w
  | .rebind a s => { w with obj := fun x => if x = a then args s else w.obj x }
  | .rebindNone a => { w with obj := fun x => if x = a then none else w.obj x }
  | .write a s =>
    match w.obj a, args s with
    | some r, some v => { w with heap := fun x => if x = r then w.heap v else w.heap x }
    | _, _ => w

/-- The accepted call: all statements in order. -/
def run {α : Type} (args : String → Option Ref) (w : World α) (effs : List Eff) : World α :=
  effs.foldl (exec args) w

def noWrite : Eff → Bool
  | .write _ _ => false
  | _ => true

/-- (frame) A body without write-through leaves **every array of the process** as it was. -/
theorem run_heap_of_noWrite {α : Type} (args : String → Option Ref) (effs : List Eff) :
    ∀ w : World α, effs.all noWrite = true → (run args w effs).heap = w.heap := by
  induction effs with
  | nil => intro w _; rfl
  | cons e es ih =>
    intro w h
    simp only [List.all_cons, Bool.and_eq_true] at h
    simp only [run, List.foldl_cons]
    have := ih (exec args w e) h.2
    simp only [run] at this
    rw [this]
    cases e <;> simp_all [exec, noWrite]

end GridVerif.LocalGridEff

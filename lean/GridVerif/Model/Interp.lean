/-
  C04 (round 6) — `np.interp(x, (x0, x1), (y0, y1))` as a named primitive for the generated text of
  `rtransform.py`: piecewise linear interpolation through two points, **clamped** outside `[x0, x1]`
  (NumPy's contract: `y0` to the left of `x0`, `y1` to the right of `x1`).

  The pinned source does not use it; the translator imports this file only when the source does, so that
  a rewrite of a map through `np.interp` is *carried* (and the formula theorems of
  `Props/C04/Formulas.lean` become false) instead of being refused.  No Mathlib import.
-/
namespace GridVerif

class HasInterp (K : Type) where
  /-- `np.interp(x, (x0, x1), (y0, y1))` -/
  interp2 : K → K → K → K → K → K

instance : HasInterp Float where
  interp2 x x0 x1 y0 y1 :=
    if x != x then x else if x ≤ x0 then y0 else if x ≥ x1 then y1 else y0 + (x - x0) * (y1 - y0) / (x1 - x0)

end GridVerif

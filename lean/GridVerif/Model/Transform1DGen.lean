/-
  C04 (round 3) — `BaseTransform.transform_1d_grid` ending in the **generated** constructor
  `Gen/OneDGridInit.lean` (`OneDGrid.__init__`, statement by statement, with `points.ndim = 1`: the image
  of a 1-D array under an element-wise map) instead of the hand-written `oneDGridNew`.

  This is what the driver runs.  `Props/C04/Constructor.lean` proves that it is the same function as
  `transform1dGrid` (for every carrier `K`, `Float` included), on which the theorems are stated.
  No Mathlib import.
-/
import GridVerif.Model.Transform1D
import GridVerif.Gen.OneDGridInit

namespace GridVerif.Transform1D
open GridVerif.Gen.Transform1D

variable {K : Type} [Add K] [Sub K] [Mul K] [Div K] [Neg K] [NatCast K] [Elem K]
  [LT K] [LE K] [DecidableLT K] [DecidableLE K]

/-- `transform1dGrid` with the generated `OneDGrid.__init__` at its end. -/
def transform1dGridGen (tf : Tf K) (g : Grid1D K) : Except Err (Grid1D K) :=
  match g.domain with
  | none => .error .typeError
  | some (lo, hi) =>
    if domainMismatch tf lo hi then .error .valueError
    else if tf.sizeRaises g.pts.length then .error .valueError
    else if g.pts.any tf.derivRaises then .error .zeroDivisionError
    else
      let newPts := List.zipWith (newPoint tf) g.pts g.wts
      let newWts := List.zipWith (newWeight tf) g.pts g.wts
      if tf.sizeRaises 2 then .error .valueError
      else GridVerif.Gen.OneDGridInit.init 1 newPts newWts (some (newDomain tf lo hi))

end GridVerif.Transform1D

/-
  C06 — the Python/NumPy primitives the *generated* translations of `becke.py` and `hirshfeld.py`
  (`Gen/BeckeRoutes.lean`, `Gen/Hirshfeld.lean`) are written in.  Hand-written, small, each with the Python
  expression it stands for; tied to the code by correspondence (the driver runs the generated functions).
  No Mathlib.

  * arguments: `OrderArg`, `RadiiArg`, `SelectArg`, `AtnumsArg` carry the type information the code tests
    (`isinstance(order, int)`, `isinstance(radii, dict)`, `isinstance(k, int)`, `isinstance(select, (np.integer, int))`,
    `atnums.dtype != int`);
  * dictionaries are association lists (a Python dictionary has pairwise different keys);
  * a float that may be nan is `Option K` (`none` = nan; the reals have no nan);
  * the array pipeline of `generate_weights` / `compute_atom_weight` (`n_p = …` down to `s_ab = np.prod(s_ab, axis=-1)`)
    is ONE primitive, `cellTab`: the table of cell products of the hand model `Model/Becke.lean` built from the
    generated `alpha` / `nu` / `s` formulas of the route; the translator pins the source text of those lines.
-/
import GridVerif.Model.Becke

namespace GridVerif.BeckePy
open GridVerif.Becke GridVerif.Gen.Becke

/-! ## arguments -/

/-- the `order` argument of `BeckeWeights.__init__`: a Python `int` (a `bool` is one: `True` = 1) or anything else
(`np.int64`, `float`, `str`, `None`, …). -/
inductive OrderArg where
  | int (n : Int)
  | other
  deriving DecidableEq, Repr

/-- `isinstance(order, int)`. -/
def OrderArg.isInt : OrderArg → Bool
  | .int _ => true
  | .other => false

/-- the integer, once `isinstance(order, int)` holds. -/
def OrderArg.asInt : OrderArg → Except Err Int
  | .int n => .ok n
  | .other => .error .typeError

/-- a key of the `radii` dictionary: a Python `int`, or something else (`np.int64(6)`, `6.0`, `"C"`). -/
inductive Key where
  | int (n : Int)
  | other
  deriving DecidableEq, Repr

def Key.isInt : Key → Bool
  | .int _ => true
  | .other => false

/-- the `radii` argument when it is not `None`: a dictionary, or anything else. -/
inductive RadiiArg (V : Type) where
  | dict (entries : List (Key × V))
  | other

/-- `isinstance(radii, dict)`. -/
def RadiiArg.isDict {V : Type} : RadiiArg V → Bool
  | .dict _ => true
  | .other => false

/-- `radii.keys()`. -/
def RadiiArg.keys {V : Type} : RadiiArg V → Except Err (List Key)
  | .dict es => .ok (es.map (·.1))
  | .other => .error .typeError

/-- a Python dictionary with integer keys. -/
abbrev PyDict (V : Type) := List (Int × V)

/-- `dict(pairs)` (pairwise different keys). -/
def pyDictOfPairs {V : Type} (pairs : List (Int × V)) : PyDict V := pairs

/-- `d[k]`. -/
def pyDictGetItem {V : Type} (d : PyDict V) (k : Int) : Except Err V :=
  match d.find? (fun e => e.1 == k) with
  | some e => .ok e.2
  | none => .error .keyError

/-- `d.update(radii)` for a dictionary argument whose keys are all `int`: its entries take precedence. -/
def pyDictUpdate {V : Type} (d : PyDict V) : RadiiArg V → Except Err (PyDict V)
  | .dict es => .ok (es.filterMap (fun e => match e.1 with | .int n => some (n, e.2) | .other => none) ++ d)
  | .other => .error .typeError

/-- `np.arange(start, stop, step)` of integers, `step > 0`. -/
def npArange3 (start stop step : Int) : List Int :=
  if step ≤ 0 then [] else
  (List.range ((stop - start + step - 1) / step).toNat).map fun (i : Nat) => start + (i : Int) * step

/-- `table[atnums]` (fancy indexing with non-negative integers). -/
def npTakeInts {V : Type} (table : List V) (idx : List Int) : Except Err (List V) :=
  idx.mapM fun (i : Int) => if i < 0 then .error .indexError else
    match table[i.toNat]? with
    | some v => .ok v
    | none => .error .indexError

/-- `grid.utils.get_cov_radii(atnums, "bragg")`: `0` is rejected, then `_bragg[atnums]`. -/
def getCovRadii {V : Type} (bragg : List V) (atnums : List Int) : Except Err (List V) :=
  if atnums.any (· == 0) then .error .valueError else npTakeInts bragg atnums

/-- `enumerate(xs)`. -/
def pyEnumerate {α : Type} (xs : List α) : List (Int × α) :=
  xs.mapIdx fun i x => ((i : Int), x)

/-- the object built by `BeckeWeights.__init__`: `self._order`, `self._radii`. -/
structure BW (V : Type) where
  order : Int
  radii : PyDict V
  deriving DecidableEq

/-- the `select` argument: `None`, an integer (`int` / `np.integer`), or a sequence of atom indices. -/
inductive SelectArg where
  | none
  | int (k : Nat)
  | seq (l : List Nat)
  deriving DecidableEq, Repr

/-- `atnums` of `HirshfeldWeights.__call__`: an array with a dtype. -/
structure AtnumsArg where
  dtypeIsInt : Bool
  vals : List Int

/-! ## sequences -/

/-- `xs[i]` for a Python `int` index (negative indices count from the end). -/
def pyGetItem {α : Type} (xs : List α) (i : Int) : Except Err α :=
  let j := if i < 0 then i + xs.length else i
  if j < 0 then .error .indexError else
  match xs[j.toNat]? with
  | some v => .ok v
  | none => .error .indexError

/-- `np.arange(n)` used as a list of atom indices. -/
def npArangeNat (n : Int) : List Nat := List.range n.toNat

/-- `range(n)`. -/
def pyRange (n : Int) : List Int := (List.range n.toNat).map fun (i : Nat) => (i : Int)

/-- `range(start, stop, step)`; `step = 0` raises `ValueError`. -/
def pyRange3 (start stop step : Int) : Except Err (List Int) :=
  if step = 0 then .error .valueError
  else if step < 0 then .ok ((List.range ((start - stop - step - 1) / (-step)).toNat).map fun (i : Nat) => start + (i : Int) * step)
  else .ok (npArange3 start stop step)

/-- `a // b` of Python integers. -/
def pyFloorDiv (a b : Int) : Except Err Int :=
  if b = 0 then .error .zeroDivision else .ok (Int.fdiv a b)

/-- `np.concatenate(list_of_arrays)`: an empty list raises `ValueError`. -/
def npConcatenate {α : Type} (xs : List (List α)) : Except Err (List α) :=
  if xs.isEmpty then .error .valueError else .ok xs.flatten

section arrays
variable {K : Type} [Add K] [NatCast K]

/-- `np.zeros(n)`. -/
def npZeros (n : Nat) : List K := List.replicate n ((0 : Nat) : K)

/-- `w += v` on arrays of equal length. -/
def npAddInto (w v : List K) : Except Err (List K) :=
  if w.length ≠ v.length then .error .valueError else .ok (List.zipWith (· + ·) w v)

/-- `w[a:b] += v`, `v` as long as the slice: position `j` of the slice `[lo, hi)` receives `v[j - lo]`. -/
def npSliceAddInto (w : List K) (a b : Int) (v : List K) : Except Err (List K) :=
  let lo := pyNorm w.length a
  let hi := pyNorm w.length b
  if v.length ≠ hi - lo then .error .valueError else
  .ok (w.mapIdx fun j x => if inSlice w.length a b j then (match v[j - lo]? with | some y => x + y | none => x) else x)

/-- `w[a:b] = v`, `v` as long as the slice. -/
def npSliceSet (w : List K) (a b : Int) (v : List K) : Except Err (List K) :=
  let lo := pyNorm w.length a
  let hi := pyNorm w.length b
  if v.length ≠ hi - lo then .error .valueError else
  .ok (w.mapIdx fun j x => if inSlice w.length a b j then (match v[j - lo]? with | some y => y | none => x) else x)

end arrays

/-! ## the radius fall-back -/
section radius
variable {K : Type} [NatCast K] [LT K] [DecidableLT K]

/-- `np.nan_to_num(x)` of a scalar. -/
def npNanToNum (x : Option K) : K := x.getD ((0 : Nat) : K)

/-- `a or b` of floats: `a` if it is truthy (non-zero), else `b` (evaluated only then). -/
def pyOr (a : K) (b : Except Err K) : Except Err K :=
  if a < ((0 : Nat) : K) ∨ ((0 : Nat) : K) < a then .ok a else b

end radius

/-! ## the table of cell products -/

/-- `s_ab` after `np.prod(s_ab, axis=-1)`: one row per point, `row A` = cell product of atom `A`; `natom` columns. -/
structure CellTab (K : Type) where
  natom : Nat
  rows : List (Nat → K)

/-- `s_ab[a:b]` (rows). -/
def CellTab.slice {K : Type} (t : CellTab K) (a b : Int) : CellTab K :=
  { t with rows := pySlice t.rows a b }

section cells
variable {K : Type} [Add K] [Sub K] [Mul K] [Div K] [Neg K] [NatCast K] [Elem K] [LT K] [DecidableLT K]

/-- the molecule of the hand model for given coordinates and (resolved) radii; entries `< natom` are meaningful. -/
def molOf (atcoords : List (V3 K)) (radii : List K) : Mol K :=
  let posA := atcoords.toArray
  let rA := radii.toArray
  { natom := atcoords.length
    pos := fun i => posA.getD i ⟨((0 : Nat) : K), ((0 : Nat) : K), ((0 : Nat) : K)⟩
    rad := fun i => rA.getD i ((0 : Nat) : K) }

/-- **the array pipeline** of `generate_weights` / `compute_atom_weight`, from `n_p = np.linalg.norm(…)` to
`s_ab = np.prod(s_ab, axis=-1)`, read entry by entry (hand model `cell`): distances, `mu`, the route's generated
`alpha` / `nu` / `s`, `range(order)` iterations of the switching polynomial (`order ≤ 0`: none), `nan → 1` on the
diagonal, product over the partners. -/
def cellTab (r : Route K) (order : Int) (atcoords : List (V3 K)) (radii : List K) (points : List (V3 K)) : CellTab K :=
  let m := molOf atcoords radii
  { natom := m.natom, rows := points.map fun p => cell r m order.toNat p }

/-- `s_ab[:, k] / np.sum(s_ab, axis=-1)`. -/
def npColDivRowSum (t : CellTab K) (k : Nat) : Except Err (List K) :=
  if t.natom ≤ k then .error .indexError else .ok (t.rows.map fun row => row k / sumRange t.natom row)

end cells

/-! ## Hirshfeld: files and the spline -/

/-- Python's `f"{n:0<width>d}"`: decimal digits, zero-padded to `width` characters, the sign counted. -/
def pyFormatD0 (width : Nat) (n : Int) : String :=
  let ds := Nat.toDigits 10 n.natAbs
  String.ofList (if n < 0 then '-' :: (List.replicate (width - 1 - ds.length) '0' ++ ds)
                 else List.replicate (width - ds.length) '0' ++ ds)

/-- the content of an `.npz` file: named arrays. -/
abbrev NpzData (K : Type) := List (String × List K)

/-- `data[key]`. -/
def npzGet {K : Type} (data : NpzData K) (key : String) : Except Err (List K) :=
  match data.find? (fun e => e.1 == key) with
  | some e => .ok e.2
  | none => .error .keyError

/-- what `HirshfeldWeights` takes from outside the module: the package data files and SciPy's spline.
Neither is modelled; both are *named* so that which file and which arrays go into which spline is generated text. -/
structure ProEnv (K : Type) where
  /-- `np.load(files(package).joinpath(name))`: the arrays of the file, `FileNotFoundError` if there is none. -/
  npLoad : String → String → Except Err (NpzData K)
  /-- `CubicSpline(x, y, bc_type="natural", extrapolate=True)` evaluated at one abscissa. -/
  cubicSplineNatural : List K → List K → K → K

section hirsh
variable {K : Type} [Div K]

/-- `array.flatten()` of an `(N, 1)` array kept as a list of its `N` entries. -/
def npFlatten {α : Type} (xs : List α) : List α := xs

/-- `a /= b` on arrays of equal length. -/
def npDivInto (a b : List K) : Except Err (List K) :=
  if a.length ≠ b.length then .error .valueError else .ok (List.zipWith (· / ·) a b)

end hirsh

end GridVerif.BeckePy

/-
  C10 — vocabulary of the *generated* constructors `Gen/LocalGridCtor.lean`
  (translator: harness/translate/localgrid_ctor.py; source: `Grid.__init__`, `LocalGrid.__init__`
  of src/grid/basegrid.py).

  The constructors look at their array arguments only through `len(a)` and `a.ndim` and store
  them unchanged, so an argument travels as the number of its axes together with its entries
  along the first axis.  Hand-written; no Mathlib import (linked into the driver).
-/
import GridVerif.Model.LocalGrid

namespace GridVerif.LocalGridCtor
open GridVerif.LocalGrid

/-- An `ndarray` argument as the guards of a constructor see it. -/
structure NdArg (α : Type) where
  /-- `a.ndim` -/
  ndim : Nat
  /-- the entries along the first axis (`len(a)` of them); not looked at for a 0-d array -/
  rows : List α

/-- `len(a)`: `TypeError: len() of unsized object` for a 0-d array. -/
def pyLen {α : Type} (a : NdArg α) : Except Err Nat :=
  if a.ndim = 0 then .error .typeError else .ok a.rows.length

/-- The attributes `Grid.__init__` sets. -/
structure GridObj (K : Type) where
  /-- `self._points` -/
  upoints : NdArg (Point K)
  /-- `self._weights` -/
  uweights : NdArg K
  /-- `self._kdtree` -/
  ukdtree : Option (List (Point K))

/-- The attributes `LocalGrid.__init__` sets (those of the base constructor and its own). -/
structure LocalGridObj (K : Type) where
  base : GridObj K
  /-- `self._center`: stored as given (the constructor does not look at it) -/
  ucenter : Centre K
  /-- `self._indices` (`None` allowed) -/
  uindices : Option (NdArg Nat)

/-- Value of an expression that may raise; the exception leaves the constructor. -/
def pyTry {α β : Type} (x : Except Err α) (k : α → Except Err β) : Except Err β :=
  match x with
  | .error e => .error e
  | .ok a => k a

@[simp] theorem pyTry_error {α β : Type} (e : Err) (k : α → Except Err β) :
    pyTry (.error e) k = .error e := rfl
@[simp] theorem pyTry_ok {α β : Type} (a : α) (k : α → Except Err β) : pyTry (.ok a) k = k a := rfl

/-- `if x is not None: <body x> else: <orelse>` -/
def pyIfNotNone {α β : Type} (x : Option α) (body : α → β) (orelse : β) : β :=
  match x with
  | some a => body a
  | none => orelse

@[simp] theorem pyIfNotNone_some {α β : Type} (a : α) (b : α → β) (o : β) :
    pyIfNotNone (some a) b o = b a := rfl
@[simp] theorem pyIfNotNone_none {α β : Type} (b : α → β) (o : β) :
    pyIfNotNone (none : Option α) b o = o := rfl

end GridVerif.LocalGridCtor

/-
  C04 (round 3) — the hand-written vocabulary the generated text `Gen/OneDGridInit.lean`
  (`OneDGrid.__init__`, basegrid.py, statement by statement) is written in.

  * `pairLen`  : `len(domain)` of the model's domain.  The model passes the domain as a pair
                 `(lo, hi)`, so its length is the number `2`; the *literal* the source compares it
                 with is in the generated text (`pairLen ≠ 2`).
  * `gridInit` : `super().__init__(points, weights)` = `Grid.__init__` as far as a 1-D array of points
                 and a 1-D array of weights can reach it: `len(points) != len(weights)` → `ValueError`
                 (its two other guards, `weights.ndim != 1` and `points.ndim not in [1, 2]`, cannot fire
                 after `points.ndim != 1` was excluded and for a list of weights).
  The slack `1e-7` is not here: it is a literal of the generated text.

  No Mathlib import (the driver links this file).
-/
import GridVerif.Model.Transform1DBase

namespace GridVerif.Transform1D

/-- `len(domain)` for a domain given as a pair. -/
@[reducible] def pairLen : Nat := 2

/-- `Grid.__init__(points, weights)` for 1-D arrays: the length check. -/
def gridInit {K : Type} (pts wts : List K) : Except Err Unit :=
  if pts.length ≠ wts.length then .error .valueError else .ok ()

end GridVerif.Transform1D

/-
  C15 — notation over the generated text (`Gen/Ode.lean`).

  Until round 1 this file held a hand-written model of the callbacks `solve_ode_ivp` / `solve_ode_bvp` hand to SciPy,
  of the initial-data mapping and of the returned callable.  All of that is now *generated* from the source
  (`ivpFunc`, `bvpFunc`, `bvpBc`, `ivpTransformSetup`, `solveOdeIvp`, `solveOdeBvp`,
  `transformSolutionToOriginalDomain`, `evaluateCoeffsOnPoints` in `Gen/Ode.lean`); what remains is an abbreviation
  for the call shape both `solve_ode_ivp` and `_transform_solution_to_original_domain` use for the derivative matrix,
  and the reference implementation of `scipy.linalg.solve` used by the driver.
  No Mathlib import.
-/
import GridVerif.Model.Ode
import GridVerif.Gen.Ode

namespace GridVerif.Ode
open GridVerif.Gen.Ode

variable {K : Type} [Add K] [Sub K] [Mul K] [Div K] [Neg K] [NatCast K]

/-- `_derivative_transformation_matrix([tf.deriv, tf.deriv2, tf.deriv3], x, n)` — reducible: it *is* the expression the
generated text contains. -/
abbrev derivMatrixAt (tf : TransformFns K) (x : K) (n : Nat) : Mat K :=
  derivativeTransformationMatrix [tf.deriv, tf.deriv2, tf.deriv3] x n

/-- A result object of the integrators with `status = 0` and the given dense output. -/
def okResult (sol : K → List K) : SolveResult K := ⟨0, sol⟩

end GridVerif.Ode

/-
  C15 — hand-written model of the callbacks `solve_ode_ivp` / `solve_ode_bvp` hand to SciPy and of the
  callable they return, assembled from the generated pieces (`Gen/Ode.lean`) and `Model/Ode.lean`.
  Tied to the implementation by correspondence: the harness replaces `grid.ode.solve_ivp` /
  `grid.ode.solve_bvp` by a recorder, captures `func`, `bc`, the span/mesh and the initial data the
  library passes, evaluates them on random arguments and compares with these definitions.

  A transform enters only through the *values* the code reads from it:
  `tf.transform`, `tf.inverse`, `tf.deriv`, `tf.deriv2`, `tf.deriv3` (functions `K → K`).
  No Mathlib import.
-/
import GridVerif.Model.Ode
import GridVerif.Gen.Ode

namespace GridVerif.Ode
open GridVerif.Gen.Ode

variable {K : Type} [Add K] [Sub K] [Mul K] [Div K] [Neg K] [NatCast K]

/-- What `ode.py` reads from a `BaseTransform` object. -/
structure TransformFns (K : Type) where
  transform : K → K
  inverse : K → K
  deriv : K → K
  deriv2 : K → K
  deriv3 : K → K

/-- `_transform_ode_from_rtransform(coeffs, tf, x)` at one point `x` of the original variable. -/
def transformOdeAt (coeffs : List (Coeff K)) (tf : TransformFns K) (x : K) : Option (List K) :=
  coeffB (evalCoeffs x coeffs) (tf.deriv x) (tf.deriv2 x) (tf.deriv3 x)

/-- `func(x, y)` of `solve_ode_ivp` / `solve_ode_bvp`, branch `transform is None`, one point. -/
def odeFuncDirect (coeffs : List (Coeff K)) (fx : K → K) (x : K) (y : List K) : Option (List K) := do
  let dy ← rearrangeToExplicitOde y (evalCoeffs x coeffs) (fx x)
  pure (firstOrderRhs y dy)

/-- `func(x, y)`, transform branch, one point: the solver's independent variable is `r = g(x)`;
`orig_dom = transform.inverse(r)`; coefficients, transform derivatives and right-hand side are all
evaluated at `orig_dom`. -/
def odeFuncTransformed (coeffs : List (Coeff K)) (tf : TransformFns K) (fx : K → K) (r : K) (y : List K) :
    Option (List K) := do
  let orig_dom := tf.inverse r
  let dy ← transformAndRearrange (transformOdeAt coeffs tf) fx orig_dom y
  pure (firstOrderRhs y dy)

/-- The matrix `_derivative_transformation_matrix([tf.deriv, tf.deriv2, tf.deriv3], x, n)`. -/
def derivMatrixAt (tf : TransformFns K) (x : K) (n : Nat) : Mat K :=
  derivMatrix (bell (seq3 (tf.deriv x) (tf.deriv2 x) (tf.deriv3 x))) n

/-- What `solve_ode_ivp` passes to `scipy.integrate.solve_ivp` in the transform branch:
`(t_span, y0)` = (`transform(x_span)`, mapped initial data); `order = len(y0)`. -/
def ivpSetup (tf : TransformFns K) (x0 x1 : K) (y0 : List K) : Option ((K × K) × List K) := do
  let y ← ivpInitial (derivMatrixAt tf x0 (y0.length - 1)) y0
  pure ((tf.transform x0, tf.transform x1), y)

/-- The callable returned in the transform branch, one point `x` of the original variable:
`sol` is the dense output of the integrator (a function of `r`). -/
def returnedCallable (tf : TransformFns K) (order : Nat) (noDerivs : Bool) (sol : K → List K) (x : K) :
    Option (List K) :=
  let interpolated := sol (tf.transform x)
  if noDerivs then (backTransformNoDerivs interpolated).map fun v => [v]
  else backTransform (derivMatrixAt tf x (order - 1)) interpolated

end GridVerif.Ode

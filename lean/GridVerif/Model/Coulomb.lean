/-
  C17 — hand-written reference models of `grid/coulomb.py`:
  * `coulombPotential` (multi-centre accumulation loop, per point) on top of the *generated*
    closed forms `Gen.Coulomb.coulombGaussianS/P`,
  * `load` (symbol normalisation, the two look-ups),
  * the corrected p-type formula (what the potential of the documented p density is;
    the shipped `coulomb_gaussian_p` differs, see `Props/C17.lean`).
  Since round 2 `coulomb_potential` and `load_atomic_gaussian_params` themselves are translated
  from the source (`Gen/CoulombPotential.lean`, `Gen/CoulombLoader.lean`, over the primitives of
  `Model/CoulombPy.lean`) and *proved* equal to the reference models here
  (`Props/C17/MultiGen.lean: potential_gen_eq_model`, `Props/C17/Loader.lean: loader_gen_eq_model`);
  the driver runs the generated definitions.  `strip`/`title`/`rejectsArr` are primitives of the
  generated code as well.  No Mathlib import (linked into the driver).
-/
import GridVerif.Model.Elem
import GridVerif.Gen.Coulomb

namespace GridVerif.Coulomb
open GridVerif.Gen.Coulomb

section numeric
variable {K : Type} [Add K] [Sub K] [Mul K] [Div K] [Neg K] [NatCast K] [Elem K]
  [LT K] [LE K] [DecidableLT K] [DecidableLE K]

/-- A point / centre of ℝ³. -/
abbrev P3 (K : Type) := K × K × K

/-- One Gaussian of the expansion: centre, coefficient, exponent. -/
structure Gauss (K : Type) where
  center : P3 K
  coeff : K
  alpha : K

/-- `np.linalg.norm(p - c, axis=-1)` for one row: `sqrt((dx² + dy²) + dz²)`. -/
def dist3 (p c : P3 K) : K :=
  let dx := p.1 - c.1
  let dy := p.2.1 - c.2.1
  let dz := p.2.2 - c.2.2
  Elem.sqrt (dx * dx + dy * dy + dz * dz)

/-- The accumulation `V += c * coulomb_gaussian_x(r, alpha)` over a list of Gaussians,
in list order, starting from `v0`, at one evaluation point. -/
def accumulate (f : K → K → Bool → K) (normalized : Bool) (p : P3 K) (gs : List (Gauss K)) (v0 : K) : K :=
  gs.foldl (fun v g => v + g.coeff * f (dist3 p g.center) g.alpha normalized) v0

/-- Value of `coulomb_potential` at one point: zero, then all s-type, then all p-type
Gaussians (`ps = []` when the p arguments are `None`). -/
def potentialAt (normalized : Bool) (ss ps : List (Gauss K)) (p : P3 K) : K :=
  accumulate coulombGaussianP normalized p ps
    (accumulate coulombGaussianS normalized p ss ((0 : Nat) : K))

/-- Does the call `coulomb_gaussian_x(r_array, alpha)` raise?  The guards are those of the
generated `…Rejects`, evaluated on the whole array of radii; the guard on `alpha` does not
look at `r`, and `np.any` of an empty array is `False` (so with no evaluation point only
the `alpha` guard is left: it is read off at the harmless radius 1). -/
def rejectsArr (rej : K → K → Bool) (rs : List K) (alpha : K) : Bool :=
  rej ((1 : Nat) : K) alpha || rs.any (fun r => rej r alpha)

/-- `coulomb_potential(points, centers_s, coeffs_s, alphas_s, centers_p, coeffs_p, alphas_p,
normalized)` after the shape validation; `none` = `ValueError` from one of the closed forms. -/
def coulombPotential (normalized : Bool) (points : List (P3 K)) (ss ps : List (Gauss K)) :
    Option (List K) :=
  if ss.any (fun g => rejectsArr coulombGaussianSRejects (points.map (dist3 · g.center)) g.alpha)
      || ps.any (fun g => rejectsArr coulombGaussianPRejects (points.map (dist3 · g.center)) g.alpha)
  then none
  else some (points.map (potentialAt normalized ss ps))

/-- **Hand-written, not from the code**: the potential of the *documented* normalised p-type
density `(2/3) α^{5/2} π^{-3/2} r² e^{-α r²}` is
`erf(√α r)/r − (2/3)·√α/√π·e^{-α r²}` with value `(4/3)·√α/√π` at `r = 0`
(the shipped code has `+4/3` and `10/3`).  Same small-`r` switch and prefactor as the code. -/
def coulombGaussianPCorrected (r alpha : K) (normalized : Bool) : K :=
  let sqrt_alpha : K := Elem.sqrt alpha
  let out : K :=
    if r < (rZeroThreshold : K) then
      (((4 : Nat) : K) / ((3 : Nat) : K)) * (sqrt_alpha / Elem.sqrt Elem.pi)
    else
      Elem.erf (sqrt_alpha * r) / r
        - (((2 : Nat) : K) / ((3 : Nat) : K)) * (sqrt_alpha / Elem.sqrt Elem.pi)
            * Elem.exp ((-alpha) * npow r 2)
  if normalized then out else
  (((3 : Nat) : K) / ((2 : Nat) : K)) * Elem.rpow Elem.pi (((3 : Nat) : K) / ((2 : Nat) : K))
      / Elem.rpow alpha (((5 : Nat) : K) / ((2 : Nat) : K)) * out

end numeric

/-! ### `load_atomic_gaussian_params` -/

/-- ASCII part of Python's `str.isspace` (what `str.strip()` removes): TAB..CR, FS..US, blank. -/
def isSpace (c : Char) : Bool :=
  let n := c.toNat
  (9 ≤ n && n ≤ 13) || (28 ≤ n && n ≤ 32)

def isUpperA (c : Char) : Bool := 65 ≤ c.toNat && c.toNat ≤ 90
def isLowerA (c : Char) : Bool := 97 ≤ c.toNat && c.toNat ≤ 122

/-- `str.strip()` on ASCII text. -/
def strip (s : List Char) : List Char :=
  ((s.dropWhile isSpace).reverse.dropWhile isSpace).reverse

/-- `str.title()` on ASCII text: a letter following a letter is lowered, any other letter
is raised, everything else is kept. -/
def titleAux : Bool → List Char → List Char
  | _, [] => []
  | prevCased, c :: cs =>
    if isUpperA c then
      (if prevCased then Char.ofNat (c.toNat + 32) else c) :: titleAux true cs
    else if isLowerA c then
      (if prevCased then c else Char.ofNat (c.toNat - 32)) :: titleAux true cs
    else c :: titleAux false cs

def title (s : List Char) : List Char := titleAux false s

/-- The `element` argument: a string or an integer. -/
inductive Element
  | sym (s : List Char)
  | num (n : Int)

/-- First half of the loader: the JSON key, `none` = `ValueError`
(`elements` = `grid.utils.num2sym`). -/
def jsonSymbol (elements : List (Nat × String)) : Element → Option String
  | .sym s =>
    let t := String.ofList (title (strip s))
    if elements.any (fun e => e.2 == t) then some t else none
  | .num n =>
    if n < 0 then none else (elements.find? (fun e => e.1 == n.toNat)).map (·.2)

/-- `load_atomic_gaussian_params(element)`: `(coeffs_s, alphas_s)` or `none` = `ValueError`. -/
def load {α : Type} (elements : List (Nat × String)) (table : List (String × α)) (e : Element) : Option α :=
  (jsonSymbol elements e).bind fun s => (table.find? (fun r => r.1 == s)).map (·.2)

end GridVerif.Coulomb

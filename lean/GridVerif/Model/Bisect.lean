/-
  Model of `AngularGrid._get_degree_and_size` / `convert_angular_sizes_to_degrees`
  (src/grid/angular.py) over tables given as association lists in dict insertion order.
  Hand-written.  Since round 2 it is the *specification-level* model: the code itself is translated
  from the AST into `Gen/AngularLogic.lean` (over the primitives of `Model/AngularPy.lean`, which
  reuse `bisectLeft`, `lookup`, `keys`, `maxKey` from here), `Props/C12/Logic.lean` proves the generated
  functions equal to `getDegreeAndSize` on all well-formed arguments, and the driver runs the
  generated functions (exhaustive correspondence in harness/props/c12.py).
-/
namespace GridVerif.Bisect

/-- Python's `bisect.bisect_left(a, x, lo, hi)` loop. -/
def bisectGo (ks : List Nat) (x : Nat) (lo hi : Nat) : Nat :=
  if _h : lo < hi then
    let mid := (lo + hi) / 2
    if ks.getD mid 0 < x then bisectGo ks x (mid + 1) hi else bisectGo ks x lo mid
  else lo
termination_by hi - lo
decreasing_by all_goals omega

def bisectLeft (ks : List Nat) (x : Nat) : Nat := bisectGo ks x 0 ks.length

/-- `d[k]` for a dict given as association list (keys are unique in a dict). -/
def lookup (tbl : List (Nat × Nat)) (k : Nat) : Option Nat :=
  (tbl.find? (fun p => p.1 == k)).map (·.2)

def keys (tbl : List (Nat × Nat)) : List Nat := tbl.map (·.1)

def maxKey (ks : List Nat) : Nat := ks.foldl max 0

inductive Res where
  | ok (key val : Nat)
  | valueError
  | indexError
  deriving DecidableEq, Repr

/-- The shared core of both branches: request `req` against the dict `tbl`
(`key ↦ partner`): range check against the largest key, exact hit or
`keys[bisect_left(keys, req)]`, then the partner. -/
def resolve (tbl : List (Nat × Nat)) (req : Nat) : Res :=
  let ks := keys tbl
  if req > maxKey ks then .valueError else
  let key? : Option Nat :=
    if ks.contains req then some req else ks[bisectLeft ks req]?
  match key? with
  | none => .indexError
  | some key =>
    match lookup tbl key with
    | some v => .ok key v
    | none => .indexError

/-- Outcome of `_get_degree_and_size`: the `(degree, size)` pair or the exception class. -/
inductive Out where
  | ok (degree size : Nat)
  | valueError
  | indexError
  deriving DecidableEq, Repr

/-- `_get_degree_and_size(degree, size, method)`; negative or non-integer
arguments are rejected before this point (ValueError). -/
def getDegreeAndSize (degrees npoints : List (Nat × Nat)) (degree size : Option Nat) : Out :=
  match degree, size with
  | some d, _ => (match resolve degrees d with
      | .ok k v => .ok k v
      | .valueError => .valueError
      | .indexError => .indexError)
  | none, some s => (match resolve npoints s with
      | .ok k v => .ok v k
      | .valueError => .valueError
      | .indexError => .indexError)
  | none, none => .valueError

/-- `convert_angular_sizes_to_degrees`: `degrees = zeros(len)`; for each distinct
size (ascending, `np.unique`) set the positions holding it to its degree. -/
def convertSizes (npoints : List (Nat × Nat)) (sizes : List Nat) : Option (List Nat) :=
  let uniq := sizes.eraseDups
  uniq.foldlM (fun (acc : List Nat) s =>
    match resolve npoints s with
    | .ok _ v => some ((acc.zip sizes).map fun (a, t) => if t == s then v else a)
    | _ => none) (sizes.map fun _ => 0)

end GridVerif.Bisect

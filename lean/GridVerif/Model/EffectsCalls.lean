/-
  C20 — parameters of nested functions that have a default value ("pinned" parameters).

  The effects translator (harness/translate/effects.py) inlines nested functions and lambdas.
  A parameter of an inlined function normally receives the statement `assign p [] true`
  (it may refer to anything the caller owns, or to a library object).  For the
  default-argument closure idiom `lambda …, func=f: func(…)` that is too coarse, so a
  parameter with a default that *no call expression in the text of the enclosing function can
  override* receives `assign p ys cb`, where `(ys, cb)` is what the default expression may alias.

  This file models the part of that refinement that can be stated over the IR:

  * `CallShape`   what the translator records of one call expression of the enclosing function
  * `Param`       a default-valued parameter: IR variable, positional index, name, `(ys, cb)`
  * `pinned`      the syntactic condition (decided here again, the translator is not trusted)
  * `Call`, `Call.supplied`   Python's argument binding for one run-time call
  * `Enter`       one entry into the nested function: the parameter is bound to the supplied
                  object, or — when none is supplied — to its default
  * `RunC`        executions that interleave the statements of the program with such entries

  No Mathlib import.
-/
import GridVerif.Model.Effects

namespace GridVerif.Effects

/-- One call expression in the text of the enclosing function (callee not a dotted name):
number of positional arguments, keyword names (numbered), `*args`/`**kwargs` present. -/
structure CallShape where
  npos : Nat
  kws : List Nat
  star : Bool
  deriving DecidableEq, Repr

/-- A parameter of a nested function with a default value: its IR variable, its positional index
(`none`: keyword-only), its name (numbered), and what the statement emitted for it may alias. -/
structure Param where
  var : Nat
  pos : Option Nat
  name : Nat
  ys : List Nat
  cb : Bool
  deriving DecidableEq, Repr

/-- Can a call of this shape supply the parameter? -/
def overridable (c : CallShape) (p : Param) : Bool :=
  c.star || c.kws.contains p.name ||
    (match p.pos with
     | some i => decide (i < c.npos)
     | none => false)

/-- The syntactic condition: no recorded call shape can supply the parameter. -/
def pinned (sites : List CallShape) (p : Param) : Bool :=
  sites.all fun c => !overridable c p

/-- The statement the translator must have emitted for the parameter. -/
def paramStmt (sites : List CallShape) (p : Param) : Stmt :=
  if pinned sites p then .assign p.var p.ys p.cb else .assign p.var [] true

/-- One row of the generated certificate list. -/
structure PinRow where
  prog : Prog
  sites : List CallShape
  params : List Param
  deriving Repr

/-- The row is consistent: a parameter that is not pinned under the recorded shapes has the
conservative statement (`ys = []`, `cb = true`), and the statement for every parameter is in the
program. -/
def pinRowOk (r : PinRow) : Bool :=
  r.params.all fun p =>
    (pinned r.sites p || (p.ys.isEmpty && p.cb)) && r.prog.stmts.contains (paramStmt r.sites p)

/-! ### Run-time calls -/

/-- A run-time call of the nested function: the objects passed positionally and by keyword
(after expansion of `*`/`**`). -/
structure Call where
  pos : List Nat
  kw : List (Nat × Nat)

/-- The run-time call comes from a call expression of this shape. -/
def Call.fits (c : Call) (s : CallShape) : Prop :=
  s.star = true ∨ (c.pos.length = s.npos ∧ ∀ e ∈ c.kw, e.1 ∈ s.kws)

/-- Python's argument binding for one parameter: the positional argument at its index if there
is one, else the keyword argument of its name if there is one, else nothing (the default is used). -/
def Call.supplied (c : Call) (p : Param) : Option Nat :=
  match p.pos.bind (fun i => c.pos[i]?) with
  | some o => some o
  | none => (c.kw.find? (fun e => e.1 == p.name)).map Prod.snd

/-- One entry into the nested function through the call `c`, as far as the parameter `p` is
concerned: it is bound to the supplied object (any object whatsoever), or, if the call supplies
none, to the object of its default expression (the IR reading of that expression is `p.ys`, `p.cb`;
`defaults` are evaluated in the enclosing scope). -/
inductive Enter (owned : Nat → Prop) (dflt : List Nat × Bool) (p : Param) (c : Call) : State → State → Prop where
  | arg {σ} (o : Nat) (h : c.supplied p = some o) :
      Enter owned dflt p c σ { σ with ref := fun v => if v = p.var then o else σ.ref v }
  | default {σ σ'} (h : c.supplied p = none) (hs : Step owned (.assign p.var dflt.1 dflt.2) σ σ') :
      Enter owned dflt p c σ σ'

/-- Executions with explicit function entries: any sequence of statements of the program and of
entries into nested functions through calls that fit a recorded call shape.  For a pinned parameter
the default is what the certificate says (`p.ys`, `p.cb`); for any other parameter the default
expression is arbitrary (`dflt` is chosen per step). -/
inductive RunC (owned : Nat → Prop) (stmts : List Stmt) (sites : List CallShape) (params : List Param) :
    State → State → Prop where
  | nil {σ} : RunC owned stmts sites params σ σ
  | stmt {s σ σ' σ''} (hs : s ∈ stmts) (h1 : Step owned s σ σ')
      (h2 : RunC owned stmts sites params σ' σ'') : RunC owned stmts sites params σ σ''
  | enter {p c dflt σ σ' σ''} (hp : p ∈ params) (hc : ∃ s ∈ sites, c.fits s)
      (hd : pinned sites p = true → dflt = (p.ys, p.cb))
      (h1 : Enter owned dflt p c σ σ')
      (h2 : RunC owned stmts sites params σ' σ'') : RunC owned stmts sites params σ σ''

end GridVerif.Effects

/-
  Model of `MolGrid` (src/grid/molgrid.py): constructor (concatenation, index table,
  `weights = atweights * aim_weights`, callable or array aim weights), `get_atomic_grid`,
  `__getitem__` (both for `store` on and off — modelled as coded: the two methods and the two
  values of `store` do *not* hand back the same weights), `integrate` (inherited from `Grid`),
  `save`, and the per-atom argument fan-out of `from_preset` / `from_size` / `from_pruned`.

  Hand-written; tied to the code by correspondence (harness/props/c07.py) and by the regenerated
  `Gen/MolGrid.lean`: the selection logic of the three convenience constructors
  (`C07.gen_selection_eq_model`), the constructor core `__init__` statement by statement
  (`C07.gen_init_eq_model`), `get_atomic_grid` and `__getitem__` (`C07.gen_getAtomicGrid_eq_model`,
  `C07.gen_getItem_eq_model`).  The NumPy / Python list primitives the generated code is written
  in (`npZeros`, `npSum`, `pySetItem`, `pySetSlice`, `pyForEnum`, `mkLocalGrid`, …) are defined
  here, by hand.

  `AtomGrid` and `BeckeWeights` are *given components* (their correctness is C05/C06): an
  atomic grid is what `MolGrid` reads of it — `points`, `weights`, `center` —, the atomic-grid
  constructors are abstract functions, the aim-weight callable is an abstract function of
  `(points, atcoords, atnums, indices)`.

  Generic in the point type `P` (the class never looks inside a point), the value type `K`
  (`Add`, `Mul`, `NatCast` only) and in the argument types of the fan-out.  No Mathlib import.
-/
namespace GridVerif.MolGrid

variable {α β P K R S Rot Sz Rad RS DS SS : Type}

/-! ### Python semantics used by the class -/

inductive PyErr where
  | valueError
  | typeError
  | indexError
  | keyError
  | attributeError
  deriving DecidableEq, Repr

def PyErr.tag : PyErr → String
  | .valueError => "value-error"
  | .typeError => "type-error"
  | .indexError => "index-error"
  | .keyError => "key-error"
  | .attributeError => "attribute-error"

abbrev Py := Except PyErr

/-- `l[i]` for a Python / NumPy integer index: a negative index counts from the end (once),
anything outside raises `IndexError`. -/
def pyGet (l : List α) (i : Int) : Py α :=
  let j : Int := if i < 0 then i + (l.length : Int) else i
  if j < 0 then throw .indexError else
  match l[j.toNat]? with
  | some x => pure x
  | none => throw .indexError

/-- `l[a:b]` for non-negative `a`, `b` (entries of the index table): positions `a ≤ · < b`,
clipped to the array; empty when `b ≤ a`. -/
def pySlice (l : List α) (a b : Nat) : List α := (l.take b).drop a

/-- `for x in xs: ys.append(f(x))` where `f` may raise: the first exception wins. -/
def allOk (f : α → Py β) : List α → Py (List β)
  | [] => .ok []
  | a :: r =>
    match f a with
    | .error e => .error e
    | .ok b =>
      match allOk f r with
      | .error e => .error e
      | .ok bs => .ok (b :: bs)

/-! ### NumPy array primitives of the constructor (used by the generated `Gen.MolGrid.init`) -/

/-- A NumPy scalar used as a *shape*: `np.sum` of a Python list of integers is an integer —
except for the empty list, where NumPy answers the float `0.0`; `len(...)` is an integer. -/
inductive NpNum where
  | int (n : Nat)
  | float0
  deriving DecidableEq, Repr

/-- The numerical value (for comparisons such as `aim_weights.size != size`: `0 != 0.0` is false). -/
def NpNum.toNat : NpNum → Nat
  | .int n => n
  | .float0 => 0

/-- `np.sum([... integers ...])`. -/
def npSum : List Nat → NpNum
  | [] => .float0
  | l => .int l.sum

/-- `np.zeros(n)`, `np.zeros((n, 3))`, `np.zeros(n, dtype=int)` — `n` cells holding `zero`
(the zero row / `0.0` / `0`); a float shape raises `TypeError`
(`'numpy.float64' object cannot be interpreted as an integer`). -/
def npZeros (n : NpNum) (zero : α) : Py (List α) :=
  match n with
  | .int n => pure (List.replicate n zero)
  | .float0 => throw .typeError

/-- `a[i] = v` on the first axis: a negative index counts from the end (once), anything outside
raises `IndexError`. -/
def pySetItem (l : List α) (i : Int) (v : α) : Py (List α) :=
  let j : Int := if i < 0 then i + (l.length : Int) else i
  if j < 0 then throw .indexError else
  if j.toNat < l.length then pure (l.set j.toNat v) else throw .indexError

/-- NumPy's shape rule for `dst[a:b] = vals` on the first axis, `n = len(dst[a:b])`: as many
entries as the slice has, or exactly one entry (broadcast to every position of the slice — also
to an empty slice); everything else is `ValueError` ("could not broadcast input array"). -/
def fitSlice (n : Nat) (vals : List α) : Py (List α) :=
  if vals.length = n then pure vals else
  match vals with
  | [v] => pure (List.replicate n v)
  | _ => throw .valueError

/-- `l[a:b] = vals` for non-negative `a`, `b`: the slice is clipped to the array as in `pySlice`
(empty when `b ≤ a`), the values must fit it (`fitSlice`), the array keeps its length. -/
def pySetSlice (l : List α) (a b : Nat) (vals : List α) : Py (List α) :=
  let a' := min a l.length
  let n := min b l.length - a'
  match fitSlice n vals with
  | .error e => .error e
  | .ok v => pure (l.take a' ++ v ++ l.drop (a' + n))

/-- `for i, x in enumerate(xs): state = body(state, i, x)` where the body may raise (counter
starting at `i`). -/
def pyForEnum {σ : Type} (body : σ → Nat → α → Py σ) : Nat → List α → σ → Py σ
  | _, [], s => pure s
  | i, a :: r, s =>
    match body s i a with
    | .error e => .error e
    | .ok s' => pyForEnum body (i + 1) r s'

section numeric
variable [Add K] [Mul K] [NatCast K]

/-- `np.sum` of a 1-D array (exact arithmetic: the summation order is immaterial). -/
def sumK (xs : List K) : K := xs.foldr (· + ·) ((0 : Nat) : K)

/-- `a * b` of two 1-D NumPy arrays *as `MolGrid.__init__` meets it* (`a = _atweights`, of the
grid's size): equal lengths multiply entry by entry, a length-1 `b` is broadcast, every other
combination ends in `ValueError` (either NumPy's broadcast error, or — `len a = 1`,
`len b ≠ 1` — `Grid.__init__`'s "Number of points and weights do not match"). -/
def mulBroadcast (a b : List K) : Py (List K) :=
  if b.length = a.length then pure (List.zipWith (· * ·) a b)
  else match b with
    | [b0] => pure (a.map (· * b0))
    | _ => throw .valueError

end numeric

/-! ### the components -/

/-- What `MolGrid` reads of an `AtomGrid`. `Grid.__init__` guarantees
`len(points) = len(weights)` (`AtGrid.WF`); `size = weights.size`. -/
structure AtGrid (P K : Type) where
  points : List P
  weights : List K
  center : P
  deriving DecidableEq

def AtGrid.size (g : AtGrid P K) : Nat := g.weights.length

def AtGrid.WF (g : AtGrid P K) : Prop := g.points.length = g.weights.length

instance (g : AtGrid P K) : Decidable g.WF := inferInstanceAs (Decidable (_ = _))

/-- What the constructor's `_points[start:end] = atom_grid.points` accepts (`fitSlice`): as many
points as the grid's size, or exactly one point (NumPy broadcasts it over the segment). A real
`Grid` object is always `WF`; a duck-typed object with one point and `k ≠ 1` weights is *not*
rejected by `MolGrid.__init__` (found by experiment, round 2). -/
def AtGrid.Fits (g : AtGrid P K) : Prop := g.points.length = g.size ∨ g.points.length = 1

instance (g : AtGrid P K) : Decidable g.Fits := inferInstanceAs (Decidable (_ ∨ _))

/-- The segment of the molecular grid's points that atom `g` fills: its points — a single point
repeated `size` times when the lengths differ (only then; `= g.points` for every `WF` grid). -/
def AtGrid.segPoints (g : AtGrid P K) : List P :=
  if g.points.length = g.size then g.points else
  match g.points with
  | [v] => List.replicate g.size v
  | ps => ps

/-- The `aim_weights` argument: a callable evaluated on `(points, atcoords, atnums, indices)`,
an `np.ndarray`, or anything else (rejected with `TypeError`). -/
inductive AimArg (P K : Type) where
  | callable (f : List P → List P → List Nat → List Nat → List K)
  | array (a : List K)
  | other

/-- A per-atom grid handed back by `get_atomic_grid` / `__getitem__`: either the stored
`AtomGrid` object itself or a freshly built `LocalGrid(points, weights, center)`. -/
inductive SubGrid (P K : Type) where
  | atom (g : AtGrid P K)
  | localGrid (points : List P) (weights : List K) (center : P)
  deriving DecidableEq

def SubGrid.points : SubGrid P K → List P
  | .atom g => g.points
  | .localGrid p _ _ => p

def SubGrid.weights : SubGrid P K → List K
  | .atom g => g.weights
  | .localGrid _ w _ => w

def SubGrid.center : SubGrid P K → P
  | .atom g => g.center
  | .localGrid _ _ c => c

/-- `isinstance(·, AtomGrid)` (the return *type* differs by design and is pinned by the tests). -/
def SubGrid.isAtom : SubGrid P K → Bool
  | .atom _ => true
  | .localGrid .. => false

/-- `LocalGrid(points, weights, center)`: `Grid.__init__` rejects different numbers of points
and weights with `ValueError`. -/
def mkLocalGrid (points : List P) (weights : List K) (center : P) : Py (SubGrid P K) :=
  if points.length ≠ weights.length then throw .valueError
  else pure (.localGrid points weights center)

/-- `Grid.integrate(values)` of the handed-back grid. -/
def SubGrid.integrate [Add K] [Mul K] [NatCast K] (g : SubGrid P K) (vals : List K) : Py K :=
  if vals.length ≠ g.weights.length then throw .valueError
  else pure (sumK (List.zipWith (· * ·) g.weights vals))

/-! ### the molecular grid -/

structure MolGrid (P K : Type) where
  points : List P
  weights : List K
  atweights : List K
  aimWeights : List K
  atcoords : List P
  indices : List Nat
  atgrids : Option (List (AtGrid P K))
  deriving DecidableEq

/-- The loop `indices[i+1] += indices[i] + size_i` on a zero array: running sums from `s`. -/
def prefixSums : Nat → List Nat → List Nat
  | s, [] => [s]
  | s, n :: r => s :: prefixSums (s + n) r

def indexTable (sizes : List Nat) : List Nat := prefixSums 0 sizes

/-- `MolGrid.__init__(atnums, atgrids, aim_weights, store)`.

* no atomic grid: `np.sum([])` is the float `0.0`, `np.zeros((0.0, 3))` raises `TypeError`;
* `_points[start:end] = atom_grid.points` needs as many points as the atomic grid's size
  (always so for a `Grid`) or exactly one point, which NumPy broadcasts over the segment
  (`AtGrid.Fits`, `AtGrid.segPoints`); otherwise NumPy's `ValueError`;
* array aim weights of another size: `ValueError`; neither callable nor array: `TypeError`;
* the result of a callable is used as it comes (`mulBroadcast`). -/
def MolGrid.init [Add K] [Mul K] [NatCast K] (atnums : List Nat) (atgrids : List (AtGrid P K))
    (aim : AimArg P K) (store : Bool) : Py (MolGrid P K) :=
  if atgrids.isEmpty then throw .typeError else
  if ¬ (∀ g ∈ atgrids, g.Fits) then throw .valueError else
  let sizes := atgrids.map AtGrid.size
  let indices := indexTable sizes
  let size := sizes.sum
  let points := (atgrids.map AtGrid.segPoints).flatten
  let atweights := (atgrids.map AtGrid.weights).flatten
  let atcoords := atgrids.map AtGrid.center
  let stored := if store then some atgrids else none
  match aim with
  | .callable f => do
    let aimw := f points atcoords atnums indices
    let w ← mulBroadcast atweights aimw
    pure ⟨points, w, atweights, aimw, atcoords, indices, stored⟩
  | .array a =>
    if a.length ≠ size then throw .valueError else do
    let w ← mulBroadcast atweights a
    pure ⟨points, w, atweights, a, atcoords, indices, stored⟩
  | .other => throw .typeError

def MolGrid.size (m : MolGrid P K) : Nat := m.weights.length

/-- `Grid.integrate(values)`: shape check, then `Σ weights·values`. -/
def MolGrid.integrate [Add K] [Mul K] [NatCast K] (m : MolGrid P K) (vals : List K) : Py K :=
  if vals.length ≠ m.size then throw .valueError
  else pure (sumK (List.zipWith (· * ·) m.weights vals))

/-- `MolGrid.get_atomic_grid(index)`: negative index rejected; the stored `AtomGrid` if there
is one, else `LocalGrid(points[a:b], _atweights[a:b], _atcoords[index])` — the **raw atomic
weights** in both cases. -/
def MolGrid.getAtomicGrid (m : MolGrid P K) (index : Int) : Py (SubGrid P K) :=
  if index < 0 then throw .valueError else
  match m.atgrids with
  | some gs => do pure (.atom (← pyGet gs index))
  | none => do
    let a ← pyGet m.indices index
    let b ← pyGet m.indices (index + 1)
    let c ← pyGet m.atcoords index
    mkLocalGrid (pySlice m.points a b) (pySlice m.atweights a b) c

/-- `MolGrid.__getitem__(index)` as coded: without stored grids a
`LocalGrid(points[s:f], weights[s:f], _atcoords[index])` with the **aim-weighted** molecular
weights, with stored grids the `AtomGrid` object (raw atomic weights). No sign check: a negative
index goes through Python's wrap-around in `_indices[index]`, `_indices[index + 1]`. -/
def MolGrid.getItem (m : MolGrid P K) (index : Int) : Py (SubGrid P K) :=
  match m.atgrids with
  | none => do
    let s ← pyGet m.indices index
    let f ← pyGet m.indices (index + 1)
    let c ← pyGet m.atcoords index
    mkLocalGrid (pySlice m.points s f) (pySlice m.weights s f) c
  | some gs => do pure (.atom (← pyGet gs index))

/-- The keys `MolGrid.save` writes, in order; it iterates `self.atgrids`, hence `TypeError`
(`'NoneType' object is not iterable`) when the atomic grids are not stored. -/
def MolGrid.saveKeys (m : MolGrid P K) : Py (List String) :=
  match m.atgrids with
  | none => throw .typeError
  | some gs =>
    pure (["points", "weights", "atweights", "atcoords", "aim_weights", "indices"] ++
      (List.range gs.length).flatMap fun i =>
        ["points", "weights", "center", "degrees", "indices", "rgrid_pts", "rgrid_weights"].map
          fun k => "atgrid_" ++ toString i ++ "_" ++ k)

/-! ### per-atom argument fan-out of the convenience constructors -/

/-- A constructor argument that may be given once, per atom, or per element:
an instance of the expected class (`OneDGrid`, `str`), a `list`, a `dict` keyed by atomic
number, `None`, or something else. -/
inductive PyArg (α : Type) where
  | obj (x : α)
  | list (l : List α)
  | dict (d : Nat → Option α)
  | none
  | other

/-- `d[key]` of a Python dict: `KeyError` when absent. -/
def pyLookup (d : Nat → Option α) (key : Nat) : Py α :=
  match d key with
  | some x => pure x
  | none => throw .keyError

/-- **Hand model of the selection** (what `fanout_spec` is about): atom `i` gets the single
value, the `i`-th list entry, the `atnums[i]`-keyed dict entry, or — for `None`, where a default
exists — the default for `atnums[i]`; anything else is a `TypeError`. -/
def pick (arg : PyArg α) (dflt : Option (Nat → Py α)) (atnums : List Nat) (i : Nat) : Py α :=
  match arg with
  | .obj x => pure x
  | .list l => pyGet l i
  | .dict d => do pyLookup d (← pyGet atnums i)
  | .none =>
    match dflt with
    | some f => do f (← pyGet atnums i)
    | none => throw .typeError
  | .other => throw .typeError

/-- `aim_weights=None` means `BeckeWeights(order=3)` (passed in as `becke3`). -/
def aimOrDefault (aim : Option (AimArg P K)) (becke3 : AimArg P K) : AimArg P K :=
  match aim with
  | some a => a
  | none => becke3

/-- The per-atom grid list of `MolGrid.from_preset`: for `i in range(len(atnums))` select the
radial grid, select the preset, call `AtomGrid.from_preset(atnum=atnums[i], preset, rgrid,
center=atcoords[i], rotate)`. `selR`, `selP` are the two selection functions (the hand model
`pick`, or the regenerated ones of `Gen/MolGrid.lean`). -/
def presetGrids (selR : PyArg R → List Nat → Nat → Py R) (selP : PyArg S → List Nat → Nat → Py S)
    (mkAt : Nat → S → R → P → Rot → Py (AtGrid P K))
    (atnums : List Nat) (atcoords : List P) (preset : PyArg S) (rgrid : PyArg R) (rotate : Rot) :
    Py (List (AtGrid P K)) :=
  allOk (fun i => do
    let rad ← selR rgrid atnums i
    let gd ← selP preset atnums i
    let z ← pyGet atnums i
    let c ← pyGet atcoords i
    mkAt z gd rad c rotate) (List.range atnums.length)

/-- `MolGrid.from_preset` (the `atcoords.ndim != 2` rejection happens before the modelled part:
here `atcoords` is a list of points). -/
def fromPresetWith [Add K] [Mul K] [NatCast K]
    (selR : PyArg R → List Nat → Nat → Py R) (selP : PyArg S → List Nat → Nat → Py S)
    (mkAt : Nat → S → R → P → Rot → Py (AtGrid P K)) (becke3 : AimArg P K)
    (atnums : List Nat) (atcoords : List P) (preset : PyArg S) (rgrid : PyArg R)
    (aim : Option (AimArg P K)) (rotate : Rot) (store : Bool) : Py (MolGrid P K) :=
  if atnums.length ≠ atcoords.length then throw .valueError else do
  let grids ← presetGrids selR selP mkAt atnums atcoords preset rgrid rotate
  MolGrid.init atnums grids (aimOrDefault aim becke3) store

/-- `from_preset` with the hand model of the selection. -/
def fromPreset [Add K] [Mul K] [NatCast K] (dflt : Nat → Py R)
    (mkAt : Nat → S → R → P → Rot → Py (AtGrid P K)) (becke3 : AimArg P K)
    (atnums : List Nat) (atcoords : List P) (preset : PyArg S) (rgrid : PyArg R)
    (aim : Option (AimArg P K)) (rotate : Rot) (store : Bool) : Py (MolGrid P K) :=
  fromPresetWith (fun a => pick a (some dflt)) (fun a => pick a Option.none) mkAt becke3
    atnums atcoords preset rgrid aim rotate store

/-- Hand model of `from_size`'s radial grid: `None` → default for this atom's number, anything
else is handed to `AtomGrid(...)`, which accepts a `OneDGrid` only (`TypeError` otherwise:
`from_size` has **no** list / dict fan-out). -/
def sizeRad (rgrid : PyArg R) (dflt : Nat → Py R) (atnum : Nat) : Py R :=
  match rgrid with
  | .none => dflt atnum
  | .obj r => pure r
  | _ => throw .typeError

/-- The per-atom grid list of `MolGrid.from_size`: `for atnum, atcoord in zip(atnums, atcoords)`
(no length check: `zip` stops at the shorter one), `AtomGrid(rad, degrees=None, sizes=[size],
center=atcoord, rotate)`. -/
def sizeGrids (selR : PyArg R → (Nat → Py R) → Nat → Py R) (dflt : Nat → Py R)
    (mkAt : R → Sz → P → Rot → Py (AtGrid P K))
    (atnums : List Nat) (atcoords : List P) (size : Sz) (rgrid : PyArg R) (rotate : Rot) :
    Py (List (AtGrid P K)) :=
  allOk (fun zc : Nat × P => do
    let rad ← selR rgrid dflt zc.1
    mkAt rad size zc.2 rotate) (atnums.zip atcoords)

def fromSizeWith [Add K] [Mul K] [NatCast K]
    (selR : PyArg R → (Nat → Py R) → Nat → Py R) (dflt : Nat → Py R)
    (mkAt : R → Sz → P → Rot → Py (AtGrid P K)) (becke3 : AimArg P K)
    (atnums : List Nat) (atcoords : List P) (size : Sz) (rgrid : PyArg R)
    (aim : Option (AimArg P K)) (rotate : Rot) (store : Bool) : Py (MolGrid P K) := do
  let grids ← sizeGrids selR dflt mkAt atnums atcoords size rgrid rotate
  MolGrid.init atnums grids (aimOrDefault aim becke3) store

def fromSize [Add K] [Mul K] [NatCast K] (dflt : Nat → Py R)
    (mkAt : R → Sz → P → Rot → Py (AtGrid P K)) (becke3 : AimArg P K)
    (atnums : List Nat) (atcoords : List P) (size : Sz) (rgrid : PyArg R)
    (aim : Option (AimArg P K)) (rotate : Rot) (store : Bool) : Py (MolGrid P K) :=
  fromSizeWith sizeRad dflt mkAt becke3 atnums atcoords size rgrid aim rotate store

/-- `radius`: a `float` / `np.float64` is repeated for every atom, anything else is indexed
as it is (a list / array; an `int` fails with `TypeError` at the first atom). -/
inductive RadArg (Rad : Type) where
  | float (x : Rad)
  | list (l : List Rad)
  | other

/-- `d_sectors`: an `int` / `np.integer` is repeated for every atom, else a per-atom list. -/
inductive DArg (DS : Type) where
  | int (d : DS)
  | list (l : List DS)

/-- `[d_sectors] * natoms` for an `int`, the list itself otherwise. -/
def DArg.toList (natoms : Nat) : DArg DS → List DS
  | .int x => List.replicate natoms x
  | .list l => l

/-- `s_sectors`: `None`, a per-atom list, or (as the signature advertises) an `int` — on which
`len(s_sectors)` raises `TypeError`. -/
inductive SArg (SS : Type) where
  | none
  | list (l : List SS)
  | int

/-- The normalisation block of `from_pruned` before the loop: per-atom lists of
`d_sectors[i]` / `s_sectors[i]` (one of the two is `None` for every atom) with the two length
checks against `r_sectors`, and `radius_atom`. `natoms = len(atcoords)`. -/
def prunedSectors (natoms : Nat) (nR : Nat) (d : DArg DS) (s : SArg SS) :
    Py (List (Option DS) × List (Option SS)) :=
  let d1 : List DS := d.toList natoms
  match s with
  | .none =>
    if d1.length ≠ nR then throw .valueError
    else if natoms ≠ nR then throw .valueError
    else pure (d1.map some, List.replicate natoms Option.none)
  | .list l =>
    if natoms ≠ nR then throw .valueError
    else if l.length ≠ nR then throw .valueError
    else pure (List.replicate natoms Option.none, l.map some)
  | .int =>
    if natoms ≠ nR then throw .valueError
    else throw .typeError

def radiusAtom (natoms : Nat) (radius : RadArg Rad) (i : Nat) : Py Rad :=
  match radius with
  | .float x => pyGet (List.replicate natoms x) i
  | .list l => pyGet l i
  | .other => throw .typeError

/-- The per-atom grid list of `MolGrid.from_pruned`: `for i, atnum in enumerate(atnums)`,
`AtomGrid.from_pruned(rad, radius_atom[i], r_sectors=r_sectors[i], d_sectors=d_sectors[i],
s_sectors=s_sectors[i], center=atcoords[i], rotate)`. -/
def prunedGrids (selR : PyArg R → List Nat → Nat → Py R)
    (mkAt : R → Rad → RS → Option DS → Option SS → P → Rot → Py (AtGrid P K))
    (atnums : List Nat) (atcoords : List P) (radius : RadArg Rad) (rSectors : List RS)
    (dl : List (Option DS)) (sl : List (Option SS)) (rgrid : PyArg R) (rotate : Rot) :
    Py (List (AtGrid P K)) :=
  allOk (fun i => do
    let rad ← selR rgrid atnums i
    let ra ← radiusAtom atcoords.length radius i
    let rs ← pyGet rSectors i
    let ds ← pyGet dl i
    let ss ← pyGet sl i
    let c ← pyGet atcoords i
    mkAt rad ra rs ds ss c rotate) (List.range atnums.length)

def fromPrunedWith [Add K] [Mul K] [NatCast K] (selR : PyArg R → List Nat → Nat → Py R)
    (mkAt : R → Rad → RS → Option DS → Option SS → P → Rot → Py (AtGrid P K))
    (becke3 : AimArg P K) (atnums : List Nat) (atcoords : List P) (radius : RadArg Rad)
    (rSectors : List RS) (d : DArg DS) (s : SArg SS) (rgrid : PyArg R)
    (aim : Option (AimArg P K)) (rotate : Rot) (store : Bool) : Py (MolGrid P K) :=
  if atnums.length ≠ atcoords.length then throw .valueError else do
  let (dl, sl) ← prunedSectors atcoords.length rSectors.length d s
  let grids ← prunedGrids selR mkAt atnums atcoords radius rSectors dl sl rgrid rotate
  MolGrid.init atnums grids (aimOrDefault aim becke3) store

def fromPruned [Add K] [Mul K] [NatCast K] (dflt : Nat → Py R)
    (mkAt : R → Rad → RS → Option DS → Option SS → P → Rot → Py (AtGrid P K))
    (becke3 : AimArg P K) (atnums : List Nat) (atcoords : List P) (radius : RadArg Rad)
    (rSectors : List RS) (d : DArg DS) (s : SArg SS) (rgrid : PyArg R)
    (aim : Option (AimArg P K)) (rotate : Rot) (store : Bool) : Py (MolGrid P K) :=
  fromPrunedWith (fun a => pick a (some dflt)) mkAt becke3 atnums atcoords radius rSectors d s
    rgrid aim rotate store

/-- `_generate_default_rgrid(atnum)`: `ValueError` unless the atomic number is a key of
`_DEFAULT_POWER_RTRANSFORM_PARAMS`; else the radial grid built from its `(rmin, rmax, npt)`
(`build`, a given component: `PowerRTransform(rmin·Å/a₀, rmax·Å/a₀)` of `UniformInteger(npt)`). -/
def defaultRgrid {T : Type} (table : List (Nat × T)) (build : T → R) (atnum : Nat) : Py R :=
  match table.find? (fun p => p.1 == atnum) with
  | some p => pure (build p.2)
  | none => throw .valueError


/-! ### round 3: `MolGrid.interpolate`, the default radial grid, `save`

Primitives the generated `Gen.MolGrid.interpolate`, `interpolate_low`, `generate_default_rgrid`,
`save` are written in, and the hand models they are proved equal to. -/

/-- `for i in range(n): state = body(state, i)` where the body may raise. -/
def pyForRange {σ : Type} (n : Nat) (body : σ → Nat → Py σ) (s : σ) : Py σ :=
  (List.range n).foldlM body s

/-- `for x in xs: state = body(state, x)` where the body may raise. -/
def pyForEach {σ : Type} (body : σ → α → Py σ) (xs : List α) (s : σ) : Py σ :=
  xs.foldlM body s

/-- `l[a:]` for a non-negative literal `a`. -/
def pySliceFrom (l : List α) (a : Nat) : List α := l.drop a

/-- `a * b` of two 1-D NumPy arrays: equal lengths multiply entry by entry, a length-1 operand is
broadcast, everything else is NumPy's `ValueError` ("operands could not be broadcast together"). -/
def npMul1 [Mul K] (a b : List K) : Py (List K) :=
  if a.length = b.length then pure (List.zipWith (· * ·) a b)
  else match a, b with
    | [x], _ => pure (b.map (x * ·))
    | _, [y] => pure (a.map (· * y))
    | _, _ => throw .valueError

/-- A NumPy array as the interpolation routines hand it back: shape and row-major data. -/
structure NdArr (K : Type) where
  shape : List Nat
  data : List K
  deriving DecidableEq, Repr

/-- Row-major strides of a shape. -/
def stridesOf : List Nat → List Nat
  | [] => []
  | _ :: r => r.prod :: stridesOf r

/-- NumPy's rule for `out += b` (in place: the shape of `out` is kept): `b`'s shape, right-aligned
against `out`'s, must agree with it in every axis or be 1 there (and `b` must not have more axes). -/
def broadcastsInto (bshape oshape : List Nat) : Bool :=
  bshape.length ≤ oshape.length &&
    (List.zip bshape.reverse oshape.reverse).all fun p => p.1 == p.2 || p.1 == 1

/-- Flat index into `b` of the entry that is added to the entry with flat index `k` of `out`. -/
def broadcastIndex (bshape oshape : List Nat) (k : Nat) : Nat :=
  let osh := oshape.drop (oshape.length - bshape.length)
  let ostr := stridesOf osh
  let bstr := stridesOf bshape
  ((List.zip (List.zip osh ostr) (List.zip bshape bstr)).map fun q =>
    let i := (k / q.1.2) % q.1.1
    (if q.2.1 == 1 then 0 else i) * q.2.2).sum

/-- `out += b` on NumPy arrays: same shape → entry by entry; `b` broadcastable into `out` → NumPy's
broadcast; otherwise `ValueError`. -/
def npIAdd [Add K] (out b : NdArr K) : Py (NdArr K) :=
  if out.shape = b.shape then pure ⟨out.shape, List.zipWith (· + ·) out.data b.data⟩
  else if broadcastsInto b.shape out.shape then
    match (List.range out.data.length).mapM (fun k => b.data[broadcastIndex b.shape out.shape k]?) with
    | some bb => pure ⟨out.shape, List.zipWith (· + ·) out.data bb⟩
    | none => throw .valueError
  else throw .valueError

/-- What `AtomGrid.interpolate(func_vals)` hands back: a callable
`(points, deriv, deriv_spherical, only_radial_derivs) ↦ array` (which may raise). `Q` is the type of
the `points` argument — `MolGrid.interpolate` only passes it on. -/
abbrev Interp (Q K : Type) := Q → Int → Bool → Bool → Py (NdArr K)

/-- `atom_grid.interpolate(vals)` on what `self[i]` handed back: an `AtomGrid` has the method (a given
component: C09), a `LocalGrid` has not (`AttributeError`). -/
def subInterpolate {Q : Type} (atInterp : AtGrid P K → List K → Py (Interp Q K)) (g : SubGrid P K)
    (vals : List K) : Py (Interp Q K) :=
  match g with
  | .atom a => atInterp a vals
  | .localGrid .. => throw .attributeError

/-- **Hand model** of the inner `interpolate_low`: the first atom's array, then `+=` the others in
order; no atom at all is the `IndexError` of `interpolate_funcs[0]`. -/
def sumInterp {Q : Type} [Add K] (fs : List (Interp Q K)) : Interp Q K := fun pts d ds ord =>
  match fs with
  | [] => throw .indexError
  | f0 :: r => do
    let out0 ← f0 pts d ds ord
    r.foldlM (fun out f => do npIAdd out (← f pts d ds ord)) out0

/-- **Hand model** of `MolGrid.interpolate(func_vals)`: `ValueError` without stored atomic grids; else
atom `i` interpolates `(func_vals * aim_weights)[indices[i]:indices[i+1]]` on its stored grid, and the
callable handed back sums the atomic interpolants. -/
def MolGrid.interpolate {Q : Type} [Add K] [Mul K]
    (atInterp : AtGrid P K → List K → Py (Interp Q K)) (m : MolGrid P K) (funcVals : List K) :
    Py (Interp Q K) :=
  match m.atgrids with
  | none => throw .valueError
  | some gs => do
    let fa ← npMul1 funcVals m.aimWeights
    let fs ← allOk (fun i : Nat => do
      let a ← pyGet m.indices (i : Int)
      let b ← pyGet m.indices ((i : Int) + 1)
      let g ← pyGet gs (i : Int)
      atInterp g (pySlice fa a b)) (List.range m.atcoords.length)
    pure (sumInterp fs)

/-- A decimal literal of the source: `mant · 10^(-scale)`, exactly. -/
structure Dec where
  mant : Nat
  scale : Nat
  deriving DecidableEq, Repr

/-- The value of a decimal literal in `K` (`Float`: rounded twice, within 2 ulp of Python's reading of
the literal; `ℚ`, `ℝ`: exact). -/
def Dec.val [NatCast K] [Div K] (d : Dec) : K := ((d.mant : Nat) : K) / ((10 ^ d.scale : Nat) : K)

/-- `key in d` for a dict literal given as a list of rows. -/
def pyDictIn {T : Type} (d : List (Nat × T)) (key : Nat) : Bool := d.any fun p => p.1 == key

/-- `d[key]` for a dict literal given as a list of rows (`KeyError` when absent). -/
def pyDictGet {T : Type} (d : List (Nat × T)) (key : Nat) : Py T :=
  match d.find? (fun p => p.1 == key) with
  | some p => pure p.2
  | none => throw .keyError

/-- What `MolGrid.save` stores under a key: which attribute of which object. -/
inductive SaveVal where
  | self (attr : String)
  | atgrid (i : Nat) (attr : String)
  deriving DecidableEq, Repr

/-- `d[key] = v` on a dict kept as an association list in insertion order (an existing key keeps its
place). -/
def pyDictSet {T : Type} (d : List (String × T)) (key : String) (v : T) : List (String × T) :=
  if d.any (fun p => p.1 == key) then d.map (fun p => if p.1 == key then (key, v) else p)
  else d ++ [(key, v)]

/-- `str(i)` of a non-negative integer. -/
def pyStr (i : Nat) : String := toString i


/-! ### round 6: the aim-weights default of the convenience constructors, element-wise post-processing -/

/-- `x is None`. -/
def pyIsNone (x : Option α) : Bool := x.isNone

/-- `callable(aim_weights)` on what a caller may pass (`None` is not callable). -/
def pyAimCallable : Option (AimArg P K) → Bool
  | some (.callable _) => true
  | _ => false

/-- `isinstance(aim_weights, np.ndarray)`. -/
def pyAimIsArray : Option (AimArg P K) → Bool
  | some (.array _) => true
  | _ => false

/-- The argument as `MolGrid.__init__` meets it when no default replaced it: `None` is neither callable
nor an array (`TypeError` there). -/
def pyAimKeep : Option (AimArg P K) → AimArg P K
  | some a => a
  | none => .other

/-- `np.clip(x, lo, hi)` on a 1-D array. -/
def npClip [Max K] [Min K] (xs : List K) (lo hi : K) : List K := xs.map fun x => min (max x lo) hi

/-- `np.maximum(x, c)` / `np.minimum(x, c)` on a 1-D array and a scalar. -/
def npMaximum [Max K] (xs : List K) (c : K) : List K := xs.map fun x => max x c
def npMinimum [Min K] (xs : List K) (c : K) : List K := xs.map fun x => min x c

/-- `np.ones(n)` (a float shape raises `TypeError`, as for `np.zeros`). -/
def npOnes [NatCast K] (n : NpNum) : Py (List K) := npZeros n ((1 : Nat) : K)

end GridVerif.MolGrid

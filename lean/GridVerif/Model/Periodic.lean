/-
  C11 — model of `PeriodicGrid` (src/grid/periodicgrid.py): constructor (reciprocal vectors,
  plane spacings, wrapping, intervals of the fractional coordinates), the `points` setter,
  `__getitem__` and `get_localgrid`.

  Hand-written.  Tie to the code: `PeriodicGrid.__init__`, the `points` setter, `__getitem__` and
  `get_localgrid` are translated statement by statement into `Gen/LocalGrid.lean`
  (harness/translate/localgrid.py) and proved equal to the functions below (`Props/C11/Gen.lean`);
  the driver executes the generated definitions, compared with the implementation by
  harness/props/c11.py.  No Mathlib import.

  * Vectors are coordinate lists (`Model/LocalGrid.lean`); 1-D array points (`points.ndim == 1`)
    are `[x]`, a 1-D lattice vector `np.array([a])` is `[[a]]`.
  * The reciprocal vectors of the N-D case come out of an SVD pseudo-inverse in the code; the
    model takes them as a **parameter** (`reciParam`) — their contract `bₖ·aₗ = δₖₗ` is a
    hypothesis of the theorems and is checked on the implementation's `recivecs` by the harness.
    The 1-D special cases (`1 / realvecs`, `1 / abs(recivecs)`) are modelled as coded.
  * The kd-tree is the snapshot of the points it was built from; `ballQuery` is its contract.
-/
import GridVerif.Model.Elem
import GridVerif.Model.LocalGrid

namespace GridVerif.Periodic
open GridVerif.LocalGrid

/-- `np.floor(x).astype(int)` / `np.ceil(x).astype(int)`. -/
class FloorCeil (K : Type) where
  floor : K → Int
  ceil : K → Int

instance : FloorCeil Float where
  floor x := (Float.floor x).toInt64.toInt
  ceil x := (Float.ceil x).toInt64.toInt

instance : IntCast Float := ⟨Float.ofInt⟩

section generic
variable {K : Type} [Add K] [Sub K] [Mul K] [Div K] [Neg K] [NatCast K] [IntCast K]

def dot (u v : Point K) : K :=
  (List.zipWith (· * ·) u v).foldr (· + ·) ((0 : Nat) : K)

def vadd (u v : Point K) : Point K := List.zipWith (· + ·) u v
def vsub (u v : Point K) : Point K := List.zipWith (· - ·) u v
def smul (a : K) (u : Point K) : Point K := u.map (a * ·)
def zeroVec (d : Nat) : Point K := List.replicate d ((0 : Nat) : K)

/-- `js @ vecs` = `Σₖ jsₖ · vecsₖ` (a vector with `d` components). -/
def lincomb (d : Nat) (js : List K) (vecs : List (Point K)) : Point K :=
  (List.zipWith smul js vecs).foldr vadd (zeroVec d)

/-- `delta = ilc @ self._realvecs` for integer coefficients. -/
def delta (d : Nat) (ilc : List Int) (realvecs : List (Point K)) : Point K :=
  lincomb d (ilc.map fun j => ((j : Int) : K)) realvecs

variable [Elem K] [FloorCeil K] [LE K] [DecidableLE K] [LT K] [DecidableLT K]

/-- `np.linalg.norm(b)`. -/
def norm (u : Point K) : K := Elem.sqrt (dot u u)

/-- The state of a `PeriodicGrid` object. -/
structure PGrid (K : Type) where
  /-- `points.ndim == 1` -/
  oned : Bool
  dim : Nat
  /-- `self._points` (after wrapping, if asked) -/
  points : List (Point K)
  weights : List K
  /-- `self._realvecs`, one lattice vector per entry -/
  realvecs : List (Point K)
  /-- `self._recivecs` -/
  recivecs : List (Point K)
  /-- `self._spacings` -/
  spacings : List K
  /-- `self._frac_intvls`: `(min, max)` of the fractional coordinates per lattice vector -/
  fracIntvls : List (K × K)
  /-- `self._kdtree`: the points the tree was built from -/
  tree : Option (List (Point K))

/-- Reciprocal vectors: none without lattice vectors; `1 / realvecs` for 1-D array points;
otherwise the pseudo-inverse handed in as parameter. -/
def recipOf (oned : Bool) (realvecs reciParam : List (Point K)) : List (Point K) :=
  if realvecs.isEmpty then []
  else if oned then realvecs.map fun a => a.map fun x => ((1 : Nat) : K) / x
  else reciParam

/-- Spacing between adjacent crystal planes: `1 / abs(b)` for 1-D array points, else
`1 / ‖bₖ‖`. -/
def spacingOf (oned : Bool) (b : Point K) : K :=
  ((1 : Nat) : K) / (match oned, b with
    | true, [x] => Elem.abs x
    | _, _ => norm b)

/-- `frac_shift = -np.floor(frac)` for one fractional coordinate. -/
def shiftOf (f : K) : K := -(((FloorCeil.floor f : Int)) : K)

/-- `[frac.min(), frac.max()]` per reciprocal vector, for the fractional coordinates `fv p b`
of the points `p0 :: rest`. -/
def intervalsOf (reci : List (Point K)) (fv : Point K → Point K → K) (p0 : Point K)
    (rest : List (Point K)) : List (K × K) :=
  reci.map fun b => (minOf (fv p0 b) (rest.map (fv · b)), maxOf (fv p0 b) (rest.map (fv · b)))

/-- `PeriodicGrid.__init__(points, weights, realvecs, wrap)`.  `realvecs = None` is the empty
list.  ValueError: column mismatch, more lattice vectors than dimensions, no points
(`min` of an empty array), numbers of points and weights differ.  (The singularity test of the
SVD branch is part of the contract of `reciParam` and not modelled.) -/
def construct (oned : Bool) (dim : Nat) (pts : List (Point K)) (w : List K)
    (realvecs reciParam : List (Point K)) (wrap : Bool) : Except Err (PGrid K) :=
  if oned ∧ dim ≠ 1 then .error .valueError
  else if ¬ realvecs.all (fun a => a.length == dim) then .error .valueError
  else if realvecs.length > dim then .error .valueError
  else if ¬ pts.all (fun p => p.length == dim) then .error .valueError
  else if pts.length ≠ w.length then .error .valueError
  else
    let reci := recipOf oned realvecs reciParam
    let spac := reci.map (spacingOf oned)
    let doWrap := wrap && !realvecs.isEmpty
    -- fractional coordinate of point `p` along `b`, after the shift into [0, 1) if wrapping
    let fv (p b : Point K) : K :=
      let f := dot p b
      if doWrap then f + shiftOf f else f
    let wrapPoint (p : Point K) : Point K :=
      if doWrap then vadd p (lincomb dim (reci.map fun b => shiftOf (dot p b)) realvecs) else p
    match pts with
    | [] => .error .valueError
    | p0 :: rest =>
      .ok { oned, dim, points := (p0 :: rest).map wrapPoint, weights := w, realvecs,
            recivecs := reci, spacings := spac,
            fracIntvls := intervalsOf reci fv p0 rest, tree := none }

/-- `value.shape != self._points.shape`. -/
def sameShape (g : PGrid K) (oned : Bool) (dim : Nat) (value : List (Point K)) : Bool :=
  oned == g.oned && dim == g.dim && value.length == g.points.length &&
    value.all (fun p => p.length == dim)

/-- `grid.points = value` (`PeriodicGrid.points` setter): base-class setter (shape check, tree
dropped), then the intervals of the fractional coordinates of the new points (no wrapping). -/
def setPoints (g : PGrid K) (oned : Bool) (dim : Nat) (value : List (Point K)) :
    PGrid K × Out K :=
  if ¬ sameShape g oned dim value then (g, .error .valueError)
  else match value with
    | [] => (g, .error .valueError)   -- `min` of an empty array
    | p0 :: rest =>
      ({ g with points := value, tree := none,
                fracIntvls := intervalsOf g.recivecs (fun p b => dot p b) p0 rest }, .done)

def setWeights (g : PGrid K) (value : List K) : PGrid K × Out K :=
  if value.length ≠ g.weights.length then (g, .error .valueError)
  else ({ g with weights := value }, .done)

/-- `center.shape != self._points.shape[1:]`. -/
def centreOf (g : PGrid K) : Centre K → Option (Point K)
  | .scalar x => if g.oned then some [x] else none
  | .vector xs => if ¬ g.oned ∧ xs.length = g.dim then some xs else none

/-- `range(lo, hi + 1)`. -/
def intRange (lo hi : Int) : List Int :=
  (List.range (hi + 1 - lo).toNat).map fun (k : Nat) => lo + (k : Int)

/-- `itertools.product(*ranges)` (last factor runs fastest). -/
def product : List (List Int) → List (List Int)
  | [] => [[]]
  | r :: rs => r.flatMap fun x => (product rs).map (x :: ·)

/-- Per lattice vector the integer range
`ceil(fmin − b·c − r/s) … floor(fmax − b·c + r/s)`. -/
def ilcRanges (g : PGrid K) (c : Point K) (r : K) : List (List Int) :=
  List.zipWith (fun (bs : Point K × K) (iv : K × K) =>
      let fc := dot bs.1 c
      intRange (FloorCeil.ceil (iv.1 - fc - r / bs.2)) (FloorCeil.floor (iv.2 - fc + r / bs.2)))
    (g.recivecs.zip g.spacings) g.fracIntvls

/-- All `(ilc, i)` found: for every integer combination of the box, the ball query around the
displaced centre `c + ilc @ realvecs`. -/
def entries (g : PGrid K) (tree : List (Point K)) (c : Point K) (r : K) : List (List Int × Nat) :=
  (product (ilcRanges g c r)).flatMap fun ilc =>
    (ballQuery tree (vadd c (delta g.dim ilc g.realvecs)) r).map fun i => (ilc, i)

/-- Stored position of an entry: `points[i] − ilc @ realvecs`. -/
def entryPoint (g : PGrid K) (e : List Int × Nat) : Option (Point K) :=
  g.points[e.2]?.map fun x => vsub x (delta g.dim e.1 g.realvecs)

/-- `PeriodicGrid.get_localgrid(center, radius)`: new `_kdtree` and outcome.  (Blocks without
hits are skipped in the code and an empty result is returned as an empty `LocalGrid`: both
are invisible in the concatenation.) -/
def getLocalgrid (g : PGrid K) (c : Centre K) (r : Radius K) : Option (List (Point K)) × Out K :=
  match centreOf g c with
  | none => (g.tree, .error .valueError)
  | some c =>
    match r with
    | .nan => (g.tree, .error .valueError)
    | .inf => (g.tree, .error .valueError)      -- `not np.isfinite(radius)`
    | .fin r =>
      if r < ((0 : Nat) : K) then (g.tree, .error .valueError) else
      let tree := match g.tree with
        | some t => t
        | none => g.points
      let es := entries g tree c r
      match es.mapM (entryPoint g), es.mapM (fun e => g.weights[e.2]?) with
      | some lp, some lw => (some tree, .localGrid (es.map (·.2)) lp lw)
      | _, _ => (some tree, .error .indexError)

/-- `grid[index]`: `PeriodicGrid(points[index], weights[index], self.realvecs)` (no wrapping;
the reciprocal vectors of the same lattice). -/
def getItem (g : PGrid K) (idx : Index) : Except Err (PGrid K) :=
  match select idx g.weights.length with
  | .error e => .error e
  | .ok sel =>
    match gather g.points sel, gather g.weights sel with
    | some p, some w => construct g.oned g.dim p w g.realvecs g.recivecs false
    | _, _ => .error .indexError

inductive POp (K : Type) where
  | query (c : Centre K) (r : Radius K)
  | setPoints (oned : Bool) (dim : Nat) (value : List (Point K))
  | setWeights (value : List K)
  | getItem (idx : Index)

/-- What the caller sees. -/
inductive POut (K : Type) where
  | out (o : Out K)
  /-- a new periodic grid from `__getitem__` -/
  | grid (g : PGrid K)

def step (g : PGrid K) : POp K → PGrid K × POut K
  | .query c r =>
    let (t, o) := getLocalgrid g c r
    ({ g with tree := t }, .out o)
  | .setPoints oned dim value =>
    let (g', o) := setPoints g oned dim value
    (g', .out o)
  | .setWeights value =>
    let (g', o) := setWeights g value
    (g', .out o)
  | .getItem idx =>
    match getItem g idx with
    | .ok sub => (g, .grid sub)
    | .error e => (g, .out (.error e))

def run (g : PGrid K) : List (POp K) → PGrid K × List (POut K)
  | [] => (g, [])
  | op :: ops =>
    let (g', o) := step g op
    let (g'', os) := run g' ops
    (g'', o :: os)

end generic
end GridVerif.Periodic

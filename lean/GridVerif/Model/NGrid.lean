/-
  Model of `MultiDomainGrid` (src/grid/ngrid.py): `size`, `weights`, `points`,
  `integrate` (point-by-point route with chunking, vectorised route with the
  single-domain shortcut) and `_chunked_iterator`.

  Hand-written; tied to the code by correspondence (harness/props/c18.py) and by the
  `gen_*_eq_model` theorems of `Props/C18/Gen.lean`, which equate the programs *generated* from
  ngrid.py (`Gen/NGrid.lean`) with the definitions below; the section "primitives of the
  generated code" holds what those programs are written in.
  Generic in the point type `α` (a 1-D point is a scalar, a 3-D point a triple — the
  class never looks inside a point) and in the value type `K` (`Add`, `Mul`, `NatCast`
  only: the theorems hold over every commutative semiring, the driver runs at `Float`).
  No Mathlib import.
-/
namespace GridVerif.NGrid

variable {α β K : Type}

/-- `itertools.product(*ls)`: one element per list, the **last** list varies fastest;
the product of no lists is the one empty tuple. -/
def product : List (List β) → List (List β)
  | [] => [[]]
  | xs :: rest => xs.flatMap fun x => (product rest).map (x :: ·)

/-- `_chunked_iterator(iterator, size)`: repeatedly `list(islice(iterator, size))`,
stop at the first empty chunk. `size = 0` gives an empty first chunk, hence no chunk at
all. (Negative sizes raise in `islice`; they are not modelled.) -/
def chunked (c : Nat) (xs : List β) : List (List β) :=
  if _h : c = 0 ∨ xs = [] then [] else xs.take c :: chunked c (xs.drop c)
termination_by xs.length
decreasing_by
  have hne : xs ≠ [] := fun h => _h (Or.inr h)
  have : 0 < xs.length := List.length_pos_iff.mpr hne
  simp only [List.length_drop]
  omega

section numeric
variable [Add K] [Mul K] [NatCast K]

/-- `np.sum` of a 1-D array (exact arithmetic: the summation order is immaterial). -/
def sumK (xs : List K) : K := xs.foldr (· + ·) ((0 : Nat) : K)

/-- `np.prod` of a tuple of weights; the empty product is 1. -/
def prodK (xs : List K) : K := xs.foldr (· * ·) ((1 : Nat) : K)

end numeric

inductive Err where
  | valueError
  | typeError
  | indexError
  /-- `NotImplementedError` (`get_localgrid`, `moments` of a multi-domain grid) -/
  | notImplementedError
  /-- not a Python exception: a translated `while True` loop used up its iteration bound -/
  | nonTermination
  deriving DecidableEq, Repr

/-- `grid.basegrid.Grid`: points and weights. `Grid.__init__` rejects
`len(points) ≠ len(weights)`; that guard is `Grid.WF`. -/
structure Grid (α K : Type) where
  points : List α
  weights : List K

def Grid.WF (g : Grid α K) : Prop := g.points.length = g.weights.length

/-- `Grid.size = self._weights.size`. -/
def Grid.size (g : Grid α K) : Nat := g.weights.length

/-- The quadrature nodes of one grid: `(point, weight)` pairs. -/
def Grid.nodes (g : Grid α K) : List (α × K) := g.points.zip g.weights

/-- `Grid.integrate(values)`: shape check, then `einsum("i,i", weights, values)`. -/
def Grid.integrate [Add K] [Mul K] [NatCast K] (g : Grid α K) (vals : List K) : Except Err K :=
  if vals.length ≠ g.size then .error .valueError
  else .ok (sumK (List.zipWith (· * ·) g.weights vals))

/-- `MultiDomainGrid`: the list of grids and the optional `num_domains` argument. -/
structure MGrid (α K : Type) where
  gridList : List (Grid α K)
  numDomainsArg : Option Nat

/-- `MultiDomainGrid.__init__`: at least one grid; `num_domains` only together with
exactly one grid and then `≥ 1`. (Type checks of the arguments are not modelled.) -/
def MGrid.mk? (gl : List (Grid α K)) (nd : Option Nat) : Except Err (MGrid α K) :=
  if gl.length = 0 then .error .valueError else
  match nd with
  | none => .ok ⟨gl, none⟩
  | some n =>
    if gl.length ≠ 1 then .error .valueError
    else if n < 1 then .error .valueError
    else .ok ⟨gl, some n⟩

/-- What the constructor guarantees. -/
def MGrid.WF (g : MGrid α K) : Prop :=
  g.gridList ≠ [] ∧ (∀ n, g.numDomainsArg = some n → g.gridList.length = 1 ∧ 1 ≤ n) ∧
  ∀ x ∈ g.gridList, Grid.WF x

/-- property `num_domains`: the argument if given, else `len(grid_list)`. -/
def MGrid.numDomains (g : MGrid α K) : Nat :=
  match g.numDomainsArg with
  | some n => n
  | none => g.gridList.length

/-- The iterables handed to `itertools.product` by `weights` / `points`
(`sel` = `Grid.weights` resp. `Grid.points`). The code's test
`len(grid_list) == 1 and self.num_domains is not None` is true for every one-grid list
(the property never returns `None`), so one grid always goes through `repeat=num_domains`. -/
def MGrid.factors (g : MGrid α K) (sel : Grid α K → List β) : List (List β) :=
  match g.gridList with
  | [g0] => List.replicate g.numDomains (sel g0)
  | gl => gl.map sel

/-- The integration domains, one grid per argument of the integrand. -/
def MGrid.domains (g : MGrid α K) : List (Grid α K) :=
  match g.gridList with
  | [g0] => List.replicate g.numDomains g0
  | gl => gl

/-- property `size`: `grid_list[0].size ** num_domains` for one grid, else
`np.prod([grid.size …])`. -/
def MGrid.size (g : MGrid α K) : Nat :=
  match g.gridList with
  | [g0] => g0.size ^ g.numDomains
  | gl => (gl.map Grid.size).foldr (· * ·) 1

/-- property `weights` (the generator, as a list): `np.prod(combination)` for every
combination of one weight per domain. -/
def MGrid.weights [Mul K] [NatCast K] (g : MGrid α K) : List K :=
  (product (g.factors Grid.weights)).map prodK

/-- property `points`: every combination of one point per domain, as a tuple. -/
def MGrid.points (g : MGrid α K) : List (List α) :=
  product (g.factors Grid.points)

section integrate
variable [Add K] [Mul K] [NatCast K]

/-- `integrate(f, non_vectorized=True, integration_chunk_size=c)`: weights and values
`f(*point)` are chunked separately with the same `c`, the chunk lists are zipped, each
pair contributes `np.sum(values_array * weights_array)`. -/
def MGrid.integrateNonVec (g : MGrid α K) (f : List α → K) (c : Nat) : K :=
  let cw := chunked c g.weights
  let cv := chunked c (g.points.map f)
  (cw.zip cv).foldl (fun acc wv => acc + sumK (List.zipWith (· * ·) wv.2 wv.1)) ((0 : Nat) : K)

/-- The grids whose combinations are enumerated by the vectorised route
(`repeat = num_domains − 1` for one grid, `grid_list[:-1]` otherwise). -/
def MGrid.preFactors (g : MGrid α K) (sel : Grid α K → List β) : List (List β) :=
  match g.gridList with
  | [g0] => List.replicate (g.numDomains - 1) (sel g0)
  | gl => gl.dropLast.map sel

/-- `integrate(F)` with a vectorised integrand: `F pre xs` is the array returned by
`integrand_function(*pre, xs)` where `xs` is the whole point array of the last grid.
One domain: `grid_list[0].integrate(F(points))`. Otherwise, for every combination of the
first `N−1` domains, `pre_weight * grid_list[-1].integrate(values)`; `Grid.integrate`
raises `ValueError` when the returned array has the wrong length. -/
def MGrid.integrateVec (g : MGrid α K) (F : List α → List α → List K) : Except Err K :=
  if g.numDomains = 1 then
    match g.gridList with
    | g0 :: _ => g0.integrate (F [] g0.points)
    | [] => .error .valueError
  else
    match g.gridList.getLast? with
    | none => .error .valueError
    | some last =>
      let preW : List K := (product (g.preFactors Grid.weights)).map prodK
      let preP : List (List α) := product (g.preFactors Grid.points)
      (preP.zip preW).foldlM
        (fun acc pw => do
          let v ← last.integrate (F pw.1 last.points)
          pure (acc + pw.2 * v))
        ((0 : Nat) : K)

end integrate

/-! ### Python / NumPy / itertools primitives of the *generated* code (`Gen/NGrid.lean`)

`harness/translate/ngrid.py` translates `MultiDomainGrid.__init__`, the properties
`num_domains`, `size`, `weights`, `points`, the method `integrate` and the generator
`_chunked_iterator` statement by statement into programs over these primitives. Generators
and iterators are lists (the integrand is a function, so laziness is unobservable); whatever
raises in Python raises here. -/

/-- How the integrand is called by `integrate`: point by point, `f(*point)`, or with the whole
point array of the last domain as last argument, `f(*pre, X)` (one domain: `f(X)`). -/
structure Integrand (α K : Type) where
  pointwise : List α → K
  vectorised : List α → List α → List K

/-- `len(l)`. -/
def pyLen (l : List β) : Nat := l.length

/-- `isinstance(x, T)` for a parameter whose type is fixed by the translation (`grid_list` is a
list, its elements are grids, `num_domains` is an `int` when it is not `None`). -/
def pyIsInstance {τ : Type} (_x : τ) (_ty : String) : Bool := true

/-- `x is not None` for an `int`-valued property. -/
def pyIntIsNotNone (_x : Nat) : Bool := true

/-- `l[i]`, negative `i` counts from the end, `IndexError` outside. -/
def pyIndex (l : List β) (i : Int) : Except Err β :=
  let j : Int := if 0 ≤ i then i else i + (l.length : Int)
  if 0 ≤ j then
    match l[j.toNat]? with
    | some v => .ok v
    | none => .error .indexError
  else .error .indexError

/-- Python slice bound → position (clipped to `0..len`). -/
def pySliceIdx (len : Nat) (i : Int) : Nat :=
  if i < 0 then (i + (len : Int)).toNat else min i.toNat len

/-- `l[start:stop]` (`none` = omitted bound). -/
def pySlice (l : List β) (start stop : Option Int) : List β :=
  let a := match start with
    | none => 0
    | some i => pySliceIdx l.length i
  let b := match stop with
    | none => l.length
    | some i => pySliceIdx l.length i
  (l.take b).drop a

/-- `itertools.product(*ls)`. -/
def itertoolsProduct (ls : List (List β)) : List (List β) := product ls

/-- `itertools.product(l, repeat=n)`. -/
def itertoolsProductRepeat (l : List β) (n : Nat) : List (List β) := product (List.replicate n l)

/-- `islice(iterator, n)` consumed into a list: the first `n` items and the advanced iterator. -/
def pyIslice (iterator : List β) (n : Nat) : List β × List β := (iterator.take n, iterator.drop n)

/-- `not l` for a list. -/
def pyNot (l : List β) : Bool := l.isEmpty

/-- `l * n` for a list `l`: `n` copies, concatenated. -/
def pyListRepeat (l : List β) (n : Nat) : List β := (List.replicate n l).flatten

/-- `x or d` for an `Optional[int]` `x`: `None` and `0` are falsy. -/
def pyOptOr (x : Option Nat) (d : Nat) : Nat :=
  match x with
  | some 0 => d
  | some n => n
  | none => d

def pyZip {γ : Type} (a : List β) (b : List γ) : List (β × γ) := a.zip b
def pyList (l : List β) : List β := l
def pyIter (l : List β) : List β := l
def npArray (l : List β) : List β := l

section
variable [Add K] [Mul K] [NatCast K]
/-- `np.prod` of a sequence. -/
def npProd (xs : List K) : K := prodK xs
/-- `np.sum` of a 1-D array. -/
def npSum (xs : List K) : K := sumK xs
/-- `a * b` for two 1-D arrays (`ValueError` when the lengths differ; broadcasting of a
one-element array is not modelled). -/
def npMul (a b : List K) : Except Err (List K) :=
  if a.length ≠ b.length then .error .valueError else .ok (List.zipWith (· * ·) a b)
end

/-- One pass of the body of a `while True:` loop inside a generator: `break`, or `yield out`
and continue with the new loop state. -/
inductive GenStep (σ β : Type) where
  | brk
  | yield (out : β) (next : σ)

/-- `while True: body` of a generator function, collected into the list of yielded values;
`fuel` bounds the number of passes (running out of it is the error `nonTermination`, never a
truncated result). -/
def pyWhileTrue {σ : Type} : Nat → σ → (σ → GenStep σ β) → Except Err (List β)
  | 0, _, _ => .error .nonTermination
  | fuel + 1, s, body =>
    match body s with
    | .brk => .ok []
    | .yield out next =>
      match pyWhileTrue fuel next body with
      | .ok rest => .ok (out :: rest)
      | .error e => .error e

/-- Row-major position of a combination of per-domain indices (last index fastest),
used by the driver to read tabulated integrand values. -/
def flatIndex : List Nat → List Nat → Nat
  | _ :: ns, i :: is => i * (ns.foldr (· * ·) 1) + flatIndex ns is
  | _, _ => 0

end GridVerif.NGrid

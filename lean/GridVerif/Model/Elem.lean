/-
  Elementary-function interface shared by every numeric model.

  One text, two instances (DESIGN 2.2): the numeric definitions of the model are
  written over a type `K` carrying `Add/Sub/Mul/Div/Neg/NatCast` and `Elem K`.
  * `K = Float`  (this file)        : executable, compiled into the driver;
  * `K = ℝ`      (Lemmas/ElemReal)  : what the theorems are about.

  No Mathlib import here (the driver links this file).
-/

namespace GridVerif

/-- The elementary functions the modelled code calls.  Deliberately *not*
extending `Add`/`Mul` (instance diamonds on `ℝ`). -/
class Elem (K : Type) where
  exp : K → K
  log : K → K
  sqrt : K → K
  sin : K → K
  cos : K → K
  tan : K → K
  tanh : K → K
  sinh : K → K
  cosh : K → K
  arcsinh : K → K
  arcsin : K → K
  arccos : K → K
  arctan2 : K → K → K
  erf : K → K
  abs : K → K
  rpow : K → K → K
  pi : K

/-- `erf` for `Float` (Lean core has none):
`erf x = 2/√π · e^{-x²} · Σ_{n≥0} 2ⁿ x^{2n+1} / (1·3·…·(2n+1))` — all terms of one
sign, so no cancellation; `|x| ≥ 6` saturates to `±1` in double precision. -/
def floatErf (x : Float) : Float :=
  if x != x then x else
  let a := Float.abs x
  if a ≥ 6.0 then (if x < 0.0 then -1.0 else 1.0) else
  let x2 := a * a
  let rec go (fuel : Nat) (n : Nat) (term acc : Float) : Float :=
    match fuel with
    | 0 => acc
    | fuel + 1 =>
      let term' := term * (2.0 * x2) / (Float.ofNat (2 * n + 3))
      let acc' := acc + term'
      if acc' == acc then acc else go fuel (n + 1) term' acc'
  let s := go 400 0 a a
  let r := 1.1283791670955126 * Float.exp (-x2) * s
  if x < 0.0 then -r else r

instance : NatCast Float := ⟨Float.ofNat⟩

instance : Elem Float where
  exp := Float.exp
  log := Float.log
  sqrt := Float.sqrt
  sin := Float.sin
  cos := Float.cos
  tan := Float.tan
  tanh := Float.tanh
  sinh := Float.sinh
  cosh := Float.cosh
  arcsinh := Float.asinh
  arcsin := Float.asin
  arccos := Float.acos
  arctan2 := Float.atan2
  erf := floatErf
  abs := Float.abs
  rpow := Float.pow
  pi := 3.141592653589793

/-- `x ^ n` for a natural exponent, by repeated multiplication (generic `K`;
at `ℝ` it is proved equal to Mathlib's `x ^ n` in `Lemmas/ElemReal`). -/
def npow {K : Type} [Mul K] [NatCast K] (x : K) : Nat → K
  | 0 => ((1 : Nat) : K)
  | n + 1 => npow x n * x

end GridVerif

/-
  Model of the multipole-moment bookkeeping:
    * `generate_orders_horton_order` (src/grid/utils.py)        → `hortonOrders`
    * the stacking over `0..L` (`1..L` for pure-radial), the `(l, m) → row` index
      arithmetic and the quadrature of `Grid.moments` (src/grid/basegrid.py) → `moments`
    * `dipole_moment_of_molecule` (src/grid/utils.py)           → `dipole`

  The real regular solid harmonics are *not* modelled here (their correctness is property
  C08): `moments` receives, per centre, the table `solid_harmonics(L, sph(points − centre))`
  (rows in Horton-2 order) exactly as the code computes it and does the same look-ups.

  Hand-written; tied to the code by correspondence (harness/props/c14.py) and — for the order
  generator, the stacking and the row-index arithmetic — by the theorems of `Props/C14/Gen.lean`,
  which equate the programs *generated* from the source (`Gen/Moments.lean`) with the definitions
  below. The last section holds the Python/NumPy primitives the generated programs are written in.
  No Mathlib import.
-/
import GridVerif.Model.Elem

namespace GridVerif.Moments

inductive MomType where
  | cartesian | radial | pure | pureRadial
  deriving DecidableEq, Repr

inductive Err where
  | valueError | typeError | indexError
  -- round 3 (Gen/MomentsNum.lean): dictionary look-up, unassigned local, documented non-support, attribute of a non-array
  | keyError | unboundLocalError | notImplementedError | attributeError
  deriving DecidableEq, Repr

/-! ### orders -/

/-- Python `range(n, -1, -1)`. -/
def downFrom (n : Nat) : List Nat := (List.range (n + 1)).reverse

/-- Cartesian branch of `generate_orders_horton_order(l, "cartesian", dim)` for the three
accepted dimensions (every other `dim` is rejected before, see `hortonOrders`). -/
def cartOrders (dim l : Nat) : List (List Nat) :=
  match dim with
  | 3 => (downFrom l).flatMap fun mx => (downFrom (l - mx)).map fun my => [mx, my, l - mx - my]
  | 2 => (downFrom l).map fun mx => [mx, l - mx]
  | 1 => [[l]]
  | _ => []

/-- Pure branch: `[l, 0]`, then `[l, x], [l, -x]` for `x = 1..l`. -/
def pureOrders (l : Nat) : List (List Int) :=
  [(l : Int), 0] :: (List.range l).flatMap fun x => [[(l : Int), ((x + 1 : Nat) : Int)], [(l : Int), -((x + 1 : Nat) : Int)]]

/-- Pure-radial branch: for `l = 0..n-1`, for `m = 0..l`: `[n, l, 0]` resp. `[n, l, m], [n, l, -m]`. -/
def pureRadialOrders (n : Nat) : List (List Int) :=
  (List.range n).flatMap fun l => (List.range (l + 1)).flatMap fun (m : Nat) =>
    if m ≠ 0 then [[Int.ofNat n, Int.ofNat l, Int.ofNat m], [Int.ofNat n, Int.ofNat l, -Int.ofNat m]]
    else [[Int.ofNat n, Int.ofNat l, Int.ofNat m]]

/-- The rows returned for one order (as integer rows), without the argument checks. -/
def hortonOrdersRaw (ty : MomType) (dim l : Nat) : List (List Int) :=
  match ty with
  | .cartesian => (cartOrders dim l).map fun row => row.map Int.ofNat
  | .radial => [[(l : Int)]]
  | .pure => pureOrders l
  | .pureRadial => pureRadialOrders l

/-- `generate_orders_horton_order(l, type, dim)`: Cartesian orders exist for `dim ∈ {1,2,3}`
only (`ValueError` otherwise); the other types ignore `dim`. -/
def hortonOrders (ty : MomType) (dim l : Nat) : Except Err (List (List Int)) :=
  if ty = .cartesian ∧ ¬(dim = 1 ∨ dim = 2 ∨ dim = 3) then .error .valueError
  else .ok (hortonOrdersRaw ty dim l)

/-- `range(0, L+1)`, resp. `range(1, L+1)` for pure-radial. -/
def lRange (ty : MomType) (L : Nat) : List Nat :=
  if ty = .pureRadial then (List.range L).map (· + 1) else List.range (L + 1)

/-- The `np.vstack` of the per-order blocks, in increasing order. -/
def allOrdersRaw (ty : MomType) (L dim : Nat) : List (List Int) :=
  (lRange ty L).flatMap (hortonOrdersRaw ty dim)

/-- `(l, m) ↦ row` arithmetic of the pure-radial branch:
`indices = l**2; indices[m > 0] += 2*m - 1; indices[m <= 0] += 2*abs(m)`. -/
def rowIndex (l m : Int) : Int :=
  l * l + (if m > 0 then 2 * m - 1 else 2 * (m.natAbs : Int))

/-! ### quadrature -/

section numeric
variable {K : Type} [Add K] [Sub K] [Mul K] [Div K] [Neg K] [NatCast K] [Elem K]

def sumK (xs : List K) : K := xs.foldr (· + ·) ((0 : Nat) : K)
def prodK (xs : List K) : K := xs.foldr (· * ·) ((1 : Nat) : K)

/-- `p - c` (broadcast of the centre over the points, one point). -/
def vsub (p c : List K) : List K := List.zipWith (· - ·) p c

/-- `np.prod(d ** e)`: the Cartesian monomial `Π d_j^{e_j}` (`0**0 = 1`). -/
def monomial (d : List K) (e : List Int) : K :=
  prodK (List.zipWith (fun x n => npow x n.toNat) d e)

/-- `np.linalg.norm(d)`. -/
def norm (d : List K) : K := Elem.sqrt (sumK (d.map fun x => x * x))

/-- `einsum("n,n,n->", b, f, w)`. -/
def quad (b f w : List K) : K :=
  sumK (List.zipWith (· * ·) (List.zipWith (· * ·) b f) w)

/-- `basegrid.Grid` with 2-D points: `dim = points.shape[1]`. -/
structure Grid (K : Type) where
  dim : Nat
  points : List (List K)
  weights : List K

def Grid.WF (g : Grid K) : Prop :=
  g.points.length = g.weights.length ∧ ∀ p ∈ g.points, p.length = g.dim

/-- The integrals of all orders about one centre (one pass of the `for center in centers`
loop). `tab` is `solid_harmonics(L, sph(points - center))` (used by pure / pure-radial only). -/
def perCentre (ty : MomType) (orders : List (List Int)) (g : Grid K) (f : List K)
    (c : List K) (tab : List (List K)) : Except Err (List K) :=
  match ty with
  | .cartesian =>
    .ok (orders.map fun e => quad (g.points.map fun p => monomial (vsub p c) e) f g.weights)
  | .radial =>
    -- `np.ravel(all_orders)`: one exponent per row
    .ok (orders.flatten.map fun n => quad (g.points.map fun p => npow (norm (vsub p c)) n.toNat) f g.weights)
  | .pure =>
    -- `einsum("ln,n,n->l", solid_harm, f, w)`: one integral per *table* row
    .ok (tab.map fun r => quad r f g.weights)
  | .pureRadial =>
    orders.mapM fun o =>
      match o with
      | [n, l, m] =>
        match tab[(rowIndex l m).toNat]? with
        | some r =>
          .ok (quad (List.zipWith (· * ·) (g.points.map fun p => npow (norm (vsub p c)) n.toNat) r)
                f g.weights)
        | none => .error .indexError
      | _ => .error .typeError

/-- `np.array(cols).T` for columns of equal length `nrows`. -/
def transpose (cols : List (List K)) : Nat → List (List K)
  | 0 => []
  | n + 1 => cols.filterMap List.head? :: transpose (cols.map List.tail) n

/-- `Grid.moments(L, centers, func_vals, type_mom, return_orders=True)`.
`tabs` holds one solid-harmonics table per centre for the pure types (ignored otherwise). -/
def moments (ty : MomType) (L : Nat) (g : Grid K) (centres : List (List K)) (f : List K)
    (tabs : List (List (List K))) : Except Err (List (List K) × List (List Int)) :=
  if ¬ (∀ c ∈ centres, c.length = g.dim) then .error .valueError else
  if f.length ≠ g.points.length then .error .valueError else
  if ty = .pureRadial ∧ L = 0 then .error .valueError else
  -- generate_orders_horton_order: Cartesian needs dim ∈ {1,2,3}
  match hortonOrders ty g.dim 0 with
  | .error e => .error e
  | .ok _ =>
    let orders := allOrdersRaw ty L g.dim
    -- convert_cart_to_sph needs 3-D points (only reached inside the loop over the centres)
    if (ty = .pure ∨ ty = .pureRadial) ∧ g.dim ≠ 3 ∧ centres ≠ [] then .error .valueError else
    let tabs' : List (List (List K)) :=
      if ty = .pure ∨ ty = .pureRadial then tabs else centres.map fun _ => []
    if tabs'.length ≠ centres.length then .error .typeError else
    match (centres.zip tabs').mapM (fun ct => perCentre ty orders g f ct.1 ct.2) with
    | .error e => .error e
    | .ok cols =>
      let nrows := match cols with
        | [] => 0
        | col :: _ => col.length
      .ok (transpose cols nrows, orders)

/-- A grid whose point array is one-dimensional (`points.ndim == 1`, every `OneDGrid`), as
`Grid.moments` sees it: `points = self.points.reshape(-1, 1)`, hence `dim = 1`. -/
def Grid.ofFlat (pts w : List K) : Grid K := ⟨1, pts.map fun x => [x], w⟩

/-- Componentwise sum of vectors of length `dim`. -/
def vsum (dim : Nat) (vs : List (List K)) : List K :=
  vs.foldl (fun acc v => List.zipWith (· + ·) acc v) (List.replicate dim ((0 : Nat) : K))

/-- `dipole_moment_of_molecule(grid, density, coords, charges)`; `masses` are the
`isotopic_masses[charge]` looked up by the caller. Nuclear minus electronic first
Cartesian moments about the centre of mass, the order-0 row dropped. -/
def dipole (g : Grid K) (density : List K) (coords : List (List K)) (charges masses : List K) :
    Except Err (List K) :=
  let msum := sumK masses
  let centre := (vsum g.dim (List.zipWith (fun r m => r.map (· * m)) coords masses)).map (· / msum)
  match moments .cartesian 1 g [centre] density [] with
  | .error e => .error e
  | .ok (integrals, orders) =>
    let nuclear := orders.map fun e =>
      sumK (List.zipWith (fun r z => monomial (vsub r centre) e * z) coords charges)
    .ok ((List.zipWith (· - ·) nuclear integrals.flatten).drop 1)

end numeric

/-! ### Python / NumPy primitives of the *generated* code (`Gen/Moments.lean`)

`harness/translate/moments.py` translates `utils.generate_orders_horton_order` and the
order/index bookkeeping of `Grid.moments` statement by statement into programs over these
primitives. Everything that raises in Python raises here; nothing is defaulted. -/

/-- `list(range(start, stop, step))`. -/
def pyRange (start stop step : Int) : List Int :=
  if 0 < step then
    (List.range ((stop - start + step - 1) / step).toNat).map fun (n : Nat) => start + step * (n : Int)
  else if step < 0 then
    (List.range ((start - stop + (-step) - 1) / (-step)).toNat).map fun (n : Nat) => start + step * (n : Int)
  else []

/-- `x in [s₁, …]` for strings. -/
def pyIn (x : String) (l : List String) : Bool := l.contains x

/-- `isinstance(x, (T₁, …))` for a value that is a Python/NumPy integer (the parameter is
typed `Int`; the harness passes `int`, `np.int32` and `np.int64`): accepted iff the tuple of
types names all three integer kinds the callers use. -/
def pyIsInstanceInt (_x : Int) (types : List String) : Bool :=
  types.contains "int" && types.contains "np.int32" && types.contains "np.int64"

/-- `l[i]` on a list of integers / a shape tuple (negative `i` counts from the end). -/
def pyGet (l : List Int) (i : Int) : Except Err Int :=
  let j : Int := if 0 ≤ i then i else i + (l.length : Int)
  if 0 ≤ j then
    match l[j.toNat]? with
    | some v => .ok v
    | none => .error .indexError
  else .error .indexError

/-- `l[k:]` for a literal `k ≥ 0`. -/
def pyDrop (l : List Int) (k : Nat) : List Int := l.drop k

/-- An integer NumPy array of one or two dimensions. -/
inductive IntArr where
  | d1 (v : List Int)
  | d2 (rows : List (List Int))
  deriving DecidableEq, Repr

/-- `np.array([x, …])` of a flat list of integers: shape `(n,)`. -/
def npArray1 (v : List Int) : IntArr := .d1 v

/-- `np.array(rows, dtype=int)` of a list of equally long rows: shape `(n, k)`; of the empty
list: shape `(0,)`. -/
def npArrayRows (rows : List (List Int)) : IntArr :=
  if rows.isEmpty then .d1 [] else .d2 rows

/-- `np.atleast_2d(a)` as a list of rows (what `np.vstack` stacks). -/
def IntArr.rows : IntArr → List (List Int)
  | .d1 v => [v]
  | .d2 r => r

/-- `a.reshape(-1, k)` read as rows when `a` is 2-D, `a.reshape(-1, 1)` when `a` is 1-D: the
form in which the harness compares order arrays (a 1-D array is a column). -/
def IntArr.col : IntArr → List (List Int)
  | .d1 v => v.map fun x => [x]
  | .d2 r => r

/-- `np.vstack((a, b))` (the width check is not modelled: all blocks stacked by
`Grid.moments` come from the same branch of the order generator). -/
def npVstack (a b : IntArr) : IntArr := .d2 (a.rows ++ b.rows)

/-- `np.ravel(a)`. -/
def npRavel : IntArr → List Int
  | .d1 v => v
  | .d2 r => r.flatten

/-- Shape tuple after `a.reshape(-1, 1)`. -/
def npReshapeM1x1 (shape : List Int) : List Int := [shape.foldr (· * ·) 1, 1]

/-- `c0, c1, c2 = a.T` for a 2-D array with three columns and at least one row
(`ValueError` for any other number of columns; 1-D and empty arrays are not modelled: `TypeError`). -/
def npUnpack3T : IntArr → Except Err (List Int × List Int × List Int)
  | .d1 _ => .error .typeError
  | .d2 [] => .error .typeError
  | .d2 rows =>
    if rows.all (fun r => r.length == 3) then
      .ok (rows.map (fun r => r.getD 0 0), rows.map (fun r => r.getD 1 0), rows.map (fun r => r.getD 2 0))
    else .error .valueError

/-- elementwise `a ** k`, `k` a literal natural number. -/
def npPowS (a : List Int) (k : Nat) : List Int := a.map (· ^ k)
/-- `c * a`. -/
def npMulS (c : Int) (a : List Int) : List Int := a.map (c * ·)
/-- `a - c`. -/
def npSubS (a : List Int) (c : Int) : List Int := a.map (· - c)
/-- `a + c`. -/
def npAddS (a : List Int) (c : Int) : List Int := a.map (· + c)
/-- `np.abs(a)`. -/
def npAbs (a : List Int) : List Int := a.map fun x => (x.natAbs : Int)
/-- `a > c`, `a <= c`, `a >= c`, `a < c` (boolean masks). -/
def npGtS (a : List Int) (c : Int) : List Bool := a.map fun x => decide (x > c)
def npLeS (a : List Int) (c : Int) : List Bool := a.map fun x => decide (x ≤ c)
def npGeS (a : List Int) (c : Int) : List Bool := a.map fun x => decide (x ≥ c)
def npLtS (a : List Int) (c : Int) : List Bool := a.map fun x => decide (x < c)

/-- `a[mask]` (boolean indexing; `IndexError` when the lengths differ). -/
def npMaskGet (a : List Int) (mask : List Bool) : Except Err (List Int) :=
  if a.length ≠ mask.length then .error .indexError
  else .ok ((a.zip mask).filterMap fun xm => if xm.2 then some xm.1 else none)

/-- The selected positions of `a` receive `a[i] + v` for the successive values `v` of `vals`. -/
def maskAdd : List Int → List Bool → List Int → List Int
  | x :: xs, true :: ms, v :: vs => (x + v) :: maskAdd xs ms vs
  | x :: xs, false :: ms, vs => x :: maskAdd xs ms vs
  | xs, _, _ => xs

/-- `a[mask] += vals` (`IndexError` for a mask of the wrong length, `ValueError` when the
number of values differs from the number of selected positions; broadcasting of a single
value is not modelled). -/
def npMaskIAdd (a : List Int) (mask : List Bool) (vals : List Int) : Except Err (List Int) :=
  if a.length ≠ mask.length then .error .indexError
  else if (mask.filter id).length ≠ vals.length then .error .valueError
  else .ok (maskAdd a mask vals)

end GridVerif.Moments

/-
  Model of the multipole-moment bookkeeping:
    * `generate_orders_horton_order` (src/grid/utils.py)        → `hortonOrders`
    * the stacking over `0..L` (`1..L` for pure-radial), the `(l, m) → row` index
      arithmetic and the quadrature of `Grid.moments` (src/grid/basegrid.py) → `moments`
    * `dipole_moment_of_molecule` (src/grid/utils.py)           → `dipole`

  The real regular solid harmonics are *not* modelled here (their correctness is property
  C08): `moments` receives, per centre, the table `solid_harmonics(L, sph(points − centre))`
  (rows in Horton-2 order) exactly as the code computes it and does the same look-ups.

  Hand-written; tied to the code by correspondence (harness/props/c14.py). No Mathlib import.
-/
import GridVerif.Model.Elem

namespace GridVerif.Moments

inductive MomType where
  | cartesian | radial | pure | pureRadial
  deriving DecidableEq, Repr

inductive Err where
  | valueError | typeError | indexError
  deriving DecidableEq, Repr

/-! ### orders -/

/-- Python `range(n, -1, -1)`. -/
def downFrom (n : Nat) : List Nat := (List.range (n + 1)).reverse

/-- Cartesian branch of `generate_orders_horton_order(l, "cartesian", dim)` for the three
accepted dimensions (every other `dim` is rejected before, see `hortonOrders`). -/
def cartOrders (dim l : Nat) : List (List Nat) :=
  match dim with
  | 3 => (downFrom l).flatMap fun mx => (downFrom (l - mx)).map fun my => [mx, my, l - mx - my]
  | 2 => (downFrom l).map fun mx => [mx, l - mx]
  | 1 => [[l]]
  | _ => []

/-- Pure branch: `[l, 0]`, then `[l, x], [l, -x]` for `x = 1..l`. -/
def pureOrders (l : Nat) : List (List Int) :=
  [(l : Int), 0] :: (List.range l).flatMap fun x => [[(l : Int), ((x + 1 : Nat) : Int)], [(l : Int), -((x + 1 : Nat) : Int)]]

/-- Pure-radial branch: for `l = 0..n-1`, for `m = 0..l`: `[n, l, 0]` resp. `[n, l, m], [n, l, -m]`. -/
def pureRadialOrders (n : Nat) : List (List Int) :=
  (List.range n).flatMap fun l => (List.range (l + 1)).flatMap fun (m : Nat) =>
    if m ≠ 0 then [[Int.ofNat n, Int.ofNat l, Int.ofNat m], [Int.ofNat n, Int.ofNat l, -Int.ofNat m]]
    else [[Int.ofNat n, Int.ofNat l, Int.ofNat m]]

/-- The rows returned for one order (as integer rows), without the argument checks. -/
def hortonOrdersRaw (ty : MomType) (dim l : Nat) : List (List Int) :=
  match ty with
  | .cartesian => (cartOrders dim l).map fun row => row.map Int.ofNat
  | .radial => [[(l : Int)]]
  | .pure => pureOrders l
  | .pureRadial => pureRadialOrders l

/-- `generate_orders_horton_order(l, type, dim)`: Cartesian orders exist for `dim ∈ {1,2,3}`
only (`ValueError` otherwise); the other types ignore `dim`. -/
def hortonOrders (ty : MomType) (dim l : Nat) : Except Err (List (List Int)) :=
  if ty = .cartesian ∧ ¬(dim = 1 ∨ dim = 2 ∨ dim = 3) then .error .valueError
  else .ok (hortonOrdersRaw ty dim l)

/-- `range(0, L+1)`, resp. `range(1, L+1)` for pure-radial. -/
def lRange (ty : MomType) (L : Nat) : List Nat :=
  if ty = .pureRadial then (List.range L).map (· + 1) else List.range (L + 1)

/-- The `np.vstack` of the per-order blocks, in increasing order. -/
def allOrdersRaw (ty : MomType) (L dim : Nat) : List (List Int) :=
  (lRange ty L).flatMap (hortonOrdersRaw ty dim)

/-- `(l, m) ↦ row` arithmetic of the pure-radial branch:
`indices = l**2; indices[m > 0] += 2*m - 1; indices[m <= 0] += 2*abs(m)`. -/
def rowIndex (l m : Int) : Int :=
  l * l + (if m > 0 then 2 * m - 1 else 2 * (m.natAbs : Int))

/-! ### quadrature -/

section numeric
variable {K : Type} [Add K] [Sub K] [Mul K] [Div K] [Neg K] [NatCast K] [Elem K]

def sumK (xs : List K) : K := xs.foldr (· + ·) ((0 : Nat) : K)
def prodK (xs : List K) : K := xs.foldr (· * ·) ((1 : Nat) : K)

/-- `p - c` (broadcast of the centre over the points, one point). -/
def vsub (p c : List K) : List K := List.zipWith (· - ·) p c

/-- `np.prod(d ** e)`: the Cartesian monomial `Π d_j^{e_j}` (`0**0 = 1`). -/
def monomial (d : List K) (e : List Int) : K :=
  prodK (List.zipWith (fun x n => npow x n.toNat) d e)

/-- `np.linalg.norm(d)`. -/
def norm (d : List K) : K := Elem.sqrt (sumK (d.map fun x => x * x))

/-- `einsum("n,n,n->", b, f, w)`. -/
def quad (b f w : List K) : K :=
  sumK (List.zipWith (· * ·) (List.zipWith (· * ·) b f) w)

/-- `basegrid.Grid` with 2-D points: `dim = points.shape[1]`. -/
structure Grid (K : Type) where
  dim : Nat
  points : List (List K)
  weights : List K

def Grid.WF (g : Grid K) : Prop :=
  g.points.length = g.weights.length ∧ ∀ p ∈ g.points, p.length = g.dim

/-- The integrals of all orders about one centre (one pass of the `for center in centers`
loop). `tab` is `solid_harmonics(L, sph(points - center))` (used by pure / pure-radial only). -/
def perCentre (ty : MomType) (orders : List (List Int)) (g : Grid K) (f : List K)
    (c : List K) (tab : List (List K)) : Except Err (List K) :=
  match ty with
  | .cartesian =>
    .ok (orders.map fun e => quad (g.points.map fun p => monomial (vsub p c) e) f g.weights)
  | .radial =>
    -- `np.ravel(all_orders)`: one exponent per row
    .ok (orders.flatten.map fun n => quad (g.points.map fun p => npow (norm (vsub p c)) n.toNat) f g.weights)
  | .pure =>
    -- `einsum("ln,n,n->l", solid_harm, f, w)`: one integral per *table* row
    .ok (tab.map fun r => quad r f g.weights)
  | .pureRadial =>
    orders.mapM fun o =>
      match o with
      | [n, l, m] =>
        match tab[(rowIndex l m).toNat]? with
        | some r =>
          .ok (quad (List.zipWith (· * ·) (g.points.map fun p => npow (norm (vsub p c)) n.toNat) r)
                f g.weights)
        | none => .error .indexError
      | _ => .error .typeError

/-- `np.array(cols).T` for columns of equal length `nrows`. -/
def transpose (cols : List (List K)) : Nat → List (List K)
  | 0 => []
  | n + 1 => cols.filterMap List.head? :: transpose (cols.map List.tail) n

/-- `Grid.moments(L, centers, func_vals, type_mom, return_orders=True)`.
`tabs` holds one solid-harmonics table per centre for the pure types (ignored otherwise). -/
def moments (ty : MomType) (L : Nat) (g : Grid K) (centres : List (List K)) (f : List K)
    (tabs : List (List (List K))) : Except Err (List (List K) × List (List Int)) :=
  if ¬ (∀ c ∈ centres, c.length = g.dim) then .error .valueError else
  if f.length ≠ g.points.length then .error .valueError else
  if ty = .pureRadial ∧ L = 0 then .error .valueError else
  -- generate_orders_horton_order: Cartesian needs dim ∈ {1,2,3}
  match hortonOrders ty g.dim 0 with
  | .error e => .error e
  | .ok _ =>
    let orders := allOrdersRaw ty L g.dim
    -- convert_cart_to_sph needs 3-D points (only reached inside the loop over the centres)
    if (ty = .pure ∨ ty = .pureRadial) ∧ g.dim ≠ 3 ∧ centres ≠ [] then .error .valueError else
    let tabs' : List (List (List K)) :=
      if ty = .pure ∨ ty = .pureRadial then tabs else centres.map fun _ => []
    if tabs'.length ≠ centres.length then .error .typeError else
    match (centres.zip tabs').mapM (fun ct => perCentre ty orders g f ct.1 ct.2) with
    | .error e => .error e
    | .ok cols =>
      let nrows := match cols with
        | [] => 0
        | col :: _ => col.length
      .ok (transpose cols nrows, orders)

/-- A grid whose point array is one-dimensional (`points.ndim == 1`, every `OneDGrid`), as
`Grid.moments` sees it: `points = self.points.reshape(-1, 1)`, hence `dim = 1`. -/
def Grid.ofFlat (pts w : List K) : Grid K := ⟨1, pts.map fun x => [x], w⟩

/-- Componentwise sum of vectors of length `dim`. -/
def vsum (dim : Nat) (vs : List (List K)) : List K :=
  vs.foldl (fun acc v => List.zipWith (· + ·) acc v) (List.replicate dim ((0 : Nat) : K))

/-- `dipole_moment_of_molecule(grid, density, coords, charges)`; `masses` are the
`isotopic_masses[charge]` looked up by the caller. Nuclear minus electronic first
Cartesian moments about the centre of mass, the order-0 row dropped. -/
def dipole (g : Grid K) (density : List K) (coords : List (List K)) (charges masses : List K) :
    Except Err (List K) :=
  let msum := sumK masses
  let centre := (vsum g.dim (List.zipWith (fun r m => r.map (· * m)) coords masses)).map (· / msum)
  match moments .cartesian 1 g [centre] density [] with
  | .error e => .error e
  | .ok (integrals, orders) =>
    let nuclear := orders.map fun e =>
      sumK (List.zipWith (fun r z => monomial (vsub r centre) e * z) coords charges)
    .ok ((List.zipWith (· - ·) nuclear integrals.flatten).drop 1)

end numeric

end GridVerif.Moments

/-
  C06 (round 6) — primitives for guards that the pinned source does not contain but a changed source may: they let the
  translator CARRY such a guard (instead of refusing it), so that the theorems about the generated routines are what
  breaks.  Imported by `Gen/BeckeRoutes.lean` only when the generated text uses them.  No Mathlib.
-/
import GridVerif.Model.BeckePy

namespace GridVerif.BeckePy
open GridVerif.Becke

section
variable {K : Type} [NatCast K] [LT K] [DecidableLT K]

/-- a float is truthy (non-zero; `0.0` and `-0.0` are falsy). -/
def pyTruthy (x : K) : Bool := decide (x < ((0 : Nat) : K) ∨ ((0 : Nat) : K) < x)

/-- `np.any(points)` of an `(N, 3)` array: some coordinate of some point is non-zero (`False` for an empty array). -/
def npAnyPoints (points : List (V3 K)) : Bool :=
  points.any fun p => pyTruthy p.x || pyTruthy p.y || pyTruthy p.z

end
end GridVerif.BeckePy

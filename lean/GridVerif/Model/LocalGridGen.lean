/-
  C10 / C11 — the state machines of `Model/LocalGrid.lean` and `Model/Periodic.lean` run on the
  *generated* definitions of `Gen/LocalGrid.lean`: every operation is dispatched to the
  translation of the method the object's class executes.  (Hand-written glue; the only
  class-specific knowledge is which class overrides which method: `AtomGrid` re-declares
  `points` as a read-only property, `OneDGrid` and `PeriodicGrid` override `__getitem__`.)
  `none`: the generated code left the modelled fragment (`Props/C10/Gen.lean`,
  `Props/C11/Gen.lean` prove that this does not happen in reachable states and that the answers
  are those of the hand model).  No Mathlib import: linked into the driver.
-/
import GridVerif.Gen.LocalGrid

namespace GridVerif.LocalGridGen
open GridVerif.LocalGrid GridVerif.Periodic GridVerif.LocalGridPy GridVerif.Gen.LocalGrid

section
variable {K : Type} [Add K] [Sub K] [Mul K] [Div K] [Neg K] [NatCast K] [IntCast K] [Elem K] [FloorCeil K]
variable [LE K] [DecidableLE K] [LT K] [DecidableLT K]

/-- One operation on a non-periodic grid object, executed by the generated definitions. -/
def genStep (s : State K) : Op K → Option (State K × Out K)
  | .query c r => Grid_get_localgrid s c r
  | .setPoints oned dim value =>
    if s.cls = .atom then some (s, .error .attributeError) else Grid_points_set s oned dim value
  | .setWeights value => Grid_weights_set s value
  | .getItem idx => if s.cls = .oned then OneDGrid_getitem s idx else Grid_getitem s idx

def genRun (s : State K) : List (Op K) → Option (State K × List (Out K))
  | [] => some (s, [])
  | op :: ops =>
    match genStep s op with
    | none => none
    | some (s', o) =>
      match genRun s' ops with
      | none => none
      | some (s'', os) => some (s'', o :: os)

/-- One operation on a `PeriodicGrid`, executed by the generated definitions. -/
def genPStep (g : PGrid K) : POp K → Option (PGrid K × POut K)
  | .query c r => (PeriodicGrid_get_localgrid g c r).map fun (g', o) => (g', .out o)
  | .setPoints oned dim value => (PeriodicGrid_points_set g oned dim value).map fun (g', o) => (g', .out o)
  | .setWeights value => (PeriodicGrid_weights_set g value).map fun (g', o) => (g', .out o)
  | .getItem idx =>
    (PeriodicGrid_getitem g idx).map fun r =>
      match r with
      | .ok sub => (g, .grid sub)
      | .error e => (g, .out (.error e))

def genPRun (g : PGrid K) : List (POp K) → Option (PGrid K × List (POut K))
  | [] => some (g, [])
  | op :: ops =>
    match genPStep g op with
    | none => none
    | some (g', o) =>
      match genPRun g' ops with
      | none => none
      | some (g'', os) => some (g'', o :: os)

end
end GridVerif.LocalGridGen

/-
  C10 — model of `Grid.get_localgrid`, the `points` / `weights` setters and `__getitem__`
  (src/grid/basegrid.py) for the classes `Grid`, `OneDGrid`, `AtomGrid`, `MolGrid`,
  `UniformGrid` / `Tensor1DGrids` (`PeriodicGrid` with lattice vectors: Model/Periodic.lean).

  Hand-written.  Tie to the code: the setters, `get_localgrid` and `__getitem__` of basegrid.py are
  translated statement by statement into `Gen/LocalGrid.lean` (harness/translate/localgrid.py) and
  proved equal to the operations below (`Props/C10/Gen.lean`); the driver executes the generated
  definitions, which are compared with the implementation on random op histories
  (harness/props/c10.py).  No Mathlib import: the `Float` instance is linked into the driver.

  * A point is the list of its coordinates (`[x]` for the 1-D array form `points.ndim == 1`).
  * The lazily built `cKDTree` is a *snapshot of the points it was built from*
    (`tree : Option (List (Point K))`); `ballQuery` is the contract of
    `cKDTree.query_ball_point(c, r, p=2)`: exactly the positions whose point has distance
    `≤ r` from `c`, each once.  Distances are compared squared (`dist² ≤ r²`, equivalent to
    `dist ≤ r` for `r ≥ 0`, see `Props/C10.lean: inBall_iff_sqrt`); the order in which the
    tree hands out the positions is not part of the contract — the model lists them
    ascending and the correspondence sorts the implementation's answer.
-/
namespace GridVerif.LocalGrid

abbrev Point (K : Type) := List K

/-- Exception classes the modelled code raises. -/
inductive Err where
  | valueError | typeError | indexError | attributeError
  deriving DecidableEq, Repr

/-- The grid classes of the model. -/
inductive Cls where
  | grid      -- basegrid.Grid
  | oned      -- basegrid.OneDGrid (keeps a domain)
  | atom      -- atomgrid.AtomGrid (stores uncentred points; `points` adds the centre; no setter)
  | mol       -- molgrid.MolGrid
  | rect      -- cubic.UniformGrid / cubic.Tensor1DGrids
  | loc       -- basegrid.LocalGrid
  deriving DecidableEq, Repr

/-- `radius` argument: a finite (or `-inf`) float, `+inf`, or NaN. -/
inductive Radius (K : Type) where
  | fin (r : K)
  | inf
  | nan

/-- `center` argument: a Python float / 0-d array, or an array of shape `(m,)`. -/
inductive Centre (K : Type) where
  | scalar (x : K)
  | vector (xs : List K)

/-- Index kinds of `__getitem__`. -/
inductive Index where
  | int (i : Int)                          -- Python int
  | npInt (i : Int)                        -- np.integer
  | slice (start stop step : Option Int)   -- slice(start, stop, step), `None` = absent
  | array (is : List Int)                  -- integer index array
  | mask (bs : List Bool)                  -- boolean mask
  deriving DecidableEq, Repr

section generic
variable {K : Type} [Add K] [Sub K] [Mul K] [Div K] [NatCast K]

/-- Squared Euclidean distance of two coordinate lists. -/
def dist2 (p c : Point K) : K :=
  (List.zipWith (fun a b => (a - b) * (a - b)) p c).foldr (· + ·) ((0 : Nat) : K)

variable [LE K] [DecidableLE K] [LT K] [DecidableLT K]

/-- `‖p − c‖ ≤ r`, compared squared. -/
def inBall (p c : Point K) (r : K) : Prop := dist2 p c ≤ r * r

instance (p c : Point K) (r : K) : Decidable (inBall p c r) := by unfold inBall; infer_instance

/-- Contract of `cKDTree(pts).query_ball_point(c, r, p=2.0)`: the positions (ascending) of
exactly the points within distance `r`. -/
def ballQuery (pts : List (Point K)) (c : Point K) (r : K) : List Nat :=
  (pts.zipIdx.filter fun pi => decide (inBall pi.1 c r)).map (·.2)

/-- `xs[indices]` for an integer index array of in-range, non-negative positions
(`none` = IndexError). -/
def gather {α : Type} (xs : List α) (idx : List Nat) : Option (List α) :=
  idx.mapM (xs[·]?)

/-- The mutable part of a grid object, as far as `get_localgrid`, the setters and
`__getitem__` see it. -/
structure State (K : Type) where
  cls : Cls
  /-- `points.ndim == 1` (then every point is `[x]` and `dim = 1`). -/
  oned : Bool
  /-- `points.shape[1]` (1 for the 1-D array form). -/
  dim : Nat
  /-- `self._points`. -/
  stored : List (Point K)
  /-- `AtomGrid._center`: added to the stored points on every read of `points`. -/
  centre : Option (Point K)
  /-- `self._weights`. -/
  weights : List K
  /-- `self._kdtree`: the points the tree was built from. -/
  tree : Option (List (Point K))
  /-- `OneDGrid._domain`. -/
  domain : Option (K × K)

/-- The public `points` attribute (`AtomGrid`: `self._points + self._center`). -/
def State.points (s : State K) : List (Point K) :=
  match s.centre with
  | none => s.stored
  | some c => s.stored.map fun p => List.zipWith (· + ·) p c

/-- What the base constructor `Grid.__init__` checks (`len(points) != len(weights)`),
plus the shape bookkeeping of the model (`ndarray` rows all have `dim` entries). -/
def init (cls : Cls) (oned : Bool) (dim : Nat) (pts : List (Point K)) (centre : Option (Point K))
    (w : List K) (domain : Option (K × K)) : Except Err (State K) :=
  if pts.length ≠ w.length then .error .valueError
  else if oned ∧ dim ≠ 1 then .error .valueError
  else if ¬ pts.all (fun p => p.length == dim) then .error .valueError
  else .ok { cls, oned, dim, stored := pts, centre, weights := w, tree := none, domain }

/-- Observable result of an operation. -/
inductive Out (K : Type) where
  /-- a `LocalGrid`: parent indices, points, weights -/
  | localGrid (indices : List Nat) (points : List (Point K)) (weights : List K)
  /-- a new grid of class `cls` from `__getitem__` -/
  | grid (cls : Cls) (points : List (Point K)) (weights : List K) (domain : Option (K × K))
  /-- a setter returned -/
  | done
  | error (e : Err)

inductive Op (K : Type) where
  | query (c : Centre K) (r : Radius K)
  /-- `grid.points = value`; `oned`, `dim` describe `value.shape` -/
  | setPoints (oned : Bool) (dim : Nat) (value : List (Point K))
  /-- `grid.weights = value` (a 1-D array) -/
  | setWeights (value : List K)
  | getItem (idx : Index)

/-- `center.shape != points.shape[1:]`: a scalar for 1-D array points, else an `(dim,)` array. -/
def centreOf (s : State K) : Centre K → Option (Point K)
  | .scalar x => if s.oned then some [x] else none
  | .vector xs => if ¬ s.oned ∧ xs.length = s.dim then some xs else none

/-- `Grid.get_localgrid(center, radius)`; returns the new `_kdtree` and the outcome. -/
def query (s : State K) (c : Centre K) (r : Radius K) : Option (List (Point K)) × Out K :=
  match centreOf s c with
  | none => (s.tree, .error .valueError)
  | some c =>
    match r with
    | .nan => (s.tree, .error .valueError)
    | .inf => (s.tree, .localGrid (List.range s.weights.length) s.points s.weights)
    | .fin r =>
      if r < ((0 : Nat) : K) then (s.tree, .error .valueError) else
      -- `points.reshape(self.size, -1)`: NumPy cannot infer `-1` for an array of size 0
      if s.weights.length = 0 then (s.tree, .error .valueError) else
      let pts := s.points
      -- `if self._kdtree is None: self._kdtree = cKDTree(_points)`
      let tree := match s.tree with
        | some t => t
        | none => pts
      let idx := ballQuery tree c r
      match gather pts idx, gather s.weights idx with
      | some lp, some lw => (some tree, .localGrid idx lp lw)
      | _, _ => (some tree, .error .indexError)

/-! ### `__getitem__` -/

/-- Python's `range(start, stop, step)` for `step ≠ 0`, as a list of integers. -/
def pyRange (start stop step : Int) : List Int :=
  let count : Nat :=
    if step > 0 then (if start < stop then ((stop - start - 1) / step + 1).toNat else 0)
    else (if stop < start then ((start - stop - 1) / (-step) + 1).toNat else 0)
  (List.range count).map fun (k : Nat) => start + (k : Int) * step

/-- `slice(start, stop, step).indices(n)[0:2]` for a non-zero step `st`
(CPython `PySlice_AdjustIndices`): the adjusted start and stop. -/
def sliceBounds (start stop : Option Int) (st : Int) (n : Nat) : Int × Int :=
  let len : Int := n
  let lo : Int := if st > 0 then 0 else -1
  let hi : Int := if st > 0 then len else len - 1
  let adjust (v : Int) : Int :=
    if v < 0 then (if v + len < 0 then lo else v + len) else (if v ≥ len then hi else v)
  let a : Int := match start with | none => (if st > 0 then lo else hi) | some v => adjust v
  let b : Int := match stop with | none => (if st > 0 then hi else lo) | some v => adjust v
  (a, b)

/-- The step of a slice (`None` = 1). -/
def sliceStep : Option Int → Int
  | none => 1
  | some v => v

/-- `range(*slice(start, stop, step).indices(n))`: the selected positions; `step == 0` is a
ValueError. -/
def sliceSelect (start stop step : Option Int) (n : Nat) : Except Err (List Nat) :=
  let st := sliceStep step
  if st = 0 then .error .valueError else
  let ab := sliceBounds start stop st n
  .ok ((pyRange ab.1 ab.2 st).map Int.toNat)

/-- One (possibly negative) integer index against length `n`. -/
def normIndex (i : Int) (n : Nat) : Option Nat :=
  if 0 ≤ i ∧ i < n then some i.toNat
  else if i < 0 ∧ -(n : Int) ≤ i then some (i + n).toNat
  else none

/-- The positions selected by an index, in result order. -/
def select (idx : Index) (n : Nat) : Except Err (List Nat) :=
  match idx with
  | .int i | .npInt i =>
    match normIndex i n with
    | some k => .ok [k]
    | none => .error .indexError
  | .slice a b st => sliceSelect a b st n
  | .array is =>
    match is.mapM (normIndex · n) with
    | some ks => .ok ks
    | none => .error .indexError
  | .mask bs =>
    if bs.length ≠ n then .error .indexError
    else .ok ((bs.zipIdx.filter (·.1)).map (·.2))

/-- The `1e-7` slack of the `OneDGrid` domain check. -/
def domainTol : K := ((1 : Nat) : K) / ((10000000 : Nat) : K)

/-- `np.min` / `np.max` of a non-empty 1-D array. -/
def minOf (x : K) (xs : List K) : K := xs.foldl (fun m y => if y < m then y else m) x
def maxOf (x : K) (xs : List K) : K := xs.foldl (fun m y => if m < y then y else m) x

/-- The domain part of `OneDGrid.__init__(points, weights, domain)`: `np.min` of an empty
array raises ValueError, points outside `domain ± 1e-7` raise ValueError. -/
def onedDomainOk (pts : List (Point K)) (domain : Option (K × K)) : Bool :=
  match domain with
  | none => true
  | some (lo, hi) =>
    match pts.flatten with
    | [] => false
    | x :: xs =>
      !(decide (hi < lo)) && !(decide (minOf x xs < lo - domainTol)) &&
        !(decide (hi + domainTol < maxOf x xs))

/-- `grid[index]`: `self.__class__(np.array(self.points[index]), np.array(self.weights[index]))`.
The NumPy selections are evaluated first (IndexError / ValueError), then the constructor of
the object's class is called with `(points, weights)`: `Grid` accepts, `OneDGrid` (which
overrides `__getitem__` to pass its domain on) re-runs its domain check; the constructors
of the other classes do not take `(points, weights)` (TypeError) — these classes do not
support selection.  (`MolGrid.__getitem__(i)` is a different operation — the i-th atomic
grid — and is not part of this model.) -/
def getItem (s : State K) (idx : Index) : Out K :=
  match select idx s.weights.length with
  | .error e => .error e
  | .ok sel =>
    match gather s.points sel, gather s.weights sel with
    | some p, some w =>
      match s.cls with
      | .grid => .grid .grid p w none
      | .oned =>
        if onedDomainOk p s.domain then .grid .oned p w s.domain else .error .valueError
      | _ => .error .typeError
    | _, _ => .error .indexError

/-- `value.shape != self._points.shape`. -/
def sameShape (s : State K) (oned : Bool) (dim : Nat) (value : List (Point K)) : Bool :=
  oned == s.oned && dim == s.dim && value.length == s.stored.length &&
    value.all (fun p => p.length == dim)

/-- One operation on the object: new state and what the caller sees. -/
def step (s : State K) : Op K → State K × Out K
  | .query c r =>
    let (t, out) := query s c r
    ({ s with tree := t }, out)
  | .setPoints oned dim value =>
    -- `AtomGrid` redefines `points` as a read-only property
    if s.cls = .atom then (s, .error .attributeError)
    else if ¬ sameShape s oned dim value then (s, .error .valueError)
    else ({ s with stored := value, tree := none }, .done)
  | .setWeights value =>
    if value.length ≠ s.weights.length then (s, .error .valueError)
    else ({ s with weights := value }, .done)
  | .getItem idx => (s, getItem s idx)

/-- Run a history, collecting what the caller saw. -/
def run (s : State K) : List (Op K) → State K × List (Out K)
  | [] => (s, [])
  | op :: ops =>
    let (s', o) := step s op
    let (s'', os) := run s' ops
    (s'', o :: os)

end generic

end GridVerif.LocalGrid

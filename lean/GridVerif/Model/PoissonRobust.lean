/-
  C16 (round 3) — hand-written list plumbing around the *generated* statement-wise text of
  `grid/robust_poisson.py` (`Gen/PoissonRobust.lean`) and around the round-3 additions to
  `Gen/Poisson.lean` (type guards, domain guard, `i_spline` bookkeeping, harmonic degree, the
  `AtomGrid` wrap).

  * `rowSum`, `coreRSq`, `zipStrict`, `coreDensityAt`       `_build_core_density` at one point
  * `fitRSq`, `fitRow`, `keepMask`, `select`, `fitAtomResidual`, `fitResidual`, `fitKept`,
    `fittedDensityAt`                                        `_fit_residual_gaussians`, point by point
    (the answer of `scipy.optimize.nnls` for every atom is an *input*: a named primitive)
  * `geomspace`, `defaultBasis`                              `_DEFAULT_ALPHAS_BASIS`
  * `robustResidualAt`, `totalAt`                            `solve_poisson_robust`, `total_potential`
  * `pyIsInstance`, `typeGuardAccepts`                       the `isinstance` guards of the boundary-value solver
  * `splineIndexSeq`                                         the value of `i_spline` seen by problem `k`
  * `wrapWeights`                                            `np.array([w] * molgrid.size)`

  Tied to the implementation by correspondence (`harness/props/c16.py`: `nnls`, `_fit_residual_gaussians`
  and `solve_poisson_bvp` are wrapped inside the harness process, every intermediate array is compared).
  No Mathlib import (linked into the driver).
-/
import GridVerif.Model.Elem
import GridVerif.Model.Poisson
import GridVerif.Gen.Poisson
import GridVerif.Gen.PoissonRobust

namespace GridVerif.PoissonRobust
open GridVerif.Gen.PoissonRobust GridVerif.Poisson

variable {K : Type} [Add K] [Sub K] [Mul K] [Div K] [Neg K] [NatCast K] [Elem K]
  [LT K] [LE K] [DecidableLT K] [DecidableLE K]

/-- `np.sum(term(row, center), axis=1)` for one row (one grid point): the sum over the Cartesian
coordinates. -/
def rowSum (term : K → K → K) : List K → List K → K
  | p :: ps, c :: cs => term p c + rowSum term ps cs
  | _, _ => ((0 : Nat) : K)

/-! ### `_build_core_density` -/

/-- `r_sq` of one point. -/
def coreRSq (p c : List K) : K := rowSum coreSqTerm p c

/-- `zip(a, b, strict=…)`: with `strict` unequal lengths raise `ValueError` (`none`). -/
def zipStrict {α β : Type} (strict : Bool) (a : List α) (b : List β) : Option (List (α × β)) :=
  if strict && a.length != b.length then none else some (a.zip b)

/-- the loop of `_build_core_density` at squared distance `rSq`, starting from `coreInit`. -/
def coreFold (coeffs alphas : List K) (rSq : K) : K :=
  (coeffs.zip alphas).foldl (fun rho ca => coreStep rho ca.1 ca.2 rSq) coreInit

/-- `_build_core_density` at one point `p` for an atom at `c` (`none`: `ValueError` of the strict zip). -/
def coreDensityAt (p c coeffs alphas : List K) : Option K :=
  (zipStrict coreZipStrict coeffs alphas).map fun _ => coreFold coeffs alphas (coreRSq p c)

/-! ### `_fit_residual_gaussians` -/

/-- `r_sq` of one grid point. -/
def fitRSq (p c : List K) : K := rowSum fitSqTerm p c

/-- one basis function at squared distance `rSq`: `A[n, k]` (operands indexed as `fitDesignAxes` says). -/
def fitBasis (alpha rSq : K) : K := fitDesign (fitPrefactor alpha) rSq alpha

/-- row `n` of the design matrix `A`. -/
def fitRow (alphas : List K) (rSq : K) : List K := alphas.map fun a => fitBasis a rSq

/-- the design matrix handed to `nnls`. -/
def fitMatrix (pts : List (List K)) (center alphas : List K) : List (List K) :=
  pts.map fun p => fitRow alphas (fitRSq p center)

/-- `mask = coeffs > 0`. -/
def keepMask (coeffs : List K) : List Bool := coeffs.map fun c => decide (fitKeep c)

/-- boolean-mask selection `xs[mask]`. -/
def select {α : Type} : List α → List Bool → List α
  | x :: xs, b :: bs => if b then x :: select xs bs else select xs bs
  | _, _ => []

/-- The residual at one grid point `p` after the pass of one atom (`center`, the `nnls` answer
`coeffs`): `if np.any(mask): residual -= A[:, mask] @ c_pos`. -/
def fitAtomResidual (alphas coeffs center p : List K) (r : K) : K :=
  let mask := keepMask coeffs
  if mask.any id then
    fitResidualStep r (dot (select (fitRow alphas (fitRSq p center)) mask) (select coeffs mask))
  else r

/-- The residual at one grid point after the whole loop; `steps` = per atom, in the order of
`atcoords`, the centre and what `nnls` answered. -/
def fitResidual (alphas : List K) (steps : List (List K × List K)) (p : List K) (r : K) : K :=
  steps.foldl (fun r s => fitAtomResidual alphas s.2 s.1 p r) r

/-- the residuals `nnls` sees: before atom 0, before atom 1, … and the returned one (last). -/
def fitResidualTrace (alphas : List K) (steps : List (List K × List K)) (p : List K) (r : K) : List K :=
  (List.range (steps.length + 1)).map fun j => fitResidual alphas (steps.take j) p r

/-- What the accumulators hold at the end: `(coefficient, exponent, centre)` of every retained
Gaussian (`all_coeffs.extend(c_pos)`, `all_alphas.extend(a_pos)`, `all_centers.extend([center] * len(c_pos))`). -/
def fitKept (alphas : List K) (steps : List (List K × List K)) : List (K × K × List K) :=
  steps.flatMap fun s =>
    let mask := keepMask s.2
    if mask.any id then (select (s.2.zip alphas) mask).map fun ca => (ca.1, ca.2, s.1) else []

/-- the density of the retained Gaussians at a point. -/
def fittedDensityAt (kept : List (K × K × List K)) (p : List K) : K :=
  kept.foldr (fun t acc => t.1 * fitBasis t.2.1 (fitRSq p t.2.2) + acc) ((0 : Nat) : K)

/-! ### the default basis -/

/-- `np.geomspace(start, stop, num)`: `start·(stop/start)^{i/(num−1)}`, `i = 0 … num−1`. -/
def geomspace (start stop : K) (num : Nat) : List K :=
  (List.range num).map fun i => start * Elem.rpow (stop / start) (((i : Nat) : K) / (((num - 1 : Nat)) : K))

/-- `_DEFAULT_ALPHAS_BASIS`. -/
def defaultBasis : List K := geomspace defaultBasisStart defaultBasisStop defaultBasisNum

/-! ### `solve_poisson_robust` -/

/-- Split 1 at one grid point. -/
def robustResidualAt (rho : K) (cores : List K) : K := cores.foldl robustCoreStep rho

/-- `total_potential` at one point: the analytic potentials `pots` of the atoms, the potential
`vFit` of the retained Gaussians (used only when there are any), the numerical potential `vRes`. -/
def totalAt (pots : List K) (nfit : Nat) (vFit vRes : K) : K :=
  totalReturn (pots.foldl totalCoreStep totalCoreInit) (if totalBondingUsed nfit then vFit else totalBondingInit) vRes

/-! ### the round-3 additions to `Gen/Poisson.lean` -/

/-- Python's `isinstance(value, cls)` for the kinds of value the options are given as (the names
are the ones of the `isinstance` tuples in the source): a `float` (also `numpy.float64`, which
subclasses it), an `int`, a `bool` (subclass of `int`, not of `float`), `None`, NumPy integers /
single-precision floats / booleans (not subclasses of the Python types). -/
def pyIsInstance (kind cls : String) : Bool :=
  match kind, cls with
  | "float", "float" => true
  | "np.float64", "float" => true
  | "int", "int" => true
  | "bool", "bool" => true
  | "bool", "int" => true
  | "none", "type(None)" => true
  | _, _ => false

/-- does the generated guard of `option` let a value of this kind through? (`none`: no guard) -/
def typeGuardAccepts (guards : List (String × List String)) (option kind : String) : Option Bool :=
  (guards.find? fun g => g.1 == option).map fun g => g.2.any (pyIsInstance kind)

/-- the value of `i_spline` when problem number `k` (call order) is posed, `k < n`. -/
def splineIndexSeq (start : Nat) (step : Nat → Nat) : Nat → List Nat
  | 0 => []
  | n + 1 => start :: splineIndexSeq (step start) step n

/-- `np.array([w] * size)`. -/
def wrapWeights (w : K) (size : Nat) : List K := List.replicate size w

end GridVerif.PoissonRobust

/-
  Line-protocol helpers for the driver (DESIGN 2.4).
  Floats travel as the decimal value of their IEEE-754 bit pattern,
  integers in decimal, vectors as `n x₁ … xₙ`.  A malformed token makes the
  whole line `bad-op` — nothing is defaulted.
-/
namespace GridVerif.Proto

def pFloat (s : String) : Option Float :=
  s.toNat?.bind fun n => if n < 2^64 then some (Float.ofBits (UInt64.ofNat n)) else none

def sFloat (x : Float) : String := toString x.toBits.toNat

def pNat (s : String) : Option Nat := s.toNat?
def pInt (s : String) : Option Int := s.toInt?

/-- Parse `n x₁ … xₙ` from the front of a token list. -/
def pVec {α} (p : String → Option α) : List String → Option (List α × List String)
  | [] => none
  | n :: rest => do
    let k ← n.toNat?
    if rest.length < k then none else
    let xs ← (rest.take k).mapM p
    pure (xs, rest.drop k)

def sVec {α} (s : α → String) (xs : List α) : String :=
  String.intercalate " " (toString xs.length :: xs.map s)

def sFloats (xs : List Float) : String := sVec sFloat xs
def sNats (xs : List Nat) : String := sVec toString xs
def sInts (xs : List Int) : String := sVec toString xs

/-- Parse a matrix: `r c` then `r*c` entries, row-major. -/
def pMat {α} (p : String → Option α) : List String → Option (List (List α) × List String)
  | r :: c :: rest => do
    let r ← r.toNat?
    let c ← c.toNat?
    if rest.length < r * c then none else
    let xs ← (rest.take (r * c)).mapM p
    let rec rows (k : Nat) (xs : List α) : List (List α) :=
      match k with
      | 0 => []
      | k + 1 => xs.take c :: rows k (xs.drop c)
    pure (rows r xs, rest.drop (r * c))
  | _ => none

def sMat {α} (s : α → String) (m : List (List α)) : String :=
  let c := match m with | [] => 0 | r :: _ => r.length
  String.intercalate " " (toString m.length :: toString c :: (m.flatten.map s))

end GridVerif.Proto

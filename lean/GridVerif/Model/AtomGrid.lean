/-
  Model of `grid.atomgrid.AtomGrid` (src/grid/atomgrid.py): construction from a radial grid
  and per-shell angular grids, the `points / weights / indices / degrees` it exposes,
  `get_shell_grid`, the sector lookup of pruned grids and the table reader `from_preset`.

  Hand-written; tied to the code by correspondence (harness/props/c05.py).  The scalar
  arithmetic (index step, seed, scaling, weight formula, centre addition, sector comparison)
  and the branch predicate of `from_preset` are *not* hand-written: they are the definitions of
  `Gen/Presets.lean`, regenerated from the source on every run.

  Outside world (`Env`): the angular tables of the method (C12), what
  `AngularGrid(degree=d, method=m)` hands out for a supported degree (C02/C19), and SciPy's
  `Rotation.random(random_state=seed).as_matrix()` as a function of the seed.
-/
import GridVerif.Model.Elem
import GridVerif.Model.Bisect
import GridVerif.Gen.Presets

namespace GridVerif.AtomGrid
open GridVerif.Bisect GridVerif.Gen.Presets

/-- A row of an `(N, 3)` array. -/
structure V3 (K : Type) where
  x : K
  y : K
  z : K
  deriving Repr, DecidableEq

/-- A `(3, 3)` array, by rows. -/
structure M3 (K : Type) where
  r0 : V3 K
  r1 : V3 K
  r2 : V3 K
  deriving Repr

/-- The exception classes the modelled code raises; `noData` is not an exception of the code
but the model's answer when `Env.load` was not told about a degree (the driver answers
`bad-op` then, never a default). -/
inductive Err where
  | valueError
  | indexError
  | typeError
  | noData
  deriving DecidableEq, Repr

section
variable {K : Type} [Add K] [Sub K] [Mul K] [Div K] [NatCast K]

/-- `p + c`, row-wise (`self._points + self._center`). -/
def V3.addCentre (p c : V3 K) : V3 K :=
  ⟨Gen.Presets.addCentre p.x c.x, Gen.Presets.addCentre p.y c.y, Gen.Presets.addCentre p.z c.z⟩

/-- `points * rgrid[i].points`: every coordinate times the radius. -/
def V3.scale (u : V3 K) (r : K) : V3 K := ⟨scalePoint u.x r, scalePoint u.y r, scalePoint u.z r⟩

/-- `get_shell_grid`'s own scaling statement. -/
def V3.scaleSG (u : V3 K) (r : K) : V3 K :=
  ⟨shellGridScale u.x r, shellGridScale u.y r, shellGridScale u.z r⟩

/-- Row vector times matrix, `u @ R`: `(uR)_k = Σ_j u_j R_jk`. -/
def V3.mulMat (u : V3 K) (R : M3 K) : V3 K :=
  ⟨u.x * R.r0.x + u.y * R.r1.x + u.z * R.r2.x,
   u.x * R.r0.y + u.y * R.r1.y + u.z * R.r2.y,
   u.x * R.r0.z + u.y * R.r1.z + u.z * R.r2.z⟩

def applyRot (rot : Option (M3 K)) (u : V3 K) : V3 K :=
  match rot with
  | some R => u.mulMat R
  | none => u

/-- What the assembly loop holds for one shell: the radial node and weight, the angular
grid as handed out by `AngularGrid(degree=…)` and the rotation matrix (none when the
rotation guard is false). -/
structure Shell (K : Type) where
  r : K
  w : K
  pts : List (V3 K)
  wts : List K
  rot : Option (M3 K)

/-- Points of one shell relative to the centre: `(u @ R) * r`. -/
def Shell.points (s : Shell K) : List (V3 K) := s.pts.map fun u => (applyRot s.rot u).scale s.r

/-- Weights of one shell: `ω * w * r**2`. -/
def Shell.weights (s : Shell K) : List K := s.wts.map fun ω => shellWeight ω s.w s.r

/-- `np.vstack(all_points)`. -/
def rawPoints (shells : List (Shell K)) : List (V3 K) := (shells.map Shell.points).flatten

/-- `np.hstack(all_weights)`. -/
def weights (shells : List (Shell K)) : List K := (shells.map Shell.weights).flatten

/-- The index table: slot 0 holds `acc`, slot `i+1` = `indicesStep (slot i) (len of shell i)`. -/
def indicesFrom (acc : Nat) : List Nat → List Nat
  | [] => [acc]
  | n :: ns => acc :: indicesFrom (indicesStep acc n) ns

def indices (shells : List (Shell K)) : List Nat :=
  indicesFrom 0 (shells.map fun s => s.points.length)

/-- Python's `a[lo:hi]` for non-negative `lo`, `hi` (clipping included). -/
def pySlice {α : Type} (a : List α) (lo hi : Nat) : List α := (a.take hi).drop lo

/-- The outside world a construction consults. -/
structure Env (K : Type) where
  /-- degree ↦ size and size ↦ degree dicts of the method (C12) -/
  degreesTbl : List (Nat × Nat)
  npointsTbl : List (Nat × Nat)
  /-- `AngularGrid(degree=d, method=m).points / .weights` for a supported degree `d` -/
  load : Nat → Option (List (V3 K) × List K)
  /-- `Rotation.random(random_state=seed).as_matrix()` -/
  rotation : Nat → M3 K

/-- `AngularGrid(degree=d, method=m)`: resolved degree, points, weights. -/
def angular (env : Env K) (d : Nat) : Except Err (Nat × List (V3 K) × List K) :=
  match getDegreeAndSize env.degreesTbl env.npointsTbl (some d) none with
  | .ok deg _ =>
    match env.load deg with
    | some (p, w) => .ok (deg, p, w)
    | none => .error .noData
  | .valueError => .error .valueError
  | .indexError => .error .indexError

/-- `AngularGrid(degree=deg_i, method=method)` for every requested degree, in shell order
(the first failing shell raises). -/
def loadAll (env : Env K) : List Nat → Except Err (List (Nat × List (V3 K) × List K))
  | [] => .ok []
  | d :: ds =>
    match angular env d with
    | .error e => .error e
    | .ok a =>
      match loadAll env ds with
      | .error e => .error e
      | .ok rest => .ok (a :: rest)

/-- The rest of the loop body from shell `i` on: radial node and weight of shell `i`, its angular
grid, and the matrix for seed `shellSeed rotate i` when the rotation guard holds (the rotation
cannot raise, so loading first and assembling afterwards is the same loop). -/
def assemble (rotation : Nat → M3 K) (rotate : Nat) :
    Nat → List (K × K) → List (Nat × List (V3 K) × List K) → List (Shell K)
  | i, rw :: rg, a :: as =>
    ⟨rw.1, rw.2, a.2.1, a.2.2, if rotates rotate then some (rotation (shellSeed rotate i)) else none⟩
      :: assemble rotation rotate (i + 1) rg as
  | _, _, _ => []

/-- An atomic grid object: what `__init__` stores. -/
structure Grid (K : Type) where
  center : V3 K
  rotate : Nat
  rgrid : List (K × K)
  /-- what the loop assembled, shell by shell -/
  shells : List (Shell K)
  /-- `_points` (relative to the centre) -/
  rawPoints : List (V3 K)
  weights : List K
  indices : List Nat
  /-- `_degs`: the degrees actually used -/
  degrees : List Nat

/-- the `points` property: the centre is added on every read -/
def Grid.points (g : Grid K) : List (V3 K) := g.rawPoints.map fun p => p.addCentre g.center

/-- `self._size = self._weights.size` -/
def Grid.size (g : Grid K) : Nat := g.weights.length

/-- `_generate_atomic_grid` + the attribute assignments of `__init__`. -/
def generate (env : Env K) (rgrid : List (K × K)) (degs : List Nat) (rotate : Nat) (center : V3 K) :
    Except Err (Grid K) :=
  if degs.length ≠ rgrid.length then .error .valueError else
  match loadAll env degs with
  | .error e => .error e
  | .ok as =>
    let shells := assemble env.rotation rotate 0 rgrid as
    .ok ⟨center, rotate, rgrid, shells, AtomGrid.rawPoints shells, AtomGrid.weights shells,
         AtomGrid.indices shells, as.map Prod.fst⟩

/-- The per-shell request: `degrees=` or `sizes=` (sizes win when both are given). -/
inductive Request where
  | degrees (ds : List Nat)
  | sizes (ss : List Nat)
  deriving Repr, DecidableEq

/-- The degree sequence `__init__` hands to `_generate_atomic_grid`: sizes are converted
(`convert_angular_sizes_to_degrees`), a single entry is repeated for every radial point. -/
def effectiveDegrees (npointsTbl : List (Nat × Nat)) (n : Nat) (req : Request) : Except Err (List Nat) :=
  let degs? : Except Err (List Nat) :=
    match req with
    | .degrees ds => .ok ds
    | .sizes ss =>
      match convertSizes npointsTbl ss with
      | some ds => .ok ds
      | none => .error .valueError
  match degs? with
  | .error e => .error e
  | .ok [d] => .ok (List.replicate n d)
  | .ok degs => .ok degs

/-- `AtomGrid.__init__` (type checks of the arguments are done before this point). -/
def init (env : Env K) (rgrid : List (K × K)) (req : Request) (center : V3 K) (rotate : Nat) :
    Except Err (Grid K) :=
  if ¬ rotate < 2 ^ 32 - rgrid.length then .error .valueError else
  match effectiveDegrees env.npointsTbl rgrid.length req with
  | .error e => .error e
  | .ok degs => generate env rgrid degs rotate center

/-- `get_shell_grid(index, r_sq)`: points (relative to the centre) and weights of shell `index`. -/
def getShellGrid (env : Env K) (g : Grid K) (index : Int) (rSq : Bool) :
    Except Err (List (V3 K) × List K) :=
  if ¬ (0 ≤ index ∧ index < g.degrees.length) then .error .valueError else
  let i := index.toNat
  match g.degrees[i]?, g.rgrid[i]? with
  | some d, some rw =>
    match angular env d with
    | .error e => .error e
    | .ok (_, p, wt) =>
      let p := if shellGridRotates g.rotate then
          p.map fun u => u.mulMat (env.rotation (shellGridSeed g.rotate i)) else p
      let p := p.map fun u => u.scaleSG rw.1
      let wt := wt.map fun ω => shellGridWeight ω rw.2
      let wt := if rSq then wt.map fun ωw => shellGridWeightRsq ωw rw.1 else wt
      .ok (p, wt)
  | _, _ => .error .indexError

end

section Sectors
variable {K : Type} [LT K] [LE K] [DecidableLT K] [DecidableLE K]

/-- `np.sum(r > r_sectors)`: number of sector bounds the radius exceeds. -/
def sectorPosition (bounds : List K) (r : K) : Nat := bounds.countP fun b => sectorBelow r b

/-- `_find_degrees_for_radial_points`: `d_sectors[position]` per radial point. -/
def findDegreesForRadialPoints (rpoints bounds : List K) (dsect : List Nat) : Except Err (List Nat) :=
  rpoints.mapM fun r =>
    match dsect[sectorPosition bounds r]? with
    | some d => .ok d
    | none => .error .indexError

/-- `_generate_degree_from_radius` (`fromSizes`: `from_pruned(s_sectors=…)` converts first). -/
def generateDegreeFromRadius [Mul K] (degreesTbl npointsTbl : List (Nat × Nat)) (rpoints : List K)
    (radius : K) (rsect : List K) (sect : Request) : Except Err (List Nat) :=
  let dsect? : Except Err (List Nat) := match sect with
    | .degrees ds => .ok ds
    | .sizes ss => match convertSizes npointsTbl ss with
      | some ds => .ok ds
      | none => .error .valueError
  match dsect? with
  | .error e => .error e
  | .ok dsect =>
  let bounds := rsect.map fun b => b * radius
  if dsect.length ≠ bounds.length + 1 then .error .valueError else
  match dsect.mapM (fun d => match getDegreeAndSize degreesTbl npointsTbl (some d) none with
      | .ok deg _ => Except.ok deg
      | .valueError => .error Err.valueError
      | .indexError => .error Err.indexError) with
  | .error e => .error e
  | .ok matched => findDegreesForRadialPoints rpoints bounds matched

end Sectors

/-! ### `from_preset` -/

/-- `[npt[idx] for idx in range(len(rad)) for _ in range(rad[idx])]`; `npt[idx]` is evaluated
once per inner iteration, so an index beyond `npt` only raises when its count is positive. -/
def expandGo (npt : List Nat) : Nat → List Nat → Except Err (List Nat)
  | _, [] => .ok []
  | idx, c :: cs =>
    if c = 0 then expandGo npt (idx + 1) cs else
    match npt[idx]? with
    | none => .error .indexError
    | some s =>
      match expandGo npt (idx + 1) cs with
      | .ok rest => .ok (List.replicate c s ++ rest)
      | .error e => .error e

def expandShellCounts (rad npt : List Nat) : Except Err (List Nat) := expandGo npt 0 rad

/-- What `from_preset` hands to the constructor (or the exception it raises before):
the table `e` read in the form the branch predicate selects. `toK` turns a stored sector radius
(`num / 2^k`) into the number type. -/
def presetRequest {K : Type} [LT K] [LE K] [DecidableLT K] [DecidableLE K]
    (toK : Nat × Nat → K) (npointsTbl : List (Nat × Nat)) (e : Entry) (rpoints : List K) :
    Except Err Request :=
  if takesShellCountBranch e.preset e.atnum then
    if ¬ e.radIsInt then .error .typeError else
    match expandShellCounts e.radCounts e.npt with
    | .error err => .error err
    | .ok ss => .ok (.sizes ss)
  else
    match convertSizes npointsTbl e.npt with
    | none => .error .valueError
    | some degs =>
      match findDegreesForRadialPoints rpoints (e.radSectors.map toK) degs with
      | .error err => .error err
      | .ok ds => .ok (.degrees ds)

/-- `_get_rgrid_size(preset, atnum)`: the radial size a preset prescribes. -/
def prescribedSize (e : Entry) : Option Nat :=
  if ¬ rgridSizePresets.contains e.preset then none else
  if rgridSizeFromRPoints.contains e.preset then
    (rPoints.find? fun k => k.1 == e.preset).map fun k => k.2.sum
  else if e.radIsInt then some e.radSum else none

/-- exact `Float` of a stored dyadic `num / 2^k` (`num < 2^53`, so both operands and the quotient are exact). -/
def dyadicToFloat (q : Nat × Nat) : Float := Float.ofNat q.1 / Float.ofNat (2 ^ q.2)

end GridVerif.AtomGrid

/-
  Model of `grid.atomgrid.AtomGrid` (src/grid/atomgrid.py): construction from a radial grid
  and per-shell angular grids, the `points / weights / indices / degrees` it exposes,
  `get_shell_grid`, the sector lookup of pruned grids and the table reader `from_preset`.

  Hand-written; tied to the code by correspondence (harness/props/c05.py).  The scalar
  arithmetic (index step, seed, scaling, weight formula, centre addition, sector comparison)
  and the branch predicate of `from_preset` are *not* hand-written: they are the definitions of
  `Gen/Presets.lean`, regenerated from the source on every run.  Round 2: the sector lookup,
  `_generate_degree_from_radius`, `_input_type_check`, the argument handling of `__init__` and
  `from_pruned` are also regenerated (`Gen/AtomGrid.lean`, statement by statement over the
  primitives of the section "Python / NumPy values and primitives" below) and proved equal to
  the hand model here (`Props/C05/Gen.lean`).

  Outside world (`Env`): the angular tables of the method (C12), what
  `AngularGrid(degree=d, method=m)` hands out for a supported degree (C02/C19), and SciPy's
  `Rotation.random(random_state=seed).as_matrix()` as a function of the seed.
-/
import GridVerif.Model.Elem
import GridVerif.Model.Bisect
import GridVerif.Gen.Presets

namespace GridVerif.AtomGrid
open GridVerif.Bisect GridVerif.Gen.Presets

/-- A row of an `(N, 3)` array. -/
structure V3 (K : Type) where
  x : K
  y : K
  z : K
  deriving Repr, DecidableEq

/-- A `(3, 3)` array, by rows. -/
structure M3 (K : Type) where
  r0 : V3 K
  r1 : V3 K
  r2 : V3 K
  deriving Repr

/-- The exception classes the modelled code raises; `noData` is not an exception of the code
but the model's answer when `Env.load` was not told about a degree (the driver answers
`bad-op` then, never a default). -/
inductive Err where
  | valueError
  | indexError
  | typeError
  | noData
  /-- `KeyError` (round 3: `data[f"{atnum}_rad"]` of an element the preset does not tabulate) -/
  | keyError
  deriving DecidableEq, Repr

section
variable {K : Type} [Add K] [Sub K] [Mul K] [Div K] [NatCast K]

/-- `p + c`, row-wise (`self._points + self._center`). -/
def V3.addCentre (p c : V3 K) : V3 K :=
  ⟨Gen.Presets.addCentre p.x c.x, Gen.Presets.addCentre p.y c.y, Gen.Presets.addCentre p.z c.z⟩

/-- `points * rgrid[i].points`: every coordinate times the radius. -/
def V3.scale (u : V3 K) (r : K) : V3 K := ⟨scalePoint u.x r, scalePoint u.y r, scalePoint u.z r⟩

/-- `get_shell_grid`'s own scaling statement. -/
def V3.scaleSG (u : V3 K) (r : K) : V3 K :=
  ⟨shellGridScale u.x r, shellGridScale u.y r, shellGridScale u.z r⟩

/-- Row vector times matrix, `u @ R`: `(uR)_k = Σ_j u_j R_jk`. -/
def V3.mulMat (u : V3 K) (R : M3 K) : V3 K :=
  ⟨u.x * R.r0.x + u.y * R.r1.x + u.z * R.r2.x,
   u.x * R.r0.y + u.y * R.r1.y + u.z * R.r2.y,
   u.x * R.r0.z + u.y * R.r1.z + u.z * R.r2.z⟩

def applyRot (rot : Option (M3 K)) (u : V3 K) : V3 K :=
  match rot with
  | some R => u.mulMat R
  | none => u

/-- What the assembly loop holds for one shell: the radial node and weight, the angular
grid as handed out by `AngularGrid(degree=…)` and the rotation matrix (none when the
rotation guard is false). -/
structure Shell (K : Type) where
  r : K
  w : K
  pts : List (V3 K)
  wts : List K
  rot : Option (M3 K)

/-- Points of one shell relative to the centre: `(u @ R) * r`. -/
def Shell.points (s : Shell K) : List (V3 K) := s.pts.map fun u => (applyRot s.rot u).scale s.r

/-- Weights of one shell: `ω * w * r**2`. -/
def Shell.weights (s : Shell K) : List K := s.wts.map fun ω => shellWeight ω s.w s.r

/-- `np.vstack(all_points)`. -/
def rawPoints (shells : List (Shell K)) : List (V3 K) := (shells.map Shell.points).flatten

/-- `np.hstack(all_weights)`. -/
def weights (shells : List (Shell K)) : List K := (shells.map Shell.weights).flatten

/-- The index table: slot 0 holds `acc`, slot `i+1` = `indicesStep (slot i) (len of shell i)`. -/
def indicesFrom (acc : Nat) : List Nat → List Nat
  | [] => [acc]
  | n :: ns => acc :: indicesFrom (indicesStep acc n) ns

def indices (shells : List (Shell K)) : List Nat :=
  indicesFrom 0 (shells.map fun s => s.points.length)

/-- Python's `a[lo:hi]` for non-negative `lo`, `hi` (clipping included). -/
def pySlice {α : Type} (a : List α) (lo hi : Nat) : List α := (a.take hi).drop lo

/-- The outside world a construction consults. -/
structure Env (K : Type) where
  /-- degree ↦ size and size ↦ degree dicts of the method (C12) -/
  degreesTbl : List (Nat × Nat)
  npointsTbl : List (Nat × Nat)
  /-- `AngularGrid(degree=d, method=m).points / .weights` for a supported degree `d` -/
  load : Nat → Option (List (V3 K) × List K)
  /-- `Rotation.random(random_state=seed).as_matrix()` -/
  rotation : Nat → M3 K

/-- `AngularGrid(degree=d, method=m)`: resolved degree, points, weights. -/
def angular (env : Env K) (d : Nat) : Except Err (Nat × List (V3 K) × List K) :=
  match getDegreeAndSize env.degreesTbl env.npointsTbl (some d) none with
  | .ok deg _ =>
    match env.load deg with
    | some (p, w) => .ok (deg, p, w)
    | none => .error .noData
  | .valueError => .error .valueError
  | .indexError => .error .indexError

/-- `AngularGrid(degree=deg_i, method=method)` for every requested degree, in shell order
(the first failing shell raises). -/
def loadAll (env : Env K) : List Nat → Except Err (List (Nat × List (V3 K) × List K))
  | [] => .ok []
  | d :: ds =>
    match angular env d with
    | .error e => .error e
    | .ok a =>
      match loadAll env ds with
      | .error e => .error e
      | .ok rest => .ok (a :: rest)

/-- The rest of the loop body from shell `i` on: radial node and weight of shell `i`, its angular
grid, and the matrix for seed `shellSeed rotate i` when the rotation guard holds (the rotation
cannot raise, so loading first and assembling afterwards is the same loop). -/
def assemble (rotation : Nat → M3 K) (rotate : Nat) :
    Nat → List (K × K) → List (Nat × List (V3 K) × List K) → List (Shell K)
  | i, rw :: rg, a :: as =>
    ⟨rw.1, rw.2, a.2.1, a.2.2, if rotates rotate then some (rotation (shellSeed rotate i)) else none⟩
      :: assemble rotation rotate (i + 1) rg as
  | _, _, _ => []

/-- An atomic grid object: what `__init__` stores. -/
structure Grid (K : Type) where
  center : V3 K
  rotate : Nat
  rgrid : List (K × K)
  /-- what the loop assembled, shell by shell -/
  shells : List (Shell K)
  /-- `_points` (relative to the centre) -/
  rawPoints : List (V3 K)
  weights : List K
  indices : List Nat
  /-- `_degs`: the degrees actually used -/
  degrees : List Nat

/-- the `points` property: the centre is added on every read -/
def Grid.points (g : Grid K) : List (V3 K) := g.rawPoints.map fun p => p.addCentre g.center

/-- `self._size = self._weights.size` -/
def Grid.size (g : Grid K) : Nat := g.weights.length

/-- `_generate_atomic_grid` + the attribute assignments of `__init__`. -/
def generate (env : Env K) (rgrid : List (K × K)) (degs : List Nat) (rotate : Nat) (center : V3 K) :
    Except Err (Grid K) :=
  if degs.length ≠ rgrid.length then .error .valueError else
  match loadAll env degs with
  | .error e => .error e
  | .ok as =>
    let shells := assemble env.rotation rotate 0 rgrid as
    .ok ⟨center, rotate, rgrid, shells, AtomGrid.rawPoints shells, AtomGrid.weights shells,
         AtomGrid.indices shells, as.map Prod.fst⟩

/-- The per-shell request: `degrees=` or `sizes=` (sizes win when both are given). -/
inductive Request where
  | degrees (ds : List Nat)
  | sizes (ss : List Nat)
  deriving Repr, DecidableEq

/-- The degree sequence `__init__` hands to `_generate_atomic_grid`: sizes are converted
(`convert_angular_sizes_to_degrees`), a single entry is repeated for every radial point. -/
def effectiveDegrees (npointsTbl : List (Nat × Nat)) (n : Nat) (req : Request) : Except Err (List Nat) :=
  let degs? : Except Err (List Nat) :=
    match req with
    | .degrees ds => .ok ds
    | .sizes ss =>
      match convertSizes npointsTbl ss with
      | some ds => .ok ds
      | none => .error .valueError
  match degs? with
  | .error e => .error e
  | .ok [d] => .ok (List.replicate n d)
  | .ok degs => .ok degs

/-- `AtomGrid.__init__` (type checks of the arguments are done before this point). -/
def init (env : Env K) (rgrid : List (K × K)) (req : Request) (center : V3 K) (rotate : Nat) :
    Except Err (Grid K) :=
  if ¬ rotate < 2 ^ 32 - rgrid.length then .error .valueError else
  match effectiveDegrees env.npointsTbl rgrid.length req with
  | .error e => .error e
  | .ok degs => generate env rgrid degs rotate center

/-- `get_shell_grid(index, r_sq)`: points (relative to the centre) and weights of shell `index`. -/
def getShellGrid (env : Env K) (g : Grid K) (index : Int) (rSq : Bool) :
    Except Err (List (V3 K) × List K) :=
  if ¬ (0 ≤ index ∧ index < g.degrees.length) then .error .valueError else
  let i := index.toNat
  match g.degrees[i]?, g.rgrid[i]? with
  | some d, some rw =>
    match angular env d with
    | .error e => .error e
    | .ok (_, p, wt) =>
      let p := if shellGridRotates g.rotate then
          p.map fun u => u.mulMat (env.rotation (shellGridSeed g.rotate i)) else p
      let p := p.map fun u => u.scaleSG rw.1
      let wt := wt.map fun ω => shellGridWeight ω rw.2
      let wt := if rSq then wt.map fun ωw => shellGridWeightRsq ωw rw.1 else wt
      .ok (p, wt)
  | _, _ => .error .indexError

end

/-! ### Python / NumPy values and primitives met by the generated code (`Gen/AtomGrid.lean`)

`harness/translate/atomgrid.py` translates `AtomGrid.__init__` (up to the call of
`_generate_atomic_grid`), `_input_type_check`, `from_pruned`, `_generate_degree_from_radius` and
`_find_degrees_for_radial_points` statement by statement into `do` blocks over the following
hand-written vocabulary.  `Err.noData` is what a primitive answers when it is asked something the
typing context of the translator excludes (e.g. the entries of `None`): it is never an exception
of the code, so a generated definition that reaches it cannot be equal to the hand model. -/
section Py
variable {α : Type} {K : Type}

/-- what the code reads of the radial-grid argument: `isinstance(rgrid, OneDGrid)`, `.domain`,
`.points`, `.weights` (`OneDGrid` guarantees one weight per point); `.size` -/
structure RGrid (K : Type) where
  isOneDGrid : Bool
  domain : Option (K × K)
  points : List K
  weights : List K

def RGrid.size (g : RGrid K) : Nat := g.points.length

/-- `rgrid[i].points`, `rgrid[i].weights` for all `i`: the list of pairs the hand model works on -/
def RGrid.nodes (g : RGrid K) : List (K × K) := g.points.zip g.weights

/-- a `degrees` / `sizes` argument as Python sees it: `None`, a `list` / `np.ndarray` of integers,
or anything else (a tuple, an int, …) -/
inductive SeqArg where
  | none
  | seq (xs : List Nat)
  | other
  deriving DecidableEq, Repr

/-- `x is not None` -/
def SeqArg.isNotNone : SeqArg → Bool
  | .none => false
  | _ => true

/-- `isinstance(x, (np.ndarray, list))` -/
def SeqArg.isSeq : SeqArg → Bool
  | .seq _ => true
  | _ => false

/-- the entries of a list / array argument -/
def SeqArg.asList : SeqArg → Except Err (List Nat)
  | .seq xs => .ok xs
  | _ => .error .noData

/-- the `rotate` argument: a Python `int`, a NumPy integer, a `bool`, or anything else -/
inductive RotArg where
  | int (n : Int)
  | npInt (n : Int)
  | bool (b : Bool)
  | other
  deriving DecidableEq, Repr

/-- `isinstance(rotate, (int, np.integer))` (`bool` is a subclass of `int`) -/
def RotArg.isIntOrNpInteger : RotArg → Bool
  | .other => false
  | _ => true

/-- `isinstance(rotate, int)` -/
def RotArg.isInt : RotArg → Bool
  | .int _ => true
  | .bool _ => true
  | _ => false

/-- `rotate is not False` -/
def RotArg.isNotFalse : RotArg → Bool
  | .bool false => false
  | _ => true

/-- the integer value in comparisons and sums (`True` is 1, `False` is 0) -/
def RotArg.val : RotArg → Int
  | .int n => n
  | .npInt n => n
  | .bool b => if b then 1 else 0
  | .other => 0

/-- `x` where `x` was tested `is not None` -/
def pyNotNone : Option α → Except Err α
  | some x => .ok x
  | none => .error .noData

/-- `np.zeros(n, dtype=float)` -/
def npZeros [NatCast K] (n : Nat) : List K := List.replicate n ((0 : Nat) : K)

/-- `np.sum(a[:, None] ⋈ b[None, :], axis=1)`: for every entry of `a` the number of entries of `b`
in relation `⋈` to it -/
def npCountAxis1 (rel : K → K → Bool) (a b : List K) : List Nat :=
  a.map fun x => b.countP fun y => rel x y

/-- `d[position]` for an array of non-negative integer positions: `IndexError` beyond the end -/
def npTake (d : List α) (position : List Nat) : Except Err (List α) :=
  position.mapM fun p =>
    match d[p]? with
    | some x => .ok x
    | none => .error .indexError

/-- `np.array(a) * s` for a 1-D float array and a scalar -/
def npMulScalar [Mul K] (a : List K) (s : K) : List K := a.map fun x => x * s

/-- `np.min(a)`: `ValueError` on an empty array -/
def npMin [LT K] [DecidableLT K] : List K → Except Err K
  | [] => .error .valueError
  | x :: xs => .ok (xs.foldl (fun m y => if y < m then y else m) x)

/-- `np.ones(n, dtype=int) * xs` for a 1-D integer array `xs`: a one-element `xs` is broadcast,
equal lengths multiply entry by entry, anything else is NumPy's broadcast `ValueError` -/
def npOnesMul (n : Nat) (xs : List Nat) : Except Err (List Nat) :=
  match xs with
  | [x] => .ok (List.replicate n x)
  | _ => if xs.length = n then .ok xs else .error .valueError

/-- `np.array(x)` of `None` or a list of integers: a 0-d object array or a 1-d array -/
inductive NpArr (α : Type) where
  | unsized
  | arr (xs : List α)

def npArrayOpt : Option (List α) → NpArr α
  | none => .unsized
  | some xs => .arr xs

/-- `len(a)`: `TypeError` (len() of unsized object) for a 0-d array -/
def NpArr.len : NpArr α → Except Err Nat
  | .unsized => .error .typeError
  | .arr xs => .ok xs.length

/-- `for d in a`: `TypeError` (iteration over a 0-d array) -/
def NpArr.iter : NpArr α → Except Err (List α)
  | .unsized => .error .typeError
  | .arr xs => .ok xs

/-- a 1-D centre array as the model's row vector (`center.shape == (3,)`) -/
def V3.ofList? : List K → Option (V3 K)
  | [x, y, z] => some ⟨x, y, z⟩
  | _ => none

/-- the constructor's range test on an `int` seed, as the generated code writes it (`Int`
arithmetic), is the model's test on naturals (stated here, Mathlib-free, so that the instances are
those of the generated text) -/
theorem rotateGuard_true (r : RotArg) (rot n : Nat) (hv : r.val = (rot : Int)) (h : rot < 2 ^ 32 - n) :
    decide ((0 : Int) ≤ r.val ∧ r.val < (2 : Int) ^ 32 - (n : Int)) = true := by
  apply decide_eq_true
  have h2 : (2 : Int) ^ 32 = 4294967296 := by decide
  have h3 : (2 : Nat) ^ 32 = 4294967296 := by decide
  rw [hv, h2]; rw [h3] at h
  omega

theorem rotateGuard_false (r : RotArg) (rot n : Nat) (hv : r.val = (rot : Int)) (h : ¬ rot < 2 ^ 32 - n) :
    decide ((0 : Int) ≤ r.val ∧ r.val < (2 : Int) ^ 32 - (n : Int)) = false := by
  apply decide_eq_false
  have h2 : (2 : Int) ^ 32 = 4294967296 := by decide
  have h3 : (2 : Nat) ^ 32 = 4294967296 := by decide
  rw [hv, h2]; rw [h3] at h
  omega

end Py

/-! ### Round 3: vocabulary of the statement-wise translations of `get_shell_grid`,
`_generate_atomic_grid` (loop included) and `from_preset` (`Gen/AtomGrid.lean`) -/
section Py3
variable {α σ : Type} {K : Type}

/-- Python's `l[i]` for an integer `i` (negative indices count from the end): `IndexError` outside -/
def pyItem (l : List α) (i : Int) : Except Err α :=
  let j : Int := if i < 0 then i + (l.length : Int) else i
  if j < 0 then .error .indexError else
  match l[j.toNat]? with
  | some x => .ok x
  | none => .error .indexError

/-- `a[i]` for a non-negative index into a 1-D array -/
def npGetItem (l : List α) (i : Nat) : Except Err α :=
  match l[i]? with
  | some x => .ok x
  | none => .error .indexError

/-- `a[i] = v` on a 1-D array (the array with that entry replaced): `IndexError` beyond the end -/
def npSetItem (l : List α) (i : Nat) (v : α) : Except Err (List α) :=
  if i < l.length then .ok (l.set i v) else .error .indexError

/-- `np.zeros(n, dtype=int)` -/
def npZerosInt (n : Nat) : List Nat := List.replicate n 0

/-- `np.vstack(list of (n_i, 3) arrays)`: `ValueError` for an empty list -/
def npVstack : List (List α) → Except Err (List α)
  | [] => .error .valueError
  | l => .ok l.flatten

/-- `np.hstack(list of 1-D arrays)`: `ValueError` for an empty list -/
def npHstack : List (List α) → Except Err (List α)
  | [] => .error .valueError
  | l => .ok l.flatten

/-- `for i, x in enumerate(xs): state = body(state, i, x)` starting the count at `i`; the first
iteration that raises ends the loop -/
def pyForEnumerateFrom (body : σ → Nat → α → Except Err σ) : Nat → List α → σ → Except Err σ
  | _, [], st => .ok st
  | i, x :: xs, st =>
    match body st i x with
    | .error e => .error e
    | .ok st' => pyForEnumerateFrom body (i + 1) xs st'

/-- `for i, x in enumerate(xs)` -/
def pyForEnumerate (xs : List α) (init : σ) (body : σ → Nat → α → Except Err σ) : Except Err σ :=
  pyForEnumerateFrom body 0 xs init

/-- what `AngularGrid(degree=d, method=m)` is to the calling code: `.degree` (the resolved one),
`.points`, `.weights` (assignable) -/
structure AngGrid (K : Type) where
  degree : Nat
  points : List (V3 K)
  weights : List K

/-- `a @ M`, `a.dot(M)` for an `(N, 3)` array and a `(3, 3)` matrix -/
def npMatMul [Add K] [Mul K] (a : List (V3 K)) (M : M3 K) : List (V3 K) := a.map fun u => u.mulMat M

/-- `a * r` for an `(N, 3)` array and a one-element array `r` (broadcast over rows and columns) -/
def npMulRows [Mul K] (a : List (V3 K)) (r : K) : List (V3 K) := a.map fun u => ⟨u.x * r, u.y * r, u.z * r⟩

/-- `d[k]` for a dict given as its item list: `KeyError` for a missing key -/
def pyDictGet {β : Type} (d : List (Nat × β)) (k : Nat) : Except Err β :=
  match d.find? fun kv => kv.1 == k with
  | some kv => .ok kv.2
  | none => .error .keyError

/-- `k in d` -/
def pyDictContains {β : Type} (d : List (Nat × β)) (k : Nat) : Bool := d.any fun kv => kv.1 == k

/-- `UniformInteger(npt)` as far as `from_preset` is concerned: its size -/
structure UniformIntegerGrid where
  npoints : Nat

/-- the outside world `from_preset` consults besides the angular tables: the module constant
`_DEFAULT_POWER_RTRANSFORM_PARAMS` (`atnum ↦ (rmin, rmax, npt)`, lengths in angstrom), the two SciPy
constants, `PowerRTransform(rmin, rmax).transform_1d_grid(UniformInteger(npt))` (C01 / C03 / C04) as a
function of its three arguments, and the number type of a stored sector radius `num / 2^k` -/
structure PresetWorld (K : Type) where
  defaultParams : List (Nat × (K × K × Nat))
  angstrom : K
  atomicUnitOfLength : K
  powerTransformGrid : K → K → UniformIntegerGrid → RGrid K
  toK : Nat × Nat → K

/-- `np.load(files("grid.data.prune_grid").joinpath(f"prune_grid_{preset}.npz"))`: the pairs the
file tabulates (`Gen/Presets.lean`, regenerated from the `.npz` files) -/
def npLoadPruneGrid (preset : Preset) : List Entry := entries.filter fun e => e.preset == preset

/-- `data[f"{atnum}_rad"]`: an integer array of shell counts or a float array of sector radii -/
structure RadArr (K : Type) where
  isInt : Bool
  counts : List Nat
  values : List K

def RadArr.len (r : RadArr K) : Nat := r.values.length

def pruneEntry (data : List Entry) (atnum : Nat) : Except Err Entry :=
  match data.find? fun e => e.atnum == atnum with
  | some e => .ok e
  | none => .error .keyError

/-- `data[f"{atnum}_rad"]` (`KeyError` for an element the file does not tabulate) -/
def pruneRad (toK : Nat × Nat → K) (data : List Entry) (atnum : Nat) : Except Err (RadArr K) :=
  match pruneEntry data atnum with
  | .ok e => .ok ⟨e.radIsInt, e.radCounts, e.radSectors.map toK⟩
  | .error err => .error err

/-- `data[f"{atnum}_npt"]` -/
def pruneNpt (data : List Entry) (atnum : Nat) : Except Err (List Nat) :=
  match pruneEntry data atnum with
  | .ok e => .ok e.npt
  | .error err => .error err

/-- `range(rad[idx])`: `IndexError` beyond the array, `TypeError` for a float entry -/
def pyRangeOfItem (rad : RadArr K) (idx : Nat) : Except Err (List Nat) :=
  if rad.len ≤ idx then .error .indexError else
  if !rad.isInt then .error .typeError else
  match rad.counts[idx]? with
  | some c => .ok (List.range c)
  | none => .error .indexError

/-- `[f(i, j) for i in xs for j in g(i)]` where `g` and `f` may raise -/
def pyFlatMapM {β γ : Type} (xs : List α) (inner : α → Except Err (List β)) (elt : α → β → Except Err γ) :
    Except Err (List γ) :=
  match xs with
  | [] => .ok []
  | x :: rest =>
    match inner x with
    | .error e => .error e
    | .ok js =>
      match js.mapM (elt x) with
      | .error e => .error e
      | .ok ys =>
        match pyFlatMapM rest inner elt with
        | .error e => .error e
        | .ok zs => .ok (ys ++ zs)

end Py3

section PyEnv
variable {K : Type} [Add K] [Sub K] [Mul K] [Div K] [NatCast K]

/-- `AngularGrid.convert_angular_sizes_to_degrees(sizes, method)` (C12): `ValueError` when a size
is above the largest supported one -/
def convertAngularSizesToDegrees (env : Env K) (sizes : List Nat) : Except Err (List Nat) :=
  match convertSizes env.npointsTbl sizes with
  | some ds => .ok ds
  | none => .error .valueError

/-- `AngularGrid._get_degree_and_size(degree=d, size=s, method=method)[0]` (C12) -/
def getDegreeAndSize0 (env : Env K) (degree size : Option Nat) : Except Err Nat :=
  match getDegreeAndSize env.degreesTbl env.npointsTbl degree size with
  | .ok deg _ => .ok deg
  | .valueError => .error .valueError
  | .indexError => .error .indexError

/-- `AngularGrid(degree=d, method=method)` as an object (round 3) -/
def angularGrid (env : Env K) (d : Nat) : Except Err (AngGrid K) :=
  match angular env d with
  | .ok (deg, p, w) => .ok ⟨deg, p, w⟩
  | .error e => .error e

/-- `Rotation.random(random_state=s).as_matrix()`: NumPy rejects seeds outside `0 … 2**32 - 1`
with `ValueError` (round 3) -/
def rRandomMatrix (env : Env K) (s : Int) : Except Err (M3 K) :=
  match s with
  | .ofNat n => if n < 4294967296 then .ok (env.rotation n) else .error .valueError
  | .negSucc _ => .error .valueError

/-- `self._generate_atomic_grid(rgrid, degrees, rotate=rotate, method=…)` followed by the attribute
assignments, for a `rotate` that passed the constructor's checks.  Inside the shell loop, after
`AngularGrid(degree=deg_i)`, the code re-checks `isinstance(rotate, int)`: a NumPy integer seed
that the constructor accepted is rejected there with `ValueError` (on the first shell; a length
mismatch or an unsupported first degree raise first).  `True` counts as 1 (`rotate != 0`,
`rotate + i`), `False` as 0. -/
def generateAtomicGrid (env : Env K) (rgrid : RGrid K) (degrees : List Nat) (rotate : RotArg)
    (center : List K) : Except Err (Grid K) :=
  match V3.ofList? center with
  | none => .error .noData
  | some c =>
    if rotate.isInt then
      if rotate.val < 0 then .error .noData else generate env rgrid.nodes degrees rotate.val.toNat c
    else
      if degrees.length ≠ rgrid.nodes.length then .error .valueError else
      match degrees with
      | [] => generate env rgrid.nodes degrees 0 c
      | d :: _ =>
        match angular env d with
        | .error e => .error e
        | .ok _ => .error .valueError

/-- which request `__init__` works on: `sizes` wins when given; both must be a list / array -/
def requestOf : SeqArg → SeqArg → Except Err Request
  | _, .seq ss => .ok (.sizes ss)
  | _, .other => .error .typeError
  | .seq ds, .none => .ok (.degrees ds)
  | _, .none => .error .typeError

/-- the two `rotate` guards of `__init__`: `TypeError` unless an `int` / NumPy integer / `bool`,
`ValueError` unless `False` or `0 ≤ rotate < 2**32 - len(rgrid.points)` -/
def rotateCheck (rotate : RotArg) (n : Nat) : Except Err Unit :=
  if !(rotate.isIntOrNpInteger) then .error .typeError
  else if rotate.isNotFalse &&
      !(decide ((0 : Int) ≤ rotate.val ∧ rotate.val < (2 : Int) ^ 32 - (n : Int))) then .error .valueError
  else .ok ()

/-- **Hand model of `AtomGrid.__init__` on Python-level arguments** (what `Gen.AtomGrid.init` is
proved equal to): centre default, `check` = `_input_type_check`, the `rotate` guards, the request
(`sizes` before `degrees`, type guards, C12 conversion, one-entry broadcast), then the assembly. -/
def initArgs (check : RGrid K → List K → Except Err Unit) (env : Env K) (rgrid : RGrid K)
    (degrees sizes : SeqArg) (center : Option (List K)) (rotate : RotArg) : Except Err (Grid K) :=
  let c : List K := match center with
    | none => npZeros 3
    | some v => v
  match check rgrid c with
  | .error e => .error e
  | .ok _ =>
    match rotateCheck rotate rgrid.points.length with
    | .error e => .error e
    | .ok _ =>
      match requestOf degrees sizes with
      | .error e => .error e
      | .ok req =>
        match effectiveDegrees env.npointsTbl rgrid.size req with
        | .error e => .error e
        | .ok degs => generateAtomicGrid env rgrid degs rotate c

end PyEnv

section Sectors
variable {K : Type} [LT K] [LE K] [DecidableLT K] [DecidableLE K]

/-- `np.sum(r > r_sectors)`: number of sector bounds the radius exceeds. -/
def sectorPosition (bounds : List K) (r : K) : Nat := bounds.countP fun b => sectorBelow r b

/-- `_find_degrees_for_radial_points`: `d_sectors[position]` per radial point. -/
def findDegreesForRadialPoints (rpoints bounds : List K) (dsect : List Nat) : Except Err (List Nat) :=
  rpoints.mapM fun r =>
    match dsect[sectorPosition bounds r]? with
    | some d => .ok d
    | none => .error .indexError

/-- `_generate_degree_from_radius` (`fromSizes`: `from_pruned(s_sectors=…)` converts first). -/
def generateDegreeFromRadius [Mul K] (degreesTbl npointsTbl : List (Nat × Nat)) (rpoints : List K)
    (radius : K) (rsect : List K) (sect : Request) : Except Err (List Nat) :=
  let dsect? : Except Err (List Nat) := match sect with
    | .degrees ds => .ok ds
    | .sizes ss => match convertSizes npointsTbl ss with
      | some ds => .ok ds
      | none => .error .valueError
  match dsect? with
  | .error e => .error e
  | .ok dsect =>
  let bounds := rsect.map fun b => b * radius
  if dsect.length ≠ bounds.length + 1 then .error .valueError else
  match dsect.mapM (fun d => match getDegreeAndSize degreesTbl npointsTbl (some d) none with
      | .ok deg _ => Except.ok deg
      | .valueError => .error Err.valueError
      | .indexError => .error Err.indexError) with
  | .error e => .error e
  | .ok matched => findDegreesForRadialPoints rpoints bounds matched

end Sectors

/-! ### `from_preset` -/

/-- `[npt[idx] for idx in range(len(rad)) for _ in range(rad[idx])]`; `npt[idx]` is evaluated
once per inner iteration, so an index beyond `npt` only raises when its count is positive. -/
def expandGo (npt : List Nat) : Nat → List Nat → Except Err (List Nat)
  | _, [] => .ok []
  | idx, c :: cs =>
    if c = 0 then expandGo npt (idx + 1) cs else
    match npt[idx]? with
    | none => .error .indexError
    | some s =>
      match expandGo npt (idx + 1) cs with
      | .ok rest => .ok (List.replicate c s ++ rest)
      | .error e => .error e

def expandShellCounts (rad npt : List Nat) : Except Err (List Nat) := expandGo npt 0 rad

/-- What `from_preset` hands to the constructor (or the exception it raises before):
the table `e` read in the form the branch predicate selects. `toK` turns a stored sector radius
(`num / 2^k`) into the number type. -/
def presetRequest {K : Type} [LT K] [LE K] [DecidableLT K] [DecidableLE K]
    (toK : Nat × Nat → K) (npointsTbl : List (Nat × Nat)) (e : Entry) (rpoints : List K) :
    Except Err Request :=
  if takesShellCountBranch e.preset e.atnum then
    if ¬ e.radIsInt then .error .typeError else
    match expandShellCounts e.radCounts e.npt with
    | .error err => .error err
    | .ok ss => .ok (.sizes ss)
  else
    match convertSizes npointsTbl e.npt with
    | none => .error .valueError
    | some degs =>
      match findDegreesForRadialPoints rpoints (e.radSectors.map toK) degs with
      | .error err => .error err
      | .ok ds => .ok (.degrees ds)

/-- `_get_rgrid_size(preset, atnum)`: the radial size a preset prescribes. -/
def prescribedSize (e : Entry) : Option Nat :=
  if ¬ rgridSizePresets.contains e.preset then none else
  if rgridSizeFromRPoints.contains e.preset then
    (rPoints.find? fun k => k.1 == e.preset).map fun k => k.2.sum
  else if e.radIsInt then some e.radSum else none

/-- exact `Float` of a stored dyadic `num / 2^k` (`num < 2^53`, so both operands and the quotient are exact). -/
def dyadicToFloat (q : Nat × Nat) : Float := Float.ofNat q.1 / Float.ofNat (2 ^ q.2)

end GridVerif.AtomGrid

/-
  C16 — hand-written part of the model of `grid/poisson.py` / `grid/robust_poisson.py`:
  what the Poisson solvers *pose* to the ODE layer and how they assemble the answers.

  The scalar expressions (coefficients, right-hand sides, boundary / initial values, masks,
  option predicates, the robust split) are the *generated* definitions of `Gen/Poisson.lean`;
  this file adds the list plumbing around them:
  * `y00`            the degree-0 real spherical harmonic the code divides by,
  * `odeLhs`         `Σ_k a_k y^(k)`, the left-hand side of the linear ODE `grid.ode` is given,
  * `radPoints`      the radial mesh handed to `solve_ode_bvp` (origin / large-point options),
  * `bvpProblems`, `ivpProblems`  the sequence of `(l, m)` problems in call order,
  * `potentialAt`    `Σ_lm value_lm(r) Y_lm` at one point,
  * `atomSlices`, `molSum`        the molecular fan-out (`w_A ρ` per atom, sum of the atomic answers),
  * `coreDensity`, `robustResidualAll`, `robustPotential`  the robust split,
  * `laplacianAt`, `lapDegreesK`, `lapAtomSlices`, `lapTermSlices`, `lapSum`  the list plumbing of
    `interpolate_laplacian` (three contractions with the harmonics, clamp, molecular fan-out).
  Tied to the implementation by correspondence (`harness/props/c16.py` intercepts the calls of
  `solve_ode_bvp` / `solve_ode_ivp`).  No Mathlib import (linked into the driver).
-/
import GridVerif.Model.Elem
import GridVerif.Gen.Poisson

namespace GridVerif.Poisson
open GridVerif.Gen.Poisson

variable {K : Type} [Add K] [Sub K] [Mul K] [Div K] [Neg K] [NatCast K] [Elem K]
  [LT K] [LE K] [DecidableLT K] [DecidableLE K]

/-- The real spherical harmonic of degree 0: `Y_00 = 1/(2√π)` (specification; the code obtains it
from `generate_real_spherical_harmonics(0, …)[0, 0]`, compared in the correspondence). -/
def y00 : K := ((1 : Nat) : K) / (((2 : Nat) : K) * Elem.sqrt Elem.pi)

/-- `Σ_k a_k · y^(k)`: coefficients and derivatives `[y, y', y'', …]` in ascending order. -/
def odeLhs : List K → List K → K
  | a :: as, y :: ys => a * y + odeLhs as ys
  | _, _ => ((0 : Nat) : K)

/-- Radial points handed to `solve_ode_bvp`: `atomgrid.rgrid.points`, with the origin prepended
when `include_origin` and all points are positive, then without the points above
`remove_large_pts` (when it is not `None`). -/
def radPoints (pts : List K) (includeOrigin : Bool) (removeLarge : Option K) : List K :=
  let p1 := if includeOrigin && pts.all (fun p => decide (originAbsent p)) then originValue :: pts else pts
  match removeLarge with
  | none => p1
  | some t => p1.filter (fun p => !decide (isLarge p t))

/-- The `(l_deg, m_ord)` pairs of the double loop, in call order (`i_spline` = position). -/
def lmSeq (mOrders : Nat → List Int) (lStart lStop : Int) : List (Nat × Int) :=
  (intRange lStart lStop).flatMap fun l => (mOrders l.toNat).map fun m => (l.toNat, m)

/-- One problem handed to `solve_ode_bvp`: degree `l` (it fixes the coefficient function),
`m_ord`, and the boundary conditions. -/
def bvpProblems (lMax : Nat) (boundary : K) : List (Nat × Int × List (Nat × Nat × K)) :=
  (lmSeq bvpMOrders bvpLStart (bvpLStop lMax)).map fun lm => (lm.1, lm.2, bvpBdCond lm.1 lm.2 boundary)

/-- One problem handed to `solve_ode_ivp`: degree, `m_ord`, initial data at `r_max`. -/
def ivpProblems (lMax : Nat) (boundary rMax : K) : List (Nat × Int × List K) :=
  (lmSeq ivpMOrders ivpLStart (ivpLStop lMax)).map fun lm => (lm.1, lm.2, ivpInit lm.1 lm.2 boundary rMax)

/-- `np.einsum("ij, ij -> j", r_values, r_sph_harm)` at one point. -/
def dot : List K → List K → K
  | a :: as, b :: bs => a * b + dot as bs
  | _, _ => ((0 : Nat) : K)

/-- The interpolant of the boundary-value solver at one point: spline values `us` (one per
`(l, m)`, at the radius `r` of the point) and the harmonics `ylm` at its angles. -/
def bvpPotentialAt (us : List K) (r : K) (ylm : List K) : K := dot (us.map (bvpValue · r)) ylm

/-- Same for the initial-value solver. -/
def ivpPotentialAt (us : List K) (r : K) (ylm : List K) : K := dot (us.map (ivpValue · r)) ylm

/-- `func_vals_atom[start_index:final_index]` for every atom: the density times the
atom-in-molecule weights, cut at `molgrid.indices` (`none`: an index position outside `indices`). -/
def atomSlices (f w : List K) (indices : List Nat) : Option (List (List K)) :=
  let fw := List.zipWith molWeighted f w
  (List.range (indices.length - 1)).mapM fun i => do
    let a ← indices[molSliceStart i]?
    let b ← indices[molSliceEnd i]?
    pure ((fw.drop a).take (b - a))

/-- `sum_of_interpolation_functions` at one point: the values of the atomic interpolants,
first one, then `+=` the others in order. `none` for an empty list (the code would raise). -/
def molSum : List K → Option K
  | [] => none
  | v :: vs => some (vs.foldl molSumStep v)

/-- `_build_core_density` at one point with squared distance `rSq`. -/
def coreDensity (coeffs alphas : List K) (rSq : K) : K :=
  (List.zip coeffs alphas).foldl (fun rho ca => rho + coreTerm ca.1 ca.2 rSq) ((0 : Nat) : K)

/-- Split 1 at one grid point: subtract the core density of every atom in turn. -/
def robustResidualAll (rho : K) (cores : List K) : K := cores.foldl robustResidual rho

/-- `total_potential` at one point: analytic potentials `pots` of the atoms, the bonding fit
`vBond` and the numerical potential `vRes` of the residual. -/
def robustPotential (pots : List K) (vBond vRes : K) : K :=
  robustTotal (pots.foldl robustCoreAccum ((0 : Nat) : K)) vBond vRes

/-! ### `interpolate_laplacian` -/

/-- `np.einsum("ln,l,ln -> n", r_values_f, degrees, r_sph_harm)` at one point. -/
def dot3 : List K → List K → List K → K
  | a :: as, d :: ds, b :: bs => a * d * b + dot3 as ds bs
  | _, _, _ => ((0 : Nat) : K)

/-- The spline values of the derivative order a component asks for: `spline(r)`, `spline(r, 1)`,
`spline(r, 2)` are the inputs `rho`, `rho1`, `rho2` (one entry per `(l, m)`); no other order is
available (`[]`). -/
def lapPick (order : Nat) (rho rho1 rho2 : List K) : List K :=
  match order with
  | 0 => rho
  | 1 => rho1
  | 2 => rho2
  | _ => []

/-- One of the three contractions of `interpolate_laplacian_atom_grid`. -/
def lapContract (weighted : Bool) (vals degs ylm : List K) : K :=
  if weighted then dot3 vals degs ylm else dot vals ylm

/-- The generated `degrees` array as numbers (NumPy converts the integer array in the contraction). -/
def lapDegreesK (lMax : Nat) : List K := (lapDegrees lMax).map fun d => ((d.toNat : Nat) : K)

/-- `interpolate_laplacian_atom_grid` at one point at distance `r` from the atom: `rho`, `rho1`, `rho2`
are the values of the radial component splines and of their first and second derivatives **at the
clamped radius** `lapClamp r cutoff`, `degs` the `degrees` array, `ylm` the harmonics at the
angles of the point. Assembled from the generated pieces only. -/
def laplacianAt (rho rho1 rho2 degs ylm : List K) (r cutoff : K) : K :=
  let rc := lapClamp r cutoff
  lapReturn
    (lapFirst (lapContract lapFirstWeighted (lapPick lapFirstOrder rho rho1 rho2) degs ylm) rc)
    (lapSecond (lapContract lapSecondWeighted (lapPick lapSecondOrder rho rho1 rho2) degs ylm) rc)
    (lapThird (lapContract lapThirdWeighted (lapPick lapThirdOrder rho rho1 rho2) degs ylm) rc)

/-- `func_vals_atom[start_index:final_index]` of every loop iteration of `interpolate_laplacian`. -/
def lapAtomSlices (f w : List K) (indices : List Nat) : Option (List (List K)) :=
  let fw := List.zipWith lapWeighted f w
  (List.range (indices.length - 1)).mapM fun i => do
    let a ← indices[lapSliceStart i]?
    let b ← indices[lapSliceEnd i]?
    pure ((fw.drop a).take (b - a))

/-- What the term of atom `i` works with when the returned callable is evaluated: (index of the
atomic grid, values handed to `radial_component_splines`), following Python's closure rules as
recorded by the translator (`lapGridOwner`, `lapSliceOwner`). -/
def lapTermSlices (f w : List K) (indices : List Nat) : Option (List (Nat × List K)) := do
  let ss ← lapAtomSlices f w indices
  let n := ss.length
  (List.range n).mapM fun i => do
    let s ← ss[lapSliceOwner i n]?
    pure (lapGridOwner i n, s)

/-- `sum_of_interpolation_funcs` at one point (`none`: no atoms, the code would raise). -/
def lapSum : List K → Option K
  | [] => none
  | v :: vs => some (vs.foldl lapSumStep v)

end GridVerif.Poisson

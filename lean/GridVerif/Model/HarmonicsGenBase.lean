/-
  C08 / C09 — the few NumPy/Python primitives the *generated* files `Gen/Harmonics.lean` and
  `Gen/AtomInterp.lean` refer to (hand-written, part of the trusted base of those translations):

  * `DType`   — the storage types the translators record (`np.longdouble`, `float64`, Python/NumPy integers);
  * `pyIdx`   — Python's index rule for a one-dimensional axis of length `n` (negative indices wrap);
  * `eqK`     — `a == b` on floats that are not NaN: neither `a < b` nor `b < a`;
  * `setCol`  — `M[:, j] = v` on a list of rows;
  * `zerosK`  — `np.zeros(n)`;
  * `intToK`  — `float(m)` of a Python integer.

  No Mathlib import (linked into the driver).
-/
import GridVerif.Model.Elem

namespace GridVerif.GenBase

/-- Storage type of a NumPy array / scalar as written in the source. -/
inductive DType where
  /-- Python `int`, `np.int64` -/
  | int
  /-- Python `float`, `np.float64` (53-bit significand, exponent range `±1023`) -/
  | float64
  /-- `np.longdouble` (x87 extended precision on the supported platform: exponent range `±16383`) -/
  | longdouble
  deriving DecidableEq, Repr

/-- Order of the NumPy promotion among the three types. -/
def DType.rank : DType → Nat
  | .int => 0
  | .float64 => 1
  | .longdouble => 2

/-- Python's `a[i]` index rule on an axis of length `n`: `i ≥ 0 ↦ i`, `i < 0 ↦ n + i`
(an index outside `[-n, n)` is an `IndexError` in Python; the users of `pyIdx` prove their indices in range). -/
def pyIdx (n : Nat) (i : Int) : Nat := if i < 0 then n - i.natAbs else i.toNat

section
variable {K : Type}

/-- `a == b` for floats that are not NaN. -/
def eqK [LT K] (a b : K) : Prop := ¬ (a < b ∨ b < a)

instance [LT K] [DecidableLT K] (a b : K) : Decidable (eqK a b) := by unfold eqK; infer_instance

/-- `M[:, j] = v`. -/
def setCol (M : List (List K)) (j : Nat) (v : K) : List (List K) := M.map (fun row => row.set j v)

/-- `float(m)` for a Python integer `m`. -/
def intToK [Neg K] [NatCast K] (m : Int) : K := if m < 0 then -((m.natAbs : Nat) : K) else ((m.natAbs : Nat) : K)

/-- `np.zeros(n)`. -/
def zerosK [NatCast K] (n : Nat) : List K := List.replicate n ((0 : Nat) : K)

end

end GridVerif.GenBase

/-
  C08 / C02 — hand model of the real spherical harmonics of `grid/utils.py` and the
  executable oracle for the angular quadrature files.

  * `ylmCode`   — `generate_real_spherical_harmonics` exactly as written, for one point:
                  the two work columns `p_leg[:, 0]`, `p_leg[:, 1]` of *unnormalised*
                  Legendre functions updated in place, the running `factorial` factor, the
                  row counter `i_sph` (Horton-2 order `m = 0, 1, -1, 2, -2, …`).
  * `ylmNorm`   — the same functions by the fully normalised recursion (no factorial
                  ratio is ever formed), usable at `Float` up to degree 325 and beyond.
  * `dYlm`      — `generate_derivative_real_spherical_harmonics` incl. the pole convention.
  * `solidHarmonics`, `cartToSph`, `sphToCart`, `convDeriv`
                — `solid_harmonics`, `convert_cart_to_sph`, the spherical parametrisation,
                  `convert_derivative_from_spherical_to_cartesian`.
  * `AngularCheck.file` — `Float` only, arrays and tail recursion: for a point set with
                  weights and an advertised degree the largest deviation from the unit
                  sphere, the size, `Σ w`, and per degree `l ≤ deg` the largest
                  `|Σᵢ wᵢ Y_lm(pᵢ) − √(4π) δ_l0|` (normalised recursion, Cartesian input,
                  no libm function except `sqrt`).

  Angles: `theta` is the azimuth, `phi` the polar angle (as in the docstrings of the code).
  The NumPy code is element-wise in the points, so the model is written for one point.
  Tied to the implementation by correspondence (`harness/props/c08.py`, `c02.py`).
  No Mathlib import (linked into the driver).
-/
import GridVerif.Model.Elem

namespace GridVerif.Harmonics

/-! ## index bookkeeping (pure `Nat`/`Int`) -/

/-- `index_m` of the derivative routine: position of order `m` inside the block of one
degree (`2m − 1` for `m > 0`, `2|m|` otherwise). -/
def indexM (m : Int) : Nat := if 0 < m then (2 * m - 1).toNat else 2 * m.natAbs

/-- Row of `(l, m)` in the arrays returned by the harmonics routines: `l² + index_m(m)`. -/
def rowIndex (l : Nat) (m : Int) : Nat := l * l + indexM m

/-- `m_values = [0] + [m for x in range(1, l + 1) for m in (x, -x)]`. -/
def mValues (l : Nat) : List Int :=
  0 :: (List.range' 1 l).flatMap (fun (x : Nat) => [(x : Int), -(x : Int)])

/-- All `(l, m)` in the order of the rows, degrees `0..L`. -/
def lmOrder (L : Nat) : List (Nat × Int) :=
  (List.range (L + 1)).flatMap (fun l => (mValues l).map (fun m => (l, m)))

/-- The degree list of `solid_harmonics`: `[l] * (2l+1)` for `l = 0..L`, concatenated. -/
def degreeList (L : Nat) : List Nat :=
  (List.range (L + 1)).flatMap (fun l => List.replicate (2 * l + 1) l)

section generic
variable {K : Type} [Add K] [Sub K] [Mul K] [Div K] [Neg K] [NatCast K] [Elem K]

/-! ## `generate_real_spherical_harmonics`, as written -/

/-- `a_k(deg, ord) = (2.0 * (deg - 1.0) + 1) / (deg - 1.0 - ord + 1.0)`. -/
def aK (l m : Nat) : K :=
  (((2 : Nat) : K) * ((l : K) - ((1 : Nat) : K)) + ((1 : Nat) : K)) /
    ((l : K) - ((1 : Nat) : K) - (m : K) + ((1 : Nat) : K))

/-- `b_k(deg, ord) = (deg - 1.0 + ord) / (deg - ord)`. -/
def bK (l m : Nat) : K :=
  ((l : K) - ((1 : Nat) : K) + (m : K)) / ((l : K) - (m : K))

/-- `fac_sph(deg, ord) = sqrt((2.0 * deg + 1) / (4.0 * pi))`. -/
def facSph (l : Nat) : K :=
  Elem.sqrt ((((2 : Nat) : K) * (l : K) + ((1 : Nat) : K)) / (((4 : Nat) : K) * Elem.pi))

/-- The mutable state of the double loop. -/
structure LegState (K : Type) where
  /-- `p_leg[:, 0]` -/
  p0 : List K
  /-- `p_leg[:, 1]` -/
  p1 : List K
  /-- `factorial[0]` -/
  fact : K
  /-- the rows written for the current degree, `spherical_harm[l² : i_sph]` -/
  deg : List K

/-- Body of the inner loop (`for m_ord in range(0, l_deg + 1)`) for degree `l`, order `m`. -/
def stepOrder (sinPhi cosPhi theta : K) (l : Nat) (st : LegState K) (m : Nat) : LegState K :=
  let z : K := ((0 : Nat) : K)
  let st1 : LegState K :=
    if l = m then
      -- p_leg[m, 0] = p_leg[m - 1, 1] * (2 * (l - 1.0) + 1) * sin_phi
      let diag : K := st.p1.getD (m - 1) z *
        (((2 : Nat) : K) * ((l : K) - ((1 : Nat) : K)) + ((1 : Nat) : K)) * sinPhi
      { st with p0 := st.p0.set m diag }
    else
      -- second_fac = b_k(l, m) * p_leg[m, 1] if m <= l - 2 else 0.0
      let second : K := if m + 2 ≤ l then bK l m * st.p1.getD m z else z
      let old : K := st.p0.getD m z
      -- p_leg[m, 1] = p_leg[m, 0];  p_leg[m, 0] = a_k * cos_phi * p_leg[m, 0] - second_fac
      { st with p1 := st.p1.set m old, p0 := st.p0.set m (aK l m * cosPhi * old - second) }
  let plm : K := st1.p0.getD m z
  if m = 0 then
    -- factorial = sqrt((l + 1.0) * l);  row = fac_sph * p_leg[0, 0]
    { st1 with fact := Elem.sqrt (((l : K) + ((1 : Nat) : K)) * (l : K)),
               deg := st1.deg ++ [facSph l * plm] }
  else
    -- common_fact = (p_leg[m, 0] / factorial) * fac_sph * sqrt(2.0)
    let common : K := plm / st1.fact * facSph l * Elem.sqrt ((2 : Nat) : K)
    { st1 with deg := st1.deg ++ [common * Elem.cos ((m : K) * theta),
                                  common * Elem.sin ((m : K) * theta)],
               -- factorial *= sqrt((l + m + 1.0) * (l - m))
               fact := st1.fact * Elem.sqrt (((l : K) + (m : K) + ((1 : Nat) : K)) * ((l : K) - (m : K))) }

/-- One pass of the outer loop: all orders `0..l` of degree `l` (the rows of the degree are
collected in `deg`, starting empty). -/
def stepDegree (sinPhi cosPhi theta : K) (st : LegState K) (l : Nat) : LegState K :=
  (List.range (l + 1)).foldl (stepOrder sinPhi cosPhi theta l) { st with deg := [] }

/-- State before the loops: `p_leg = zeros((l_max+1, 2))`, `p_leg[0, :] = 1`.
(`factorial` does not exist yet in the code; it is assigned at `m = 0` of every degree
before it is read.) -/
def initState (L : Nat) : LegState K :=
  { p0 := ((1 : Nat) : K) :: List.replicate L ((0 : Nat) : K),
    p1 := ((1 : Nat) : K) :: List.replicate L ((0 : Nat) : K),
    fact := ((1 : Nat) : K), deg := [] }

/-- State and rows after the degrees `1..n`, work arrays sized for `L`; the polar angle enters
only through `sinPhi`, `cosPhi`. -/
def runDegrees (L : Nat) (theta sinPhi cosPhi : K) : Nat → LegState K × List K
  | 0 => (initState L, [facSph (0 : Nat)])
  | n + 1 =>
    let prev := runDegrees L theta sinPhi cosPhi n
    let st := stepDegree sinPhi cosPhi theta prev.1 (n + 1)
    (st, prev.2 ++ st.deg)

/-- The double loop of `generate_real_spherical_harmonics` after `sin_phi`, `cos_phi` have been
formed. -/
def ylmCodeSC (L : Nat) (theta sinPhi cosPhi : K) : List K := (runDegrees L theta sinPhi cosPhi L).2

/-- `generate_real_spherical_harmonics(l_max, theta, phi)` at one point: the `(l_max+1)²`
rows in Horton-2 order. -/
def ylmCode (L : Nat) (theta phi : K) : List K := ylmCodeSC L theta (Elem.sin phi) (Elem.cos phi)

/-! ## the fully normalised recursion -/

/-- `P̄_mm / P̄_{m-1,m-1} / sin φ`: `√3` for `m = 1` (this is where the `√2` of the real
harmonics enters), `√((2m+1)/(2m))` for `m ≥ 2`. -/
def normD (m : Nat) : K :=
  if m = 1 then Elem.sqrt ((3 : Nat) : K)
  else Elem.sqrt ((((2 : Nat) : K) * (m : K) + ((1 : Nat) : K)) / (((2 : Nat) : K) * (m : K)))

/-- `a_lm = √((4l² − 1)/(l² − m²))`, `m < l`. -/
def normA (l m : Nat) : K :=
  Elem.sqrt (((((4 * l * l : Nat) : K)) - ((1 : Nat) : K)) / (((l * l : Nat) : K) - ((m * m : Nat) : K)))

/-- `b_lm = √(((l−1)² − m²)/(4(l−1)² − 1))`, `m < l`, `1 ≤ l`. -/
def normB (l m : Nat) : K :=
  Elem.sqrt (((((l - 1) * (l - 1) : Nat) : K) - ((m * m : Nat) : K)) /
    (((4 * (l - 1) * (l - 1) : Nat) : K) - ((1 : Nat) : K)))

/-- Sectoral values `P̄_mm`, `m = 0..`: `P̄_00 = √(1/4π)`, `P̄_mm = d_m sin φ P̄_{m-1,m-1}`. -/
def normDiag (sinPhi : K) : Nat → K
  | 0 => Elem.sqrt (((1 : Nat) : K) / (((4 : Nat) : K) * Elem.pi))
  | m + 1 => normD (m + 1) * sinPhi * normDiag sinPhi m

/-- `(P̄_{m+n,m}, P̄_{m+n-1,m})` by `P̄_lm = a_lm (cos φ P̄_{l-1,m} − b_lm P̄_{l-2,m})`. -/
def normPair (sinPhi cosPhi : K) (m : Nat) : Nat → K × K
  | 0 => (normDiag sinPhi m, ((0 : Nat) : K))
  | n + 1 =>
    let pq := normPair sinPhi cosPhi m n
    (normA (m + n + 1) m * (cosPhi * pq.1 - normB (m + n + 1) m * pq.2), pq.1)

/-- Column `[P̄_{m,m}, P̄_{m+1,m}, …]` of `cnt` entries continuing from `(p1, p2)` at degree `l-1, l-2`. -/
def normColumnFrom (cosPhi : K) (m : Nat) : Nat → Nat → K → K → List K
  | 0, _, _, _ => []
  | cnt + 1, l, p1, p2 =>
    let p := normA l m * (cosPhi * p1 - normB l m * p2)
    p :: normColumnFrom cosPhi m cnt (l + 1) p p1

/-- Column `[P̄_{m,m}, …, P̄_{L,m}]`. -/
def normColumn (sinPhi cosPhi : K) (L m : Nat) : List K :=
  let pmm := normDiag sinPhi m
  pmm :: normColumnFrom cosPhi m (L - m) (m + 1) pmm ((0 : Nat) : K)

/-- The real spherical harmonics of degrees `0..L` in Horton-2 order by the normalised
recursion: `Y_l0 = P̄_l0`, `Y_{l,m} = P̄_lm cos mθ`, `Y_{l,-m} = P̄_lm sin mθ`. -/
def ylmNorm (L : Nat) (theta phi : K) : List K :=
  let s := Elem.sin phi
  let c := Elem.cos phi
  let cols : List (List K) := (List.range (L + 1)).map (fun m => normColumn s c L m)
  let z : K := ((0 : Nat) : K)
  (List.range (L + 1)).flatMap fun l =>
    ((cols.getD 0 []).getD l z) ::
      (List.range' 1 l).flatMap fun m =>
        let p := (cols.getD m []).getD (l - m) z
        [p * Elem.cos ((m : K) * theta), p * Elem.sin ((m : K) * theta)]

/-! ## derivatives, solid harmonics, coordinates -/

variable [LT K] [DecidableLT K]

/-- `1e-10`. -/
def tol10 : K := ((1 : Nat) : K) / ((10000000000 : Nat) : K)

/-- `(-1.0) ** float(m)`. -/
def negOnePow (m : Int) : K := if m % 2 = 0 then ((1 : Nat) : K) else -((1 : Nat) : K)

/-- `|m|` as a scalar. -/
def absK (m : Int) : K := (m.natAbs : K)

/-- `float(m)`. -/
def ofInt (m : Int) : K := if m < 0 then -((m.natAbs : Nat) : K) else ((m.natAbs : Nat) : K)

/-- **Contract** for SciPy's complex `sph_harm_y(l, k, phi, theta)`, `k ≥ 1`, in terms of rows `Ys` of the
recursion: `Y_l^k = (-1)^k (Y_{l,k} + i Y_{l,-k}) / √2` for `k ≤ l`, `0` for `k > l` (real and
imaginary part).  SciPy forms the Legendre functions from `cos φ` and `|sin φ|`, so `Ys` are the rows
at `(θ, |sin φ|, cos φ)` — for a polar angle with `sin φ < 0` that is *another* point of the sphere;
the routine compensates with `sign(sin φ)^k` (see `dEntry`, `dYlm`). -/
def sphHarmY (Ys : List K) (l : Nat) (k : Nat) : K × K :=
  let z : K := ((0 : Nat) : K)
  if k ≤ l then
    let f : K := negOnePow (k : Int) / Elem.sqrt ((2 : Nat) : K)
    (f * Ys.getD (rowIndex l (k : Int)) z, f * Ys.getD (rowIndex l (-(k : Int))) z)
  else (z, z)

/-- `cot_tangent`: `1/tan φ`, set to `0` where `|tan φ| < 1e-10`. -/
def cotTangent (phi : K) : K :=
  if Elem.abs (Elem.tan phi) < tol10 then ((0 : Nat) : K) else ((1 : Nat) : K) / Elem.tan phi

/-- `sign_sin_phi = np.where(np.sin(phi) < 0, -1.0, 1.0)`. -/
def signSinPhi (phi : K) : K :=
  if Elem.sin phi < ((0 : Nat) : K) then -((1 : Nat) : K) else ((1 : Nat) : K)

/-- The two entries `output[0, i]`, `output[1, i]` for degree `l`, order `m`, given the rows `Y` of
the library's recursion and the rows `Ys` behind SciPy's `sph_harm_y`. -/
def dEntry (Y Ys : List K) (theta phi : K) (l : Nat) (m : Int) : K × K :=
  let z : K := ((0 : Nat) : K)
  -- output[0] = -float(m) * sph_harm_degree[index_m(-m)]
  let dTheta : K := -(ofInt m) * Y.getD (rowIndex l (-m)) z
  -- fac = sqrt((l - |m|) * (l + |m| + 1))
  let fac : K := Elem.sqrt (((l : K) - absK m) * ((l : K) + absK m + ((1 : Nat) : K)))
  let first : K := absK m * cotTangent phi * Y.getD (rowIndex l m) z
  -- sph_harm_m = fac * sph_harm_y(l, |m|+1, phi, theta) * sign_sin_phi ** (|m|+1) * sqrt(2) * (-1)^m   (complex)
  let y := sphHarmY Ys l (m.natAbs + 1)
  let g : K := Elem.sqrt ((2 : Nat) : K)
  let sg : K := npow (signSinPhi phi) (m.natAbs + 1)
  let shRe : K := fac * y.1 * sg * g * negOnePow m
  let shIm : K := fac * y.2 * sg * g * negOnePow m
  -- complex_expon = exp(-theta * 1j) = cos θ − i sin θ
  let eRe : K := Elem.cos theta
  let eIm : K := -(Elem.sin theta)
  let prodRe : K := eRe * shRe - eIm * shIm
  let prodIm : K := eRe * shIm + eIm * shRe
  let dPhi : K :=
    if 0 ≤ m then (if m < (l : Int) then first + prodRe else first)
    else (if -(l : Int) < m then first + prodIm else first)
  let dPhi : K := if m = 0 then dPhi / g else dPhi
  (dTheta, dPhi)

/-- `generate_derivative_real_spherical_harmonics(l_max, theta, phi)` at one point:
`(output[0], output[1])`, derivative with respect to `theta` (azimuth) and `phi` (polar).
The code as it is (after d7630ad): the raising term comes from SciPy called with the raw polar angle, i.e.
from the rows at `(|sin φ|, cos φ)`, multiplied by `sign(sin φ)^(|m|+1)`, which restores the rows of the point
`(sin φ, cos φ)` (parity of `P_l^k` in `sin φ`). -/
def dYlm (L : Nat) (theta phi : K) : List K × List K :=
  let Y := ylmCode L theta phi
  let Ys := ylmCodeSC L theta (Elem.abs (Elem.sin phi)) (Elem.cos phi)
  let es := (lmOrder L).map (fun lm => dEntry Y Ys theta phi lm.1 lm.2)
  (es.map Prod.fst, es.map Prod.snd)

/-- `solid_harmonics(l_max, [(r, theta, phi)])`:
`spherical_harm * r ** degrees * sqrt(4π / (2 degrees + 1))`. -/
def solidHarmonics (L : Nat) (r theta phi : K) : List K :=
  List.zipWith
    (fun y (l : Nat) => y * Elem.rpow r (l : K) *
      Elem.sqrt (((4 : Nat) : K) * Elem.pi / (((2 : Nat) : K) * (l : K) + ((1 : Nat) : K))))
    (ylmCode L theta phi) (degreeList L)

/-- A point of ℝ³ / a triple `(r, theta, phi)`. -/
abbrev P3 (K : Type) := K × K × K

/-- `convert_cart_to_sph` for one point: `r = ‖p − c‖`, `phi = arccos(z/r)` (`0` where
`r == 0`; `r` is a square root, so `r == 0` is `¬ 0 < r`), `theta = arctan2(y, x)`. -/
def cartToSph (p c : P3 K) : P3 K :=
  let dx := p.1 - c.1
  let dy := p.2.1 - c.2.1
  let dz := p.2.2 - c.2.2
  let r := Elem.sqrt (dx * dx + dy * dy + dz * dz)
  let phi := if ((0 : Nat) : K) < r then Elem.arccos (dz / r) else ((0 : Nat) : K)
  (r, Elem.arctan2 dy dx, phi)

/-- The spherical parametrisation the code inverts:
`c + r (cos θ sin φ, sin θ sin φ, cos φ)`. -/
def sphToCart (s c : P3 K) : P3 K :=
  let r := s.1
  let theta := s.2.1
  let phi := s.2.2
  (c.1 + r * (Elem.cos theta * Elem.sin phi),
   c.2.1 + r * (Elem.sin theta * Elem.sin phi),
   c.2.2 + r * Elem.cos phi)

/-- The matrix of `convert_derivative_from_spherical_to_cartesian` (rows `x, y, z`; columns
`r, theta, phi`) with the conventions `|r| < 1e-10 ⇒` columns `theta, phi` zero,
`|phi| < 1e-10 ⇒` column `theta` zero. -/
def convJacobian (r theta phi : K) : List (List K) :=
  let z : K := ((0 : Nat) : K)
  let st := Elem.sin theta
  let ct := Elem.cos theta
  let sp := Elem.sin phi
  let cp := Elem.cos phi
  let rz : Bool := Elem.abs r < tol10
  let pz : Bool := Elem.abs phi < tol10
  let c1 (x : K) : K := if rz || pz then z else x
  let c2 (x : K) : K := if rz then z else x
  [[ct * sp, c1 (-st / (r * sp)), c2 (ct * cp / r)],
   [st * sp, c1 (ct / (r * sp)), c2 (st * cp / r)],
   [cp, c1 z, c2 (-sp / r)]]

/-- `convert_derivative_from_spherical_to_cartesian`: `jacobian.dot([deriv_r, deriv_theta, deriv_phi])`. -/
def convDeriv (dr dtheta dphi r theta phi : K) : List K :=
  (convJacobian r theta phi).map fun row =>
    match row with
    | [a, b, c] => a * dr + b * dtheta + c * dphi
    | _ => ((0 : Nat) : K)

end generic

/-! ## the oracle for angular quadrature files (`Float`, arrays) -/
namespace AngularCheck

/-- Flat index of `(m, l)` in the coefficient and moment tables. -/
@[inline] def ix (L m l : Nat) : Nat := m * (L + 1) + l

/-- Table of `a_lm` (`normA`), `0` where `l ≤ m`. -/
def tableA (L : Nat) : FloatArray := Id.run do
  let mut t := FloatArray.emptyWithCapacity ((L + 1) * (L + 1))
  for m in [0:L+1] do
    for l in [0:L+1] do
      t := t.push (if m < l then (normA l m : Float) else 0.0)
  return t

/-- Table of `b_lm` (`normB`), `0` where `l ≤ m`. -/
def tableB (L : Nat) : FloatArray := Id.run do
  let mut t := FloatArray.emptyWithCapacity ((L + 1) * (L + 1))
  for m in [0:L+1] do
    for l in [0:L+1] do
      t := t.push (if m < l then (normB l m : Float) else 0.0)
  return t

/-- Table of `d_m` (`normD`), entry `0` unused. -/
def tableD (L : Nat) : FloatArray := Id.run do
  let mut t := FloatArray.emptyWithCapacity (L + 2)
  for m in [0:L+2] do
    t := t.push (if m = 0 then 1.0 else (normD m : Float))
  return t

/-- Per-point quantities: `cos φ = z/r`, `sin φ = ρ/r`, `cos θ = x/ρ`, `sin θ = y/ρ` (`θ = 0` on the
axis), `ρ = √(x²+y²)`, `r = √(x²+y²+z²)`. -/
structure Dir where
  c : Float
  s : Float
  c1 : Float
  s1 : Float

@[inline] def dirOf (x y z : Float) : Dir :=
  let rho := Float.sqrt (x * x + y * y)
  let r := Float.sqrt (x * x + y * y + z * z)
  { c := z / r, s := rho / r,
    c1 := if rho > 0.0 then x / rho else 1.0,
    s1 := if rho > 0.0 then y / rho else 0.0 }

/-- Column `m` for two points `a`, `b` at once (two independent recursion chains per pass):
`accC[m,l] += cmₐ P̄_lm(a) + cm_b P̄_lm(b)`, `accS[m,l] += smₐ P̄_lm(a) + sm_b P̄_lm(b)`, `l` from the current one
up to `L`; `p1 = P̄_{l-1,m}`, `p2 = P̄_{l-2,m}` by `P̄_lm = a_lm (cos φ P̄_{l-1,m} − b_lm P̄_{l-2,m})`. -/
def colLoop (L : Nat) (A B : FloatArray) (base : Nat) (ca cma sma cb cmb smb : Float)
    (l : Nat) (p1a p2a p1b p2b : Float) (accC accS : FloatArray) : FloatArray × FloatArray :=
  if l ≤ L then
    let i := base + l
    let al := A.get! i
    let bl := B.get! i
    let pa := al * (ca * p1a - bl * p2a)
    let pb := al * (cb * p1b - bl * p2b)
    let accC := accC.set! i (accC.get! i + (cma * pa + cmb * pb))
    let accS := accS.set! i (accS.get! i + (sma * pa + smb * pb))
    colLoop L A B base ca cma sma cb cmb smb (l + 1) pa p1a pb p1b accC accS
  else (accC, accS)
termination_by L + 1 - l

/-- All columns `m..L` for two points. `pmm = P̄_mm`, `(cm, sm) = w (cos mθ, sin mθ)`, advanced by the
rotation `(c1, s1) = (cos θ, sin θ)`; `P̄_{m+1,m+1} = d_{m+1} sin φ P̄_mm`.  Only the orders with
`sel[m] = true` are accumulated (`sel` all `true` = every order). -/
def ordLoop (L : Nat) (A B D : FloatArray) (sel : Array Bool) (da db : Dir)
    (m : Nat) (pmma cma sma pmmb cmb smb : Float) (accC accS : FloatArray) : FloatArray × FloatArray :=
  if m ≤ L then
    let d := D.get! (m + 1)
    if sel.getD m false then
      let base := m * (L + 1)
      let i := base + m
      let accC := accC.set! i (accC.get! i + (cma * pmma + cmb * pmmb))
      let accS := accS.set! i (accS.get! i + (sma * pmma + smb * pmmb))
      let (accC, accS) := colLoop L A B base da.c cma sma db.c cmb smb (m + 1) pmma 0.0 pmmb 0.0 accC accS
      ordLoop L A B D sel da db (m + 1)
        (d * da.s * pmma) (cma * da.c1 - sma * da.s1) (sma * da.c1 + cma * da.s1)
        (d * db.s * pmmb) (cmb * db.c1 - smb * db.s1) (smb * db.c1 + cmb * db.s1) accC accS
    else
      ordLoop L A B D sel da db (m + 1)
        (d * da.s * pmma) (cma * da.c1 - sma * da.s1) (sma * da.c1 + cma * da.s1)
        (d * db.s * pmmb) (cmb * db.c1 - smb * db.s1) (smb * db.c1 + cmb * db.s1) accC accS
  else (accC, accS)
termination_by L + 1 - m

/-- `P̄_00 = √(1/4π)`. -/
def p00 : Float := Float.sqrt (1.0 / (4.0 * 3.141592653589793))

/-- Running state over the points. -/
structure Acc where
  accC : FloatArray
  accS : FloatArray
  maxDev : Float
  sumW : Float

/-- `max`, a NaN argument wins (so that it cannot be lost by a comparison). -/
def fmax (a b : Float) : Float := if b > a || b != b then b else a

@[inline] def devOf (x y z : Float) : Float := Float.abs (Float.sqrt (x * x + y * y + z * z) - 1.0)

/-- The points two at a time; a last unpaired point is paired with itself at weight `0`. -/
def pointLoop (L : Nat) (A B D : FloatArray) (sel : Array Bool) (pts w : FloatArray) (n : Nat) (i : Nat)
    (accC accS : FloatArray) (maxDev sumW : Float) : Acc :=
  if i < n then
    let xa := pts.get! (3 * i)
    let ya := pts.get! (3 * i + 1)
    let za := pts.get! (3 * i + 2)
    let wa := w.get! i
    let j := if i + 1 < n then i + 1 else i
    let xb := pts.get! (3 * j)
    let yb := pts.get! (3 * j + 1)
    let zb := pts.get! (3 * j + 2)
    let wb := if i + 1 < n then w.get! j else 0.0
    let (accC, accS) := ordLoop L A B D sel (dirOf xa ya za) (dirOf xb yb zb) 0 p00 wa 0.0 p00 wb 0.0 accC accS
    pointLoop L A B D sel pts w n (i + 2) accC accS (fmax (fmax maxDev (devOf xa ya za)) (devOf xb yb zb)) (sumW + wa + wb)
  else { accC := accC, accS := accS, maxDev := maxDev, sumW := sumW }
termination_by n - i

/-- All moments `Σᵢ wᵢ Y_lm(pᵢ)` of the selected orders: tables indexed `ix L m l`, cosine rows (`m ≥ 0`)
and sine rows (`m ≥ 1`). `pts` is row-major `n × 3`. -/
def momentsSel (L : Nat) (sel : Array Bool) (pts w : FloatArray) : Acc :=
  let n := w.size
  pointLoop L (tableA L) (tableB L) (tableD L) sel pts w n 0
    (FloatArray.mk (Array.replicate ((L + 1) * (L + 1)) 0.0))
    (FloatArray.mk (Array.replicate ((L + 1) * (L + 1)) 0.0)) 0.0 0.0

/-- All moments, every order. -/
def moments (L : Nat) (pts w : FloatArray) : Acc :=
  momentsSel L (Array.replicate (L + 1) true) pts w

/-- What the check of one file reports. -/
structure Report where
  /-- number of points -/
  size : Nat
  /-- `max |‖p‖ − 1|` -/
  maxNormDev : Float
  /-- `Σ w` -/
  sumW : Float
  /-- entry `l`: `max_m |Σ w Y_lm − √(4π) δ_l0|`, `l = 0..degree` -/
  errByDegree : Array Float
  /-- entry `l`: an order `m` (negative = sine row) at which that maximum is attained -/
  argByDegree : Array Int

/-- Error of degree `l`: maximum over the orders, and where. -/
def degreeErr (L : Nat) (a : Acc) (l : Nat) : Float × Int := Id.run do
  let target := if l = 0 then Float.sqrt (4.0 * 3.141592653589793) else 0.0
  let mut e := Float.abs (a.accC.get! (ix L 0 l) - target)
  let mut arg : Int := 0
  for m in [1:l+1] do
    let ec := Float.abs (a.accC.get! (ix L m l))
    if ec > e || ec != ec then
      e := ec
      arg := (m : Int)
    let es := Float.abs (a.accS.get! (ix L m l))
    if es > e || es != es then
      e := es
      arg := -(m : Int)
  return (e, arg)

/-- `points` (row-major `n × 3`), `weights` (`n`), advertised `degree` ↦ report. -/
def file (pts w : FloatArray) (degree : Nat) : Report :=
  let a := moments degree pts w
  let es := (Array.range (degree + 1)).map (degreeErr degree a)
  { size := w.size, maxNormDev := a.maxDev, sumW := a.sumW,
    errByDegree := es.map Prod.fst, argByDegree := es.map Prod.snd }

/-- The same report restricted to the orders `|m| ∈ ms` (plus `m = 0`): a cheap screen, `O(n · degree · |ms|)`. -/
def fileSel (pts w : FloatArray) (degree : Nat) (ms : List Nat) : Report :=
  let sel := (Array.range (degree + 1)).map (fun m => m == 0 || ms.contains m)
  let a := momentsSel degree sel pts w
  let es := (Array.range (degree + 1)).map (degreeErr degree a)
  { size := w.size, maxNormDev := a.maxDev, sumW := a.sumW,
    errByDegree := es.map Prod.fst, argByDegree := es.map Prod.snd }

/-- The moment vector in the row order of the harmonics routines (Horton-2), for comparison with
`ylmNorm`/`ylmCode` and the library on small files. -/
def momentRows (pts w : FloatArray) (degree : Nat) : List Float :=
  let a := moments degree pts w
  (lmOrder degree).map fun lm =>
    if lm.2 < 0 then a.accS.get! (ix degree lm.2.natAbs lm.1) else a.accC.get! (ix degree lm.2.natAbs lm.1)

end AngularCheck

end GridVerif.Harmonics

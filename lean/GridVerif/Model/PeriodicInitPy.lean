/-
  C11 — vocabulary of the generated definitions `Gen/PeriodicGridInit.lean`
  (translator: harness/translate/periodicgrid_init.py): the **warning block** of
  `PeriodicGrid.__init__` (src/grid/periodicgrid.py)

      if len(frac_intvls) > 0:
          intvl_max = (frac_intvls[:, 1] - frac_intvls[:, 0]).max()
          if intvl_max > 1.1:
              warnings.warn(…, PeriodicGridWarning, stacklevel=2)

  The rest of the constructor is carried by harness/translate/localgrid.py (vocabulary
  `Model/LocalGridPy.lean`); that translator only checks that this block has no effect on the
  object.  Here the block is a definition of its own: what is raised, whether a warning is issued,
  its category and stack level.

  Hand-written; no Mathlib import (linked into the driver).
-/
import GridVerif.Model.Elem
import GridVerif.Model.LocalGrid
import GridVerif.Model.Periodic
import GridVerif.Model.LocalGridPy

namespace GridVerif.PeriodicInitPy
open GridVerif.LocalGrid GridVerif.Periodic

/-- `v.max()` of a 1-D array; `none`: the array is empty (NumPy raises ValueError: "zero-size
array to reduction operation maximum which has no identity"). -/
def npMax {K : Type} [LT K] [DecidableLT K] : List K → Option K
  | [] => none
  | x :: xs => some (maxOf x xs)

/-- What a run of the warning block does: it raises (`.error`), or it ends with or without one
warning (`category`, `stacklevel`).  `none` as a whole: outside the modelled fragment. -/
abbrev WarnOutcome := Option (Except Err (Option (String × Nat)))

/-- `warnings.warn(message, category, stacklevel=n)` as the last statement of a branch. -/
def pyWarn (category : String) (stacklevel : Nat) : WarnOutcome :=
  some (.ok (some (category, stacklevel)))

/-- The block ends without a warning. -/
def pyNoWarn : WarnOutcome := some (.ok none)

/-- Did the run end with a warning of that category? -/
def warned (category : String) : WarnOutcome → Bool
  | some (.ok (some (c, _))) => c == category
  | _ => false

end GridVerif.PeriodicInitPy

/-
  C04 — hand-written executable model of `BaseTransform.transform_1d_grid` (rtransform.py)
  and of the `OneDGrid` constructor it ends in (basegrid.py).

  The element-wise expressions (new point, new weight — with the *signed* derivative, as the
  source has it —, image of the domain, sorted or not, the domain guard) are the generated
  definitions of `Gen/Transform1D.lean`; this file only supplies the plumbing around them:
  order of the checks, `map`/`zipWith` over the arrays, the `OneDGrid` domain check with its
  `1e-7` slack, `np.min/np.max` of the points.

  Generic in `K` (`Float` in the driver, `ℝ` in the theorems). No Mathlib import.
-/
import GridVerif.Model.Transform1DBase
import GridVerif.Gen.Transform1D

namespace GridVerif.Transform1D
open GridVerif.Gen.Transform1D

variable {K : Type} [Add K] [Sub K] [Mul K] [Div K] [Neg K] [NatCast K] [Elem K]
  [LT K] [LE K] [DecidableLT K] [DecidableLE K]

/-- The slack `1e-7` of the `OneDGrid` domain check. -/
def slack : K := ((1 : Nat) : K) / ((10000000 : Nat) : K)

/-- `OneDGrid.__init__(points, weights, domain)` followed by `Grid.__init__`:
* domain given: `domain[0] > domain[1]` → `ValueError`; `np.min/np.max` of an empty array →
  `ValueError`; `domain[0] - 1e-7 > min_p` → `ValueError`; `domain[1] + 1e-7 < max_p` → `ValueError`;
* `len(points) != len(weights)` → `ValueError`. -/
def oneDGridNew (pts wts : List K) (domain : Option (K × K)) : Except Err (Grid1D K) :=
  let finish : Except Err (Grid1D K) :=
    if pts.length ≠ wts.length then .error .valueError
    else .ok { pts := pts, wts := wts, domain := domain }
  match domain with
  | none => finish
  | some (lo, hi) =>
    if lo > hi then .error .valueError else
    match npMin pts, npMax pts with
    | some minP, some maxP =>
      if lo - slack > minP then .error .valueError
      else if hi + slack < maxP then .error .valueError
      else finish
    | _, _ => .error .valueError

/-- `BaseTransform.transform_1d_grid(self = tf, oned_grid = g)`.
Order of events as in the source: the domain guard (a grid without domain fails with
`TypeError` at `oned_grid.domain[0]`), `self.transform(points)`, `self.deriv(points)` (either
may raise inside the transform), the image of the domain (a two-element array), the
constructor of the new grid. -/
def transform1dGrid (tf : Tf K) (g : Grid1D K) : Except Err (Grid1D K) :=
  match g.domain with
  | none => .error .typeError
  | some (lo, hi) =>
    if domainMismatch tf lo hi then .error .valueError
    else if tf.sizeRaises g.pts.length then .error .valueError
    else if g.pts.any tf.derivRaises then .error .zeroDivisionError
    else
      let newPts := List.zipWith (newPoint tf) g.pts g.wts
      let newWts := List.zipWith (newWeight tf) g.pts g.wts
      if tf.sizeRaises 2 then .error .valueError
      else oneDGridNew newPts newWts (some (newDomain tf lo hi))

end GridVerif.Transform1D

/-
  Model of `src/grid/onedgrid.py` (26 constructors) and of the domain check of
  `OneDGrid.__init__` (`src/grid/basegrid.py`), as list programs that mirror the
  constructors statement by statement.  Generic in `K` (executable at `Float` in the
  driver, the theorems of C01 are about the instance `K = ℝ`).

  * element-wise closed forms of the variable-substitution rules, the Trefethen maps, the
    integer skeleton (loop bounds, denominators, frequencies) of Clenshaw–Curtis / Fejér and the
    complete constructors (entries, lengths, guards, domain) of the six closed-form rules
    Trapezoidal, Simpson, MidPoint, UniformInteger, GaussChebyshevLobatto, RectangleRuleSineEndPoints
    come from `Gen/OneDFormulas.lean` (regenerated from the source on every run);
  * everything else is hand-written and tied to the code by correspondence
    (`harness/props/c01.py`);
  * NumPy/SciPy Gauss nodes enter as the parameter `gauss` (`n ↦ (points, weights)`).

  No Mathlib import.
-/
import GridVerif.Model.Elem
import GridVerif.Gen.OneDFormulas

namespace GridVerif.OneD
open GridVerif

/-- Exception classes raised by the constructors. -/
inductive Err where
  | valueError
  | typeError
  | runtimeError
  deriving DecidableEq, Repr

/-- A constructed `OneDGrid`: `domain = (lo, hi)`, `hi = none` is `np.inf`. -/
structure Grid1D (K : Type) where
  points : List K
  weights : List K
  lo : K
  hi : Option K

section
variable {K : Type} [Add K] [Sub K] [Mul K] [Div K] [Neg K] [NatCast K] [Elem K]

/-- An integer index value as an element of `K` (NumPy converts the int array). -/
def intCast (z : Int) : K :=
  if z < 0 then -((z.natAbs : Nat) : K) else ((z.toNat : Nat) : K)

/-- `xs[i] /= c`. -/
def divAt (i : Nat) (c : K) (xs : List K) : List K :=
  xs.mapIdx fun j x => if j = i then x / c else x

/-- `xs[i] = c`. -/
def setAt (i : Nat) (c : K) (xs : List K) : List K :=
  xs.mapIdx fun j x => if j = i then c else x

/-- `b @ m` for a vector `b` and a matrix `m` given by its rows (each of length `ncols`):
entry `i` is `Σ_j b[j] * m[j][i]`, accumulated row by row starting from `np.zeros`. -/
def vecMat (b : List K) (m : List (List K)) (ncols : Nat) : List K :=
  (List.zipWith (fun bj row => row.map (bj * ·)) b m).foldl
    (fun acc row => List.zipWith (· + ·) acc row) (List.replicate ncols ((0 : Nat) : K))

/-- `OneDGrid.__init__`: the domain check with its `1e-7` slack, then the grid.
(`domain[0] - 1e-7 > np.min(points)`, `domain[1] + 1e-7 < np.max(points)`.) -/
def oneDGrid [LT K] [DecidableLT K] (points weights : List K) (lo : K) (hi : Option K) :
    Except Err (Grid1D K) :=
  let slack : K := ((1 : Nat) : K) / ((10000000 : Nat) : K)
  if points.any (fun p => decide (lo - slack > p)) then .error .valueError
  else if (match hi with
      | some h => points.any (fun p => decide (h + slack < p))
      | none => false) then .error .valueError
  else if points.length ≠ weights.length then .error .valueError
  else .ok ⟨points, weights, lo, hi⟩

/-- `-1` and `1` of the declared domain `(-1, 1)`. -/
def negOne : K := -((1 : Nat) : K)
def one : K := ((1 : Nat) : K)
def zero : K := ((0 : Nat) : K)

/-! ### closed-form rules generated entry by entry

`Trapezoidal`, `Simpson`, `MidPoint`, `UniformInteger`, `GaussChebyshevLobatto`,
`RectangleRuleSineEndPoints`: entry `i` of `points` / `weights` (every assignment, slice update,
reversal and the `bm @ sim` product of the constructor), the lengths, the `raise ValueError` guards and
the declared domain are all regenerated from the source (`Gen/OneDFormulas.lean`); only the assembly
"list of the entries, then `OneDGrid.__init__`" is written here. -/

namespace Trapezoidal
def points (n : Nat) : List K :=
  (List.range (Gen.OneD.Trapezoidal.pointsLen n)).map (Gen.OneD.Trapezoidal.pointAt n)
def weights (n : Nat) : List K :=
  (List.range (Gen.OneD.Trapezoidal.weightsLen n)).map (Gen.OneD.Trapezoidal.weightAt n)
def make [LT K] [DecidableLT K] (npoints : Int) : Except Err (Grid1D K) :=
  if Gen.OneD.Trapezoidal.rejects npoints then .error .valueError else
  let n := npoints.toNat
  oneDGrid (points n) (weights n) Gen.OneD.Trapezoidal.lo Gen.OneD.Trapezoidal.hi
end Trapezoidal

namespace Simpson
def points (n : Nat) : List K :=
  (List.range (Gen.OneD.Simpson.pointsLen n)).map (Gen.OneD.Simpson.pointAt n)
def weights (n : Nat) : List K :=
  (List.range (Gen.OneD.Simpson.weightsLen n)).map (Gen.OneD.Simpson.weightAt n)
def make [LT K] [DecidableLT K] (npoints : Int) : Except Err (Grid1D K) :=
  if Gen.OneD.Simpson.rejects npoints then .error .valueError else
  let n := npoints.toNat
  oneDGrid (points n) (weights n) Gen.OneD.Simpson.lo Gen.OneD.Simpson.hi
end Simpson

namespace MidPoint
def points (n : Nat) : List K :=
  (List.range (Gen.OneD.MidPoint.pointsLen n)).map (Gen.OneD.MidPoint.pointAt n)
def weights (n : Nat) : List K :=
  (List.range (Gen.OneD.MidPoint.weightsLen n)).map (Gen.OneD.MidPoint.weightAt n)
def make [LT K] [DecidableLT K] (npoints : Int) : Except Err (Grid1D K) :=
  if Gen.OneD.MidPoint.rejects npoints then .error .valueError else
  let n := npoints.toNat
  oneDGrid (points n) (weights n) Gen.OneD.MidPoint.lo Gen.OneD.MidPoint.hi
end MidPoint

namespace UniformInteger
def points (n : Nat) : List K :=
  (List.range (Gen.OneD.UniformInteger.pointsLen n)).map (Gen.OneD.UniformInteger.pointAt n)
def weights (n : Nat) : List K :=
  (List.range (Gen.OneD.UniformInteger.weightsLen n)).map (Gen.OneD.UniformInteger.weightAt n)
def make [LT K] [DecidableLT K] (npoints : Int) : Except Err (Grid1D K) :=
  if Gen.OneD.UniformInteger.rejects npoints then .error .valueError else
  let n := npoints.toNat
  oneDGrid (points n) (weights n) Gen.OneD.UniformInteger.lo Gen.OneD.UniformInteger.hi
end UniformInteger

namespace GaussChebyshevLobatto
def points (n : Nat) : List K :=
  (List.range (Gen.OneD.GaussChebyshevLobatto.pointsLen n)).map (Gen.OneD.GaussChebyshevLobatto.pointAt n)
def weights (n : Nat) : List K :=
  (List.range (Gen.OneD.GaussChebyshevLobatto.weightsLen n)).map (Gen.OneD.GaussChebyshevLobatto.weightAt n)
def make [LT K] [DecidableLT K] (npoints : Int) : Except Err (Grid1D K) :=
  if Gen.OneD.GaussChebyshevLobatto.rejects npoints then .error .valueError else
  let n := npoints.toNat
  oneDGrid (points n) (weights n) Gen.OneD.GaussChebyshevLobatto.lo Gen.OneD.GaussChebyshevLobatto.hi
end GaussChebyshevLobatto

namespace RectangleRuleSineEndPoints
def points (n : Nat) : List K :=
  (List.range (Gen.OneD.RectangleRuleSineEndPoints.pointsLen n)).map (Gen.OneD.RectangleRuleSineEndPoints.pointAt n)
def weights (n : Nat) : List K :=
  (List.range (Gen.OneD.RectangleRuleSineEndPoints.weightsLen n)).map (Gen.OneD.RectangleRuleSineEndPoints.weightAt n)
def make [LT K] [DecidableLT K] (npoints : Int) : Except Err (Grid1D K) :=
  if Gen.OneD.RectangleRuleSineEndPoints.rejects npoints then .error .valueError else
  let n := npoints.toNat
  oneDGrid (points n) (weights n) Gen.OneD.RectangleRuleSineEndPoints.lo Gen.OneD.RectangleRuleSineEndPoints.hi
end RectangleRuleSineEndPoints

/-! ### Clenshaw–Curtis and Fejér (integer skeleton of the series from `Gen`) -/

namespace ClenshawCurtis
open Gen.OneD.ClenshawCurtis in
/-- `theta = (np.pi * np.arange(n) / (n - 1))[::-1]` -/
def theta (n : Nat) : List K := ((List.range n).map fun i => Gen.OneD.ClenshawCurtis.theta n i).reverse
def points (n : Nat) : List K := (theta n).map Elem.cos
/-- values of `j = np.arange(jmed)` -/
def js (n : Nat) : List Nat :=
  (List.range (Gen.OneD.ClenshawCurtis.jLen n)).map (· + Gen.OneD.ClenshawCurtis.jOff n)
/-- `bj = 2.0 * np.ones(jmed)`; `if 2 * jmed + 1 == n: bj[jmed - 1] = 1.0`; `bj /= 4 * j * (j + 2) + 3` -/
def bj (n : Nat) : List K :=
  let b0 : List K := (List.range (Gen.OneD.ClenshawCurtis.bjLen n)).map fun _ =>
    Gen.OneD.ClenshawCurtis.bjNum * ((1 : Nat) : K)
  let b1 := if Gen.OneD.ClenshawCurtis.patchCond n then
    setAt (Gen.OneD.ClenshawCurtis.patchIdx n) Gen.OneD.ClenshawCurtis.patchVal b0 else b0
  List.zipWith (fun b j => b / ((Gen.OneD.ClenshawCurtis.denom n j : Nat) : K)) b1 (js n)
/-- `cij = np.cos(np.outer(2 * (j + 1), theta))` -/
def cij (n : Nat) : List (List K) :=
  (js n).map fun j => (theta n).map fun t =>
    Gen.OneD.ClenshawCurtis.trig (((Gen.OneD.ClenshawCurtis.freq n j : Nat) : K) * t)
/-- `wi = bj @ cij`; `weights = 2 * (1 - wi) / (n - 1)`; both ends halved. -/
def weights (n : Nat) : List K :=
  divAt (n - 1) ((2 : Nat) : K) (divAt 0 ((2 : Nat) : K)
    ((vecMat (bj n) (cij n) n).map fun w =>
      ((2 : Nat) : K) * (((1 : Nat) : K) - w) / ((n - 1 : Nat) : K)))
def make [LT K] [DecidableLT K] (npoints : Int) : Except Err (Grid1D K) :=
  if npoints ≤ 1 then .error .valueError else
  let n := npoints.toNat
  -- shape mismatch in `bj /= ...` is a NumPy broadcast error
  if Gen.OneD.ClenshawCurtis.bjLen n ≠ Gen.OneD.ClenshawCurtis.jLen n then .error .valueError else
  oneDGrid (points n) (weights n) negOne (some one)
end ClenshawCurtis

namespace FejerFirst
/-- `theta = np.pi * (2 * np.arange(n) + 1) / (2 * n)` -/
def theta (n : Nat) : List K := (List.range n).map fun i => Gen.OneD.FejerFirst.theta n i
/-- `np.cos(theta)[::-1]` -/
def points (n : Nat) : List K := ((theta n).map Elem.cos).reverse
/-- values of `j = np.arange(nsum) + 1` -/
def js (n : Nat) : List Nat :=
  (List.range (Gen.OneD.FejerFirst.jLen n)).map (· + Gen.OneD.FejerFirst.jOff n)
/-- `bj = 2.0 * np.ones(nsum) / (4 * j**2 - 1)` -/
def bj (n : Nat) : List K :=
  List.zipWith (fun b j => b / ((Gen.OneD.FejerFirst.denom n j : Nat) : K))
    ((List.range (Gen.OneD.FejerFirst.bjLen n)).map fun _ =>
      Gen.OneD.FejerFirst.bjNum * ((1 : Nat) : K)) (js n)
/-- `cij = np.cos(np.outer(2 * j, theta))` -/
def cij (n : Nat) : List (List K) :=
  (js n).map fun j => (theta n).map fun t =>
    Gen.OneD.FejerFirst.trig (((Gen.OneD.FejerFirst.freq n j : Nat) : K) * t)
/-- `di = bj @ cij`; `weights = 1 - di`; `weights[::-1] * (2 / n)` -/
def weights (n : Nat) : List K :=
  (((vecMat (bj n) (cij n) n).map fun d => ((1 : Nat) : K) - d).reverse).map fun w =>
    w * (((2 : Nat) : K) / ((n : Nat) : K))
def make [LT K] [DecidableLT K] (npoints : Int) : Except Err (Grid1D K) :=
  if npoints ≤ 1 then .error .valueError else
  let n := npoints.toNat
  if Gen.OneD.FejerFirst.bjLen n ≠ Gen.OneD.FejerFirst.jLen n then .error .valueError else
  oneDGrid (points n) (weights n) negOne (some one)
end FejerFirst

namespace FejerSecond
/-- `theta = np.pi * (np.arange(n) + 1) / (n + 1)` -/
def theta (n : Nat) : List K := (List.range n).map fun i => Gen.OneD.FejerSecond.theta n i
def points (n : Nat) : List K := ((theta n).map Elem.cos).reverse
/-- values of `j = np.arange(nsum - 1) + 1` -/
def js (n : Nat) : List Nat :=
  (List.range (Gen.OneD.FejerSecond.jLen n)).map (· + Gen.OneD.FejerSecond.jOff n)
/-- `bj = np.ones(nsum - 1) / (2 * j - 1)` -/
def bj (n : Nat) : List K :=
  List.zipWith (fun b j => b / ((Gen.OneD.FejerSecond.denom n j : Nat) : K))
    ((List.range (Gen.OneD.FejerSecond.bjLen n)).map fun _ => Gen.OneD.FejerSecond.bjNum) (js n)
/-- `sij = np.sin(np.outer(2 * j - 1, theta))` -/
def sij (n : Nat) : List (List K) :=
  (js n).map fun j => (theta n).map fun t =>
    Gen.OneD.FejerSecond.trig (((Gen.OneD.FejerSecond.freq n j : Nat) : K) * t)
/-- `wi = bj @ sij`; `weights = 4 * np.sin(theta) * wi`; `weights[::-1] / (n + 1)` -/
def weights (n : Nat) : List K :=
  ((List.zipWith (fun t w => ((4 : Nat) : K) * Elem.sin t * w) (theta n)
    (vecMat (bj n) (sij n) n)).reverse).map fun w => w / ((n + 1 : Nat) : K)
def make [LT K] [DecidableLT K] (npoints : Int) : Except Err (Grid1D K) :=
  if npoints ≤ 1 then .error .valueError else
  let n := npoints.toNat
  if Gen.OneD.FejerSecond.bjLen n ≠ Gen.OneD.FejerSecond.jLen n then .error .valueError else
  oneDGrid (points n) (weights n) negOne (some one)
end FejerSecond

/-! ### Fejér-2 with the complete sine series — **hand-written, NOT a model of the code**

`FejerSecond.__init__` stops its sine series one term early (known finding `onedgrid.FejerSecond`).
The definition below is what the rule's mathematical definition prescribes
(`wᵢ = 4 sin θᵢ/(n+1) · Σ_{j=1}^{⌊(n+1)/2⌋} sin((2j-1)θᵢ)/(2j-1)`, `θᵢ = (i+1)π/(n+1)`); nothing in it is
taken from the source.  `Props/C01/Fejer2.lean` proves it exact on degree `≤ n-1` for every `n` and
expresses the weights of the code as "corrected weight minus the missing term". -/

namespace FejerSecondCorrected
/-- `θᵢ = π (i + 1) / (n + 1)` -/
def theta (n i : Nat) : K :=
  Elem.pi * (((i : Nat) : K) + ((1 : Nat) : K)) / (((n : Nat) : K) + ((1 : Nat) : K))
/-- number of terms of the complete series: `⌊(n+1)/2⌋` -/
def terms (n : Nat) : Nat := (n + 1) / 2
/-- the `l`-th term (`j = l + 1`) of the sine series at the angle `t`: `sin((2j-1)t)/(2j-1)` -/
def term (l : Nat) (t : K) : K :=
  Elem.sin (((2 * l + 1 : Nat) : K) * t) / ((2 * l + 1 : Nat) : K)
/-- weight at the angle `θᵢ` with a series of `J` terms -/
def weightAt (J n i : Nat) : K :=
  ((4 : Nat) : K) * Elem.sin (theta n i) * Gen.OneD.gsum J (fun l => term l (theta n i))
    / (((n : Nat) : K) + ((1 : Nat) : K))
/-- the term `j = ⌊(n+1)/2⌋` that the code leaves out, as a contribution to the weight at `θᵢ` -/
def missingAt (n i : Nat) : K :=
  ((4 : Nat) : K) * Elem.sin (theta n i) * term (terms n - 1) (theta n i)
    / (((n : Nat) : K) + ((1 : Nat) : K))
/-- nodes in ascending order (`cos θᵢ` reversed) — the same nodes as the code -/
def points (n : Nat) : List K := ((List.range n).map fun i => Elem.cos (theta n i)).reverse
/-- corrected weights, listed with the ascending nodes -/
def weights (n : Nat) : List K := ((List.range n).map (weightAt (terms n) n)).reverse
/-- the missing-term contributions, listed with the ascending nodes -/
def missing (n : Nat) : List K := ((List.range n).map (missingAt n)).reverse
def make [LT K] [DecidableLT K] (npoints : Int) : Except Err (Grid1D K) :=
  if npoints ≤ 1 then .error .valueError else
  let n := npoints.toNat
  oneDGrid (points n) (weights n) negOne (some one)
end FejerSecondCorrected

/-! ### wrappers around NumPy/SciPy Gauss rules (`gauss n = (points, weights)` of the library call) -/

namespace GaussLegendre
def make [LT K] [DecidableLT K] (gauss : Nat → List K × List K) (npoints : Int) :
    Except Err (Grid1D K) :=
  if npoints ≤ 1 then .error .valueError else
  let (p, w) := gauss npoints.toNat
  oneDGrid p w negOne (some one)
end GaussLegendre

namespace GaussChebyshev
/-- `weights *= np.sqrt(1 - np.power(points, 2))` -/
def weights (p w : List K) : List K :=
  List.zipWith (fun w x => w * Elem.sqrt (((1 : Nat) : K) - npow x 2)) w p
/-- only the points are reversed: `super().__init__(points[::-1], weights, (-1, 1))` -/
def make [LT K] [DecidableLT K] (gauss : Nat → List K × List K) (npoints : Int) :
    Except Err (Grid1D K) :=
  if npoints ≤ 1 then .error .valueError else
  let (p, w) := gauss npoints.toNat
  oneDGrid p.reverse (weights p w) negOne (some one)
end GaussChebyshev

namespace GaussChebyshevType2
/-- `weights /= np.sqrt(1 - np.power(points, 2))` -/
def weights (p w : List K) : List K :=
  List.zipWith (fun w x => w / Elem.sqrt (((1 : Nat) : K) - npow x 2)) w p
def make [LT K] [DecidableLT K] (gauss : Nat → List K × List K) (npoints : Int) :
    Except Err (Grid1D K) :=
  if npoints < 1 then .error .valueError else
  let (p, w) := gauss npoints.toNat
  oneDGrid p (weights p w) negOne (some one)
end GaussChebyshevType2

namespace GaussLaguerre
/-- `weights *= np.exp(points) * np.power(points, -alpha)` -/
def weights (alpha : K) (p w : List K) : List K :=
  List.zipWith (fun w x => w * (Elem.exp x * Elem.rpow x (-alpha))) w p
/-- `isnan` is `np.isnan` (`fun _ => false` over ℝ). -/
def make [LT K] [DecidableLT K] [LE K] [DecidableLE K] (isnan : K → Bool)
    (gauss : Nat → List K × List K) (npoints : Int) (alpha : K) : Except Err (Grid1D K) :=
  if npoints ≤ 1 then .error .valueError else
  if alpha ≤ -((1 : Nat) : K) then .error .valueError else
  let (p, w) := gauss npoints.toNat
  if w.any isnan then .error .runtimeError else
  oneDGrid p (weights alpha p w) zero none
end GaussLaguerre

/-! ### variable-substitution rules (element-wise formulas and index ranges from `Gen`) -/

/-- index values `k = np.arange(...)` -/
def indexValues (kFirst : Nat → Int) (kLen : Nat → Nat) (n : Nat) : List Int :=
  (List.range (kLen n)).map fun (i : Nat) => kFirst n + (i : Int)

def substPoints (node : K → K → K) (kFirst : Nat → Int) (kLen : Nat → Nat) (n : Nat) (h : K) : List K :=
  (indexValues kFirst kLen n).map fun k => node (intCast k) h

def substWeights (weight : K → K → K) (kFirst : Nat → Int) (kLen : Nat → Nat) (n : Nat) (h : K) : List K :=
  (indexValues kFirst kLen n).map fun k => weight (intCast k) h

namespace TanhSinh
open Gen.OneD.TanhSinh
def points (n : Nat) (delta : K) : List K := substPoints node kFirst kLen n delta
def weights (n : Nat) (delta : K) : List K := substWeights weight kFirst kLen n delta
def make [LT K] [DecidableLT K] (npoints : Int) (delta : K) : Except Err (Grid1D K) :=
  if npoints ≤ 1 then .error .valueError else
  if npoints % 2 = 0 then .error .valueError else
  let n := npoints.toNat
  oneDGrid (points n delta) (weights n delta) negOne (some one)
end TanhSinh

/-- Common shape of `ExpSinh`, `LogExpSinh`, `ExpExp`, `SingleTanh`, `SingleExp`, `SingleArcSinhExp`:
guards `h <= 0`, `npoints < 1`, `npoints % 2 == 0`. -/
def substMake [LT K] [DecidableLT K] [LE K] [DecidableLE K]
    (node weight : K → K → K) (kFirst : Nat → Int) (kLen : Nat → Nat) (lo : K) (hi : Option K)
    (npoints : Int) (h : K) : Except Err (Grid1D K) :=
  if h ≤ ((0 : Nat) : K) then .error .valueError else
  if npoints < 1 then .error .valueError else
  if npoints % 2 = 0 then .error .valueError else
  let n := npoints.toNat
  oneDGrid (substPoints node kFirst kLen n h) (substWeights weight kFirst kLen n h) lo hi

section
variable [LT K] [DecidableLT K] [LE K] [DecidableLE K]
def ExpSinh.make (npoints : Int) (h : K) : Except Err (Grid1D K) :=
  open Gen.OneD.ExpSinh in substMake node weight kFirst kLen zero none npoints h
def LogExpSinh.make (npoints : Int) (h : K) : Except Err (Grid1D K) :=
  open Gen.OneD.LogExpSinh in substMake node weight kFirst kLen zero none npoints h
def ExpExp.make (npoints : Int) (h : K) : Except Err (Grid1D K) :=
  open Gen.OneD.ExpExp in substMake node weight kFirst kLen zero none npoints h
def SingleTanh.make (npoints : Int) (h : K) : Except Err (Grid1D K) :=
  open Gen.OneD.SingleTanh in substMake node weight kFirst kLen negOne (some one) npoints h
def SingleExp.make (npoints : Int) (h : K) : Except Err (Grid1D K) :=
  open Gen.OneD.SingleExp in substMake node weight kFirst kLen zero none npoints h
def SingleArcSinhExp.make (npoints : Int) (h : K) : Except Err (Grid1D K) :=
  open Gen.OneD.SingleArcSinhExp in substMake node weight kFirst kLen zero none npoints h
end

/-! ### Trefethen transformations of another rule -/

/-- the `d == 1 / 5 / 9` dispatch shared by `TrefethenCC`, `TrefethenGC2`, `TrefethenGeneral` -/
def trefPoly (d : Int) (p w : List K) : Except Err (List K × List K) :=
  if d = 1 then .ok (p, w)
  else if d = 5 then
    .ok (p.map Gen.OneD.g2, List.zipWith (fun x w => Gen.OneD.derg2 x * w) p w)
  else if d = 9 then
    .ok (p.map Gen.OneD.g3, List.zipWith (fun x w => Gen.OneD.derg3 x * w) p w)
  else .error .valueError

/-- `_dergstrip(rho, s)` element-wise: the `np.isclose` mask selects the branch. -/
def dergstrip [LE K] [DecidableLE K] (rho s : K) : K :=
  if Gen.OneD.dergstripMask s then Gen.OneD.dergstripEnd rho s else Gen.OneD.dergstripInterior rho s

section
variable [LT K] [DecidableLT K] [LE K] [DecidableLE K]

/-- `points = _gstrip(rho, grid.points)`, `weights = _dergstrip(rho, grid.points) * grid.weights` -/
def trefStrip (rho : K) (g : Grid1D K) : Except Err (Grid1D K) :=
  oneDGrid (g.points.map (Gen.OneD.gstrip rho))
    (List.zipWith (fun x w => dergstrip rho x * w) g.points g.weights) negOne (some one)

def trefPolyGrid (d : Int) (g : Grid1D K) : Except Err (Grid1D K) :=
  match trefPoly d g.points g.weights with
  | .error e => .error e
  | .ok (p, w) => oneDGrid p w negOne (some one)

def TrefethenCC.make (npoints : Int) (d : Int) : Except Err (Grid1D K) :=
  match ClenshawCurtis.make npoints with
  | .error e => .error e
  | .ok g => trefPolyGrid d g

def TrefethenGC2.make (gauss : Nat → List K × List K) (npoints : Int) (d : Int) :
    Except Err (Grid1D K) :=
  match GaussChebyshevType2.make gauss npoints with
  | .error e => .error e
  | .ok g => trefPolyGrid d g

/-- `quadrature = none`: the argument is not a subclass of `OneDGrid` (TypeError);
otherwise the constructor `quadrature(npoints)`. -/
def TrefethenGeneral.make (quadrature : Option (Int → Except Err (Grid1D K))) (npoints : Int)
    (d : Int) : Except Err (Grid1D K) :=
  match quadrature with
  | none => .error .typeError
  | some q =>
    match q npoints with
    | .error e => .error e
    | .ok g => trefPolyGrid d g

def TrefethenStripCC.make (npoints : Int) (rho : K) : Except Err (Grid1D K) :=
  match ClenshawCurtis.make npoints with
  | .error e => .error e
  | .ok g => trefStrip rho g

def TrefethenStripGC2.make (gauss : Nat → List K × List K) (npoints : Int) (rho : K) :
    Except Err (Grid1D K) :=
  match GaussChebyshevType2.make gauss npoints with
  | .error e => .error e
  | .ok g => trefStrip rho g

/-- no subclass test in the code: `quadrature(npoints)` is simply called. -/
def TrefethenStripGeneral.make (quadrature : Int → Except Err (Grid1D K)) (npoints : Int)
    (rho : K) : Except Err (Grid1D K) :=
  match quadrature npoints with
  | .error e => .error e
  | .ok g => trefStrip rho g

end
end

end GridVerif.OneD

/-
  C17 — the Python / NumPy vocabulary used by the *generated* translations of
  `coulomb_potential` (`Gen/CoulombPotential.lean`) and `load_atomic_gaussian_params`
  (`Gen/CoulombLoader.lean`).  Hand-written named primitives only; which primitive is applied
  to what, in which order, with which arguments is generated text.

  Arrays are `NdArg K` = shape + row-major data (what an argument is after
  `np.asarray(x, dtype=float)`), so that `x.ndim`, `x.shape[i]` and therefore the shape guards
  of the source are real computations.  Every primitive is total: what NumPy would do outside
  the shapes the guards let through is either modelled (iteration over a 0-d array raises
  `TypeError`, `shape[i]` out of range raises `IndexError`) or answered `Err.unmodelled`
  (general broadcasting).  `unmodelled` is *not* an exception of the code: the driver answers
  `bad-op` for it (never a default), and `Props/C17/MultiGen.lean` proves that the generated
  `coulomb_potential` never produces it on arrays whose data fit their shape.

  No Mathlib import (linked into the driver).
-/
import GridVerif.Model.Elem
import GridVerif.Model.Coulomb

namespace GridVerif.Coulomb

/-- The exception classes of the modelled code (`osError`: the resource cannot be opened).
`unmodelled`: see the file header. -/
inductive Err where
  | valueError | typeError | indexError | keyError | attributeError | osError | unmodelled
  deriving DecidableEq, Repr

/-- Driver tag; `none` (answered `bad-op`) for `unmodelled`. -/
def Err.tag : Err → Option String
  | .valueError => some "value-error"
  | .typeError => some "type-error"
  | .indexError => some "index-error"
  | .keyError => some "key-error"
  | .attributeError => some "attribute-error"
  | .osError => some "os-error"
  | .unmodelled => none

/-- Exception classes named in `except` clauses. -/
inductive ExcClass where
  | exception | keyError | valueError | typeError
  deriving DecidableEq, Repr

/-- `isinstance(e, cls)` for a raised exception (`KeyError`, `IndexError` ⊂ `LookupError`,
all ⊂ `Exception`); `unmodelled` is not a Python exception and is never caught. -/
def Err.isInstance : Err → ExcClass → Bool
  | .unmodelled, _ => false
  | _, .exception => true
  | .keyError, .keyError => true
  | .valueError, .valueError => true
  | .typeError, .typeError => true
  | _, _ => false

/-- Outcomes can be compared (core has no such instance; used by the kernel-decided facts
about the generated loader). -/
instance instDecidableEqExcept {ε α : Type} [DecidableEq ε] [DecidableEq α] : DecidableEq (Except ε α)
  | .ok a, .ok b => if h : a = b then isTrue (h ▸ rfl) else isFalse fun h' => h (Except.ok.inj h')
  | .error a, .error b => if h : a = b then isTrue (h ▸ rfl) else isFalse fun h' => h (Except.error.inj h')
  | .ok _, .error _ => isFalse fun h => nomatch h
  | .error _, .ok _ => isFalse fun h => nomatch h

/-! ### arrays -/

/-- An array argument after `np.asarray(·, dtype=float)`: shape and row-major data. -/
structure NdArg (K : Type) where
  shape : List Nat
  data : List K
  deriving Repr

/-- Product of the extents. -/
def shapeSize : List Nat → Nat
  | [] => 1
  | n :: rest => n * shapeSize rest

/-- `k` consecutive blocks of length `m`. -/
def chunks {α : Type} (m : Nat) : Nat → List α → List (List α)
  | 0, _ => []
  | k + 1, d => d.take m :: chunks m k (d.drop m)

/-- Extents without the last axis / the last extent (`none` for a 0-d array). -/
def dropLastAxis : List Nat → List Nat
  | [] => []
  | [_] => []
  | n :: rest => n :: dropLastAxis rest

def lastAxis : List Nat → Option Nat
  | [] => none
  | [c] => some c
  | _ :: rest => lastAxis rest

section arrays
variable {K : Type}

namespace NdArg

/-- The data fit the shape. -/
def WF (a : NdArg K) : Prop := a.data.length = shapeSize a.shape

instance (a : NdArg K) : Decidable a.WF := by unfold WF; infer_instance

/-- `a.ndim`. -/
def ndim (a : NdArg K) : Nat := a.shape.length

/-- `a.shape[i]` (`IndexError: tuple index out of range`). -/
def shapeAt (a : NdArg K) (i : Nat) : Except Err Nat :=
  match a.shape[i]? with
  | some n => pure n
  | none => throw Err.indexError

/-- `iter(a)`: the sub-arrays along axis 0 (`TypeError: iteration over a 0-d array`). -/
def iter (a : NdArg K) : Except Err (List (NdArg K)) :=
  match a.shape with
  | [] => throw Err.typeError
  | n :: rest => pure ((chunks (shapeSize rest) n a.data).map fun d => ⟨rest, d⟩)

/-- A 1-D array. -/
def ofVec (xs : List K) : NdArg K := ⟨[xs.length], xs⟩

/-- A 0-d array / NumPy scalar. -/
def scalar (x : K) : NdArg K := ⟨[], [x]⟩

/-- The three coordinates of a point as a list. -/
def row3 (p : P3 K) : List K := [p.1, p.2.1, p.2.2]

/-- An `(N, 3)` array. -/
def ofMat3 (ps : List (P3 K)) : NdArg K := ⟨[ps.length, 3], ps.flatMap row3⟩

end NdArg

/-- `np.asarray(x, dtype=float)` of an array-like: identity on the modelled data (lists,
tuples, integer or single-precision arrays are converted by NumPy before the model starts). -/
def npAsarrayFloat (a : NdArg K) : NdArg K := a

/-- `np.asarray(x, dtype=float)` of an object that may be `None` (`None` would become a 0-d
`nan`; never reached behind the all-or-none guard: not modelled). -/
def npAsarrayFloatObj (a : Option (NdArg K)) : Except Err (NdArg K) :=
  match a with
  | some x => pure x
  | none => throw Err.unmodelled

/-- Attribute access / iteration on an object that may be `None`
(`AttributeError: 'NoneType' object has no attribute …`). -/
def pyArr (a : Option (NdArg K)) : Except Err (NdArg K) :=
  match a with
  | some x => pure x
  | none => throw Err.attributeError

/-- Python `a or b` with the second operand evaluated only if needed. -/
def pyOr (a : Bool) (b : Except Err Bool) : Except Err Bool := if a then pure true else b

/-- Python `a and b` with the second operand evaluated only if needed. -/
def pyAnd (a : Bool) (b : Except Err Bool) : Except Err Bool := if a then b else pure false

/-- `zip(a, b, c)`: stops with the shortest. -/
def pyZip3 {α β γ : Type} : List α → List β → List γ → List (α × β × γ)
  | a :: as, b :: bs, c :: cs => (a, b, c) :: pyZip3 as bs cs
  | _, _, _ => []

end arrays

section numeric
variable {K : Type} [Add K] [Sub K] [Mul K] [Div K] [Neg K] [NatCast K] [Elem K]
  [LT K] [LE K] [DecidableLT K] [DecidableLE K]

/-- `np.zeros(n, dtype=float)`. -/
def npZeros1 (n : Nat) : NdArg K := ⟨[n], List.replicate n ((0 : Nat) : K)⟩

/-- `a - b` for `a` of shape `(..., c)` and a 1-D `b` of length `c` (the one broadcasting
pattern of the code); other shape combinations are not modelled. -/
def npSub (a b : NdArg K) : Except Err (NdArg K) :=
  match b.shape with
  | [c] =>
    if lastAxis a.shape = some c then
      pure ⟨a.shape, (chunks c (shapeSize (dropLastAxis a.shape)) a.data).flatMap
        fun row => List.zipWith (fun x y => x - y) row b.data⟩
    else throw Err.unmodelled
  | _ => throw Err.unmodelled

/-- `add.reduce(x*x)` over one row: left to right, starting with the first square. -/
def sumSq : List K → K
  | [] => ((0 : Nat) : K)
  | x :: xs => xs.foldl (fun s y => s + y * y) (x * x)

/-- `np.linalg.norm(a, axis=-1)` = `sqrt(add.reduce(a*a, axis=-1))`; a 0-d argument
(`AxisError`) is not modelled. -/
def npNormLastAxis (a : NdArg K) : Except Err (NdArg K) :=
  match lastAxis a.shape with
  | some c =>
    pure ⟨dropLastAxis a.shape, (chunks c (shapeSize (dropLastAxis a.shape)) a.data).map
      fun row => Elem.sqrt (sumSq row)⟩
  | none => throw Err.unmodelled

/-- The array-level call `coulomb_gaussian_x(r, alpha, normalized)` of a *generated* scalar
closed form `f` with generated guard `rej`: `alpha` must be a scalar (0-d); `ValueError` if a
guard fires for `alpha` or some radius (`rejectsArr`: the `alpha` guard fires even with no
radius at all); otherwise `f` on every radius, in the shape `np.atleast_1d` gives. -/
def callArr (f : K → K → Bool → K) (rej : K → K → Bool) (r alpha : NdArg K) (normalized : Bool) :
    Except Err (NdArg K) :=
  match alpha.shape, alpha.data with
  | [], [a] =>
    if rejectsArr rej r.data a then throw Err.valueError
    else pure ⟨(match r.shape with | [] => [1] | s => s), r.data.map fun x => f x a normalized⟩
  | _, _ => throw Err.unmodelled

/-- `c * x` for a scalar (0-d) `c`; other broadcasting is not modelled. -/
def npMul (c x : NdArg K) : Except Err (NdArg K) :=
  match c.shape, c.data with
  | [], [k] => pure ⟨x.shape, x.data.map fun y => k * y⟩
  | _, _ => throw Err.unmodelled

/-- `V += x` for equal shapes; other broadcasting is not modelled. -/
def npIAdd (v x : NdArg K) : Except Err (NdArg K) :=
  if v.shape = x.shape then pure ⟨v.shape, List.zipWith (fun a b => a + b) v.data x.data⟩
  else throw Err.unmodelled

/-- `np.isclose(c, 0.0)` for a scalar (0-d) `c` with NumPy's default tolerances:
`|c - 0| ≤ atol + rtol·|0|` with `atol = 1e-8` (round 6: not used by the pinned source; a loop that
skips such coefficients is carried, so that the theorems about the sum over *all* functions see it). -/
def npIscloseZero (c : NdArg K) : Except Err Bool :=
  match c.shape, c.data with
  | [], [k] =>
    let atol : K := ((1 : Nat) : K) / ((100000000 : Nat) : K)
    pure (decide (k ≤ atol) && decide ((-atol) ≤ k))
  | _, _ => throw Err.unmodelled

end numeric

/-! ### `load_atomic_gaussian_params`: objects, dictionaries, the module-level cache -/

/-- Classes named in `isinstance` tests. -/
inductive PyType where
  | str | int | npInteger | float | bool
  deriving DecidableEq, Repr

/-- The `element` argument as a Python object.  `bool` is a subclass of `int`
(`isinstance(True, int)`, `int(True) = 1`: `True` loads hydrogen, `False` is atomic number 0);
NumPy integer scalars of every width are `np.integer` but not `int`; `other` stands for
everything else (`float`, `None`, `list`, `tuple`, `bytes`, `complex`, `np.float64`, …). -/
inductive PyObj where
  | str (s : String)
  | int (n : Int)
  | bool (b : Bool)
  | npInt (n : Int)
  | other
  deriving DecidableEq, Repr

/-- `isinstance(x, cls)` for one class. -/
def pyIsInstance1 : PyObj → PyType → Bool
  | .str _, .str => true
  | .int _, .int => true
  | .bool _, .int => true
  | .bool _, .bool => true
  | .npInt _, .npInteger => true
  | _, _ => false

/-- `isinstance(x, (c₁, …))`. -/
def pyIsInstance (x : PyObj) (cls : List PyType) : Bool := cls.any (pyIsInstance1 x)

/-- The receiver of a `str` method call (`AttributeError` for the other objects of the model;
not reached behind `isinstance(element, str)`). -/
def pyStr : PyObj → Except Err String
  | .str s => pure s
  | _ => throw Err.attributeError

/-- `s.strip()` (ASCII; `Coulomb.strip`). -/
def pyStrip (s : String) : String := String.ofList (strip s.toList)

/-- `s.title()` (ASCII; `Coulomb.title`). -/
def pyTitle (s : String) : String := String.ofList (title s.toList)

/-- `int(x)` (`int("…")` parses the text: not modelled; never reached behind the `isinstance`
tests).  `str.capitalize/upper/lower` are not primitives of this model: a source using them is
rejected by the translator. -/
def pyIntOf : PyObj → Except Err Int
  | .int n => pure n
  | .bool b => pure (if b then 1 else 0)
  | .npInt n => pure n
  | .str _ => throw Err.unmodelled
  | .other => throw Err.typeError

/-- `key in d` for a dictionary with `str` keys; the key may be `None` (never a member). -/
def pyIn {α : Type} (k : Option String) (d : List (String × α)) : Bool :=
  match k with
  | some s => d.any fun e => e.1 == s
  | none => false

/-- `d.get(k)` for a dictionary with `int` keys (`None` when absent). -/
def pyDictGetInt {α : Type} (d : List (Nat × α)) (k : Int) : Option α :=
  if k < 0 then none else (d.find? fun e => e.1 == k.toNat).map (·.2)

/-- `d[k]` for a dictionary with `str` keys (`KeyError` when absent, also for `None`). -/
def pyGetItem {α : Type} (d : List (String × α)) (k : Option String) : Except Err α :=
  match k with
  | some s =>
    match d.find? fun e => e.1 == s with
    | some e => pure e.2
    | none => throw Err.keyError
  | none => throw Err.keyError

/-- A number of the JSON file: exact decimal `(m, e)` = `m × 10^e`. -/
abbrev Dec := Int × Int

/-- One entry of the file (`{"coeffs_s": […], "alphas_s": […]}`) and the whole file. -/
abbrev JsonEntry := List (String × List Dec)
abbrev JsonTable := List (String × JsonEntry)

instance instDecEqDecList : DecidableEq (List Dec) := inferInstance
instance instDecEqJsonEntry : DecidableEq JsonEntry := inferInstance
instance instDecEqJsonTable : DecidableEq JsonTable := inferInstance
instance instDecEqCache : DecidableEq (Option JsonTable) := inferInstance
instance instDecEqLoadResult : DecidableEq (Except Err (List Dec × List Dec)) := inferInstance

/-- `np.asarray(list_of_numbers, dtype=float)`: identity on the modelled data (the decimal is
converted to the nearest double by `json.load`; rounding is not modelled). -/
def npAsarrayFloatList (xs : List Dec) : List Dec := xs

/-- What the loader sees of the outside world: `grid.utils.sym2num`, `grid.utils.num2sym` and
the package resources (`readJson pkg file` = the parsed file, `none` when it cannot be opened or
parsed). -/
structure LoaderEnv where
  sym2num : List (String × Nat)
  num2sym : List (Nat × String)
  readJson : String → String → Option JsonTable

/-- `importlib.resources.files(pkg).joinpath(name)`. -/
structure ResPath where
  pkg : String
  name : String

def pyFiles (pkg : String) : ResPath := ⟨pkg, ""⟩
def ResPath.joinpath (p : ResPath) (name : String) : ResPath := ⟨p.pkg, name⟩

/-- The module-level `_ATOMIC_GAUSS_PARAMS_CACHE`: `None` or the parsed file. -/
abbrev Cache := Option JsonTable

/-- Computations of the loader: may raise, and read/write the module-level cache; what was
written before an exception stays written (Python semantics).  `run c` = (outcome, cache
afterwards) when started with the cache in state `c`. -/
structure LoadM (α : Type) where
  run : Cache → Except Err α × Cache

namespace LoadM

def pure' {α : Type} (a : α) : LoadM α := ⟨fun c => (.ok a, c)⟩

def bind' {α β : Type} (m : LoadM α) (f : α → LoadM β) : LoadM β := ⟨fun c =>
  match m.run c with
  | (.ok a, c') => (f a).run c'
  | (.error e, c') => (.error e, c')⟩

instance : Monad LoadM where
  pure := pure'
  bind := bind'

/-- `raise`. -/
def raise {α : Type} (e : Err) : LoadM α := ⟨fun c => (.error e, c)⟩

/-- Lifting of a computation that does not touch the cache. -/
def lift {α : Type} (x : Except Err α) : LoadM α := ⟨fun c => (x, c)⟩

instance : MonadLift (Except Err) LoadM := ⟨lift⟩

instance : MonadExcept Err LoadM where
  throw := raise
  tryCatch m h := ⟨fun c =>
    match m.run c with
    | (.ok a, c') => (.ok a, c')
    | (.error e, c') => (h e).run c'⟩

end LoadM

/-- Read the global. -/
def getCache : LoadM Cache := ⟨fun c => (.ok c, c)⟩

/-- Assign the global. -/
def setCache (v : Cache) : LoadM Unit := ⟨fun _ => (.ok (), v)⟩

/-- `try: body  except cls: handler` (an exception of another class propagates). -/
def pyTry {α : Type} (body : LoadM α) (cls : ExcClass) (handler : LoadM α) : LoadM α := ⟨fun c =>
  match body.run c with
  | (.ok a, c') => (.ok a, c')
  | (.error e, c') => if e.isInstance cls then handler.run c' else (.error e, c')⟩

/-- `path.open("r", encoding="utf-8")` followed by `json.load(f)` are two primitives: the file
object is the parsed content (`OSError` when the resource cannot be opened). -/
def pyOpen (env : LoaderEnv) (p : ResPath) : LoadM JsonTable := ⟨fun c =>
  match env.readJson p.pkg p.name with
  | some j => (.ok j, c)
  | none => (.error Err.osError, c)⟩

/-- `json.load(f)`. -/
def jsonLoad (f : JsonTable) : LoadM JsonTable := LoadM.pure' f

/-- `cache[key]` when the global may still be `None` (`TypeError: 'NoneType' object is not
subscriptable`). -/
def pyCacheGetItem (c : Cache) (k : Option String) : Except Err JsonEntry :=
  match c with
  | some t => pyGetItem t k
  | none => throw Err.typeError

end GridVerif.Coulomb

/-
  Python/NumPy integer-array primitives used by the *generated* index code of
  `cubic.py` (`Gen/CubicIndex.lean`) and by the hand model `Model/Cubic.lean`.

  Everything that raises in Python raises here (`Except PyErr`): an index out of
  range is `indexError`, `//` by zero is `zeroDivision`.  Nothing is defaulted.
  No Mathlib import (the driver links this file).
-/

namespace GridVerif.Cubic

/-- The Python exceptions the modelled code can raise. -/
inductive PyErr
  | valueError | typeError | indexError | notImplemented | zeroDivision
  deriving DecidableEq, Repr

abbrev Py := Except PyErr

def PyErr.tag : PyErr → String
  | .valueError => "value-error"
  | .typeError => "type-error"
  | .indexError => "index-error"
  | .notImplemented => "not-implemented"
  | .zeroDivision => "zero-division"

/-- Python index normalisation for a sequence of length `len`: `-len ≤ i < len`. -/
def pyIdx (len : Nat) (i : Int) : Option Nat :=
  if 0 ≤ i then (if i.toNat < len then some i.toNat else none)
  else (if 0 ≤ i + (len : Int) then some (i + (len : Int)).toNat else none)

/-- `l[i]` (negative `i` counts from the end, out of range raises `IndexError`). -/
def pyGet (l : List Int) (i : Int) : Py Int :=
  match pyIdx l.length i with
  | some n => match l[n]? with
    | some v => pure v
    | none => throw .indexError
  | none => throw .indexError

/-- `l[i] = v`. -/
def pySet (l : List Int) (i v : Int) : Py (List Int) :=
  match pyIdx l.length i with
  | some n => pure (l.set n v)
  | none => throw .indexError

/-- Python `a // b` on integers: floor division, `ZeroDivisionError` for `b = 0`. -/
def pyFloorDiv (a b : Int) : Py Int :=
  if b = 0 then throw .zeroDivision else pure (a.fdiv b)

/-- `list(range(start, stop, step))`. -/
def pyRange (start stop step : Int) : List Int :=
  if 0 < step then
    (List.range ((stop - start + step - 1) / step).toNat).map fun (n : Nat) => start + step * (n : Int)
  else if step < 0 then
    (List.range ((start - stop + (-step) - 1) / (-step)).toNat).map fun (n : Nat) => start + step * (n : Int)
  else []

/-- `np.empty(n, dtype=int)`: `n` cells of uninitialised memory; the content is the
parameter `junk`, over which every theorem quantifies. -/
def pyEmpty (n : Int) (junk : Int) : List Int := List.replicate n.toNat junk

/-- `np.dot(a, b)` for two 1-D integer arrays (shape mismatch raises `ValueError`). -/
def pyDot (a b : List Int) : Py Int :=
  if a.length = b.length then pure ((List.zipWith (· * ·) a b).sum) else throw .valueError

end GridVerif.Cubic

/-
  NumPy array primitives used by the *generated* float code of `cubic.py`
  (`Gen/CubicGrid.lean`: `_calculate_volume`, `_calculate_alternative_volume`,
  `_choose_weight_scheme`, `closest_point`, `from_molecule`), and the model of
  `interpolate(method="linear")`.

  Conventions of the translation (harness/translate/cubic_grid.py):
  * float arrays are `List K` (1-D), `List (List K)` (2-D, rows), `Nd K` (n-D, C order);
  * `shape` is `List Nat`; integer arrays produced by `np.ceil/floor/rint` followed by an integer
    use, and by `shape - 1`, are `List Int` (exact below 2^53); integer arrays that only enter float
    arithmetic (`np.arange`) are cast to `K` where they are created;
  * whatever raises in NumPy for the shapes that can reach the call raises here (`Except PyErr`);
    element-wise binary operations are `List.zipWith` (NumPy raises on a length mismatch; the
    theorems and the driver only use equal lengths).
  No Mathlib import (the driver links this file).
-/
import GridVerif.Model.Cubic

namespace GridVerif.Cubic
open GridVerif

section numeric
variable {K : Type} [Add K] [Sub K] [Mul K] [Div K] [Neg K] [NatCast K] [Elem K]

/-- an integer (value of an integer-valued float / of an int array entry) as an element of `K`. -/
def intToK (s : Int) : K :=
  if s < 0 then -(((s.natAbs : Nat)) : K) else ((s.toNat : Nat) : K)

/-- `shape[i]`. -/
def nGet (l : List Nat) (i : Nat) : Py Nat :=
  match l[i]? with
  | some v => pure v
  | none => throw .indexError

/-- `v[i]` for a 1-D float array. -/
def kGet (l : List K) (i : Nat) : Py K :=
  match l[i]? with
  | some v => pure v
  | none => throw .indexError

/-- `m[i]` (row of a 2-D array). -/
def mRow (m : List (List K)) (i : Nat) : Py (List K) :=
  match m[i]? with
  | some v => pure v
  | none => throw .indexError

/-- `np.arange(a, b)` for natural numbers. -/
def npArange (a b : Nat) : List Nat := (List.range (b - a)).map (· + a)

/-- `np.cross(u, v)` for 3-vectors. -/
def npCross : List K → List K → Py (List K)
  | [a0, a1, a2], [b0, b1, b2] => pure [a1 * b2 - a2 * b1, a2 * b0 - a0 * b2, a0 * b1 - a1 * b0]
  | _, _ => throw .valueError

/-- `np.dot(u, v)` for two 1-D arrays. -/
def npDotVV (a b : List K) : Py K :=
  if a.length = b.length then pure (sumK (List.zipWith (· * ·) a b)) else throw .valueError

/-- `np.dot(u, A)`: 1-D array times 2-D array (columns of `A`). -/
def npVecMat (u : List K) (a : List (List K)) : List K :=
  (List.range (a.headD []).length).map fun d => sumK (List.zipWith (· * ·) u (column a d))

/-- `np.dot(A, B)` for two 2-D arrays. -/
def npMatMul (a b : List (List K)) : List (List K) := a.map fun r => npVecMat r b

/-- `A.T`. -/
def npTranspose (a : List (List K)) : List (List K) :=
  (List.range (a.headD []).length).map fun d => column a d

/-- `np.outer(u, v)`. -/
def npOuter (u v : List K) : List (List K) := u.map fun x => v.map fun y => x * y

/-- `np.einsum("ij,j->i", M, v)`. -/
def einsumMatVec (m : List (List K)) (v : List K) : List K :=
  m.map fun r => sumK (List.zipWith (· * ·) r v)

/-- `np.diag(v)` for a 1-D array. -/
def npDiag (v : List K) : List (List K) :=
  List.zipWith (fun i x => (List.range v.length).map fun j => if i = j then x else ((0 : Nat) : K))
    (List.range v.length) v

/-- `np.linalg.norm(v)` for a 1-D array. -/
def npNorm (v : List K) : K := Elem.sqrt (sumK (v.map fun x => x * x))

/-- `np.count_nonzero(M)` for a 2-D array. -/
def npCountNonzero [LT K] [DecidableLT K] (m : List (List K)) : Nat :=
  (m.map fun r => (r.filter fun x => decide (x < ((0 : Nat) : K) ∨ ((0 : Nat) : K) < x)).length).sum

/-- `np.amax(M, axis=0)` (raises on an empty array). -/
def npAmax0 [LT K] [DecidableLT K] (m : List (List K)) : Py (List K) :=
  (List.range (m.headD []).length).mapM fun d =>
    match column m d with
    | [] => throw PyErr.valueError
    | x :: xs => pure (xs.foldl maxK x)

/-- `np.amin(M, axis=0)`. -/
def npAmin0 [LT K] [DecidableLT K] (m : List (List K)) : Py (List K) :=
  (List.range (m.headD []).length).mapM fun d =>
    match column m d with
    | [] => throw PyErr.valueError
    | x :: xs => pure (xs.foldl minK x)

/-- `np.clip(c, lo, hi)` on integer-valued entries: `minimum(maximum(c, lo), hi)`. -/
def npClip (c : List Int) (lo : Int) (hi : List Int) : List Int :=
  List.zipWith (fun c h => min (max c lo) h) c hi

/-- an n-D float array in C order. -/
structure Nd (K : Type) where
  shape : List Nat
  data : List K

/-- `np.ones(shape)`. -/
def Nd.ones (shape : List Nat) : Nd K := ⟨shape, List.replicate (numPoints shape) ((1 : Nat) : K)⟩

/-- element-wise map (array ∘ scalar operations). -/
def Nd.map (f : K → K) (a : Nd K) : Nd K := ⟨a.shape, a.data.map f⟩

/-- `np.einsum("ijk,j->ijk", a, v)` and its relatives: entry at the integer coordinates `c` is
multiplied by `v[c[axis]]`. The coordinates of the entries in C order are `allCoords shape`
(`layout3/2` of Props/C13/Index). Raises when `v` does not have the length of that axis. -/
def Nd.scaleAxis (a : Nd K) (axis : Nat) (v : List K) : Py (Nd K) :=
  match a.shape[axis]? with
  | some n =>
    if n = v.length then
      pure ⟨a.shape, List.zipWith (fun c x => x * (v.getD (c.getD axis 0) ((0 : Nat) : K))) (allCoords a.shape) a.data⟩
    else throw .valueError
  | none => throw .valueError

/-- `np.ravel(a)`. -/
def Nd.ravel (a : Nd K) : List K := a.data

/-! ### `interpolate(method="linear")` -/

/-- A 3-D regular-grid interpolator: the three node lists, the data in C order (the
`values.reshape(shape)` array), the query point ↦ value
(`RegularGridInterpolator((x, y, z), values, method="linear")(point)`). -/
abbrev InterpGrid (K : Type) := List K → List K → List K → List K → K × K × K → K

/-- `interpolate(points, values, method="linear"/"nearest")` at one query point, as coded: the nodes
are `get_points_along_axes()`, the data are the values in their order (reshape to `shape` is the
C-order reading), evaluation is SciPy's. -/
def interpLinear (R : InterpGrid K) (shape : List Nat) (points : List (List K)) (values : List K)
    (p : K × K × K) : Py K :=
  match shape with
  | [s0, s1, s2] => do
    if values.length ≠ s0 * s1 * s2 then throw .valueError
    let (x, y, z) ← pointsAlongAxes shape points
    pure (R x y z values p)
  | _ => throw .notImplemented

/-- value of the multilinear interpolant of the cell `[x_i,x_{i+1}]×[y_j,y_{j+1}]×[z_k,z_{k+1}]` at `p`:
`Σ_{a,b,c∈{0,1}} w_a(t_x) w_b(t_y) w_c(t_z) · V[i+a, j+b, k+c]` with `t = (p − node_i)/(node_{i+1} − node_i)`,
`w₀(t) = 1 − t`, `w₁(t) = t`; `V` is `vals` read in C order. -/
def cellValue (xs ys zs vals : List K) (i j k : Nat) (p : K × K × K) : K :=
  let z0 := ((0 : Nat) : K)
  let one := ((1 : Nat) : K)
  let s1 := ys.length
  let s2 := zs.length
  let tx := (p.1 - xs.getD i z0) / (xs.getD (i + 1) z0 - xs.getD i z0)
  let ty := (p.2.1 - ys.getD j z0) / (ys.getD (j + 1) z0 - ys.getD j z0)
  let tz := (p.2.2 - zs.getD k z0) / (zs.getD (k + 1) z0 - zs.getD k z0)
  let v (a b c : Nat) : K := vals.getD ((i + a) * (s1 * s2) + (j + b) * s2 + (k + c)) z0
  (one - tx) * (one - ty) * (one - tz) * v 0 0 0 + (one - tx) * (one - ty) * tz * v 0 0 1
    + (one - tx) * ty * (one - tz) * v 0 1 0 + (one - tx) * ty * tz * v 0 1 1
    + tx * (one - ty) * (one - tz) * v 1 0 0 + tx * (one - ty) * tz * v 1 0 1
    + tx * ty * (one - tz) * v 1 1 0 + tx * ty * tz * v 1 1 1

/-- index of the cell of a 1-D node list that holds `x`: the largest `i ≤ n − 2` with `nodes[i] ≤ x`
(`0` below the first node; SciPy extrapolates from the first / last cell). -/
def findCell [LT K] [DecidableLT K] (nodes : List K) (x : K) : Nat :=
  (List.range (nodes.length - 1)).foldl (fun acc i => if x < nodes.getD i ((0 : Nat) : K) then acc else i) 0

/-- An executable operator satisfying the contract of `RegularGridInterpolator(method="linear")`: the
multilinear interpolant of the cell that holds the point. -/
def multilinearCell [LT K] [DecidableLT K] : InterpGrid K := fun xs ys zs vals p =>
  cellValue xs ys zs vals (findCell xs p.1) (findCell ys p.2.1) (findCell zs p.2.2) p

end numeric

end GridVerif.Cubic

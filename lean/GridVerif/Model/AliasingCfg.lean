/-
  C19 — configurations of the memo machine (`Model/Aliasing.lean`) computed from the regenerated
  enumeration `Gen/ModuleState.lean`.  Shared by the theorems (Props/C19/State.lean) and the
  driver.  No Mathlib import.
-/
import GridVerif.Model.Aliasing
import GridVerif.Gen.ModuleState

namespace GridVerif.Aliasing
open GridVerif.Gen.ModuleState

/-- Configuration of the kd-tree memo, computed from the regenerated setters and accessors. -/
def kdtreeCfg : MemoCfg :=
  ⟨resetOnSet setters "_points" "_kdtree",
   handoutFresh memos "Grid" "_kdtree" && handoutFresh memos "PeriodicGrid" "_kdtree"⟩

/-- Configuration of the spherical-harmonics memo of `AtomGrid`: no method of `AtomGrid` assigns an
attribute after construction (so the source cannot be re-assigned); the accessor `basis` decides the
second component. -/
def basisCfg : MemoCfg :=
  ⟨setters.all (fun s => s.cls != "AtomGrid"), handoutFresh memos "AtomGrid" "_basis"⟩

end GridVerif.Aliasing

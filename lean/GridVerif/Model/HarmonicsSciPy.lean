/-
  C08 — the NumPy / SciPy primitives the *generated* file `Gen/HarmonicsScipy.lean` (translation of
  `generate_real_spherical_harmonics_scipy`) refers to, and the hand model of that routine.
  Hand-written, part of the trusted base of the translation; exercised by the correspondence
  (`C08.sphHarmYAll` against `scipy.special.sph_harm_y_all`, `C08.genScipy` against the library routine).

  * `onesK`, `emptyK`         — `np.ones(n)`, `np.empty(n)` (unspecified content: a parameter);
  * `setSlice`, `sliceCount`  — `A[start:stop:step] = vals` and the number of positions the slice addresses
                                (NumPy demands `len(vals) = sliceCount`; the users prove it);
  * `cmulR`                   — complex × real;
  * `sph_harm_y_all`          — **contract** for `scipy.special.sph_harm_y_all(n, m, phi, theta)` at one point:
                                table `[l][j]`, `l = 0..n`, columns `j = 0..m` the orders `0..m`, columns
                                `m+1..2m` the orders `-m..-1`; `Y_l^0 = Y_{l,0}`,
                                `Y_l^k = (-1)^k (Y_{l,k} + i Y_{l,-k})/√2` (`1 ≤ k ≤ l`), `0` for `k > l`,
                                `Y_l^{-k} = (-1)^k conj(Y_l^k)`, in terms of the rows of the recursion at
                                `(θ, |sin φ|, cos φ)` (SciPy forms the Legendre functions from `cos φ` and `|sin φ|`);
  * `ylmScipy`                — hand model of the routine: angle reduction, then per degree the row
                                `Re z₀` followed by `Re z_k, Im z_k` (`k = 1..l`), `z_k = Y_l^k · phase_k`,
                                `phase_0 = 1`, `phase_k = √2 (-1)^k`.

  No Mathlib import (linked into the driver).
-/
import GridVerif.Model.Elem
import GridVerif.Model.Harmonics
import GridVerif.Model.HarmonicsGenBase

namespace GridVerif.SciPyBase
open GridVerif.Harmonics GridVerif.GenBase

section arrays
variable {K : Type}

/-- `np.ones(n)`. -/
def onesK [NatCast K] (n : Nat) : List K := List.replicate n ((1 : Nat) : K)

/-- `np.empty(n)`: `n` entries of unspecified content (`junk`). -/
def emptyK (n : Nat) (junk : K) : List K := List.replicate n junk

/-- `A[start:stop:step] = vals` for `0 ≤ start`, `0 < step`: `vals[i]` goes to position `start + i·step` as long as
that position is below `stop`.  (NumPy raises unless `len(vals)` is the number of addressed positions, `sliceCount`;
the theorems about the generated code prove that equality for every store.) -/
def setSlice : List K → Nat → Nat → Nat → List K → List K
  | A, _, _, _, [] => A
  | A, start, stop, step, v :: vs =>
    if start < stop then setSlice (A.set start v) (start + step) stop step vs else A

/-- Number of positions `range(start, min(stop, len), step)` addresses. -/
def sliceCount (len start stop step : Nat) : Nat :=
  let e := min stop len
  if start < e then (e - start + step - 1) / step else 0

/-- complex × real, componentwise. -/
def cmulR [Mul K] (z : K × K) (x : K) : K × K := (z.1 * x, z.2 * x)

end arrays

section generic
variable {K : Type} [Add K] [Sub K] [Mul K] [Div K] [Neg K] [NatCast K] [Elem K]

/-- Complex `Y_l^k`, `k ≥ 0`, from rows `Ys` of the recursion: `Y_l^0 = Y_{l,0}` (real), `k ≥ 1`: `sphHarmY`. -/
def sphHarmYC (Ys : List K) (l k : Nat) : K × K :=
  if k = 0 then (Ys.getD (rowIndex l 0) ((0 : Nat) : K), ((0 : Nat) : K)) else sphHarmY Ys l k

/-- `Y_l^{-k} = (-1)^k conj(Y_l^k)`. -/
def sphHarmYNeg (Ys : List K) (l k : Nat) : K × K :=
  let z := sphHarmYC Ys l k
  (negOnePow (k : Int) * z.1, -(negOnePow (k : Int) * z.2))

/-- **Contract** for `scipy.special.sph_harm_y_all(n, m, phi, theta)` at one point (polar angle `phi`, azimuth
`theta`): rows `l = 0..n`; columns `0..m` the orders `0..m`, columns `m+1..2m` the orders `-m..-1`. -/
def sph_harm_y_all (n m : Nat) (phi theta : K) : List (List (K × K)) :=
  let Ys : List K := ylmCodeSC n theta (Elem.abs (Elem.sin phi)) (Elem.cos phi)
  (List.range (n + 1)).map fun l =>
    (List.range (m + 1)).map (fun k => sphHarmYC Ys l k) ++
      (List.range' 1 m).reverse.map (fun k => sphHarmYNeg Ys l k)

/-! ## hand model of `generate_real_spherical_harmonics_scipy` -/

/-- `phase_cor_pos[k]`: `1` for `k = 0`, `√2 · (-1)^k` otherwise. -/
def scipyPhase (k : Nat) : K :=
  if k = 0 then ((1 : Nat) : K) else Elem.sqrt ((2 : Nat) : K) * npow (-((1 : Nat) : K)) k

/-- The rows of degree `l`: `Re z₀, Re z₁, Im z₁, …, Re z_l, Im z_l`, `z_k = table[l][k] · phase_k`. -/
def scipyDegRows (tbl : List (List (K × K))) (l : Nat) : List K :=
  let z (k : Nat) : K × K :=
    cmulR ((tbl.getD l []).getD k (((0 : Nat) : K), ((0 : Nat) : K))) (scipyPhase k)
  (z 0).1 :: (List.range' 1 l).flatMap (fun k => [(z k).1, (z k).2])

variable [LT K] [DecidableLT K]

/-- The angle reduction of the routine at one point: a polar angle outside `[0, π]` is replaced by
`arctan2(|sin φ|, cos φ)` (`= arccos(cos φ)` over the reals, but well-conditioned next to the poles; repair c2ff251), and the
azimuth is shifted by `π` where moreover `sin φ < 0`. -/
def scipyAngles (theta phi : K) : K × K :=
  let outside : Bool := decide (phi < ((0 : Nat) : K)) || decide (Elem.pi < phi)
  (if outside && decide (Elem.sin phi < ((0 : Nat) : K)) then theta + Elem.pi else theta,
   if outside then Elem.arctan2 (Elem.abs (Elem.sin phi)) (Elem.cos phi) else phi)

/-- `generate_real_spherical_harmonics_scipy(l_max, theta, phi)` at one point: `(l_max+1)²` rows. -/
def ylmScipy (L : Nat) (theta phi : K) : List K :=
  let a := scipyAngles theta phi
  (List.range (L + 1)).flatMap (scipyDegRows (sph_harm_y_all L L a.2 a.1))

end generic

end GridVerif.SciPyBase

/-
  Hand-written executable model of `grid/cubic.py` (property C13).

  * index maps: the *generated* `Gen.CubicIndex.indexToCoordinates / coordinatesToIndex`
    (this file only wraps them);
  * `allCoords`, `pointAt`, `uniformPoints`      : `UniformGrid.__init__` (meshgrid / swapaxes /
                                                    reshape, `coords.T.dot(axes) + origin`);
  * `tensorPoints`, `kron`, `tensorWeights`       : `Tensor1DGrids.__init__`;
  * `volume`, `altVolume`, `weights`              : `_calculate_volume`, `_calculate_alternative_volume`,
                                                    `_choose_weight_scheme` (five schemes, as coded);
  * `uniformGrid`                                 : the constructor guards in their order;
  * `fromMolecule`                                : `UniformGrid.from_molecule` (extent, `ceil`, centring as coded);
  * `closestPoint`                                : `UniformGrid.closest_point`;
  * `interpCubic`, `interpLog`, `completeBell`    : `_HyperRectangleGrid.interpolate` (nesting along z, y, x over
                                                    a 1-D interpolation operator parameter; log variant).

  Numeric code is generic in `K` (DESIGN 2.2); no Mathlib import.
-/
import GridVerif.Model.Elem
import GridVerif.Model.CubicPy
import GridVerif.Gen.CubicIndex

namespace GridVerif.Cubic
open GridVerif

/-- Rounding to integers (`np.ceil`, `np.floor`, `np.rint` followed by the integer use of the
result). `rintI` is round-half-to-even. Not part of `Elem`, so it lives here. -/
class Rounding (K : Type) where
  ceilI : K → Int
  floorI : K → Int
  rintI : K → Int

/-- integer value of a float that holds an integer (|x| < 2^63). -/
def floatToInt (x : Float) : Int :=
  if x ≥ 0.0 then Int.ofNat x.toUInt64.toNat else -(Int.ofNat (-x).toUInt64.toNat)

/-- `np.rint` : nearest integer, ties to even. -/
def floatRint (x : Float) : Float :=
  let f := x.floor
  let d := x - f
  if d < 0.5 then f
  else if d > 0.5 then f + 1.0
  else if (f / 2.0).floor * 2.0 == f then f else f + 1.0

instance : Rounding Float where
  ceilI x := floatToInt x.ceil
  floorI x := floatToInt x.floor
  rintI x := floatToInt (floatRint x)

section numeric
variable {K : Type} [Add K] [Sub K] [Mul K] [Div K] [Neg K] [NatCast K] [Elem K]

def sumK (l : List K) : K := l.foldl (· + ·) ((0 : Nat) : K)
def prodK (l : List K) : K := l.foldl (· * ·) ((1 : Nat) : K)

/-! ### integer coordinates and points -/

/-- All integer coordinates of a grid of the given shape in the order of the rows of `points`
(lexicographic, last index fastest): model of `meshgrid`+`swapaxes`+`reshape(3,-1)` (3-D) and of
`meshgrid`+`reshape(2,-1,order="F")` (2-D). -/
def allCoords : List Nat → List (List Nat)
  | [] => [[]]
  | s :: rest => (List.range s).flatMap fun i => (allCoords rest).map (i :: ·)

/-- `coords.T.dot(axes) + origin` for one row of `coords`:
component `d` is `((0 + c₀·a₀d) + c₁·a₁d + …) + o_d`. -/
def pointAt (origin : List K) (axes : List (List K)) (c : List Nat) : List K :=
  List.zipWith (· + ·)
    ((c.zip axes).foldl (fun acc p => List.zipWith (· + ·) acc (p.2.map (((p.1 : Nat) : K) * ·)))
      (origin.map fun _ => ((0 : Nat) : K)))
    origin

def uniformPoints (origin : List K) (axes : List (List K)) (shape : List Nat) : List (List K) :=
  (allCoords shape).map (pointAt origin axes)

/-- Tensor product of 1-D node lists, `np.meshgrid(..., indexing="ij")` → `reshape(D,-1).T`. -/
def tensorPoints : List (List K) → List (List K)
  | [] => [[]]
  | xs :: rest => xs.flatMap fun x => (tensorPoints rest).map (x :: ·)

/-- `np.kron(a, b)` for 1-D arrays. -/
def kron (a b : List K) : List K := a.flatMap fun x => b.map (x * ·)

/-- `Tensor1DGrids` weights: `kron(kron(wx, wy), wz)` resp. `kron(wx, wy)`. -/
def tensorWeights : List (List K) → Py (List K)
  | [wx, wy, wz] => pure (kron (kron wx wy) wz)
  | [wx, wy] => pure (kron wx wy)
  | _ => throw .typeError

/-! ### volume and weight schemes of `UniformGrid` -/

/-- `np.linalg.det(axes)` (cofactor expansion; 2×2 and 3×3). -/
def det : List (List K) → Py K
  | [[a, b, c], [d, e, f], [g, h, i]] =>
    pure (a * (e * i - f * h) - b * (d * i - f * g) + c * (d * h - e * g))
  | [[a, b], [c, d]] => pure (a * d - b * c)
  | _ => throw .valueError

/-- `_calculate_volume(shape)`: 3-D `|((s₀a₀) × (s₁a₁)) · (s₂a₂)|`, 2-D `|det [s₀a₀; s₁a₁]|`. -/
def volume : List (List K) → List Nat → Py K
  | [[a00, a01, a02], [a10, a11, a12], [a20, a21, a22]], [s0, s1, s2] =>
    let u0 := (s0 : K) * a00; let u1 := (s0 : K) * a01; let u2 := (s0 : K) * a02
    let v0 := (s1 : K) * a10; let v1 := (s1 : K) * a11; let v2 := (s1 : K) * a12
    let w0 := (s2 : K) * a20; let w1 := (s2 : K) * a21; let w2 := (s2 : K) * a22
    let c0 := u1 * v2 - u2 * v1
    let c1 := u2 * v0 - u0 * v2
    let c2 := u0 * v1 - u1 * v0
    pure (Elem.abs (c0 * w0 + c1 * w1 + c2 * w2))
  | [[a00, a01], [a10, a11]], [s0, s1] =>
    let u0 := (s0 : K) * a00; let u1 := (s0 : K) * a01
    let v0 := (s1 : K) * a10; let v1 := (s1 : K) * a11
    pure (Elem.abs (u0 * v1 - u1 * v0))
  | _, _ => throw .valueError

/-- `np.prod((shape - 1) / shape)`. -/
def altFactor (shape : List Nat) : K :=
  prodK (shape.map fun (s : Nat) => ((s : K) - ((1 : Nat) : K)) / (s : K))

/-- `_calculate_alternative_volume(shape)`. -/
def altVolume (axes : List (List K)) (shape : List Nat) : Py K := do
  let v ← volume axes shape
  pure (v * altFactor shape)

/-- `np.prod(shape)` (integers). -/
def numPoints (shape : List Nat) : Nat := shape.foldl (· * ·) 1

/-- `np.prod(shape + 1.0)`. -/
def numPlusOne (shape : List Nat) : K := prodK (shape.map fun (s : Nat) => (s : K) + ((1 : Nat) : K))

/-- one direction of Fourier1: `weight_dir[i] = Σ_j sin(i·j·π/(n+1.0)) · (1 − cos(j·π))/(j·π)`,
`i, j = 1..n`. -/
def fourier1Dir (n : Nat) : List K :=
  (List.range n).map fun i0 =>
    sumK ((List.range n).map fun j0 =>
      let i := i0 + 1; let j := j0 + 1
      Elem.sin ((((i * j : Nat) : K)) * Elem.pi / ((n : K) + ((1 : Nat) : K)))
        * ((((1 : Nat) : K) - Elem.cos ((j : K) * Elem.pi)) / ((j : K) * Elem.pi)))

/-- one direction of Fourier2 (`_fourier2(shape, index)` with `n = shape[index]`). -/
def fourier2Dir (n : Nat) : List K :=
  (List.range n).map fun i0 =>
    let i : Nat := i0 + 1
    let first :=
      ((4 : Nat) : K) * sumK ((List.range (n - 1)).map fun p0 =>
        let p : Nat := p0 + 1
        let s := Elem.sin ((p : K) * Elem.pi / ((2 : Nat) : K))
        Elem.sin ((((2 : Nat) : K) * (i : K) - ((1 : Nat) : K)) / (n : K) * (p : K) * Elem.pi)
          * (s * s / (p : K)))
        / (Elem.pi * (n : K))
    let sn := Elem.sin (Elem.pi * (n : K) / ((2 : Nat) : K))
    let second :=
      ((2 : Nat) : K) * (sn * sn)
        * Elem.sin (((i : K) - ((1 : Nat) : K) / ((2 : Nat) : K)) * Elem.pi)
        / ((n : K) * (n : K) * Elem.pi)
    first + second

/-- outer product of per-direction factors in the order of `np.ravel` (C order), entry
`((c·f₀[i])·f₁[j])·f₂[k]`. -/
def outer (c : K) : List (List K) → List K
  | [] => [c]
  | f :: rest => f.flatMap fun x => outer (c * x) rest

inductive Scheme | rectangle | trapezoid | fourier1 | fourier2 | alternative
  deriving DecidableEq, Repr

def Scheme.ofString : String → Option Scheme
  | "Rectangle" => some .rectangle
  | "Trapezoid" => some .trapezoid
  | "Fourier1" => some .fourier1
  | "Fourier2" => some .fourier2
  | "Alternative" => some .alternative
  | _ => none

/-- `_choose_weight_scheme(weight, shape)` as coded. -/
def weights (axes : List (List K)) (shape : List Nat) : Scheme → Py (List K)
  | .rectangle => do
    let v ← volume axes shape
    let numpnt := ((1 : Nat) : K) * ((numPoints shape : Nat) : K)
    pure (List.replicate (numPoints shape) (v / numpnt))
  | .trapezoid => do
    let v ← volume axes shape
    pure (List.replicate (numPoints shape) (v / numPlusOne shape))
  | .fourier1 => do
    let v ← volume axes shape
    let c := (((2 ^ shape.length : Nat) : K) * v) / numPlusOne shape
    pure (outer (((1 : Nat) : K) * c) (shape.map fourier1Dir))
  | .alternative => do
    let av ← altVolume axes shape
    pure (List.replicate (numPoints shape) (((1 : Nat) : K) * av / ((numPoints shape : Nat) : K)))
  | .fourier2 => do
    let av ← altVolume axes shape
    -- `_fourier2(shape, 2)` is evaluated unconditionally: `IndexError` in two dimensions
    match shape with
    | [s0, s1, s2] =>
      pure ((outer ((1 : Nat) : K) [fourier2Dir s0, fourier2Dir s1, fourier2Dir s2]).map (· * av))
    | _ => throw .indexError

/-- `UniformGrid.__init__` (array arguments of the right type): guards in their order, points,
weights, then the guards of `_HyperRectangleGrid.__init__`. -/
def uniformGrid [LT K] [DecidableLT K] (origin : List K) (axes : List (List K)) (shape : List Int)
    (w : Option Scheme) : Py (List (List K) × List K) := do
  if origin.length ≠ 3 ∧ origin.length ≠ 2 then throw .valueError
  if shape.length ≠ origin.length then throw .valueError
  if axes.length ≠ origin.length ∨ axes.any (fun r => r.length ≠ origin.length) then throw .valueError
  let d ← det axes
  if Elem.abs d < ((1 : Nat) : K) / ((10 ^ 10 : Nat) : K) then throw .valueError
  if shape.any (· ≤ 0) then throw .valueError
  let sh := shape.map Int.toNat
  let pts := uniformPoints origin axes sh
  let ws ← match w with
    | some s => weights axes sh s
    | none => throw .valueError
  if sh.any (· ≤ 1) then throw .valueError
  pure (pts, ws)

/-! ### `from_molecule` -/

def maxK [LT K] [DecidableLT K] (a b : K) : K := if a < b then b else a
def minK [LT K] [DecidableLT K] (a b : K) : K := if b < a then b else a

/-- column `d` of a list of rows (rows shorter than `d+1` are skipped). -/
def column (rows : List (List K)) (d : Nat) : List K := rows.filterMap (·[d]?)

/-- `from_molecule`: `(origin, axes, shape)` handed to the constructor.
`rot = some v`: `rotate=True` with `v` the eigenvector matrix returned by `eigh` (contract);
`rot = none`: `rotate=False`. Box sized by the extent of the (projected) coordinates, centred
on the centre of charge — as coded. -/
def fromMolecule [LT K] [DecidableLT K] [Rounding K] (nums : List K) (coords : List (List K))
    (spacing ext : K) (rot : Option (List (List K))) : Py (List K × List (List K) × List Int) := do
  if coords.isEmpty ∨ nums.length ≠ coords.length ∨ coords.any (·.length ≠ 3) then throw .valueError
  let totz := sumK nums
  let com := (List.range 3).map fun d => sumK (List.zipWith (· * ·) nums (column coords d)) / totz
  let (newc, axes) ← match rot with
    | some v =>
      if v.length ≠ 3 ∨ v.any (·.length ≠ 3) then throw .valueError
      pure (coords.map (fun r => (List.range 3).map fun d =>
              sumK (List.zipWith (· * ·) (List.zipWith (· - ·) r com) (column v d))),
            v.map (·.map (spacing * ·)))
    | none =>
      pure (coords,
            (List.range 3).map fun i => (List.range 3).map fun j =>
              if i = j then spacing else ((0 : Nat) : K))
  let shape ← (List.range 3).mapM fun d =>
    match column newc d with
    | [] => throw PyErr.valueError
    | x :: xs =>
      let mx := xs.foldl maxK x
      let mn := xs.foldl minK x
      pure (Rounding.ceilI ((mx - mn + ((2 : Nat) : K) * ext) / spacing))
  let half := shape.map fun (s : Int) =>
    ((1 : Nat) : K) / ((2 : Nat) : K) * (if s < 0 then -(((s.natAbs : Nat)) : K) else ((s.toNat : Nat) : K))
  let origin := (List.range 3).map fun d =>
    (com.getD d ((0 : Nat) : K)) - sumK (List.zipWith (· * ·) half (column axes d))
  pure (origin, axes, shape)

/-! ### `closest_point` -/

/-- `np.count_nonzero(axes - np.diag(np.diagonal(axes))) == 0`. -/
def isDiagonal [LT K] [DecidableLT K] (axes : List (List K)) : Bool :=
  (List.range axes.length).all fun i => (List.range axes.length).all fun j =>
    decide (i = j) || match (axes.getD i [])[j]? with
      | some x => decide (¬ (x < ((0 : Nat) : K)) ∧ ¬ (((0 : Nat) : K) < x))
      | none => false

inductive Which | closest | origin
  deriving DecidableEq

/-- `np.diagonal(axes)`: the signed step of every axis. -/
def diagonal (axes : List (List K)) : List K :=
  (List.range axes.length).filterMap fun i => match axes[i]? with
    | some r => r[i]?
    | none => none

/-- `np.clip(c, 0, s - 1)` on an integer-valued entry: `minimum(maximum(c, 0), s − 1)`. -/
def clipIdx (c : Int) (s : Nat) : Int := min (max c 0) ((s : Int) - 1)

/-- `UniformGrid.closest_point(point, which)`; the result is the (integer valued) number the
code returns: quotient by the *signed* diagonal step, `floor`/`rint`, clipped to `[0, sᵢ−1]`,
then the generated stride code. -/
def closestPoint [LT K] [DecidableLT K] [Rounding K] (origin : List K) (axes : List (List K))
    (shape : List Nat) (point : List K) (which : Option Which) : Py Int := do
  if ¬ isDiagonal axes then throw .valueError
  let steps := diagonal axes
  let coord ← (List.range shape.length).mapM fun i =>
    match (point[i]?), (origin[i]?), (steps[i]?) with
    | some p, some o, some s => pure ((p - o) / s)
    | _, _, _ => throw PyErr.indexError
  let ic ← match which with
    | some .origin => pure (coord.map Rounding.floorI)
    | some .closest => pure (coord.map Rounding.rintI)
    | none => throw PyErr.valueError
  let ic := List.zipWith clipIdx ic shape
  Gen.CubicIndex.coordinatesToIndex shape.length (shape.map Int.ofNat) 0 ic

/-! ### interpolation -/

/-- A 1-D interpolation operator: nodes, values, derivative order, query ↦ value
(`CubicSpline(nodes, values)(x, nu)`). -/
abbrev Interp1 (K : Type) := List K → List K → Nat → K → K

/-- flat index of integer coordinates by the generated stride code (natural numbers). -/
def flatIndex (shape : List Nat) (c : List Nat) : Py Nat := do
  let r ← Gen.CubicIndex.coordinatesToIndex shape.length (shape.map Int.ofNat) 0 (c.map Int.ofNat)
  if r < 0 then throw .indexError else pure r.toNat

/-- Python slice `l[a:b]` for `0 ≤ a, b`. -/
def slice {α} (l : List α) (a b : Nat) : List α := (l.drop a).take (b - a)

/-- `range(1, s-2)` / `np.arange(1, s-2)`: the node indices `1 … s−3` used on an axis with `s` points. -/
def innerIdx (s : Nat) : List Nat := (List.range (s - 2)).drop 1

/-- column `d` of some rows (`points[..., d]`), `IndexError` when a row is too short. -/
def interpCol (rows : List (List K)) (d : Nat) : Py (List K) :=
  rows.mapM fun r => match r[d]? with | some x => pure x | none => throw PyErr.indexError

/-- `points[idx]` for a list of row indices. -/
def interpRows (points : List (List K)) (idx : List Nat) : Py (List (List K)) :=
  idx.mapM fun n => match points[n]? with | some r => pure r | none => throw PyErr.indexError

/-- `z_spline(z, x_index, y_index)`: spline over the slice `[idx(x,y,1) : idx(x,y,s₂−2)]`. -/
def zSpline (I : Interp1 K) (shape : List Nat) (points : List (List K)) (values : List K)
    (s2 nuz : Nat) (z : K) (xi yj : Nat) : Py K := do
  let small ← flatIndex shape [xi, yj, 1]
  let large ← flatIndex shape [xi, yj, s2 - 2]
  let nodes ← interpCol (slice points small large) 2
  pure (I nodes (slice values small large) nuz z)

/-- `y_splines(y, x_index, z)`: spline over the rows `arange(1, s₁−2)·s₂` of the z-splines. -/
def ySpline (I : Interp1 K) (shape : List Nat) (points : List (List K)) (values : List K)
    (s1 s2 nuy nuz : Nat) (y z : K) (xi : Nat) : Py K := do
  let nodes ← interpCol (← interpRows points ((innerIdx s1).map (· * s2))) 1
  let vals ← (innerIdx s1).mapM fun yj => zSpline I shape points values s2 nuz z xi yj
  pure (I nodes vals nuy y)

/-- `interpolate(..., method="cubic", use_log=False)` at one query point, as coded: splines over
the node indices `1 .. s−3` of each axis (`arange(1, s−2)` / slice `[idx(…,1) : idx(…,s₂−2)]`),
nested along z, then y, then x. -/
def interpCubic (I : Interp1 K) (shape : List Nat) (points : List (List K)) (values : List K)
    (nu : Nat × Nat × Nat) (p : K × K × K) : Py K :=
  match shape with
  | [s0, s1, s2] => do
    if values.length ≠ s0 * s1 * s2 then throw .valueError
    let nodes ← interpCol (← interpRows points ((innerIdx s0).map (· * s1 * s2))) 0
    let vals ← (innerIdx s0).mapM fun xi =>
      ySpline I shape points values s1 s2 nu.2.1 nu.2.2 p.2.1 p.2.2 xi
    pure (I nodes vals nu.1 p.1)
  | _ => throw .notImplemented

/-- binomial coefficient (Pascal recursion). -/
def choose : Nat → Nat → Nat
  | _, 0 => 1
  | 0, _ + 1 => 0
  | n + 1, k + 1 => choose n k + choose n (k + 1)

/-- table `[B_n, B_{n-1}, …, B_0]` of the complete Bell polynomials `B_m(x₁,…,x_m) = Σ_k B_{m,k}` by
`B_0 = 1`, `B_{n+1} = Σ_{i=0..n} C(n, i) · x_{i+1} · B_{n−i}` (`g : i ↦ x_i`; `g 0` unused). -/
def bellTable (g : Nat → K) : Nat → List K
  | 0 => [((1 : Nat) : K)]
  | n + 1 =>
    let prev := bellTable g n
    sumK ((List.range (n + 1)).map fun i =>
      match prev[i]? with
      | some b => ((choose n i : Nat) : K) * g (i + 1) * b
      | none => ((0 : Nat) : K)) :: prev

/-- complete Bell polynomial `B_n` (what `sum(bell(n, k, symbols) for k in 1..n)` evaluates to). -/
def completeBell (g : Nat → K) (n : Nat) : K :=
  match bellTable g n with
  | b :: _ => b
  | [] => ((1 : Nat) : K)

/-- `interpolate(..., method="cubic", use_log=True)`. -/
def interpLog (I : Interp1 K) (shape : List Nat) (points : List (List K)) (values : List K)
    (nu : Nat × Nat × Nat) (p : K × K × K) : Py K := do
  let lv := values.map Elem.log
  let f0 ← interpCubic I shape points lv (0, 0, 0) p
  let f := Elem.exp f0
  match nu with
  | (0, 0, 0) => pure f
  | (n + 1, 0, 0) => do
    let ds ← (List.range (n + 1)).mapM fun i => interpCubic I shape points lv (i + 1, 0, 0) p
    pure (f * completeBell (fun i => ds.getD (i - 1) ((0 : Nat) : K)) (n + 1))
  | (0, n + 1, 0) => do
    let ds ← (List.range (n + 1)).mapM fun i => interpCubic I shape points lv (0, i + 1, 0) p
    pure (f * completeBell (fun i => ds.getD (i - 1) ((0 : Nat) : K)) (n + 1))
  | (0, 0, n + 1) => do
    let ds ← (List.range (n + 1)).mapM fun i => interpCubic I shape points lv (0, 0, i + 1) p
    pure (f * completeBell (fun i => ds.getD (i - 1) ((0 : Nat) : K)) (n + 1))
  | _ => throw .notImplemented

/-- `get_points_along_axes()` in three dimensions. -/
def pointsAlongAxes (shape : List Nat) (points : List (List K)) : Py (List K × List K × List K) :=
  match shape with
  | [s0, s1, s2] => do
    let get (n d : Nat) : Py K := match points[n]? with
      | some r => (match r[d]? with | some x => pure x | none => throw PyErr.indexError)
      | none => throw PyErr.indexError
    let z ← (List.range s2).mapM fun k => get k 2
    let y ← (List.range s1).mapM fun j => do get (← flatIndex shape [0, j, 0]) 1
    let x ← (List.range s0).mapM fun i => do get (← flatIndex shape [i, 0, 0]) 0
    pure (x, y, z)
  | _ => throw .notImplemented

end numeric

end GridVerif.Cubic

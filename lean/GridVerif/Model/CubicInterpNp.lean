/-
  NumPy / SciPy / SymPy primitives used by the second *generated* file of `cubic.py`
  (`Gen/CubicInterp.lean`: `_HyperRectangleGrid.__init__`, `get_points_along_axes`, `interpolate` with its
  nested `z_spline` / `y_splines` / `x_spline`, `UniformGrid.__init__`, `Tensor1DGrids.__init__`).

  Conventions of the translation (harness/translate/cubic_grid.py, class `FnX`):
  * Python integers that come out of a subtraction (`self.shape[2] - 2`), of `coordinates_to_index` or of
    `range(a, b)` with such a bound are `Int`; slices and fancy indices take `Int` bounds with Python's
    meaning of negative values;
  * the three external callables are *parameters* of the generated definitions:
      `CubicSpline : Interp1 K`                       (`CubicSpline(nodes, values)(x, nu)`, one data column),
      `RegularGridInterpolator : String → InterpGrid K` (`method ↦` the 3-D interpolant),
      `bell : Nat → Nat → List K → K`                 (`bell(n, k, symbols).evalf(subs=…)`: the incomplete Bell
                                                       polynomial `B_{n,k}` at the values of the symbols);
    what SciPy / SymPy do *around* them (vectorisation over query points and data columns, argument
    validation, bounds check, lookup of the substituted symbols) is defined here and stays in the
    trusted base, exercised by the correspondence;
  * integer n-D arrays (`np.meshgrid` of `np.arange`s, `np.swapaxes`, `reshape`) are `NdI`: a shape and
    the entry as a function of the multi-index.
  No Mathlib import (the driver links this file).
-/
import GridVerif.Model.CubicNp

namespace GridVerif.Cubic
open GridVerif

/-! ### Python sequences -/

/-- bound of a Python slice on a sequence of length `len`: a negative bound counts from the end and is
clamped at 0 (bounds beyond the end are clamped by `drop` / `take`). -/
def pyBound (len : Nat) (i : Int) : Nat := if i < 0 then (i + (len : Int)).toNat else i.toNat

/-- `l[a:b]` for integer bounds. -/
def pySlice {α} (l : List α) (a b : Int) : List α := slice l (pyBound l.length a) (pyBound l.length b)

/-- an entry that must exist (`IndexError` otherwise). -/
def optGet {α} : Option α → Py α
  | some v => pure v
  | none => throw .indexError

/-- `a, b, c = t` (`ValueError` unless `t` has exactly three entries). -/
def unpack3 {α} : List α → Py (α × α × α)
  | [a, b, c] => pure (a, b, c)
  | _ => throw .valueError

/-- `sum([b₀, b₁, …])` for booleans: the number of `True`s. -/
def countTrue (bs : List Bool) : Nat := (bs.filter id).length

/-- `np.arange(a, b)` / `range(a, b)` for Python integers. -/
def npArangeZ (a b : Int) : List Int := pyRange a b 1

/-- `np.prod(shape)` for an integer array. -/
def prodZ (l : List Int) : Int := l.foldl (· * ·) 1

/-- SymPy's range syntax `symbols("x:" + str(n))`: the symbols `x0 … x(n-1)`. -/
def sympySymbolsRange (stem : String) (n : Nat) : List String := (List.range n).map fun i => stem ++ toString i

section numeric
variable {K : Type} [Add K] [Sub K] [Mul K] [Div K] [Neg K] [NatCast K] [Elem K]

/-! ### indexing of the `(N, D)` point array -/

/-- `A[a:b, d]`. -/
def npSliceCol (m : List (List K)) (a b : Int) (d : Nat) : Py (List K) := interpCol (pySlice m a b) d

/-- `A[idx, d]` for a sequence of integer row indices (negative ones count from the end, out of range raises
`IndexError`). -/
def npTakeCol (m : List (List K)) (idx : List Int) (d : Nat) : Py (List K) := do
  let rows ← idx.mapM fun i => optGet ((pyIdx m.length i).bind fun n => m[n]?)
  interpCol rows d

/-- `A.shape == (r, c)` for a 2-D array. -/
def mShapeIs (m : List (List K)) (r c : Nat) : Bool := m.length == r && m.all (·.length == c)

/-- `A.shape[1]`. -/
def mCols (m : List (List K)) : Nat := (m.headD []).length

/-- `Grid.__init__(points, weights)` (basegrid.py): the two arrays must have the same length. -/
def gridInit (points : List (List K)) (weights : List K) : Py (List (List K) × List K) :=
  if points.length != weights.length then throw .valueError else pure (points, weights)

/-! ### SciPy -/

/-- `CubicSpline(nodes, vals)(q, nu)` for 1-D data: one value per query point. -/
def splineCallV (I : Interp1 K) (nodes vals q : List K) (nu : Nat) : List K := q.map (I nodes vals nu)

/-- `CubicSpline(nodes, Y)(q, nu)` for 2-D data `Y` (one row per node, one column per data set): entry
`[i][j]` is the spline through column `j` at `q[i]`. -/
def splineCallM (I : Interp1 K) (nodes : List K) (vals : List (List K)) (q : List K) (nu : Nat) : List (List K) :=
  q.map fun x => (npTranspose vals).map fun col => I nodes col nu x

/-- `values.reshape(shape)` (C order; `ValueError` on a size mismatch). -/
def Nd.reshapeTo (v : List K) (shape : List Nat) : Py (Nd K) :=
  if v.length = numPoints shape then pure ⟨shape, v⟩ else throw .valueError

/-- a coordinate lies in the closed interval spanned by the first and last node of its axis. -/
def rgiInside [LT K] [DecidableLT K] (nodes : List K) (a : K) : Bool :=
  match nodes.head?, nodes.getLast? with
  | some f, some l => !(decide (a < minK f l)) && !(decide (maxK f l < a))
  | _, _ => false

/-- the interpolator called on one row of the `(M, 3)` query array: three coordinates, inside the box
(`bounds_error=True`), else `ValueError`. -/
def rgiRow [LT K] [DecidableLT K] (R : InterpGrid K) (x y z vals : List K) (p : List K) : Py K :=
  match p with
  | [a, b, c] =>
    if rgiInside x a && rgiInside y b && rgiInside z c then pure (R x y z vals (a, b, c))
    else throw PyErr.valueError
  | _ => throw PyErr.valueError

/-- `RegularGridInterpolator((x, y, z), values, method=method)` followed by the call on an `(M, 3)` array:
the constructor wants one node array per dimension of `values` with matching lengths (`ValueError`), the call is
`rgiRow` on every row. -/
def rgiMake [LT K] [DecidableLT K] (R : String → InterpGrid K) (nodes : List (List K)) (vals : Nd K) (method : String) :
    Py (List (List K) → Py (List K)) :=
  if nodes.map List.length = vals.shape then
    match nodes with
    | [x, y, z] => pure fun pts => pts.mapM (rgiRow (R method) x y z vals.data)
    | _ => throw .valueError
  else throw .valueError

/-! ### SymPy -/

/-- `bell(n, k, symbols).evalf(subs=values)` turned into a float: every symbol must have a value
(`float()` of an expression with a free symbol raises `TypeError`). -/
def bellEvalf (bell : Nat → Nat → List K → K) (n k : Nat) (syms : List String) (subs : List (String × K)) : Py K := do
  let vals ← syms.mapM fun s => match subs.lookup s with
    | some v => pure v
    | none => throw PyErr.typeError
  pure (bell n k vals)

/-- the incomplete Bell polynomial `B_{n,k}(x₁, x₂, …)` by
`B_{0,0} = 1`, `B_{n,0} = B_{0,k} = 0`, `B_{n+1,k+1} = Σ_{i=0..n} C(n,i) · x_{i+1} · B_{n−i,k}`. -/
def bellPartial (x : Nat → K) : Nat → Nat → K
  | 0, n => if n = 0 then ((1 : Nat) : K) else ((0 : Nat) : K)
  | _ + 1, 0 => ((0 : Nat) : K)
  | k + 1, n + 1 => sumK ((List.range (n + 1)).map fun i => ((choose n i : Nat) : K) * x (i + 1) * bellPartial x k (n - i))

/-- the executable stand-in for SymPy's `bell(n, k, symbols)` evaluated at `vals = [x₁, x₂, …]`. -/
def sympyBell (n k : Nat) (vals : List K) : K := bellPartial (fun i => vals.getD (i - 1) ((0 : Nat) : K)) k n

end numeric

/-! ### integer n-D arrays as functions of the multi-index -/

/-- an integer n-D array: shape and entry at a multi-index. -/
structure NdI where
  shape : List Nat
  get : List Nat → Nat

/-- swap the entries `i` and `j` of a list. -/
def swapIdx {α} (l : List α) (i j : Nat) : List α :=
  match l[i]?, l[j]? with
  | some a, some b => (l.set i b).set j a
  | _, _ => l

/-- `np.array(np.meshgrid(v₀, v₁, …))` with the default `indexing="xy"`: shape `(D, n₁, n₀, n₂, …)`, entry
`[d, c]` is `v_d[c'[d]]` where `c'` is `c` with its first two entries swapped. -/
def npMeshgridXY (vs : List (List Nat)) : NdI :=
  ⟨vs.length :: swapIdx (vs.map List.length) 0 1,
   fun c => match c with
     | d :: rest => (vs.getD d []).getD ((swapIdx rest 0 1).getD d 0) 0
     | [] => 0⟩

/-- `np.swapaxes(a, i, j)`. -/
def NdI.swapaxes (a : NdI) (i j : Nat) : NdI := ⟨swapIdx a.shape i j, fun c => a.get (swapIdx c i j)⟩

/-- multi-indices of a shape in Fortran order (first index fastest). -/
def allCoordsF (shape : List Nat) : List (List Nat) := (allCoords shape.reverse).map List.reverse

/-- `a.reshape(r, -1)` (`fortran = false`) and `a.reshape(r, -1, order="F")` (`fortran = true`) for an
array whose leading axis has length `r`: row `d` lists the entries `a[d, …]` in C resp. Fortran order of the
remaining indices (the leading axis is slowest in C order and fastest in Fortran order, so it is preserved
in both). Any other `r` is outside the modelled use and raises. -/
def NdI.reshapeRows (a : NdI) (r : Nat) (fortran : Bool) : Py (List (List Nat)) :=
  match a.shape with
  | s :: rest =>
    if s = r then
      pure ((List.range r).map fun d => ((if fortran then allCoordsF rest else allCoords rest).map fun c => a.get (d :: c)))
    else throw .valueError
  | [] => throw .valueError

/-- `A.T` for an integer matrix given by its rows. -/
def nTranspose (a : List (List Nat)) : List (List Nat) :=
  (List.range (a.headD []).length).map fun d => a.filterMap (·[d]?)

/-! ### float n-D arrays as functions of the multi-index (`Tensor1DGrids.__init__`) -/

/-- multi-index of the flat position `L` in an array of the given shape, C order (last index fastest). -/
def unravelC : List Nat → Nat → List Nat
  | [], _ => []
  | _ :: rest, L => (L / numPoints rest) :: unravelC rest (L % numPoints rest)

section numeric
variable {K : Type} [Add K] [Sub K] [Mul K] [Div K] [Neg K] [NatCast K] [Elem K]

/-- a float n-D array: shape and entry at a multi-index. -/
structure NdF (K : Type) where
  shape : List Nat
  get : List Nat → K

/-- `np.vstack(np.meshgrid(v₀, v₁, …, indexing="ij"))`: the `D` arrays of shape `(n₀, n₁, …)` (entry `v_d[c[d]]`) stacked
along the first axis: shape `(D·n₀, n₁, …)`, entry `[q, c₁, …]` is that of array `q / n₀` at `(q % n₀, c₁, …)`. -/
def npVstackMeshgridIJ (vs : List (List K)) : NdF K :=
  ⟨(vs.length * (vs.headD []).length) :: (vs.drop 1).map List.length,
   fun c => match c with
     | q :: rest =>
       (vs.getD (q / (vs.headD []).length) []).getD (((q % (vs.headD []).length) :: rest).getD (q / (vs.headD []).length) 0) ((0 : Nat) : K)
     | [] => ((0 : Nat) : K)⟩

/-- `a.reshape(r, -1)` in C order: `r` rows of `size / r` consecutive entries (`ValueError` unless `r` divides the size). -/
def NdF.reshapeRowsC (a : NdF K) (r : Nat) : Py (List (List K)) :=
  if r = 0 ∨ numPoints a.shape % r ≠ 0 then throw .valueError
  else pure ((List.range r).map fun d => (List.range (numPoints a.shape / r)).map fun m =>
    a.get (unravelC a.shape (d * (numPoints a.shape / r) + m)))

end numeric

end GridVerif.Cubic

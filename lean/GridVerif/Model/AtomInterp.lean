/-
  C09 — hand model of the harmonic decomposition / interpolation routines of `grid/atomgrid.py`
  (`integrate_angular_coordinates`, `spherical_average`, `radial_component_splines`, `interpolate`
  with its inner `interpolate_low`, `convert_cartesian_to_spherical`) and of `MolGrid.interpolate`.

  Conventions.
  * NumPy arrays are functions of their index (`Nat → K`, `Nat → Nat → K`) together with explicit sizes;
    sums run over explicit index ranges in index order (`sumTo`, `sumIco`).  No list default is ever
    consulted: a theorem that talks about entry `j` has `j` inside the range it sums over.
  * The real spherical harmonics and their angular derivatives are **parameters**
    `Y dYt dYp : Nat → K → K → K` (row ↦ azimuth θ ↦ polar angle φ ↦ value); they are property C08.
  * SciPy's `CubicSpline(x, y)` is a **parameter** `interp : List K → List K → K → Nat → K`
    (`interp x y` is the callable, second argument of the callable = order of the derivative).
  * `AngularGrid(degree = degrees[i], method = …)`, which the code rebuilds inside
    `integrate_angular_coordinates` (shells with `r < 1e-8`) and inside
    `convert_cartesian_to_spherical` (shells with `r == 0`), is the pair of tables `regenW`, `regenPts`.

  Generic in `K` (executable at `Float` in the driver, theorems at `ℝ`).  No Mathlib import.
  Tied to the code by correspondence (`harness/props/c09.py`).
-/
import GridVerif.Model.Elem

namespace GridVerif.AtomInterp

/-- a Cartesian point / a gradient. -/
structure Vec3 (K : Type) where
  x : K
  y : K
  z : K

/-- spherical coordinates `(r, θ, φ)`: radius, azimuth, polar angle. -/
structure Sph (K : Type) where
  r : K
  theta : K
  phi : K

/-- exceptions raised by the modelled code. -/
inductive Err where
  | valueError
  | indexError
  deriving DecidableEq, Repr

/-- the row `(x, y, z)` of an `(N, 3)` array. -/
def Vec3.tup {K : Type} (v : Vec3 K) : K × K × K := (v.x, v.y, v.z)

/-- component `k` (column index of an `(N, 3)` array) of a point; columns `≥ 2` read `z`
(only `k < 3` is ever asked for). -/
def Vec3.comp {K : Type} (v : Vec3 K) (k : Nat) : K :=
  match k with
  | 0 => v.x
  | 1 => v.y
  | _ => v.z

/-- the row `(r, θ, φ)` read as spherical coordinates. -/
def Sph.ofTup {K : Type} (t : K × K × K) : Sph K := ⟨t.1, t.2.1, t.2.2⟩

/-- A NumPy array of floats as the generated array code sees it: its shape and its entries in C order. -/
structure NdArr (K : Type) where
  shape : List Nat
  flat : Nat → K

/-- `a.ndim`. -/
def NdArr.ndim {K : Type} (a : NdArr K) : Nat := a.shape.length

/-- `a.size`. -/
def NdArr.size {K : Type} (a : NdArr K) : Nat := a.shape.foldl (· * ·) 1

/-- row `j` of a two-dimensional array with (at least) three columns, as a triple. -/
def NdArr.row3 {K : Type} (a : NdArr K) (j : Nat) : K × K × K :=
  let c := a.shape.getD 1 0
  (a.flat (c * j), a.flat (c * j + 1), a.flat (c * j + 2))

/-- the `(n, 3)` array whose rows are the points `P 0, …, P (n-1)`. -/
def NdArr.ofRows {K : Type} (n : Nat) (P : Nat → Vec3 K) : NdArr K :=
  ⟨[n, 3], fun t => (P (t / 3)).comp (t % 3)⟩

/-- the same data as a one-dimensional array of length `3 n` (what a caller hands over as a single point `(3,)`). -/
def NdArr.ofRowsFlat {K : Type} (n : Nat) (P : Nat → Vec3 K) : NdArr K :=
  ⟨[3 * n], fun t => (P (t / 3)).comp (t % 3)⟩

/-- `a.reshape(dims)` in C order (the data do not move): at most one entry `-1` (inferred), no other negative
entry, the sizes must agree; `none` = `ValueError`. -/
def pyReshape {K : Type} (a : NdArr K) (dims : List Int) : Option (NdArr K) :=
  let known := dims.filter (fun d => d != -1)
  if dims.any (fun d => decide (d < -1)) || decide (known.length + 1 < dims.length) then none else
  let prod := known.foldl (fun p d => p * d.toNat) 1
  if known.length = dims.length then
    (if prod = a.size then some { a with shape := dims.map Int.toNat } else none)
  else if prod = 0 ∨ a.size % prod ≠ 0 then none
  else some { a with shape := dims.map fun d => if d = -1 then a.size / prod else d.toNat }

/-- `old[c:] = new[c:]` on rows of three columns (`X[a:b, c:] = Y[:, c:]`, row by row). -/
def colsFrom {K : Type} (c : Nat) (old new : K × K × K) : K × K × K :=
  match c with
  | 0 => new
  | 1 => (old.1, new.2.1, new.2.2)
  | 2 => (old.1, old.2.1, new.2.2)
  | _ => old

section numeric
variable {K : Type} [Add K] [Sub K] [Mul K] [Div K] [Neg K] [NatCast K] [Elem K]

/-- `np.sum(g[0:n])`, in index order. -/
def sumTo (n : Nat) (g : Nat → K) : K :=
  (List.range n).foldl (fun acc k => acc + g k) ((0 : Nat) : K)

/-- `np.sum(g[a:b])` for `a ≤ b`. -/
def sumIco (a b : Nat) (g : Nat → K) : K := sumTo (b - a) (fun k => g (a + k))

/-- What the routines read of an `AtomGrid`. Entries inside the ranges named are meaningful. -/
structure AGrid (K : Type) where
  /-- `n_shells = len(degrees)` -/
  nShells : Nat
  /-- `rgrid.points[i]`, `i < nShells` -/
  r : Nat → K
  /-- `rgrid.weights[i]` -/
  w : Nat → K
  /-- `degrees[i]` (the degrees actually used) -/
  deg : Nat → Nat
  /-- `indices[i]`, `i ≤ nShells` -/
  idx : Nat → Nat
  /-- `weights[j]`, `j < indices[nShells]` -/
  wts : Nat → K
  /-- `points[j]` (centre already added) -/
  pts : Nat → Vec3 K
  /-- `center` -/
  center : Vec3 K
  /-- `AngularGrid(degree=degrees[i], method=method).weights[k]` -/
  regenW : Nat → Nat → K
  /-- `AngularGrid(degree=degrees[i], method=method).points[k]` -/
  regenPts : Nat → Nat → Vec3 K

/-- `self.points` as an array of shape `(N, 3)`. -/
def AGrid.pointsArr (g : AGrid K) : NdArr K := NdArr.ofRows (g.idx g.nShells) g.pts

/-- number of points of shell `i`: `indices[i+1] - indices[i]`. -/
def AGrid.size (g : AGrid K) (i : Nat) : Nat := g.idx (i + 1) - g.idx i

/-- total number of points. -/
def AGrid.npts (g : AGrid K) : Nat := g.idx g.nShells

/-- `l_max = np.max(degrees)`. -/
def AGrid.lMax (g : AGrid K) : Nat :=
  (List.range g.nShells).foldl (fun m i => max m (g.deg i)) 0

/-- number of harmonics rows up to degree `L`: `(L + 1)²`. -/
def nRows (L : Nat) : Nat := (L + 1) * (L + 1)

/-- the literal `1e-8`. -/
def tiny8 : K := ((1 : Nat) : K) / ((100000000 : Nat) : K)

/-- the literal `1e-10`. -/
def tiny10 : K := ((1 : Nat) : K) / ((10000000000 : Nat) : K)

variable [LT K] [DecidableLT K]

/-- `np.sum(prod_value[indices[i]:indices[i+1]])` with `prod_value = func_vals * self.weights`. -/
def shellSum (g : AGrid K) (f : Nat → K) (i : Nat) : K :=
  sumIco (g.idx i) (g.idx (i + 1)) (fun j => f j * g.wts j)

/-- `integrate_angular_coordinates(func_vals)[i]`:
the shell sum divided by `rgrid.points**2 * rgrid.weights`; for `rgrid.points[i] < 1e-8` the value is
overwritten by `np.sum(func_vals[indices[i]:indices[i+1]] * AngularGrid(degree_i).weights)`. -/
def integrateAngular (g : AGrid K) (f : Nat → K) (i : Nat) : K :=
  if g.r i < tiny8 then sumTo (g.size i) (fun k => f (g.idx i + k) * g.regenW i k)
  else shellSum g f i / (g.r i * g.r i * g.w i)

/-- `grid.integrate(func_vals)`: the full quadrature sum. -/
def gridIntegral (g : AGrid K) (f : Nat → K) : K := sumTo g.npts (fun j => f j * g.wts j)

/-- `Σ_i r_i² w_i · a_i`: putting the radial factors back on per-shell angular integrals. -/
def reweightedSum (g : AGrid K) (a : Nat → K) : K :=
  sumTo g.nShells (fun i => g.r i * g.r i * g.w i * a i)

/-- Python truthiness of `x != 0.0` for a number (nan is outside the model, DESIGN 3). -/
def nonzero (x : K) : Prop := x < ((0 : Nat) : K) ∨ ((0 : Nat) : K) < x

instance (x : K) : Decidable (nonzero x) := by unfold nonzero; infer_instance

/-- `utils.convert_cart_to_sph(points, center)` for one point: `r = ‖p − c‖`,
`φ = arccos(z / r)` with `φ = 0` where `r == 0`, `θ = arctan2(y, x)`. -/
def cartToSph (c p : Vec3 K) : Sph K :=
  let dx := p.x - c.x
  let dy := p.y - c.y
  let dz := p.z - c.z
  let r := Elem.sqrt ((dx * dx + dy * dy) + dz * dz)
  { r := r
    theta := Elem.arctan2 dy dx
    phi := if nonzero r then Elem.arccos (dz / r) else ((0 : Nat) : K) }

/-- the origin (`center=None` of `convert_cart_to_sph`). -/
def origin : Vec3 K := ⟨((0 : Nat) : K), ((0 : Nat) : K), ((0 : Nat) : K)⟩

/-- `self.convert_cartesian_to_spherical()` (no argument: the atomic grid points), angles only,
for the flat point `j`: the angles of `points[j]` about the centre, then, shell by shell in increasing
order, for every shell with `rgrid.points[i] == 0.0` the slice `indices[i]:indices[i+1]` is overwritten
by the angles of the freshly built, unrotated angular grid of that degree. -/
def gridAngles (g : AGrid K) : Nat → K × K :=
  (List.range g.nShells).foldl
    (fun acc i =>
      if nonzero (g.r i) then acc
      else fun j =>
        if g.idx i ≤ j ∧ j < g.idx (i + 1) then
          let s := cartToSph origin (g.regenPts i (j - g.idx i))
          (s.theta, s.phi)
        else acc j)
    (fun j => let s := cartToSph g.center (g.pts j); (s.theta, s.phi))

/-- `self._basis[row, j] = generate_real_spherical_harmonics(l_max // 2, theta, phi)[row, j]`. -/
def basis (g : AGrid K) (Y : Nat → K → K → K) (row j : Nat) : K :=
  Y row (gridAngles g j).1 (gridAngles g j).2

/-- `radial_components[row, i]` of `radial_component_splines`, given the basis array:
`integrate_angular_coordinates(basis * func_vals)`, then, on every shell whose degree is not `l_max`,
the rows from `(degrees[i] // 2 + 1)²` on are set to zero.  Rows: `row < nRows (lMax / 2)`. -/
def radialComponents (g : AGrid K) (bas : Nat → Nat → K) (f : Nat → K) (row i : Nat) : K :=
  if g.deg i ≠ g.lMax ∧ nRows (g.deg i / 2) ≤ row then ((0 : Nat) : K)
  else integrateAngular g (fun j => bas row j * f j) i

/-- `x = rgrid.points` as handed to `CubicSpline`. -/
def nodes (g : AGrid K) : List K := (List.range g.nShells).map g.r

/-- `CubicSpline(x=rgrid.points, y=radial_components[row])`. -/
def componentSpline (interp : List K → List K → K → Nat → K) (g : AGrid K)
    (comps : Nat → Nat → K) (row : Nat) : K → Nat → K :=
  interp (nodes g) ((List.range g.nShells).map (comps row))

/-- `radial_component_splines(func_vals)[row]`. -/
def radialComponentSplines (interp : List K → List K → K → Nat → K) (g : AGrid K)
    (Y : Nat → K → K → K) (f : Nat → K) (row : Nat) : K → Nat → K :=
  componentSpline interp g (radialComponents g (basis g Y) f) row

/-- `f_radial` of `spherical_average`: `integrate_angular_coordinates(func_vals) / (4.0 * np.pi)`. -/
def averageValues (g : AGrid K) (f : Nat → K) (i : Nat) : K :=
  integrateAngular g f i / (((4 : Nat) : K) * Elem.pi)

/-- `spherical_average(func_vals)`. -/
def sphericalAverage (interp : List K → List K → K → Nat → K) (g : AGrid K) (f : Nat → K) :
    K → Nat → K :=
  interp (nodes g) ((List.range g.nShells).map (averageValues g f))

/-- `∫ a(r) 4π r² dr` on the radial grid: `rgrid.integrate(4 π r² a(r))`. -/
def radialIntegral4pi (g : AGrid K) (a : K → K) : K :=
  sumTo g.nShells (fun i => (((4 : Nat) : K) * Elem.pi * (g.r i * g.r i) * a (g.r i)) * g.w i)

/-- `utils.convert_derivative_from_spherical_to_cartesian(dr, dθ, dφ, r, θ, φ)`: the matrix
```
 [cosθ sinφ,  -sinθ/(r sinφ),  cosθ cosφ / r]
 [sinθ sinφ,   cosθ/(r sinφ),  sinθ cosφ / r]
 [cosφ,        0,              -sinφ / r    ]
```
with columns 2 and 3 zeroed when `|r| < 1e-10` and column 2 zeroed when `|φ| < 1e-10`,
applied to `(dr, dθ, dφ)`. -/
def sphToCartDeriv (dr dt dp r theta phi : K) : Vec3 K :=
  let z : K := ((0 : Nat) : K)
  let ct := Elem.cos theta
  let st := Elem.sin theta
  let cp := Elem.cos phi
  let sp := Elem.sin phi
  let rsmall : Prop := Elem.abs r < tiny10
  let psmall : Prop := Elem.abs phi < tiny10
  let j01 := if rsmall ∨ psmall then z else -st / (r * sp)
  let j11 := if rsmall ∨ psmall then z else ct / (r * sp)
  let j21 := z
  let j02 := if rsmall then z else ct * cp / r
  let j12 := if rsmall then z else st * cp / r
  let j22 := if rsmall then z else -sp / r
  { x := (ct * sp * dr + j01 * dt) + j02 * dp
    y := (st * sp * dr + j11 * dt) + j12 * dp
    z := (cp * dr + j21 * dt) + j22 * dp }

/-- what `interpolate_low` has in hand for one evaluation point: its spherical coordinates,
`spline(r, deriv)` and `spline(r, 0)` per row, and the rows of the harmonics and of their
θ- and φ-derivatives at `(θ, φ)`. -/
structure PtData (K : Type) where
  sph : Sph K
  sNu : Nat → K
  s0 : Nat → K
  y : Nat → K
  dyt : Nat → K
  dyp : Nat → K

/-- `np.einsum("ij, ij -> j", a, b)[pt]`. -/
def contract (nrows : Nat) (a b : Nat → K) : K := sumTo nrows (fun row => a row * b row)

/-- The body of `interpolate_low` after the tables have been evaluated; answer = (shape, flat data
in C order).
* `deriv == 1` and not `only_radial_deriv`: `deriv_r = Σ s'·Y`, `deriv_theta = Σ s·∂θY`,
  `deriv_phi = Σ s·∂φY`; `deriv_spherical` returns `np.hstack` of the three 1-D arrays (one flat array
  of length `3M`: all `deriv_r`, then all `deriv_theta`, then all `deriv_phi`), otherwise an `(M, 3)`
  array of `convert_derivative_from_spherical_to_cartesian` per point;
* not `only_radial_deriv` and `deriv ∉ {0, 1}`: `ValueError`;
* otherwise `Σ spline(r, deriv)·Y`. -/
def assemble (nrows : Nat) (pts : List (PtData K)) (deriv : Nat) (derivSpherical onlyRadial : Bool) :
    Except Err (List Nat × List K) :=
  if !onlyRadial && deriv == 1 then
    let dr := fun (p : PtData K) => contract nrows p.sNu p.y
    let dt := fun (p : PtData K) => contract nrows p.s0 p.dyt
    let dp := fun (p : PtData K) => contract nrows p.s0 p.dyp
    if derivSpherical then
      .ok ([3 * pts.length], pts.map dr ++ pts.map dt ++ pts.map dp)
    else
      .ok ([pts.length, 3], pts.flatMap fun p =>
        let v := sphToCartDeriv (dr p) (dt p) (dp p) p.sph.r p.sph.theta p.sph.phi
        [v.x, v.y, v.z])
  else if !onlyRadial && deriv != 0 then .error .valueError
  else .ok ([pts.length], pts.map fun p => contract nrows p.sNu p.y)

/-- the tables of `interpolate_low` for one point: `convert_cartesian_to_spherical(points)`, the splines
at `r` (orders `deriv` and `0`), the harmonics and their derivatives up to `l_max // 2` at `(θ, φ)`. -/
def ptData (S : Nat → K → Nat → K) (Y dYt dYp : Nat → K → K → K) (c : Vec3 K) (deriv : Nat)
    (p : Vec3 K) : PtData K :=
  let q := cartToSph c p
  { sph := q
    sNu := fun row => S row q.r deriv
    s0 := fun row => S row q.r 0
    y := fun row => Y row q.theta q.phi
    dyt := fun row => dYt row q.theta q.phi
    dyp := fun row => dYp row q.theta q.phi }

/-- `interpolate_low(points, deriv, deriv_spherical, only_radial_deriv)` for splines `S`,
`L = l_max // 2`, centre `c`. -/
def interpolateLow (S : Nat → K → Nat → K) (Y dYt dYp : Nat → K → K → K) (L : Nat) (c : Vec3 K)
    (points : List (Vec3 K)) (deriv : Nat) (derivSpherical onlyRadial : Bool) :
    Except Err (List Nat × List K) :=
  assemble (nRows L) (points.map (ptData S Y dYt dYp c deriv)) deriv derivSpherical onlyRadial

/-- `AtomGrid.interpolate(func_vals)`. -/
def interpolate (interp : List K → List K → K → Nat → K) (g : AGrid K) (Y dYt dYp : Nat → K → K → K)
    (f : Nat → K) :
    List (Vec3 K) → Nat → Bool → Bool → Except Err (List Nat × List K) :=
  interpolateLow (radialComponentSplines interp g Y f) Y dYt dYp (g.lMax / 2) g.center

/-- the value of the interpolant at spherical coordinates `q`: `Σ_row S_row(r)·Y_row(θ, φ)`. -/
def interpolantAt (S : Nat → K → Nat → K) (Y : Nat → K → K → K) (L : Nat) (q : Sph K) : K :=
  contract (nRows L) (fun row => S row q.r 0) (fun row => Y row q.theta q.phi)

/-! ## `MolGrid.interpolate` -/

/-- What `MolGrid.interpolate` reads: the stored atomic grids, the molecular `indices`, `aim_weights`. -/
structure MGrid (K : Type) where
  nAtoms : Nat
  atom : Nat → AGrid K
  aidx : Nat → Nat
  aim : Nat → K

/-- `(func_vals * aim_weights)[indices[A]:indices[A+1]]`, re-indexed from 0. -/
def atomFuncVals (m : MGrid K) (f : Nat → K) (A : Nat) : Nat → K :=
  fun j => f (m.aidx A + j) * m.aim (m.aidx A + j)

/-- `output += other` on arrays of one shape. -/
def addOut (a b : List K) : List K := List.zipWith (· + ·) a b

/-- the loop of the inner `interpolate_low` of `MolGrid.interpolate`: the output of atom 0, then
`output += interpolate_A(...)` for `A = 1, …`; `outs A` is what atom `A`'s interpolant returned. -/
def molCombine (nAtoms : Nat) (outs : Nat → Except Err (List Nat × List K)) :
    Except Err (List Nat × List K) :=
  (List.range (nAtoms - 1)).foldl
    (fun acc A => do
      let a ← acc
      let b ← outs (A + 1)
      pure (a.1, addOut a.2 b.2))
    (outs 0)

/-- `MolGrid.interpolate(func_vals)(points, deriv, deriv_spherical, only_radial_derivs)`. -/
def molInterpolate (interp : List K → List K → K → Nat → K) (m : MGrid K) (Y dYt dYp : Nat → K → K → K)
    (f : Nat → K) (points : List (Vec3 K)) (deriv : Nat) (derivSpherical onlyRadial : Bool) :
    Except Err (List Nat × List K) :=
  molCombine m.nAtoms fun A =>
    interpolate interp (m.atom A) Y dYt dYp (atomFuncVals m f A) points deriv derivSpherical onlyRadial

end numeric

end GridVerif.AtomInterp

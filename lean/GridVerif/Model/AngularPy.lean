/-
  Python / NumPy primitives that the *generated* decision logic of `angular.py`
  (`Gen/AngularLogic.lean`, written by harness/translate/angular_logic.py) is expressed in.

  Hand-written and trusted: this file says what `bisect_left`, `dict` lookup / `in`,
  `max`, `list[i]`, `np.unique`, `np.zeros`, `sizes == size`, `a[np.where(mask)] = v`,
  `isinstance(x, int | np.integer)`, the comparisons and an f-string field mean.  The bisect
  loop, the association-list dict and the largest key are those of `Model/Bisect.lean`.

  Everything that raises in Python raises here (`Except PyErr`); nothing is defaulted.  An
  argument that is neither `None` nor an instance of `int | np.integer` (a float, a string,
  `np.bool_`, …) is `Val.other`; every operation on it other than `is None` / `isinstance`
  answers `unmodelled`, and `Props/C12.lean` proves that the generated code never reaches
  such an operation (`gen_never_unmodelled`).
  No Mathlib import (the driver links this file).
-/
import GridVerif.Model.Bisect

namespace GridVerif.AngularPy
open GridVerif.Bisect

/-- The Python exceptions the modelled code can raise (`osError`: `np.load` of a file that does
not exist; `unmodelled`: an operation whose Python meaning this file does not define). -/
inductive PyErr
  | valueError | typeError | indexError | keyError | osError | unmodelled
  deriving DecidableEq, Repr

abbrev Py := Except PyErr

def PyErr.tag : PyErr → String
  | .valueError => "value-error"
  | .typeError => "type-error"
  | .indexError => "index-error"
  | .keyError => "key-error"
  | .osError => "os-error"
  | .unmodelled => "unmodelled"

/-- A scalar argument as the decision logic sees it: `None`, an instance of
`int | np.integer` (Python `bool` is an `int`: `True` is `1`), or anything else. -/
inductive Val
  | none
  | int (i : Int)
  | other
  deriving DecidableEq, Repr

/-- A dict `{key: value}` of naturals in insertion order. -/
abbrev Tbl := List (Nat × Nat)

/-- `x is None`. -/
def pyIsNone : Val → Bool
  | .none => true
  | _ => false

/-- `isinstance(x, int | np.integer)`. -/
def pyIsInteger : Val → Bool
  | .int _ => true
  | _ => false

/-- Ordering comparison of two scalars; `None` against a number is a `TypeError`. -/
def pyCmp (op : Int → Int → Bool) (a b : Val) : Py Bool :=
  match a, b with
  | .int x, .int y => pure (op x y)
  | .other, _ => throw .unmodelled
  | _, .other => throw .unmodelled
  | _, _ => throw .typeError

def pyLt : Val → Val → Py Bool := pyCmp (fun x y => decide (x < y))
def pyGt : Val → Val → Py Bool := pyCmp (fun x y => decide (x > y))
def pyLe : Val → Val → Py Bool := pyCmp (fun x y => decide (x ≤ y))
def pyGe : Val → Val → Py Bool := pyCmp (fun x y => decide (x ≥ y))

/-- `a != b` (never raises for `None` / integers). -/
def pyNe (a b : Val) : Py Bool :=
  match a, b with
  | .other, _ => throw .unmodelled
  | _, .other => throw .unmodelled
  | a, b => pure (a != b)

/-- `a == b`. -/
def pyEq (a b : Val) : Py Bool :=
  match a, b with
  | .other, _ => throw .unmodelled
  | _, .other => throw .unmodelled
  | a, b => pure (a == b)

/-- `a and b` (short circuit: `b` is only looked at when `a` is true). -/
def pyAnd (a b : Py Bool) : Py Bool := a >>= fun x => if x then b else pure false

/-- `a or b`. -/
def pyOr (a b : Py Bool) : Py Bool := a >>= fun x => if x then pure true else b

/-- `not a`. -/
def pyNot (a : Py Bool) : Py Bool := a >>= fun x => pure (!x)

/-- `list(d.keys())`: the keys in insertion order. -/
def pyKeys (d : Tbl) : List Nat := keys d

/-- `max(l)`; `ValueError` on an empty list. -/
def pyMax (l : List Nat) : Py Val :=
  if l.isEmpty then throw .valueError else pure (.int (maxKey l))

/-- `x in d` for a dict. -/
def pyInDict (x : Val) (d : Tbl) : Py Bool :=
  match x with
  | .none => pure false
  | .other => throw .unmodelled
  | .int i => pure (decide (0 ≤ i) && (keys d).contains i.toNat)

/-- `d[x]`; `KeyError` when absent. -/
def pyDictGet (d : Tbl) (x : Val) : Py Val :=
  match x with
  | .other => throw .unmodelled
  | .none => throw .keyError
  | .int i =>
    if 0 ≤ i then
      match lookup d i.toNat with
      | some v => pure (.int v)
      | none => throw .keyError
    else throw .keyError

/-- `bisect.bisect_left(l, x)` (the loop of `Model/Bisect.lean`; every entry of `l` is a
natural, so a negative `x` is not above any entry and the loop ends at `0`). -/
def pyBisectLeft (l : List Nat) (x : Val) : Py Val :=
  match x with
  | .other => throw .unmodelled
  | .none => throw .typeError
  | .int i => pure (.int (if 0 ≤ i then (bisectLeft l i.toNat : Nat) else 0))

/-- `l[i]` for a list; a negative index counts from the end, out of range is `IndexError`. -/
def pyListGet (l : List Nat) (i : Val) : Py Val :=
  match i with
  | .other => throw .unmodelled
  | .none => throw .typeError
  | .int i =>
    let j : Int := if 0 ≤ i then i else i + (l.length : Int)
    if 0 ≤ j then
      match l[j.toNat]? with
      | some v => pure (.int v)
      | none => throw .indexError
    else throw .indexError

/-- `str.lower()`. -/
def pyLower (s : String) : String := s.toLower

/-- A replacement field `{x}` of an f-string. -/
def pyFmt (x : Val) : Py String :=
  match x with
  | .other => throw .unmodelled
  | .none => pure "None"
  | .int i => pure (toString i)

/-- `np.zeros(n, dtype=int)`. -/
def npZerosInt (n : Nat) : List Int := List.replicate n 0

/-- Insert into an ascending duplicate-free list. -/
def insertUniq (x : Int) : List Int → List Int
  | [] => [x]
  | y :: t => if x < y then x :: y :: t else if x = y then y :: t else y :: insertUniq x t

/-- `np.unique(a)` of an integer array: the distinct entries in ascending order
(each an `np.integer`). -/
def npUnique (a : List Int) : List Val := (a.foldr insertUniq []).map Val.int

/-- `a == v` for an integer array and a scalar: element-wise mask. -/
def npEqScalar (a : List Int) (v : Val) : Py (List Bool) :=
  match v with
  | .int x => pure (a.map fun t => t == x)
  | _ => throw .unmodelled

/-- `a[np.where(mask)] = v` for an integer array `a`; returns the updated array. -/
def npAssignWhere (a : List Int) (mask : List Bool) (v : Val) : Py (List Int) :=
  match v with
  | .other => throw .unmodelled
  | .none => throw .typeError
  | .int x =>
    if mask.length = a.length then pure (List.zipWith (fun t m => if m then x else t) a mask)
    else throw .indexError

end GridVerif.AngularPy

/-
  C06 — hand model of `grid/becke.py` (`BeckeWeights`) and of `HirshfeldWeights.__call__`.

  Two layers.
  * numeric (generic `K`, executable at `Float`, theorems at `ℝ`): distance, `mu`, the generated
    `alpha`/`nu`/`s` formulas (`Gen/Becke.lean`), cell products, normalisation, radius fall-back;
  * index layer (generic in the point type `P` and in the weight function `w : P → Nat → K`):
    `generate_weights`, `compute_weights`, `compute_atom_weight`, the chunk loop of `__call__` with
    Python slice semantics, `HirshfeldWeights.__call__`.

  NumPy array statements are modelled entry by entry: `weights[a:b] += col[a:b]` executed for the sectors in
  order becomes, for the entry `j`, a left fold over the sectors that adds the sector's value iff `j` lies in
  the (Python-normalised) slice.  The `nan -> 1` of the diagonal `0/0` is "skip `B = A`".
  Tied to the code by correspondence (`harness/props/c06.py`).  No Mathlib.
-/
import GridVerif.Model.Elem
import GridVerif.Gen.Becke

namespace GridVerif.Becke
open GridVerif.Gen.Becke

/-- a point of space, `atcoords[i]` / `points[j]`. -/
structure V3 (K : Type) where
  x : K
  y : K
  z : K

/-- exceptions the modelled code raises. -/
inductive Err where
  | valueError
  | indexError
  | keyError
  | zeroDivision
  | typeError
  | fileNotFound
  deriving DecidableEq, Repr

/-! ## numeric layer -/
section numeric
variable {K : Type} [Add K] [Sub K] [Mul K] [Div K] [Neg K] [NatCast K] [Elem K]

/-- `np.linalg.norm(a - b, axis=-1)`. -/
def dist3 (a b : V3 K) : K :=
  Elem.sqrt (((a.x - b.x) * (a.x - b.x) + (a.y - b.y) * (a.y - b.y)) + (a.z - b.z) * (a.z - b.z))

/-- `np.sum(…, axis=-1)` over the atom axis. -/
def sumRange (M : Nat) (g : Nat → K) : K :=
  (List.range M).foldl (fun acc i => acc + g i) ((0 : Nat) : K)

/-- `np.prod(…, axis=-1)` over the atom axis, the diagonal entry (`nan -> 1`) skipped. -/
def prodSkip (M A : Nat) (g : Nat → K) : K :=
  (List.range M).foldl (fun acc B => if B = A then acc else acc * g B) ((1 : Nat) : K)

/-- the call `alpha = _calculate_alpha(…)` and the two formulas `v_pp = …`, `s_ab = …`; the source holds two copies
of them.  `s v order`: `order` is `self._order` (what the copy passes on to `_switch_func` is generated text). -/
structure Route (K : Type) where
  alpha : K → K → K
  nu : K → K → K
  s : K → Nat → K

/-- a molecule: number of atoms, positions, (effective) radii; entries `< natom` are meaningful. -/
structure Mol (K : Type) where
  natom : Nat
  pos : Nat → V3 K
  rad : Nat → K

variable [LT K] [DecidableLT K]

/-- the copy in `generate_weights`. -/
def routeGW : Route K := ⟨alpha, nuGW, sGW⟩
/-- the copy in `compute_atom_weight(…, cutoff)`. -/
def routeCAW (cutoff : K) : Route K := ⟨fun ra rb => alphaCAW ra rb cutoff, nuCAW, sCAW⟩

/-- `mu_p_n_n[p, A, B] = (|R_A - p| - |R_B - p|) / |R_A - R_B|`. -/
def mu (m : Mol K) (p : V3 K) (A B : Nat) : K :=
  (dist3 (m.pos A) p - dist3 (m.pos B) p) / dist3 (m.pos A) (m.pos B)

/-- `s_ab[p, A, B]` before the product. -/
def sPair (r : Route K) (m : Mol K) (order : Nat) (p : V3 K) (A B : Nat) : K :=
  r.s (r.nu (mu m p A B) (r.alpha (m.rad A) (m.rad B))) order

/-- `np.prod(s_ab, axis=-1)[p, A]`. -/
def cell (r : Route K) (m : Mol K) (order : Nat) (p : V3 K) (A : Nat) : K :=
  prodSkip m.natom A (sPair r m order p A)

/-- `np.sum(s_ab, axis=-1)[p]`. -/
def cellSum (r : Route K) (m : Mol K) (order : Nat) (p : V3 K) : K :=
  sumRange m.natom (cell r m order p)

/-- `s_ab[p, A] / np.sum(s_ab, axis=-1)[p]`: the Becke weight of atom `A` at `p`. -/
def weight (r : Route K) (m : Mol K) (order : Nat) (p : V3 K) (A : Nat) : K :=
  cell r m order p A / cellSum r m order p

/-- `self._radii`: outer `none` = `KeyError`, inner `none` = nan. -/
abbrev RadDict (K : Type) := Nat → Option (Option K)

/-- the dictionary built by `__init__` from the shipped table. -/
def braggDict : RadDict K := fun z =>
  if z = 0 then none
  else (braggRadii[z - 1]?).map (Option.map fun pq => ((pq.1 : Nat) : K) / ((pq.2 : Nat) : K))

/-- `self._radii.update(radii)`. -/
def updateDict (d : RadDict K) (upd : List (Nat × Option K)) : RadDict K := fun z =>
  match upd.find? (fun e => e.1 == z) with
  | some e => some e.2
  | none => d z

/-- the radius used for atomic number `num`:
`r[num] if not isnan(r[num]) else nan_to_num(r[num-1]) or nan_to_num(r[num-2])`. -/
def effRadius (d : RadDict K) (num : Nat) : Except Err K :=
  match d num with
  | none => .error .keyError
  | some (some r) => .ok r
  | some none =>
    if num < 1 then .error .keyError else
    match d (num - 1) with
    | none => .error .keyError
    | some r1 =>
      let x := r1.getD ((0 : Nat) : K)          -- nan_to_num
      if x < ((0 : Nat) : K) ∨ ((0 : Nat) : K) < x then .ok x   -- truthy
      else if num < 2 then .error .keyError else
      match d (num - 2) with
      | none => .error .keyError
      | some r2 => .ok (r2.getD ((0 : Nat) : K))

end numeric

/-! ## index layer -/

/-- a Python slice bound `i` on a sequence of length `len`, normalised. -/
def pyNorm (len : Nat) (i : Int) : Nat :=
  if i < 0 then (if i + (len : Int) < 0 then 0 else (i + (len : Int)).toNat) else min i.toNat len

/-- `l[a:b]`. -/
def pySlice {α : Type} (l : List α) (a b : Int) : List α :=
  (l.take (pyNorm l.length b)).drop (pyNorm l.length a)

/-- does position `j` belong to `[a:b]` of a sequence of length `len`? -/
def inSlice (len : Nat) (a b : Int) (j : Nat) : Bool :=
  decide (pyNorm len a ≤ j ∧ j < pyNorm len b)

/-- a sector: slice bounds and the atom whose weight is written there. -/
abbrev Sector := (Int × Int) × Nat

/-- `generate_weights`: sector `i` is `pt_ind[i] : pt_ind[i+1]` with atom `select[i]`. -/
def secsZip (ptInd : List Int) (select : List Nat) : List Sector :=
  (ptInd.zip ptInd.tail).zip select

/-- `compute_weights` / Hirshfeld: `for i in select: pt_ind[i] : pt_ind[i+1]` with atom `i`
(the caller has checked `i + 1 < len(pt_ind)`). -/
def secsIdx (ptInd : List Int) (select : List Nat) : List Sector :=
  select.map fun i => ((ptInd.getD i 0, ptInd.getD (i + 1) 0), i)

section index
variable {P K : Type} [Add K] [NatCast K]

/-- entry `j` of `weights` after `weights[a:b] += value[a:b]` for every sector in turn, from zero. -/
def accumulate (w : P → Nat → K) (len : Nat) (secs : List Sector) (j : Nat) (p : P) : K :=
  secs.foldl (fun acc s => if inSlice len s.1.1 s.1.2 j then acc + w p s.2 else acc) ((0 : Nat) : K)

/-- entry `j` of `aim` after `aim[a:b] = value[a:b]` for every sector in turn, from zero. -/
def overwrite (w : P → Nat → K) (len : Nat) (secs : List Sector) (j : Nat) (p : P) : K :=
  secs.foldl (fun acc s => if inSlice len s.1.1 s.1.2 j then w p s.2 else acc) ((0 : Nat) : K)

/-- `BeckeWeights.generate_weights(points, atcoords, atnums, select=…, pt_ind=…)`;
`w p k` is the normalised cell value of atom `k` at `p`, `M` the number of atoms.
(`select` given as an integer is `[k]`.) -/
def generateWeights (w : P → Nat → K) (M : Nat) (points : List P)
    (select : Option (List Nat)) (ptInd : Option (List Int)) : Except Err (List K) :=
  let select := select.getD (List.range M)
  let ptInd := ptInd.getD []
  if ptInd.length = 1 then .error .valueError else
  let sectors := max (ptInd.length - 1) 1
  if sectors ≠ select.length then .error .valueError else
  if select.any (fun k => decide (M ≤ k)) then .error .indexError else
  if sectors = 1 then
    match select with
    | k :: _ => .ok (points.map fun p => w p k)
    | [] => .error .valueError
  else
    .ok (points.mapIdx fun j p => accumulate w points.length (secsZip ptInd select) j p)

/-- `BeckeWeights.compute_atom_weight(points, atcoords, atnums, select)`. -/
def computeAtomWeight (w : P → Nat → K) (M : Nat) (points : List P) (k : Nat) : Except Err (List K) :=
  if M ≤ k then .error .indexError else .ok (points.map fun p => w p k)

/-- `BeckeWeights.compute_weights(points, atcoords, atnums, select=…, pt_ind=…)`. -/
def computeWeights (w : P → Nat → K) (M : Nat) (points : List P)
    (select : Option (List Nat)) (ptInd : Option (List Int)) : Except Err (List K) :=
  let select := select.getD (List.range M)
  let ptInd := ptInd.getD []
  if ptInd.length = 1 then .error .valueError else
  let sectors := max (ptInd.length - 1) 1
  if sectors ≠ select.length then .error .valueError else
  if sectors = 1 then
    match select with
    | k :: _ => computeAtomWeight w M points k
    | [] => .error .valueError
  else
    if select.any (fun i => decide (ptInd.length ≤ i + 1)) then .error .indexError else
    if select.any (fun k => decide (M ≤ k)) then .error .indexError else
    .ok (points.mapIdx fun j p => accumulate w points.length (secsIdx ptInd select) j p)

/-- the chunk loop of `__call__`: `for ibegin in range(start, stop, step)` from `b` on,
`np.concatenate` of the chunk results. -/
def chunkLoop (w : P → Nat → K) (M : Nat) (points : List P) (indices : List Int) (c stop step : Nat) :
    Nat → Nat → Except Err (List K)
  | 0, _ => .ok []
  | fuel + 1, b =>
    if stop ≤ b then .ok [] else do
      let chunk ← generateWeights w M
        (pySlice points (sliceLo points.length c b) (sliceHi points.length c b))
        none (some (indices.map (shiftInd c b)))
      let rest ← chunkLoop w M points indices c stop step fuel (b + step)
      pure (chunk ++ rest)

/-- `__call__` with chunk size `c`. -/
def callWith (w : P → Nat → K) (M : Nat) (c : Nat) (points : List P) (indices : List Int) :
    Except Err (List K) :=
  let N := points.length
  let start := loopStart N c
  let stop := loopStop N c
  let step := loopStep N c
  if step = 0 then .error .valueError              -- range() arg 3 must not be zero
  else if stop ≤ start then .error .valueError     -- np.concatenate of an empty list
  else chunkLoop w M points indices c stop step (stop - start) start

/-- `BeckeWeights.__call__(points, atcoords, atnums, indices)`. -/
def call (w : P → Nat → K) (M : Nat) (points : List P) (indices : List Int) : Except Err (List K) :=
  if M = 0 then .error .zeroDivision else callWith w M (chunkSize points.length M) points indices

/-- the calls `__call__` makes: `(ibegin, number of points of the chunk, pt_ind)` (for the trace comparison). -/
def callTrace (N M : Nat) (indices : List Int) : List (Nat × Nat × List Int) :=
  let c := chunkSize N M
  let rec go : Nat → Nat → List (Nat × Nat × List Int)
    | 0, _ => []
    | fuel + 1, b =>
      if loopStop N c ≤ b then [] else
      (b, pyNorm N (sliceHi N c b) - pyNorm N (sliceLo N c b), indices.map (shiftInd c b))
        :: go fuel (b + loopStep N c)
  if loopStep N c = 0 then [] else go (loopStop N c - loopStart N c) (loopStart N c)

end index

section hirshfeld
variable {P K : Type} [Add K] [Div K] [NatCast K]

/-- `HirshfeldWeights.__call__`: `rho i p` is the pro-atom density of atom `i` at `p`
(a cubic spline of shipped data: not modelled, a parameter). -/
def hirshfeld (rho : Nat → P → K) (M : Nat) (points : List P) (indices : List Int) :
    Except Err (List K) :=
  if M ≠ 0 ∧ indices.length < M + 1 then .error .indexError else
  .ok (points.mapIdx fun j p =>
    overwrite (fun p i => rho i p) points.length (secsIdx indices (List.range M)) j p
      / sumRange M (fun i => rho i p))

end hirshfeld

end GridVerif.Becke

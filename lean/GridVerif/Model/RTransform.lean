/-
  Hand-written support for the generated model `Gen/RTransform.lean` (property C03).

  `HasInf K`: the infinity tests `BaseTransform._convert_inf` performs
  (`new_v == np.inf`, `new_v == -np.inf`, `np.isinf`, `np.sign`).
  * `K = Float`: IEEE infinities (this file, executable);
  * `K = ℝ`: there is no infinity, every test is `false` (`Lemmas/RTransform.lean`),
    so `_convert_inf` is the identity on the reals.

  `pyIndex`: Python indexing of a 1-D array (used by the generated static helpers).

  `ExtVal`/`convertInfExt`: the specification of `_convert_inf` on values extended by
  `±∞` (DESIGN C03 item 5); the generated `Float` definition is tied to it by
  correspondence at the end points.

  No Mathlib import (the driver links this file).
-/
import GridVerif.Model.Elem

namespace GridVerif

/-- Infinity tests used by `_convert_inf`. -/
class HasInf (K : Type) where
  /-- `v == np.inf` -/
  eqPosInf : K → Bool
  /-- `v == -np.inf` -/
  eqNegInf : K → Bool
  /-- `np.isinf v` -/
  isInf : K → Bool
  /-- `np.sign v` -/
  sign : K → K

def floatSign (x : Float) : Float :=
  if x != x then x else if x > 0.0 then 1.0 else if x < 0.0 then -1.0 else 0.0

instance : HasInf Float where
  eqPosInf x := x == (1.0 / 0.0)
  eqNegInf x := x == (-1.0 / 0.0)
  isInf x := x.isInf
  sign := floatSign

/-- `a[i]` for a one-dimensional array `a` and a Python integer `i`: a negative index counts from
the end; an index outside `-len(a) ≤ i < len(a)` is an `IndexError` (`none`). -/
def pyIndex {K : Type} (a : List K) (i : Int) : Option K :=
  if 0 ≤ i then a[i.toNat]?
  else if 0 ≤ (a.length : Int) + i then a[((a.length : Int) + i).toNat]?
  else none

/-- A value of `K` or one of the two infinities. -/
inductive ExtVal (K : Type) where
  | fin (x : K)
  | posInf
  | negInf

/-- Specification of `_convert_inf`: finite values pass, `±∞ ↦ ±big`. -/
def convertInfExt {K : Type} [Neg K] (big : K) : ExtVal K → K
  | .fin x => x
  | .posInf => big
  | .negInf => -big

end GridVerif

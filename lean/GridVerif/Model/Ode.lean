/-
  C15 — hand-written part of the model of `grid/ode.py`.

  What is *generated* from the source (Gen/Ode.lean): the coefficient arithmetic of
  `_transform_ode_from_derivs`, the loop nest of `_derivative_transformation_matrix`, the fold of
  `_rearrange_to_explicit_ode`, the composition `_transform_and_rearrange_to_explicit_ode`.

  What is modelled here by hand and tied by correspondence:
  * `sympy.bell(n, k, symbols)` (incomplete Bell polynomial, by the recurrence sympy itself uses);
  * NumPy plumbing: a square matrix as a function of (row, column), `range`, `M.dot(v)`;
  * `scipy.linalg.solve(M, b)` for the lower-triangular matrices the code builds (forward substitution;
    contract of the library: the result `v` satisfies `M v = b`);
  * the initial-data mapping of `solve_ode_ivp`  (`y0 ↦ [y0[0]] ++ solve(M, y0[1:])`),
  * the back-transformation of `_transform_solution_to_original_domain`
    (`interpolated ↦ [interpolated[0]] ++ M.dot(interpolated[1:])`),
  * `_evaluate_coeffs_on_points` (number → constant row, callable → evaluated row),
  * the first-order system `func` and the boundary-condition callback `bc` of `solve_ode_bvp`.

  The SciPy integrators `solve_ivp` / `solve_bvp` are *not* modelled: in the theorems they are a
  parameter (functions `Y₀ … Y_{K-1}` with the contract "solves the first-order system it was given").

  No Mathlib import (linked into the driver).  Generic in `K` (Float in the driver, ℝ in the theorems).
-/
import GridVerif.Model.Elem

namespace GridVerif.Ode

variable {K : Type} [Add K] [Sub K] [Mul K] [Div K] [Neg K] [NatCast K]

/-! ### `sympy.bell(n, k, symbols)` -/

/-- Binomial coefficient (Pascal's rule; core Lean has none). -/
def choose : Nat → Nat → Nat
  | _, 0 => 1
  | 0, _ + 1 => 0
  | n + 1, k + 1 => choose n k + choose n (k + 1)

/-- Incomplete Bell polynomial `B_{n,k}(x 1, x 2, …)` by the recurrence used by
`sympy.functions.combinatorial.numbers.bell._bell_incomplete_poly`:
`B_{0,0} = 1`, `B_{n,0} = B_{0,k} = 0`, `B_{n,k} = Σ_{m=1}^{n-k+1} C(n-1, m-1) · x_m · B_{n-m,k-1}`.
(`x m` is `symbols[m-1]`.) -/
def bell (x : Nat → K) : Nat → Nat → K
  | 0, 0 => ((1 : Nat) : K)
  | 0, _ + 1 => ((0 : Nat) : K)
  | _ + 1, 0 => ((0 : Nat) : K)
  | n + 1, k + 1 =>
    (List.range (n + 1 - k)).foldl
      (fun s i => s + ((choose n i : Nat) : K) * x (i + 1) * bell x (n - i) k) ((0 : Nat) : K)
termination_by n _ => n
decreasing_by omega

/-- The sequence `x 1 = d₁, x 2 = d₂, x 3 = d₃` of the three transform derivatives the code
passes (`[tf.deriv, tf.deriv2, tf.deriv3]` evaluated at a point).  Entries beyond the third are
never used for orders ≤ 3 (`bell_seq3_indep` in `Lemmas/Ode.lean`). -/
def seq3 (d1 d2 d3 : K) : Nat → K
  | 1 => d1
  | 2 => d2
  | 3 => d3
  | _ => ((0 : Nat) : K)

/-- Sequence view of a derivative list of any length (driver only; the guard
`order > len(deriv_func_list)` of the code is evaluated before any entry is read). -/
def seqOfList (ds : List K) (i : Nat) : K :=
  match i with
  | 0 => ((0 : Nat) : K)
  | i + 1 => match ds[i]? with
    | some v => v
    | none => ((0 : Nat) : K)

/-! ### NumPy plumbing -/

/-- A 2-D array as a function of (row, column); only entries inside the allocated shape are read. -/
abbrev Mat (K : Type) := Nat → Nat → K

/-- `np.zeros((n, n))`. -/
def matZeros : Mat K := fun _ _ => ((0 : Nat) : K)

/-- `m[i, j] = v`. -/
def matSet (m : Mat K) (i j : Nat) (v : K) : Mat K :=
  fun r c => if r = i ∧ c = j then v else m r c

/-- Python `range(lo, hi)` for non-negative bounds. -/
def pyRange (lo hi : Nat) : List Nat := List.range' lo (hi - lo)

/-- The `n × n` leading block as a list of rows. -/
def matRows (m : Mat K) (n : Nat) : List (List K) :=
  (List.range n).map fun r => (List.range n).map (m r)

/-- `Σ_c m r c * v[c]` over the entries of `v` (left to right). -/
def rowDot (m : Mat K) (r : Nat) (v : List K) : K :=
  v.zipIdx.foldl (fun s (p : K × Nat) => s + m r p.2 * p.1) ((0 : Nat) : K)

/-- `M.dot(v)` for a square matrix of the size of `v`. -/
def matVec (m : Mat K) (v : List K) : List K :=
  (List.range v.length).map fun r => rowDot m r v

/-- `scipy.linalg.solve(M, b)` for a lower-triangular `M` (forward substitution):
`v_r = (b_r − Σ_{c<r} M_{rc} v_c) / M_{rr}`. -/
def forwardSolve (m : Mat K) (b : List K) : List K :=
  b.zipIdx.foldl (fun (xs : List K) (p : K × Nat) => xs ++ [(p.1 - rowDot m p.2 xs) / m p.2 p.2]) []

/-! ### the parts of `solve_ode_ivp` / `solve_ode_bvp` / `_transform_solution_to_original_domain` -/

/-- `solve_ode_ivp`, transform branch: `y0 = np.hstack(([y0[0]], solve(deriv, y0[1:])))`:
the given derivatives with respect to the original variable `x` are converted to derivatives with
respect to `r = g(x)`; the function value is kept. -/
def ivpInitial (m : Mat K) (y0 : List K) : Option (List K) :=
  match y0 with
  | [] => none                      -- `y0[0]`: IndexError
  | h :: t => some (h :: forwardSolve m t)

/-- `_transform_solution_to_original_domain.interpolate_wrt_original_var`, one point, derivative branch:
`new[0] = interpolated[0]`, `new[1:] = deriv.dot(interpolated[1:])`. -/
def backTransform (m : Mat K) (interp : List K) : Option (List K) :=
  match interp with
  | [] => none
  | h :: t => some (h :: matVec m t)

/-- The `no_derivs` branch: only row 0. -/
def backTransformNoDerivs (interp : List K) : Option K := interp.head?

/-- A coefficient of the ODE as the user may give it (`_evaluate_coeffs_on_points`):
a number or a callable. -/
inductive Coeff (K : Type) where
  | const (c : K)
  | fn (f : K → K)

/-- `_evaluate_coeffs_on_points` at one point: `coeff_mtr[i] = 0 + val` resp. `0 + val(x)`. -/
def evalCoeff (x : K) : Coeff K → K
  | .const c => ((0 : Nat) : K) + c
  | .fn f => ((0 : Nat) : K) + f x

def evalCoeffs (x : K) (cs : List (Coeff K)) : List K := cs.map (evalCoeff x)

/-- `np.vstack((*y[1:, :], dy_dx))`: the first-order system `(y₀,…,y_{K-1})' = (y₁,…,y_{K-1}, dy)`. -/
def firstOrderRhs (y : List K) (dy : K) : List K := y.drop 1 ++ [dy]

/-- `bc(ya, yb)` of `solve_ode_bvp`: `[bonds[i][deriv] - value for (i, deriv, value) in bd_cond]`
with `bonds = [ya, yb]` (non-negative indices; out of range = IndexError = `none`). -/
def bcResiduals (bd : List (Nat × Nat × K)) (ya yb : List K) : Option (List K) :=
  bd.mapM fun (c : Nat × Nat × K) => do
    let bond ← [ya, yb][c.1]?
    let v ← bond[c.2.1]?
    pure (v - c.2.2)

end GridVerif.Ode

/-
  C15 — hand-written part of the model of `grid/ode.py`.

  What is *generated* from the source (Gen/Ode.lean): the coefficient arithmetic of
  `_transform_ode_from_derivs`, the loop nest of `_derivative_transformation_matrix`, the fold of
  `_rearrange_to_explicit_ode`, the composition `_transform_and_rearrange_to_explicit_ode`.

  What is modelled here by hand (library primitives, tied by correspondence):
  * `sympy.bell(n, k, symbols)` (incomplete Bell polynomial, by the recurrence sympy itself uses);
  * NumPy / Python plumbing: a square matrix as a function of (row, column), `range`, `M.dot(v)`, `min`/`max`,
    column assignments, `seq[i]`;
  * `scipy.linalg.solve(M, b)` for the lower-triangular matrices the code builds (forward substitution, used by
    the driver; in the theorems `solve` is a parameter with the contract `M · solve(M, b) = b`);
  * the types of the arguments (`TransformFns`, `Coeff`) and of SciPy's result object (`SolveResult`).

  Since round 2 the bodies of `solve_ode_ivp`, `solve_ode_bvp` (with their callbacks `func`, `bc`),
  `_transform_solution_to_original_domain` and `_evaluate_coeffs_on_points` are *generated* too (Gen/Ode.lean):
  the SciPy integrators `solve_ivp` / `solve_bvp` and `scipy.linalg.solve` are named parameters there.

  No Mathlib import (linked into the driver).  Generic in `K` (Float in the driver, ℝ in the theorems).
-/
import GridVerif.Model.Elem

namespace GridVerif.Ode

variable {K : Type} [Add K] [Sub K] [Mul K] [Div K] [Neg K] [NatCast K]

/-! ### `sympy.bell(n, k, symbols)` -/

/-- Binomial coefficient (Pascal's rule; core Lean has none). -/
def choose : Nat → Nat → Nat
  | _, 0 => 1
  | 0, _ + 1 => 0
  | n + 1, k + 1 => choose n k + choose n (k + 1)

/-- Incomplete Bell polynomial `B_{n,k}(x 1, x 2, …)` by the recurrence used by
`sympy.functions.combinatorial.numbers.bell._bell_incomplete_poly`:
`B_{0,0} = 1`, `B_{n,0} = B_{0,k} = 0`, `B_{n,k} = Σ_{m=1}^{n-k+1} C(n-1, m-1) · x_m · B_{n-m,k-1}`.
(`x m` is `symbols[m-1]`.) -/
def bell (x : Nat → K) : Nat → Nat → K
  | 0, 0 => ((1 : Nat) : K)
  | 0, _ + 1 => ((0 : Nat) : K)
  | _ + 1, 0 => ((0 : Nat) : K)
  | n + 1, k + 1 =>
    (List.range (n + 1 - k)).foldl
      (fun s i => s + ((choose n i : Nat) : K) * x (i + 1) * bell x (n - i) k) ((0 : Nat) : K)
termination_by n _ => n
decreasing_by omega

/-- The sequence `x 1 = d₁, x 2 = d₂, x 3 = d₃` of the three transform derivatives the code
passes (`[tf.deriv, tf.deriv2, tf.deriv3]` evaluated at a point).  Entries beyond the third are
never used for orders ≤ 3 (`bell_seq3_indep` in `Lemmas/Ode.lean`). -/
def seq3 (d1 d2 d3 : K) : Nat → K
  | 1 => d1
  | 2 => d2
  | 3 => d3
  | _ => ((0 : Nat) : K)

/-- Sequence view of a derivative list of any length (driver only; the guard
`order > len(deriv_func_list)` of the code is evaluated before any entry is read). -/
def seqOfList (ds : List K) (i : Nat) : K :=
  match i with
  | 0 => ((0 : Nat) : K)
  | i + 1 => match ds[i]? with
    | some v => v
    | none => ((0 : Nat) : K)

/-! ### NumPy plumbing -/

/-- A 2-D array as a function of (row, column); only entries inside the allocated shape are read. -/
abbrev Mat (K : Type) := Nat → Nat → K

/-- `np.zeros((n, n))`. -/
def matZeros : Mat K := fun _ _ => ((0 : Nat) : K)

/-- `m[i, j] = v`. -/
def matSet (m : Mat K) (i j : Nat) (v : K) : Mat K :=
  fun r c => if r = i ∧ c = j then v else m r c

/-- Python `range(lo, hi)` for non-negative bounds. -/
def pyRange (lo hi : Nat) : List Nat := List.range' lo (hi - lo)

/-- The `n × n` leading block as a list of rows. -/
def matRows (m : Mat K) (n : Nat) : List (List K) :=
  (List.range n).map fun r => (List.range n).map (m r)

/-- `Σ_c m r c * v[c]` over the entries of `v` (left to right). -/
def rowDot (m : Mat K) (r : Nat) (v : List K) : K :=
  v.zipIdx.foldl (fun s (p : K × Nat) => s + m r p.2 * p.1) ((0 : Nat) : K)

/-- `M.dot(v)` for a square matrix of the size of `v`. -/
def matVec (m : Mat K) (v : List K) : List K :=
  (List.range v.length).map fun r => rowDot m r v

/-- `scipy.linalg.solve(M, b)` for a lower-triangular `M` (forward substitution):
`v_r = (b_r − Σ_{c<r} M_{rc} v_c) / M_{rr}`. -/
def forwardSolve (m : Mat K) (b : List K) : List K :=
  b.zipIdx.foldl (fun (xs : List K) (p : K × Nat) => xs ++ [(p.1 - rowDot m p.2 xs) / m p.2 p.2]) []

/-! ### types of the arguments and of SciPy's results; Python/NumPy plumbing used by the generated text -/

/-- What `ode.py` reads from a `BaseTransform` object: the five methods and the attribute `domain`. -/
structure TransformFns (K : Type) where
  transform : K → K
  inverse : K → K
  deriv : K → K
  deriv2 : K → K
  deriv3 : K → K
  domain : K × K

/-- What `ode.py` reads from the object returned by `scipy.integrate.solve_ivp` / `solve_bvp`:
`res.status` and the dense output `res.sol` (a function of the integrator's independent variable; its value is
the column `[Y₀, …, Y_{K-1}]`). -/
structure SolveResult (K : Type) where
  status : Int
  sol : K → List K

/-- The exceptions the modelled functions raise. -/
inductive OdeErr where
  | valueError
  | notImplementedError
  | indexError
  deriving DecidableEq, Repr

/-- A coefficient of the ODE as the user may give it (`_evaluate_coeffs_on_points`):
a number (`isinstance(val, Number)`) or a callable. -/
inductive Coeff (K : Type) where
  | const (c : K)
  | fn (f : K → K)

/-- Specification side: the value `a_k(x)` of a coefficient at a point. -/
def Coeff.at : Coeff K → K → K
  | .const c, _ => c
  | .fn f, x => f x

/-- Python `seq[i]` for a non-negative index inside a function that may raise (`IndexError`). -/
def idxE {α : Type} (l : List α) (i : Nat) : Except OdeErr α :=
  match l[i]? with
  | some v => .ok v
  | none => .error .indexError

/-- An `Option`-valued helper inside a function that may raise (`none` = the index/shape error of the helper). -/
def liftO {α : Type} : Option α → Except OdeErr α
  | some v => .ok v
  | none => .error .indexError

/-- Python `min(seq)`: keeps the first element and replaces it by a later `x` when `x < current`
(`ValueError` on an empty sequence). -/
def pyMin [LT K] [DecidableLT K] : List K → Except OdeErr K
  | [] => .error .valueError
  | h :: t => .ok (t.foldl (fun acc x => if x < acc then x else acc) h)

/-- Python `max(seq)`: replaces the current element by a later `x` when `x > current`. -/
def pyMax [LT K] [DecidableLT K] : List K → Except OdeErr K
  | [] => .error .valueError
  | h :: t => .ok (t.foldl (fun acc x => if acc < x then x else acc) h)

/-- `np.zeros(col.shape)` for one column. -/
def colZeros (n : Nat) : List K := List.replicate n ((0 : Nat) : K)

/-- `new[0, :] = v`, one column (`IndexError` for an array without rows). -/
def setRow0 (col : List K) (v : K) : Option (List K) :=
  match col with
  | [] => none
  | _ :: t => some (v :: t)

/-- `new[1:, i] = v`: the rows from 1 on of one column are replaced; NumPy requires `v` to have exactly that many
entries (otherwise `ValueError`: `none`). -/
def setRowsFrom1 (col : List K) (v : List K) : Option (List K) :=
  if v.length + 1 = col.length then some (col.take 1 ++ v) else none

/-- `l[i] = v` for one column of a (rows, points) array (a non-negative row index out of range is NumPy's
`IndexError`: `none`).  Used by the generated Bell-polynomial loop of `_transform_ode_from_derivs` (round 3). -/
def listSet {α : Type} (l : List α) (i : Nat) (v : α) : Option (List α) :=
  if i < l.length then some (l.set i v) else none

/-- `m.dot(v)` for the `n × n` matrix `m` the code has just built: NumPy requires `len(v) = n`. -/
def matDot (m : Mat K) (n : Nat) (v : List K) : Option (List K) :=
  if v.length = n then some (matVec m v) else none

end GridVerif.Ode

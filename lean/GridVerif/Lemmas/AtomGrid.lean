/-
  Helper lemmas for C05 (structure of the atomic grid): prefix-sum table, slices of a
  flattened list, the loading/assembly loop, idempotence of the degree resolution.
  Generic in the number type; no analysis.
-/
import GridVerif.Model.AtomGrid
import GridVerif.Lemmas.Bisect
import Mathlib.Tactic.Ring
import Mathlib.Tactic.Linarith
import Mathlib.Algebra.BigOperators.Group.List.Basic

set_option linter.unusedSectionVars false

namespace GridVerif.AtomGrid
open GridVerif.Bisect GridVerif.Gen.Presets

/-! ### index table -/

theorem indicesFrom_length (acc : Nat) (ns : List Nat) :
    (indicesFrom acc ns).length = ns.length + 1 := by
  induction ns generalizing acc with
  | nil => simp [indicesFrom]
  | cons n ns ih => simp [indicesFrom, ih]

theorem indicesFrom_getElem? (acc : Nat) (ns : List Nat) (i : Nat) (h : i ≤ ns.length) :
    (indicesFrom acc ns)[i]? = some (acc + (ns.take i).sum) := by
  induction ns generalizing acc i with
  | nil =>
    have : i = 0 := by simpa using h
    subst this; simp [indicesFrom]
  | cons n ns ih =>
    cases i with
    | zero => simp [indicesFrom]
    | succ i =>
      have h' : i ≤ ns.length := by simpa using h
      simp only [indicesFrom, List.getElem?_cons_succ, List.take_succ_cons, List.sum_cons]
      rw [ih _ _ h']
      simp [indicesStep, Nat.add_assoc]

theorem indicesFrom_ge (acc : Nat) (ns : List Nat) : ∀ x ∈ indicesFrom acc ns, acc ≤ x := by
  induction ns generalizing acc with
  | nil => simp [indicesFrom]
  | cons n ns ih =>
    intro x hx
    simp only [indicesFrom, List.mem_cons] at hx
    rcases hx with rfl | hx
    · exact Nat.le_refl _
    · have := ih _ x hx
      simp only [indicesStep] at this
      omega

theorem indicesFrom_pairwise (acc : Nat) (ns : List Nat) :
    (indicesFrom acc ns).Pairwise (· ≤ ·) := by
  induction ns generalizing acc with
  | nil => simp [indicesFrom]
  | cons n ns ih =>
    simp only [indicesFrom, List.pairwise_cons]
    refine ⟨fun x hx => ?_, ih _⟩
    have := indicesFrom_ge _ _ x hx
    simp only [indicesStep] at this
    omega

/-! ### slices of a flattened list -/

theorem pySlice_map {α β : Type} (f : α → β) (l : List α) (a b : Nat) :
    pySlice (l.map f) a b = (pySlice l a b).map f := by
  simp [pySlice, List.map_take, List.map_drop]

/-- `flatten(L)[Σ_{j<i}|L_j| : Σ_{j≤i}|L_j|] = L_i`. -/
theorem pySlice_flatten {α : Type} (L : List (List α)) (i : Nat) (h : i < L.length) :
    pySlice L.flatten ((L.map List.length).take i).sum ((L.map List.length).take (i + 1)).sum = L[i] := by
  induction L generalizing i with
  | nil => simp at h
  | cons l L ih =>
    cases i with
    | zero => simp [pySlice]
    | succ i =>
      have h' : i < L.length := by simpa using h
      have := ih i h'
      simp only [pySlice] at this ⊢
      simp only [List.map_cons, List.take_succ_cons, List.sum_cons, List.flatten_cons,
        List.getElem_cons_succ]
      rw [List.take_length_add_append, List.drop_length_add_append]
      exact this

theorem length_flatten_eq {α : Type} (L : List (List α)) :
    L.flatten.length = (L.map List.length).sum := by
  simp [List.length_flatten]

/-! ### the model's tables -/

section
variable {K : Type} [Add K] [Sub K] [Mul K] [Div K] [NatCast K]

/-- one weight per angular point, for every shell -/
def WF (shells : List (Shell K)) : Prop := ∀ s ∈ shells, s.wts.length = s.pts.length

@[simp] theorem Shell.points_length (s : Shell K) : s.points.length = s.pts.length := by
  simp [Shell.points]

@[simp] theorem Shell.weights_length (s : Shell K) : s.weights.length = s.wts.length := by
  simp [Shell.weights]

/-- number of points in the first `i` shells -/
def offset (shells : List (Shell K)) (i : Nat) : Nat := ((shells.take i).map fun s => s.pts.length).sum

theorem offset_succ (shells : List (Shell K)) (i : Nat) (h : i < shells.length) :
    offset shells (i + 1) = offset shells i + shells[i].pts.length := by
  unfold offset
  rw [List.take_add_one, List.getElem?_eq_getElem h]
  simp only [Option.toList_some, List.map_append, List.sum_append, List.map_cons, List.map_nil,
    List.sum_cons, List.sum_nil, Nat.add_zero]

theorem offset_mono (shells : List (Shell K)) {i j : Nat} (hij : i ≤ j) :
    offset shells i ≤ offset shells j := by
  induction j with
  | zero => simp at hij; subst hij; exact Nat.le_refl _
  | succ j ih =>
    rcases Nat.lt_or_ge i (j + 1) with h | h
    · have h1 := ih (by omega)
      by_cases hj : j < shells.length
      · rw [offset_succ shells j hj]; omega
      · have : offset shells (j + 1) = offset shells j := by
          simp only [offset]
          rw [List.take_of_length_le (by omega), List.take_of_length_le (by omega)]
        omega
    · have : i = j + 1 := by omega
      subst this; exact Nat.le_refl _

theorem indices_getElem? (shells : List (Shell K)) (i : Nat) (h : i ≤ shells.length) :
    (indices shells)[i]? = some (offset shells i) := by
  unfold indices offset
  rw [indicesFrom_getElem? 0 _ i (by simpa using h)]
  simp [List.map_take]

theorem indices_length (shells : List (Shell K)) : (indices shells).length = shells.length + 1 := by
  simp [indices, indicesFrom_length]

theorem rawPoints_length (shells : List (Shell K)) :
    (rawPoints shells).length = offset shells shells.length := by
  simp [rawPoints, offset, List.length_flatten, Function.comp_def]

theorem weights_length (shells : List (Shell K)) (hwf : WF shells) :
    (weights shells).length = offset shells shells.length := by
  simp only [weights, offset, List.length_flatten, List.map_map, List.take_length]
  congr 1
  apply List.map_congr_left
  intro s hs
  simp [hwf s hs]

theorem slice_rawPoints (shells : List (Shell K)) (i : Nat) (h : i < shells.length) :
    pySlice (rawPoints shells) (offset shells i) (offset shells (i + 1)) = shells[i].points := by
  have := pySlice_flatten (shells.map Shell.points) i (by simpa using h)
  simpa [rawPoints, offset, List.map_take, Function.comp_def] using this

theorem slice_weights (shells : List (Shell K)) (hwf : WF shells) (i : Nat) (h : i < shells.length) :
    pySlice (weights shells) (offset shells i) (offset shells (i + 1)) = shells[i].weights := by
  have := pySlice_flatten (shells.map Shell.weights) i (by simpa using h)
  have e : (shells.map Shell.weights).map List.length = shells.map fun s => s.pts.length := by
    rw [List.map_map]
    apply List.map_congr_left
    intro s hs
    simp [hwf s hs]
  rw [e] at this
  simpa [weights, offset, List.map_take] using this

/-! ### loading and assembling -/

theorem loadAll_spec (env : Env K) (ds : List Nat) (as : List (Nat × List (V3 K) × List K))
    (h : loadAll env ds = .ok as) :
    as.length = ds.length ∧ ∀ i (hi : i < ds.length) (hi' : i < as.length), angular env ds[i] = .ok as[i] := by
  induction ds generalizing as with
  | nil =>
    simp only [loadAll, Except.ok.injEq] at h
    subst h; simp
  | cons d ds ih =>
    simp only [loadAll] at h
    split at h
    · cases h
    · rename_i a ha
      split at h
      · cases h
      · rename_i rest hrest
        simp only [Except.ok.injEq] at h
        subst h
        obtain ⟨hl, hget⟩ := ih rest hrest
        refine ⟨by simp [hl], ?_⟩
        intro i hi hi'
        cases i with
        | zero => simpa using ha
        | succ i => simpa using hget i (by simpa using hi) (by simpa using hi')

theorem assemble_length (ρ : Nat → M3 K) (rot i0 : Nat) (rg : List (K × K))
    (as : List (Nat × List (V3 K) × List K)) (hl : as.length = rg.length) :
    (assemble ρ rot i0 rg as).length = rg.length := by
  induction rg generalizing i0 as with
  | nil => cases as <;> simp [assemble]
  | cons rw rg ih =>
    cases as with
    | nil => simp at hl
    | cons a as => simp [assemble, ih (i0 + 1) as (by simpa using hl)]

theorem assemble_getElem (ρ : Nat → M3 K) (rot i0 : Nat) (rg : List (K × K))
    (as : List (Nat × List (V3 K) × List K)) (hl : as.length = rg.length) (j : Nat)
    (hj : j < rg.length) :
    (assemble ρ rot i0 rg as)[j]'(by rw [assemble_length ρ rot i0 rg as hl]; exact hj) =
      ⟨rg[j].1, rg[j].2, (as[j]'(by omega)).2.1, (as[j]'(by omega)).2.2,
        if rotates rot then some (ρ (shellSeed rot (i0 + j))) else none⟩ := by
  induction rg generalizing i0 as j with
  | nil => simp at hj
  | cons rw rg ih =>
    cases as with
    | nil => simp at hl
    | cons a as =>
      cases j with
      | zero => simp [assemble]
      | succ j =>
        have := ih (i0 + 1) as (by simpa using hl) j (by simpa using hj)
        simp only [assemble, List.getElem_cons_succ]
        rw [this]
        simp [shellSeed, Nat.add_assoc, Nat.add_comm 1 j]

/-- The weights do not see the rotation source nor the seed. -/
theorem weights_assemble_indep (ρ ρ' : Nat → M3 K) (rot rot' i0 i0' : Nat) (rg : List (K × K))
    (as : List (Nat × List (V3 K) × List K)) :
    weights (assemble ρ rot i0 rg as) = weights (assemble ρ' rot' i0' rg as) ∧
    (assemble ρ rot i0 rg as).map (fun s => s.pts.length) =
      (assemble ρ' rot' i0' rg as).map (fun s => s.pts.length) := by
  induction rg generalizing i0 i0' as with
  | nil => simp [assemble]
  | cons rw rg ih =>
    cases as with
    | nil => simp [assemble]
    | cons a as =>
      obtain ⟨h1, h2⟩ := ih (i0 + 1) (i0' + 1) as
      simp only [weights] at h1
      constructor
      · simp only [assemble, weights, List.map_cons, List.flatten_cons, h1]
        simp [Shell.weights]
      · simp [assemble, h2]

/-- Reproducibility: the assembled shells depend on the rotation source only through its
values at the seeds `shellSeed rotate i` of the shells. -/
theorem assemble_congr (ρ ρ' : Nat → M3 K) (rot i0 : Nat) (rg : List (K × K))
    (as : List (Nat × List (V3 K) × List K))
    (h : ∀ j, j < rg.length → ρ (shellSeed rot (i0 + j)) = ρ' (shellSeed rot (i0 + j))) :
    assemble ρ rot i0 rg as = assemble ρ' rot i0 rg as := by
  induction rg generalizing i0 as with
  | nil => simp [assemble]
  | cons rw rg ih =>
    cases as with
    | nil => simp [assemble]
    | cons a as =>
      simp only [assemble]
      have h0 := h 0 (by simp)
      simp only [Nat.add_zero] at h0
      rw [h0, ih (i0 + 1) as]
      intro j hj
      have := h (j + 1) (by simpa using hj)
      simpa [Nat.add_assoc, Nat.add_comm 1 j] using this

/-- Everything of the assembled shells but the matrix is independent of rotation source and seed. -/
theorem assemble_strip (ρ ρ' : Nat → M3 K) (rot rot' i0 i0' : Nat) (rg : List (K × K))
    (as : List (Nat × List (V3 K) × List K)) :
    (assemble ρ rot i0 rg as).map (fun s => (s.r, s.w, s.pts, s.wts)) =
      (assemble ρ' rot' i0' rg as).map (fun s => (s.r, s.w, s.pts, s.wts)) := by
  induction rg generalizing i0 i0' as with
  | nil => simp [assemble]
  | cons rw rg ih =>
    cases as with
    | nil => simp [assemble]
    | cons a as => simp [assemble, ih (i0 + 1) (i0' + 1) as]

/-- With the rotation guard false the rotation source is not consulted. -/
theorem assemble_norot_congr (ρ ρ' : Nat → M3 K) (rot i0 : Nat) (rg : List (K × K))
    (as : List (Nat × List (V3 K) × List K)) (h : rotates rot = false) :
    assemble ρ rot i0 rg as = assemble ρ' rot i0 rg as := by
  induction rg generalizing i0 as with
  | nil => simp [assemble]
  | cons rw rg ih =>
    cases as with
    | nil => simp [assemble]
    | cons a as => simp only [assemble, h]; rw [ih]; simp

/-- With the rotation guard false no matrix is applied at all. -/
theorem assemble_norot (ρ : Nat → M3 K) (rot i0 : Nat) (rg : List (K × K))
    (as : List (Nat × List (V3 K) × List K)) (h : rotates rot = false) :
    ∀ s ∈ assemble ρ rot i0 rg as, s.rot = none := by
  induction rg generalizing i0 as with
  | nil => simp [assemble]
  | cons rw rg ih =>
    cases as with
    | nil => simp [assemble]
    | cons a as =>
      intro s hs
      simp only [assemble, List.mem_cons] at hs
      rcases hs with rfl | hs
      · simp [h]
      · exact ih _ _ s hs

end

/-! ### degree resolution is idempotent (C12) -/

theorem lookup_mem_keys {tbl : List (Nat × Nat)} {k v : Nat} (h : lookup tbl k = some v) :
    k ∈ keys tbl := by
  unfold lookup at h
  rw [Option.map_eq_some_iff] at h
  obtain ⟨p, hp, _⟩ := h
  have h1 := List.mem_of_find?_eq_some hp
  have h2 := List.find?_some hp
  simp only [beq_iff_eq] at h2
  exact List.mem_map.mpr ⟨p, h1, h2⟩

theorem resolve_ok_lookup {tbl : List (Nat × Nat)} {req k v : Nat} (h : resolve tbl req = .ok k v) :
    lookup tbl k = some v := by
  unfold resolve at h
  simp only at h
  split at h
  · cases h
  · split at h
    · cases h
    · rename_i key hkey
      split at h
      · rename_i v' hv'
        simp only [Res.ok.injEq] at h
        obtain ⟨rfl, rfl⟩ := h
        exact hv'
      · cases h

theorem resolve_idem {tbl : List (Nat × Nat)} {req k v : Nat} (h : resolve tbl req = .ok k v) :
    resolve tbl k = .ok k v := by
  have hl := resolve_ok_lookup h
  have hm := lookup_mem_keys hl
  have hle := le_maxKey hm
  unfold resolve
  simp [Nat.not_lt.mpr hle, hm, hl]

section
variable {K : Type} [Add K] [Sub K] [Mul K] [Div K] [NatCast K]

theorem angular_idem (env : Env K) {d deg : Nat} {p : List (V3 K)} {w : List K}
    (h : angular env d = .ok (deg, p, w)) : angular env deg = .ok (deg, p, w) := by
  unfold angular at h ⊢
  unfold getDegreeAndSize at h ⊢
  simp only at h ⊢
  split at h
  · rename_i k v hr
    split at hr
    · rename_i k' v' hres
      simp only [Out.ok.injEq] at hr
      obtain ⟨rfl, rfl⟩ := hr
      split at h
      · rename_i p' w' hload
        simp only [Except.ok.injEq, Prod.mk.injEq] at h
        obtain ⟨rfl, rfl, rfl⟩ := h
        rw [resolve_idem hres]
        simp [hload]
      · cases h
    · cases hr
    · cases hr
  · cases h
  · cases h

end

end GridVerif.AtomGrid

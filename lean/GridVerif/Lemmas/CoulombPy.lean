/-
  C17 — evaluation lemmas for the hand-written NumPy/Python primitives of
  `Model/CoulombPy.lean` on well-shaped arrays (`ofMat3`, `ofVec`, `scalar`), the loop lemma that
  exchanges "for each Gaussian, update the whole array" with "for each point, fold over the
  Gaussians", and the representation of well-shaped arrays.  Generic in `K`; nothing here
  mentions generated code (the lemmas about the generated text are in `Props/C17/MultiGen.lean`).
-/
import GridVerif.Model.CoulombPy

set_option linter.unusedSectionVars false
set_option linter.unusedVariables false
set_option linter.unusedSimpArgs false

namespace GridVerif.Coulomb
open NdArg

section lists
variable {α β : Type}

theorem chunks_flatMap (f : β → List α) (m : Nat) (l : List β) (h : ∀ x ∈ l, (f x).length = m) :
    chunks m l.length (l.flatMap f) = l.map f := by
  induction l with
  | nil => rfl
  | cons x xs ih =>
    have hx : (f x).length = m := h x (by simp)
    simp only [List.length_cons, List.flatMap_cons, chunks, List.map_cons]
    rw [List.take_left' hx, List.drop_left' hx, ih (fun y hy => h y (by simp [hy]))]

theorem chunks_one (xs : List α) : chunks 1 xs.length xs = xs.map fun x => [x] := by
  induction xs with
  | nil => rfl
  | cons x xs ih => simp [chunks, ih]

theorem chunks_length (m k : Nat) (d : List α) : (chunks m k d).length = k := by
  induction k generalizing d with
  | zero => rfl
  | succ k ih => simp [chunks, ih]

/-- every list of length `k * m` is the concatenation of its `k` blocks of length `m`. -/
theorem chunks_flatten (m k : Nat) (d : List α) (h : d.length = k * m) :
    (chunks m k d).flatten = d ∧ ∀ r ∈ chunks m k d, r.length = m := by
  induction k generalizing d with
  | zero =>
    have : d = [] := List.eq_nil_of_length_eq_zero (by simpa using h)
    simp [chunks, this]
  | succ k ih =>
    have hd : (d.drop m).length = k * m := by
      rw [List.length_drop, h, Nat.succ_mul]; omega
    have hm : m ≤ d.length := by rw [h, Nat.succ_mul]; omega
    obtain ⟨h1, h2⟩ := ih (d.drop m) hd
    constructor
    · simp only [chunks, List.flatten_cons, h1, List.take_append_drop]
    · intro r hr
      simp only [chunks, List.mem_cons] at hr
      rcases hr with rfl | hr
      · simp [List.length_take, hm]
      · exact h2 r hr

theorem pyZip3_map {γ δ ε ζ : Type} (f : α → δ) (g : β → ε) (h : γ → ζ) (l : List (α × β × γ)) :
    pyZip3 (l.map fun t => f t.1) (l.map fun t => g t.2.1) (l.map fun t => h t.2.2)
      = l.map fun t => (f t.1, g t.2.1, h t.2.2) := by
  induction l with
  | nil => rfl
  | cons x xs ih => simp [pyZip3, ih]

theorem pyZip3_map' {δ ε ζ : Type} (f : α → δ) (g : α → ε) (h : α → ζ) (l : List α) :
    pyZip3 (l.map f) (l.map g) (l.map h) = l.map fun t => (f t, g t, h t) := by
  induction l with
  | nil => rfl
  | cons x xs ih => simp [pyZip3, ih]

theorem zipWith_replicate_left (f : α → β → α) (a : α) (l : List β) :
    List.zipWith f (List.replicate l.length a) l = l.map (f a) := by
  induction l with
  | nil => rfl
  | cons b l ih => simp [List.replicate_succ, ih]

theorem zipWith_map_self (f : α → β → α) (g : β → α) (l : List β) :
    List.zipWith f (l.map g) l = l.map fun x => f (g x) x := by
  induction l with
  | nil => rfl
  | cons b l ih => simp [ih]

theorem zipWith_zipWith_left (f g : α → β → α) (v : List α) (p : List β) :
    List.zipWith g (List.zipWith f v p) p = List.zipWith (fun a b => g (f a b) b) v p := by
  induction v generalizing p with
  | nil => simp
  | cons a v ih =>
    cases p with
    | nil => simp
    | cons b p => simp [ih]

end lists

/-! ### `Except` without unfolding `bind` into `match` (keeps the join points of `do` blocks small) -/

theorem ok_bind {ε α β : Type} (a : α) (f : α → Except ε β) : (Except.ok a >>= f) = f a := rfl
theorem error_bind {ε α β : Type} (e : ε) (f : α → Except ε β) : (Except.error e >>= f) = Except.error e := rfl
theorem throw_eq {ε α : Type} (e : ε) : (throw e : Except ε α) = Except.error e := rfl
theorem pure_eq {ε α : Type} (a : α) : (pure a : Except ε α) = Except.ok a := rfl
theorem pyOr_false (b : Except Err Bool) : pyOr false b = b := rfl
theorem pyOr_true (b : Except Err Bool) : pyOr true b = .ok true := rfl

theorem npAsarrayFloatObj_some {K : Type} (a : NdArg K) : npAsarrayFloatObj (some a) = .ok a := rfl
theorem pyArr_some {K : Type} (a : NdArg K) : pyArr (some a) = .ok a := rfl

/-! ### shapes -/

section shapes
variable {K : Type}

@[simp] theorem ndim_ofVec (xs : List K) : (ofVec xs).ndim = 1 := rfl
@[simp] theorem ndim_ofMat3 (ps : List (P3 K)) : (ofMat3 ps).ndim = 2 := rfl
@[simp] theorem shapeAt_ofVec_zero (xs : List K) : (ofVec xs).shapeAt 0 = .ok xs.length := rfl
@[simp] theorem shapeAt_ofMat3_zero (ps : List (P3 K)) : (ofMat3 ps).shapeAt 0 = .ok ps.length := rfl
@[simp] theorem shapeAt_ofMat3_one (ps : List (P3 K)) : (ofMat3 ps).shapeAt 1 = .ok 3 := rfl

theorem wf_ofVec (xs : List K) : (ofVec xs).WF := by simp [WF, ofVec, shapeSize]

theorem wf_ofMat3 (ps : List (P3 K)) : (ofMat3 ps).WF := by
  unfold WF ofMat3
  induction ps with
  | nil => simp [shapeSize]
  | cons p ps ih => simp [shapeSize, row3] at ih ⊢; omega

@[simp] theorem iter_ofVec (xs : List K) : (ofVec xs).iter = .ok (xs.map scalar) := by
  simp only [iter, ofVec, shapeSize, chunks_one, List.map_map]
  rfl

/-- a row of an `(N, 3)` array as the 1-D array iteration hands out. -/
def rowNd (p : P3 K) : NdArg K := ⟨[3], row3 p⟩

@[simp] theorem iter_ofMat3 (ps : List (P3 K)) : (ofMat3 ps).iter = .ok (ps.map rowNd) := by
  simp only [iter, ofMat3, shapeSize, Nat.mul_one]
  rw [chunks_flatMap row3 3 ps (fun _ _ => rfl), List.map_map]
  rfl

/-- **Representation of well-shaped arrays**: data fitting the shape `(n,)`. -/
theorem repr_vec (a : NdArg K) (n : Nat) (hs : a.shape = [n]) (hw : a.WF) : a = ofVec a.data ∧ a.data.length = n := by
  obtain ⟨sh, d⟩ := a
  simp only [WF, shapeSize, Nat.mul_one] at hw hs ⊢
  subst hs
  simp only [shapeSize, Nat.mul_one] at hw
  exact ⟨by simp [ofVec, hw], hw⟩

/-- **Representation of well-shaped arrays**: data fitting the shape `(n, 3)`. -/
theorem repr_mat3 (a : NdArg K) (n : Nat) (hs : a.shape = [n, 3]) (hw : a.WF) :
    ∃ ps : List (P3 K), a = ofMat3 ps ∧ ps.length = n := by
  obtain ⟨sh, d⟩ := a
  simp only at hs
  subst hs
  simp only [WF, shapeSize, Nat.mul_one] at hw
  obtain ⟨h1, h2⟩ := chunks_flatten 3 n d hw
  have hl := chunks_length 3 n d
  -- each block has three entries
  have key : ∀ (rows : List (List K)), (∀ r ∈ rows, r.length = 3) →
      ∃ ps : List (P3 K), ps.flatMap row3 = rows.flatten ∧ ps.length = rows.length := by
    intro rows
    induction rows with
    | nil => intro _; exact ⟨[], rfl, rfl⟩
    | cons r rows ih =>
      intro h
      obtain ⟨ps, hp1, hp2⟩ := ih (fun r' hr' => h r' (by simp [hr']))
      have hr : r.length = 3 := h r (by simp)
      match r, hr with
      | [x, y, z], _ =>
        exact ⟨(x, y, z) :: ps, by simp [row3, hp1], by simp [hp2]⟩
  obtain ⟨ps, hp1, hp2⟩ := key _ h2
  refine ⟨ps, ?_, by rw [hp2, hl]⟩
  simp only [ofMat3, hp1, h1, hp2, hl]

end shapes

/-! ### the numeric primitives on well-shaped arrays -/

section numeric
variable {K : Type} [Add K] [Sub K] [Mul K] [Div K] [Neg K] [NatCast K] [Elem K]
  [LT K] [LE K] [DecidableLT K] [DecidableLE K]

/-- `points - center` for an `(N, 3)` array and one row. -/
def diffMat3 (ps : List (P3 K)) (c : P3 K) : NdArg K :=
  ⟨[ps.length, 3], ps.flatMap fun p => [p.1 - c.1, p.2.1 - c.2.1, p.2.2 - c.2.2]⟩

theorem npSub_row (ps : List (P3 K)) (c : P3 K) : npSub (ofMat3 ps) (rowNd c) = .ok (diffMat3 ps c) := by
  simp only [npSub, rowNd, ofMat3, lastAxis, dropLastAxis, shapeSize, Nat.mul_one, if_true, diffMat3]
  rw [chunks_flatMap row3 3 ps (fun _ _ => rfl)]
  simp only [List.flatMap_map, row3, List.zipWith_cons_cons, List.zipWith_nil_right]
  rfl

/-- `np.linalg.norm(points - center, axis=-1)`: the distances `dist3` of the hand model. -/
theorem npNorm_diff (ps : List (P3 K)) (c : P3 K) :
    npNormLastAxis (diffMat3 ps c) = .ok (ofVec (ps.map fun p => dist3 p c)) := by
  simp only [npNormLastAxis, diffMat3, lastAxis, dropLastAxis, shapeSize, Nat.mul_one]
  rw [chunks_flatMap _ 3 ps (fun _ _ => rfl), List.map_map]
  simp only [ofVec, List.length_map]
  rfl

theorem npZeros1_eq (n : Nat) : (npZeros1 n : NdArg K) = ofVec (List.replicate n ((0 : Nat) : K)) := by
  simp [npZeros1, ofVec]

theorem callArr_vec (f : K → K → Bool → K) (rej : K → K → Bool) (rs : List K) (a : K) (n : Bool) :
    callArr f rej (ofVec rs) (scalar a) n =
      if rejectsArr rej rs a then .error Err.valueError else .ok (ofVec (rs.map fun x => f x a n)) := by
  simp only [callArr, scalar, ofVec, List.length_map]
  rfl

theorem npMul_scalar_vec (k : K) (xs : List K) :
    npMul (scalar k) (ofVec xs) = .ok (ofVec (xs.map fun y => k * y)) := by
  simp only [npMul, scalar, ofVec, List.length_map]
  rfl

theorem npIAdd_vec (v x : List K) (h : v.length = x.length) :
    npIAdd (ofVec v) (ofVec x) = .ok (ofVec (List.zipWith (fun a b => a + b) v x)) := by
  simp only [npIAdd, ofVec, h, if_true, List.length_zipWith, Nat.min_self]
  rfl

/-- The three arrays of a list of Gaussians: centres `(k, 3)`, coefficients `(k,)`, exponents `(k,)`. -/
def centersOf (gs : List (Gauss K)) : NdArg K := ofMat3 (gs.map (·.center))
def coeffsOf (gs : List (Gauss K)) : NdArg K := ofVec (gs.map (·.coeff))
def alphasOf (gs : List (Gauss K)) : NdArg K := ofVec (gs.map (·.alpha))

theorem zip_of (gs : List (Gauss K)) :
    pyZip3 ((gs.map (·.coeff)).map scalar) ((gs.map (·.alpha)).map scalar) ((gs.map (·.center)).map rowNd)
      = gs.map fun g => (scalar g.coeff, scalar g.alpha, rowNd g.center) := by
  simp only [List.map_map]
  exact pyZip3_map' _ _ _ gs

theorem exists_gauss (ps : List (P3 K)) (ks as : List K) (hk : ks.length = ps.length) (ha : as.length = ps.length) :
    ∃ gs : List (Gauss K), gs.map (·.center) = ps ∧ gs.map (·.coeff) = ks ∧ gs.map (·.alpha) = as := by
  induction ps generalizing ks as with
  | nil =>
    refine ⟨[], rfl, ?_, ?_⟩
    · exact (List.eq_nil_of_length_eq_zero (by simpa using hk)).symm
    · exact (List.eq_nil_of_length_eq_zero (by simpa using ha)).symm
  | cons p ps ih =>
    match ks, as, hk, ha with
    | k :: ks, a :: as, hk, ha =>
      obtain ⟨gs, h1, h2, h3⟩ := ih ks as (by simpa using hk) (by simpa using ha)
      exact ⟨⟨p, k, a⟩ :: gs, by simp [h1], by simp [h2], by simp [h3]⟩

/-- **Representation**: arrays of shapes `(k, 3)`, `(k,)`, `(k,)` whose data fit are the arrays of a
list of `k` Gaussians. -/
theorem repr_gauss (c k a : NdArg K) (n : Nat) (hc : c.shape = [n, 3]) (hk : k.shape = [n]) (ha : a.shape = [n])
    (wc : c.WF) (wk : k.WF) (wa : a.WF) :
    ∃ gs : List (Gauss K), c = centersOf gs ∧ k = coeffsOf gs ∧ a = alphasOf gs := by
  obtain ⟨ps, hps, hpl⟩ := repr_mat3 c n hc wc
  obtain ⟨hks, hkl⟩ := repr_vec k n hk wk
  obtain ⟨has, hal⟩ := repr_vec a n ha wa
  obtain ⟨gs, h1, h2, h3⟩ := exists_gauss ps k.data a.data (by omega) (by omega)
  refine ⟨gs, ?_, ?_, ?_⟩
  · rw [centersOf, h1]; exact hps
  · rw [coeffsOf, h2]; exact hks
  · rw [alphasOf, h3]; exact has

/-- One pass of the accumulation loop, as a function of the array `V` and the zipped triple. -/
def StepSpec (f : K → K → Bool → K) (rej : K → K → Bool) (n : Bool) (pts : List (P3 K))
    (body : NdArg K → NdArg K × NdArg K × NdArg K → Except Err (NdArg K)) : Prop :=
  ∀ (v : List K) (g : Gauss K), v.length = pts.length →
    body (ofVec v) (scalar g.coeff, scalar g.alpha, rowNd g.center) =
      if rejectsArr rej (pts.map fun p => dist3 p g.center) g.alpha then .error Err.valueError
      else .ok (ofVec (List.zipWith (fun v0 p => v0 + g.coeff * f (dist3 p g.center) g.alpha n) v pts))

/-- **Loop lemma.**  Folding a step that satisfies `StepSpec` over the Gaussians, array-wise,
is: rejected iff the array-level guard fires for some Gaussian, else at every point the fold
`accumulate` of the hand model over the Gaussians. -/
theorem foldlM_steps (f : K → K → Bool → K) (rej : K → K → Bool) (n : Bool) (pts : List (P3 K))
    (body : NdArg K → NdArg K × NdArg K × NdArg K → Except Err (NdArg K)) (hb : StepSpec f rej n pts body)
    (gs : List (Gauss K)) (v : List K) (hv : v.length = pts.length) :
    (gs.map fun g => (scalar g.coeff, scalar g.alpha, rowNd g.center)).foldlM body (ofVec v) =
      if gs.any (fun g => rejectsArr rej (pts.map fun p => dist3 p g.center) g.alpha) then .error Err.valueError
      else .ok (ofVec (List.zipWith (fun v0 p => accumulate f n p gs v0) v pts)) := by
  induction gs generalizing v with
  | nil =>
    simp only [List.map_nil, List.foldlM_nil, List.any_nil, accumulate, List.foldl_nil]
    have : List.zipWith (fun (v0 : K) (_ : P3 K) => v0) v pts = v := by
      clear hb
      induction v generalizing pts with
      | nil => simp
      | cons a v ih =>
        cases pts with
        | nil => simp at hv
        | cons p pts => simp [ih pts (by simpa using hv)]
    simp [this, pure, Except.pure]
  | cons g gs ih =>
    simp only [List.map_cons, List.foldlM_cons, List.any_cons]
    rw [hb v g hv]
    by_cases hr : rejectsArr rej (pts.map fun p => dist3 p g.center) g.alpha = true
    · simp [hr, bind, Except.bind]
    · simp only [hr, Bool.false_eq_true, if_false, Bool.false_or, bind, Except.bind]
      rw [ih _ (by simp [hv])]
      congr 2
      rw [zipWith_zipWith_left]
      simp only [accumulate, List.foldl_cons]

end numeric

/-! ### `LoadM` computations applied to a state of the cache -/

section loadm
variable {α β : Type}

theorem LoadM.bind_apply (m : LoadM α) (f : α → LoadM β) (c : Cache) :
    (m >>= f).run c = match m.run c with
      | (.ok a, c') => (f a).run c'
      | (.error e, c') => (.error e, c') := rfl

theorem LoadM.pure_apply (a : α) (c : Cache) : (pure a : LoadM α).run c = (.ok a, c) := rfl
theorem LoadM.throw_apply (e : Err) (c : Cache) : (throw e : LoadM α).run c = (.error e, c) := rfl
theorem LoadM.lift_apply (x : Except Err α) (c : Cache) : (liftM x : LoadM α).run c = (x, c) := rfl

theorem LoadM.ite_apply (p : Prop) [Decidable p] (a b : LoadM α) (c : Cache) :
    (if p then a else b).run c = if p then a.run c else b.run c := by
  split <;> rfl

theorem getCache_apply (c : Cache) : getCache.run c = (.ok c, c) := rfl
theorem setCache_apply (v c : Cache) : (setCache v).run c = (.ok (), v) := rfl

theorem pyTry_apply (body handler : LoadM α) (cls : ExcClass) (c : Cache) :
    (pyTry body cls handler).run c = match body.run c with
      | (.ok a, c') => (.ok a, c')
      | (.error e, c') => if e.isInstance cls then handler.run c' else (.error e, c') := rfl

theorem pyOpen_apply (env : LoaderEnv) (p : ResPath) (c : Cache) :
    (pyOpen env p).run c = match env.readJson p.pkg p.name with
      | some j => (.ok j, c)
      | none => (.error Err.osError, c) := rfl

theorem pyStr_str (s : String) : pyStr (.str s) = .ok s := rfl
theorem pyIntOf_int (n : Int) : pyIntOf (.int n) = .ok n := rfl
theorem pyIntOf_npInt (n : Int) : pyIntOf (.npInt n) = .ok n := rfl
theorem pyIntOf_bool (b : Bool) : pyIntOf (.bool b) = .ok (if b then 1 else 0) := rfl

/-- continuation of a computation whose outcome is known. -/
def bindSpec (r : Except Err α × Cache) (specf : α → Cache → Except Err β × Cache) : Except Err β × Cache :=
  match r with
  | (.ok a, c') => specf a c'
  | (.error e, c') => (.error e, c')

theorem split_bind (m : LoadM α) (f : α → LoadM β) (c : Cache)
    (spec1 : Except Err α × Cache) (specf : α → Cache → Except Err β × Cache)
    (h1 : m.run c = spec1) (h2 : ∀ a c', (f a).run c' = specf a c') :
    (m >>= f).run c = bindSpec spec1 specf := by
  rw [LoadM.bind_apply, h1]
  obtain ⟨r, c'⟩ := spec1
  cases r <;> simp [bindSpec, h2]

theorem jsonLoad_apply (f : JsonTable) (c : Cache) : (jsonLoad f).run c = (.ok f, c) := rfl

end loadm

end GridVerif.Coulomb

/-
  C08 — index bookkeeping of the real spherical harmonics (pure `Nat`/`Int`/`List`):
  `rowIndex` is a bijection from `{(l, m) | l ≤ L, |m| ≤ l}` onto `[0, (L+1)²)` and it is the
  position of `(l, m)` in the Horton-2 enumeration `lmOrder L`.  No Mathlib.
-/
import GridVerif.Model.Harmonics

namespace GridVerif.Harmonics

theorem indexM_zero : indexM 0 = 0 := by simp [indexM]

theorem indexM_pos (k : Nat) (hk : 0 < k) : indexM (k : Int) = 2 * k - 1 := by
  unfold indexM
  have : (0 : Int) < (k : Int) := by omega
  simp only [this, ↓reduceIte]
  omega

theorem indexM_neg (k : Nat) : indexM (-(k : Int)) = 2 * k := by
  unfold indexM
  have : ¬ (0 : Int) < -(k : Int) := by omega
  simp only [this, ↓reduceIte]
  omega

theorem indexM_le (l : Nat) (m : Int) (h : m.natAbs ≤ l) : indexM m ≤ 2 * l := by
  unfold indexM
  split <;> omega

theorem rowIndex_lt_succ_sq (l : Nat) (m : Int) (h : m.natAbs ≤ l) :
    l * l ≤ rowIndex l m ∧ rowIndex l m < (l + 1) * (l + 1) := by
  have := indexM_le l m h
  unfold rowIndex
  constructor
  · omega
  · have : (l + 1) * (l + 1) = l * l + 2 * l + 1 := by
      simp [Nat.mul_add, Nat.add_mul]; omega
    omega

theorem sq_mono {a b : Nat} (h : a ≤ b) : a * a ≤ b * b := Nat.mul_le_mul h h

/-- `rowIndex` maps `{l ≤ L, |m| ≤ l}` into `[0, (L+1)²)`. -/
theorem rowIndex_lt (L l : Nat) (m : Int) (hl : l ≤ L) (h : m.natAbs ≤ l) :
    rowIndex l m < (L + 1) * (L + 1) := by
  have h1 := (rowIndex_lt_succ_sq l m h).2
  have h2 : (l + 1) * (l + 1) ≤ (L + 1) * (L + 1) := sq_mono (by omega)
  omega

theorem indexM_inj (m m' : Int) (h : indexM m = indexM m') : m = m' := by
  unfold indexM at h
  split at h <;> split at h <;> omega

/-- `rowIndex` is injective on admissible pairs. -/
theorem rowIndex_inj (l l' : Nat) (m m' : Int) (h : m.natAbs ≤ l) (h' : m'.natAbs ≤ l')
    (e : rowIndex l m = rowIndex l' m') : l = l' ∧ m = m' := by
  have a := rowIndex_lt_succ_sq l m h
  have a' := rowIndex_lt_succ_sq l' m' h'
  have hl : l = l' := by
    rcases Nat.lt_trichotomy l l' with hlt | heq | hgt
    · have : (l + 1) * (l + 1) ≤ l' * l' := sq_mono hlt
      omega
    · exact heq
    · have : (l' + 1) * (l' + 1) ≤ l * l := sq_mono hgt
      omega
  subst hl
  refine ⟨rfl, indexM_inj m m' ?_⟩
  unfold rowIndex at e
  omega

/-- `rowIndex` is onto `[0, (L+1)²)`. -/
theorem rowIndex_surj (L i : Nat) (h : i < (L + 1) * (L + 1)) :
    ∃ l m, l ≤ L ∧ Int.natAbs m ≤ l ∧ rowIndex l m = i := by
  induction L with
  | zero =>
    refine ⟨0, 0, Nat.le_refl _, by simp, ?_⟩
    simp [rowIndex, indexM] at *; omega
  | succ L ih =>
    by_cases hi : i < (L + 1) * (L + 1)
    · obtain ⟨l, m, hl, hm, e⟩ := ih hi
      exact ⟨l, m, by omega, hm, e⟩
    · have hexp : (L + 1 + 1) * (L + 1 + 1) = (L + 1) * (L + 1) + 2 * (L + 1) + 1 := by
        simp [Nat.mul_add, Nat.add_mul]; omega
      -- j = i - (L+1)² ∈ [0, 2(L+1)]
      by_cases hj0 : i = (L + 1) * (L + 1)
      · exact ⟨L + 1, 0, Nat.le_refl _, by simp, by simp [rowIndex, indexM, hj0]⟩
      · by_cases hodd : (i - (L + 1) * (L + 1)) % 2 = 1
        · refine ⟨L + 1, (((i - (L + 1) * (L + 1) + 1) / 2 : Nat) : Int), Nat.le_refl _, by omega, ?_⟩
          unfold rowIndex
          rw [indexM_pos _ (by omega)]
          omega
        · refine ⟨L + 1, -(((i - (L + 1) * (L + 1)) / 2 : Nat) : Int), Nat.le_refl _, by omega, ?_⟩
          unfold rowIndex
          rw [indexM_neg]
          omega

/-! ### the enumeration `lmOrder` -/

theorem mValues_succ (l : Nat) :
    mValues (l + 1) = mValues l ++ [((l + 1 : Nat) : Int), -((l + 1 : Nat) : Int)] := by
  unfold mValues
  rw [List.range'_concat]
  simp [List.flatMap_append, Nat.add_comm]

theorem mValues_length (l : Nat) : (mValues l).length = 2 * l + 1 := by
  induction l with
  | zero => simp [mValues]
  | succ l ih => rw [mValues_succ, List.length_append, ih]; simp; omega

theorem mValues_natAbs_le (l : Nat) : ∀ m ∈ mValues l, Int.natAbs m ≤ l := by
  induction l with
  | zero => simp [mValues]
  | succ l ih =>
    intro m hm
    rw [mValues_succ] at hm
    rcases List.mem_append.mp hm with h | h
    · have := ih m h; omega
    · simp at h; rcases h with h | h <;> subst h <;> omega

/-- position of `m` inside the block of one degree. -/
theorem mValues_getElem? (l : Nat) (m : Int) (h : m.natAbs ≤ l) :
    (mValues l)[indexM m]? = some m := by
  induction l with
  | zero =>
    have : m = 0 := by omega
    subst this; simp [mValues, indexM]
  | succ l ih =>
    rw [mValues_succ]
    by_cases hm : m.natAbs ≤ l
    · rw [List.getElem?_append_left]
      · exact ih hm
      · rw [mValues_length]; have := indexM_le l m hm; omega
    · have hab : m.natAbs = l + 1 := by omega
      rcases Int.natAbs_eq m with e | e
      · -- m = l + 1
        have em : m = ((l + 1 : Nat) : Int) := by rw [hab] at e; exact e
        subst em
        rw [indexM_pos _ (by omega), List.getElem?_append_right (by rw [mValues_length]; omega), mValues_length]
        have : 2 * (l + 1) - 1 - (2 * l + 1) = 0 := by omega
        rw [this]; rfl
      · have em : m = -((l + 1 : Nat) : Int) := by rw [hab] at e; exact e
        subst em
        rw [indexM_neg, List.getElem?_append_right (by rw [mValues_length]; omega), mValues_length]
        have : 2 * (l + 1) - (2 * l + 1) = 1 := by omega
        rw [this]; rfl

theorem lmOrder_succ (L : Nat) :
    lmOrder (L + 1) = lmOrder L ++ (mValues (L + 1)).map (fun m => (L + 1, m)) := by
  unfold lmOrder
  rw [List.range_succ, List.flatMap_append]
  simp

theorem lmOrder_zero : lmOrder 0 = [(0, 0)] := by
  simp [lmOrder, mValues]

theorem lmOrder_length (L : Nat) : (lmOrder L).length = (L + 1) * (L + 1) := by
  induction L with
  | zero => simp [lmOrder_zero]
  | succ L ih =>
    rw [lmOrder_succ, List.length_append, ih, List.length_map, mValues_length]
    simp [Nat.mul_add, Nat.add_mul]; omega

theorem lmOrder_mem (L : Nat) : ∀ lm ∈ lmOrder L, lm.1 ≤ L ∧ Int.natAbs lm.2 ≤ lm.1 := by
  induction L with
  | zero => simp [lmOrder_zero]
  | succ L ih =>
    intro lm h
    rw [lmOrder_succ] at h
    rcases List.mem_append.mp h with h | h
    · have := ih lm h; omega
    · obtain ⟨m, hm, e⟩ := List.mem_map.mp h
      subst e
      exact ⟨Nat.le_refl _, mValues_natAbs_le _ m hm⟩

/-- **Row order.** The row of `(l, m)` in the Horton-2 enumeration of the degrees `0..L` is
`rowIndex l m`. -/
theorem lmOrder_getElem? (L l : Nat) (m : Int) (hl : l ≤ L) (h : m.natAbs ≤ l) :
    (lmOrder L)[rowIndex l m]? = some (l, m) := by
  induction L with
  | zero =>
    have : l = 0 := by omega
    subst this
    have : m = 0 := by omega
    subst this
    simp [lmOrder_zero, rowIndex, indexM]
  | succ L ih =>
    rw [lmOrder_succ]
    by_cases hl' : l ≤ L
    · rw [List.getElem?_append_left]
      · exact ih hl'
      · rw [lmOrder_length]; exact rowIndex_lt L l m hl' h
    · have : l = L + 1 := by omega
      subst this
      have hlow := (rowIndex_lt_succ_sq (L + 1) m h).1
      rw [List.getElem?_append_right (by rw [lmOrder_length]; exact hlow), lmOrder_length]
      have : rowIndex (L + 1) m - (L + 1) * (L + 1) = indexM m := by unfold rowIndex; omega
      rw [this, List.getElem?_map, mValues_getElem? _ _ h]
      rfl

/-- The degree list of `solid_harmonics` is the list of the degrees of the rows. -/
theorem degreeList_eq (L : Nat) : degreeList L = (lmOrder L).map Prod.fst := by
  unfold degreeList lmOrder
  rw [List.map_flatMap]
  congr 1
  funext l
  rw [List.map_map]
  have : (Prod.fst ∘ fun m : Int => (l, m)) = fun _ => l := rfl
  rw [this, List.map_const', mValues_length]

end GridVerif.Harmonics

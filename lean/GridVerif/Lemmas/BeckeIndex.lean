/-
  C06 — helper lemmas, index layer: Python slice arithmetic, the sector folds, the chunk loop.
  Everything here holds for any carrier `K` (no ring laws), except the `ℝ` lemmas at the end.
-/
import GridVerif.Model.Becke
import Mathlib.Tactic.Ring
import Mathlib.Tactic.Linarith
import Mathlib.Data.Real.Basic

namespace GridVerif.Becke
open GridVerif.Gen.Becke

/-! ### slices -/

theorem pyNorm_nonneg {len : ℕ} {a : ℤ} (ha : 0 ≤ a) : pyNorm len a = min a.toNat len := by
  unfold pyNorm; rw [if_neg (by omega)]

/-- **the clip/shift arithmetic of `__call__`**: for a non-negative table entry pair, local position `j`
of the chunk starting at `b` lies in the shifted-and-clipped slice iff the global position `b + j`
lies in the original one. `L` is the number of points in the chunk. -/
theorem inSlice_shift {N L c b j : ℕ} {a a' : ℤ} (ha : 0 ≤ a) (ha' : 0 ≤ a')
    (hj : j < L) (hL : b + L ≤ N) :
    inSlice L (shiftInd c b a) (shiftInd c b a') j = inSlice N a a' (b + j) := by
  have s1 : 0 ≤ shiftInd c b a := by unfold shiftInd; omega
  have s2 : 0 ≤ shiftInd c b a' := by unfold shiftInd; omega
  unfold inSlice
  rw [pyNorm_nonneg s1, pyNorm_nonneg s2, pyNorm_nonneg ha, pyNorm_nonneg ha']
  unfold shiftInd
  congr 1
  apply propext
  omega

theorem pySlice_eq {α : Type} (l : List α) (b c : ℕ) :
    pySlice l (sliceLo l.length c b) (sliceHi l.length c b) = (l.drop b).take c := by
  unfold pySlice sliceLo sliceHi
  rw [pyNorm_nonneg (by omega), pyNorm_nonneg (by omega)]
  simp only [Int.toNat_natCast]
  rw [List.drop_take]
  by_cases h : b ≤ l.length
  · rw [Nat.min_eq_left h]
    apply List.ext_getElem
    · simp; omega
    · intro i h1 h2; simp
  · have : l.drop b = [] := List.drop_eq_nil_of_le (by omega)
    simp [this]
    omega

/-! ### sector lists -/

theorem secsZip_map (t : List ℤ) (sel : List ℕ) (f : ℤ → ℤ) :
    secsZip (t.map f) sel = (secsZip t sel).map fun s => ((f s.1.1, f s.1.2), s.2) := by
  unfold secsZip
  rw [← List.map_tail, List.zip_map, List.zip_map_left]
  congr 1

theorem mem_secsZip_nonneg {t : List ℤ} {sel : List ℕ} (ht : ∀ a ∈ t, 0 ≤ a) {s : Sector}
    (hs : s ∈ secsZip t sel) : 0 ≤ s.1.1 ∧ 0 ≤ s.1.2 := by
  unfold secsZip at hs
  obtain ⟨⟨a, a'⟩, k⟩ := s
  have h1 := (List.of_mem_zip hs).1
  have h2 := List.of_mem_zip h1
  exact ⟨ht _ h2.1, ht _ (List.mem_of_mem_tail h2.2)⟩

theorem secsZip_length (t : List ℤ) (M : ℕ) (ht : t.length = M + 1) :
    (secsZip t (List.range M)).length = M := by
  unfold secsZip; simp [ht]

theorem secsZip_getElem (t : List ℤ) (M : ℕ) (ht : t.length = M + 1) (k : ℕ) (hk : k < M)
    (h : k < (secsZip t (List.range M)).length) :
    (secsZip t (List.range M))[k] = ((t[k]'(by omega), t[k + 1]'(by omega)), k) := by
  simp only [secsZip, List.getElem_zip, List.getElem_tail, List.getElem_range]

theorem secsIdx_range (t : List ℤ) (M : ℕ) (ht : t.length = M + 1) :
    secsIdx t (List.range M) = secsZip t (List.range M) := by
  apply List.ext_getElem
  · rw [secsZip_length t M ht]; simp [secsIdx]
  · intro k h1 h2
    have hk : k < M := by simpa [secsIdx] using h1
    rw [secsZip_getElem t M ht k hk]
    simp only [secsIdx, List.getElem_map, List.getElem_range]
    rw [List.getD_eq_getElem?_getD, List.getD_eq_getElem?_getD,
      List.getElem?_eq_getElem (by omega), List.getElem?_eq_getElem (by omega)]
    simp

section generic
set_option linter.unusedSectionVars false
variable {P K : Type} [Add K] [NatCast K]

/-! ### `generate_weights` with the default `select` -/

/-- entry `j` of `generate_weights(points, …, pt_ind=t)` (default `select`), when it does not raise. -/
def gwVal (w : P → ℕ → K) (M len : ℕ) (t : List ℤ) (j : ℕ) (p : P) : K :=
  if max (t.length - 1) 1 = 1 then w p 0 else accumulate w len (secsZip t (List.range M)) j p

theorem range_any_false (M : ℕ) : (List.range M).any (fun k => decide (M ≤ k)) = false := by
  rw [List.any_eq_false]
  intro k hk
  have := List.mem_range.mp hk
  simp; omega

theorem generateWeights_default (w : P → ℕ → K) (M : ℕ) (pts : List P) (t : List ℤ) :
    generateWeights w M pts none (some t)
      = if t.length = 1 then .error .valueError
        else if max (t.length - 1) 1 ≠ M then .error .valueError
        else .ok (pts.mapIdx fun j p => gwVal w M pts.length t j p) := by
  unfold generateWeights
  simp only [Option.getD_none, Option.getD_some, List.length_range, range_any_false]
  by_cases h1 : t.length = 1
  · simp [h1]
  · simp only [h1, if_false]
    by_cases h2 : max (t.length - 1) 1 = M
    · simp only [h2, ne_eq, not_true_eq_false, if_false, Bool.false_eq_true]
      by_cases h3 : M = 1
      · subst h3
        simp only [if_true]
        have : List.range 1 = [0] := rfl
        rw [this]
        simp only [gwVal, h2, if_true]
        congr 1
        rw [List.mapIdx_eq_zipIdx_map]
        apply List.ext_getElem <;> simp
      · simp only [h3, if_false, gwVal, h2]
    · simp [h2]

/-- fold congruence for `accumulate`. -/
theorem accumulate_congr (w : P → ℕ → K) (len len' : ℕ) (secs : List Sector) (f : ℤ → ℤ) (j j' : ℕ) (p : P)
    (h : ∀ s ∈ secs, inSlice len (f s.1.1) (f s.1.2) j = inSlice len' s.1.1 s.1.2 j') :
    accumulate w len (secs.map fun s => ((f s.1.1, f s.1.2), s.2)) j p = accumulate w len' secs j' p := by
  unfold accumulate
  rw [List.foldl_map]
  generalize ((0 : ℕ) : K) = acc
  induction secs generalizing acc with
  | nil => rfl
  | cons s l ih =>
    simp only [List.foldl_cons]
    rw [h s (List.mem_cons_self)]
    exact ih (fun s' hs' => h s' (List.mem_cons_of_mem _ hs')) _

theorem gwVal_shift (w : P → ℕ → K) (M N L c b j : ℕ) (t : List ℤ) (p : P)
    (ht : ∀ a ∈ t, 0 ≤ a) (hj : j < L) (hL : b + L ≤ N) :
    gwVal w M L (t.map (shiftInd c b)) j p = gwVal w M N t (b + j) p := by
  unfold gwVal
  simp only [List.length_map]
  split_ifs
  · rfl
  · rw [secsZip_map]
    apply accumulate_congr
    intro s hs
    obtain ⟨h1, h2⟩ := mem_secsZip_nonneg ht hs
    exact inSlice_shift h1 h2 hj hL

/-! ### the chunk loop -/

theorem mapIdx_take_drop (l : List P) (c : ℕ) (g : ℕ → P → K) :
    l.mapIdx g = (l.take c).mapIdx g ++ (l.drop c).mapIdx (fun j p => g (c + j) p) := by
  by_cases h : c ≤ l.length
  · conv_lhs => rw [← List.take_append_drop c l]
    rw [List.mapIdx_append]
    congr 2
    funext j p
    rw [List.length_take, Nat.min_eq_left h, Nat.add_comm]
  · have h1 : l.take c = l := List.take_of_length_le (by omega)
    have h2 : l.drop c = [] := List.drop_eq_nil_of_le (by omega)
    simp [h1, h2]

theorem chunkLoop_ok (w : P → ℕ → K) (M : ℕ) (points : List P) (t : List ℤ) (c : ℕ) (hc : 1 ≤ c)
    (ht : ∀ a ∈ t, 0 ≤ a) (h1 : t.length ≠ 1) (h2 : max (t.length - 1) 1 = M) :
    ∀ fuel b, points.length - b ≤ fuel →
      chunkLoop w M points t c points.length c fuel b
        = .ok ((points.drop b).mapIdx fun j p => gwVal w M points.length t (b + j) p) := by
  intro fuel
  induction fuel with
  | zero =>
    intro b hb
    have : points.drop b = [] := List.drop_eq_nil_of_le (by omega)
    simp [chunkLoop, this]
  | succ fuel ih =>
    intro b hb
    unfold chunkLoop
    by_cases hstop : points.length ≤ b
    · have : points.drop b = [] := List.drop_eq_nil_of_le hstop
      simp [hstop, this]
    · rw [if_neg hstop, pySlice_eq, generateWeights_default]
      simp only [List.length_map, h1, h2, if_false, ne_eq, not_true_eq_false]
      rw [ih (b + c) (by omega)]
      simp only [bind, Except.bind, pure, Except.pure]
      congr 1
      rw [mapIdx_take_drop (points.drop b) c]
      congr 1
      · apply List.ext_getElem
        · simp
        · intro j hj1 hj2
          simp only [List.getElem_mapIdx]
          have hj : j < ((points.drop b).take c).length := by simpa using hj1
          apply gwVal_shift w M points.length _ c b j t _ ht hj
          simp only [List.length_take, List.length_drop]
          omega
      · rw [List.drop_drop]
        congr 1
        funext j p
        rw [Nat.add_assoc]

theorem chunkLoop_err (w : P → ℕ → K) (M : ℕ) (points : List P) (t : List ℤ) (c fuel b : ℕ)
    (hb : b < points.length) (hbad : t.length = 1 ∨ max (t.length - 1) 1 ≠ M) :
    chunkLoop w M points t c points.length c (fuel + 1) b = .error .valueError := by
  unfold chunkLoop
  rw [if_neg (by omega), generateWeights_default]
  simp only [List.length_map]
  rcases hbad with h | h
  · simp [h, bind, Except.bind]
  · by_cases h1 : t.length = 1
    · simp [h1, bind, Except.bind]
    · simp [h1, h, bind, Except.bind]

/-- the chunked evaluation equals the unchunked one (any carrier, any non-negative table). -/
theorem callWith_eq_generateWeights (w : P → ℕ → K) (M c : ℕ) (points : List P) (t : List ℤ)
    (hc : 1 ≤ c) (hN : points ≠ []) (ht : ∀ a ∈ t, 0 ≤ a) :
    callWith w M c points t = generateWeights w M points none (some t) := by
  have hlen : 0 < points.length := List.length_pos_iff.mpr hN
  unfold callWith
  have e1 : ¬ (loopStep points.length c = 0) := by unfold loopStep; omega
  have e2 : ¬ (loopStop points.length c ≤ loopStart points.length c) := by
    unfold loopStop loopStart; omega
  simp only [e1, e2, if_false]
  show chunkLoop w M points t c points.length c (points.length - 0) 0 = _
  rw [generateWeights_default]
  by_cases h1 : t.length = 1
  · rw [if_pos h1]
    obtain ⟨f, hf⟩ : ∃ f, points.length - 0 = f + 1 := ⟨points.length - 1, by omega⟩
    rw [hf]
    exact chunkLoop_err w M points t c f 0 hlen (Or.inl h1)
  · rw [if_neg h1]
    by_cases h2 : max (t.length - 1) 1 = M
    · rw [if_neg (by simpa using h2)]
      rw [chunkLoop_ok w M points t c hc ht h1 h2 _ 0 (le_refl _)]
      simp
    · rw [if_pos h2]
      obtain ⟨f, hf⟩ : ∃ f, points.length - 0 = f + 1 := ⟨points.length - 1, by omega⟩
      rw [hf]
      exact chunkLoop_err w M points t c f 0 hlen (Or.inr h2)

end generic

/-! ### a monotone table: every point has exactly one owner -/

/-- index tables: `M + 1` non-negative, ascending entries. -/
structure IndexTable (t : List ℤ) (M : ℕ) : Prop where
  length : t.length = M + 1
  nonneg : ∀ a ∈ t, 0 ≤ a
  mono : t.Pairwise (· ≤ ·)

theorem IndexTable.le {t : List ℤ} {M : ℕ} (h : IndexTable t M) {i k : ℕ} (hik : i ≤ k) (hk : k < t.length) :
    t[i]'(by omega) ≤ t[k] := by
  rcases Nat.lt_or_eq_of_le hik with h1 | h1
  · exact (List.pairwise_iff_getElem.mp h.mono) i k (by omega) hk h1
  · subst h1; exact le_refl _

theorem inSlice_iff {N j : ℕ} {a a' : ℤ} (ha : 0 ≤ a) (ha' : 0 ≤ a') (hj : j < N) :
    inSlice N a a' j = true ↔ a ≤ j ∧ (j : ℤ) < a' := by
  unfold inSlice
  rw [pyNorm_nonneg ha, pyNorm_nonneg ha']
  simp only [decide_eq_true_eq]
  omega

/-- in a monotone table, position `j` of segment `i` lies in no other segment. -/
theorem IndexTable.unique {t : List ℤ} {M N : ℕ} (h : IndexTable t M) {i j : ℕ} (hi : i < M) (hj : j < N)
    (hin : t[i]'(by have := h.length; omega) ≤ j ∧ (j : ℤ) < t[i + 1]'(by have := h.length; omega))
    (k : ℕ) (hk : k < M) (hne : k ≠ i) :
    inSlice N (t[k]'(by have := h.length; omega)) (t[k + 1]'(by have := h.length; omega)) j = false := by
  have hl := h.length
  have n1 := h.nonneg _ (List.getElem_mem (show k < t.length by omega))
  have n2 := h.nonneg _ (List.getElem_mem (show k + 1 < t.length by omega))
  rw [Bool.eq_false_iff]
  intro hc
  rw [inSlice_iff n1 n2 hj] at hc
  rcases Nat.lt_or_gt_of_ne hne with hlt | hgt
  · have := h.le (show k + 1 ≤ i by omega) (show i < t.length by omega)
    omega
  · have := h.le (show i + 1 ≤ k by omega) (show k < t.length by omega)
    omega

/-- a table from `0` to `N` covers every position. -/
theorem exists_owner {t : List ℤ} {M N : ℕ} (hl : t.length = M + 1) (h0 : t[0]'(by omega) = 0)
    (hN : t[M]'(by omega) = N) {j : ℕ} (hj : j < N) :
    ∃ i, ∃ hi : i < M, t[i]'(by omega) ≤ j ∧ (j : ℤ) < t[i + 1]'(by omega) := by
  have key : ∀ k, ∀ hk : k ≤ M, (j : ℤ) < t[k]'(by omega) →
      ∃ i, ∃ hi : i < M, t[i]'(by omega) ≤ j ∧ (j : ℤ) < t[i + 1]'(by omega) := by
    intro k
    induction k with
    | zero => intro _ h; rw [h0] at h; omega
    | succ k ih =>
      intro hk h
      by_cases hle : t[k]'(by omega) ≤ j
      · exact ⟨k, by omega, hle, h⟩
      · exact ih (by omega) (by omega)
  exact key M (le_refl _) (by rw [hN]; exact_mod_cast hj)

/-! ### folds with exactly one hit (ℝ) -/

theorem foldl_add_none {σ : Type} (l : List σ) (c : σ → Bool) (v : σ → ℝ) (acc : ℝ)
    (h : ∀ s ∈ l, c s = false) : l.foldl (fun a s => if c s then a + v s else a) acc = acc := by
  induction l generalizing acc with
  | nil => rfl
  | cons s l ih =>
    simp only [List.foldl_cons, h s List.mem_cons_self, Bool.false_eq_true, if_false]
    exact ih _ (fun s' hs' => h s' (List.mem_cons_of_mem _ hs'))

theorem foldl_add_unique {σ : Type} (l : List σ) (c : σ → Bool) (v : σ → ℝ) (acc : ℝ) (i : ℕ)
    (hi : i < l.length) (hc : c l[i] = true)
    (hu : ∀ k (hk : k < l.length), k ≠ i → c l[k] = false) :
    l.foldl (fun a s => if c s then a + v s else a) acc = acc + v l[i] := by
  induction l generalizing acc i with
  | nil => simp at hi
  | cons s l ih =>
    cases i with
    | zero =>
      simp only [List.getElem_cons_zero] at hc ⊢
      simp only [List.foldl_cons, hc, if_true]
      apply foldl_add_none
      intro s' hs'
      obtain ⟨k, hk, rfl⟩ := List.getElem_of_mem hs'
      have := hu (k + 1) (by simp; omega) (by omega)
      simpa using this
    | succ i =>
      have h0 := hu 0 (by simp) (by omega)
      simp only [List.getElem_cons_zero] at h0
      simp only [List.foldl_cons, h0, Bool.false_eq_true, if_false, List.getElem_cons_succ]
      apply ih
      · simpa using hc
      · intro k hk hne
        have := hu (k + 1) (by simp; omega) (by omega)
        simpa using this

theorem foldl_set_none {σ : Type} (l : List σ) (c : σ → Bool) (v : σ → ℝ) (acc : ℝ)
    (h : ∀ s ∈ l, c s = false) : l.foldl (fun a s => if c s then v s else a) acc = acc := by
  induction l generalizing acc with
  | nil => rfl
  | cons s l ih =>
    simp only [List.foldl_cons, h s List.mem_cons_self, Bool.false_eq_true, if_false]
    exact ih _ (fun s' hs' => h s' (List.mem_cons_of_mem _ hs'))

theorem foldl_set_unique {σ : Type} (l : List σ) (c : σ → Bool) (v : σ → ℝ) (acc : ℝ) (i : ℕ)
    (hi : i < l.length) (hc : c l[i] = true)
    (hu : ∀ k (hk : k < l.length), k ≠ i → c l[k] = false) :
    l.foldl (fun a s => if c s then v s else a) acc = v l[i] := by
  induction l generalizing acc i with
  | nil => simp at hi
  | cons s l ih =>
    cases i with
    | zero =>
      simp only [List.getElem_cons_zero] at hc ⊢
      simp only [List.foldl_cons, hc, if_true]
      apply foldl_set_none
      intro s' hs'
      obtain ⟨k, hk, rfl⟩ := List.getElem_of_mem hs'
      have := hu (k + 1) (by simp; omega) (by omega)
      simpa using this
    | succ i =>
      have h0 := hu 0 (by simp) (by omega)
      simp only [List.getElem_cons_zero] at h0
      simp only [List.foldl_cons, h0, Bool.false_eq_true, if_false, List.getElem_cons_succ]
      apply ih
      · simpa using hc
      · intro k hk hne
        have := hu (k + 1) (by simp; omega) (by omega)
        simpa using this

/-- on a monotone table the accumulated value at a position of segment `i` is atom `i`'s. -/
theorem accumulate_owner {P : Type} (w : P → ℕ → ℝ) {t : List ℤ} {M N : ℕ} (h : IndexTable t M)
    {i j : ℕ} (hi : i < M) (hj : j < N) (p : P)
    (hin : t[i]'(by have := h.length; omega) ≤ j ∧ (j : ℤ) < t[i + 1]'(by have := h.length; omega)) :
    accumulate w N (secsZip t (List.range M)) j p = w p i := by
  have hl := h.length
  have hlen := secsZip_length t M hl
  unfold accumulate
  have := foldl_add_unique (secsZip t (List.range M)) (fun s => inSlice N s.1.1 s.1.2 j)
    (fun s => w p s.2) ((0 : ℕ) : ℝ) i (by omega)
    (by
      rw [secsZip_getElem t M hl i hi]
      have n1 := h.nonneg _ (List.getElem_mem (show i < t.length by omega))
      have n2 := h.nonneg _ (List.getElem_mem (show i + 1 < t.length by omega))
      exact (inSlice_iff n1 n2 hj).mpr hin)
    (by
      intro k hk hne
      rw [secsZip_getElem t M hl k (by omega)]
      exact h.unique hi hj hin k (by omega) hne)
  rw [this, secsZip_getElem t M hl i hi]
  simp

theorem overwrite_owner {P : Type} (w : P → ℕ → ℝ) {t : List ℤ} {M N : ℕ} (h : IndexTable t M)
    {i j : ℕ} (hi : i < M) (hj : j < N) (p : P)
    (hin : t[i]'(by have := h.length; omega) ≤ j ∧ (j : ℤ) < t[i + 1]'(by have := h.length; omega)) :
    overwrite w N (secsZip t (List.range M)) j p = w p i := by
  have hl := h.length
  have hlen := secsZip_length t M hl
  unfold overwrite
  have := foldl_set_unique (secsZip t (List.range M)) (fun s => inSlice N s.1.1 s.1.2 j)
    (fun s => w p s.2) ((0 : ℕ) : ℝ) i (by omega)
    (by
      rw [secsZip_getElem t M hl i hi]
      have n1 := h.nonneg _ (List.getElem_mem (show i < t.length by omega))
      have n2 := h.nonneg _ (List.getElem_mem (show i + 1 < t.length by omega))
      exact (inSlice_iff n1 n2 hj).mpr hin)
    (by
      intro k hk hne
      rw [secsZip_getElem t M hl k (by omega)]
      exact h.unique hi hj hin k (by omega) hne)
  rw [this, secsZip_getElem t M hl i hi]

end GridVerif.Becke

/-
  Chebyshev-zero orthogonality (from Mathlib's `sumZeroes_T_of_not_dvd`) and `∫_{-1}^{1} T_m`,
  used by the Fejér / Gauss–Chebyshev theorems of C01.
-/
import GridVerif.Lemmas.OneD
import Mathlib.Analysis.SpecialFunctions.Trigonometric.Chebyshev.ChebyshevGauss
import Mathlib.Tactic.FieldSimp
import Mathlib.Tactic.NormNum
import Mathlib.Analysis.Calculus.Deriv.Polynomial

namespace GridVerif.OneD
open Finset Polynomial Polynomial.Chebyshev Real

/-- Chebyshev-zero angles `θᵢ = (2i+1)π/(2n)` -/
noncomputable def chebTheta (n i : ℕ) : ℝ := π * (2 * (i : ℝ) + 1) / (2 * (n : ℝ))

theorem sum_cos_int_mul_theta {n : ℕ} (hn : n ≠ 0) {k : ℤ} (hk : ¬ (2 * n : ℤ) ∣ k) :
    ∑ i ∈ range n, cos ((k : ℝ) * chebTheta n i) = 0 := by
  have h := sumZeroes_T_of_not_dvd (n := n) hk
  unfold sumZeroes at h
  have hpn : π / (n : ℝ) ≠ 0 := by
    have : (n : ℝ) ≠ 0 := by exact_mod_cast hn
    positivity
  have h2 := (mul_eq_zero.mp h).resolve_left hpn
  rw [← h2]
  apply sum_congr rfl
  intro i _
  rw [T_real_cos]
  unfold chebTheta
  congr 1
  have : (n : ℝ) ≠ 0 := by exact_mod_cast hn
  field_simp

theorem sum_cos_mul_cos_theta {n : ℕ} (hn : n ≠ 0) (a b : ℕ) (hab : a + b < 2 * n) (hb : 0 < a + b) :
    ∑ i ∈ range n, cos ((a : ℝ) * chebTheta n i) * cos ((b : ℝ) * chebTheta n i)
      = if a = b then (n : ℝ) / 2 else 0 := by
  have hprod : ∀ x y : ℝ, cos x * cos y = (cos (x + y) + cos (x - y)) / 2 := by
    intro x y; rw [cos_add, cos_sub]; ring
  simp only [hprod, ← sum_div, sum_add_distrib]
  have h1 : ∑ i ∈ range n, cos ((a : ℝ) * chebTheta n i + (b : ℝ) * chebTheta n i) = 0 := by
    have := sum_cos_int_mul_theta hn (k := (a + b : ℤ)) (by
      intro hd
      have := Int.le_of_dvd (by omega) hd
      omega)
    rw [← this]
    apply sum_congr rfl; intro i _; push_cast; ring_nf
  rw [h1]
  by_cases hab' : a = b
  · subst hab'
    simp
  · have := sum_cos_int_mul_theta hn (k := (a - b : ℤ)) (by
      intro hd
      rcases Int.lt_or_gt_of_ne (show (a : ℤ) - b ≠ 0 by omega) with hlt | hgt
      · have := Int.le_of_dvd (show (0 : ℤ) < -((a : ℤ) - b) by omega) (by simpa using (dvd_neg.mpr hd))
        omega
      · have := Int.le_of_dvd hgt hd
        omega)
    have h2 : ∑ i ∈ range n, cos ((a : ℝ) * chebTheta n i - (b : ℝ) * chebTheta n i) = 0 := by
      rw [← this]
      apply sum_congr rfl; intro i _; push_cast; ring_nf
    rw [h2, if_neg hab']; simp

theorem sum_cos_theta {n : ℕ} (hn : n ≠ 0) (a : ℕ) (ha : a < 2 * n) :
    ∑ i ∈ range n, cos ((a : ℝ) * chebTheta n i) = if a = 0 then (n : ℝ) else 0 := by
  by_cases h0 : a = 0
  · subst h0; simp
  · rw [if_neg h0]
    have := sum_cos_int_mul_theta hn (k := (a : ℤ)) (by
      intro hd
      have := Int.le_of_dvd (by omega) hd
      omega)
    simpa using this

/-- `∫_{-1}^{1} T_m` -/
theorem integral_T (m : ℕ) :
    ∫ x in (-1 : ℝ)..1, (T ℝ m).eval x = if m % 2 = 0 then 2 / (1 - (m : ℝ) ^ 2) else 0 := by
  rcases Nat.lt_or_ge m 2 with h | h
  · interval_cases m
    · simp; norm_num
    · simp
  · obtain ⟨k, rfl⟩ : ∃ k, m = k + 2 := ⟨m - 2, by omega⟩
    have hk1 : ((k : ℝ) + 3) ≠ 0 := by positivity
    have hk2 : ((k : ℝ) + 1) ≠ 0 := by positivity
    have hderiv : ∀ x ∈ Set.uIcc (-1 : ℝ) 1,
        HasDerivAt (fun x => (1 / 2 : ℝ) * ((T ℝ (k + 3 : ℤ)).eval x / (k + 3) - (T ℝ (k + 1 : ℤ)).eval x / (k + 1)))
          ((T ℝ ((k + 2 : ℕ) : ℤ)).eval x) x := by
      intro x _
      have h1 := (T ℝ (k + 3 : ℤ)).hasDerivAt x
      have h2 := (T ℝ (k + 1 : ℤ)).hasDerivAt x
      rw [T_derivative_eq_U] at h1 h2
      have h3 := ((h1.div_const ((k : ℝ) + 3)).sub (h2.div_const ((k : ℝ) + 1))).const_mul (1 / 2 : ℝ)
      refine h3.congr_deriv ?_
      have hT := congrArg (fun p => p.eval x) (two_mul_T_eq_U_sub_U ℝ (k : ℤ))
      simp only [eval_mul, eval_sub, eval_ofNat] at hT
      simp only [eval_mul, eval_intCast]
      have e1 : ((k : ℤ) + 3 - 1) = k + 2 := by ring
      have e2 : ((k : ℤ) + 1 - 1) = k := by ring
      rw [e1, e2]
      push_cast
      field_simp
      linarith
    rw [intervalIntegral.integral_eq_sub_of_hasDerivAt hderiv (by
      apply Continuous.intervalIntegrable; fun_prop)]
    simp only [T_eval_one, T_eval_neg_one]
    rcases Nat.even_or_odd' k with ⟨j, hj | hj⟩
    · have e3 : ((k : ℤ) + 3).negOnePow = -1 := by
        rw [hj]; push_cast
        rw [show (2 * (j : ℤ) + 3) = 2 * (j + 1) + 1 by ring, Int.negOnePow_succ, Int.negOnePow_two_mul]
      have e4 : ((k : ℤ) + 1).negOnePow = -1 := by
        rw [hj]; push_cast
        rw [Int.negOnePow_succ, Int.negOnePow_two_mul]
      rw [e3, e4, if_pos (by omega)]
      push_cast
      have : (1 - ((k : ℝ) + 2) ^ 2) ≠ 0 := by nlinarith [Nat.cast_nonneg (α := ℝ) k]
      field_simp
      ring
    · have e3 : ((k : ℤ) + 3).negOnePow = 1 := by
        rw [hj]; push_cast
        rw [show (2 * (j : ℤ) + 1 + 3) = 2 * (j + 2) by ring, Int.negOnePow_two_mul]
      have e4 : ((k : ℤ) + 1).negOnePow = 1 := by
        rw [hj]; push_cast
        rw [show (2 * (j : ℤ) + 1 + 1) = 2 * (j + 1) by ring, Int.negOnePow_two_mul]
      rw [e3, e4, if_neg (by omega)]
      simp

/-- A rule that integrates `T_0, …, T_{n-1}` exactly integrates every polynomial of degree `< n`
(Chebyshev basis of `degreeLT ℝ n`, Mathlib's `Polynomial.Sequence.span_degreeLT`). -/
theorem quad_poly_of_chebyshev (ws xs : List ℝ) (n : ℕ) (hn : 1 ≤ n)
    (h : ∀ m, m < n → quad ws xs (fun x => (T ℝ m).eval x) = ∫ x in (-1 : ℝ)..1, (T ℝ m).eval x)
    (p : ℝ[X]) (hp : p.natDegree < n) :
    quad ws xs (fun x => p.eval x) = ∫ x in (-1 : ℝ)..1, p.eval x := by
  have hdeg : p.degree < n := by
    by_cases h0 : p = 0
    · subst h0; rw [Polynomial.degree_zero]; exact WithBot.bot_lt_coe _
    · rw [degree_eq_natDegree h0]; exact_mod_cast hp
  have hmem : p ∈ degreeLT ℝ n := by rwa [mem_degreeLT]
  rw [← Sequence.span_degreeLT (chebyshevTsequence ℝ) (by simp),
    show Set.Iio n = Finset.range n by simp,
    Submodule.mem_span_image_finset_iff_exists_fun'] at hmem
  obtain ⟨c, rfl⟩ := hmem
  simp only [eval_finsetSum, eval_smul, smul_eq_mul]
  rw [quad_finset_sum, intervalIntegral.integral_finsetSum]
  · apply Finset.sum_congr rfl
    intro i hi
    rw [intervalIntegral.integral_const_mul]
    congr 1
    exact h i (mem_range.mp hi)
  · intro i _
    exact (Continuous.intervalIntegrable (by fun_prop) _ _)

end GridVerif.OneD

/-
  `XReal` — exact reals extended by the IEEE-754 special values `+inf`, `-inf`, `nan`
  (shared by C03 `_convert_inf`/end-point statements and C04 domain statements).

  The generated definitions (`Gen/RTransform.lean`, `Gen/Transform1D.lean`) and the hand model
  `Model/Transform1D.lean` are generic in the carrier `K`.  At `K = ℝ` there is no infinity, so
  statements about `np.inf`, the trimming to `1e16`, the `np.sort` of an image containing `inf`
  and the `nan` that `HyperbolicRTransform` produces at `inf` cannot even be written down.
  `XReal` is the carrier for them: arithmetic on finite values is *exact real arithmetic*
  (no rounding, no overflow: every magnitude is representable), and the special values follow
  IEEE-754 / NumPy:

    x / 0 = ±inf (sign of x), 0 / 0 = nan, x / ±inf = 0, inf - inf = nan, 0 * inf = nan, inf / inf = nan,
    every comparison with nan is false, nan != nan, log 0 = -inf, log (negative) = nan, exp (-inf) = 0.

  What is **not** modelled (trusted reading, listed in `TRUSTED_BASE`): rounding and overflow of
  finite values, and the sign of zero — there is one zero and it divides like `+0`
  (the zero divisors the generated definitions can reach, `1 - x` at `x = 1`, `1 + x` at `x = -1`,
  `2^k - 2^k`, are differences of equal numbers, which are `+0` in IEEE round-to-nearest).
-/
import GridVerif.Lemmas.ElemReal
import GridVerif.Model.RTransform
import Mathlib.Data.Sign.Basic
import Mathlib.Tactic.Linarith
import Mathlib.Tactic.Positivity

namespace GridVerif

/-- A real number or one of the IEEE special values. -/
inductive XReal where
  | fin (x : ℝ)
  | posInf
  | negInf
  | nan

namespace XReal

noncomputable section
open Classical

/-- Not `nan` (a number or an infinity). -/
def IsNum : XReal → Prop
  | nan => False
  | _ => True

/-- A finite value. -/
def IsFin : XReal → Prop
  | fin _ => True
  | _ => False

def neg : XReal → XReal
  | fin a => fin (-a)
  | posInf => negInf
  | negInf => posInf
  | nan => nan

def add : XReal → XReal → XReal
  | fin a, fin b => fin (a + b)
  | fin _, posInf => posInf
  | fin _, negInf => negInf
  | posInf, fin _ => posInf
  | posInf, posInf => posInf
  | posInf, negInf => nan
  | negInf, fin _ => negInf
  | negInf, posInf => nan
  | negInf, negInf => negInf
  | nan, _ => nan
  | fin _, nan => nan
  | posInf, nan => nan
  | negInf, nan => nan

/-- `±inf` scaled by the sign of a real factor (`0 * inf = nan`). -/
def infTimes (pos : Bool) (a : ℝ) : XReal :=
  if 0 < a then (if pos then posInf else negInf)
  else if a < 0 then (if pos then negInf else posInf)
  else nan

def mul : XReal → XReal → XReal
  | fin a, fin b => fin (a * b)
  | fin a, posInf => infTimes true a
  | fin a, negInf => infTimes false a
  | posInf, fin b => infTimes true b
  | negInf, fin b => infTimes false b
  | posInf, posInf => posInf
  | posInf, negInf => negInf
  | negInf, posInf => negInf
  | negInf, negInf => posInf
  | nan, _ => nan
  | fin _, nan => nan
  | posInf, nan => nan
  | negInf, nan => nan

def div : XReal → XReal → XReal
  | fin a, fin b => if b ≠ 0 then fin (a / b) else infTimes true a
  | fin _, posInf => fin 0
  | fin _, negInf => fin 0
  | posInf, fin b => if 0 ≤ b then posInf else negInf
  | negInf, fin b => if 0 ≤ b then negInf else posInf
  | posInf, posInf => nan
  | posInf, negInf => nan
  | negInf, posInf => nan
  | negInf, negInf => nan
  | nan, _ => nan
  | fin _, nan => nan
  | posInf, nan => nan
  | negInf, nan => nan

def lt : XReal → XReal → Prop
  | fin a, fin b => a < b
  | fin _, posInf => True
  | negInf, fin _ => True
  | negInf, posInf => True
  | _, _ => False

def le : XReal → XReal → Prop
  | fin a, fin b => a ≤ b
  | fin _, posInf => True
  | negInf, fin _ => True
  | negInf, posInf => True
  | posInf, posInf => True
  | negInf, negInf => True
  | _, _ => False

def beq : XReal → XReal → Bool
  | fin a, fin b => decide (a = b)
  | posInf, posInf => true
  | negInf, negInf => true
  | _, _ => false

instance : Neg XReal := ⟨neg⟩
instance : Add XReal := ⟨add⟩
instance : Sub XReal := ⟨fun a b => add a (neg b)⟩
instance : Mul XReal := ⟨mul⟩
instance : Div XReal := ⟨div⟩
instance : LT XReal := ⟨lt⟩
instance : LE XReal := ⟨le⟩
instance : BEq XReal := ⟨beq⟩
instance : NatCast XReal := ⟨fun n => fin (n : ℝ)⟩
instance : DecidableLT XReal := fun a b => Classical.propDecidable (a < b)
instance : DecidableLE XReal := fun a b => Classical.propDecidable (a ≤ b)

/-- `f` on the finite values, `nan` elsewhere. -/
def lift (f : ℝ → ℝ) : XReal → XReal
  | fin a => fin (f a)
  | _ => nan

def exp : XReal → XReal
  | fin a => fin (Real.exp a)
  | posInf => posInf
  | negInf => fin 0
  | nan => nan

def log : XReal → XReal
  | fin a => if 0 < a then fin (Real.log a) else if a = 0 then negInf else nan
  | posInf => posInf
  | negInf => nan
  | nan => nan

def sqrt : XReal → XReal
  | fin a => if 0 ≤ a then fin (Real.sqrt a) else nan
  | posInf => posInf
  | negInf => nan
  | nan => nan

def abs : XReal → XReal
  | fin a => fin |a|
  | posInf => posInf
  | negInf => posInf
  | nan => nan

/-- `np.power` / `**` with a floating exponent: positive base → the real power; zero base →
`0`, `1` or `inf` by the sign of the exponent; negative base → the real power for an integer
exponent, else `nan`; `inf` base → `inf`, `1` or `0` by the sign of the exponent; the remaining
combinations (infinite exponents, `-inf` base) are `nan` here — no generated definition reaches them. -/
def rpow : XReal → XReal → XReal
  | fin a, fin b =>
    if 0 < a then fin (a ^ b)
    else if a = 0 then (if 0 < b then fin 0 else if b = 0 then fin 1 else posInf)
    else if ∃ n : ℤ, b = n then fin (a ^ b) else nan
  | posInf, fin b => if 0 < b then posInf else if b = 0 then fin 1 else fin 0
  | _, _ => nan

/-- A function with finite limits `lo`, `hi` at `-inf`, `+inf`. -/
def liftLim (f : ℝ → ℝ) (lo hi : XReal) : XReal → XReal
  | fin a => fin (f a)
  | posInf => hi
  | negInf => lo
  | nan => nan

instance : Elem XReal where
  exp := exp
  log := log
  sqrt := sqrt
  sin := lift Real.sin
  cos := lift Real.cos
  tan := lift Real.tan
  tanh := liftLim Real.tanh (fin (-1)) (fin 1)
  sinh := liftLim Real.sinh negInf posInf
  cosh := liftLim Real.cosh posInf posInf
  arcsinh := liftLim Real.arsinh negInf posInf
  arcsin := lift Real.arcsin
  arccos := lift Real.arccos
  arctan2 := fun y x => match y, x with
    | fin b, fin a => fin (Complex.arg ⟨a, b⟩)
    | _, _ => nan
  erf := liftLim realErf (fin (-1)) (fin 1)
  abs := abs
  rpow := rpow
  pi := fin Real.pi

/-- The infinity tests of `_convert_inf` on `XReal`: they recognise exactly the two infinities. -/
instance : HasInf XReal where
  eqPosInf x := match x with | posInf => true | _ => false
  eqNegInf x := match x with | negInf => true | _ => false
  isInf x := match x with | posInf => true | negInf => true | _ => false
  sign x := match x with
    | fin a => fin (SignType.sign a : ℝ)
    | posInf => fin 1
    | negInf => fin (-1)
    | nan => nan

/-! ### Computation rules (all by definition) -/

@[simp] theorem fin_add_fin (a b : ℝ) : (fin a + fin b : XReal) = fin (a + b) := rfl
@[simp] theorem fin_sub_fin (a b : ℝ) : (fin a - fin b : XReal) = fin (a - b) := by
  show add (fin a) (neg (fin b)) = _
  simp [neg, add, sub_eq_add_neg]
@[simp] theorem fin_mul_fin (a b : ℝ) : (fin a * fin b : XReal) = fin (a * b) := rfl
@[simp] theorem neg_fin (a : ℝ) : (-(fin a) : XReal) = fin (-a) := rfl
@[simp] theorem neg_posInf : (-posInf : XReal) = negInf := rfl
@[simp] theorem neg_negInf : (-negInf : XReal) = posInf := rfl
@[simp] theorem natCast_eq (n : ℕ) : ((n : ℕ) : XReal) = fin (n : ℝ) := rfl
/-- Numeric literals (`simp` turns `((n : ℕ) : XReal)` into the literal `n`). -/
@[simp] theorem ofNat_eq (n : ℕ) [n.AtLeastTwo] : (OfNat.ofNat n : XReal) = fin (OfNat.ofNat n) := by
  show fin ((OfNat.ofNat n : ℕ) : ℝ) = _
  rw [Nat.cast_ofNat]

theorem fin_div_fin {a b : ℝ} (h : b ≠ 0) : (fin a / fin b : XReal) = fin (a / b) := by
  show div (fin a) (fin b) = _
  simp [div, h]

/-- `x / 0 = +inf` for `x > 0`. -/
theorem fin_div_zero_of_pos {a : ℝ} (h : 0 < a) : (fin a / fin 0 : XReal) = posInf := by
  show div (fin a) (fin 0) = _
  simp [div, infTimes, h]

/-- `x / 0 = -inf` for `x < 0`. -/
theorem fin_div_zero_of_neg {a : ℝ} (h : a < 0) : (fin a / fin 0 : XReal) = negInf := by
  show div (fin a) (fin 0) = _
  simp [div, infTimes, h, not_lt.mpr h.le]

/-- `0 / 0 = nan`. -/
theorem zero_div_zero : (fin 0 / fin 0 : XReal) = nan := by
  show div (fin 0) (fin 0) = _
  simp [div, infTimes]

@[simp] theorem fin_div_posInf (a : ℝ) : (fin a / posInf : XReal) = fin 0 := rfl
@[simp] theorem fin_div_negInf (a : ℝ) : (fin a / negInf : XReal) = fin 0 := rfl
@[simp] theorem posInf_div_negInf : (posInf / negInf : XReal) = nan := rfl
@[simp] theorem posInf_div_posInf : (posInf / posInf : XReal) = nan := rfl
@[simp] theorem posInf_add_fin (a : ℝ) : (posInf + fin a : XReal) = posInf := rfl
@[simp] theorem fin_add_posInf (a : ℝ) : (fin a + posInf : XReal) = posInf := rfl
@[simp] theorem negInf_add_fin (a : ℝ) : (negInf + fin a : XReal) = negInf := rfl
@[simp] theorem fin_add_negInf (a : ℝ) : (fin a + negInf : XReal) = negInf := rfl
@[simp] theorem fin_sub_posInf (a : ℝ) : (fin a - posInf : XReal) = negInf := rfl
@[simp] theorem posInf_sub_fin (a : ℝ) : (posInf - fin a : XReal) = posInf := rfl
@[simp] theorem posInf_sub_posInf : (posInf - posInf : XReal) = nan := rfl
@[simp] theorem nan_add (x : XReal) : (nan + x : XReal) = nan := rfl
@[simp] theorem nan_mul (x : XReal) : (nan * x : XReal) = nan := rfl
@[simp] theorem nan_div (x : XReal) : (nan / x : XReal) = nan := rfl

theorem fin_mul_posInf_of_pos {a : ℝ} (h : 0 < a) : (fin a * posInf : XReal) = posInf := by
  show mul (fin a) posInf = _
  simp [mul, infTimes, h]

theorem fin_mul_posInf_of_neg {a : ℝ} (h : a < 0) : (fin a * posInf : XReal) = negInf := by
  show mul (fin a) posInf = _
  simp [mul, infTimes, h, not_lt.mpr h.le]

theorem posInf_mul_fin_of_pos {a : ℝ} (h : 0 < a) : (posInf * fin a : XReal) = posInf := by
  show mul posInf (fin a) = _
  simp [mul, infTimes, h]

theorem fin_mul_negInf_of_pos {a : ℝ} (h : 0 < a) : (fin a * negInf : XReal) = negInf := by
  show mul (fin a) negInf = _
  simp [mul, infTimes, h]

theorem fin_mul_negInf_of_neg {a : ℝ} (h : a < 0) : (fin a * negInf : XReal) = posInf := by
  show mul (fin a) negInf = _
  simp [mul, infTimes, h, not_lt.mpr h.le]

/-- `0 * inf = nan`. -/
theorem zero_mul_posInf : (fin 0 * posInf : XReal) = nan := by
  show mul (fin 0) posInf = _
  simp [mul, infTimes]

theorem posInf_div_fin_of_nonneg {b : ℝ} (h : 0 ≤ b) : (posInf / fin b : XReal) = posInf := by
  show div posInf (fin b) = _
  simp [div, h]

theorem posInf_div_fin_of_neg {b : ℝ} (h : b < 0) : (posInf / fin b : XReal) = negInf := by
  show div posInf (fin b) = _
  simp [div, not_le.mpr h]

@[simp] theorem fin_lt_fin (a b : ℝ) : (fin a < fin b) ↔ a < b := Iff.rfl
@[simp] theorem fin_le_fin (a b : ℝ) : (fin a ≤ fin b) ↔ a ≤ b := Iff.rfl
@[simp] theorem fin_lt_posInf (a : ℝ) : fin a < posInf := trivial
@[simp] theorem fin_le_posInf (a : ℝ) : fin a ≤ posInf := trivial
@[simp] theorem posInf_le_posInf : posInf ≤ posInf := trivial
@[simp] theorem negInf_le_fin (a : ℝ) : negInf ≤ fin a := trivial
@[simp] theorem not_posInf_lt (x : XReal) : ¬ (posInf < x) := by cases x <;> exact id
@[simp] theorem not_posInf_le_fin (a : ℝ) : ¬ (posInf ≤ fin a) := id
@[simp] theorem not_lt_nan (x : XReal) : ¬ (x < nan) := by cases x <;> exact id
@[simp] theorem not_nan_lt (x : XReal) : ¬ (nan < x) := by cases x <;> exact id
/-- Nothing is below or equal to `nan`: an interval whose upper end is `nan` contains no point. -/
@[simp] theorem not_le_nan (x : XReal) : ¬ (x ≤ nan) := by cases x <;> exact id
@[simp] theorem not_nan_le (x : XReal) : ¬ (nan ≤ x) := by cases x <;> exact id
theorem gt_iff (a b : XReal) : a > b ↔ b < a := Iff.rfl

theorem le_refl_of_isNum {x : XReal} (h : x.IsNum) : x ≤ x := by
  cases x with
  | fin a => exact le_refl a
  | posInf => trivial
  | negInf => trivial
  | nan => exact h.elim

theorem isNum_of_le_left {x y : XReal} (h : x ≤ y) : x.IsNum := by
  cases x <;> cases y <;> trivial

theorem isNum_of_le_right {x y : XReal} (h : x ≤ y) : y.IsNum := by
  cases x <;> cases y <;> trivial

theorem le_trans' {x y z : XReal} (h1 : x ≤ y) (h2 : y ≤ z) : x ≤ z := by
  cases x <;> cases y <;> cases z <;>
    first
    | trivial
    | exact False.elim h1
    | exact False.elim h2
    | (simp only [fin_le_fin] at *; exact le_trans h1 h2)

theorem lt_iff_not_le {x y : XReal} (hx : x.IsNum) (hy : y.IsNum) : x < y ↔ ¬ (y ≤ x) := by
  cases x <;> cases y <;>
    first
    | exact False.elim hx
    | exact False.elim hy
    | (simp only [fin_lt_fin, fin_le_fin]; exact lt_iff_not_ge)
    | exact ⟨fun _ h => False.elim h, fun _ => trivial⟩
    | exact ⟨fun h _ => False.elim h, fun h => False.elim (h trivial)⟩

theorem le_total' {x y : XReal} (hx : x.IsNum) (hy : y.IsNum) : x ≤ y ∨ y ≤ x := by
  cases x <;> cases y <;>
    first
    | exact False.elim hx
    | exact False.elim hy
    | (simp only [fin_le_fin]; exact le_total _ _)
    | exact Or.inl trivial
    | exact Or.inr trivial

theorem le_of_lt' {x y : XReal} (h : x < y) : x ≤ y := by
  cases x <;> cases y <;>
    first
    | trivial
    | exact False.elim h
    | (simp only [fin_lt_fin, fin_le_fin] at *; exact le_of_lt h)

/-! ### Elementary functions -/

theorem elem_exp_fin (a : ℝ) : (Elem.exp (fin a) : XReal) = fin (Real.exp a) := rfl
theorem elem_exp_posInf : (Elem.exp posInf : XReal) = posInf := rfl
theorem elem_log_fin_of_pos {a : ℝ} (h : 0 < a) : (Elem.log (fin a) : XReal) = fin (Real.log a) := by
  show log (fin a) = _
  simp [log, h]
theorem elem_log_zero : (Elem.log (fin 0) : XReal) = negInf := by
  show log (fin 0) = _
  simp [log]
theorem elem_rpow_fin_of_pos {a : ℝ} (h : 0 < a) (b : ℝ) : (Elem.rpow (fin a) (fin b) : XReal) = fin (a ^ b) := by
  show rpow (fin a) (fin b) = _
  simp [rpow, h]
theorem elem_rpow_posInf_of_pos {b : ℝ} (h : 0 < b) : (Elem.rpow posInf (fin b) : XReal) = posInf := by
  show rpow posInf (fin b) = _
  simp [rpow, h]

theorem npow_fin (a : ℝ) (n : ℕ) : npow (fin a : XReal) n = fin (a ^ n) := by
  induction n with
  | zero => simp [npow]
  | succ n ih => simp [npow, ih, pow_succ]

/-! ### Infinity tests -/

@[simp] theorem eqPosInf_fin (a : ℝ) : HasInf.eqPosInf (fin a : XReal) = false := rfl
@[simp] theorem eqNegInf_fin (a : ℝ) : HasInf.eqNegInf (fin a : XReal) = false := rfl
@[simp] theorem eqPosInf_posInf : HasInf.eqPosInf (posInf : XReal) = true := rfl
@[simp] theorem eqNegInf_posInf : HasInf.eqNegInf (posInf : XReal) = false := rfl
@[simp] theorem eqPosInf_negInf : HasInf.eqPosInf (negInf : XReal) = false := rfl
@[simp] theorem eqNegInf_negInf : HasInf.eqNegInf (negInf : XReal) = true := rfl
@[simp] theorem eqPosInf_nan : HasInf.eqPosInf (nan : XReal) = false := rfl
@[simp] theorem eqNegInf_nan : HasInf.eqNegInf (nan : XReal) = false := rfl
@[simp] theorem isInf_fin (a : ℝ) : HasInf.isInf (fin a : XReal) = false := rfl
@[simp] theorem isInf_posInf : HasInf.isInf (posInf : XReal) = true := rfl
@[simp] theorem isInf_negInf : HasInf.isInf (negInf : XReal) = true := rfl
@[simp] theorem isInf_nan : HasInf.isInf (nan : XReal) = false := rfl
@[simp] theorem sign_posInf : HasInf.sign (posInf : XReal) = fin 1 := rfl
@[simp] theorem sign_negInf : HasInf.sign (negInf : XReal) = fin (-1) := rfl

end

end XReal
end GridVerif

/-
  Discrete orthogonality of sines on the interior Lobatto angles `kπ/N`, `k = 1..N-1` (the nodes of
  Fejér-2 and Gauss–Chebyshev of the second kind, `N = n + 1`), from `dsum_cos`
  (`Lemmas/OneDLobatto.lean`); the Chebyshev-`U` basis of the polynomials of degree `< n`;
  `∫_{-1}^{1} U_m` (`∫_{-1}^{1} √(1-x²) U_m` is in `Props/C01/GaussCheb2.lean`).
-/
import GridVerif.Lemmas.OneDLobatto
import Mathlib.MeasureTheory.Integral.IntervalIntegral.IntegrationByParts

namespace GridVerif.OneD
open Finset Polynomial Polynomial.Chebyshev Real

/-- orthogonality of `sin(aθ)` and `sin(bθ)` on the Lobatto angles (the end terms vanish) -/
theorem dsum_sin_mul_sin (N : ℕ) (hN : 1 ≤ N) (a b : ℕ) :
    dsum N (fun k => Real.sin ((a : ℝ) * lobTheta N k) * Real.sin ((b : ℝ) * lobTheta N k))
      = ((if 2 * N ∣ (max a b - min a b) then (N : ℝ) else 0) - (if 2 * N ∣ a + b then (N : ℝ) else 0)) / 2 := by
  have hprod : ∀ x y : ℝ, Real.sin x * Real.sin y = (1 / 2) * (Real.cos (x - y) - Real.cos (x + y)) := by
    intro x y; rw [Real.cos_add, Real.cos_sub]; ring
  have h : ∀ k : ℕ, Real.sin ((a : ℝ) * lobTheta N k) * Real.sin ((b : ℝ) * lobTheta N k)
      = (1 / 2) * (Real.cos (((max a b - min a b : ℕ) : ℝ) * lobTheta N k)
          - Real.cos (((a + b : ℕ) : ℝ) * lobTheta N k)) := by
    intro k
    rw [hprod]
    congr 2
    · rcases le_total a b with hab | hab
      · rw [max_eq_right hab, min_eq_left hab, Nat.cast_sub hab]
        rw [← Real.cos_neg]; congr 1; ring
      · rw [max_eq_left hab, min_eq_right hab, Nat.cast_sub hab]
        congr 1; ring
    · push_cast; ring_nf
  simp only [h]
  rw [dsum_const_mul, dsum_sub, dsum_cos N hN, dsum_cos N hN]
  ring

/-- **Discrete sine orthogonality on the interior angles** `θₖ = (k+1)π/(n+1)`, `k = 0..n-1`:
for `1 ≤ a, b` with `a + b < 2(n+1)`, `Σₖ sin(aθₖ) sin(bθₖ) = (n+1)/2` if `a = b`, else `0`. -/
theorem sum_sin_mul_sin_interior (n : ℕ) (a b : ℕ) (ha : 1 ≤ a) (hb : 1 ≤ b) (hab : a + b < 2 * (n + 1)) :
    ∑ k ∈ range n, Real.sin ((a : ℝ) * lobTheta (n + 1) (k + 1)) * Real.sin ((b : ℝ) * lobTheta (n + 1) (k + 1))
      = if a = b then ((n : ℝ) + 1) / 2 else 0 := by
  have hNr : ((n + 1 : ℕ) : ℝ) ≠ 0 := by positivity
  have h := dsum_sin_mul_sin (n + 1) (by omega) a b
  unfold dsum at h
  have h0 : Real.sin ((a : ℝ) * lobTheta (n + 1) 0) = 0 := by simp [lobTheta]
  have hN : Real.sin ((a : ℝ) * lobTheta (n + 1) (n + 1)) = 0 := by
    have : (a : ℝ) * lobTheta (n + 1) (n + 1) = (a : ℝ) * π := by
      unfold lobTheta; field_simp
    rw [this, Real.sin_nat_mul_pi]
  rw [sum_range_succ, sum_range_succ'] at h
  simp only [h0, hN, zero_mul, add_zero, zero_div, sub_zero] at h
  rw [h]
  have h2 : ¬ (2 * (n + 1) ∣ a + b) := by
    intro hd
    have := Nat.le_of_dvd (by omega) hd
    omega
  rw [if_neg h2]
  by_cases hab' : a = b
  · subst hab'
    simp
  · rw [if_neg hab']
    have : ¬ (2 * (n + 1) ∣ max a b - min a b) := by
      intro hd
      have hpos : 0 < max a b - min a b := by
        rcases Nat.lt_or_gt_of_ne hab' with h | h
        · rw [max_eq_right h.le, min_eq_left h.le]; omega
        · rw [max_eq_left h.le, min_eq_right h.le]; omega
      have := Nat.le_of_dvd hpos hd
      have h1 : max a b ≤ a + b := max_le (by omega) (by omega)
      omega
    rw [if_neg this]
    simp

/-! ### Chebyshev polynomials of the second kind as a basis -/

/-- `U_0, U_1, …` as a polynomial sequence (degree of `U_i` is `i`). -/
noncomputable def chebyshevUsequence : Polynomial.Sequence ℝ where
  elems' n := U ℝ n
  degree_eq' n := by simp [degree_U_natCast]

/-- every polynomial of degree `< n` is a combination of `U_0, …, U_{n-1}` -/
theorem exists_U_expansion (n : ℕ) (p : ℝ[X]) (hp : p.natDegree < n) :
    ∃ c : ℕ → ℝ, p = ∑ i ∈ range n, c i • U ℝ (i : ℤ) := by
  have hdeg : p.degree < n := by
    by_cases h0 : p = 0
    · subst h0; rw [Polynomial.degree_zero]; exact WithBot.bot_lt_coe _
    · rw [degree_eq_natDegree h0]; exact_mod_cast hp
  have hmem : p ∈ degreeLT ℝ n := by rwa [mem_degreeLT]
  rw [← Sequence.span_degreeLT chebyshevUsequence (by
      intro i _
      change IsUnit (U ℝ (i : ℤ)).leadingCoeff
      rw [leadingCoeff_U_natCast]
      exact isUnit_iff_ne_zero.mpr (by positivity)),
    show Set.Iio n = Finset.range n by simp,
    Submodule.mem_span_image_finset_iff_exists_fun'] at hmem
  obtain ⟨c, hc⟩ := hmem
  exact ⟨c, hc.symm⟩

/-- A rule that integrates `U_0, …, U_{n-1}` exactly integrates every polynomial of degree `< n`. -/
theorem quad_poly_of_chebyshevU (ws xs : List ℝ) (n : ℕ)
    (h : ∀ m, m < n → quad ws xs (fun x => (U ℝ (m : ℤ)).eval x) = ∫ x in (-1 : ℝ)..1, (U ℝ (m : ℤ)).eval x)
    (p : ℝ[X]) (hp : p.natDegree < n) :
    quad ws xs (fun x => p.eval x) = ∫ x in (-1 : ℝ)..1, p.eval x := by
  obtain ⟨c, rfl⟩ := exists_U_expansion n p hp
  simp only [eval_finsetSum, eval_smul, smul_eq_mul]
  rw [quad_finset_sum, intervalIntegral.integral_finsetSum]
  · apply Finset.sum_congr rfl
    intro i hi
    rw [intervalIntegral.integral_const_mul]
    congr 1
    exact h i (mem_range.mp hi)
  · intro i _
    exact (Continuous.intervalIntegrable (by fun_prop) _ _)

/-- `∫_{-1}^{1} U_m = 2/(m+1)` for even `m`, `0` for odd `m` (`U_m = T_{m+1}'/(m+1)`). -/
theorem integral_U (m : ℕ) :
    ∫ x in (-1 : ℝ)..1, (U ℝ (m : ℤ)).eval x = if m % 2 = 0 then 2 / ((m : ℝ) + 1) else 0 := by
  have hm1 : ((m : ℝ) + 1) ≠ 0 := by positivity
  have hderiv : ∀ x ∈ Set.uIcc (-1 : ℝ) 1,
      HasDerivAt (fun x => (T ℝ ((m : ℤ) + 1)).eval x / ((m : ℝ) + 1)) ((U ℝ (m : ℤ)).eval x) x := by
    intro x _
    have h1 := (T ℝ ((m : ℤ) + 1)).hasDerivAt x
    rw [T_derivative_eq_U] at h1
    refine (h1.div_const ((m : ℝ) + 1)).congr_deriv ?_
    simp only [eval_mul, eval_intCast, add_sub_cancel_right]
    push_cast
    field_simp
  rw [intervalIntegral.integral_eq_sub_of_hasDerivAt hderiv (by
    apply Continuous.intervalIntegrable; fun_prop)]
  simp only [T_eval_one, T_eval_neg_one]
  rcases Nat.even_or_odd' m with ⟨j, hj | hj⟩
  · have e : ((m : ℤ) + 1).negOnePow = -1 := by
      rw [hj]; push_cast
      rw [Int.negOnePow_succ, Int.negOnePow_two_mul]
    rw [e, if_pos (by omega)]
    push_cast
    field_simp
    ring
  · have e : ((m : ℤ) + 1).negOnePow = 1 := by
      rw [hj]; push_cast
      rw [show (2 * (j : ℤ) + 1 + 1) = 2 * (j + 1) by ring, Int.negOnePow_two_mul]
    rw [e, if_neg (by omega)]
    simp

end GridVerif.OneD

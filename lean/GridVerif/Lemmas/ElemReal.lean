/-
  The real-number instance of `Elem`: which real function each code-level
  function name denotes.  Part of the trusted base (DESIGN 3).
-/
import GridVerif.Model.Elem
import Mathlib.Analysis.SpecialFunctions.Pow.Real
import Mathlib.Analysis.SpecialFunctions.Trigonometric.Arctan
import Mathlib.Analysis.SpecialFunctions.Arsinh
import Mathlib.Analysis.SpecialFunctions.Complex.Arg
import Mathlib.MeasureTheory.Integral.IntervalIntegral.Basic

namespace GridVerif

/-- `erf` by its integral definition. -/
noncomputable def realErf (x : ℝ) : ℝ :=
  2 / Real.sqrt Real.pi * ∫ t in (0:ℝ)..x, Real.exp (-t ^ 2)

noncomputable instance : Elem ℝ where
  exp := Real.exp
  log := Real.log
  sqrt := Real.sqrt
  sin := Real.sin
  cos := Real.cos
  tan := Real.tan
  tanh := Real.tanh
  sinh := Real.sinh
  cosh := Real.cosh
  arcsinh := Real.arsinh
  arcsin := Real.arcsin
  arccos := Real.arccos
  arctan2 := fun y x => Complex.arg ⟨x, y⟩
  erf := realErf
  abs := fun x => |x|
  rpow := fun a b => a ^ b
  pi := Real.pi

theorem npow_eq_pow (x : ℝ) (n : ℕ) : npow x n = x ^ n := by
  induction n with
  | zero => simp [npow]
  | succ n ih => simp [npow, ih, pow_succ]

end GridVerif

/-
  C08 — `convert_cart_to_sph` inverts the spherical parametrisation for every centre;
  the matrix of `convert_derivative_from_spherical_to_cartesian` is the inverse transpose Jacobian of the
  parametrisation, with its documented conventions.
-/
import GridVerif.Lemmas.ElemReal
import GridVerif.Model.Harmonics
import Mathlib.Analysis.SpecialFunctions.Trigonometric.Inverse
import Mathlib.Analysis.SpecialFunctions.Trigonometric.Deriv
import Mathlib.Tactic.Ring
import Mathlib.Tactic.FieldSimp
import Mathlib.Tactic.Linarith
import Mathlib.Tactic.LinearCombination
import Mathlib.Tactic.Positivity

namespace GridVerif.Harmonics
open Real

/-- the three outputs of `cartToSph` over ℝ, spelled out. -/
theorem cartToSph_real (p c : P3 ℝ) :
    cartToSph p c =
      (√((p.1 - c.1) * (p.1 - c.1) + (p.2.1 - c.2.1) * (p.2.1 - c.2.1) + (p.2.2 - c.2.2) * (p.2.2 - c.2.2)),
       Complex.arg ⟨p.1 - c.1, p.2.1 - c.2.1⟩,
       if 0 < √((p.1 - c.1) * (p.1 - c.1) + (p.2.1 - c.2.1) * (p.2.1 - c.2.1) + (p.2.2 - c.2.2) * (p.2.2 - c.2.2))
       then arccos ((p.2.2 - c.2.2) /
         √((p.1 - c.1) * (p.1 - c.1) + (p.2.1 - c.2.1) * (p.2.1 - c.2.1) + (p.2.2 - c.2.2) * (p.2.2 - c.2.2)))
       else 0) := by
  simp [cartToSph, Elem.sqrt, Elem.arccos, Elem.arctan2]

/-- Round trip in displacement form: for `(x, y, z) ≠ 0`, with `r = √(x²+y²+z²)`, `θ = arg (x + i y)`,
`φ = arccos (z/r)`: `r (cos θ sin φ, sin θ sin φ, cos φ) = (x, y, z)`. -/
theorem roundtrip_core (x y z : ℝ) (h : ¬ (x = 0 ∧ y = 0 ∧ z = 0)) :
    let r := √(x * x + y * y + z * z)
    let θ := Complex.arg ⟨x, y⟩
    let φ := arccos (z / r)
    r * (cos θ * sin φ) = x ∧ r * (sin θ * sin φ) = y ∧ r * cos φ = z := by
  intro r θ φ
  have hsum : 0 < x * x + y * y + z * z := by
    by_contra hn
    have h0 : x * x + y * y + z * z = 0 := le_antisymm (not_lt.mp hn)
      (by nlinarith [mul_self_nonneg x, mul_self_nonneg y, mul_self_nonneg z])
    have hx : x = 0 := by nlinarith [mul_self_nonneg x, mul_self_nonneg y, mul_self_nonneg z]
    have hy : y = 0 := by nlinarith [mul_self_nonneg x, mul_self_nonneg y, mul_self_nonneg z]
    have hz : z = 0 := by nlinarith [mul_self_nonneg x, mul_self_nonneg y, mul_self_nonneg z]
    exact h ⟨hx, hy, hz⟩
  have hr : 0 < r := Real.sqrt_pos.mpr hsum
  have hr2 : r ^ 2 = x * x + y * y + z * z := Real.sq_sqrt hsum.le
  -- the polar angle
  have hzr : |z| ≤ r := by
    apply Real.abs_le_sqrt
    nlinarith [mul_self_nonneg x, mul_self_nonneg y]
  have hb1 : -1 ≤ z / r := by
    rw [le_div_iff₀ hr]; linarith [neg_abs_le z]
  have hb2 : z / r ≤ 1 := by
    rw [div_le_iff₀ hr]; linarith [le_abs_self z]
  have hcos : cos φ = z / r := Real.cos_arccos hb1 hb2
  set ρ := √(x * x + y * y) with hρ
  have hρ0 : 0 ≤ ρ := Real.sqrt_nonneg _
  have hρ2 : ρ ^ 2 = x * x + y * y :=
    Real.sq_sqrt (by nlinarith [mul_self_nonneg x, mul_self_nonneg y])
  have hsin : sin φ = ρ / r := by
    rw [Real.sin_arccos]
    have : 1 - (z / r) ^ 2 = (ρ / r) ^ 2 := by
      have hrne : r ≠ 0 := hr.ne'
      field_simp
      rw [hr2, hρ2]; ring
    rw [this, Real.sqrt_sq (by positivity)]
  have hz3 : r * cos φ = z := by rw [hcos]; field_simp
  -- the azimuth
  have hnorm : ‖(⟨x, y⟩ : ℂ)‖ = ρ := by
    rw [Complex.norm_def, Complex.normSq_mk]
  by_cases hρz : ρ = 0
  · have hxy : x * x + y * y = 0 := by rw [← hρ2, hρz]; ring
    have hx : x = 0 := by nlinarith [mul_self_nonneg x, mul_self_nonneg y]
    have hy : y = 0 := by nlinarith [mul_self_nonneg x, mul_self_nonneg y]
    refine ⟨?_, ?_, hz3⟩
    · rw [hsin, hρz, hx]; simp
    · rw [hsin, hρz, hy]; simp
  · have hne : (⟨x, y⟩ : ℂ) ≠ 0 := by
      intro h0
      apply hρz
      rw [← hnorm, h0, norm_zero]
    have hc : cos θ = x / ρ := by
      have := Complex.cos_arg hne
      rwa [hnorm] at this
    have hs : sin θ = y / ρ := by
      have := Complex.sin_arg (⟨x, y⟩ : ℂ)
      rwa [hnorm] at this
    refine ⟨?_, ?_, hz3⟩
    · rw [hc, hsin]; field_simp
    · rw [hs, hsin]; field_simp

/-- `convert_cart_to_sph` followed by the parametrisation is the identity, any centre. -/
theorem sphToCart_cartToSph (p c : P3 ℝ) (h : p ≠ c) : sphToCart (cartToSph p c) c = p := by
  obtain ⟨p1, p2, p3⟩ := p
  obtain ⟨c1, c2, c3⟩ := c
  have hne : ¬ (p1 - c1 = 0 ∧ p2 - c2 = 0 ∧ p3 - c3 = 0) := by
    rintro ⟨h1, h2, h3⟩
    apply h
    have e1 : p1 = c1 := by linarith
    have e2 : p2 = c2 := by linarith
    have e3 : p3 = c3 := by linarith
    rw [e1, e2, e3]
  have core := roundtrip_core (p1 - c1) (p2 - c2) (p3 - c3) hne
  simp only at core
  obtain ⟨hx, hy, hz⟩ := core
  have hsum : 0 < (p1 - c1) * (p1 - c1) + (p2 - c2) * (p2 - c2) + (p3 - c3) * (p3 - c3) := by
    by_contra hn
    have h0 : (p1 - c1) * (p1 - c1) + (p2 - c2) * (p2 - c2) + (p3 - c3) * (p3 - c3) = 0 :=
      le_antisymm (not_lt.mp hn)
        (by nlinarith [mul_self_nonneg (p1 - c1), mul_self_nonneg (p2 - c2), mul_self_nonneg (p3 - c3)])
    apply hne
    refine ⟨?_, ?_, ?_⟩ <;>
      nlinarith [mul_self_nonneg (p1 - c1), mul_self_nonneg (p2 - c2), mul_self_nonneg (p3 - c3)]
  have hr : 0 < √((p1 - c1) * (p1 - c1) + (p2 - c2) * (p2 - c2) + (p3 - c3) * (p3 - c3)) :=
    Real.sqrt_pos.mpr hsum
  rw [cartToSph_real]
  simp only [hr, ↓reduceIte, sphToCart, Elem.cos, Elem.sin]
  rw [hx, hy, hz]
  ext <;> simp

/-- The centre itself has radius `0` and both angles `0`. -/
theorem cartToSph_center (c : P3 ℝ) : cartToSph c c = (0, 0, 0) := by
  rw [cartToSph_real]
  simp [Complex.arg_zero, show (⟨0, 0⟩ : ℂ) = 0 from rfl]

/-- Ranges: `r ≥ 0`, `θ ∈ (-π, π]`, `φ ∈ [0, π]`. -/
theorem cartToSph_range (p c : P3 ℝ) :
    0 ≤ (cartToSph p c).1 ∧ -π < (cartToSph p c).2.1 ∧ (cartToSph p c).2.1 ≤ π ∧
      0 ≤ (cartToSph p c).2.2 ∧ (cartToSph p c).2.2 ≤ π := by
  rw [cartToSph_real]
  refine ⟨Real.sqrt_nonneg _, Complex.neg_pi_lt_arg _, Complex.arg_le_pi _, ?_, ?_⟩
  · simp only; split
    · exact Real.arccos_nonneg _
    · exact le_refl _
  · simp only; split
    · exact Real.arccos_le_pi _
    · exact Real.pi_pos.le

/-! ## the derivative conversion -/

theorem tol10_pos : (0 : ℝ) < (tol10 : ℝ) := by
  unfold tol10; positivity

/-- **Inverse transpose Jacobian.** If `(d_r, d_θ, d_φ)` are the derivatives along the parametrisation
`(r cos θ sin φ, r sin θ sin φ, r cos φ)` of a function with Cartesian gradient `g` (chain rule), the routine
returns `g`, whenever no convention is triggered and `sin φ ≠ 0`. -/
theorem convDeriv_chain (r θ φ gx gy gz : ℝ) (hr : (tol10 : ℝ) ≤ |r|) (hφ : (tol10 : ℝ) ≤ |φ|)
    (hs : sin φ ≠ 0) :
    convDeriv
      (gx * (cos θ * sin φ) + gy * (sin θ * sin φ) + gz * cos φ)
      (gx * (-(r * (sin θ * sin φ))) + gy * (r * (cos θ * sin φ)))
      (gx * (r * (cos θ * cos φ)) + gy * (r * (sin θ * cos φ)) + gz * (-(r * sin φ)))
      r θ φ = [gx, gy, gz] := by
  have hr0 : r ≠ 0 := by
    intro h; rw [h, abs_zero] at hr; linarith [tol10_pos]
  have h1 : ¬ |r| < (tol10 : ℝ) := not_lt.mpr hr
  have h2 : ¬ |φ| < (tol10 : ℝ) := not_lt.mpr hφ
  have ht := Real.sin_sq_add_cos_sq θ
  have hp := Real.sin_sq_add_cos_sq φ
  simp only [convDeriv, convJacobian, Elem.abs, Elem.sin, Elem.cos, h1, h2, decide_false,
    Bool.or_self, Bool.false_eq_true, ↓reduceIte, List.map_cons, List.map_nil, Nat.cast_zero]
  congr 1
  · field_simp
    linear_combination (gx * cos θ ^ 2 + gy * sin θ * cos θ) * hp + gx * ht
  · congr 1
    · field_simp
      linear_combination (gy * sin θ ^ 2 + gx * sin θ * cos θ) * hp + gy * ht
    · congr 1
      field_simp
      linear_combination gz * hp

/-- The partial derivatives of the parametrisation `(r cos θ sin φ, r sin θ sin φ, r cos φ)` that enter
`convDeriv_chain`. -/
theorem param_hasDerivAt (r θ φ : ℝ) :
    (HasDerivAt (fun t => t * (cos θ * sin φ)) (cos θ * sin φ) r ∧
      HasDerivAt (fun t => t * (sin θ * sin φ)) (sin θ * sin φ) r ∧
      HasDerivAt (fun t => t * cos φ) (cos φ) r) ∧
    (HasDerivAt (fun t => r * (cos t * sin φ)) (-(r * (sin θ * sin φ))) θ ∧
      HasDerivAt (fun t => r * (sin t * sin φ)) (r * (cos θ * sin φ)) θ) ∧
    (HasDerivAt (fun t => r * (cos θ * sin t)) (r * (cos θ * cos φ)) φ ∧
      HasDerivAt (fun t => r * (sin θ * sin t)) (r * (sin θ * cos φ)) φ ∧
      HasDerivAt (fun t => r * cos t) (-(r * sin φ)) φ) := by
  refine ⟨⟨?_, ?_, ?_⟩, ⟨?_, ?_⟩, ⟨?_, ?_, ?_⟩⟩
  · simpa using (hasDerivAt_id r).mul_const (cos θ * sin φ)
  · simpa using (hasDerivAt_id r).mul_const (sin θ * sin φ)
  · simpa using (hasDerivAt_id r).mul_const (cos φ)
  · refine (((Real.hasDerivAt_cos θ).mul_const (sin φ)).const_mul r).congr_deriv ?_; ring
  · exact ((Real.hasDerivAt_sin θ).mul_const (sin φ)).const_mul r
  · exact ((Real.hasDerivAt_sin φ).const_mul (cos θ)).const_mul r
  · exact ((Real.hasDerivAt_sin φ).const_mul (sin θ)).const_mul r
  · refine ((Real.hasDerivAt_cos φ).const_mul r).congr_deriv ?_; ring

/-- Convention `|r| < 1e-10`: only the radial column is kept. -/
theorem convJacobian_r_small (r θ φ : ℝ) (h : |r| < (tol10 : ℝ)) :
    convJacobian r θ φ =
      [[cos θ * sin φ, 0, 0], [sin θ * sin φ, 0, 0], [cos φ, 0, 0]] := by
  simp [convJacobian, Elem.abs, Elem.sin, Elem.cos, h]

/-- Convention `|φ| < 1e-10` (and `r` not small): the `θ` column is zero. -/
theorem convJacobian_phi_small (r θ φ : ℝ) (hr : (tol10 : ℝ) ≤ |r|) (h : |φ| < (tol10 : ℝ)) :
    convJacobian r θ φ =
      [[cos θ * sin φ, 0, cos θ * cos φ / r], [sin θ * sin φ, 0, sin θ * cos φ / r],
        [cos φ, 0, -sin φ / r]] := by
  have h1 : ¬ |r| < (tol10 : ℝ) := not_lt.mpr hr
  simp [convJacobian, Elem.abs, Elem.sin, Elem.cos, h, h1]

/-- No convention triggered: the matrix as written. -/
theorem convJacobian_generic (r θ φ : ℝ) (hr : (tol10 : ℝ) ≤ |r|) (hφ : (tol10 : ℝ) ≤ |φ|) :
    convJacobian r θ φ =
      [[cos θ * sin φ, -sin θ / (r * sin φ), cos θ * cos φ / r],
        [sin θ * sin φ, cos θ / (r * sin φ), sin θ * cos φ / r],
        [cos φ, 0, -sin φ / r]] := by
  have h1 : ¬ |r| < (tol10 : ℝ) := not_lt.mpr hr
  have h2 : ¬ |φ| < (tol10 : ℝ) := not_lt.mpr hφ
  simp [convJacobian, Elem.abs, Elem.sin, Elem.cos, h1, h2]

end GridVerif.Harmonics

/-
  Shape lemmas for the closed-form rules of C01: lengths of the list programs, ascending cosine
  nodes, acceptance by the domain check.
-/
import GridVerif.Lemmas.OneDSubst
import Mathlib.Analysis.SpecialFunctions.Trigonometric.Basic

namespace GridVerif.OneD
open Real

/-- What C01 says about the shape of a rule: the constructor call `res` succeeds and returns the lists
`P`, `W` with the declared domain; `n` nodes and `n` weights; nodes strictly ascending and inside the
(closed) declared domain. -/
def ClosedShape (res : Except Err (Grid1D ℝ)) (P W : List ℝ) (lo : ℝ) (hi : Option ℝ) (n : ℕ) : Prop :=
  res = .ok ⟨P, W, lo, hi⟩ ∧ P.length = n ∧ W.length = n ∧ P.Pairwise (· < ·) ∧
    ∀ x ∈ P, lo ≤ x ∧ ∀ b, hi = some b → x ≤ b

theorem closedShape_of (P W : List ℝ) (lo : ℝ) (hi : Option ℝ) (n : ℕ) (hP : P.length = n)
    (hW : W.length = n) (hasc : P.Pairwise (· < ·))
    (hdom : ∀ x ∈ P, lo ≤ x ∧ ∀ b, hi = some b → x ≤ b) :
    ClosedShape (oneDGrid P W lo hi) P W lo hi n :=
  ⟨oneDGrid_ok P W lo hi (by rw [hP, hW]) (fun p hp => (hdom p hp).1)
    (fun b hb p hp => (hdom p hp).2 b hb), hP, hW, hasc, hdom⟩

theorem foldl_zipWith_length (n : ℕ) (rows : List (List ℝ)) (acc : List ℝ)
    (hr : ∀ r ∈ rows, r.length = n) (ha : acc.length = n) :
    (rows.foldl (fun acc row => List.zipWith (· + ·) acc row) acc).length = n := by
  induction rows generalizing acc with
  | nil => simpa using ha
  | cons r rows ih =>
    simp only [List.foldl_cons]
    apply ih
    · intro r' hr'; exact hr r' (List.mem_cons_of_mem _ hr')
    · simp [ha, hr r (List.mem_cons_self)]

theorem vecMat_length (b : List ℝ) (m : List (List ℝ)) (n : ℕ) (hm : ∀ r ∈ m, r.length = n) :
    (vecMat b m n).length = n := by
  unfold vecMat
  apply foldl_zipWith_length
  · intro r hr
    induction b generalizing m with
    | nil => simp at hr
    | cons b0 b ih =>
      cases m with
      | nil => simp at hr
      | cons m0 m =>
        simp only [List.zipWith_cons_cons, List.mem_cons] at hr
        rcases hr with rfl | hr
        · simp [hm m0 (List.mem_cons_self)]
        · exact ih m (fun r' hr' => hm r' (List.mem_cons_of_mem _ hr')) hr
  · simp

/-- cosine nodes `cos θ₀ > cos θ₁ > …` listed in reverse: ascending, inside `[-1, 1]`. -/
theorem cos_nodes (n : ℕ) (θ : ℕ → ℝ) (hθ : ∀ i, i < n → 0 ≤ θ i ∧ θ i ≤ π)
    (hmono : ∀ i j, i < j → j < n → θ i < θ j) :
    (((List.range n).map fun i => Real.cos (θ i)).reverse).length = n ∧
    (((List.range n).map fun i => Real.cos (θ i)).reverse).Pairwise (· < ·) ∧
    ∀ x ∈ ((List.range n).map fun i => Real.cos (θ i)).reverse, -1 ≤ x ∧ x ≤ 1 := by
  refine ⟨by simp, ?_, ?_⟩
  · rw [reverse_map_range]
    apply pairwise_map_range
    intro i j hij hj
    apply Real.strictAntiOn_cos
    · exact ⟨(hθ _ (by omega)).1, (hθ _ (by omega)).2⟩
    · exact ⟨(hθ _ (by omega)).1, (hθ _ (by omega)).2⟩
    · exact hmono _ _ (by omega) (by omega)
  · intro x hx
    simp only [List.mem_reverse, List.mem_map] at hx
    obtain ⟨i, _, rfl⟩ := hx
    exact ⟨Real.neg_one_le_cos _, Real.cos_le_one _⟩

end GridVerif.OneD

/-
  Helper lemmas for C10 (no Mathlib needed): `gather` (NumPy integer-array indexing) and the
  ball-query contract.
-/
import GridVerif.Model.LocalGrid
namespace GridVerif.LocalGrid

/-- `mapM` into `Option` succeeds with `ys` iff every image is `some` of the matching entry. -/
theorem mapM_option_eq_some_iff {α β : Type} (f : α → Option β) (l : List α) (ys : List β) :
    l.mapM f = some ys ↔ l.map f = ys.map some := by
  induction l generalizing ys with
  | nil => cases ys <;> simp
  | cons i t ih =>
    simp only [List.mapM_cons, List.map_cons]
    cases hx : f i with
    | none => cases ys <;> simp
    | some x =>
      cases ht : List.mapM f t with
      | none =>
        cases ys with
        | nil => simp
        | cons y ys =>
          have := (ih ys)
          simp [ht] at this ⊢
          intro _; exact this
      | some zs =>
        have h2 := (ih zs).mp ht
        cases ys with
        | nil => simp
        | cons y ys =>
          simp only [Option.bind_eq_bind, Option.bind_some, Option.pure_def, Option.some.injEq, List.cons.injEq, List.map_cons]
          constructor
          · rintro ⟨rfl, rfl⟩; exact ⟨rfl, h2⟩
          · rintro ⟨rfl, h3⟩
            refine ⟨rfl, ?_⟩
            have := (ih ys).mpr h3
            rw [ht] at this; exact Option.some.inj this

/-- `xs[idx] == ys` elementwise: `gather` succeeds with `ys` iff every `idx[k]` is in range
and `ys[k] = xs[idx[k]]`. -/
theorem gather_eq_some_iff {α : Type} (xs : List α) (idx : List Nat) (ys : List α) :
    gather xs idx = some ys ↔ idx.map (fun i => xs[i]?) = ys.map some :=
  mapM_option_eq_some_iff _ idx ys

/-- `gather` succeeds when every position is in range. -/
theorem gather_isSome {α : Type} (xs : List α) (idx : List Nat) (h : ∀ i ∈ idx, i < xs.length) :
    ∃ ys, gather xs idx = some ys := by
  induction idx with
  | nil => exact ⟨[], by simp [gather]⟩
  | cons i t ih =>
    obtain ⟨ys, hys⟩ := ih (fun j hj => h j (List.mem_cons_of_mem _ hj))
    have hi : i < xs.length := h i List.mem_cons_self
    refine ⟨xs[i] :: ys, ?_⟩
    rw [gather_eq_some_iff] at hys ⊢
    simp [hys, List.getElem?_eq_getElem hi]

theorem gather_length {α : Type} {xs : List α} {idx : List Nat} {ys : List α}
    (h : gather xs idx = some ys) : ys.length = idx.length := by
  have := congrArg List.length ((gather_eq_some_iff xs idx ys).mp h)
  simpa using this.symm

/-- `local[k] = parent[indices[k]]`. -/
theorem gather_getElem {α : Type} {xs : List α} {idx : List Nat} {ys : List α}
    (h : gather xs idx = some ys) (k : Nat) (hk : k < idx.length) :
    xs[idx[k]]? = ys[k]? := by
  have h1 := (gather_eq_some_iff xs idx ys).mp h
  have h2 := congrArg (fun l => l[k]?) h1
  simp only [List.getElem?_map] at h2
  rw [List.getElem?_eq_getElem hk] at h2
  have hk' : k < ys.length := by rw [gather_length h]; exact hk
  rw [List.getElem?_eq_getElem hk'] at h2 ⊢
  simpa using h2

section
variable {K : Type} [Add K] [Sub K] [Mul K] [NatCast K] [LE K] [DecidableLE K]

theorem ballQuery_sorted (pts : List (Point K)) (c : Point K) (r : K) :
    (ballQuery pts c r).Pairwise (· < ·) := by
  unfold ballQuery
  have h1 : ((pts.zipIdx.filter fun pi => decide (inBall pi.1 c r)).map (·.2)).Sublist
      (pts.zipIdx.map (·.2)) := List.Sublist.map _ List.filter_sublist
  rw [List.zipIdx_map_snd] at h1
  exact List.Pairwise.sublist h1 (List.pairwise_lt_range' 1)

theorem mem_ballQuery (pts : List (Point K)) (c : Point K) (r : K) (i : Nat) :
    i ∈ ballQuery pts c r ↔ ∃ p, pts[i]? = some p ∧ inBall p c r := by
  unfold ballQuery
  simp only [List.mem_map, List.mem_filter, List.mem_zipIdx_iff_getElem?, decide_eq_true_eq]
  constructor
  · rintro ⟨⟨p, j⟩, ⟨h1, h2⟩, rfl⟩; exact ⟨p, h1, h2⟩
  · rintro ⟨p, h1, h2⟩; exact ⟨(p, i), ⟨h1, h2⟩, rfl⟩

theorem ballQuery_lt (pts : List (Point K)) (c : Point K) (r : K) :
    ∀ i ∈ ballQuery pts c r, i < pts.length := by
  intro i hi
  obtain ⟨p, hp, _⟩ := (mem_ballQuery pts c r i).mp hi
  exact (List.getElem?_eq_some_iff.mp hp).1
end

/-! ### slices -/

theorem sliceBounds_pos (start stop : Option Int) (st : Int) (n : Nat) (h : 0 < st) :
    0 ≤ (sliceBounds start stop st n).1 ∧ (sliceBounds start stop st n).1 ≤ n ∧
    0 ≤ (sliceBounds start stop st n).2 ∧ (sliceBounds start stop st n).2 ≤ n := by
  unfold sliceBounds
  cases start <;> cases stop <;> simp only [gt_iff_lt, h, if_true, ge_iff_le] <;>
    (repeat' split) <;> omega

theorem sliceBounds_neg (start stop : Option Int) (st : Int) (n : Nat) (h : st < 0) :
    -1 ≤ (sliceBounds start stop st n).1 ∧ (sliceBounds start stop st n).1 ≤ (n : Int) - 1 ∧
    -1 ≤ (sliceBounds start stop st n).2 ∧ (sliceBounds start stop st n).2 ≤ (n : Int) - 1 := by
  unfold sliceBounds
  have h' : ¬ 0 < st := by omega
  cases start <;> cases stop <;> simp only [gt_iff_lt, h', if_false, ge_iff_le] <;>
    (repeat' split) <;> omega

/-- Python's `range(a, b, st)`: exactly the integers `a + k·st` between `a` (inclusive) and
`b` (exclusive) in the direction of the step. -/
theorem mem_pyRange (a b st x : Int) (hst : st ≠ 0) :
    x ∈ pyRange a b st ↔
      (0 < st ∧ a ≤ x ∧ x < b ∧ st ∣ x - a) ∨ (st < 0 ∧ b < x ∧ x ≤ a ∧ st ∣ x - a) := by
  unfold pyRange
  simp only [List.mem_map, List.mem_range]
  rcases Int.lt_or_gt_of_ne hst with hneg | hpos
  · -- negative step
    have hn : ¬ st > 0 := by omega
    rw [if_neg hn]
    have hpos' : 0 < -st := by omega
    constructor
    · rintro ⟨k, hk, rfl⟩
      right
      by_cases hba : b < a
      · simp only [hba, if_true] at hk
        have h1 : (k : Int) < (a - b - 1) / (-st) + 1 := by omega
        have h2 : (k : Int) ≤ (a - b - 1) / (-st) := by omega
        have h3 := (Int.le_ediv_iff_mul_le hpos').mp h2
        have h4 : 0 ≤ (k : Int) * (-st) := Int.mul_nonneg (by omega) (by omega)
        have h5 : (k : Int) * (-st) = -((k : Int) * st) := by rw [Int.mul_neg]
        refine ⟨hneg, by omega, by omega, ?_⟩
        exact ⟨k, by rw [Int.mul_comm]; omega⟩
      · simp only [hba, if_false] at hk; omega
    · rintro (⟨h, _⟩ | ⟨_, hbx, hxa, q, hq⟩)
      · first | omega | exact h.elim
      · have hba : b < a := by omega
        simp only [hba, if_true]
        -- x - a = st * q, with x - a ≤ 0 and st < 0: q ≥ 0
        have hq0 : 0 ≤ q := by
          by_cases hcon : q < 0
          · exfalso
            have : q ≤ -1 := by omega
            have h6 : st * q ≥ st * (-1) := Int.mul_le_mul_of_nonpos_left (by omega) this
            have : st * (-1) = -st := by omega
            omega
          · omega
        refine ⟨q.toNat, ?_, ?_⟩
        · have h7 : q * (-st) ≤ a - b - 1 := by
            have : q * (-st) = -(st * q) := by rw [Int.mul_neg, Int.mul_comm]
            omega
          have h8 := (Int.le_ediv_iff_mul_le hpos').mpr h7
          omega
        · have : ((q.toNat : Nat) : Int) = q := Int.toNat_of_nonneg hq0
          rw [this, Int.mul_comm]; omega
  · have hp : st > 0 := hpos
    rw [if_pos hp]
    constructor
    · rintro ⟨k, hk, rfl⟩
      left
      by_cases hab : a < b
      · simp only [hab, if_true] at hk
        have h2 : (k : Int) ≤ (b - a - 1) / st := by omega
        have h3 := (Int.le_ediv_iff_mul_le hpos).mp h2
        have h4 : 0 ≤ (k : Int) * st := Int.mul_nonneg (by omega) (by omega)
        refine ⟨hpos, by omega, by omega, ?_⟩
        exact ⟨k, by rw [Int.mul_comm]; omega⟩
      · simp only [hab, if_false] at hk; omega
    · rintro (⟨_, hax, hxb, q, hq⟩ | ⟨h, _⟩)
      · have hab : a < b := by omega
        simp only [hab, if_true]
        have hq0 : 0 ≤ q := by
          by_cases hcon : q < 0
          · exfalso
            have : q ≤ -1 := by omega
            have h6 : st * q ≤ st * (-1) := Int.mul_le_mul_of_nonneg_left this (by omega)
            omega
          · omega
        refine ⟨q.toNat, ?_, ?_⟩
        · have h7 : q * st ≤ b - a - 1 := by rw [Int.mul_comm]; omega
          have h8 := (Int.le_ediv_iff_mul_le hpos).mpr h7
          omega
        · have : ((q.toNat : Nat) : Int) = q := Int.toNat_of_nonneg hq0
          rw [this, Int.mul_comm]; omega
      · first | omega | exact h.elim

end GridVerif.LocalGrid

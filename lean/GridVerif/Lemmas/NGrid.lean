/-
  Helper lemmas for C18 (`Model/NGrid.lean`): algebra of `product`, `chunked`, and the
  bridge from the model's `sumK`/`prodK` to `List.sum`/`List.prod` over a commutative
  semiring.
-/
import GridVerif.Model.NGrid
import Mathlib.Algebra.BigOperators.Group.List.Basic
import Mathlib.Algebra.BigOperators.Ring.List
import Mathlib.Tactic.Ring

namespace GridVerif.NGrid
open List

variable {α β γ K : Type}

/-! ### `sumK`, `prodK` -/

theorem sumK_eq [CommSemiring K] (xs : List K) : sumK xs = xs.sum := by
  simp [sumK, List.sum_eq_foldr]

theorem prodK_eq [CommSemiring K] (xs : List K) : prodK xs = xs.prod := by
  simp [prodK, List.prod_eq_foldr]

/-! ### `product` -/

theorem product_nil : product ([] : List (List β)) = [[]] := rfl

theorem product_cons (xs : List β) (rest : List (List β)) :
    product (xs :: rest) = xs.flatMap fun x => (product rest).map (x :: ·) := rfl

/-- `product` commutes with mapping a function over every factor. -/
theorem product_map (h : β → γ) (ls : List (List β)) :
    product (ls.map (List.map h)) = (product ls).map (List.map h) := by
  induction ls with
  | nil => rfl
  | cons xs rest ih =>
    simp only [List.map_cons, product_cons, ih, List.flatMap_map, List.map_flatMap, List.map_map]
    rfl

theorem length_product (ls : List (List β)) :
    (product ls).length = (ls.map List.length).prod := by
  induction ls with
  | nil => rfl
  | cons xs rest ih =>
    simp only [product_cons, List.length_flatMap, List.length_map, ih, List.map_cons,
      List.prod_cons, List.map_const', List.sum_const_nat]

/-- Last factor fastest: the combinations of `ls ++ [l]` are, for each combination of
`ls` in turn, that combination extended by each element of `l` in turn. -/
theorem product_append_singleton (ls : List (List β)) (l : List β) :
    product (ls ++ [l]) = (product ls).flatMap fun pre => l.map fun x => pre ++ [x] := by
  induction ls with
  | nil =>
    simp only [List.nil_append, product_cons, product_nil, List.map_cons, List.map_nil,
      List.flatMap_cons, List.flatMap_nil, List.append_nil, List.nil_append]
    induction l with
    | nil => rfl
    | cons a l ihl => simp [List.flatMap_cons, ihl]
  | cons xs rest ih =>
    simp only [List.cons_append, product_cons, ih, List.map_flatMap, List.map_map,
      List.flatMap_assoc, List.flatMap_map]
    rfl

/-- Position formula: entry `i * |product rest| + j` of `product (xs :: rest)` is
`xs[i] :: (product rest)[j]` — the first factor is the slowest index. -/
theorem product_cons_getElem (xs : List β) (rest : List (List β)) (i j : Nat)
    (hi : i < xs.length) (hj : j < (product rest).length) :
    (product (xs :: rest))[i * (product rest).length + j]? = some (xs[i] :: (product rest)[j]) := by
  induction xs generalizing i with
  | nil => simp at hi
  | cons x xs ih =>
    rw [product_cons, List.flatMap_cons]
    cases i with
    | zero =>
      simp only [Nat.zero_mul, Nat.zero_add, List.getElem_cons_zero]
      rw [List.getElem?_append_left (by simpa using hj)]
      simp [hj]
    | succ i =>
      have hi' : i < xs.length := by simpa using hi
      rw [List.getElem?_append_right (by simp [Nat.succ_mul]; omega)]
      have : (i + 1) * (product rest).length + j - (List.map (x :: ·) (product rest)).length
          = i * (product rest).length + j := by
        simp [Nat.succ_mul]; omega
      rw [this]
      have := ih i hi'
      rw [product_cons] at this
      simpa using this

/-! ### sums over products -/

theorem sum_flatMap [AddCommMonoid K] (l : List β) (f : β → List K) :
    (l.flatMap f).sum = (l.map fun x => (f x).sum).sum := by
  rw [List.flatMap_def, List.sum_flatten, List.map_map]
  rfl

/-- `einsum("i,i", weights, values)` as a sum over the nodes. -/
theorem sum_zipWith_weights_map [CommSemiring K] (ps : List α) (ws : List K) (h : α → K) :
    (List.zipWith (· * ·) ws (ps.map h)).sum = ((ps.zip ws).map fun xw => xw.2 * h xw.1).sum := by
  induction ps generalizing ws with
  | nil => simp
  | cons p ps ih =>
    cases ws with
    | nil => simp
    | cons w ws => simp [ih]

/-! ### `chunked` -/

theorem chunked_nil (c : Nat) : chunked c ([] : List β) = [] := by
  rw [chunked]; simp

theorem chunked_zero (xs : List β) : chunked 0 xs = [] := by
  rw [chunked]; simp

theorem chunked_cons (c : Nat) (hc : 1 ≤ c) (xs : List β) (hne : xs ≠ []) :
    chunked c xs = xs.take c :: chunked c (xs.drop c) := by
  rw [chunked, dif_neg]
  intro h
  rcases h with h | h
  · omega
  · exact hne h

/-- The chunks, concatenated, are the original sequence (every chunk size `≥ 1`). -/
theorem flatten_chunked (c : Nat) (hc : 1 ≤ c) (xs : List β) : (chunked c xs).flatten = xs := by
  induction h : xs.length using Nat.strong_induction_on generalizing xs with
  | _ n ih =>
    by_cases hne : xs = []
    · subst hne; simp [chunked_nil]
    · rw [chunked_cons c hc xs hne, List.flatten_cons]
      have hpos : 0 < xs.length := List.length_pos_iff.mpr hne
      rw [ih (xs.drop c).length (by rw [List.length_drop]; omega) _ rfl, List.take_append_drop]

/-- **Chunks of a zip = zip of chunks**, in the form the integration loop uses it:
chunking weights and values separately with the same size `c ≥ 1`, zipping the chunk
lists and accumulating `Σ values·weights` per chunk gives the one sum over the whole
sequence — for every `c`, dividing the length or not. -/
theorem chunk_fold [CommSemiring K] (c : Nat) (hc : 1 ≤ c) (w v : List K) (hl : w.length = v.length)
    (acc : K) :
    ((chunked c w).zip (chunked c v)).foldl
        (fun acc wv => acc + sumK (List.zipWith (· * ·) wv.2 wv.1)) acc
      = acc + (List.zipWith (· * ·) v w).sum := by
  induction h : w.length using Nat.strong_induction_on generalizing w v acc with
  | _ n ih =>
    by_cases hne : w = []
    · subst hne; simp [chunked_nil]
    · have hpos : 0 < w.length := List.length_pos_iff.mpr hne
      have hnev : v ≠ [] := by
        intro hv; subst hv; rw [List.length_nil] at hl; omega
      rw [chunked_cons c hc w hne, chunked_cons c hc v hnev, List.zip_cons_cons, List.foldl_cons]
      rw [ih (w.drop c).length (by rw [List.length_drop]; omega) (w.drop c) (v.drop c) (by simp [hl]) _ rfl]
      rw [sumK_eq, add_assoc]
      congr 1
      rw [← List.take_zipWith, ← List.drop_zipWith, List.sum_take_add_sum_drop]

/-! ### `foldlM` in `Except` when every step succeeds -/

theorem foldlM_ok [CommSemiring K] (l : List γ) (step : K → γ → Except Err K) (val : γ → K)
    (h : ∀ acc x, x ∈ l → step acc x = .ok (acc + val x)) (acc : K) :
    l.foldlM step acc = .ok (acc + (l.map val).sum) := by
  induction l generalizing acc with
  | nil => simp [pure, Except.pure]
  | cons x xs ih =>
    rw [List.foldlM_cons, h acc x (List.mem_cons_self)]
    simp only [bind, Except.bind]
    rw [ih (fun a y hy => h a y (List.mem_cons_of_mem _ hy))]
    simp [add_assoc]

end GridVerif.NGrid

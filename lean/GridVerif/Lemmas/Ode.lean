/-
  C15 — helper lemmas over ℝ: evaluation of the model's list/matrix plumbing at the sizes that occur for
  ODE orders 1–3, SymPy's Bell polynomials up to order 3, the chain rule up to order 3, uniqueness of the
  derivative functions of `Y ∘ g`.
-/
import GridVerif.Model.OdeSolve
import GridVerif.Lemmas.ElemReal
import Mathlib.Tactic.Ring
import Mathlib.Tactic.FieldSimp
import Mathlib.Analysis.Calculus.Deriv.Mul
import Mathlib.Analysis.Calculus.Deriv.Comp
import Mathlib.Analysis.Calculus.Deriv.Pow

namespace GridVerif.Ode
open GridVerif.Gen.Ode
open scoped Topology

/-! ### `sympy.bell` up to order 3 (for an arbitrary symbol sequence) -/

theorem bell_1_1 (x : Nat → ℝ) : bell x 1 1 = x 1 := by simp [bell, choose]
theorem bell_2_1 (x : Nat → ℝ) : bell x 2 1 = x 2 := by
  simp [bell, choose, List.range, List.range.loop]
theorem bell_2_2 (x : Nat → ℝ) : bell x 2 2 = x 1 ^ 2 := by
  simp [bell, choose, List.range, List.range.loop]; ring
theorem bell_3_1 (x : Nat → ℝ) : bell x 3 1 = x 3 := by
  simp [bell, choose, List.range, List.range.loop]
theorem bell_3_2 (x : Nat → ℝ) : bell x 3 2 = 3 * x 1 * x 2 := by
  simp [bell, choose, List.range, List.range.loop]; ring
theorem bell_3_3 (x : Nat → ℝ) : bell x 3 3 = x 1 ^ 3 := by
  simp [bell, choose, List.range, List.range.loop]; ring

/-- For orders ≤ 3 only the three supplied derivatives are read: the default entries of `seq3`
beyond the third do no work. -/
theorem bell_indep_of_tail (x x' : Nat → ℝ) (h1 : x 1 = x' 1) (h2 : x 2 = x' 2) (h3 : x 3 = x' 3)
    (n k : Nat) (hk : 1 ≤ k) (hkn : k ≤ n) (hn : n ≤ 3) : bell x n k = bell x' n k := by
  have : (n = 1 ∧ k = 1) ∨ (n = 2 ∧ k = 1) ∨ (n = 2 ∧ k = 2) ∨ (n = 3 ∧ k = 1) ∨ (n = 3 ∧ k = 2)
      ∨ (n = 3 ∧ k = 3) := by omega
  rcases this with ⟨rfl, rfl⟩ | ⟨rfl, rfl⟩ | ⟨rfl, rfl⟩ | ⟨rfl, rfl⟩ | ⟨rfl, rfl⟩ | ⟨rfl, rfl⟩
  · rw [bell_1_1, bell_1_1, h1]
  · rw [bell_2_1, bell_2_1, h2]
  · rw [bell_2_2, bell_2_2, h1]
  · rw [bell_3_1, bell_3_1, h3]
  · rw [bell_3_2, bell_3_2, h1, h2]
  · rw [bell_3_3, bell_3_3, h1]

/-! ### the generated loop nest of `_derivative_transformation_matrix`, orders 1–3 -/

theorem derivMatrix_rows_1 (b : Nat → Nat → ℝ) : matRows (derivMatrix b 1) 1 = [[b 1 1]] := by
  simp [matRows, derivMatrix, pyRange, List.range', matSet, matZeros, List.range, List.range.loop]

theorem derivMatrix_rows_2 (b : Nat → Nat → ℝ) :
    matRows (derivMatrix b 2) 2 = [[b 1 1, 0], [b 2 1, b 2 2]] := by
  simp [matRows, derivMatrix, pyRange, List.range', matSet, matZeros, List.range, List.range.loop]

theorem derivMatrix_rows_3 (b : Nat → Nat → ℝ) :
    matRows (derivMatrix b 3) 3 = [[b 1 1, 0, 0], [b 2 1, b 2 2, 0], [b 3 1, b 3 2, b 3 3]] := by
  simp [matRows, derivMatrix, pyRange, List.range', matSet, matZeros, List.range, List.range.loop]

/-- Entry-wise reading of `matRows` for a 3 × 3 block. -/
theorem entries_of_rows_3 {m : Mat ℝ} {r0 r1 r2 : List ℝ} (h : matRows m 3 = [r0, r1, r2]) :
    r0 = [m 0 0, m 0 1, m 0 2] ∧ r1 = [m 1 0, m 1 1, m 1 2] ∧ r2 = [m 2 0, m 2 1, m 2 2] := by
  simp [matRows, List.range, List.range.loop] at h
  exact ⟨h.1.symm, h.2.1.symm, h.2.2.symm⟩

theorem entries_of_rows_2 {m : Mat ℝ} {r0 r1 : List ℝ} (h : matRows m 2 = [r0, r1]) :
    r0 = [m 0 0, m 0 1] ∧ r1 = [m 1 0, m 1 1] := by
  simp [matRows, List.range, List.range.loop] at h
  exact ⟨h.1.symm, h.2.symm⟩

theorem entries_of_rows_1 {m : Mat ℝ} {r0 : List ℝ} (h : matRows m 1 = [r0]) : r0 = [m 0 0] := by
  simp [matRows, List.range, List.range.loop] at h
  exact h.symm

/-! ### `M.dot(v)` and `solve(M, b)` at sizes 0–3 -/

theorem matVec_nil (m : Mat ℝ) : matVec m [] = [] := by simp [matVec]
theorem matVec_one (m : Mat ℝ) (v1 : ℝ) : matVec m [v1] = [m 0 0 * v1] := by
  simp [matVec, rowDot, List.zipIdx, List.range, List.range.loop]
theorem matVec_two (m : Mat ℝ) (v1 v2 : ℝ) :
    matVec m [v1, v2] = [m 0 0 * v1 + m 0 1 * v2, m 1 0 * v1 + m 1 1 * v2] := by
  simp [matVec, rowDot, List.zipIdx, List.range, List.range.loop]
theorem matVec_three (m : Mat ℝ) (v1 v2 v3 : ℝ) :
    matVec m [v1, v2, v3] = [m 0 0 * v1 + m 0 1 * v2 + m 0 2 * v3, m 1 0 * v1 + m 1 1 * v2 + m 1 2 * v3,
      m 2 0 * v1 + m 2 1 * v2 + m 2 2 * v3] := by
  simp [matVec, rowDot, List.zipIdx, List.range, List.range.loop]

theorem forwardSolve_nil (m : Mat ℝ) : forwardSolve m [] = [] := by simp [forwardSolve]
theorem forwardSolve_one (m : Mat ℝ) (b1 : ℝ) : forwardSolve m [b1] = [b1 / m 0 0] := by
  simp [forwardSolve, rowDot, List.zipIdx]
theorem forwardSolve_two (m : Mat ℝ) (b1 b2 : ℝ) :
    forwardSolve m [b1, b2] = [b1 / m 0 0, (b2 - m 1 0 * (b1 / m 0 0)) / m 1 1] := by
  simp [forwardSolve, rowDot, List.zipIdx]
theorem forwardSolve_three (m : Mat ℝ) (b1 b2 b3 : ℝ) :
    forwardSolve m [b1, b2, b3] = [b1 / m 0 0, (b2 - m 1 0 * (b1 / m 0 0)) / m 1 1,
      (b3 - (m 2 0 * (b1 / m 0 0) + m 2 1 * ((b2 - m 1 0 * (b1 / m 0 0)) / m 1 1))) / m 2 2] := by
  simp [forwardSolve, rowDot, List.zipIdx]

/-! ### the generated fold of `_rearrange_to_explicit_ode`, any order -/

private theorem rearrange_fold (as : List ℝ) :
    ∀ (n : Nat) (pre ys : List ℝ) (acc : ℝ), pre.length = n → ys.length = as.length →
      (as.zipIdx n).foldlM (fun (result : ℝ) (p : ℝ × Nat) => do
          let b := p.1
          let i := p.2
          pure (result - (b * (← (pre ++ ys)[i]?)))) acc
        = some (acc - (List.zipWith (· * ·) as ys).sum) := by
  induction as with
  | nil => intro n pre ys acc _ _; simp
  | cons a t ih =>
    intro n pre ys acc hp hy
    cases ys with
    | nil => simp at hy
    | cons y0 yt =>
      have hget : (pre ++ y0 :: yt)[n]? = some y0 := by
        rw [List.getElem?_append_right (by omega)]; simp [hp]
      have := ih (n + 1) (pre ++ [y0]) yt (acc - a * y0) (by simp [hp]) (by simpa using hy)
      simp only [List.append_assoc, List.singleton_append] at this
      simp only [List.zipIdx_cons, List.foldlM_cons, hget, List.zipWith_cons_cons, List.sum_cons]
      simp only [bind, Option.bind, pure] at this ⊢
      rw [this]; congr 1; ring

/-- `_rearrange_to_explicit_ode` for an ODE of any order `K = as.length`: with `K` rows `ys` of `y`
and the `K + 1` rows `as ++ [aK]` of `coeff_b`, the value is `(f − Σ_{k<K} a_k y_k) / a_K`. -/
theorem rearrange_eq (as ys : List ℝ) (aK f : ℝ) (h : ys.length = as.length) :
    rearrangeToExplicitOde ys (as ++ [aK]) f = some ((f - (List.zipWith (· * ·) as ys).sum) / aK) := by
  unfold rearrangeToExplicitOde
  have := rearrange_fold as 0 [] ys f rfl h
  simp only [List.nil_append] at this
  simp only [List.dropLast_concat, List.getLast?_append, List.getLast?_singleton]
  simp only [bind, Option.bind, pure] at this ⊢
  rw [this]; simp

/-! ### the generated `_evaluate_coeffs_on_points` and the generated callbacks `func`, orders 1–3 -/

/-- The generated row of `_evaluate_coeffs_on_points` (`np.zeros` + the number, resp. + the callable's value) is the
value `a_k(x)` of the coefficient. -/
theorem evaluateCoeffOnPoint_eq (x : ℝ) (c : Coeff ℝ) : evaluateCoeffOnPoint x c = c.at x := by
  cases c <;> simp [evaluateCoeffOnPoint, Coeff.at]

theorem evaluateCoeffsOnPoints_eq (x : ℝ) (cs : List (Coeff ℝ)) :
    evaluateCoeffsOnPoints x cs = cs.map (fun c => c.at x) := by
  simp [evaluateCoeffsOnPoints, evaluateCoeffOnPoint_eq]

section funcs
variable (tf : TransformFns ℝ) (fx : ℝ → ℝ)

theorem ivpFunc_direct_1 (c0 c1 : Coeff ℝ) (x Y0 : ℝ) :
    ivpFunc [c0, c1] none fx x [Y0] = some [(fx x - c0.at x * Y0) / c1.at x] := by
  have := rearrange_eq [c0.at x] [Y0] (c1.at x) (fx x) rfl
  simp only [List.cons_append, List.nil_append] at this
  simp [ivpFunc, evaluateCoeffsOnPoints_eq, this]

theorem ivpFunc_direct_2 (c0 c1 c2 : Coeff ℝ) (x Y0 Y1 : ℝ) :
    ivpFunc [c0, c1, c2] none fx x [Y0, Y1]
      = some [Y1, (fx x - (c0.at x * Y0 + c1.at x * Y1)) / c2.at x] := by
  have := rearrange_eq [c0.at x, c1.at x] [Y0, Y1] (c2.at x) (fx x) rfl
  simp only [List.cons_append, List.nil_append] at this
  simp [ivpFunc, evaluateCoeffsOnPoints_eq, this]

theorem ivpFunc_direct_3 (c0 c1 c2 c3 : Coeff ℝ) (x Y0 Y1 Y2 : ℝ) :
    ivpFunc [c0, c1, c2, c3] none fx x [Y0, Y1, Y2]
      = some [Y1, Y2, (fx x - (c0.at x * Y0 + (c1.at x * Y1 + c2.at x * Y2))) / c3.at x] := by
  have := rearrange_eq [c0.at x, c1.at x, c2.at x] [Y0, Y1, Y2] (c3.at x) (fx x) rfl
  simp only [List.cons_append, List.nil_append] at this
  simp [ivpFunc, evaluateCoeffsOnPoints_eq, this]

/-- The generated `_transform_ode_from_rtransform` at one point: the rows `coeffB` of the transformed equation with
the coefficients and the three transform derivatives all taken at the same point. -/
theorem transformOdeFromRtransform_eq (cs : List (Coeff ℝ)) (x : ℝ) :
    transformOdeFromRtransform cs tf x = coeffB (cs.map (fun c => c.at x)) (tf.deriv x) (tf.deriv2 x) (tf.deriv3 x) := by
  simp [transformOdeFromRtransform, transformOdeFromDerivs, evaluateCoeffsOnPoints_eq]

theorem ivpFunc_transformed_1 (c0 c1 : Coeff ℝ) (r Y0 : ℝ) :
    ivpFunc [c0, c1] (some tf) fx r [Y0]
      = (let x := tf.inverse r
         let a0 := c0.at x; let a1 := c1.at x
         let d0 := tf.deriv x; let d1 := tf.deriv2 x; let d2 := tf.deriv3 x
         some [(fx x - coeffB_1_0 a0 a1 d0 d1 d2 * Y0) / coeffB_1_1 a0 a1 d0 d1 d2]) := by
  have := rearrange_eq
    [coeffB_1_0 (c0.at (tf.inverse r)) (c1.at (tf.inverse r)) (tf.deriv (tf.inverse r))
      (tf.deriv2 (tf.inverse r)) (tf.deriv3 (tf.inverse r))] [Y0]
    (coeffB_1_1 (c0.at (tf.inverse r)) (c1.at (tf.inverse r)) (tf.deriv (tf.inverse r))
      (tf.deriv2 (tf.inverse r)) (tf.deriv3 (tf.inverse r))) (fx (tf.inverse r)) rfl
  simp only [List.cons_append, List.nil_append] at this
  simp [ivpFunc, transformAndRearrange, transformOdeFromRtransform_eq, coeffB, coeffB1, this]

theorem ivpFunc_transformed_2 (c0 c1 c2 : Coeff ℝ) (r Y0 Y1 : ℝ) :
    ivpFunc [c0, c1, c2] (some tf) fx r [Y0, Y1]
      = (let x := tf.inverse r
         let a0 := c0.at x; let a1 := c1.at x; let a2 := c2.at x
         let d0 := tf.deriv x; let d1 := tf.deriv2 x; let d2 := tf.deriv3 x
         some [Y1, (fx x - (coeffB_2_0 a0 a1 a2 d0 d1 d2 * Y0 + coeffB_2_1 a0 a1 a2 d0 d1 d2 * Y1))
            / coeffB_2_2 a0 a1 a2 d0 d1 d2]) := by
  have := rearrange_eq
    [coeffB_2_0 (c0.at (tf.inverse r)) (c1.at (tf.inverse r)) (c2.at (tf.inverse r))
      (tf.deriv (tf.inverse r)) (tf.deriv2 (tf.inverse r)) (tf.deriv3 (tf.inverse r)),
     coeffB_2_1 (c0.at (tf.inverse r)) (c1.at (tf.inverse r)) (c2.at (tf.inverse r))
      (tf.deriv (tf.inverse r)) (tf.deriv2 (tf.inverse r)) (tf.deriv3 (tf.inverse r))] [Y0, Y1]
    (coeffB_2_2 (c0.at (tf.inverse r)) (c1.at (tf.inverse r)) (c2.at (tf.inverse r))
      (tf.deriv (tf.inverse r)) (tf.deriv2 (tf.inverse r)) (tf.deriv3 (tf.inverse r))) (fx (tf.inverse r)) rfl
  simp only [List.cons_append, List.nil_append] at this
  simp [ivpFunc, transformAndRearrange, transformOdeFromRtransform_eq, coeffB, coeffB2, this]

theorem ivpFunc_transformed_3 (c0 c1 c2 c3 : Coeff ℝ) (r Y0 Y1 Y2 : ℝ) :
    ivpFunc [c0, c1, c2, c3] (some tf) fx r [Y0, Y1, Y2]
      = (let x := tf.inverse r
         let a0 := c0.at x; let a1 := c1.at x; let a2 := c2.at x
         let a3 := c3.at x
         let d0 := tf.deriv x; let d1 := tf.deriv2 x; let d2 := tf.deriv3 x
         some [Y1, Y2, (fx x - (coeffB_3_0 a0 a1 a2 a3 d0 d1 d2 * Y0 + (coeffB_3_1 a0 a1 a2 a3 d0 d1 d2 * Y1
            + coeffB_3_2 a0 a1 a2 a3 d0 d1 d2 * Y2))) / coeffB_3_3 a0 a1 a2 a3 d0 d1 d2]) := by
  have := rearrange_eq
    [coeffB_3_0 (c0.at (tf.inverse r)) (c1.at (tf.inverse r)) (c2.at (tf.inverse r))
      (c3.at (tf.inverse r)) (tf.deriv (tf.inverse r)) (tf.deriv2 (tf.inverse r)) (tf.deriv3 (tf.inverse r)),
     coeffB_3_1 (c0.at (tf.inverse r)) (c1.at (tf.inverse r)) (c2.at (tf.inverse r))
      (c3.at (tf.inverse r)) (tf.deriv (tf.inverse r)) (tf.deriv2 (tf.inverse r)) (tf.deriv3 (tf.inverse r)),
     coeffB_3_2 (c0.at (tf.inverse r)) (c1.at (tf.inverse r)) (c2.at (tf.inverse r))
      (c3.at (tf.inverse r)) (tf.deriv (tf.inverse r)) (tf.deriv2 (tf.inverse r)) (tf.deriv3 (tf.inverse r))]
    [Y0, Y1, Y2]
    (coeffB_3_3 (c0.at (tf.inverse r)) (c1.at (tf.inverse r)) (c2.at (tf.inverse r))
      (c3.at (tf.inverse r)) (tf.deriv (tf.inverse r)) (tf.deriv2 (tf.inverse r)) (tf.deriv3 (tf.inverse r)))
    (fx (tf.inverse r)) rfl
  simp only [List.cons_append, List.nil_append] at this
  simp [ivpFunc, transformAndRearrange, transformOdeFromRtransform_eq, coeffB, coeffB3, this]

end funcs

/-- `solve_ode_bvp` hands SciPy the same first-order system as `solve_ode_ivp` (the two nested `func` have the same
generated text up to the shape plumbing `x = np.array([x])`). -/
theorem bvpFunc_eq_ivpFunc (cs : List (Coeff ℝ)) (tf : Option (TransformFns ℝ)) (fx : ℝ → ℝ) (x : ℝ) (y : List ℝ) :
    bvpFunc cs tf fx x y = ivpFunc cs tf fx x y := rfl

/-! ### chain rule up to order 3, pointwise -/

theorem chain_1 {g g1 Y Y1 : ℝ → ℝ} {x : ℝ} (hg : HasDerivAt g (g1 x) x)
    (hY : HasDerivAt Y (Y1 (g x)) (g x)) : HasDerivAt (fun t => Y (g t)) (g1 x * Y1 (g x)) x :=
  (HasDerivAt.comp x hY hg).congr_deriv (by ring)

theorem chain_2 {g g1 g2 Y1 Y2 : ℝ → ℝ} {x : ℝ} (hg : HasDerivAt g (g1 x) x)
    (hg1 : HasDerivAt g1 (g2 x) x) (hY1 : HasDerivAt Y1 (Y2 (g x)) (g x)) :
    HasDerivAt (fun t => g1 t * Y1 (g t)) (g2 x * Y1 (g x) + g1 x ^ 2 * Y2 (g x)) x := by
  have c1 : HasDerivAt (fun t => Y1 (g t)) (Y2 (g x) * g1 x) x := HasDerivAt.comp x hY1 hg
  exact (hg1.mul c1).congr_deriv (by ring)

theorem chain_3 {g g1 g2 g3 Y1 Y2 Y3 : ℝ → ℝ} {x : ℝ} (hg : HasDerivAt g (g1 x) x)
    (hg1 : HasDerivAt g1 (g2 x) x) (hg2 : HasDerivAt g2 (g3 x) x)
    (hY1 : HasDerivAt Y1 (Y2 (g x)) (g x)) (hY2 : HasDerivAt Y2 (Y3 (g x)) (g x)) :
    HasDerivAt (fun t => g2 t * Y1 (g t) + g1 t ^ 2 * Y2 (g t))
      (g3 x * Y1 (g x) + 3 * g1 x * g2 x * Y2 (g x) + g1 x ^ 3 * Y3 (g x)) x := by
  have c1 : HasDerivAt (fun t => Y1 (g t)) (Y2 (g x) * g1 x) x := HasDerivAt.comp x hY1 hg
  have c2 : HasDerivAt (fun t => Y2 (g t)) (Y3 (g x) * g1 x) x := HasDerivAt.comp x hY2 hg
  exact ((hg2.mul c1).add ((hg1.pow 2).mul c2)).congr_deriv (by simp; ring)

/-- Two functions that agree on an open set have the same derivative at its points. -/
theorem deriv_eq_of_eqOn {s : Set ℝ} (hs : IsOpen s) {u v : ℝ → ℝ} {u' v' x : ℝ} (hx : x ∈ s)
    (h : ∀ t ∈ s, u t = v t) (hu : HasDerivAt u u' x) (hv : HasDerivAt v v' x) : u' = v' := by
  have hev : u =ᶠ[𝓝 x] v := by
    filter_upwards [hs.mem_nhds hx] with t ht using h t ht
  exact hu.unique (hv.congr_of_eventuallyEq hev)

end GridVerif.Ode

namespace GridVerif.Ode
open GridVerif.Gen.Ode

/-! ### entries of `_derivative_transformation_matrix([tf.deriv, tf.deriv2, tf.deriv3], x, n)`, n = 1, 2, 3 -/

@[simp] theorem seqOfList3_1 (a b c : ℝ) : seqOfList [a, b, c] 1 = a := rfl
@[simp] theorem seqOfList3_2 (a b c : ℝ) : seqOfList [a, b, c] 2 = b := rfl
@[simp] theorem seqOfList3_3 (a b c : ℝ) : seqOfList [a, b, c] 3 = c := rfl

theorem derivMatrixAt_1 (T : TransformFns ℝ) (x : ℝ) : derivMatrixAt T x 1 0 0 = T.deriv x := by
  have h := entries_of_rows_1 (derivMatrix_rows_1 (fun n k => bell (seqOfList [T.deriv x, T.deriv2 x, T.deriv3 x]) n k))
  simp only [List.cons.injEq, and_true] at h
  simp only [derivMatrixAt, derivativeTransformationMatrix, List.map_cons, List.map_nil, ← h, bell_1_1, seqOfList3_1]

theorem derivMatrixAt_2 (T : TransformFns ℝ) (x : ℝ) :
    derivMatrixAt T x 2 0 0 = T.deriv x ∧ derivMatrixAt T x 2 0 1 = 0 ∧
    derivMatrixAt T x 2 1 0 = T.deriv2 x ∧ derivMatrixAt T x 2 1 1 = T.deriv x ^ 2 := by
  have h := entries_of_rows_2 (derivMatrix_rows_2 (fun n k => bell (seqOfList [T.deriv x, T.deriv2 x, T.deriv3 x]) n k))
  simp only [List.cons.injEq, and_true] at h
  obtain ⟨⟨h00, h01⟩, h10, h11⟩ := h
  simp only [derivMatrixAt, derivativeTransformationMatrix, List.map_cons, List.map_nil, ← h00, ← h01, ← h10, ← h11,
    bell_1_1, bell_2_1, bell_2_2, seqOfList3_1, seqOfList3_2]
  simp

theorem derivMatrixAt_3 (T : TransformFns ℝ) (x : ℝ) :
    derivMatrixAt T x 3 0 0 = T.deriv x ∧ derivMatrixAt T x 3 0 1 = 0 ∧ derivMatrixAt T x 3 0 2 = 0 ∧
    derivMatrixAt T x 3 1 0 = T.deriv2 x ∧ derivMatrixAt T x 3 1 1 = T.deriv x ^ 2 ∧ derivMatrixAt T x 3 1 2 = 0 ∧
    derivMatrixAt T x 3 2 0 = T.deriv3 x ∧ derivMatrixAt T x 3 2 1 = 3 * T.deriv x * T.deriv2 x ∧
    derivMatrixAt T x 3 2 2 = T.deriv x ^ 3 := by
  have h := entries_of_rows_3 (derivMatrix_rows_3 (fun n k => bell (seqOfList [T.deriv x, T.deriv2 x, T.deriv3 x]) n k))
  simp only [List.cons.injEq, and_true] at h
  obtain ⟨⟨h00, h01, h02⟩, ⟨h10, h11, h12⟩, h20, h21, h22⟩ := h
  simp only [derivMatrixAt, derivativeTransformationMatrix, List.map_cons, List.map_nil, ← h00, ← h01, ← h02, ← h10,
    ← h11, ← h12, ← h20, ← h21, ← h22, bell_1_1, bell_2_1, bell_2_2, bell_3_1, bell_3_2, bell_3_3, seqOfList3_1,
    seqOfList3_2, seqOfList3_3]
  simp

end GridVerif.Ode

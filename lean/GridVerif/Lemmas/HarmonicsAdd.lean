/-
  C08 — the addition theorem of degree 3 as a polynomial identity on two unit vectors, and for the seven rows
  of degree 3 of the recursion (closed forms of `Lemmas/HarmonicsLow.lean`).
-/
import GridVerif.Lemmas.HarmonicsLow
import Mathlib.Tactic.LinearCombination

namespace GridVerif.Harmonics
open Real

/-- `Σ_m y_3m(u) y_3m(u') = 7/4 · P_3(u·u')` for unit vectors `u = (x, y, z)`, `u' = (x', y', z')`, the factor
`1/π` of the squared normalisation constants taken out.  The cofactors of `|u|² − 1`, `|u'|² − 1` come from a
polynomial division. -/
theorem add3_poly (x y z x' y' z' : ℝ) (h : x ^ 2 + y ^ 2 + z ^ 2 = 1) (h' : x' ^ 2 + y' ^ 2 + z' ^ 2 = 1) :
    7 / 16 * ((5 * z ^ 3 - 3 * z) * (5 * z' ^ 3 - 3 * z')) +
    21 / 32 * ((x * (5 * z ^ 2 - 1)) * (x' * (5 * z' ^ 2 - 1))) +
    21 / 32 * ((y * (5 * z ^ 2 - 1)) * (y' * (5 * z' ^ 2 - 1))) +
    105 / 16 * (((x ^ 2 - y ^ 2) * z) * ((x' ^ 2 - y' ^ 2) * z')) +
    105 / 4 * ((x * y * z) * (x' * y' * z')) +
    35 / 32 * ((x ^ 3 - 3 * x * y ^ 2) * (x' ^ 3 - 3 * x' * y' ^ 2)) +
    35 / 32 * ((3 * x ^ 2 * y - y ^ 3) * (3 * x' ^ 2 * y' - y' ^ 3)) =
    7 / 4 * ((5 * (x * x' + y * y' + z * z') ^ 3 - 3 * (x * x' + y * y' + z * z')) / 2) := by
  linear_combination
    (-105 * x * x' ^ 3 / 32 - 105 * x * x' * y' ^ 2 / 32 - 105 * x' ^ 2 * y * y' / 32 - 105 * x' ^ 2 * z * z' / 16 -
      105 * y * y' ^ 3 / 32 - 105 * y' ^ 2 * z * z' / 16) * h +
    (105 * x * x' * z ^ 2 / 32 - 105 * x * x' / 32 + 105 * y * y' * z ^ 2 / 32 - 105 * y * y' / 32 +
      105 * z ^ 3 * z' / 16 - 105 * z * z' / 16) * h'

theorem unit_vec (θ φ : ℝ) : (sin φ * cos θ) ^ 2 + (sin φ * sin θ) ^ 2 + cos φ ^ 2 = 1 := by
  linear_combination (sin φ ^ 2) * Real.sin_sq_add_cos_sq θ + Real.sin_sq_add_cos_sq φ

/-- The addition theorem for the seven rows of degree 3 of the recursion, all angles. -/
theorem add3_spec (θ φ θ' φ' : ℝ) :
    ylmSpec (sin φ) (cos φ) θ 3 0 * ylmSpec (sin φ') (cos φ') θ' 3 0 +
    (ylmSpec (sin φ) (cos φ) θ 3 1 * ylmSpec (sin φ') (cos φ') θ' 3 1 +
    (ylmSpec (sin φ) (cos φ) θ 3 (-1) * ylmSpec (sin φ') (cos φ') θ' 3 (-1) +
    (ylmSpec (sin φ) (cos φ) θ 3 2 * ylmSpec (sin φ') (cos φ') θ' 3 2 +
    (ylmSpec (sin φ) (cos φ) θ 3 (-2) * ylmSpec (sin φ') (cos φ') θ' 3 (-2) +
    (ylmSpec (sin φ) (cos φ) θ 3 3 * ylmSpec (sin φ') (cos φ') θ' 3 3 +
    ylmSpec (sin φ) (cos φ) θ 3 (-3) * ylmSpec (sin φ') (cos φ') θ' 3 (-3)))))) =
    7 / (4 * π) * pleg 0
      (sin φ * cos θ * (sin φ' * cos θ') + sin φ * sin θ * (sin φ' * sin θ') + cos φ * cos φ') 3 0 := by
  rw [y30, y30, y31, y31, y3m1, y3m1, y32, y32, y3m2, y3m2, y33, y33, y3m3, y3m3, pleg_3_0]
  have hpi : π ≠ 0 := Real.pi_ne_zero
  have hA : √(7 / (16 * π)) * √(7 / (16 * π)) = 7 / 16 * (1 / π) := by
    rw [Real.mul_self_sqrt (by positivity)]; field_simp
  have hB : √(21 / (32 * π)) * √(21 / (32 * π)) = 21 / 32 * (1 / π) := by
    rw [Real.mul_self_sqrt (by positivity)]; field_simp
  have hC : √(105 / (16 * π)) * √(105 / (16 * π)) = 105 / 16 * (1 / π) := by
    rw [Real.mul_self_sqrt (by positivity)]; field_simp
  have hD : √(105 / (4 * π)) * √(105 / (4 * π)) = 105 / 4 * (1 / π) := by
    rw [Real.mul_self_sqrt (by positivity)]; field_simp
  have hE : √(35 / (32 * π)) * √(35 / (32 * π)) = 35 / 32 * (1 / π) := by
    rw [Real.mul_self_sqrt (by positivity)]; field_simp
  have hP := add3_poly (sin φ * cos θ) (sin φ * sin θ) (cos φ) (sin φ' * cos θ') (sin φ' * sin θ') (cos φ')
    (unit_vec θ φ) (unit_vec θ' φ')
  have e7 : (7 : ℝ) / (4 * π) = 7 / 4 * (1 / π) := by field_simp
  rw [e7]
  generalize sin φ * cos θ = x at *
  generalize sin φ * sin θ = y at *
  generalize cos φ = z at *
  generalize sin φ' * cos θ' = x' at *
  generalize sin φ' * sin θ' = y' at *
  generalize cos φ' = z' at *
  generalize (1 : ℝ) / π = q at *
  linear_combination
    ((5 * z ^ 3 - 3 * z) * (5 * z' ^ 3 - 3 * z')) * hA +
    ((x * (5 * z ^ 2 - 1)) * (x' * (5 * z' ^ 2 - 1)) + (y * (5 * z ^ 2 - 1)) * (y' * (5 * z' ^ 2 - 1))) * hB +
    (((x ^ 2 - y ^ 2) * z) * ((x' ^ 2 - y' ^ 2) * z')) * hC +
    ((x * y * z) * (x' * y' * z')) * hD +
    ((x ^ 3 - 3 * x * y ^ 2) * (x' ^ 3 - 3 * x' * y' ^ 2) + (3 * x ^ 2 * y - y ^ 3) * (3 * x' ^ 2 * y' - y' ^ 3)) * hE +
    q * hP

end GridVerif.Harmonics

/-
  Helper lemmas for C05 over the reals: what the regenerated arithmetic says at `K = ℝ`,
  norms and orthogonal matrices (3×3, by coordinates), regrouping of the quadrature sum by
  shells, the sector count over an ordered field, exact dyadic sector radii.
-/
import GridVerif.Lemmas.AtomGrid
import Mathlib.Analysis.Real.Sqrt
import Mathlib.Tactic.LinearCombination
import Mathlib.Tactic.FieldSimp
import Mathlib.Tactic.Positivity

set_option linter.unusedSectionVars false

namespace GridVerif.AtomGrid
open GridVerif.Bisect GridVerif.Gen.Presets

/-! ### the regenerated arithmetic at `ℝ` -/

@[simp] theorem npow_two (r : ℝ) : npow r 2 = r ^ 2 := by
  simp [npow]; ring

theorem scalePoint_real (u r : ℝ) : scalePoint u r = u * r := rfl
theorem addCentre_real (p c : ℝ) : Gen.Presets.addCentre p c = p + c := rfl
theorem shellWeight_real (ω w r : ℝ) : shellWeight ω w r = ω * w * r ^ 2 := by
  simp [shellWeight]
theorem shellGridWeight_real (ω w : ℝ) : shellGridWeight ω w = ω * w := rfl

/-! ### vectors -/

def V3.dot (a b : V3 ℝ) : ℝ := a.x * b.x + a.y * b.y + a.z * b.z
def V3.norm2 (a : V3 ℝ) : ℝ := a.dot a
noncomputable def V3.norm (a : V3 ℝ) : ℝ := Real.sqrt a.norm2
def V3.sub (a b : V3 ℝ) : V3 ℝ := ⟨a.x - b.x, a.y - b.y, a.z - b.z⟩
def V3.add (a b : V3 ℝ) : V3 ℝ := ⟨a.x + b.x, a.y + b.y, a.z + b.z⟩
def V3.smul (r : ℝ) (a : V3 ℝ) : V3 ℝ := ⟨r * a.x, r * a.y, r * a.z⟩
/-- the direction `a / ‖a‖` (no meaning at `a = 0`; never used there with a non-zero weight) -/
noncomputable def V3.unit (a : V3 ℝ) : V3 ℝ := ⟨a.x / a.norm, a.y / a.norm, a.z / a.norm⟩

/-- `R Rᵀ = 1` (rows orthonormal) — what SciPy's `as_matrix()` returns. -/
def M3.Orthogonal (R : M3 ℝ) : Prop :=
  R.r0.dot R.r0 = 1 ∧ R.r1.dot R.r1 = 1 ∧ R.r2.dot R.r2 = 1 ∧
  R.r0.dot R.r1 = 0 ∧ R.r0.dot R.r2 = 0 ∧ R.r1.dot R.r2 = 0

def M3.one : M3 ℝ := ⟨⟨1, 0, 0⟩, ⟨0, 1, 0⟩, ⟨0, 0, 1⟩⟩

/-- every matrix a shell carries is orthogonal -/
def RotOk (rot : Option (M3 ℝ)) : Prop := ∀ R, rot = some R → R.Orthogonal

theorem norm2_mulMat (u : V3 ℝ) (R : M3 ℝ) (h : R.Orthogonal) : (u.mulMat R).norm2 = u.norm2 := by
  obtain ⟨h00, h11, h22, h01, h02, h12⟩ := h
  simp only [V3.dot] at h00 h11 h22 h01 h02 h12
  simp only [V3.norm2, V3.dot, V3.mulMat]
  linear_combination (u.x ^ 2) * h00 + (u.y ^ 2) * h11 + (u.z ^ 2) * h22 +
    (2 * u.x * u.y) * h01 + (2 * u.x * u.z) * h02 + (2 * u.y * u.z) * h12

theorem norm2_applyRot (rot : Option (M3 ℝ)) (h : RotOk rot) (u : V3 ℝ) :
    (applyRot rot u).norm2 = u.norm2 := by
  cases rot with
  | none => rfl
  | some R => exact norm2_mulMat u R (h R rfl)

/-- a stored point plus the centre, in coordinates: `c + r • v` -/
theorem point_eq (v c : V3 ℝ) (r : ℝ) : (v.scale r).addCentre c = (V3.smul r v).add c := by
  simp only [V3.scale, V3.addCentre, scalePoint_real, addCentre_real, V3.smul, V3.add]
  congr 1 <;> ring

theorem point_sub_centre (v c : V3 ℝ) (r : ℝ) : ((v.scale r).addCentre c).sub c = V3.smul r v := by
  simp only [V3.scale, V3.addCentre, scalePoint_real, addCentre_real, V3.smul, V3.sub]
  congr 1 <;> ring

theorem norm_smul_unit (v : V3 ℝ) (r : ℝ) (hv : v.norm2 = 1) (hr : 0 ≤ r) : (V3.smul r v).norm = r := by
  have : (V3.smul r v).norm2 = r ^ 2 := by
    simp only [V3.norm2, V3.dot, V3.smul] at hv ⊢
    linear_combination (r ^ 2) * hv
  rw [V3.norm, this, Real.sqrt_sq hr]

theorem unit_smul_unit (v : V3 ℝ) (r : ℝ) (hv : v.norm2 = 1) (hr : 0 < r) : (V3.smul r v).unit = v := by
  obtain ⟨x, y, z⟩ := v
  have hn := norm_smul_unit ⟨x, y, z⟩ r hv hr.le
  simp only [V3.smul] at hn
  have : r ≠ 0 := hr.ne'
  simp only [V3.unit, V3.smul, hn, V3.mk.injEq]
  refine ⟨?_, ?_, ?_⟩ <;> field_simp

/-! ### quadrature sums -/

/-- `Σ_k F(p_k) w_k` over a grid given by its point and weight lists. -/
def quad (F : V3 ℝ → ℝ) (pts : List (V3 ℝ)) (wts : List ℝ) : ℝ :=
  (List.zipWith (fun p w => F p * w) pts wts).sum

theorem quad_append (F : V3 ℝ → ℝ) (p1 p2 : List (V3 ℝ)) (w1 w2 : List ℝ) (h : p1.length = w1.length) :
    quad F (p1 ++ p2) (w1 ++ w2) = quad F p1 w1 + quad F p2 w2 := by
  simp [quad, List.zipWith_append h]

theorem zipWith_congr_left {α β γ : Type} (f g : α → β → γ) (l : List α) (l' : List β)
    (h : ∀ a ∈ l, ∀ b, f a b = g a b) : List.zipWith f l l' = List.zipWith g l l' := by
  induction l generalizing l' with
  | nil => simp
  | cons a l ih =>
    cases l' with
    | nil => simp
    | cons b l' =>
      simp only [List.zipWith_cons_cons]
      rw [h a (by simp) b, ih l' (fun a' ha' b' => h a' (by simp [ha']) b')]

theorem sum_zipWith_const_mul {α β : Type} (k : ℝ) (f : α → β → ℝ) (l : List α) (l' : List β) :
    (List.zipWith (fun a b => k * f a b) l l').sum = k * (List.zipWith f l l').sum := by
  induction l generalizing l' with
  | nil => simp
  | cons a l ih =>
    cases l' with
    | nil => simp
    | cons b l' => simp [ih l', mul_add]

/-- the quadrature over the whole grid is the sum of the per-shell quadratures -/
theorem quad_grid (F : V3 ℝ → ℝ) (shells : List (Shell ℝ)) (c : V3 ℝ) (hwf : WF shells) :
    quad F ((rawPoints shells).map fun p => p.addCentre c) (weights shells) =
      (shells.map fun s => quad F (s.points.map fun p => p.addCentre c) s.weights).sum := by
  induction shells with
  | nil => simp [rawPoints, weights, quad]
  | cons s shells ih =>
    have hwf' : WF shells := fun t ht => hwf t (by simp [ht])
    have hs : s.wts.length = s.pts.length := hwf s (by simp)
    simp only [rawPoints, weights, List.map_cons, List.flatten_cons, List.map_append, List.sum_cons] at ih ⊢
    rw [quad_append _ _ _ _ _ (by simp [hs]), ih hwf']

/-! ### sectors -/

section
variable {K : Type} [LinearOrder K]

theorem countP_eq_of_split (bounds : List K) (r : K) (k : Nat) (hk : k ≤ bounds.length)
    (hlo : ∀ j (h : j < bounds.length), j < k → bounds[j] < r)
    (hhi : ∀ j (h : j < bounds.length), k ≤ j → r ≤ bounds[j]) :
    bounds.countP (fun b => decide (r > b)) = k := by
  induction bounds generalizing k with
  | nil =>
    have : k = 0 := by simpa using hk
    subst this; simp
  | cons b bs ih =>
    cases k with
    | zero =>
      have h0 : r ≤ b := hhi 0 (by simp) (Nat.le_refl _)
      have := ih 0 (Nat.zero_le _) (fun j _ hj => absurd hj (Nat.not_lt_zero _))
        (fun j hj _ => by
          have h1 := hhi (j + 1) (by simp; omega) (Nat.zero_le _)
          rw [List.getElem_cons_succ] at h1; exact h1)
      simp [this, not_lt.mpr h0]
    | succ k =>
      have h0 : b < r := hlo 0 (by simp) (Nat.succ_pos _)
      have := ih k (by simpa using hk)
        (fun j hj hjk => by
          have h1 := hlo (j + 1) (by simp; omega) (by omega)
          rw [List.getElem_cons_succ] at h1; exact h1)
        (fun j hj hjk => by
          have h1 := hhi (j + 1) (by simp; omega) (by omega)
          rw [List.getElem_cons_succ] at h1; exact h1)
      simp [this, h0]

theorem sectorPosition_le (bounds : List K) (r : K) : sectorPosition bounds r ≤ bounds.length := by
  unfold sectorPosition; exact List.countP_le_length

theorem findDegrees_ok (rpoints bounds : List K) (ds : List Nat) (hl : ds.length = bounds.length + 1) :
    ∃ out, findDegreesForRadialPoints rpoints bounds ds = .ok out ∧ out.length = rpoints.length ∧
      ∀ i (h : i < rpoints.length) (h' : i < out.length),
        ds[sectorPosition bounds rpoints[i]]? = some out[i] := by
  unfold findDegreesForRadialPoints
  induction rpoints with
  | nil => exact ⟨[], rfl, rfl, fun i h => absurd h (Nat.not_lt_zero _)⟩
  | cons r rs ih =>
    obtain ⟨out, ho, hlen, hget⟩ := ih
    have hp : sectorPosition bounds r < ds.length := by
      have := sectorPosition_le bounds r; omega
    refine ⟨ds[sectorPosition bounds r] :: out, ?_, by simp [hlen], ?_⟩
    · simp only [List.mapM_cons, List.getElem?_eq_getElem hp]
      rw [ho]; rfl
    · intro i h h'
      cases i with
      | zero => simp [List.getElem?_eq_getElem hp]
      | succ i => simpa using hget i (by simpa using h) (by simpa using h')

end

/-! ### exact dyadic sector radii -/

/-- consecutive entries `(a, j), (b, k)` satisfy `a / 2^j < b / 2^k`, compared exactly as
`a · 2^k < b · 2^j` -/
def ascDyadic : List (Nat × Nat) → Bool
  | [] => true
  | [_] => true
  | p :: q :: rest => decide (p.1 * 2 ^ q.2 < q.1 * 2 ^ p.2) && ascDyadic (q :: rest)

/-- the real number a stored pair denotes -/
noncomputable def dyadicToReal (q : Nat × Nat) : ℝ := (q.1 : ℝ) / 2 ^ q.2

theorem dyadic_lt {p q : Nat × Nat} (h : p.1 * 2 ^ q.2 < q.1 * 2 ^ p.2) :
    dyadicToReal p < dyadicToReal q := by
  unfold dyadicToReal
  rw [div_lt_div_iff₀ (by positivity) (by positivity)]
  exact_mod_cast h

theorem ascDyadic_pairwise (l : List (Nat × Nat)) (h : ascDyadic l = true) :
    (l.map dyadicToReal).Pairwise (· < ·) := by
  induction l with
  | nil => simp
  | cons p l ih =>
    cases l with
    | nil => simp
    | cons q rest =>
      simp only [ascDyadic, Bool.and_eq_true, decide_eq_true_eq] at h
      have hrest := ih h.2
      simp only [List.map_cons, List.pairwise_cons] at hrest ⊢
      refine ⟨?_, hrest⟩
      intro x hx
      have hpq := dyadic_lt h.1
      rcases List.mem_cons.mp hx with rfl | hx
      · exact hpq
      · exact lt_trans hpq (hrest.1 x hx)

end GridVerif.AtomGrid

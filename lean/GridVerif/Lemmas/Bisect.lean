import GridVerif.Model.Bisect

namespace GridVerif.Bisect

/-- Ascending association list: keys strictly increase (as `Nat` comparisons on
positions). -/
def Ascending (ks : List Nat) : Prop := ks.Pairwise (· < ·)

instance (ks : List Nat) : Decidable (Ascending ks) := by unfold Ascending; infer_instance

theorem getD_lt_of_asc {ks : List Nat} (h : Ascending ks) {i j : Nat} (hij : i < j)
    (hj : j < ks.length) : ks.getD i 0 < ks.getD j 0 := by
  have hi : i < ks.length := by omega
  have := (List.pairwise_iff_getElem.mp h) i j hi hj hij
  simpa [List.getD_eq_getElem?_getD, List.getElem?_eq_getElem hi, List.getElem?_eq_getElem hj]
    using this

theorem bisectGo_spec (ks : List Nat) (hs : Ascending ks) (x : Nat) (n : Nat) :
    ∀ (lo hi : Nat), hi - lo = n → lo ≤ hi → hi ≤ ks.length →
    (∀ i, i < lo → ks.getD i 0 < x) →
    (∀ i, hi ≤ i → i < ks.length → x ≤ ks.getD i 0) →
    lo ≤ bisectGo ks x lo hi ∧ bisectGo ks x lo hi ≤ hi ∧
    (∀ i, i < bisectGo ks x lo hi → ks.getD i 0 < x) ∧
    (∀ i, bisectGo ks x lo hi ≤ i → i < ks.length → x ≤ ks.getD i 0) := by
  induction n using Nat.strongRecOn with
  | _ n ih =>
    intro lo hi hn hle hh hlo hhi
    rw [bisectGo]
    by_cases hlt : lo < hi
    · simp only [hlt, ↓reduceDIte]
      have hm : (lo + hi) / 2 < hi := by omega
      have hm' : lo ≤ (lo + hi) / 2 := by omega
      by_cases hmid : ks.getD ((lo + hi) / 2) 0 < x
      · simp only [hmid, ↓reduceIte]
        have := ih (hi - ((lo + hi) / 2 + 1)) (by omega) ((lo + hi) / 2 + 1) hi rfl (by omega) hh
          (by
            intro i hi'
            by_cases h : i = (lo + hi) / 2
            · subst h; exact hmid
            · have : i < (lo + hi) / 2 := by omega
              exact Nat.lt_trans (getD_lt_of_asc hs this (by omega)) hmid)
          hhi
        exact ⟨by omega, this.2.1, this.2.2.1, this.2.2.2⟩
      · simp only [hmid, ↓reduceIte]
        have := ih ((lo + hi) / 2 - lo) (by omega) lo ((lo + hi) / 2) rfl hm' (by omega) hlo
          (by
            intro i hi' hlen
            by_cases h : i = (lo + hi) / 2
            · subst h; omega
            · have : (lo + hi) / 2 < i := by omega
              have := getD_lt_of_asc hs this hlen
              omega)
        exact ⟨this.1, by omega, this.2.2.1, this.2.2.2⟩
    · simp only [hlt, ↓reduceDIte]
      have : lo = hi := by omega
      subst this
      exact ⟨Nat.le_refl _, Nat.le_refl _, hlo, hhi⟩

/-- **Python's `bisect_left` on an ascending list** returns the least index whose
entry is `≥ x` (or the length if there is none). -/
theorem bisectLeft_spec (ks : List Nat) (hs : Ascending ks) (x : Nat) :
    bisectLeft ks x ≤ ks.length ∧
    (∀ i, i < bisectLeft ks x → ks.getD i 0 < x) ∧
    (∀ i, bisectLeft ks x ≤ i → i < ks.length → x ≤ ks.getD i 0) := by
  have := bisectGo_spec ks hs x _ 0 ks.length rfl (Nat.zero_le _) (Nat.le_refl _)
    (by intro i h; omega) (by intro i h h'; omega)
  exact ⟨this.2.1, this.2.2.1, this.2.2.2⟩

theorem le_maxKey {ks : List Nat} {k : Nat} (h : k ∈ ks) : k ≤ maxKey ks := by
  unfold maxKey
  have gen : ∀ (l : List Nat) (a : Nat), a ≤ l.foldl max a ∧ ∀ k ∈ l, k ≤ l.foldl max a := by
    intro l
    induction l with
    | nil => intro a; simp
    | cons b l ih =>
      intro a
      simp only [List.foldl_cons, List.mem_cons, forall_eq_or_imp]
      have h1 := ih (max a b)
      refine ⟨by omega, by omega, h1.2⟩
  exact (gen ks 0).2 k h

theorem maxKey_mem {ks : List Nat} (h : ks ≠ []) : maxKey ks ∈ ks ∨ maxKey ks = 0 := by
  unfold maxKey
  have gen : ∀ (l : List Nat) (a : Nat), l.foldl max a ∈ l ∨ l.foldl max a = a := by
    intro l
    induction l with
    | nil => intro a; simp
    | cons b l ih =>
      intro a
      simp only [List.foldl_cons, List.mem_cons]
      rcases ih (max a b) with h1 | h1
      · exact Or.inl (Or.inr h1)
      · rw [h1]
        by_cases hab : a ≤ b
        · left; left; omega
        · right; omega
  exact gen ks 0

end GridVerif.Bisect

/-
  Helper lemmas for the variable-substitution rules and the domain check of C01:
  `tanh` (derivative, monotone), the `OneDGrid.__init__` check passes for points inside the
  domain, ascending lists from strictly monotone maps, index ranges.
-/
import GridVerif.Lemmas.OneD
import Mathlib.Analysis.SpecialFunctions.Trigonometric.DerivHyp
import Mathlib.Analysis.SpecialFunctions.Arsinh
import Mathlib.Analysis.SpecialFunctions.Log.Deriv
import Mathlib.Analysis.SpecialFunctions.Sqrt
import Mathlib.Tactic.FieldSimp
import Mathlib.Tactic.NormNum

namespace GridVerif.OneD
open Real

theorem hasDerivAt_tanh (x : ℝ) : HasDerivAt Real.tanh (1 / Real.cosh x ^ 2) x := by
  have hc : Real.cosh x ≠ 0 := (Real.cosh_pos x).ne'
  have h := (Real.hasDerivAt_sinh x).div (Real.hasDerivAt_cosh x) hc
  have hfun : Real.tanh = fun y => Real.sinh y / Real.cosh y := by
    funext y; exact Real.tanh_eq_sinh_div_cosh y
  rw [hfun]
  refine h.congr_deriv ?_
  have := Real.cosh_sq x
  field_simp
  nlinarith [Real.cosh_sq x]

theorem tanh_strictMono : StrictMono Real.tanh := by
  intro x y hxy
  rw [Real.tanh_eq_sinh_div_cosh, Real.tanh_eq_sinh_div_cosh,
    div_lt_div_iff₀ (Real.cosh_pos x) (Real.cosh_pos y)]
  have h : Real.sinh (x - y) < 0 := Real.sinh_neg_iff.mpr (by linarith)
  rw [Real.sinh_sub] at h
  linarith

@[simp] theorem negOne_real : (negOne : ℝ) = -1 := by simp [negOne]
@[simp] theorem one_real : (one : ℝ) = 1 := by simp [one]
@[simp] theorem zero_real : (zero : ℝ) = 0 := by simp [zero]

/-- `OneDGrid.__init__` accepts points that lie in the closed declared domain. -/
theorem oneDGrid_ok (points weights : List ℝ) (lo : ℝ) (hi : Option ℝ)
    (hlen : points.length = weights.length) (hlo : ∀ p ∈ points, lo ≤ p)
    (hhi : ∀ b, hi = some b → ∀ p ∈ points, p ≤ b) :
    oneDGrid points weights lo hi = .ok ⟨points, weights, lo, hi⟩ := by
  have hs : (0 : ℝ) < ((1 : ℕ) : ℝ) / ((10000000 : ℕ) : ℝ) := by norm_num
  unfold oneDGrid
  have h1 : (points.any fun p => decide (lo - ((1 : ℕ) : ℝ) / ((10000000 : ℕ) : ℝ) > p)) = false := by
    rw [List.any_eq_false]
    intro p hp
    have := hlo p hp
    simp only [decide_eq_true_eq, not_lt, gt_iff_lt]
    linarith
  cases hi with
  | none => simp only [h1, hlen]; simp
  | some b =>
    have h2 : (points.any fun p => decide (b + ((1 : ℕ) : ℝ) / ((10000000 : ℕ) : ℝ) < p)) = false := by
      rw [List.any_eq_false]
      intro p hp
      have := hhi b rfl p hp
      simp only [decide_eq_true_eq, not_lt]
      linarith
    simp only [h1, h2, hlen]
    simp

/-- a list `f 0, f 1, …` is strictly ascending when `f` is strictly increasing on the indices -/
theorem pairwise_map_range (f : ℕ → ℝ) (n : ℕ) (hf : ∀ i j, i < j → j < n → f i < f j) :
    ((List.range n).map f).Pairwise (· < ·) := by
  rw [List.pairwise_iff_getElem]
  intro i j hi hj hij
  simp only [List.getElem_map, List.getElem_range]
  simp only [List.length_map, List.length_range] at hj
  exact hf i j hij hj

theorem tdiv_two (m : ℕ) : Int.tdiv (((2 * m + 1 : ℕ) : ℤ) - 1) 2 = m := by
  rw [Int.tdiv_eq_ediv_of_nonneg (by omega)]
  omega

theorem tdiv_two' (m : ℕ) : Int.tdiv (1 - ((2 * m + 1 : ℕ) : ℤ)) 2 = -(m : ℤ) := by
  have : (1 - ((2 * m + 1 : ℕ) : ℤ)) = -((2 * m : ℕ) : ℤ) := by push_cast; ring
  rw [this, Int.neg_tdiv, Int.tdiv_eq_ediv_of_nonneg (by omega)]
  omega

/-- the points of a substitution rule: `φ((k₀ + i)·h)`, `i = 0 … len-1` -/
theorem substPoints_eq (node : ℝ → ℝ → ℝ) (hscale : ∀ k h, node k h = node (k * h) 1)
    (kFirst : ℕ → ℤ) (kLen : ℕ → ℕ) (n : ℕ) (h : ℝ) :
    substPoints node kFirst kLen n h = (List.range (kLen n)).map fun (i : ℕ) =>
      node (((kFirst n : ℤ) : ℝ) * h + (i : ℝ) * h) 1 := by
  unfold substPoints indexValues
  rw [List.map_map]
  apply List.map_congr_left
  intro i _
  simp only [Function.comp, intCast_eq]
  rw [hscale]
  push_cast
  ring_nf

theorem substPoints_pairwise (node : ℝ → ℝ → ℝ) (hscale : ∀ k h, node k h = node (k * h) 1)
    (hmono : StrictMono fun t => node t 1) (kFirst : ℕ → ℤ) (kLen : ℕ → ℕ) (n : ℕ) (h : ℝ)
    (hh : 0 < h) : (substPoints node kFirst kLen n h).Pairwise (· < ·) := by
  rw [substPoints_eq node hscale]
  apply pairwise_map_range
  intro i j hij _
  apply hmono
  have : (i : ℝ) < j := by exact_mod_cast hij
  nlinarith

theorem substMake_ok (node weight : ℝ → ℝ → ℝ) (kFirst : ℕ → ℤ) (kLen : ℕ → ℕ) (lo : ℝ)
    (hi : Option ℝ) (n : ℕ) (h : ℝ) (hh : 0 < h) (hn : 1 ≤ n) (hodd : n % 2 = 1)
    (hlo : ∀ k h, lo ≤ node k h) (hhi : ∀ b, hi = some b → ∀ k h, node k h ≤ b) :
    substMake node weight kFirst kLen lo hi (n : ℤ) h
      = .ok ⟨substPoints node kFirst kLen n h, substWeights weight kFirst kLen n h, lo, hi⟩ := by
  unfold substMake
  have h1 : ¬ (h ≤ ((0 : ℕ) : ℝ)) := by simp; exact hh
  have h2 : ¬ ((n : ℤ) < 1) := by omega
  have h3 : ¬ ((n : ℤ) % 2 = 0) := by omega
  simp only [h1, h2, h3, if_false, Int.toNat_natCast]
  apply oneDGrid_ok
  · simp [substPoints, substWeights]
  · intro p hp
    simp only [substPoints, List.mem_map] at hp
    obtain ⟨k, _, rfl⟩ := hp
    exact hlo _ _
  · intro b hb p hp
    simp only [substPoints, List.mem_map] at hp
    obtain ⟨k, _, rfl⟩ := hp
    exact hhi b hb _ _

/-- Everything C01 says about the shape of a substitution rule built by `substMake` for odd
`n = 2m+1` and step `h`: the constructor accepts and returns these lists with the declared domain,
`n` nodes and `n` weights, nodes strictly ascending and strictly inside the domain. -/
def SubstShape (node weight : ℝ → ℝ → ℝ) (kFirst : ℕ → ℤ) (kLen : ℕ → ℕ) (lo : ℝ)
    (hi : Option ℝ) (m : ℕ) (h : ℝ) : Prop :=
  substMake node weight kFirst kLen lo hi ((2 * m + 1 : ℕ) : ℤ) h
      = .ok ⟨substPoints node kFirst kLen (2 * m + 1) h,
          substWeights weight kFirst kLen (2 * m + 1) h, lo, hi⟩ ∧
    (substPoints node kFirst kLen (2 * m + 1) h).length = 2 * m + 1 ∧
    (substWeights weight kFirst kLen (2 * m + 1) h).length = 2 * m + 1 ∧
    (substPoints node kFirst kLen (2 * m + 1) h).Pairwise (· < ·) ∧
    (∀ x ∈ substPoints node kFirst kLen (2 * m + 1) h, lo < x ∧ ∀ b, hi = some b → x < b)

theorem subst_shape (node weight : ℝ → ℝ → ℝ) (kFirst : ℕ → ℤ) (kLen : ℕ → ℕ) (lo : ℝ)
    (hi : Option ℝ) (hscale : ∀ k h, node k h = node (k * h) 1)
    (hmono : StrictMono fun t => node t 1) (hlo : ∀ k h, lo < node k h)
    (hhi : ∀ b, hi = some b → ∀ k h, node k h < b)
    (m : ℕ) (hlen : kLen (2 * m + 1) = 2 * m + 1) (h : ℝ) (hh : 0 < h) :
    SubstShape node weight kFirst kLen lo hi m h := by
  refine ⟨?_, ?_, ?_, ?_, ?_⟩
  · exact substMake_ok node weight kFirst kLen lo hi _ h hh (by omega) (by omega)
      (fun k h => (hlo k h).le) (fun b hb k h => (hhi b hb k h).le)
  · simp [substPoints, indexValues, hlen]
  · simp [substWeights, indexValues, hlen]
  · exact substPoints_pairwise node hscale hmono _ _ _ _ hh
  · intro x hx
    simp only [substPoints, List.mem_map] at hx
    obtain ⟨k, _, rfl⟩ := hx
    exact ⟨hlo _ _, fun b hb => hhi b hb _ _⟩

end GridVerif.OneD

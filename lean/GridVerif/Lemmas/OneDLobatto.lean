/-
  Discrete orthogonality of cosines on the Chebyshev–Lobatto angles `kπ/N`, `k = 0..N`, with the
  end terms halved (the sum Clenshaw–Curtis uses), proved from the telescoping identity
  `2 sin(x/2) Σ_{k<M} cos(kx) = sin((M-½)x) + sin(x/2)`.
-/
import GridVerif.Lemmas.OneDCheb

namespace GridVerif.OneD
open Finset Real

/-- `2 sin(x/2) · Σ_{k<M} cos(kx) = sin((M - 1/2)x) + sin(x/2)` -/
theorem two_sin_mul_sum_cos (x : ℝ) (M : ℕ) :
    2 * Real.sin (x / 2) * ∑ k ∈ range M, Real.cos ((k : ℝ) * x)
      = Real.sin (((M : ℝ) - 1 / 2) * x) + Real.sin (x / 2) := by
  induction M with
  | zero =>
    simp
    rw [show (2⁻¹ : ℝ) * x = x / 2 by ring]; ring
  | succ M ih =>
    rw [sum_range_succ, mul_add, ih]
    have h1 : (((M + 1 : ℕ) : ℝ) - 1 / 2) * x = (M : ℝ) * x + x / 2 := by push_cast; ring
    have h2 : ((M : ℝ) - 1 / 2) * x = (M : ℝ) * x - x / 2 := by ring
    rw [h1, h2, Real.sin_add, Real.sin_sub]
    ring

/-- Lobatto angles `θₖ = kπ/N` -/
noncomputable def lobTheta (N k : ℕ) : ℝ := π * (k : ℝ) / (N : ℝ)

/-- the sum with both end terms halved -/
noncomputable def dsum (N : ℕ) (F : ℕ → ℝ) : ℝ := ∑ k ∈ range (N + 1), F k - (F 0 + F N) / 2

theorem dsum_sub (N : ℕ) (F G : ℕ → ℝ) : dsum N (fun k => F k - G k) = dsum N F - dsum N G := by
  unfold dsum; rw [sum_sub_distrib]; ring

theorem dsum_add (N : ℕ) (F G : ℕ → ℝ) : dsum N (fun k => F k + G k) = dsum N F + dsum N G := by
  unfold dsum; rw [sum_add_distrib]; ring

theorem dsum_const_mul (N : ℕ) (c : ℝ) (F : ℕ → ℝ) : dsum N (fun k => c * F k) = c * dsum N F := by
  unfold dsum; rw [← mul_sum]; ring

theorem dsum_finset_sum {ι} (s : Finset ι) (N : ℕ) (F : ι → ℕ → ℝ) :
    dsum N (fun k => ∑ l ∈ s, F l k) = ∑ l ∈ s, dsum N (F l) := by
  classical
  induction s using Finset.induction_on with
  | empty => simp [dsum]
  | insert a s ha ih => simp only [sum_insert ha]; rw [dsum_add, ih]

/-- reflection `k ↦ N - k` leaves the end-halved sum unchanged -/
theorem dsum_reflect (N : ℕ) (F : ℕ → ℝ) : dsum N (fun k => F (N - k)) = dsum N F := by
  unfold dsum
  have := Finset.sum_range_reflect F (N + 1)
  simp only [Nat.add_sub_cancel] at this
  rw [this]
  simp
  ring

/-- orthogonality of `1` and `cos(aθ)` on the Lobatto angles -/
theorem dsum_cos (N : ℕ) (hN : 1 ≤ N) (a : ℕ) :
    dsum N (fun k => Real.cos ((a : ℝ) * lobTheta N k)) = if 2 * N ∣ a then (N : ℝ) else 0 := by
  have hNr : (N : ℝ) ≠ 0 := by positivity
  by_cases hd : 2 * N ∣ a
  · rw [if_pos hd]
    obtain ⟨c, rfl⟩ := hd
    have hone : ∀ k : ℕ, Real.cos (((2 * N * c : ℕ) : ℝ) * lobTheta N k) = 1 := by
      intro k
      have : ((2 * N * c : ℕ) : ℝ) * lobTheta N k = ((c * k : ℕ) : ℝ) * (2 * π) := by
        unfold lobTheta; push_cast; field_simp
      rw [this, Real.cos_nat_mul_two_pi]
    unfold dsum
    simp only [hone, sum_const, card_range, nsmul_eq_mul]
    push_cast; ring
  · rw [if_neg hd]
    set x : ℝ := (a : ℝ) * π / (N : ℝ) with hx
    have harg : ∀ k : ℕ, (a : ℝ) * lobTheta N k = (k : ℝ) * x := by
      intro k; unfold lobTheta; rw [hx]; field_simp
    have hs : Real.sin (x / 2) ≠ 0 := by
      intro h0
      obtain ⟨c, hc⟩ := Real.sin_eq_zero_iff.mp h0
      apply hd
      have hpi : π ≠ 0 := Real.pi_ne_zero
      have : (a : ℝ) = 2 * N * c := by
        rw [hx] at hc
        field_simp at hc
        linarith
      have hz : (a : ℤ) = 2 * N * c := by exact_mod_cast this
      have : (2 * (N : ℤ)) ∣ (a : ℤ) := ⟨c, hz⟩
      exact_mod_cast this
    have key := two_sin_mul_sum_cos x N
    have hlast : Real.sin (((N : ℝ) - 1 / 2) * x) = -((-1) ^ a * Real.sin (x / 2)) := by
      have : ((N : ℝ) - 1 / 2) * x = (a : ℝ) * π - x / 2 := by rw [hx]; field_simp
      rw [this, Real.sin_sub, Real.sin_nat_mul_pi, Real.cos_nat_mul_pi]
      ring
    have hsum : ∑ k ∈ range N, Real.cos ((k : ℝ) * x) = (1 - (-1) ^ a) / 2 := by
      have : 2 * Real.sin (x / 2) * ∑ k ∈ range N, Real.cos ((k : ℝ) * x)
          = 2 * Real.sin (x / 2) * ((1 - (-1) ^ a) / 2) := by rw [key, hlast]; ring
      exact mul_left_cancel₀ (mul_ne_zero two_ne_zero hs) this
    unfold dsum
    simp only [harg]
    rw [sum_range_succ, hsum]
    have hN' : (N : ℝ) * x = (a : ℝ) * π := by rw [hx]; field_simp
    rw [hN', Real.cos_nat_mul_pi]
    simp
    ring

/-- orthogonality of `cos(aθ)` and `cos(bθ)` on the Lobatto angles (end terms halved) -/
theorem dsum_cos_mul_cos (N : ℕ) (hN : 1 ≤ N) (a b : ℕ) :
    dsum N (fun k => Real.cos ((a : ℝ) * lobTheta N k) * Real.cos ((b : ℝ) * lobTheta N k))
      = ((if 2 * N ∣ a + b then (N : ℝ) else 0) + (if 2 * N ∣ (max a b - min a b) then (N : ℝ) else 0)) / 2 := by
  have hprod : ∀ x y : ℝ, Real.cos x * Real.cos y = (1 / 2) * (Real.cos (x + y) + Real.cos (x - y)) := by
    intro x y; rw [Real.cos_add, Real.cos_sub]; ring
  have h : ∀ k : ℕ, Real.cos ((a : ℝ) * lobTheta N k) * Real.cos ((b : ℝ) * lobTheta N k)
      = (1 / 2) * (Real.cos (((a + b : ℕ) : ℝ) * lobTheta N k)
          + Real.cos (((max a b - min a b : ℕ) : ℝ) * lobTheta N k)) := by
    intro k
    rw [hprod]
    congr 2
    · push_cast; ring_nf
    · rcases le_total a b with hab | hab
      · rw [max_eq_right hab, min_eq_left hab, Nat.cast_sub hab]
        rw [← Real.cos_neg]; congr 1; ring
      · rw [max_eq_left hab, min_eq_right hab, Nat.cast_sub hab]
        congr 1; ring
  simp only [h]
  rw [dsum_const_mul, dsum_add, dsum_cos N hN, dsum_cos N hN]
  ring

end GridVerif.OneD

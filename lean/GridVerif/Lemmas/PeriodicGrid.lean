/-
  C11 — definitions (duality contract, invariant of a `PeriodicGrid`, "image inside the
  sphere") and helper lemmas about the model `Model/Periodic.lean` over ℝ.
-/
import GridVerif.Lemmas.Periodic

set_option linter.unusedSectionVars false
set_option linter.unusedSimpArgs false

namespace GridVerif.C11
open GridVerif.LocalGrid GridVerif.Periodic

theorem ballQuery_spec' (pts : List (Point ℝ)) (c : Point ℝ) (r : ℝ) : (ballQuery pts c r).Nodup :=
  (ballQuery_sorted pts c r).imp (fun h => Nat.ne_of_lt h)

/-- Duality contract of the reciprocal vectors: `aₗ·bₖ = δₗₖ`. -/
def Dual (realvecs recivecs : List (Point ℝ)) : Prop :=
  recivecs.length = realvecs.length ∧
  ∀ k l (hk : k < recivecs.length) (hl : l < realvecs.length),
    dot realvecs[l] recivecs[k] = if l = k then 1 else 0

/-- The invariant of a `PeriodicGrid` object. -/
structure PInv (g : PGrid ℝ) : Prop where
  wlen : g.weights.length = g.points.length
  plen : ∀ p ∈ g.points, p.length = g.dim
  alen : ∀ a ∈ g.realvecs, a.length = g.dim
  blen : ∀ b ∈ g.recivecs, b.length = g.dim
  slen : g.spacings.length = g.realvecs.length
  ilen : g.fracIntvls.length = g.realvecs.length
  dual : Dual g.realvecs g.recivecs
  spacing : ∀ k (hk : k < g.spacings.length) (hk' : k < g.recivecs.length),
    g.spacings[k] = 1 / Real.sqrt (dot g.recivecs[k] g.recivecs[k])
  bounds : ∀ p ∈ g.points, ∀ k (hk : k < g.fracIntvls.length) (hk' : k < g.recivecs.length),
    g.fracIntvls[k].1 ≤ dot p g.recivecs[k] ∧ dot p g.recivecs[k] ≤ g.fracIntvls[k].2
  tree : g.tree = none ∨ g.tree = some g.points
  onedDim : g.oned = true → g.dim = 1

/-- `(ilc @ realvecs)·bₖ = ilcₖ` under the duality contract. -/
theorem dot_delta (d : Nat) (realvecs recivecs : List (Point ℝ)) (hd : Dual realvecs recivecs)
    (ha : ∀ a ∈ realvecs, a.length = d) (js : List Int) (hjs : js.length = realvecs.length)
    (k : Nat) (hk : k < recivecs.length) :
    dot (delta d js realvecs) recivecs[k] = ((js[k]'(by rw [hjs, ← hd.1]; exact hk) : Int) : ℝ) := by
  unfold delta
  rw [dot_lincomb d _ _ _ ha]
  have hk' : k < realvecs.length := by rw [← hd.1]; exact hk
  rw [sum_dual _ realvecs recivecs[k] k (by simpa using hjs) hk' (fun l hl => hd.2 k l hk hl)]
  simp

theorem delta_length (d : Nat) (realvecs : List (Point ℝ)) (ha : ∀ a ∈ realvecs, a.length = d)
    (js : List Int) : (delta d js realvecs : Point ℝ).length = d :=
  lincomb_length d _ _ ha

theorem ilcRanges_length (g : PGrid ℝ) (h : PInv g) (c : Point ℝ) (r : ℝ) :
    (ilcRanges g c r).length = g.realvecs.length := by
  unfold ilcRanges
  simp [h.slen, h.ilen, h.dual.1]

theorem ilcRanges_getElem (g : PGrid ℝ) (h : PInv g) (c : Point ℝ) (r : ℝ) (k : Nat)
    (hk : k < g.realvecs.length) :
    (ilcRanges g c r)[k]'(by rw [ilcRanges_length g h]; exact hk) =
      intRange ⌈(g.fracIntvls[k]'(by rw [h.ilen]; exact hk)).1 -
                 dot (g.recivecs[k]'(by rw [h.dual.1]; exact hk)) c -
                 r / (g.spacings[k]'(by rw [h.slen]; exact hk))⌉
               ⌊(g.fracIntvls[k]'(by rw [h.ilen]; exact hk)).2 -
                 dot (g.recivecs[k]'(by rw [h.dual.1]; exact hk)) c +
                 r / (g.spacings[k]'(by rw [h.slen]; exact hk))⌋ := by
  unfold ilcRanges
  simp only [List.getElem_zipWith, List.getElem_zip]
  rfl

/-- Under the duality contract no reciprocal vector vanishes: the spacing `1/‖bₖ‖` is a genuine
quotient. -/
theorem recivec_norm_pos (realvecs recivecs : List (Point ℝ)) (hd : Dual realvecs recivecs)
    (k : Nat) (hk : k < recivecs.length) : 0 < Real.sqrt (dot recivecs[k] recivecs[k]) := by
  apply Real.sqrt_pos.mpr
  have hk' : k < realvecs.length := by rw [← hd.1]; exact hk
  have h1 := hd.2 k k hk hk'
  simp only [if_true] at h1
  by_contra hcon
  have h0 : dot recivecs[k] recivecs[k] = 0 :=
    le_antisymm (not_lt.mp hcon) (dot_self_nonneg _)
  have := dot_sq_le realvecs[k] recivecs[k]
  rw [h1, h0] at this
  norm_num at this

/-- What the entries of a correct periodic local grid are: the pairs (integer combination
`ilc`, parent position `i`) such that the translate `points[i] − ilc@realvecs` lies within `r`
of `c`. -/
def IsImage (g : PGrid ℝ) (c : Point ℝ) (r : ℝ) (e : List Int × Nat) : Prop :=
  e.1.length = g.realvecs.length ∧
  ∃ x, g.points[e.2]? = some x ∧ inBall (vsub x (delta g.dim e.1 g.realvecs)) c r

theorem mem_entries (g : PGrid ℝ) (tree : List (Point ℝ)) (c : Point ℝ) (r : ℝ)
    (e : List Int × Nat) :
    e ∈ entries g tree c r ↔ e.1 ∈ product (ilcRanges g c r) ∧
      e.2 ∈ ballQuery tree (vadd c (delta g.dim e.1 g.realvecs)) r := by
  unfold entries
  simp only [List.mem_flatMap, List.mem_map]
  constructor
  · rintro ⟨ilc, h1, i, h2, rfl⟩; exact ⟨h1, h2⟩
  · rintro ⟨h1, h2⟩; exact ⟨e.1, h1, e.2, h2, rfl⟩

theorem ilcRanges_nodup (g : PGrid ℝ) (c : Point ℝ) (r : ℝ) :
    ∀ rg ∈ ilcRanges g c r, rg.Nodup := by
  intro rg hrg
  unfold ilcRanges at hrg
  obtain ⟨i, hi, rfl⟩ := List.getElem_of_mem hrg
  simp only [List.getElem_zipWith]
  exact intRange_nodup _ _

/-- The data of an accepted constructor call. -/
theorem construct_ok {oned : Bool} {dim : Nat} {pts : List (Point ℝ)} {w : List ℝ}
    {realvecs reciParam : List (Point ℝ)} {wrap : Bool} {g : PGrid ℝ}
    (hc : construct oned dim pts w realvecs reciParam wrap = .ok g) :
    (oned = true → dim = 1) ∧ (∀ a ∈ realvecs, a.length = dim) ∧ realvecs.length ≤ dim ∧
    (∀ p ∈ pts, p.length = dim) ∧ pts.length = w.length ∧
    ∃ p0 rest, pts = p0 :: rest ∧
      let reci := recipOf oned realvecs reciParam
      let doWrap := wrap && !realvecs.isEmpty
      let fv := fun (p b : Point ℝ) => if doWrap then dot p b + shiftOf (dot p b) else dot p b
      let wrapPoint := fun (p : Point ℝ) =>
        if doWrap then vadd p (lincomb dim (reci.map fun b => shiftOf (dot p b)) realvecs) else p
      g = { oned := oned, dim := dim, points := (p0 :: rest).map wrapPoint, weights := w,
            realvecs := realvecs, recivecs := reci, spacings := reci.map (spacingOf oned),
            fracIntvls := intervalsOf reci fv p0 rest, tree := none } := by
  unfold construct at hc
  split at hc; · cases hc
  split at hc; · cases hc
  split at hc; · cases hc
  split at hc; · cases hc
  split at hc; · cases hc
  rename_i h1 h2 h3 h4 h5
  split at hc; · cases hc
  rename_i p0 rest
  refine ⟨?_, ?_, ?_, ?_, ?_, p0, rest, rfl, ?_⟩
  · intro ho; by_contra hcon; exact h1 ⟨ho, hcon⟩
  · have := Decidable.not_not.mp h2
    simpa using this
  · omega
  · have := Decidable.not_not.mp h4
    simpa using this
  · exact Decidable.not_not.mp h5
  · cases hc; rfl

theorem spacingOf_eq (oned : Bool) (dim : Nat) (b : Point ℝ) (hb : b.length = dim)
    (ho : oned = true → dim = 1) : spacingOf oned b = 1 / Real.sqrt (dot b b) := by
  unfold spacingOf
  cases oned with
  | false => simp [Periodic.norm, Elem.sqrt]
  | true =>
    have hd := ho rfl
    match b, hb with
    | [x], _ =>
      simp only [Nat.cast_one, Elem.abs, dot_cons, dot_nil_left, add_zero]
      rw [Real.sqrt_mul_self_eq_abs]
    | [], hb => simp at hb; omega
    | _ :: _ :: _, hb => simp at hb; omega

/-- Fractional coordinate of a wrapped point: `(p + Σ shiftₗ aₗ)·bₖ = p·bₖ + shiftₖ`. -/
theorem dot_wrap (dim : Nat) (realvecs reci : List (Point ℝ)) (hd : Dual realvecs reci)
    (ha : ∀ a ∈ realvecs, a.length = dim) (p : Point ℝ) (hp : p.length = dim)
    (sh : Point ℝ → ℝ) (k : Nat) (hk : k < reci.length) :
    dot (vadd p (lincomb dim (reci.map sh) realvecs)) reci[k] = dot p reci[k] + sh reci[k] := by
  have hk' : k < realvecs.length := by rw [← hd.1]; exact hk
  rw [dot_vadd_left _ _ _ (by rw [hp, lincomb_length dim _ _ ha]), dot_lincomb dim _ _ _ ha,
    sum_dual _ realvecs reci[k] k (by simp [hd.1]) hk' (fun l hl => hd.2 k l hk hl)]
  simp

theorem intervalsOf_getElem (reci : List (Point ℝ)) (fv : Point ℝ → Point ℝ → ℝ) (p0 : Point ℝ)
    (rest : List (Point ℝ)) (k : Nat) (hk : k < reci.length) :
    (intervalsOf reci fv p0 rest)[k]'(by simp [intervalsOf, hk]) =
      (minOf (fv p0 reci[k]) (rest.map (fv · reci[k])), maxOf (fv p0 reci[k]) (rest.map (fv · reci[k]))) := by
  simp [intervalsOf]

/-- The intervals computed by `intervalsOf` contain `fv p b` for every listed point. -/
theorem intervalsOf_bounds (reci : List (Point ℝ)) (fv : Point ℝ → Point ℝ → ℝ) (p0 : Point ℝ)
    (rest : List (Point ℝ)) (p : Point ℝ) (hp : p ∈ p0 :: rest) (k : Nat) (hk : k < reci.length) :
    ((intervalsOf reci fv p0 rest)[k]'(by simp [intervalsOf, hk])).1 ≤ fv p reci[k] ∧
    fv p reci[k] ≤ ((intervalsOf reci fv p0 rest)[k]'(by simp [intervalsOf, hk])).2 := by
  rw [intervalsOf_getElem reci fv p0 rest k hk]
  have h1 := minOf_le (fv p0 reci[k]) (rest.map (fv · reci[k]))
  have h2 := le_maxOf (fv p0 reci[k]) (rest.map (fv · reci[k]))
  rcases List.mem_cons.mp hp with rfl | hp
  · exact ⟨h1.1, h2.1⟩
  · exact ⟨h1.2 _ (List.mem_map.mpr ⟨p, hp, rfl⟩), h2.2 _ (List.mem_map.mpr ⟨p, hp, rfl⟩)⟩

theorem getLocalgrid_tree (g : PGrid ℝ) (h : PInv g) (c : Centre ℝ) (r : Radius ℝ) :
    (getLocalgrid g c r).1 = g.tree ∨ (getLocalgrid g c r).1 = some g.points := by
  unfold getLocalgrid
  split; · exact Or.inl rfl
  split
  · exact Or.inl rfl
  · exact Or.inl rfl
  · split; · exact Or.inl rfl
    rcases h.tree with h0 | h0 <;> simp only [h0] <;> split <;> exact Or.inr rfl

theorem mapM_isSome {α β : Type} (f : α → Option β) (l : List α) (h : ∀ x ∈ l, (f x).isSome) :
    ∃ ys, l.mapM f = some ys := by
  induction l with
  | nil => exact ⟨[], by simp⟩
  | cons a t ih =>
    obtain ⟨ys, hys⟩ := ih (fun x hx => h x (List.mem_cons_of_mem _ hx))
    obtain ⟨y, hy⟩ := Option.isSome_iff_exists.mp (h a List.mem_cons_self)
    exact ⟨y :: ys, by simp [List.mapM_cons, hy, hys]⟩

theorem centreOf_length (g : PGrid ℝ) (h : PInv g) (c : Centre ℝ) (c' : Point ℝ)
    (hc : Periodic.centreOf g c = some c') : c'.length = g.dim := by
  cases c with
  | scalar x =>
    simp only [Periodic.centreOf] at hc
    split at hc
    · cases hc; simp [h.onedDim ‹_›]
    · cases hc
  | vector xs =>
    simp only [Periodic.centreOf] at hc
    split at hc
    · cases hc; rename_i hh; exact hh.2
    · cases hc

theorem vadd_zeroVec (c : Point ℝ) (d : Nat) (h : c.length = d) : vadd c (zeroVec d) = c := by
  induction c generalizing d with
  | nil => simp [vadd]
  | cons a c ih =>
    cases d with
    | zero => simp at h
    | succ d =>
      have := ih d (by simpa using h)
      simp only [vadd, zeroVec, List.replicate_succ, List.zipWith_cons_cons, Nat.cast_zero,
        add_zero] at this ⊢
      rw [this]

theorem vsub_zeroVec (c : Point ℝ) (d : Nat) (h : c.length = d) : vsub c (zeroVec d) = c := by
  induction c generalizing d with
  | nil => simp [vsub]
  | cons a c ih =>
    cases d with
    | zero => simp at h
    | succ d =>
      have := ih d (by simpa using h)
      simp only [vsub, zeroVec, List.replicate_succ, List.zipWith_cons_cons, Nat.cast_zero,
        sub_zero] at this ⊢
      rw [this]

end GridVerif.C11

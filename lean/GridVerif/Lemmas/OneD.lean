/-
  Helper lemmas for C01 over ℝ: list programs of `Model/OneD.lean` as finite sums,
  the quadrature sum `quad`, linearity, extension from monomials to polynomials.
-/
import GridVerif.Model.OneD
import GridVerif.Lemmas.ElemReal
import Mathlib.Algebra.BigOperators.Group.Finset.Basic
import Mathlib.Algebra.BigOperators.Group.List.Basic
import Mathlib.Algebra.Polynomial.Eval.Degree
import Mathlib.Analysis.SpecialFunctions.Integrals.Basic
import Mathlib.Tactic.Ring
import Mathlib.Tactic.Linarith

namespace GridVerif.OneD
open Finset

theorem list_sum_map_range (f : ℕ → ℝ) (n : ℕ) :
    ((List.range n).map f).sum = ∑ i ∈ Finset.range n, f i := by
  induction n with
  | zero => simp
  | succ n ih => rw [List.sum_range_succ, Finset.sum_range_succ, ih]

/-- the generated accumulation loop is the finite sum -/
theorem gsum_eq (m : ℕ) (f : ℕ → ℝ) : Gen.OneD.gsum m f = ∑ j ∈ Finset.range m, f j := by
  unfold Gen.OneD.gsum
  induction m with
  | zero => simp
  | succ m ih => rw [List.range_succ, List.foldl_append, ih, Finset.sum_range_succ]; simp

theorem mapIdx_map_range {α β} (g : ℕ → α) (f : ℕ → α → β) (n : ℕ) :
    ((List.range n).map g).mapIdx f = (List.range n).map (fun i => f i (g i)) := by
  apply List.ext_getElem
  · simp
  · intro i h1 h2
    simp

theorem zipWith_map_range {α β γ} (f : α → β → γ) (a : ℕ → α) (b : ℕ → β) (n : ℕ) :
    List.zipWith f ((List.range n).map a) ((List.range n).map b) =
      (List.range n).map (fun i => f (a i) (b i)) := by
  apply List.ext_getElem
  · simp
  · intro i h1 h2
    simp

theorem reverse_map_range {α} (f : ℕ → α) (n : ℕ) :
    ((List.range n).map f).reverse = (List.range n).map (fun i => f (n - 1 - i)) := by
  apply List.ext_getElem
  · simp
  · intro i h1 h2
    simp at h1
    simp [List.getElem_reverse]

/-- quadrature sum `Σ wᵢ f(xᵢ)` of a rule given by its weight and point lists -/
noncomputable def quad (ws xs : List ℝ) (f : ℝ → ℝ) : ℝ :=
  (List.zipWith (fun w x => w * f x) ws xs).sum

theorem quad_map_range (w x : ℕ → ℝ) (n : ℕ) (f : ℝ → ℝ) :
    quad ((List.range n).map w) ((List.range n).map x) f = ∑ i ∈ Finset.range n, w i * f (x i) := by
  unfold quad
  rw [zipWith_map_range, list_sum_map_range]

theorem quad_reverse (ws xs : List ℝ) (h : ws.length = xs.length) (f : ℝ → ℝ) :
    quad ws.reverse xs.reverse f = quad ws xs f := by
  unfold quad
  rw [← List.reverse_zipWith h, List.sum_reverse]

theorem vecMat_aux {ι} (L : List ι) (b : ι → ℝ) (c : ι → ℕ → ℝ) (n : ℕ) (acc : ℕ → ℝ) :
    (List.zipWith (fun bj row => row.map (bj * ·)) (L.map b)
        (L.map fun j => (List.range n).map (c j))).foldl
      (fun acc row => List.zipWith (· + ·) acc row) ((List.range n).map acc)
    = (List.range n).map fun i => acc i + (L.map fun j => b j * c j i).sum := by
  induction L generalizing acc with
  | nil => simp
  | cons j L ih =>
    simp only [List.map_cons, List.zipWith_cons_cons, List.foldl_cons, List.map_map, List.sum_cons]
    rw [zipWith_map_range, ih]
    apply List.map_congr_left
    intro i _
    simp only [Function.comp]
    ring

theorem vecMat_map {ι} (L : List ι) (b : ι → ℝ) (c : ι → ℕ → ℝ) (n : ℕ) :
    vecMat (L.map b) (L.map fun j => (List.range n).map (c j)) n
      = (List.range n).map fun i => (L.map fun j => b j * c j i).sum := by
  unfold vecMat
  have h : List.replicate n (((0 : ℕ) : ℝ)) = (List.range n).map (fun _ => (0 : ℝ)) := by
    simp
  rw [h, vecMat_aux]
  simp

theorem vecMat_map_range (J n : ℕ) (b : ℕ → ℝ) (c : ℕ → ℕ → ℝ) :
    vecMat ((List.range J).map b) ((List.range J).map fun j => (List.range n).map (c j)) n
      = (List.range n).map fun i => ∑ j ∈ Finset.range J, b j * c j i := by
  rw [vecMat_map]
  simp only [list_sum_map_range]

theorem intCast_eq (z : ℤ) : (intCast z : ℝ) = (z : ℝ) := by
  unfold intCast
  split
  · rename_i h
    have : (z.natAbs : ℤ) = -z := by omega
    have h2 : ((z.natAbs : ℕ) : ℝ) = ((z.natAbs : ℤ) : ℝ) := (Int.cast_natCast _).symm
    rw [h2, this]; simp
  · rename_i h
    have : (z.toNat : ℤ) = z := by omega
    have h2 : ((z.toNat : ℕ) : ℝ) = ((z.toNat : ℤ) : ℝ) := (Int.cast_natCast _).symm
    rw [h2, this]

theorem quad_nil_left (xs : List ℝ) (f : ℝ → ℝ) : quad [] xs f = 0 := by simp [quad]
theorem quad_nil_right (ws : List ℝ) (f : ℝ → ℝ) : quad ws [] f = 0 := by simp [quad]
theorem quad_cons (w x : ℝ) (ws xs : List ℝ) (f : ℝ → ℝ) :
    quad (w :: ws) (x :: xs) f = w * f x + quad ws xs f := by simp [quad]

theorem quad_add (ws xs : List ℝ) (f g : ℝ → ℝ) :
    quad ws xs (fun x => f x + g x) = quad ws xs f + quad ws xs g := by
  induction ws generalizing xs with
  | nil => simp [quad_nil_left]
  | cons w ws ih =>
    cases xs with
    | nil => simp [quad_nil_right]
    | cons x xs => rw [quad_cons, quad_cons, quad_cons, ih]; ring

theorem quad_const_mul (ws xs : List ℝ) (c : ℝ) (f : ℝ → ℝ) :
    quad ws xs (fun x => c * f x) = c * quad ws xs f := by
  induction ws generalizing xs with
  | nil => simp [quad_nil_left]
  | cons w ws ih =>
    cases xs with
    | nil => simp [quad_nil_right]
    | cons x xs => rw [quad_cons, quad_cons, ih]; ring

theorem quad_zero (ws xs : List ℝ) : quad ws xs (fun _ => 0) = 0 := by
  have := quad_const_mul ws xs 0 (fun _ => 0)
  simpa using this

theorem quad_finset_sum {ι} (s : Finset ι) (ws xs : List ℝ) (c : ι → ℝ) (g : ι → ℝ → ℝ) :
    quad ws xs (fun x => ∑ k ∈ s, c k * g k x) = ∑ k ∈ s, c k * quad ws xs (g k) := by
  classical
  induction s using Finset.induction_on with
  | empty => simp [quad_zero]
  | insert a s ha ih =>
    simp only [Finset.sum_insert ha]
    rw [quad_add, quad_const_mul, ih]

open Polynomial in
/-- A rule that integrates the monomials `x^k`, `k ≤ d`, exactly integrates every polynomial of degree `≤ d`. -/
theorem quad_poly_of_monomials (ws xs : List ℝ) (d : ℕ) (a b : ℝ)
    (h : ∀ k ≤ d, quad ws xs (fun x => x ^ k) = ∫ x in a..b, x ^ k)
    (p : ℝ[X]) (hp : p.natDegree ≤ d) :
    quad ws xs (fun x => p.eval x) = ∫ x in a..b, p.eval x := by
  have he : ∀ x : ℝ, p.eval x = ∑ k ∈ Finset.range (d + 1), p.coeff k * x ^ k :=
    fun x => Polynomial.eval_eq_sum_range' (Nat.lt_succ_of_le hp) x
  simp only [he]
  rw [quad_finset_sum, intervalIntegral.integral_finsetSum]
  · apply Finset.sum_congr rfl
    intro k hk
    rw [intervalIntegral.integral_const_mul, h k (by simpa [Nat.lt_succ_iff] using hk)]
  · intro k _
    exact (Continuous.intervalIntegrable (by fun_prop) _ _)

end GridVerif.OneD

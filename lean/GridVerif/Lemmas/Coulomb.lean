/-
  C17 — analytic lemmas about `erf` (= `GridVerif.realErf`, by its integral) and the radial
  functions `u(r) = erf(√α r) + c·r·e^{-αr²}`: derivatives (fundamental theorem of calculus),
  limits at 0 and ∞ (Gaussian integral), elementary bounds, and the passage from the radial
  Poisson equation to the Coulomb integral.  Nothing here mentions the generated code.
-/
import GridVerif.Lemmas.ElemReal
import Mathlib.Analysis.SpecialFunctions.Gaussian.GaussianIntegral
import Mathlib.MeasureTheory.Integral.IntegralEqImproper
import Mathlib.MeasureTheory.Integral.IntervalIntegral.FundThmCalculus
import Mathlib.Analysis.SpecialFunctions.Integrals.Basic
import Mathlib.Tactic.Ring
import Mathlib.Tactic.Linarith
import Mathlib.Tactic.FieldSimp

namespace GridVerif
open Real Filter Topology MeasureTheory

theorem continuous_gauss : Continuous fun t : ℝ => Real.exp (-t ^ 2) := by
  fun_prop

theorem sqrt_pi_pos : 0 < Real.sqrt Real.pi := Real.sqrt_pos.mpr Real.pi_pos

/-- erf' = 2/√π e^{-x²} (fundamental theorem of calculus). -/
theorem hasDerivAt_realErf (x : ℝ) :
    HasDerivAt realErf (2 / Real.sqrt Real.pi * Real.exp (-x ^ 2)) x := by
  unfold realErf
  exact ((continuous_gauss.integral_hasStrictDerivAt 0 x).hasDerivAt).const_mul _

@[simp] theorem realErf_zero : realErf 0 = 0 := by
  simp [realErf]

/-- erf → 1 at +∞ (Gaussian integral). -/
theorem tendsto_realErf_atTop : Tendsto realErf atTop (𝓝 1) := by
  have hI : IntegrableOn (fun t : ℝ => Real.exp (-t ^ 2)) (Set.Ioi 0) := by
    have := (integrable_exp_neg_mul_sq (b := 1) one_pos).integrableOn (s := Set.Ioi (0:ℝ))
    simpa using this
  have h := intervalIntegral_tendsto_integral_Ioi (μ := volume) 0 hI tendsto_id
  have hval : ∫ t in Set.Ioi (0:ℝ), Real.exp (-t ^ 2) = Real.sqrt Real.pi / 2 := by
    have := integral_gaussian_Ioi 1
    simpa using this
  rw [hval] at h
  have h2 := h.const_mul (2 / Real.sqrt Real.pi)
  have : 2 / Real.sqrt Real.pi * (Real.sqrt Real.pi / 2) = 1 := by
    have := sqrt_pi_pos.ne'
    field_simp
  rw [this] at h2
  exact h2

/-- `x − x³/3 ≤ ∫₀ˣ e^{-t²} ≤ x` for `x ≥ 0`. -/
theorem gauss_integral_bounds {x : ℝ} (hx : 0 ≤ x) :
    x - x ^ 3 / 3 ≤ ∫ t in (0:ℝ)..x, Real.exp (-t ^ 2) ∧
    ∫ t in (0:ℝ)..x, Real.exp (-t ^ 2) ≤ x := by
  constructor
  · have h1 : ∫ t in (0:ℝ)..x, (1 - t ^ 2) = x - x ^ 3 / 3 := by
      rw [intervalIntegral.integral_sub (by simp) (by simp)]
      simp [integral_pow]
      ring
    rw [← h1]
    apply intervalIntegral.integral_mono_on hx (Continuous.intervalIntegrable (by fun_prop) _ _) (continuous_gauss.intervalIntegrable _ _)
    intro t _
    have := Real.add_one_le_exp (-t ^ 2)
    linarith
  · have h1 : ∫ t in (0:ℝ)..x, (1:ℝ) = x := by simp
    calc ∫ t in (0:ℝ)..x, Real.exp (-t ^ 2) ≤ ∫ t in (0:ℝ)..x, (1:ℝ) := by
          apply intervalIntegral.integral_mono_on hx (continuous_gauss.intervalIntegrable _ _) (by simp)
          intro t _
          exact Real.exp_le_one_iff.mpr (by nlinarith [sq_nonneg t])
      _ = x := h1


/-- `0 ≤ 2x/√π − erf x ≤ 2x³/(3√π)` for `x ≥ 0`. -/
theorem realErf_bounds {x : ℝ} (hx : 0 ≤ x) :
    2 / Real.sqrt Real.pi * (x - x ^ 3 / 3) ≤ realErf x ∧ realErf x ≤ 2 / Real.sqrt Real.pi * x := by
  have hc : 0 ≤ 2 / Real.sqrt Real.pi := by have := sqrt_pi_pos; positivity
  obtain ⟨h1, h2⟩ := gauss_integral_bounds hx
  unfold realErf
  exact ⟨mul_le_mul_of_nonneg_left h1 hc, mul_le_mul_of_nonneg_left h2 hc⟩

theorem realErf_nonneg {x : ℝ} (hx : 0 ≤ x) : 0 ≤ realErf x := by
  unfold realErf
  have hc : 0 ≤ 2 / Real.sqrt Real.pi := by have := sqrt_pi_pos; positivity
  apply mul_nonneg hc
  apply intervalIntegral.integral_nonneg hx
  intro t _; exact (Real.exp_pos _).le

/-- `u(r) = erf(√α r)`: first derivative. -/
theorem hasDerivAt_erf_scaled {α : ℝ} (hα : 0 ≤ α) (r : ℝ) :
    HasDerivAt (fun x => realErf (Real.sqrt α * x))
      (2 / Real.sqrt Real.pi * Real.sqrt α * Real.exp (-α * r ^ 2)) r := by
  have h1 : HasDerivAt (fun x : ℝ => Real.sqrt α * x) (Real.sqrt α) r := by
    simpa using (hasDerivAt_id r).const_mul (Real.sqrt α)
  have h2 := (hasDerivAt_realErf (Real.sqrt α * r)).comp r h1
  refine h2.congr_deriv ?_
  have : (Real.sqrt α * r) ^ 2 = α * r ^ 2 := by
    rw [mul_pow, Real.sq_sqrt hα]
  rw [this, neg_mul]; ring

/-- `u'(r) = 2/√π·√α·e^{-αr²}`: its derivative. -/
theorem hasDerivAt_gauss_scaled (c α r : ℝ) :
    HasDerivAt (fun x => c * Real.exp (-α * x ^ 2)) (c * (Real.exp (-α * r ^ 2) * (-α * (2 * r)))) r := by
  have h1 : HasDerivAt (fun x : ℝ => -α * x ^ 2) (-α * (2 * r)) r := by
    have := ((hasDerivAt_pow 2 r).const_mul (-α))
    simpa using this
  exact (h1.exp).const_mul c

/-- `x^{3/2} = x·√x`. -/
theorem rpow_three_halves {x : ℝ} (hx : 0 < x) : x ^ ((3:ℝ) / 2) = x * Real.sqrt x := by
  rw [show ((3:ℝ) / 2) = 1 + 1 / 2 by norm_num, Real.rpow_add hx, Real.rpow_one, Real.sqrt_eq_rpow]

/-- `x^{5/2} = x²·√x`. -/
theorem rpow_five_halves {x : ℝ} (hx : 0 < x) : x ^ ((5:ℝ) / 2) = x ^ 2 * Real.sqrt x := by
  rw [show ((5:ℝ) / 2) = 2 + 1 / 2 by norm_num, Real.rpow_add hx, Real.sqrt_eq_rpow]
  norm_num

/-- `erf(√α r)/r → 2√α/√π` as `r ↓ 0`. -/
theorem tendsto_erf_scaled_div {α : ℝ} (hα : 0 ≤ α) :
    Tendsto (fun r => realErf (Real.sqrt α * r) / r) (𝓝[>] 0) (𝓝 (2 * Real.sqrt α / Real.sqrt Real.pi)) := by
  have h := hasDerivAt_erf_scaled hα 0
  rw [hasDerivAt_iff_tendsto_slope_zero] at h
  have h2 : Tendsto (fun t => t⁻¹ • (realErf (Real.sqrt α * (0 + t)) - realErf (Real.sqrt α * 0)))
      (𝓝[>] 0) (𝓝 (2 / Real.sqrt Real.pi * Real.sqrt α * Real.exp (-α * 0 ^ 2))) :=
    h.mono_left (nhdsWithin_mono _ (fun x hx => ne_of_gt hx))
  have e : (2 / Real.sqrt Real.pi * Real.sqrt α * Real.exp (-α * 0 ^ 2)) = 2 * Real.sqrt α / Real.sqrt Real.pi := by
    simp; ring
  rw [e] at h2
  refine h2.congr (fun t => ?_)
  simp [div_eq_inv_mul]

/-- quantitative: `0 ≤ 2√α/√π − erf(√α r)/r ≤ (2/(3√π))·α√α·r²` for `r > 0`. -/
theorem erf_scaled_div_bounds {α r : ℝ} (hα : 0 ≤ α) (hr : 0 < r) :
    0 ≤ 2 * Real.sqrt α / Real.sqrt Real.pi - realErf (Real.sqrt α * r) / r ∧
    2 * Real.sqrt α / Real.sqrt Real.pi - realErf (Real.sqrt α * r) / r
      ≤ 2 / (3 * Real.sqrt Real.pi) * (α * Real.sqrt α) * r ^ 2 := by
  have hs := Real.sqrt_nonneg α
  have hp := sqrt_pi_pos
  obtain ⟨h1, h2⟩ := realErf_bounds (mul_nonneg hs hr.le)
  have hsq : Real.sqrt α ^ 2 = α := Real.sq_sqrt hα
  constructor
  · rw [sub_nonneg, div_le_iff₀ hr]
    calc realErf (Real.sqrt α * r) ≤ 2 / Real.sqrt Real.pi * (Real.sqrt α * r) := h2
      _ = 2 * Real.sqrt α / Real.sqrt Real.pi * r := by ring
  · have h3 : 2 * Real.sqrt α / Real.sqrt Real.pi * r
        - 2 / (3 * Real.sqrt Real.pi) * (α * Real.sqrt α) * r ^ 2 * r ≤ realErf (Real.sqrt α * r) := by
      refine le_trans (le_of_eq ?_) h1
      have : (Real.sqrt α * r) ^ 3 = α * Real.sqrt α * r ^ 3 := by
        rw [mul_pow, pow_succ (Real.sqrt α) 2, hsq]
      rw [this]; field_simp
    rw [sub_le_iff_le_add, ← sub_le_iff_le_add', le_div_iff₀ hr]
    linarith


/-! ### p-type: `u(r) = erf(√α r) + c·r·e^{-αr²}` for a constant `c` -/

/-- `r·V` of a potential `erf(√α r)/r + c·e^{-αr²}`. -/
noncomputable def pU (c α r : ℝ) : ℝ := realErf (Real.sqrt α * r) + c * r * Real.exp (-α * r ^ 2)
noncomputable def pU1 (c α r : ℝ) : ℝ :=
  (2 * Real.sqrt α / Real.sqrt Real.pi + c - 2 * α * c * r ^ 2) * Real.exp (-α * r ^ 2)
noncomputable def pU2 (c α r : ℝ) : ℝ :=
  (-6 * α * c - 4 * α * Real.sqrt α / Real.sqrt Real.pi + 4 * α ^ 2 * c * r ^ 2) * r * Real.exp (-α * r ^ 2)

theorem hasDerivAt_exp_gauss (α r : ℝ) :
    HasDerivAt (fun x => Real.exp (-α * x ^ 2)) (Real.exp (-α * r ^ 2) * (-α * (2 * r))) r := by
  simpa using hasDerivAt_gauss_scaled 1 α r

theorem hasDerivAt_pU {α : ℝ} (hα : 0 ≤ α) (c r : ℝ) : HasDerivAt (pU c α) (pU1 c α r) r := by
  unfold pU pU1
  have h1 := hasDerivAt_erf_scaled hα r
  have h2 : HasDerivAt (fun x : ℝ => c * x) c r := by simpa using (hasDerivAt_id r).const_mul c
  have h3 := h2.mul (hasDerivAt_exp_gauss α r)
  refine (h1.add h3).congr_deriv ?_
  ring

theorem hasDerivAt_pU1 (c α r : ℝ) : HasDerivAt (pU1 c α) (pU2 c α r) r := by
  unfold pU1 pU2
  have h1 : HasDerivAt (fun x : ℝ => 2 * Real.sqrt α / Real.sqrt Real.pi + c - 2 * α * c * x ^ 2)
      (-(2 * α * c * (2 * r))) r := by
    have := ((hasDerivAt_pow 2 r).const_mul (2 * α * c)).const_sub (2 * Real.sqrt α / Real.sqrt Real.pi + c)
    simpa using this
  refine (h1.mul (hasDerivAt_exp_gauss α r)).congr_deriv ?_
  ring

theorem continuous_pU2 (c α : ℝ) : Continuous (pU2 c α) := by
  unfold pU2; fun_prop

/-- `r·e^{-αr²} → 0`. -/
theorem tendsto_mul_exp_gauss {α : ℝ} (hα : 0 < α) :
    Tendsto (fun r : ℝ => r * Real.exp (-α * r ^ 2)) atTop (𝓝 0) := by
  have h0 : Tendsto (fun r : ℝ => (1 / α) / r) atTop (𝓝 0) := tendsto_const_nhds.div_atTop tendsto_id
  refine squeeze_zero' ?_ ?_ h0
  · filter_upwards [eventually_gt_atTop (0:ℝ)] with r hr
    exact mul_nonneg hr.le (Real.exp_pos _).le
  · filter_upwards [eventually_gt_atTop (0:ℝ)] with r hr
    have hx : 0 < α * r ^ 2 := by positivity
    have h1 : Real.exp (-α * r ^ 2) ≤ 1 / (α * r ^ 2) := by
      rw [neg_mul, Real.exp_neg, ← one_div]
      apply one_div_le_one_div_of_le hx
      have := Real.add_one_le_exp (α * r ^ 2); linarith
    calc r * Real.exp (-α * r ^ 2) ≤ r * (1 / (α * r ^ 2)) := mul_le_mul_of_nonneg_left h1 hr.le
      _ = (1 / α) / r := by field_simp

/-- `r²·e^{-αr²} → 0`. -/
theorem tendsto_sq_mul_exp_gauss {α : ℝ} (hα : 0 < α) :
    Tendsto (fun r : ℝ => r ^ 2 * Real.exp (-α * r ^ 2)) atTop (𝓝 0) := by
  have h := (Real.tendsto_pow_mul_exp_neg_atTop_nhds_zero 1).comp
    ((tendsto_pow_atTop (α := ℝ) (n := 2) (by norm_num)).const_mul_atTop hα)
  have h2 := h.const_mul (1 / α)
  simp only [mul_zero] at h2
  refine h2.congr (fun r => ?_)
  simp only [Function.comp, pow_one]
  field_simp

theorem tendsto_exp_gauss {α : ℝ} (hα : 0 < α) :
    Tendsto (fun r : ℝ => Real.exp (-α * r ^ 2)) atTop (𝓝 0) := by
  have : Tendsto (fun r : ℝ => -(α * r ^ 2)) atTop atBot :=
    tendsto_neg_atTop_atBot.comp ((tendsto_pow_atTop (α := ℝ) (n := 2) (by norm_num)).const_mul_atTop hα)
  have := Real.tendsto_exp_atBot.comp this
  refine this.congr (fun r => ?_)
  simp [Function.comp]

theorem tendsto_erf_scaled {α : ℝ} (hα : 0 < α) :
    Tendsto (fun r => realErf (Real.sqrt α * r)) atTop (𝓝 1) :=
  tendsto_realErf_atTop.comp (tendsto_id.const_mul_atTop (Real.sqrt_pos.mpr hα))

theorem tendsto_pU {α : ℝ} (hα : 0 < α) (c : ℝ) : Tendsto (pU c α) atTop (𝓝 1) := by
  unfold pU
  have h := (tendsto_erf_scaled hα).add ((tendsto_mul_exp_gauss hα).const_mul c)
  simp only [mul_zero, add_zero] at h
  refine h.congr (fun r => ?_)
  ring

theorem tendsto_pU1 {α : ℝ} (hα : 0 < α) (c : ℝ) : Tendsto (pU1 c α) atTop (𝓝 0) := by
  unfold pU1
  have h := ((tendsto_exp_gauss hα).const_mul (2 * Real.sqrt α / Real.sqrt Real.pi + c)).sub
    ((tendsto_sq_mul_exp_gauss hα).const_mul (2 * α * c))
  simp only [mul_zero, sub_zero] at h
  refine h.congr (fun r => ?_)
  ring

theorem tendsto_mul_pU1 {α : ℝ} (hα : 0 < α) (c : ℝ) : Tendsto (fun r => r * pU1 c α r) atTop (𝓝 0) := by
  unfold pU1
  -- r·e^{-αr²} → 0 and r³·e^{-αr²} → 0
  have h3 : Tendsto (fun r : ℝ => r ^ 3 * Real.exp (-α * r ^ 2)) atTop (𝓝 0) := by
    -- r³ e^{-αr²} = (r² e^{-αr²/2})·(r e^{-αr²/2})
    have ha : 0 < α / 2 := by positivity
    have := (tendsto_sq_mul_exp_gauss ha).mul (tendsto_mul_exp_gauss ha)
    simp only [mul_zero] at this
    refine this.congr (fun r => ?_)
    have : Real.exp (-α * r ^ 2) = Real.exp (-(α / 2) * r ^ 2) * Real.exp (-(α / 2) * r ^ 2) := by
      rw [← Real.exp_add]; congr 1; ring
    rw [this]; ring
  have h := ((tendsto_mul_exp_gauss hα).const_mul (2 * Real.sqrt α / Real.sqrt Real.pi + c)).sub
    (h3.const_mul (2 * α * c))
  simp only [mul_zero, sub_zero] at h
  refine h.congr (fun r => ?_)
  ring

/-- limit of `erf(√α r)/r + c·e^{-αr²}` as `r ↓ 0`. -/
theorem tendsto_pUpper {α : ℝ} (hα : 0 ≤ α) (c : ℝ) :
    Tendsto (fun r => realErf (Real.sqrt α * r) / r + c * Real.exp (-α * r ^ 2)) (𝓝[>] 0)
      (𝓝 (2 * Real.sqrt α / Real.sqrt Real.pi + c)) := by
  have h1 := tendsto_erf_scaled_div hα
  have h2 : Tendsto (fun r : ℝ => c * Real.exp (-α * r ^ 2)) (𝓝[>] 0) (𝓝 c) := by
    have hc : Continuous fun r : ℝ => c * Real.exp (-α * r ^ 2) := by fun_prop
    have := (hc.tendsto 0).mono_left (nhdsWithin_le_nhds (s := Set.Ioi 0))
    simpa using this
  exact h1.add h2

/-! ### From the radial Poisson equation to the Coulomb integral -/

/-- If `u'' = -w` everywhere with `w ≥ 0` on `[0,∞)`, `u 0 = 0` and `u' → 0`, then for `r > 0`
`u r / r = (1/r)·∫₀^r s·w(s) ds + ∫_r^∞ w(s) ds`.  With `w(s) = 4π s ρ(s)` the right-hand side
is the electrostatic potential of the spherical density `ρ` (shell theorem). -/
theorem coulomb_integral_of_poisson {u u1 w : ℝ → ℝ}
    (h1 : ∀ x, HasDerivAt u (u1 x) x) (h2 : ∀ x, HasDerivAt u1 (-w x) x) (hw : Continuous w)
    (hpos : ∀ x, 0 ≤ x → 0 ≤ w x) (h0 : u 0 = 0) (hinf : Tendsto u1 atTop (𝓝 0))
    {r : ℝ} (hr : 0 < r) :
    u r / r = (1 / r) * (∫ s in (0:ℝ)..r, s * w s) + ∫ s in Set.Ioi r, w s := by
  have ha : ∫ s in (0:ℝ)..r, s * w s = (u r - r * u1 r) - (u 0 - 0 * u1 0) := by
    apply intervalIntegral.integral_eq_sub_of_hasDerivAt (f := fun x => u x - x * u1 x)
    · intro x _
      have := (h1 x).sub ((hasDerivAt_id x).mul (h2 x))
      refine this.congr_deriv ?_
      simp
    · exact Continuous.intervalIntegrable (by fun_prop) _ _
  have hb : ∫ s in Set.Ioi r, w s = 0 - (-u1 r) := by
    apply integral_Ioi_of_hasDerivAt_of_nonneg' (g := fun x => -u1 x)
    · intro x _
      simpa using (h2 x).fun_neg
    · intro x hx
      exact hpos x (le_trans hr.le (le_of_lt hx))
    · simpa using hinf.neg
  rw [ha, hb, h0]
  field_simp
  ring

/-- enclosed charge: `∫₀^R s·w(s) ds = u R − R·u' R`. -/
theorem enclosed_charge_of_poisson {u u1 w : ℝ → ℝ}
    (h1 : ∀ x, HasDerivAt u (u1 x) x) (h2 : ∀ x, HasDerivAt u1 (-w x) x) (hw : Continuous w)
    (h0 : u 0 = 0) (R : ℝ) :
    ∫ s in (0:ℝ)..R, s * w s = u R - R * u1 R := by
  have : ∫ s in (0:ℝ)..R, s * w s = (u R - R * u1 R) - (u 0 - 0 * u1 0) := by
    apply intervalIntegral.integral_eq_sub_of_hasDerivAt (f := fun x => u x - x * u1 x)
    · intro x _
      have := (h1 x).sub ((hasDerivAt_id x).mul (h2 x))
      refine this.congr_deriv ?_
      simp
    · exact Continuous.intervalIntegrable (by fun_prop) _ _
  rw [this, h0]; ring

/-- potential at the origin: `∫₀^∞ w(s) ds = u' 0`. -/
theorem origin_integral_of_poisson {u1 w : ℝ → ℝ}
    (h2 : ∀ x, HasDerivAt u1 (-w x) x) (hpos : ∀ x, 0 ≤ x → 0 ≤ w x)
    (hinf : Tendsto u1 atTop (𝓝 0)) :
    ∫ s in Set.Ioi (0:ℝ), w s = u1 0 := by
  have hb : ∫ s in Set.Ioi (0:ℝ), w s = 0 - (-u1 0) := by
    apply integral_Ioi_of_hasDerivAt_of_nonneg' (g := fun x => -u1 x)
    · intro x _
      simpa using (h2 x).fun_neg
    · intro x hx
      exact hpos x (le_of_lt hx)
    · simpa using hinf.neg
  rw [hb]; ring

end GridVerif

/-
  Helper lemmas for C11 over the reals: the `FloorCeil ℝ` instance (`⌊·⌋`, `⌈·⌉`), vector algebra on
  coordinate lists (bilinearity of `dot`, Cauchy–Schwarz, the Kronecker sum of the duality
  contract), distances under translation, integer ranges and `itertools.product`, `np.min`/`np.max`.
-/
import GridVerif.Model.Periodic
import GridVerif.Lemmas.ElemReal
import GridVerif.Lemmas.LocalGrid
import Mathlib.Data.List.Nodup
import Mathlib.Algebra.Order.Floor.Defs
import Mathlib.Tactic.Ring
import Mathlib.Tactic.Linarith
import Mathlib.Tactic.Positivity

namespace GridVerif.Periodic
open GridVerif.LocalGrid

noncomputable instance : FloorCeil ℝ := ⟨fun x => ⌊x⌋, fun x => ⌈x⌉⟩

/-! ### vector algebra on coordinate lists over ℝ -/

@[simp] theorem dot_nil_left (v : Point ℝ) : dot ([] : Point ℝ) v = 0 := by simp [dot]
@[simp] theorem dot_nil_right (u : Point ℝ) : dot u ([] : Point ℝ) = 0 := by simp [dot]
@[simp] theorem dot_cons (a b : ℝ) (u v : Point ℝ) : dot (a :: u) (b :: v) = a * b + dot u v := by
  simp [dot]

theorem dot_comm (u v : Point ℝ) : dot u v = dot v u := by
  induction u generalizing v with
  | nil => simp
  | cons a u ih => cases v with
    | nil => simp
    | cons b v => simp [ih v, mul_comm]

theorem dot_vadd_left (u v w : Point ℝ) (h : u.length = v.length) :
    dot (vadd u v) w = dot u w + dot v w := by
  induction u generalizing v w with
  | nil => cases v <;> simp_all [vadd]
  | cons a u ih =>
    cases v with
    | nil => simp at h
    | cons b v =>
      cases w with
      | nil => simp [vadd]
      | cons c w =>
        have := ih v w (by simpa using h)
        simp only [vadd, List.zipWith_cons_cons, dot_cons] at this ⊢
        rw [this]; ring

theorem dot_vsub_left (u v w : Point ℝ) (h : u.length = v.length) :
    dot (vsub u v) w = dot u w - dot v w := by
  induction u generalizing v w with
  | nil => cases v <;> simp_all [vsub]
  | cons a u ih =>
    cases v with
    | nil => simp at h
    | cons b v =>
      cases w with
      | nil => simp [vsub]
      | cons c w =>
        have := ih v w (by simpa using h)
        simp only [vsub, List.zipWith_cons_cons, dot_cons] at this ⊢
        rw [this]; ring

theorem dot_smul_left (a : ℝ) (u w : Point ℝ) : dot (smul a u) w = a * dot u w := by
  induction u generalizing w with
  | nil => simp [smul]
  | cons b u ih =>
    cases w with
    | nil => simp [smul]
    | cons c w =>
      have := ih w
      simp only [smul, List.map_cons, dot_cons] at this ⊢
      rw [this]; ring

theorem dot_zeroVec (d : Nat) (w : Point ℝ) : dot (zeroVec d : Point ℝ) w = 0 := by
  induction d generalizing w with
  | zero => simp [zeroVec]
  | succ d ih =>
    cases w with
    | nil => simp
    | cons c w =>
      have := ih w
      simp only [zeroVec, List.replicate_succ, dot_cons, Nat.cast_zero] at this ⊢
      rw [this]; ring

theorem dot_self_nonneg (u : Point ℝ) : 0 ≤ dot u u := by
  induction u with
  | nil => simp
  | cons a u ih => simp only [dot_cons]; nlinarith [mul_self_nonneg a]

@[simp] theorem vadd_length (u v : Point ℝ) : (vadd u v).length = min u.length v.length := by
  simp [vadd]
@[simp] theorem vsub_length (u v : Point ℝ) : (vsub u v).length = min u.length v.length := by
  simp [vsub]
@[simp] theorem smul_length (a : ℝ) (u : Point ℝ) : (smul a u).length = u.length := by simp [smul]
@[simp] theorem zeroVec_length (d : Nat) : (zeroVec d : Point ℝ).length = d := by simp [zeroVec]

theorem lincomb_length (d : Nat) (js : List ℝ) (vecs : List (Point ℝ))
    (h : ∀ a ∈ vecs, a.length = d) : (lincomb d js vecs).length = d := by
  induction js generalizing vecs with
  | nil => simp [lincomb]
  | cons j js ih =>
    cases vecs with
    | nil => simp [lincomb]
    | cons a vecs =>
      have h1 := ih vecs (fun x hx => h x (List.mem_cons_of_mem _ hx))
      have h2 := h a List.mem_cons_self
      simp only [lincomb, List.zipWith_cons_cons, List.foldr_cons] at h1 ⊢
      simp [h1, h2]

/-- `(Σ jₖ aₖ)·b = Σ jₖ (aₖ·b)`. -/
theorem dot_lincomb (d : Nat) (js : List ℝ) (vecs : List (Point ℝ)) (b : Point ℝ)
    (h : ∀ a ∈ vecs, a.length = d) :
    dot (lincomb d js vecs) b = (List.zipWith (fun j a => j * dot a b) js vecs).sum := by
  induction js generalizing vecs with
  | nil => simp [lincomb, dot_zeroVec]
  | cons j js ih =>
    cases vecs with
    | nil => simp [lincomb, dot_zeroVec]
    | cons a vecs =>
      have hv : ∀ x ∈ vecs, x.length = d := fun x hx => h x (List.mem_cons_of_mem _ hx)
      have h1 := ih vecs hv
      have h2 := h a List.mem_cons_self
      have h3 := lincomb_length d js vecs hv
      simp only [lincomb, List.zipWith_cons_cons, List.foldr_cons, List.sum_cons] at h1 h3 ⊢
      rw [dot_vadd_left _ _ _ (by simp [h2, h3]), dot_smul_left, h1]

/-- Kronecker sum: if `aₗ·b = δₗₖ` then `Σₗ jₗ (aₗ·b) = jₖ`. -/
theorem sum_dual (js : List ℝ) (vecs : List (Point ℝ)) (b : Point ℝ) (k : Nat)
    (hlen : js.length = vecs.length) (hk : k < vecs.length)
    (hd : ∀ l (hl : l < vecs.length), dot vecs[l] b = if l = k then 1 else 0) :
    (List.zipWith (fun j a => j * dot a b) js vecs).sum = js[k]'(by omega) := by
  induction js generalizing vecs k with
  | nil => simp at hlen; omega
  | cons j js ih =>
    cases vecs with
    | nil => simp at hk
    | cons a vecs =>
      simp only [List.zipWith_cons_cons, List.sum_cons]
      cases k with
      | zero =>
        have h0 := hd 0 (by simp)
        simp only [List.getElem_cons_zero, if_true] at h0
        have hz : (List.zipWith (fun j a => j * dot a b) js vecs).sum = 0 := by
          apply List.sum_eq_zero
          intro x hx
          obtain ⟨i, hi, rfl⟩ := List.getElem_of_mem hx
          simp only [List.length_zipWith] at hi
          simp only [List.getElem_zipWith]
          have := hd (i + 1) (by simp; omega)
          simp only [List.getElem_cons_succ] at this
          rw [this]; simp
        simp [h0, hz]
      | succ k =>
        have h0 := hd 0 (by simp)
        simp only [List.getElem_cons_zero] at h0
        have := ih vecs k (by simpa using hlen) (by simpa using hk)
          (fun l hl => by
            have := hd (l + 1) (by simp; omega)
            simpa using this)
        simp [h0, this]

/-- Cauchy–Schwarz on coordinate lists. -/
theorem dot_sq_le (u v : Point ℝ) : (dot u v) ^ 2 ≤ dot u u * dot v v := by
  induction u generalizing v with
  | nil => simp
  | cons a u ih =>
    cases v with
    | nil => simp
    | cons b v =>
      simp only [dot_cons]
      have hs := ih v
      have hU := dot_self_nonneg u
      have hV := dot_self_nonneg v
      set s := dot u v
      set U := dot u u
      set V := dot v v
      -- 2abs ≤ a²V + b²U
      have h1 : (2 * a * b * s) ^ 2 ≤ (a ^ 2 * V + b ^ 2 * U) ^ 2 := by
        have e1 : (2 * a * b * s) ^ 2 = 4 * (a * b) ^ 2 * s ^ 2 := by ring
        have e2 : 4 * (a * b) ^ 2 * s ^ 2 ≤ 4 * (a * b) ^ 2 * (U * V) :=
          mul_le_mul_of_nonneg_left hs (by positivity)
        nlinarith [sq_nonneg (a ^ 2 * V - b ^ 2 * U)]
      have h2 : |2 * a * b * s| ≤ a ^ 2 * V + b ^ 2 * U :=
        abs_le_of_sq_le_sq h1 (by positivity)
      have h3 := le_of_abs_le h2
      nlinarith

/-! ### distances -/

theorem dist2_eq_dot (p c : Point ℝ) : dist2 p c = dot (vsub p c) (vsub p c) := by
  induction p generalizing c with
  | nil => simp [dist2, vsub]
  | cons a p ih =>
    cases c with
    | nil => simp [dist2, vsub]
    | cons b c =>
      have := ih c
      simp only [dist2, vsub, List.zipWith_cons_cons, List.foldr_cons, dot_cons] at this ⊢
      rw [this]

/-- Translating the point by `−δ` is translating the centre by `+δ`. -/
theorem dist2_shift (x c dl : Point ℝ) : dist2 x (vadd c dl) = dist2 (vsub x dl) c := by
  induction x generalizing c dl with
  | nil => simp [dist2, vsub]
  | cons a x ih =>
    cases c with
    | nil => simp [dist2, vadd, vsub]
    | cons b c =>
      cases dl with
      | nil => simp [dist2, vadd, vsub]
      | cons e dl =>
        have := ih c dl
        simp only [dist2, vadd, vsub, List.zipWith_cons_cons, List.foldr_cons] at this ⊢
        rw [this]; ring

/-- The projection of a vector of length `≤ r` on `b` is at most `‖b‖·r`. -/
theorem abs_dot_le (b w : Point ℝ) (r : ℝ) (hr : 0 ≤ r) (hw : dot w w ≤ r * r) :
    |dot w b| ≤ Real.sqrt (dot b b) * r := by
  have h1 := dot_sq_le w b
  have hb := dot_self_nonneg b
  have h2 : (dot w b) ^ 2 ≤ (Real.sqrt (dot b b) * r) ^ 2 := by
    rw [mul_pow, Real.sq_sqrt hb]
    calc (dot w b) ^ 2 ≤ dot w w * dot b b := h1
      _ ≤ (r * r) * dot b b := mul_le_mul_of_nonneg_right hw hb
      _ = dot b b * r ^ 2 := by ring
  exact abs_le_of_sq_le_sq h2 (mul_nonneg (Real.sqrt_nonneg _) hr)

/-! ### integer ranges and their product -/

theorem mem_intRange (lo hi j : Int) : j ∈ intRange lo hi ↔ lo ≤ j ∧ j ≤ hi := by
  unfold intRange
  simp only [List.mem_map, List.mem_range]
  constructor
  · rintro ⟨k, hk, rfl⟩; omega
  · rintro ⟨h1, h2⟩
    exact ⟨(j - lo).toNat, by omega, by omega⟩

theorem intRange_nodup (lo hi : Int) : (intRange lo hi).Nodup := by
  unfold intRange
  apply List.Nodup.map_on _ List.nodup_range
  intro x _ y _ h; omega

theorem mem_product (rs : List (List Int)) (js : List Int) :
    js ∈ product rs ↔ js.length = rs.length ∧
      ∀ k (h1 : k < js.length) (h2 : k < rs.length), js[k] ∈ rs[k] := by
  induction rs generalizing js with
  | nil =>
    simp only [product, List.mem_singleton, List.length_nil]
    constructor
    · rintro rfl; simp
    · rintro ⟨h, _⟩; exact List.length_eq_zero_iff.mp h
  | cons r rs ih =>
    simp only [product, List.mem_flatMap, List.mem_map]
    constructor
    · rintro ⟨x, hx, t, ht, rfl⟩
      obtain ⟨h1, h2⟩ := (ih t).mp ht
      refine ⟨by simp [h1], ?_⟩
      intro k hk1 hk2
      cases k with
      | zero => simpa using hx
      | succ k => simpa using h2 k (by simpa using hk1) (by simpa using hk2)
    · rintro ⟨h1, h2⟩
      cases js with
      | nil => simp at h1
      | cons x t =>
        have h0 := h2 0 (by simp) (by simp)
        rw [List.getElem_cons_zero, List.getElem_cons_zero] at h0
        refine ⟨x, h0, t, ?_, rfl⟩
        refine (ih t).mpr ⟨by simpa using h1, ?_⟩
        intro k hk1 hk2
        have hk := h2 (k + 1) (by simpa using hk1) (by simpa using hk2)
        rw [List.getElem_cons_succ, List.getElem_cons_succ] at hk
        exact hk

theorem product_nodup (rs : List (List Int)) (h : ∀ r ∈ rs, r.Nodup) : (product rs).Nodup := by
  induction rs with
  | nil => simp [product]
  | cons r rs ih =>
    have hr := h r List.mem_cons_self
    have hrs := ih (fun x hx => h x (List.mem_cons_of_mem _ hx))
    simp only [product]
    rw [List.nodup_flatMap]
    constructor
    · intro x _
      exact List.Nodup.map_on (fun a _ b _ hab => (List.cons.inj hab).2) hrs
    · refine List.Pairwise.imp ?_ hr
      intro a b hab
      simp only [Function.onFun, List.disjoint_left, List.mem_map]
      rintro _ ⟨t, _, rfl⟩ ⟨t', _, h2⟩
      exact hab (List.cons.inj h2).1.symm

/-! ### `np.min` / `np.max` -/

theorem minOf_le (x : ℝ) (xs : List ℝ) : minOf x xs ≤ x ∧ ∀ y ∈ xs, minOf x xs ≤ y := by
  induction xs generalizing x with
  | nil => simp [minOf]
  | cons y ys ih =>
    simp only [minOf, List.foldl_cons]
    by_cases h : y < x
    · simp only [h, if_true]
      obtain ⟨h1, h2⟩ := ih y
      simp only [minOf] at h1 h2
      refine ⟨by linarith, ?_⟩
      intro z hz
      rcases List.mem_cons.mp hz with rfl | hz
      · exact h1
      · exact h2 z hz
    · simp only [h, if_false]
      obtain ⟨h1, h2⟩ := ih x
      simp only [minOf] at h1 h2
      refine ⟨h1, ?_⟩
      intro z hz
      rcases List.mem_cons.mp hz with rfl | hz
      · linarith
      · exact h2 z hz

theorem le_maxOf (x : ℝ) (xs : List ℝ) : x ≤ maxOf x xs ∧ ∀ y ∈ xs, y ≤ maxOf x xs := by
  induction xs generalizing x with
  | nil => simp [maxOf]
  | cons y ys ih =>
    simp only [maxOf, List.foldl_cons]
    by_cases h : x < y
    · simp only [h, if_true]
      obtain ⟨h1, h2⟩ := ih y
      simp only [maxOf] at h1 h2
      refine ⟨by linarith, ?_⟩
      intro z hz
      rcases List.mem_cons.mp hz with rfl | hz
      · exact h1
      · exact h2 z hz
    · simp only [h, if_false]
      obtain ⟨h1, h2⟩ := ih x
      simp only [maxOf] at h1 h2
      refine ⟨h1, ?_⟩
      intro z hz
      rcases List.mem_cons.mp hz with rfl | hz
      · linarith
      · exact h2 z hz

end GridVerif.Periodic

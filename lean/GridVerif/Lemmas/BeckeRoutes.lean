/-
  C06 — helper lemmas for the generated routines (`Gen/BeckeRoutes.lean`): the primitives of `Model/BeckePy.lean`
  read entry by entry, and folds of masked additions as sums.  Nothing here depends on generated text.
-/
import GridVerif.Lemmas.BeckeIndex
import GridVerif.Model.BeckePy
import Mathlib.Algebra.BigOperators.Group.List.Basic
import Mathlib.Algebra.Order.BigOperators.Group.List

namespace GridVerif.BeckePy
open GridVerif.Becke GridVerif.Gen.Becke

/-! ### slices -/

theorem pyNorm_le (len : ℕ) (i : ℤ) : pyNorm len i ≤ len := by
  unfold pyNorm
  split_ifs <;> omega

theorem pySlice_length {α : Type} (l : List α) (a b : ℤ) :
    (pySlice l a b).length = pyNorm l.length b - pyNorm l.length a := by
  unfold pySlice
  have := pyNorm_le l.length b
  simp only [List.length_drop, List.length_take]
  omega

theorem pySlice_getElem? {α : Type} (l : List α) (a b : ℤ) (j : ℕ) (h : inSlice l.length a b j = true) :
    (pySlice l a b)[j - pyNorm l.length a]? = l[j]? := by
  unfold inSlice at h
  simp only [decide_eq_true_eq] at h
  unfold pySlice
  rw [List.getElem?_drop, List.getElem?_take]
  have : pyNorm l.length a + (j - pyNorm l.length a) = j := by omega
  rw [this, if_pos h.2]

theorem pySlice_map {α β : Type} (f : α → β) (l : List α) (a b : ℤ) :
    pySlice (l.map f) a b = (pySlice l a b).map f := by
  unfold pySlice
  simp only [List.length_map, List.map_drop, List.map_take]

/-! ### `pyGetItem` at a natural index -/

theorem pyGetItem_nat {α : Type} (xs : List α) (i : ℕ) (h : i < xs.length) :
    pyGetItem xs (i : ℤ) = .ok xs[i] := by
  unfold pyGetItem
  have h1 : ¬ ((i : ℤ) < 0) := by omega
  simp only [h1, if_false, Int.toNat_natCast, List.getElem?_eq_getElem h]

theorem pyGetItem_nat_succ {α : Type} (xs : List α) (i : ℕ) (h : i + 1 < xs.length) :
    pyGetItem xs ((i : ℤ) + 1) = .ok xs[i + 1] := by
  have := pyGetItem_nat xs (i + 1) h
  simpa using this

theorem pyGetItem_nat_err {α : Type} (xs : List α) (i : ℕ) (h : xs.length ≤ i) :
    pyGetItem xs (i : ℤ) = .error .indexError := by
  unfold pyGetItem
  have h1 : ¬ ((i : ℤ) < 0) := by omega
  simp only [h1, if_false, Int.toNat_natCast, List.getElem?_eq_none h]

theorem secsZip_eq_map (t : List ℤ) (sl : List ℕ) (n : ℕ) (ht : t.length = n + 1) (hs : sl.length = n) :
    secsZip t sl = (List.range n).map fun i => ((t.getD i 0, t.getD (i + 1) 0), sl.getD i 0) := by
  apply List.ext_getElem
  · simp [secsZip, ht, hs]
  · intro i h1 h2
    have hi : i < n := by simpa using h2
    simp only [secsZip, List.getElem_zip, List.getElem_tail, List.getElem_map, List.getElem_range]
    rw [← List.getElem_eq_getD (h := by omega), ← List.getElem_eq_getD (h := by omega), ← List.getElem_eq_getD (h := by omega)]

theorem range_map_getD (sl : List ℕ) : (List.range sl.length).map (fun i => sl.getD i 0) = sl := by
  apply List.ext_getElem
  · simp
  · intro i h1 h2
    simp only [List.getElem_map, List.getElem_range]
    exact (List.getElem_eq_getD (h := h2) 0).symm

theorem pyGetItem_getD {α : Type} (xs : List α) (i : ℕ) (h : i < xs.length) (d : α) :
    pyGetItem xs (i : ℤ) = .ok (xs.getD i d) := by
  rw [pyGetItem_nat xs i h, ← List.getElem_eq_getD (h := h)]

theorem pyGetItem_succ_getD {α : Type} (xs : List α) (i : ℕ) (h : i + 1 < xs.length) (d : α) :
    pyGetItem xs ((i : ℤ) + 1) = .ok (xs.getD (i + 1) d) := by
  rw [pyGetItem_nat_succ xs i h, ← List.getElem_eq_getD (h := h)]

/-! ### masked slice updates, entry by entry -/

section upd
variable {P : Type}

/-- `weights[a:b] += col[a:b]` where `weights`, `col` run over the same points. -/
theorem sliceAdd_mapIdx (pts : List P) (g : ℕ → P → ℝ) (f : P → ℝ) (a b : ℤ) :
    npSliceAddInto (pts.mapIdx g) a b (pySlice (pts.map f) a b)
      = .ok (pts.mapIdx fun j p => if inSlice pts.length a b j then g j p + f p else g j p) := by
  unfold npSliceAddInto
  simp only [List.length_mapIdx]
  have hl := pySlice_length (pts.map f) a b
  simp only [List.length_map] at hl
  rw [if_neg (by simp only [ne_eq, Decidable.not_not]; exact hl)]
  congr 1
  apply List.ext_getElem
  · simp
  · intro j h1 h2
    simp only [List.length_mapIdx] at h1
    simp only [List.getElem_mapIdx]
    by_cases hin : inSlice pts.length a b j = true
    · have := pySlice_getElem? (pts.map f) a b j (by simpa using hin)
      simp only [List.length_map] at this
      simp only [hin, if_true, this, List.getElem?_map, List.getElem?_eq_getElem h1, Option.map_some]
    · simp only [hin, Bool.false_eq_true, if_false]

/-- `aim[a:b] = col[a:b]`. -/
theorem sliceSet_mapIdx (pts : List P) (g : ℕ → P → ℝ) (f : P → ℝ) (a b : ℤ) :
    npSliceSet (pts.mapIdx g) a b (pySlice (pts.map f) a b)
      = .ok (pts.mapIdx fun j p => if inSlice pts.length a b j then f p else g j p) := by
  unfold npSliceSet
  simp only [List.length_mapIdx]
  have hl := pySlice_length (pts.map f) a b
  simp only [List.length_map] at hl
  rw [if_neg (by simp only [ne_eq, Decidable.not_not]; exact hl)]
  congr 1
  apply List.ext_getElem
  · simp
  · intro j h1 h2
    simp only [List.length_mapIdx] at h1
    simp only [List.getElem_mapIdx]
    by_cases hin : inSlice pts.length a b j = true
    · have := pySlice_getElem? (pts.map f) a b j (by simpa using hin)
      simp only [List.length_map] at this
      simp only [hin, if_true, this, List.getElem?_map, List.getElem?_eq_getElem h1, Option.map_some]
    · simp only [hin, Bool.false_eq_true, if_false]

theorem npZeros_eq_mapIdx (pts : List P) : (npZeros pts.length : List ℝ) = pts.mapIdx fun _ _ => ((0 : ℕ) : ℝ) := by
  unfold npZeros
  apply List.ext_getElem <;> simp

theorem npAddInto_zeros (pts : List P) (f : P → ℝ) :
    npAddInto (npZeros pts.length) (pts.map f) = .ok (pts.map f) := by
  unfold npAddInto npZeros
  simp only [List.length_replicate, List.length_map, ne_eq, not_true_eq_false, if_false]
  congr 1
  apply List.ext_getElem <;> simp

end upd

/-! ### folds -/

theorem foldlM_congr_mem {α β ε : Type} (l : List α) (f g : β → α → Except ε β)
    (h : ∀ a ∈ l, ∀ b, f b a = g b a) (b0 : β) : l.foldlM f b0 = l.foldlM g b0 := by
  induction l generalizing b0 with
  | nil => rfl
  | cons a l ih =>
    simp only [List.foldlM_cons, h a List.mem_cons_self]
    congr 1
    funext b
    exact ih (fun a' ha' => h a' (List.mem_cons_of_mem _ ha')) b

/-- a fold of masked additions is the sum over the selected entries. -/
theorem foldl_masked_add_eq_sum {σ : Type} (l : List σ) (c : σ → Bool) (v : σ → ℝ) (acc : ℝ) :
    l.foldl (fun a s => if c s then a + v s else a) acc = acc + ((l.filter c).map v).sum := by
  induction l generalizing acc with
  | nil => simp
  | cons s l ih =>
    simp only [List.foldl_cons, List.filter_cons]
    by_cases h : c s = true
    · simp only [h, if_true, List.map_cons, List.sum_cons]
      rw [ih]; ring
    · simp only [h, Bool.false_eq_true, if_false]
      rw [ih]

end GridVerif.BeckePy

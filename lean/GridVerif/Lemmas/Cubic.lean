/-
  Helper lemmas for property C13 (rectilinear grids): evaluation of the generated index
  code on 2- and 3-element shapes, indexing into nested `flatMap`s, sums of tensor products,
  the real-number instance of `Rounding`.
-/
import GridVerif.Model.Cubic
import GridVerif.Lemmas.ElemReal
import Mathlib.Tactic.Ring
import Mathlib.Tactic.Linarith
import Mathlib.Tactic.NormNum
import Mathlib.Algebra.Order.Round
import Mathlib.Algebra.BigOperators.Group.List.Basic

namespace GridVerif.Cubic
open GridVerif.Gen.CubicIndex

/-! ### the Python list primitives on lists of length 2 and 3 -/

@[simp] theorem pyGet3_0 (a b c : Int) : pyGet [a, b, c] 0 = .ok a := rfl
@[simp] theorem pyGet3_1 (a b c : Int) : pyGet [a, b, c] 1 = .ok b := rfl
@[simp] theorem pyGet3_2 (a b c : Int) : pyGet [a, b, c] 2 = .ok c := rfl
@[simp] theorem pySet3_0 (a b c v : Int) : pySet [a, b, c] 0 v = .ok [v, b, c] := rfl
@[simp] theorem pySet3_1 (a b c v : Int) : pySet [a, b, c] 1 v = .ok [a, v, c] := rfl
@[simp] theorem pySet3_m1 (a b c v : Int) : pySet [a, b, c] (-1) v = .ok [a, b, v] := rfl
@[simp] theorem pyGet2_0 (a b : Int) : pyGet [a, b] 0 = .ok a := rfl
@[simp] theorem pyGet2_1 (a b : Int) : pyGet [a, b] 1 = .ok b := rfl
@[simp] theorem pySet2_0 (a b v : Int) : pySet [a, b] 0 v = .ok [v, b] := rfl
@[simp] theorem pySet2_m1 (a b v : Int) : pySet [a, b] (-1) v = .ok [a, v] := rfl
@[simp] theorem pyRange_1 : pyRange 1 (-1) (-1) = [1, 0] := by decide
@[simp] theorem pyRange_0 : pyRange 0 (-1) (-1) = [0] := by decide
@[simp] theorem pyEmpty3 (j : Int) : pyEmpty 3 j = [j, j, j] := rfl
@[simp] theorem pyEmpty2 (j : Int) : pyEmpty 2 j = [j, j] := rfl

/-- floor division of `q*m + r` (`0 ≤ r < m`) by `m`. -/
theorem fdiv_mul_add (q m r : Int) (hr : 0 ≤ r) (hm : r < m) : (q * m + r).fdiv m = q := by
  have hm0 : 0 ≤ m := by omega
  rw [Int.fdiv_eq_ediv_of_nonneg _ hm0]
  rw [Int.add_comm, Int.add_mul_ediv_right _ _ (by omega : m ≠ 0), Int.ediv_eq_zero_of_lt hr hm]
  simp

/-! ### indexing into nested `flatMap`s (row-major layout) -/

theorem getElem?_flatMap_uniform {α β} (l : List α) (m : Nat) (f : α → List β)
    (hf : ∀ a ∈ l, (f a).length = m) (i r : Nat) (hi : i < l.length) (hr : r < m) :
    (l.flatMap f)[i * m + r]? = (f l[i])[r]? := by
  induction l generalizing i with
  | nil => simp at hi
  | cons a t ih =>
    rw [List.flatMap_cons]
    cases i with
    | zero =>
      simp only [Nat.zero_mul, Nat.zero_add, List.getElem_cons_zero]
      rw [List.getElem?_append_left (by rw [hf a (List.mem_cons_self)]; exact hr)]
    | succ i =>
      have hl : (f a).length = m := hf a (List.mem_cons_self)
      rw [List.getElem?_append_right (by rw [hl]; nlinarith), hl]
      have : (i + 1) * m + r - m = i * m + r := by
        have : (i + 1) * m = i * m + m := by ring
        omega
      rw [this]
      simp only [List.getElem_cons_succ]
      exact ih (fun a ha => hf a (List.mem_cons_of_mem _ ha)) i (by simpa using hi)

theorem length_flatMap_uniform {α β} (l : List α) (m : Nat) (f : α → List β)
    (hf : ∀ a ∈ l, (f a).length = m) : (l.flatMap f).length = l.length * m := by
  induction l with
  | nil => simp
  | cons a t ih =>
    rw [List.flatMap_cons, List.length_append, hf a (List.mem_cons_self),
      ih (fun a ha => hf a (List.mem_cons_of_mem _ ha))]
    simp; ring

theorem allCoords_cons (s : Nat) (rest : List Nat) :
    allCoords (s :: rest) = (List.range s).flatMap fun i => (allCoords rest).map (i :: ·) := by
  rw [allCoords]

theorem length_allCoords (shape : List Nat) : (allCoords shape).length = shape.prod := by
  induction shape with
  | nil => simp [allCoords]
  | cons s rest ih =>
    rw [allCoords_cons, length_flatMap_uniform _ (allCoords rest).length _ (by intro a _; simp), ih]
    simp

theorem allCoords_cons_getElem? (s : Nat) (rest : List Nat) (i r : Nat) (hi : i < s)
    (hr : r < (allCoords rest).length) :
    (allCoords (s :: rest))[i * (allCoords rest).length + r]? = ((allCoords rest)[r]?).map (i :: ·) := by
  rw [allCoords_cons, getElem?_flatMap_uniform _ (allCoords rest).length _ (by intro a _; simp) i r (by simpa using hi) hr]
  simp

theorem allCoords3_getElem? (s0 s1 s2 i j k : Nat) (hi : i < s0) (hj : j < s1) (hk : k < s2) :
    (allCoords [s0, s1, s2])[i * (s1 * s2) + j * s2 + k]? = some [i, j, k] := by
  have h2 : (allCoords [s2]).length = s2 := by simp [length_allCoords]
  have h1 : (allCoords [s1, s2]).length = s1 * s2 := by simp [length_allCoords]
  have h0 : (allCoords ([] : List Nat)).length = 1 := by simp [length_allCoords]
  have hr : j * s2 + k < s1 * s2 := by
    calc j * s2 + k < j * s2 + s2 := by omega
      _ = (j + 1) * s2 := by ring
      _ ≤ s1 * s2 := Nat.mul_le_mul_right s2 hj
  have e0 := allCoords_cons_getElem? s0 [s1, s2] i (j * s2 + k) hi (by rw [h1]; exact hr)
  have e1 := allCoords_cons_getElem? s1 [s2] j k hj (by rw [h2]; exact hk)
  have e2 := allCoords_cons_getElem? s2 [] k 0 hk (by rw [h0]; omega)
  rw [h1] at e0; rw [h2] at e1; rw [h0] at e2
  rw [Nat.add_assoc, e0, e1]
  simp only [Nat.mul_one, Nat.add_zero] at e2
  rw [e2]
  simp [allCoords]

theorem allCoords2_getElem? (s0 s1 i j : Nat) (hi : i < s0) (hj : j < s1) :
    (allCoords [s0, s1])[i * s1 + j]? = some [i, j] := by
  have h1 : (allCoords [s1]).length = s1 := by simp [length_allCoords]
  have h0 : (allCoords ([] : List Nat)).length = 1 := by simp [length_allCoords]
  have e0 := allCoords_cons_getElem? s0 [s1] i j hi (by rw [h1]; exact hj)
  have e1 := allCoords_cons_getElem? s1 [] j 0 hj (by rw [h0]; omega)
  rw [h1] at e0; rw [h0] at e1
  simp only [Nat.mul_one, Nat.add_zero] at e1
  rw [e0, e1]
  simp [allCoords]

/-! ### tensor products of lists -/

theorem tensorPoints_cons {K : Type} (xs : List K) (rest : List (List K)) :
    tensorPoints (xs :: rest) = xs.flatMap fun x => (tensorPoints rest).map (x :: ·) := by
  rw [tensorPoints]

theorem length_tensorPoints {K : Type} (ls : List (List K)) :
    (tensorPoints ls).length = (ls.map List.length).prod := by
  induction ls with
  | nil => simp [tensorPoints]
  | cons xs rest ih =>
    rw [tensorPoints_cons, length_flatMap_uniform _ (tensorPoints rest).length _ (by intro a _; simp), ih]
    simp

theorem tensorPoints_cons_getElem? {K : Type} (xs : List K) (rest : List (List K)) (i r : Nat)
    (hi : i < xs.length) (hr : r < (tensorPoints rest).length) :
    (tensorPoints (xs :: rest))[i * (tensorPoints rest).length + r]?
      = ((tensorPoints rest)[r]?).map (xs[i] :: ·) := by
  rw [tensorPoints_cons, getElem?_flatMap_uniform _ (tensorPoints rest).length _ (by intro a _; simp) i r hi hr]
  simp

theorem length_kron {K : Type} [Mul K] (a b : List K) : (kron a b).length = a.length * b.length := by
  unfold kron
  rw [length_flatMap_uniform _ b.length _ (by intro x _; simp)]

theorem kron_getElem? {K : Type} [Mul K] (a b : List K) (i j : Nat) (hi : i < a.length) (hj : j < b.length) :
    (kron a b)[i * b.length + j]? = some (a[i] * b[j]) := by
  unfold kron
  rw [getElem?_flatMap_uniform _ b.length _ (by intro x _; simp) i j hi hj]
  simp [hj]

/-! ### sums of tensor products over the reals -/


theorem sum_zipWith_flatMap {α β γ δ : Type} (φ : γ → δ → ℝ) (a : List α) (b : List β)
    (f : α → List γ) (g : β → List δ) (h : ∀ x y, (f x).length = (g y).length) :
    (List.zipWith φ (a.flatMap f) (b.flatMap g)).sum
      = (List.zipWith (fun x y => (List.zipWith φ (f x) (g y)).sum) a b).sum := by
  induction a generalizing b with
  | nil => simp
  | cons x a ih =>
    cases b with
    | nil => simp
    | cons y b =>
      rw [List.flatMap_cons, List.flatMap_cons, List.zipWith_append (h x y), List.sum_append,
        List.zipWith_cons_cons, List.sum_cons, ih]

theorem sum_zipWith_mul_left {γ δ : Type} (k : ℝ) (F : γ → δ → ℝ) (u : List γ) (v : List δ) :
    (List.zipWith (fun c z => k * F c z) u v).sum = k * (List.zipWith F u v).sum := by
  induction u generalizing v with
  | nil => simp
  | cons c u ih =>
    cases v with
    | nil => simp
    | cons z v => simp [ih, mul_add]

theorem sum_zipWith_mul_right {γ δ : Type} (k : ℝ) (F : γ → δ → ℝ) (u : List γ) (v : List δ) :
    (List.zipWith (fun c z => F c z * k) u v).sum = (List.zipWith F u v).sum * k := by
  induction u generalizing v with
  | nil => simp
  | cons c u ih =>
    cases v with
    | nil => simp
    | cons z v => simp [ih, add_mul]


/-! ### `sumK`, `prodK` over the reals -/

theorem foldl_add_eq (l : List ℝ) (a : ℝ) : l.foldl (· + ·) a = a + l.sum := by
  induction l generalizing a with
  | nil => simp
  | cons x t ih => simp [ih, add_assoc]

theorem sumK_eq_sum (l : List ℝ) : sumK l = l.sum := by
  unfold sumK; rw [foldl_add_eq]; simp

theorem foldl_mul_eq (l : List ℝ) (a : ℝ) : l.foldl (· * ·) a = a * l.prod := by
  induction l generalizing a with
  | nil => simp
  | cons x t ih => simp [ih, mul_assoc]

theorem prodK_eq_prod (l : List ℝ) : prodK l = l.prod := by
  unfold prodK; rw [foldl_mul_eq]; simp

/-! ### rounding over the reals -/


/-- The real-number instance of `Rounding`: `ceil`/`floor` are `⌈·⌉`/`⌊·⌋`, `rint` is the nearest
integer with ties to the even neighbour (`np.rint`). Part of the trusted base. -/
noncomputable instance : Rounding ℝ where
  ceilI x := ⌈x⌉
  floorI x := ⌊x⌋
  rintI x := if Int.fract x = 1 / 2 then (if Even ⌊x⌋ then ⌊x⌋ else ⌊x⌋ + 1) else round x

theorem rintI_intCast (z : ℤ) : Rounding.rintI (z : ℝ) = z := by
  show (if Int.fract (z : ℝ) = 1 / 2 then _ else round (z : ℝ)) = z
  rw [Int.fract_intCast, if_neg (by norm_num), round_intCast]

/-- `rint x` is a nearest integer. -/
theorem rintI_nearest (x : ℝ) (z : ℤ) : |x - (Rounding.rintI x : ℤ)| ≤ |x - z| := by
  show |x - ((if Int.fract x = 1 / 2 then (if Even ⌊x⌋ then ⌊x⌋ else ⌊x⌋ + 1) else round x : ℤ) : ℝ)| ≤ _
  by_cases h : Int.fract x = 1 / 2
  · rw [if_pos h]
    have hx : x = ⌊x⌋ + 1 / 2 := by rw [← h]; exact (Int.floor_add_fract x).symm
    -- both neighbours are at distance 1/2, every integer is at distance ≥ 1/2
    have hz : (1 : ℝ) / 2 ≤ |x - z| := by
      have : x - z = ((⌊x⌋ - z : ℤ) : ℝ) + 1 / 2 := by push_cast; linarith
      rw [this]
      rcases le_or_gt 0 (⌊x⌋ - z) with hm | hm
      · have : (0 : ℝ) ≤ ((⌊x⌋ - z : ℤ) : ℝ) := by exact_mod_cast hm
        rw [abs_of_nonneg (by linarith)]; linarith
      · have : ((⌊x⌋ - z : ℤ) : ℝ) ≤ -1 := by exact_mod_cast (by omega : ⌊x⌋ - z ≤ -1)
        rw [abs_of_nonpos (by linarith)]; linarith
    refine le_trans (le_of_eq ?_) hz
    by_cases he : Even ⌊x⌋
    · rw [if_pos he]
      have : x - (⌊x⌋ : ℝ) = 1 / 2 := by linarith
      rw [this]; norm_num
    · rw [if_neg he]
      have : x - ((⌊x⌋ + 1 : ℤ) : ℝ) = -(1 / 2) := by push_cast; linarith
      rw [this]; norm_num
  · rw [if_neg h]; exact round_le x z

theorem ceilI_eq (x : ℝ) : (Rounding.ceilI x : ℤ) = ⌈x⌉ := rfl
theorem floorI_eq (x : ℝ) : (Rounding.floorI x : ℤ) = ⌊x⌋ := rfl


end GridVerif.Cubic

/-
  C08 — the polar derivative of the derivative routine, degree `≤ 1`, the code as it is (after d7630ad):
  row `(1, 0)` is `-√(3/4π) |sin φ| · sign(sin φ) = -√(3/4π) sin φ`, the derivative of `Y_10 = √(3/4π) cos φ`,
  for every polar angle; rows `(1, ±1)` carry no SciPy term.
-/
import GridVerif.Lemmas.HarmonicsLow

namespace GridVerif.Harmonics
open Real

/-- Row `(l, m)` of `output[1]`. -/
theorem dYlm_phi_getElem? (L : ℕ) (θ φ : ℝ) (l : ℕ) (m : ℤ) (hl : l ≤ L) (hm : m.natAbs ≤ l) :
    (dYlm L θ φ).2[rowIndex l m]? =
      some (dEntry (ylmCode L θ φ) (ylmCodeSC L θ |sin φ| (cos φ)) θ φ l m).2 := by
  unfold dYlm
  simp only [List.map_map, List.getElem?_map, lmOrder_getElem? L l m hl hm, Option.map_some,
    Function.comp, Elem.abs, Elem.sin, Elem.cos]

theorem abs_mul_signSinPhi (φ : ℝ) : |sin φ| * (signSinPhi φ : ℝ) = sin φ := by
  unfold signSinPhi
  simp only [Elem.sin, Nat.cast_zero, Nat.cast_one]
  split
  · rename_i h; rw [abs_of_neg h]; ring
  · rename_i h; rw [abs_of_nonneg (not_lt.mp h)]; ring

/-- Row `(1, 0)` of the polar derivative, as the code computes it (all angles, every `l_max ≥ 1`):
SciPy's `|sin φ|` times the sign factor of the routine is `sin φ`. -/
theorem dYlm_phi_1_0 (L : ℕ) (θ φ : ℝ) (hL : 1 ≤ L) :
    (dYlm L θ φ).2[rowIndex 1 0]? = some (-(√(3 / (4 * π)) * sin φ)) := by
  rw [dYlm_phi_getElem? L θ φ 1 0 hL (by simp)]
  congr 1
  have h11 := ylmCodeSC_getD L θ |sin φ| (cos φ) 1 1 hL (by simp) 0
  have h1m1 := ylmCodeSC_getD L θ |sin φ| (cos φ) 1 (-1) hL (by simp) 0
  rw [y11] at h11
  rw [y1m1] at h1m1
  have h2 : (√2 : ℝ) ≠ 0 := by positivity
  have h22 : (√2 : ℝ) * √2 = 2 := Real.mul_self_sqrt (by norm_num)
  have hsg := abs_mul_signSinPhi φ
  simp only [dEntry, sphHarmY, absK, negOnePow, npow, Int.natAbs_zero, Nat.cast_zero, Nat.cast_one,
    Nat.cast_ofNat, zero_add, ↓reduceIte, h11, h1m1, Elem.sqrt, Elem.cos,
    Elem.sin, zero_mul, le_refl, Int.reduceNeg]
  norm_num
  have ht := Real.sin_sq_add_cos_sq θ
  field_simp
  linear_combination (-(|sin φ| * (signSinPhi φ : ℝ))) * ht - hsg

/-- The derivative of row `(1, 0)` of the recursion with respect to the polar angle. -/
theorem ylm_1_0_hasDerivAt_phi (θ φ : ℝ) :
    HasDerivAt (fun p => ylmSpec (sin p) (cos p) θ 1 0) (-(√(3 / (4 * π)) * sin φ)) φ := by
  have hf : (fun p => ylmSpec (sin p) (cos p) θ 1 0) = fun p => √(3 / (4 * π)) * cos p := by
    funext p; exact y10 _ _ _
  rw [hf]
  refine ((Real.hasDerivAt_cos φ).const_mul _).congr_deriv ?_
  ring

theorem sqrt_three_div_four_pi_pos : 0 < √(3 / (4 * π)) := by positivity

/-- Rows `(1, ±1)` of the polar derivative (no SciPy term at `|m| = l`): `cot φ · Y_{1,±1}`, with
`cot φ` replaced by `0` below the threshold. -/
theorem dYlm_phi_1_1 (L : ℕ) (θ φ : ℝ) (hL : 1 ≤ L) :
    (dYlm L θ φ).2[rowIndex 1 1]? = some (cotTangent φ * (√(3 / (4 * π)) * (sin φ * cos θ))) := by
  rw [dYlm_phi_getElem? L θ φ 1 1 hL (by simp)]
  congr 1
  have h11 : (ylmCode L θ φ).getD (rowIndex 1 1) 0 = _ := ylmCodeSC_getD L θ (sin φ) (cos φ) 1 1 hL (by simp) 0
  rw [y11] at h11
  simp only [dEntry, absK, Nat.cast_zero]
  rw [h11]
  norm_num

theorem dYlm_phi_1_m1 (L : ℕ) (θ φ : ℝ) (hL : 1 ≤ L) :
    (dYlm L θ φ).2[rowIndex 1 (-1)]? = some (cotTangent φ * (√(3 / (4 * π)) * (sin φ * sin θ))) := by
  rw [dYlm_phi_getElem? L θ φ 1 (-1) hL (by simp)]
  congr 1
  have h11 : (ylmCode L θ φ).getD (rowIndex 1 (-1)) 0 = _ :=
    ylmCodeSC_getD L θ (sin φ) (cos φ) 1 (-1) hL (by simp) 0
  rw [y1m1] at h11
  simp only [dEntry, absK, Nat.cast_zero]
  rw [h11]
  norm_num

/-- Above the threshold `cot_tangent` is the cotangent. -/
theorem cotTangent_generic (φ : ℝ) (h : (tol10 : ℝ) ≤ |tan φ|) : cotTangent φ = cos φ / sin φ := by
  have h1 : ¬ |tan φ| < (tol10 : ℝ) := not_lt.mpr h
  simp only [cotTangent, Elem.abs, Elem.tan, h1, ↓reduceIte, Nat.cast_one]
  rw [Real.tan_eq_sin_div_cos, one_div, inv_div]

/-- The pole convention: below the threshold (in particular at `φ = 0`) the factor is `0`. -/
theorem cotTangent_pole (φ : ℝ) (h : |tan φ| < (tol10 : ℝ)) : cotTangent φ = 0 := by
  simp [cotTangent, Elem.abs, Elem.tan, h]

end GridVerif.Harmonics

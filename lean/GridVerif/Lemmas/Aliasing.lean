import GridVerif.Model.Aliasing

namespace GridVerif.Aliasing

theorem get_append_left (h t : List Nat) (c : Nat) (hc : c < h.length) : get (h ++ t) c = get h c := by
  unfold get
  simp [List.getD_eq_getElem?_getD, List.getElem?_append_left hc]

theorem get_append_len (h : List Nat) (a : Nat) (t : List Nat) : get (h ++ a :: t) h.length = a := by
  unfold get
  simp [List.getD_eq_getElem?_getD]

theorem get_append_len1 (h : List Nat) (a b : Nat) : get (h ++ [a, b]) (h.length + 1) = b := by
  unfold get
  simp [List.getD_eq_getElem?_getD, List.getElem?_append_right]

theorem get_set_ne (h : List Nat) (c c' v : Nat) (hne : c ≠ c') : get (h.set c v) c' = get h c' := by
  unfold get
  simp [List.getD_eq_getElem?_getD, List.getElem?_set_ne hne]

theorem lookup_some {c : List (Key × Nat × Nat)} {k : Key} {p w : Nat} (h : lookup c k = some (p, w)) :
    (k, p, w) ∈ c := by
  unfold lookup at h
  cases hf : c.find? (fun e => e.1 == k) with
  | none => simp [hf] at h
  | some e =>
    simp only [hf, Option.map_some, Option.some.injEq] at h
    have hm := List.mem_of_find?_eq_some hf
    have hk := List.find?_some hf
    simp only [beq_iff_eq] at hk
    obtain ⟨k', p', w'⟩ := e
    simp only [Prod.mk.injEq] at h
    simp only at hk
    obtain ⟨rfl, rfl⟩ := h
    subst hk
    exact hm

/-- The safety invariant of the cache discipline. -/
structure Safe (sp sw : Key → Nat) (s : State) : Prop where
  /-- cache cells exist and hold the shipped data -/
  content : ∀ k p w, (k, p, w) ∈ s.cache →
    p < s.heap.length ∧ w < s.heap.length ∧ get s.heap p = sp k ∧ get s.heap w = sw k
  /-- no cache cell is reachable from a user handle -/
  private_ : ∀ k p w, (k, p, w) ∈ s.cache → p ∉ s.handles ∧ w ∉ s.handles
  /-- handles are allocated cells -/
  alloc : ∀ c ∈ s.handles, c < s.heap.length

end GridVerif.Aliasing

/-
  C08 — the polar derivative of the derivative routine, degree 2, the code as it is (after d7630ad):
  the five entries of `output[1]` in closed form (rows `(2, ±2)`: no SciPy term; rows `(2, ±1)`: raising term from
  SciPy's `Y_2^2`, i.e. rows `(2, ±2)` at `(|sin φ|, cos φ)` times `sign(sin φ)²`; row `(2, 0)`: from `Y_2^1` times
  `sign(sin φ)`), and that each is the `φ`-derivative of the row wherever the pole convention is not applied.
-/
import GridVerif.Lemmas.HarmonicsDphi

namespace GridVerif.Harmonics
open Real
set_option linter.unusedSimpArgs false

theorem signSinPhi_sq (φ : ℝ) : (signSinPhi φ : ℝ) * signSinPhi φ = 1 := by
  unfold signSinPhi
  simp only [Elem.sin, Nat.cast_zero, Nat.cast_one]
  split <;> ring

theorem k21_eq_two_k22 : √(15 / (4 * π)) = 2 * √(15 / (16 * π)) := by
  const_sq

theorem sqrt_fac_2_1 : √(((2 : ℝ) - 1) * (2 + 1 + 1)) = 2 := by
  rw [show ((2 : ℝ) - 1) * (2 + 1 + 1) = 2 ^ 2 by norm_num]
  exact Real.sqrt_sq (by norm_num)

theorem k_fac_2_0 : √(((2 : ℝ) - 0) * (2 + 0 + 1)) * √(15 / (4 * π)) = 6 * √(5 / (16 * π)) * √2 := by
  rw [show ((2 : ℝ) - 0) * (2 + 0 + 1) = 6 by norm_num]
  const_sq

/-- Row `(2, 1)`: `cot φ · Y_21` plus the raising term `−√(15/4π) sin²φ cos θ`. -/
theorem dYlm_phi_2_1 (L : ℕ) (θ φ : ℝ) (hL : 2 ≤ L) :
    (dYlm L θ φ).2[rowIndex 2 1]? =
      some (cotTangent φ * (√(15 / (4 * π)) * (sin φ * cos θ * cos φ)) - √(15 / (4 * π)) * (sin φ ^ 2 * cos θ)) := by
  rw [dYlm_phi_getElem? L θ φ 2 1 hL (by simp)]
  congr 1
  have h21 : (ylmCode L θ φ).getD (rowIndex 2 1) 0 = _ := ylmCodeSC_getD L θ (sin φ) (cos φ) 2 1 hL (by simp) 0
  have h22 := ylmCodeSC_getD L θ |sin φ| (cos φ) 2 2 hL (by simp) 0
  have h2m2 := ylmCodeSC_getD L θ |sin φ| (cos φ) 2 (-2) hL (by simp) 0
  rw [y21] at h21
  rw [y22] at h22
  rw [y2m2] at h2m2
  simp only [dEntry, sphHarmY, absK, negOnePow, npow, Int.natAbs_zero, Int.natAbs_one, Nat.cast_zero, Nat.cast_one,
    Nat.cast_ofNat, zero_add, ↓reduceIte, Elem.sqrt, Elem.cos, Nat.reduceAdd, Int.reduceNeg,
    Elem.sin, zero_mul, le_refl, Int.reduceNeg, h21, h22, h2m2, sqrt_fac_2_1]
  clear h21 h22 h2m2
  have hr2 : (√2 : ℝ) ≠ 0 := by positivity
  have hsg := signSinPhi_sq φ
  have habs := abs_mul_abs_self (sin φ)
  have ht := Real.sin_sq_add_cos_sq θ
  have hBC := k21_eq_two_k22
  generalize √(15 / (4 * π)) = B at *
  generalize √(15 / (16 * π)) = C at *
  generalize (signSinPhi φ : ℝ) = g at *
  generalize |sin φ| = a at *
  subst hBC
  norm_num
  field_simp
  linear_combination (-(C * cos θ * a ^ 2 * g ^ 2)) * ht - (C * cos θ * (g * g)) * habs - (C * cos θ * sin φ ^ 2) * hsg

/-- Row `(2, −1)`. -/
theorem dYlm_phi_2_m1 (L : ℕ) (θ φ : ℝ) (hL : 2 ≤ L) :
    (dYlm L θ φ).2[rowIndex 2 (-1)]? =
      some (cotTangent φ * (√(15 / (4 * π)) * (sin φ * sin θ * cos φ)) - √(15 / (4 * π)) * (sin φ ^ 2 * sin θ)) := by
  rw [dYlm_phi_getElem? L θ φ 2 (-1) hL (by simp)]
  congr 1
  have h21 : (ylmCode L θ φ).getD (rowIndex 2 (-1)) 0 = _ :=
    ylmCodeSC_getD L θ (sin φ) (cos φ) 2 (-1) hL (by simp) 0
  have h22 := ylmCodeSC_getD L θ |sin φ| (cos φ) 2 2 hL (by simp) 0
  have h2m2 := ylmCodeSC_getD L θ |sin φ| (cos φ) 2 (-2) hL (by simp) 0
  rw [y2m1] at h21
  rw [y22] at h22
  rw [y2m2] at h2m2
  simp only [dEntry, sphHarmY, absK, negOnePow, npow, Int.natAbs_zero, Int.natAbs_one, Int.natAbs_neg,
    Nat.cast_zero, Nat.cast_one,
    Nat.cast_ofNat, zero_add, ↓reduceIte, Elem.sqrt, Elem.cos, Nat.reduceAdd, Int.reduceNeg,
    Elem.sin, zero_mul, le_refl, Int.reduceNeg, h21, h22, h2m2, sqrt_fac_2_1]
  clear h21 h22 h2m2
  have hr2 : (√2 : ℝ) ≠ 0 := by positivity
  have hsg := signSinPhi_sq φ
  have habs := abs_mul_abs_self (sin φ)
  have ht := Real.sin_sq_add_cos_sq θ
  have hBC := k21_eq_two_k22
  generalize √(15 / (4 * π)) = B at *
  generalize √(15 / (16 * π)) = C at *
  generalize (signSinPhi φ : ℝ) = g at *
  generalize |sin φ| = a at *
  subst hBC
  norm_num
  field_simp
  linear_combination (-(C * sin θ * a ^ 2 * g ^ 2)) * ht - (C * sin θ * (g * g)) * habs - (C * sin θ * sin φ ^ 2) * hsg

/-- Rows `(2, ±2)` (no SciPy term at `|m| = l`): `2 cot φ · Y_{2,±2}`. -/
theorem dYlm_phi_2_2 (L : ℕ) (θ φ : ℝ) (hL : 2 ≤ L) :
    (dYlm L θ φ).2[rowIndex 2 2]? =
      some (2 * cotTangent φ * (√(15 / (16 * π)) * ((sin φ * cos θ) ^ 2 - (sin φ * sin θ) ^ 2))) := by
  rw [dYlm_phi_getElem? L θ φ 2 2 hL (by simp)]
  congr 1
  have h : (ylmCode L θ φ).getD (rowIndex 2 2) 0 = _ := ylmCodeSC_getD L θ (sin φ) (cos φ) 2 2 hL (by simp) 0
  rw [y22] at h
  simp only [dEntry, absK, Nat.cast_zero]
  rw [h]
  norm_num

theorem dYlm_phi_2_m2 (L : ℕ) (θ φ : ℝ) (hL : 2 ≤ L) :
    (dYlm L θ φ).2[rowIndex 2 (-2)]? =
      some (2 * cotTangent φ * (√(15 / (4 * π)) * (sin φ * cos θ * (sin φ * sin θ)))) := by
  rw [dYlm_phi_getElem? L θ φ 2 (-2) hL (by simp)]
  congr 1
  have h : (ylmCode L θ φ).getD (rowIndex 2 (-2)) 0 = _ :=
    ylmCodeSC_getD L θ (sin φ) (cos φ) 2 (-2) hL (by simp) 0
  rw [y2m2] at h
  simp only [dEntry, absK, Nat.cast_zero]
  rw [h]
  norm_num

/-- Row `(2, 0)`: only the raising term, `√6 · (−√(15/4π) sin φ cos φ) / √2 = −6 √(5/16π) sin φ cos φ`. -/
theorem dYlm_phi_2_0 (L : ℕ) (θ φ : ℝ) (hL : 2 ≤ L) :
    (dYlm L θ φ).2[rowIndex 2 0]? = some (-(√(5 / (16 * π)) * (6 * (sin φ * cos φ)))) := by
  rw [dYlm_phi_getElem? L θ φ 2 0 hL (by simp)]
  congr 1
  have h21 := ylmCodeSC_getD L θ |sin φ| (cos φ) 2 1 hL (by simp) 0
  have h2m1 := ylmCodeSC_getD L θ |sin φ| (cos φ) 2 (-1) hL (by simp) 0
  rw [y21] at h21
  rw [y2m1] at h2m1
  simp only [dEntry, sphHarmY, absK, negOnePow, npow, Int.natAbs_zero, Int.natAbs_one, Int.natAbs_neg,
    Nat.cast_zero, Nat.cast_one,
    Nat.cast_ofNat, zero_add, ↓reduceIte, Elem.sqrt, Elem.cos, Nat.reduceAdd, Int.reduceNeg,
    Elem.sin, zero_mul, le_refl, Int.reduceNeg, h21, h2m1]
  clear h21 h2m1
  have hr2 : (√2 : ℝ) ≠ 0 := by positivity
  have hsg := abs_mul_signSinPhi φ
  have ht := Real.sin_sq_add_cos_sq θ
  have hK := k_fac_2_0
  generalize √(((2 : ℝ) - 0) * (2 + 0 + 1)) = F at *
  generalize √(15 / (4 * π)) = B at *
  generalize √(5 / (16 * π)) = A at *
  generalize (signSinPhi φ : ℝ) = g at *
  generalize |sin φ| = a at *
  generalize (√2 : ℝ) = r at *
  norm_num
  field_simp
  linear_combination (-(F * B * a * g * cos φ)) * ht - (a * g * cos φ) * hK - (6 * A * r * cos φ) * hsg

theorem sin_ne_zero_of_tol (φ : ℝ) (ht : (tol10 : ℝ) ≤ |tan φ|) : sin φ ≠ 0 := by
  intro h0
  have : tan φ = 0 := by rw [Real.tan_eq_sin_div_cos, h0, zero_div]
  rw [this, abs_zero] at ht
  have h1 : (0 : ℝ) < tol10 := by unfold tol10; norm_num
  linarith

/-- **Degree 2**: away from the pole convention every entry `(2, m)` of `output[1]` is the derivative of the row
of the recursion with respect to the polar angle, `sin φ` of either sign. -/
theorem dphi_deg2 (L : ℕ) (θ φ : ℝ) (m : ℤ) (hL : 2 ≤ L) (hm : m.natAbs ≤ 2) (ht : (tol10 : ℝ) ≤ |tan φ|) :
    ∃ d, (dYlm L θ φ).2[rowIndex 2 m]? = some d ∧
      HasDerivAt (fun p => ylmSpec (sin p) (cos p) θ 2 m) d φ := by
  have hsin := sin_ne_zero_of_tol φ ht
  have hcot := cotTangent_generic φ ht
  have hs := Real.hasDerivAt_sin φ
  have hc := Real.hasDerivAt_cos φ
  have h1 : -2 ≤ m := by omega
  have h2 : m ≤ 2 := by omega
  interval_cases m
  · refine ⟨_, dYlm_phi_2_m2 L θ φ hL, ?_⟩
    simp only [y2m2]
    rw [hcot]
    refine (((hs.mul_const (cos θ)).mul (hs.mul_const (sin θ))).const_mul _).congr_deriv ?_
    field_simp
    ring
  · refine ⟨_, dYlm_phi_2_m1 L θ φ hL, ?_⟩
    simp only [y2m1]
    rw [hcot]
    refine (((hs.mul_const (sin θ)).mul hc).const_mul _).congr_deriv ?_
    field_simp
    ring
  · refine ⟨_, dYlm_phi_2_0 L θ φ hL, ?_⟩
    simp only [y20]
    refine ((((hc.pow 2).const_mul 3).sub_const 1).const_mul _).congr_deriv ?_
    ring
  · refine ⟨_, dYlm_phi_2_1 L θ φ hL, ?_⟩
    simp only [y21]
    rw [hcot]
    refine (((hs.mul_const (cos θ)).mul hc).const_mul _).congr_deriv ?_
    field_simp
    ring
  · refine ⟨_, dYlm_phi_2_2 L θ φ hL, ?_⟩
    simp only [y22]
    rw [hcot]
    refine (((((hs.mul_const (cos θ)).pow 2).sub ((hs.mul_const (sin θ)).pow 2))).const_mul _).congr_deriv ?_
    field_simp
    ring

end GridVerif.Harmonics

/-
  C09 — helper lemmas: the index sums of `Model/AtomInterp.lean` as `Finset` sums over ℝ, the per-shell
  form of `integrate_angular_coordinates`, the partition of the flat index range by `indices`.
-/
import GridVerif.Model.AtomInterp
import GridVerif.Lemmas.ElemReal
import Mathlib.Algebra.BigOperators.Intervals
import Mathlib.Algebra.BigOperators.Field
import Mathlib.Tactic.Ring
import Mathlib.Tactic.FieldSimp
import Mathlib.Tactic.Linarith

namespace GridVerif.AtomInterp
open Finset

theorem sumTo_eq_sum (n : ℕ) (g : ℕ → ℝ) : sumTo n g = ∑ k ∈ range n, g k := by
  unfold sumTo
  induction n with
  | zero => simp
  | succ n ih =>
    rw [List.range_succ, List.foldl_append, ih, Finset.sum_range_succ]
    simp

theorem sumIco_eq_sum (a b : ℕ) (g : ℕ → ℝ) : sumIco a b g = ∑ k ∈ range (b - a), g (a + k) := by
  unfold sumIco; exact sumTo_eq_sum _ _

theorem contract_eq_sum (n : ℕ) (a b : ℕ → ℝ) : contract n a b = ∑ row ∈ range n, a row * b row := by
  unfold contract; exact sumTo_eq_sum _ _

theorem tiny8_pos : (0 : ℝ) < tiny8 := by unfold tiny8; norm_num

theorem tiny10_pos : (0 : ℝ) < tiny10 := by unfold tiny10; norm_num

theorem nRows_mono {a b : ℕ} (h : a ≤ b) : nRows a ≤ nRows b := by
  unfold nRows; exact Nat.mul_le_mul (by omega) (by omega)

/-- `degrees[i] ≤ l_max` for every shell. -/
theorem deg_le_lMax (g : AGrid ℝ) {i : ℕ} (hi : i < g.nShells) : g.deg i ≤ g.lMax := by
  unfold AGrid.lMax
  have key : ∀ (n m : ℕ), m ≤ (List.range n).foldl (fun m i => max m (g.deg i)) m ∧
      ∀ i < n, g.deg i ≤ (List.range n).foldl (fun m i => max m (g.deg i)) m := by
    intro n
    induction n with
    | zero => intro m; simp
    | succ n ih =>
      intro m
      rw [List.range_succ, List.foldl_append]
      simp only [List.foldl_cons, List.foldl_nil]
      refine ⟨le_trans (ih m).1 (le_max_left _ _), fun i hi => ?_⟩
      rcases Nat.lt_succ_iff_lt_or_eq.mp hi with h | h
      · exact le_trans ((ih m).2 i h) (le_max_left _ _)
      · subst h; exact le_max_right _ _
  exact (key g.nShells 0).2 i hi

/-- The weights of the atomic grid are the product `ω_ik · w_i · r_i²` of the rebuilt angular weights, the
radial weight and `r²` (`_generate_atomic_grid`; property C05), on shell `i`. -/
def ProductWeightsOn (g : AGrid ℝ) (i : ℕ) : Prop :=
  ∀ k < g.size i, g.wts (g.idx i + k) = g.regenW i k * g.w i * (g.r i) ^ 2

/-- **per-shell form of `integrate_angular_coordinates`**: with product weights and a non-zero radial
weight on the shells where the code divides, the result is the angular quadrature `Σ_k ω_ik F(idx_i + k)`;
the division by `r_i² w_i` cancels for `r_i ≥ 1e-8`, the rebuilt grid is used below. -/
theorem integrateAngular_eq (g : AGrid ℝ) (F : ℕ → ℝ) (i : ℕ)
    (hW : ProductWeightsOn g i) (hw : ¬ g.r i < tiny8 → g.w i ≠ 0) :
    integrateAngular g F i = ∑ k ∈ range (g.size i), g.regenW i k * F (g.idx i + k) := by
  unfold integrateAngular
  split_ifs with hs
  · rw [sumTo_eq_sum]; exact Finset.sum_congr rfl fun k _ => mul_comm _ _
  · have hr : g.r i ≠ 0 := by
      intro h0; apply hs; rw [h0]; exact tiny8_pos
    have hwi := hw hs
    unfold shellSum
    rw [sumIco_eq_sum]
    have : ∀ k ∈ range (g.idx (i + 1) - g.idx i),
        F (g.idx i + k) * g.wts (g.idx i + k)
          = (g.r i * g.r i * g.w i) * (g.regenW i k * F (g.idx i + k)) := by
      intro k hk
      rw [hW k (by simpa [AGrid.size] using hk)]; ring
    rw [Finset.sum_congr rfl this, ← Finset.mul_sum]
    unfold AGrid.size
    field_simp

/-- the shells tile the flat index range: `Σ_i Σ_{idx_i ≤ j < idx_{i+1}} h j = Σ_{idx_0 ≤ j < idx_n} h j`. -/
theorem sum_shells (idx : ℕ → ℕ) (h : ℕ → ℝ) (n : ℕ) (hmono : ∀ i < n, idx i ≤ idx (i + 1)) :
    idx 0 ≤ idx n ∧
    ∑ i ∈ range n, ∑ j ∈ Ico (idx i) (idx (i + 1)), h j = ∑ j ∈ Ico (idx 0) (idx n), h j := by
  induction n with
  | zero => simp
  | succ n ih =>
    obtain ⟨h0, hs⟩ := ih (fun i hi => hmono i (Nat.lt_succ_of_lt hi))
    have hn := hmono n (Nat.lt_succ_self n)
    refine ⟨le_trans h0 hn, ?_⟩
    rw [Finset.sum_range_succ, hs, Finset.sum_Ico_consecutive _ h0 hn]

end GridVerif.AtomInterp

/-
  C06 — helper lemmas, numeric layer (K = ℝ): real forms of the generated formulas,
  folds as `Finset` sums/products, the bridge from the model's `dist3` to the Euclidean distance.
-/
import GridVerif.Lemmas.ElemReal
import GridVerif.Model.Becke
import Mathlib.Analysis.InnerProductSpace.PiL2
import Mathlib.Tactic.Linarith
import Mathlib.Tactic.Ring
import Mathlib.Tactic.FieldSimp
import Mathlib.Tactic.Positivity
import Mathlib.Tactic.NormNum

namespace GridVerif.Becke
open GridVerif.Gen.Becke

/-! ### switching polynomial -/

theorem switchStep_real (x : ℝ) : switchStep x = 3 / 2 * x - 1 / 2 * x ^ 3 := by
  unfold switchStep
  simp only [npow_eq_pow, Nat.cast_ofNat, Nat.cast_one]

theorem one_sub_switchStep (x : ℝ) : 1 - switchStep x = (1 - x) ^ 2 * (2 + x) / 2 := by
  rw [switchStep_real]; ring

theorem one_add_switchStep (x : ℝ) : 1 + switchStep x = (1 + x) ^ 2 * (2 - x) / 2 := by
  rw [switchStep_real]; ring

theorem switchStep_mem {x : ℝ} (h : -1 ≤ x ∧ x ≤ 1) : -1 ≤ switchStep x ∧ switchStep x ≤ 1 := by
  have h1 := one_sub_switchStep x
  have h2 := one_add_switchStep x
  have a : 0 ≤ (1 - x) ^ 2 * (2 + x) / 2 := by
    have : 0 ≤ 2 + x := by linarith [h.1]
    positivity
  have b : 0 ≤ (1 + x) ^ 2 * (2 - x) / 2 := by
    have : 0 ≤ 2 - x := by linarith [h.2]
    positivity
  constructor <;> linarith

theorem switchStep_lt_one {x : ℝ} (h : -1 ≤ x) (h1 : x < 1) : switchStep x < 1 := by
  have e := one_sub_switchStep x
  have : 0 < (1 - x) ^ 2 * (2 + x) / 2 := by
    have a : 0 < 1 - x := by linarith
    have b : 0 < 2 + x := by linarith
    positivity
  linarith

theorem switchStep_neg (x : ℝ) : switchStep (-x) = -switchStep x := by
  rw [switchStep_real, switchStep_real]; ring

theorem switchStep_one : switchStep (1 : ℝ) = 1 := by rw [switchStep_real]; norm_num
theorem switchStep_neg_one : switchStep (-1 : ℝ) = -1 := by rw [switchStep_real]; norm_num

theorem switchFunc_mem (n : ℕ) {x : ℝ} (h : -1 ≤ x ∧ x ≤ 1) :
    -1 ≤ switchFunc x n ∧ switchFunc x n ≤ 1 := by
  induction n generalizing x with
  | zero => simpa [switchFunc] using h
  | succ n ih => simpa [switchFunc] using ih (switchStep_mem h)

theorem switchFunc_lt_one (n : ℕ) {x : ℝ} (h : -1 ≤ x) (h1 : x < 1) : switchFunc x n < 1 := by
  induction n generalizing x with
  | zero => simpa [switchFunc] using h1
  | succ n ih =>
    simp only [switchFunc]
    exact ih (switchStep_mem ⟨h, h1.le⟩).1 (switchStep_lt_one h h1)

theorem switchFunc_neg (n : ℕ) (x : ℝ) : switchFunc (-x) n = -switchFunc x n := by
  induction n generalizing x with
  | zero => simp [switchFunc]
  | succ n ih => simp only [switchFunc, switchStep_neg, ih]

theorem switchFunc_one (n : ℕ) : switchFunc (1 : ℝ) n = 1 := by
  induction n with
  | zero => simp [switchFunc]
  | succ n ih => simp only [switchFunc, switchStep_one, ih]

theorem switchFunc_neg_one (n : ℕ) : switchFunc (-1 : ℝ) n = -1 := by
  rw [switchFunc_neg, switchFunc_one]

/-! ### alpha -/

theorem alphaClip_abs_le (a c : ℝ) (hc : 0 ≤ c) : -c ≤ alphaClip a c ∧ alphaClip a c ≤ c := by
  unfold alphaClip
  simp only
  split_ifs <;> constructor <;> linarith

theorem alphaClip_neg (a c : ℝ) (hc : 0 ≤ c) : alphaClip (-a) c = -alphaClip a c := by
  unfold alphaClip
  simp only
  split_ifs <;> linarith

theorem uAB_swap (ra rb : ℝ) : uAB rb ra = -uAB ra rb := by
  unfold uAB
  rw [add_comm rb ra, ← neg_div]; congr 1; ring

theorem alphaRaw_neg (u : ℝ) : alphaRaw (-u) = -alphaRaw u := by
  unfold alphaRaw
  simp only [npow_eq_pow, Nat.cast_one]
  rw [neg_sq, neg_div]

theorem alpha_swap (ra rb : ℝ) (hc : 0 ≤ (defaultCutoff : ℝ)) : alpha rb ra = -alpha ra rb := by
  unfold alpha
  rw [uAB_swap, alphaRaw_neg, alphaClip_neg _ _ hc]

theorem alpha_abs_le (ra rb : ℝ) (hc : 0 ≤ (defaultCutoff : ℝ)) :
    -defaultCutoff ≤ alpha ra rb ∧ alpha ra rb ≤ (defaultCutoff : ℝ) :=
  alphaClip_abs_le _ _ hc

/-! ### nu, s -/

theorem nuGW_real (mu a : ℝ) : nuGW mu a = mu + a * (1 - mu ^ 2) := by
  unfold nuGW; simp only [npow_eq_pow, Nat.cast_one]

theorem sGW_real (v : ℝ) (n : ℕ) : sGW v n = 1 / 2 * (1 - switchFunc v n) := by
  unfold sGW; simp only [Nat.cast_ofNat, Nat.cast_one]

theorem nuGW_mem {mu a : ℝ} (hmu : -1 ≤ mu ∧ mu ≤ 1) (ha : -(1 / 2) ≤ a ∧ a ≤ 1 / 2) :
    -1 ≤ nuGW mu a ∧ nuGW mu a ≤ 1 := by
  rw [nuGW_real]
  constructor
  · have : 0 ≤ (1 + mu) * (1 + a * (1 - mu)) := by
      apply mul_nonneg (by linarith [hmu.1])
      nlinarith [hmu.1, hmu.2, ha.1, ha.2]
    nlinarith
  · have : 0 ≤ (1 - mu) * (1 - a * (1 + mu)) := by
      apply mul_nonneg (by linarith [hmu.2])
      nlinarith [hmu.1, hmu.2, ha.1, ha.2]
    nlinarith

theorem nuGW_neg (mu a : ℝ) : nuGW (-mu) (-a) = -nuGW mu a := by
  rw [nuGW_real, nuGW_real]; ring

/-- for `mu ≤ 0` (the nearer atom) `nu` stays away from `1`. -/
theorem nuGW_lt_one {mu a : ℝ} (hmu : -1 ≤ mu ∧ mu ≤ 0) (ha : -(1 / 2) ≤ a ∧ a ≤ 1 / 2) :
    nuGW mu a < 1 := by
  rw [nuGW_real]
  have h1 : 1 ≤ 1 - mu := by linarith [hmu.2]
  have h2 : 1 / 2 ≤ 1 - a * (1 + mu) := by nlinarith [hmu.1, hmu.2, ha.1, ha.2]
  have : 1 / 2 ≤ (1 - mu) * (1 - a * (1 + mu)) := by nlinarith
  nlinarith

/-! ### folds -/

theorem sumRange_eq (M : ℕ) (g : ℕ → ℝ) : sumRange M g = ∑ i ∈ Finset.range M, g i := by
  unfold sumRange
  induction M with
  | zero => simp
  | succ M ih =>
    rw [List.range_succ, List.foldl_append, ih, Finset.sum_range_succ]
    simp

theorem prodSkip_eq (M A : ℕ) (g : ℕ → ℝ) :
    prodSkip M A g = ∏ B ∈ Finset.range M, (if B = A then 1 else g B) := by
  unfold prodSkip
  induction M with
  | zero => simp
  | succ M ih =>
    rw [List.range_succ, List.foldl_append, ih, Finset.prod_range_succ]
    by_cases h : M = A <;> simp [h]

/-! ### distance -/

/-- the model's points as vectors of Euclidean 3-space. -/
noncomputable def toE3 (v : V3 ℝ) : EuclideanSpace ℝ (Fin 3) := !₂[v.x, v.y, v.z]

/-- and back. -/
def ofE3 (v : EuclideanSpace ℝ (Fin 3)) : V3 ℝ := ⟨v 0, v 1, v 2⟩

theorem toE3_ofE3 (v : EuclideanSpace ℝ (Fin 3)) : toE3 (ofE3 v) = v := by
  ext i; fin_cases i <;> simp [toE3, ofE3]

theorem ofE3_toE3 (v : V3 ℝ) : ofE3 (toE3 v) = v := by
  cases v; simp [toE3, ofE3]

theorem dist3_eq_dist (a b : V3 ℝ) : dist3 a b = dist (toE3 a) (toE3 b) := by
  unfold dist3 toE3
  rw [EuclideanSpace.dist_eq, Fin.sum_univ_three]
  simp only [Elem.sqrt]
  congr 1
  simp [Real.dist_eq, sq_abs]
  ring

theorem dist3_nonneg (a b : V3 ℝ) : 0 ≤ dist3 a b := by
  rw [dist3_eq_dist]; exact dist_nonneg

theorem dist3_self (a : V3 ℝ) : dist3 a a = 0 := by
  rw [dist3_eq_dist]; exact dist_self _

theorem dist3_comm (a b : V3 ℝ) : dist3 a b = dist3 b a := by
  rw [dist3_eq_dist, dist3_eq_dist]; exact dist_comm _ _

theorem toE3_injective : Function.Injective toE3 := by
  intro a b h
  have := congrArg ofE3 h
  simpa [ofE3_toE3] using this

theorem dist3_pos {a b : V3 ℝ} (h : a ≠ b) : 0 < dist3 a b := by
  rw [dist3_eq_dist]
  exact dist_pos.mpr (fun e => h (toE3_injective e))

/-- triangle inequality in the form `mu` needs. -/
theorem abs_dist3_sub_le (a b p : V3 ℝ) : |dist3 a p - dist3 b p| ≤ dist3 a b := by
  simp only [dist3_eq_dist]
  exact abs_dist_sub_le _ _ _

end GridVerif.Becke

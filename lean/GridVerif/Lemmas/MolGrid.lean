/-
  Helper lemmas for C07 (`Model/MolGrid.lean`): Python indexing, the index table (prefix
  sums), the generic slice-of-flatten lemma, splitting a weighted sum over the segments of a
  flattened list, the constructor's field characterisation, `allOk`; round 2: the NumPy
  primitives the generated constructor is written in (`pySetItem`, `pySetSlice`, `fitSlice`,
  `npZeros`, `npSum`, `pyForEnum`) and the state of the constructor's loop (`loopState`).
-/
import GridVerif.Model.MolGrid
import Mathlib.Algebra.BigOperators.Group.List.Lemmas
import Mathlib.Algebra.BigOperators.Ring.List
import Mathlib.Tactic.Ring

namespace GridVerif.MolGrid
open List

variable {α β P K : Type}

/-! ### `sumK`, Python indexing -/

theorem sumK_eq [CommSemiring K] (xs : List K) : sumK xs = xs.sum := by
  simp [sumK, List.sum_eq_foldr]

theorem pyGet_nat (l : List α) (i : Nat) :
    pyGet l (i : Int) = match l[i]? with | some x => .ok x | none => .error .indexError := by
  unfold pyGet
  have h1 : ¬ ((i : Int) < 0) := by omega
  simp only [h1, ↓reduceIte, Int.toNat_natCast]
  cases l[i]? <;> rfl

theorem pyGet_nat_lt (l : List α) (i : Nat) (h : i < l.length) : pyGet l (i : Int) = .ok l[i] := by
  rw [pyGet_nat, List.getElem?_eq_getElem h]

theorem pyGet_nat_ge (l : List α) (i : Nat) (h : l.length ≤ i) :
    pyGet l (i : Int) = .error .indexError := by
  rw [pyGet_nat, List.getElem?_eq_none h]

theorem pyGet_succ (l : List α) (i : Nat) :
    pyGet l ((i : Int) + 1) = pyGet l ((i + 1 : Nat) : Int) := by
  congr 1

/-- A negative index within range counts from the end. -/
theorem pyGet_neg (l : List α) (j : Nat) (h1 : 1 ≤ j) (h2 : j ≤ l.length) :
    pyGet l (-(j : Int)) = .ok (l[l.length - j]'(by omega)) := by
  unfold pyGet
  have h3 : (-(j : Int)) < 0 := by omega
  have h4 : ¬ (-(j : Int) + (l.length : Int) < 0) := by omega
  have h5 : (-(j : Int) + (l.length : Int)).toNat = l.length - j := by omega
  simp only [h3, ↓reduceIte, h4, h5]
  rw [List.getElem?_eq_getElem (by omega)]
  rfl

/-! ### the index table -/

theorem prefixSums_length (s : Nat) (ns : List Nat) :
    (prefixSums s ns).length = ns.length + 1 := by
  induction ns generalizing s with
  | nil => rfl
  | cons n r ih => simp [prefixSums, ih]

theorem prefixSums_getElem? (s : Nat) (ns : List Nat) (k : Nat) (hk : k ≤ ns.length) :
    (prefixSums s ns)[k]? = some (s + (ns.take k).sum) := by
  induction ns generalizing s k with
  | nil =>
    have : k = 0 := by simpa using hk
    subst this; simp [prefixSums]
  | cons n r ih =>
    cases k with
    | zero => simp [prefixSums]
    | succ k =>
      have hk' : k ≤ r.length := by simpa using hk
      simp only [prefixSums, List.getElem?_cons_succ, ih (s + n) k hk', List.take_succ_cons,
        List.sum_cons]
      congr 1; omega

theorem le_of_mem_prefixSums {s x : Nat} {ns : List Nat} (h : x ∈ prefixSums s ns) : s ≤ x := by
  induction ns generalizing s with
  | nil => simp [prefixSums] at h; omega
  | cons n r ih =>
    simp only [prefixSums, List.mem_cons] at h
    rcases h with h | h
    · omega
    · have := ih h; omega

theorem prefixSums_pairwise (s : Nat) (ns : List Nat) : (prefixSums s ns).Pairwise (· ≤ ·) := by
  induction ns generalizing s with
  | nil => simp [prefixSums]
  | cons n r ih =>
    simp only [prefixSums, List.pairwise_cons]
    exact ⟨fun x hx => by have := le_of_mem_prefixSums hx; omega, ih _⟩

theorem indexTable_length (ns : List Nat) : (indexTable ns).length = ns.length + 1 :=
  prefixSums_length 0 ns

theorem indexTable_getElem? (ns : List Nat) (k : Nat) (hk : k ≤ ns.length) :
    (indexTable ns)[k]? = some (ns.take k).sum := by
  unfold indexTable; rw [prefixSums_getElem? 0 ns k hk]; simp

theorem indexTable_head (ns : List Nat) : (indexTable ns)[0]? = some 0 := by
  rw [indexTable_getElem? ns 0 (Nat.zero_le _)]; simp

theorem indexTable_last (ns : List Nat) : (indexTable ns).getLast? = some ns.sum := by
  rw [List.getLast?_eq_getElem?, indexTable_length, Nat.add_sub_cancel,
    indexTable_getElem? ns ns.length (Nat.le_refl _), List.take_length]

/-- Consecutive pairs `(t[k], t[k+1])` of the index table: the segment of each atom. -/
def segs (t : List Nat) : List (Nat × Nat) := t.zip t.tail

theorem segs_prefixSums_cons (s n : Nat) (r : List Nat) :
    segs (prefixSums s (n :: r)) = (s, s + n) :: segs (prefixSums (s + n) r) := by
  cases r <;> simp [segs, prefixSums]

theorem segs_prefixSums_length (s : Nat) (ns : List Nat) :
    (segs (prefixSums s ns)).length = ns.length := by
  induction ns generalizing s with
  | nil => simp [segs, prefixSums]
  | cons n r ih => rw [segs_prefixSums_cons]; simp [ih]

theorem segs_getElem?_eq_some (t : List Nat) (k a b : Nat) :
    (segs t)[k]? = some (a, b) ↔ t[k]? = some a ∧ t[k + 1]? = some b := by
  unfold segs
  rw [List.getElem?_zip_eq_some]
  simp [List.getElem?_tail]

/-! ### slices of a flattened list -/

/-- **Generic slice-of-flatten lemma**: in the concatenation of the lists `L`, the Python slice
between the `k`-th and the `k+1`-st entry of the index table of their lengths is `L[k]`. -/
theorem slice_flatten (L : List (List α)) (k : Nat) (hk : k < L.length) :
    pySlice L.flatten ((L.map length).take k).sum ((L.map length).take (k + 1)).sum = L[k] :=
  List.drop_take_succ_flatten_eq_getElem L k hk

theorem zipWith_append_left (f : α → β → K) (w r : List α) (x : List β) :
    zipWith f (w ++ r) x = zipWith f w x ++ zipWith f r (x.drop w.length) := by
  induction w generalizing x with
  | nil => simp
  | cons a w ih =>
    cases x with
    | nil => simp
    | cons b x => simp [ih]

theorem zipWith_take_left (f : α → β → K) (w : List α) (x : List β) :
    zipWith f w x = zipWith f w (x.take w.length) := by
  induction w generalizing x with
  | nil => simp
  | cons a w ih =>
    cases x with
    | nil => simp
    | cons b x => simp [← ih]

theorem pySlice_eq_drop_take (g : List α) (s n : Nat) :
    pySlice g s (s + n) = (g.drop s).take n := by
  unfold pySlice
  rw [List.drop_take]
  congr 1; omega

theorem pySlice_length (g : List α) (a b : Nat) :
    (pySlice g a b).length = min b g.length - a := by
  unfold pySlice; simp

theorem pySlice_zipWith (f : α → β → K) (a : List α) (b : List β) (s t : Nat) :
    pySlice (zipWith f a b) s t = zipWith f (pySlice a s t) (pySlice b s t) := by
  unfold pySlice
  rw [List.take_zipWith, List.drop_zipWith]

/-- A weighted sum over a flattened list splits into the weighted sums over the segments. -/
theorem sum_zipWith_flatten [CommSemiring K] (L : List (List K)) (g : List K) (s : Nat) :
    (zipWith (· * ·) L.flatten (g.drop s)).sum =
      (zipWith (fun (w : List K) (ab : Nat × Nat) => (zipWith (· * ·) w (pySlice g ab.1 ab.2)).sum)
        L (segs (prefixSums s (L.map length)))).sum := by
  induction L generalizing s with
  | nil => simp
  | cons w r ih =>
    rw [List.flatten_cons, zipWith_append_left, List.sum_append, List.map_cons,
      segs_prefixSums_cons, List.zipWith_cons_cons, List.sum_cons, List.drop_drop, ih]
    congr 1
    rw [pySlice_eq_drop_take, ← zipWith_take_left]

theorem zipWith_mul_assoc [CommSemiring K] (a b c : List K) :
    zipWith (· * ·) (zipWith (· * ·) a b) c = zipWith (· * ·) a (zipWith (· * ·) b c) := by
  induction a generalizing b c with
  | nil => simp
  | cons x a ih =>
    cases b with
    | nil => simp
    | cons y b =>
      cases c with
      | nil => simp
      | cons z c => simp [ih, mul_assoc]

/-! ### `allOk` -/

theorem allOk_eq_ok_iff (f : α → Py β) (l : List α) (r : List β) :
    allOk f l = .ok r ↔ List.Forall₂ (fun a b => f a = .ok b) l r := by
  induction l generalizing r with
  | nil =>
    simp only [allOk]
    constructor
    · intro h; cases h; exact .nil
    · intro h; cases h; rfl
  | cons a t ih =>
    simp only [allOk]
    cases hfa : f a with
    | error e =>
      constructor
      · intro h; cases h
      · intro h; cases h with | cons h1 _ => rw [hfa] at h1; cases h1
    | ok b =>
      cases ht : allOk f t with
      | error e =>
        constructor
        · intro h; cases h
        · intro h
          cases h with
          | cons h1 h2 =>
            have := (ih _).mpr h2
            rw [ht] at this; cases this
      | ok bs =>
        constructor
        · intro h
          cases h
          exact .cons hfa ((ih bs).mp ht)
        · intro h
          cases h with
          | cons h1 h2 =>
            rw [hfa] at h1; cases h1
            have := (ih _).mpr h2
            rw [ht] at this; cases this
            rfl

/-! ### the constructor -/

section init
variable [Add K] [Mul K] [NatCast K]

/-- What a successful `MolGrid.__init__` established. -/
structure InitSpec (atnums : List Nat) (atgrids : List (AtGrid P K)) (aim : AimArg P K)
    (store : Bool) (m : MolGrid P K) : Prop where
  nonempty : atgrids ≠ []
  fits : ∀ g ∈ atgrids, g.Fits
  points : m.points = (atgrids.map AtGrid.segPoints).flatten
  atweights : m.atweights = (atgrids.map AtGrid.weights).flatten
  atcoords : m.atcoords = atgrids.map AtGrid.center
  indices : m.indices = indexTable (atgrids.map AtGrid.size)
  stored : m.atgrids = if store then some atgrids else none
  weights : mulBroadcast m.atweights m.aimWeights = .ok m.weights
  aim : match aim with
    | .callable f => m.aimWeights = f m.points m.atcoords atnums m.indices
    | .array a => m.aimWeights = a ∧ a.length = (atgrids.map AtGrid.size).sum
    | .other => False

theorem init_spec {atnums : List Nat} {atgrids : List (AtGrid P K)} {aim : AimArg P K}
    {store : Bool} {m : MolGrid P K} (h : MolGrid.init atnums atgrids aim store = .ok m) :
    InitSpec atnums atgrids aim store m := by
  unfold MolGrid.init at h
  by_cases he : atgrids.isEmpty = true
  · simp [he] at h
  · simp only [he, Bool.false_eq_true, ↓reduceIte] at h
    by_cases hw : ∀ g ∈ atgrids, g.Fits
    · rw [if_neg (not_not.mpr hw)] at h
      have hne : atgrids ≠ [] := by simpa using he
      cases aim with
      | callable f =>
        simp only at h
        cases hb : mulBroadcast (atgrids.map AtGrid.weights).flatten
            (f (atgrids.map AtGrid.segPoints).flatten (atgrids.map AtGrid.center) atnums
              (indexTable (atgrids.map AtGrid.size))) with
        | error e => rw [hb] at h; cases h
        | ok w =>
          rw [hb] at h
          cases h
          exact ⟨hne, hw, rfl, rfl, rfl, rfl, rfl, hb, rfl⟩
      | array a =>
        simp only at h
        by_cases hl : a.length = (atgrids.map AtGrid.size).sum
        · simp only [hl, ne_eq, not_true_eq_false, ↓reduceIte] at h
          cases hb : mulBroadcast (atgrids.map AtGrid.weights).flatten a with
          | error e => rw [hb] at h; cases h
          | ok w =>
            rw [hb] at h
            cases h
            exact ⟨hne, hw, rfl, rfl, rfl, rfl, rfl, hb, rfl, hl⟩
        · simp only [ne_eq, hl, not_false_eq_true, ↓reduceIte] at h; cases h
      | other => simp only at h; cases h
    · rw [if_pos hw] at h; cases h

omit [Add K] [Mul K] [NatCast K] in
theorem flatten_weights_length (atgrids : List (AtGrid P K)) :
    (atgrids.map AtGrid.weights).flatten.length = (atgrids.map AtGrid.size).sum := by
  rw [List.length_flatten, List.map_map]; rfl

omit [Add K] [Mul K] [NatCast K] in
/-- A well-formed atomic grid (every `Grid` object) fills its segment with its own points. -/
theorem segPoints_of_wf {g : AtGrid P K} (h : g.WF) : g.segPoints = g.points := by
  unfold AtGrid.segPoints; rw [if_pos (show g.points.length = g.size from h)]

omit [Add K] [Mul K] [NatCast K] in
theorem fits_of_wf {g : AtGrid P K} (h : g.WF) : g.Fits := Or.inl h

omit [Add K] [Mul K] [NatCast K] in
theorem segPoints_length {g : AtGrid P K} (h : g.Fits) : g.segPoints.length = g.size := by
  unfold AtGrid.segPoints
  by_cases h1 : g.points.length = g.size
  · rw [if_pos h1]; exact h1
  · rw [if_neg h1]
    have h2 : g.points.length = 1 := by
      rcases h with h | h
      · exact absurd h h1
      · exact h
    match hp : g.points, h2 with
    | [v], _ => simp

omit [Add K] [Mul K] [NatCast K] in
theorem map_segPoints_of_wf (atgrids : List (AtGrid P K)) (hw : ∀ g ∈ atgrids, g.WF) :
    atgrids.map AtGrid.segPoints = atgrids.map AtGrid.points :=
  List.map_congr_left fun g hg => segPoints_of_wf (hw g hg)

omit [Add K] [Mul K] [NatCast K] in
theorem flatten_points_length (atgrids : List (AtGrid P K)) (hw : ∀ g ∈ atgrids, g.Fits) :
    (atgrids.map AtGrid.segPoints).flatten.length = (atgrids.map AtGrid.size).sum := by
  rw [List.length_flatten, List.map_map]
  congr 1
  apply List.map_congr_left
  intro g hg
  exact segPoints_length (hw g hg)

omit [Add K] [NatCast K] in
theorem mulBroadcast_eq_len {a b w : List K} (h : mulBroadcast a b = .ok w)
    (hl : b.length = a.length) : w = zipWith (· * ·) a b := by
  unfold mulBroadcast at h
  simp only [hl, ↓reduceIte] at h
  cases h; rfl

omit [Add K] [NatCast K] in
theorem mulBroadcast_length {a b w : List K} (h : mulBroadcast a b = .ok w) :
    w.length = a.length := by
  unfold mulBroadcast at h
  by_cases hl : b.length = a.length
  · simp only [hl, ↓reduceIte] at h
    cases h; simp [hl]
  · simp only [hl, ↓reduceIte] at h
    match b, h with
    | [b0], h => cases h; simp

end init

/-! ### the NumPy primitives of the generated constructor -/

theorem ok_bind (a : α) (f : α → Py β) : (Except.ok a >>= f) = f a := rfl

theorem error_bind (e : PyErr) (f : α → Py β) : ((Except.error e : Py α) >>= f) = .error e := rfl

theorem throw_bind (e : PyErr) (f : α → Py β) : ((throw e : Py α) >>= f) = .error e := rfl

theorem mkLocalGrid_ok {p : List P} {w : List K} (c : P) (h : p.length = w.length) :
    mkLocalGrid p w c = .ok (.localGrid p w c) := by
  unfold mkLocalGrid; rw [if_neg (not_not.mpr h)]; rfl

theorem mkLocalGrid_error {p : List P} {w : List K} (c : P) (h : p.length ≠ w.length) :
    mkLocalGrid p w c = .error .valueError := by
  unfold mkLocalGrid; rw [if_pos h]; rfl

theorem pySetItem_nat_lt (l : List α) (i : Nat) (v : α) (h : i < l.length) :
    pySetItem l (i : Int) v = .ok (l.set i v) := by
  unfold pySetItem
  have h1 : ¬ ((i : Int) < 0) := by omega
  simp only [h1, ↓reduceIte, Int.toNat_natCast, h]
  rfl

theorem pySetItem_nat_ge (l : List α) (i : Nat) (v : α) (h : l.length ≤ i) :
    pySetItem l (i : Int) v = .error .indexError := by
  unfold pySetItem
  have h1 : ¬ ((i : Int) < 0) := by omega
  have h2 : ¬ (i < l.length) := by omega
  simp only [h1, ↓reduceIte, Int.toNat_natCast, h2]
  rfl

theorem pySetItem_succ (l : List α) (i : Nat) (v : α) :
    pySetItem l ((i : Int) + 1) v = pySetItem l ((i + 1 : Nat) : Int) v := by
  congr 1

/-- Overwriting the first still-zero cell behind the filled part `A`. -/
theorem set_append_replicate (A : List α) (r : Nat) (z v : α) :
    (A ++ List.replicate (r + 1) z).set A.length v = (A ++ [v]) ++ List.replicate r z := by
  rw [List.set_append_right _ _ (Nat.le_refl _), Nat.sub_self, List.replicate_succ, List.set_cons_zero,
    List.append_assoc]
  rfl

theorem getElem?_append_replicate (A : List α) (r : Nat) (z : α) :
    (A ++ List.replicate (r + 1) z)[A.length]? = some z := by
  rw [List.getElem?_append_right (Nat.le_refl _), Nat.sub_self, List.replicate_succ]
  rfl

theorem fitSlice_self (l : List α) : fitSlice l.length l = .ok l := by
  unfold fitSlice; rw [if_pos rfl]; rfl

theorem fitSlice_length {n : Nat} {vals v : List α} (h : fitSlice n vals = .ok v) : v.length = n := by
  unfold fitSlice at h
  by_cases h1 : vals.length = n
  · rw [if_pos h1] at h; cases h; exact h1
  · rw [if_neg h1] at h
    match vals, h with
    | [x], h => cases h; simp

/-- `_points[start:end] = atom_grid.points` on a segment of the atom's size: accepted exactly for
`Fits`, and then the segment holds `segPoints`. -/
theorem fitSlice_points (g : AtGrid P K) :
    fitSlice g.size g.points = if g.Fits then .ok g.segPoints else .error .valueError := by
  unfold fitSlice AtGrid.segPoints AtGrid.Fits
  by_cases h1 : g.points.length = g.size
  · simp only [h1, ↓reduceIte, true_or]; rfl
  · simp only [h1, ↓reduceIte, false_or]
    match hp : g.points with
    | [] => simp; rfl
    | [v] => simp; rfl
    | _ :: _ :: _ => simp; rfl

/-- Slice assignment right behind the filled part `A` of a zero-initialised array. -/
theorem pySetSlice_append_replicate (A : List α) (n z : Nat) (zero : α) (vals : List α) :
    pySetSlice (A ++ List.replicate (n + z) zero) A.length (A.length + n) vals =
      match fitSlice n vals with
      | .ok v => .ok (A ++ v ++ List.replicate z zero)
      | .error e => .error e := by
  unfold pySetSlice
  have hl : (A ++ List.replicate (n + z) zero).length = A.length + (n + z) := by simp
  have h1 : min A.length (A ++ List.replicate (n + z) zero).length = A.length := by omega
  have h2 : min (A.length + n) (A ++ List.replicate (n + z) zero).length - A.length = n := by omega
  simp only [h1, h2]
  cases fitSlice n vals with
  | error e => rfl
  | ok v =>
    simp only [pure, Except.pure]
    congr 2
    · simp
    · rw [List.drop_append, List.drop_of_length_le (by omega), List.nil_append, List.drop_replicate]
      congr 1; omega

theorem npZeros_int (n : Nat) (zero : α) : npZeros (.int n) zero = .ok (List.replicate n zero) := rfl

theorem npSum_cons (a : Nat) (l : List Nat) : npSum (a :: l) = .int (a + l.sum) := by
  simp [npSum]

theorem npSum_ne_nil {l : List Nat} (h : l ≠ []) : npSum l = .int l.sum := by
  cases l with
  | nil => exact absurd rfl h
  | cons a r => simp [npSum]

theorem pyForEnum_nil {σ : Type} (body : σ → Nat → α → Py σ) (i : Nat) (s : σ) :
    pyForEnum body i [] s = .ok s := rfl

theorem pyForEnum_cons_ok {σ : Type} (body : σ → Nat → α → Py σ) (i : Nat) (a : α) (r : List α)
    (s s' : σ) (h : body s i a = .ok s') : pyForEnum body i (a :: r) s = pyForEnum body (i + 1) r s' := by
  rw [pyForEnum, h]

theorem pyForEnum_cons_error {σ : Type} (body : σ → Nat → α → Py σ) (i : Nat) (a : α) (r : List α)
    (s : σ) (e : PyErr) (h : body s i a = .error e) : pyForEnum body i (a :: r) s = .error e := by
  rw [pyForEnum, h]

theorem prefixSums_append_singleton (s : Nat) (ns : List Nat) (n : Nat) :
    prefixSums s (ns ++ [n]) = prefixSums s ns ++ [s + ns.sum + n] := by
  induction ns generalizing s with
  | nil => simp [prefixSums]
  | cons a r ih =>
    simp only [List.cons_append, prefixSums, ih, List.sum_cons, List.append_cancel_left_eq,
      List.cons.injEq, and_true, true_and]
    omega

theorem indexTable_append_singleton (ns : List Nat) (n : Nat) :
    indexTable (ns ++ [n]) = indexTable ns ++ [ns.sum + n] := by
  unfold indexTable; rw [prefixSums_append_singleton]; simp

/-- The arrays of `MolGrid.__init__` after the loop has handled the atoms `d`, with `r` atoms and
`z` points still to come: filled parts followed by the zeros of `np.zeros`. -/
def loopState [NatCast K] (zeroRow : P) (d : List (AtGrid P K)) (r z : Nat) :
    List P × List Nat × List P × List K :=
  (d.map AtGrid.center ++ List.replicate r zeroRow,
   indexTable (d.map AtGrid.size) ++ List.replicate r 0,
   (d.map AtGrid.segPoints).flatten ++ List.replicate z zeroRow,
   (d.map AtGrid.weights).flatten ++ List.replicate z ((0 : Nat) : K))

end GridVerif.MolGrid

/-
  C08 — what the in-place recursion of `generate_real_spherical_harmonics` computes, for every `l_max`:
  the loop invariant of `Model/Harmonics.lean: stepOrder / stepDegree / runDegrees` over ℝ.

  `pleg s c l m`  : the unnormalised Legendre recursion `P_l^m` (no Condon–Shortley phase) as a function
                    of `s = sin φ`, `c = cos φ`;
  `factG l k`     : the running `factorial` after order `k` of degree `l`;
  `ylmSpec`       : `√((2l+1)/4π) · [1 | √2 cos mθ | √2 sin |m|θ] · P_l^|m| / factG l (|m|-1)`;
  `ylmCodeSC_eq`  : the rows returned by the code-shaped recursion are `ylmSpec` in Horton-2 order.
-/
import GridVerif.Lemmas.ElemReal
import GridVerif.Lemmas.HarmonicsIndex
import Mathlib.Tactic.Ring
import Mathlib.Tactic.FieldSimp
import Mathlib.Tactic.Linarith
import Mathlib.Tactic.Positivity

namespace GridVerif.Harmonics
open Real

/-! ## the specification -/

/-- `(P_l^·, P_{l-1}^·)` by the forward recursion of the code; `P_{-1} = 0`. -/
noncomputable def legPair (s c : ℝ) : ℕ → (ℕ → ℝ) × (ℕ → ℝ)
  | 0 => (fun m => if m = 0 then 1 else 0, fun _ => 0)
  | l + 1 =>
    let pq := legPair s c l
    (fun m =>
      if m = l + 1 then pq.1 l * (2 * (l : ℝ) + 1) * s
      else if m ≤ l then
        (2 * (l : ℝ) + 1) / ((l : ℝ) + 1 - m) * c * pq.1 m - ((l : ℝ) + m) / ((l : ℝ) + 1 - m) * pq.2 m
      else 0,
     pq.1)

/-- Unnormalised associated Legendre function `P_l^m(cos φ)` without the Condon–Shortley phase, as
computed by the code: `P_0^0 = 1`, `P_l^l = (2l-1) sin φ P_{l-1}^{l-1}`,
`(l-m) P_l^m = (2l-1) cos φ P_{l-1}^m - (l+m-1) P_{l-2}^m`. -/
noncomputable def pleg (s c : ℝ) (l m : ℕ) : ℝ := (legPair s c l).1 m

theorem pleg_zero (s c : ℝ) (m : ℕ) : pleg s c 0 m = if m = 0 then 1 else 0 := rfl

theorem legPair_snd_succ (s c : ℝ) (l : ℕ) : (legPair s c (l + 1)).2 = pleg s c l := rfl

theorem legPair_snd (s c : ℝ) (l m : ℕ) :
    (legPair s c l).2 m = if l = 0 then 0 else pleg s c (l - 1) m := by
  cases l with
  | zero => rfl
  | succ l => simp [legPair_snd_succ]

theorem pleg_succ_diag (s c : ℝ) (l : ℕ) :
    pleg s c (l + 1) (l + 1) = pleg s c l l * (2 * (l : ℝ) + 1) * s := by
  simp [pleg, legPair]

theorem pleg_succ_of_le (s c : ℝ) (l m : ℕ) (h : m ≤ l) :
    pleg s c (l + 1) m =
      (2 * (l : ℝ) + 1) / ((l : ℝ) + 1 - m) * c * pleg s c l m -
        ((l : ℝ) + m) / ((l : ℝ) + 1 - m) * (if l = 0 then 0 else pleg s c (l - 1) m) := by
  have h1 : m ≠ l + 1 := by omega
  rw [← legPair_snd]
  simp [pleg, legPair, h1, h]

theorem pleg_eq_zero_of_lt (s c : ℝ) (l m : ℕ) (h : l < m) : pleg s c l m = 0 := by
  cases l with
  | zero => simp [pleg_zero]; omega
  | succ l =>
    have h1 : m ≠ l + 1 := by omega
    have h2 : ¬ m ≤ l := by omega
    simp [pleg, legPair, h1, h2]

/-- The running `factorial` of degree `l` after order `k`: `√((l+1) l)` at `k = 0`, then multiplied
by `√((l+k+1)(l-k))` at every order `k ≥ 1`. -/
noncomputable def factG (l : ℕ) : ℕ → ℝ
  | 0 => √(((l : ℝ) + 1) * l)
  | k + 1 => factG l k * √(((l : ℝ) + ((k + 1 : ℕ) : ℝ) + 1) * ((l : ℝ) - ((k + 1 : ℕ) : ℝ)))

/-- The row `(l, m)` as a function of `sin φ`, `cos φ`, `θ`. -/
noncomputable def ylmSpec (s c θ : ℝ) (l : ℕ) (m : ℤ) : ℝ :=
  if m = 0 then facSph l * pleg s c l 0
  else if 0 < m then
    pleg s c l m.natAbs / factG l (m.natAbs - 1) * facSph l * √2 * cos ((m.natAbs : ℝ) * θ)
  else pleg s c l m.natAbs / factG l (m.natAbs - 1) * facSph l * √2 * sin ((m.natAbs : ℝ) * θ)

theorem ylmSpec_zero (s c θ : ℝ) (l : ℕ) : ylmSpec s c θ l 0 = facSph l * pleg s c l 0 := by
  simp [ylmSpec]

theorem ylmSpec_pos (s c θ : ℝ) (l k : ℕ) (hk : 0 < k) :
    ylmSpec s c θ l (k : ℤ) =
      pleg s c l k / factG l (k - 1) * facSph l * √2 * cos ((k : ℝ) * θ) := by
  have h1 : ((k : ℤ)) ≠ 0 := by omega
  have h2 : (0 : ℤ) < (k : ℤ) := by omega
  simp only [ylmSpec, h1, h2, ↓reduceIte, Int.natAbs_natCast]

theorem ylmSpec_neg (s c θ : ℝ) (l k : ℕ) (hk : 0 < k) :
    ylmSpec s c θ l (-(k : ℤ)) =
      pleg s c l k / factG l (k - 1) * facSph l * √2 * sin ((k : ℝ) * θ) := by
  have h1 : (-(k : ℤ)) ≠ 0 := by omega
  have h2 : ¬ (0 : ℤ) < -(k : ℤ) := by omega
  simp only [ylmSpec, h1, h2, ↓reduceIte, Int.natAbs_neg, Int.natAbs_natCast]

/-- Orders `0, 1, -1, …, k-1, -(k-1)`: the first `k` passes of the inner loop. -/
def mUpTo (k : ℕ) : List ℤ :=
  (List.range k).flatMap (fun (m : ℕ) => if m = 0 then [(0 : ℤ)] else [(m : ℤ), -(m : ℤ)])

theorem mUpTo_succ (k : ℕ) :
    mUpTo (k + 1) = mUpTo k ++ (if k = 0 then [(0 : ℤ)] else [(k : ℤ), -(k : ℤ)]) := by
  unfold mUpTo
  rw [List.range_succ, List.flatMap_append]
  simp

theorem mUpTo_eq_mValues (l : ℕ) : mUpTo (l + 1) = mValues l := by
  induction l with
  | zero => simp [mUpTo, mValues]
  | succ l ih => rw [mUpTo_succ, ih, mValues_succ]; simp

/-! ## `getD` / `set` -/

theorem getD_set_self {xs : List ℝ} {i : ℕ} (h : i < xs.length) (v d : ℝ) :
    (xs.set i v).getD i d = v := by
  simp [List.getD_eq_getElem?_getD, h]

theorem getD_set_ne {xs : List ℝ} {i j : ℕ} (h : i ≠ j) (v d : ℝ) :
    (xs.set i v).getD j d = xs.getD j d := by
  simp [List.getD_eq_getElem?_getD, h]

/-! ## the inner loop -/

/-- Invariant of the inner loop of degree `l` before order `k` (orders `< k` done), relative to the
state `st0` at the start of the degree. -/
structure InnerInv (s c θ : ℝ) (l k : ℕ) (st0 st : LegState ℝ) : Prop where
  len0 : st.p0.length = st0.p0.length
  len1 : st.p1.length = st0.p1.length
  done0 : ∀ m, m < k → st.p0.getD m 0 = pleg s c l m
  done1 : ∀ m, m < k → m < l → st.p1.getD m 0 = pleg s c (l - 1) m
  rest0 : ∀ m, k ≤ m → st.p0.getD m 0 = st0.p0.getD m 0
  rest1 : ∀ m, k ≤ m → st.p1.getD m 0 = st0.p1.getD m 0
  fact : 1 ≤ k → st.fact = factG l (k - 1)
  deg : st.deg = (mUpTo k).map (ylmSpec s c θ l)

/-- What the outer loop guarantees after degree `n` (work arrays of length `L + 1`). -/
structure OuterInv (s c : ℝ) (L n : ℕ) (st : LegState ℝ) : Prop where
  len0 : st.p0.length = L + 1
  len1 : st.p1.length = L + 1
  p0 : ∀ m, m ≤ n → st.p0.getD m 0 = pleg s c n m
  p1 : ∀ m, m + 1 ≤ n → st.p1.getD m 0 = pleg s c (n - 1) m

theorem aK_real (l m : ℕ) : (aK (l + 1) m : ℝ) = (2 * (l : ℝ) + 1) / ((l : ℝ) + 1 - m) := by
  unfold aK
  push_cast
  congr 1
  · ring
  · ring

theorem bK_real (l m : ℕ) : (bK (l + 1) m : ℝ) = ((l : ℝ) + m) / ((l : ℝ) + 1 - m) := by
  unfold bK
  push_cast
  congr 1
  ring

/-- One pass of the inner loop preserves the invariant. -/
theorem stepOrder_inv (s c θ : ℝ) (L l k : ℕ) (st0 st : LegState ℝ)
    (H0 : OuterInv s c L l st0) (hl : l + 1 ≤ L) (hk : k ≤ l + 1)
    (H : InnerInv s c θ (l + 1) k st0 st) :
    InnerInv s c θ (l + 1) (k + 1) st0 (stepOrder s c θ (l + 1) st k) := by
  have hlen0 : k < st.p0.length := by rw [H.len0, H0.len0]; omega
  have hlen1 : k < st.p1.length := by rw [H.len1, H0.len1]; omega
  by_cases hd : l + 1 = k
  · -- diagonal: k = l + 1 ≥ 1
    have hk0 : k ≠ 0 := by omega
    subst hd
    have hp1 : st.p1.getD l 0 = pleg s c l l := by
      have := H.done1 l (by omega) (by omega); simpa using this
    have hnew : (st.p0.set (l + 1) (st.p1.getD l 0 * (2 * ((l : ℝ) + 1 - 1) + 1) * s)).getD (l + 1) 0
        = pleg s c (l + 1) (l + 1) := by
      rw [getD_set_self hlen0, hp1, pleg_succ_diag]; ring
    unfold stepOrder
    simp only [hk0, ↓reduceIte, Nat.cast_zero, Nat.cast_one, Nat.cast_ofNat, Elem.sqrt, Elem.cos,
      Elem.sin, Nat.add_sub_cancel, Nat.cast_add]
    refine ⟨by simp [H.len0], H.len1, ?_, ?_, ?_, ?_, ?_, ?_⟩
    · intro m hm
      by_cases e : m = l + 1
      · subst e; exact hnew
      · rw [getD_set_ne (Ne.symm e)]; exact H.done0 m (by omega)
    · intro m hm hml; exact H.done1 m (by omega) hml
    · intro m hm; rw [getD_set_ne (by omega)]; exact H.rest0 m (by omega)
    · intro m hm; exact H.rest1 m (by omega)
    · intro _
      have := H.fact (by omega)
      simp only [Nat.add_sub_cancel] at this ⊢
      rw [this]
      cases l with
      | zero => simp [factG]
      | succ l => simp [factG]
    · rw [mUpTo_succ, List.map_append, H.deg]
      have hf := H.fact (by omega)
      simp only [Nat.add_sub_cancel] at hf
      simp only [show ¬ (l + 1 = 0) by omega, ↓reduceIte, List.map_cons, List.map_nil]
      rw [hnew, hf]
      rw [ylmSpec_pos _ _ _ _ _ (by omega), ylmSpec_neg _ _ _ _ _ (by omega)]
      simp
  · -- forward recursion: k ≤ l
    have hkl : k ≤ l := by omega
    have hold : st.p0.getD k 0 = pleg s c l k := by
      rw [H.rest0 k (Nat.le_refl _)]; exact H0.p0 k hkl
    have hsecond : (if k + 2 ≤ l + 1 then (bK (l + 1) k : ℝ) * st.p1.getD k 0 else 0)
        = ((l : ℝ) + k) / ((l : ℝ) + 1 - k) * (if l = 0 then 0 else pleg s c (l - 1) k) := by
      by_cases h2 : k + 2 ≤ l + 1
      · have hl0 : l ≠ 0 := by omega
        rw [if_pos h2, if_neg hl0, bK_real, H.rest1 k (Nat.le_refl _), H0.p1 k (by omega)]
      · rw [if_neg h2]
        have hkl' : k = l := by omega
        subst hkl'
        by_cases hl0 : k = 0
        · simp [hl0]
        · rw [if_neg hl0, pleg_eq_zero_of_lt s c (k - 1) k (by omega)]; simp
    have hnew : (st.p0.set k ((aK (l + 1) k : ℝ) * c * st.p0.getD k 0 -
          (if k + 2 ≤ l + 1 then (bK (l + 1) k : ℝ) * st.p1.getD k 0 else 0))).getD k 0
        = pleg s c (l + 1) k := by
      rw [getD_set_self hlen0, hsecond, hold, aK_real, pleg_succ_of_le s c l k hkl]
    unfold stepOrder
    simp only [hd, ↓reduceIte, Nat.cast_zero, Nat.cast_one, Nat.cast_ofNat, Elem.sqrt, Elem.cos,
      Elem.sin]
    by_cases hk0 : k = 0
    · subst hk0
      simp only [↓reduceIte]
      refine ⟨by simp [H.len0], by simp [H.len1], ?_, ?_, ?_, ?_, ?_, ?_⟩
      · intro m hm
        have : m = 0 := by omega
        subst this; exact hnew
      · intro m hm _
        have : m = 0 := by omega
        subst this
        rw [getD_set_self hlen1]; simpa using hold
      · intro m hm; rw [getD_set_ne (by omega)]; exact H.rest0 m (by omega)
      · intro m hm; rw [getD_set_ne (by omega)]; exact H.rest1 m (by omega)
      · intro _; simp [factG]
      · rw [mUpTo_succ, List.map_append, H.deg]
        simp only [↓reduceIte, List.map_cons, List.map_nil, ylmSpec_zero]
        rw [hnew]
    · simp only [hk0, ↓reduceIte]
      refine ⟨by simp [H.len0], by simp [H.len1], ?_, ?_, ?_, ?_, ?_, ?_⟩
      · intro m hm
        by_cases e : m = k
        · subst e; exact hnew
        · rw [getD_set_ne (Ne.symm e)]; exact H.done0 m (by omega)
      · intro m hm hml
        by_cases e : m = k
        · subst e; rw [getD_set_self hlen1]; simpa using hold
        · rw [getD_set_ne (Ne.symm e)]; exact H.done1 m (by omega) hml
      · intro m hm; rw [getD_set_ne (by omega)]; exact H.rest0 m (by omega)
      · intro m hm; rw [getD_set_ne (by omega)]; exact H.rest1 m (by omega)
      · intro _
        have := H.fact (by omega)
        rw [this]
        obtain ⟨k', rfl⟩ : ∃ k', k = k' + 1 := ⟨k - 1, by omega⟩
        simp [factG]
      · rw [mUpTo_succ, List.map_append, H.deg]
        have hf := H.fact (by omega)
        simp only [hk0, ↓reduceIte, List.map_cons, List.map_nil]
        rw [hnew, hf, ylmSpec_pos _ _ _ _ _ (by omega), ylmSpec_neg _ _ _ _ _ (by omega)]

/-- The inner loop of degree `l + 1`, all orders. -/
theorem stepDegree_inner (s c θ : ℝ) (L l : ℕ) (st0 : LegState ℝ)
    (H0 : OuterInv s c L l st0) (hl : l + 1 ≤ L) (k : ℕ) (hk : k ≤ l + 2) :
    InnerInv s c θ (l + 1) k { st0 with deg := [] }
      ((List.range k).foldl (stepOrder s c θ (l + 1)) { st0 with deg := [] }) := by
  have H0' : OuterInv s c L l { st0 with deg := [] } := ⟨H0.len0, H0.len1, H0.p0, H0.p1⟩
  induction k with
  | zero =>
    refine ⟨rfl, rfl, ?_, ?_, ?_, ?_, ?_, ?_⟩
    · intro m hm; omega
    · intro m hm; omega
    · intro m _; rfl
    · intro m _; rfl
    · intro h; omega
    · simp [mUpTo]
  | succ k ih =>
    rw [List.range_succ, List.foldl_append]
    exact stepOrder_inv s c θ L l k _ _ H0' hl (by omega) (ih (by omega))

theorem stepDegree_outer (s c θ : ℝ) (L l : ℕ) (st0 : LegState ℝ)
    (H0 : OuterInv s c L l st0) (hl : l + 1 ≤ L) :
    OuterInv s c L (l + 1) (stepDegree s c θ st0 (l + 1)) ∧
      (stepDegree s c θ st0 (l + 1)).deg = (mValues (l + 1)).map (ylmSpec s c θ (l + 1)) := by
  have H := stepDegree_inner s c θ L l st0 H0 hl (l + 2) (Nat.le_refl _)
  unfold stepDegree
  refine ⟨⟨?_, ?_, ?_, ?_⟩, ?_⟩
  · rw [H.len0]; exact H0.len0
  · rw [H.len1]; exact H0.len1
  · intro m hm; exact H.done0 m (by omega)
  · intro m hm; exact H.done1 m (by omega) (by omega)
  · rw [H.deg, mUpTo_eq_mValues]

theorem facSph_real (l : ℕ) : (facSph l : ℝ) = √((2 * (l : ℝ) + 1) / (4 * π)) := by
  simp [facSph, Elem.sqrt, Elem.pi]

/-- **Loop invariant of the whole routine**: after the degrees `1..n` (`n ≤ L`) the work columns hold
`P_n^m`, `P_{n-1}^m` and the rows written so far are `ylmSpec` in Horton-2 order. -/
theorem runDegrees_inv (s c θ : ℝ) (L n : ℕ) (hn : n ≤ L) :
    OuterInv s c L n (runDegrees L θ s c n).1 ∧
      (runDegrees L θ s c n).2 = (lmOrder n).map (fun lm => ylmSpec s c θ lm.1 lm.2) := by
  induction n with
  | zero =>
    refine ⟨⟨by simp [runDegrees, initState], by simp [runDegrees, initState], ?_, ?_⟩, ?_⟩
    · intro m hm
      have : m = 0 := by omega
      subst this
      simp [runDegrees, initState, pleg_zero]
    · intro m hm; omega
    · simp [runDegrees, lmOrder_zero, ylmSpec_zero, pleg_zero]
  | succ n ih =>
    obtain ⟨ho, hr⟩ := ih (by omega)
    obtain ⟨ho', hd⟩ := stepDegree_outer s c θ L n _ ho hn
    refine ⟨ho', ?_⟩
    show (runDegrees L θ s c n).2 ++ (stepDegree s c θ (runDegrees L θ s c n).1 (n + 1)).deg = _
    rw [hr, hd, lmOrder_succ, List.map_append, List.map_map]
    rfl

/-- The rows of the code-shaped recursion, every `l_max`. -/
theorem ylmCodeSC_eq (L : ℕ) (θ s c : ℝ) :
    ylmCodeSC L θ s c = (lmOrder L).map (fun lm => ylmSpec s c θ lm.1 lm.2) :=
  (runDegrees_inv s c θ L L (Nat.le_refl _)).2

theorem ylmCode_eq (L : ℕ) (θ φ : ℝ) :
    ylmCode L θ φ = (lmOrder L).map (fun lm => ylmSpec (sin φ) (cos φ) θ lm.1 lm.2) := by
  unfold ylmCode
  exact ylmCodeSC_eq L θ _ _

theorem ylmCode_length (L : ℕ) (θ φ : ℝ) : (ylmCode L θ φ).length = (L + 1) * (L + 1) := by
  rw [ylmCode_eq, List.length_map, lmOrder_length]

/-- Row `(l, m)` of the code-shaped recursion. -/
theorem ylmCodeSC_getElem? (L : ℕ) (θ s c : ℝ) (l : ℕ) (m : ℤ) (hl : l ≤ L) (hm : m.natAbs ≤ l) :
    (ylmCodeSC L θ s c)[rowIndex l m]? = some (ylmSpec s c θ l m) := by
  rw [ylmCodeSC_eq, List.getElem?_map, lmOrder_getElem? L l m hl hm]
  rfl

theorem ylmCode_getElem? (L : ℕ) (θ φ : ℝ) (l : ℕ) (m : ℤ) (hl : l ≤ L) (hm : m.natAbs ≤ l) :
    (ylmCode L θ φ)[rowIndex l m]? = some (ylmSpec (sin φ) (cos φ) θ l m) :=
  ylmCodeSC_getElem? L θ _ _ l m hl hm

theorem ylmCodeSC_getD (L : ℕ) (θ s c : ℝ) (l : ℕ) (m : ℤ) (hl : l ≤ L) (hm : m.natAbs ≤ l) (d : ℝ) :
    (ylmCodeSC L θ s c).getD (rowIndex l m) d = ylmSpec s c θ l m := by
  rw [List.getD_eq_getElem?_getD, ylmCodeSC_getElem? L θ s c l m hl hm]
  rfl

end GridVerif.Harmonics

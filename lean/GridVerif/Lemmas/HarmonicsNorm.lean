/-
  C02/C08 — the fully normalised recursion `ylmNorm` (what the oracle for the angular quadrature files
  evaluates) defines the same functions as the code-shaped recursion `ylmCode`, for every `l_max`.
-/
import GridVerif.Lemmas.HarmonicsLow

namespace GridVerif.Harmonics
open Real

/-- Normalisation constant of row `(l, ±m)`: `√((2l+1)/4π)` for `m = 0`, `√((2l+1)/4π) √2 / F_{l,m}` else. -/
noncomputable def nrm (l m : ℕ) : ℝ :=
  if m = 0 then (facSph l : ℝ) else (facSph l : ℝ) * √2 / factG l (m - 1)

/-- `P̄_lm = nrm l m · P_l^m`. -/
noncomputable def pbar (s c : ℝ) (l m : ℕ) : ℝ := nrm l m * pleg s c l m

theorem nrm_nonneg (l m : ℕ) (h : m ≤ l) : 0 ≤ nrm l m := by
  unfold nrm
  split
  · rw [facSph_real]; positivity
  · have := factG_pos l (m - 1) (by omega)
    rw [facSph_real]; positivity

/-- `nrm l m ² = (2l+1)/(4π) · ε_m · (l-m)!/(l+m)!`, `ε_0 = 1`, `ε_m = 2`. -/
theorem nrm_sq (m n : ℕ) :
    nrm (m + n) m ^ 2 =
      (2 * ((m : ℝ) + n) + 1) / (4 * π) * (if m = 0 then 1 else 2) *
        ((n.factorial : ℝ) / ((2 * m + n).factorial : ℝ)) := by
  unfold nrm
  by_cases hm : m = 0
  · subst hm
    simp only [↓reduceIte, facSph_real, Nat.zero_add, Nat.mul_zero]
    have : (n.factorial : ℝ) ≠ 0 := by positivity
    rw [Real.sq_sqrt (by positivity)]
    field_simp
    push_cast
    ring
  · simp only [hm, ↓reduceIte]
    rw [factG_closed (m + n) (m - 1) (by omega), facSph_real]
    have e1 : m + n + (m - 1) + 1 = 2 * m + n := by omega
    have e2 : m + n - (m - 1) - 1 = n := by omega
    rw [e1, e2, div_pow, mul_pow, Real.sq_sqrt (by positivity), Real.sq_sqrt (by positivity),
      Real.sq_sqrt (by positivity)]
    have h1 : (n.factorial : ℝ) ≠ 0 := by positivity
    have h2 : ((2 * m + n).factorial : ℝ) ≠ 0 := by positivity
    push_cast
    field_simp

theorem normA_sq (m n : ℕ) :
    (normA (m + n + 1) m : ℝ) ^ 2 =
      ((2 * ((m : ℝ) + n) + 1) * (2 * ((m : ℝ) + n) + 3)) / (((n : ℝ) + 1) * (2 * (m : ℝ) + n + 1)) := by
  unfold normA
  simp only [Elem.sqrt]
  push_cast
  have hden : (0 : ℝ) < ((n : ℝ) + 1) * (2 * (m : ℝ) + n + 1) := by positivity
  have e : (4 * ((m : ℝ) + n + 1) * ((m : ℝ) + n + 1) - 1) / (((m : ℝ) + n + 1) * ((m : ℝ) + n + 1) - (m : ℝ) * m)
      = ((2 * ((m : ℝ) + n) + 1) * (2 * ((m : ℝ) + n) + 3)) / (((n : ℝ) + 1) * (2 * (m : ℝ) + n + 1)) := by
    congr 1 <;> ring
  rw [e, Real.sq_sqrt (by positivity)]

theorem normA_nonneg (l m : ℕ) : 0 ≤ (normA l m : ℝ) := by
  unfold normA; simp only [Elem.sqrt]; exact Real.sqrt_nonneg _

theorem normB_nonneg (l m : ℕ) : 0 ≤ (normB l m : ℝ) := by
  unfold normB; simp only [Elem.sqrt]; exact Real.sqrt_nonneg _

/-- `b_{m+n+2, m}² = ((n+1)(2m+n+1)) / ((2(m+n)+1)(2(m+n)+3))`. -/
theorem normB_sq (m n : ℕ) :
    (normB (m + n + 2) m : ℝ) ^ 2 =
      (((n : ℝ) + 1) * (2 * (m : ℝ) + n + 1)) / ((2 * ((m : ℝ) + n) + 1) * (2 * ((m : ℝ) + n) + 3)) := by
  unfold normB
  simp only [Elem.sqrt, show m + n + 2 - 1 = m + n + 1 by omega]
  push_cast
  have e : (((m : ℝ) + n + 1) * ((m : ℝ) + n + 1) - (m : ℝ) * m) / (4 * ((m : ℝ) + n + 1) * ((m : ℝ) + n + 1) - 1)
      = (((n : ℝ) + 1) * (2 * (m : ℝ) + n + 1)) / ((2 * ((m : ℝ) + n) + 1) * (2 * ((m : ℝ) + n) + 3)) := by
    congr 1 <;> ring
  rw [e, Real.sq_sqrt (by positivity)]

/-- `b_{m+1, m} = 0`: the second term of the recursion is absent at `l = m + 1`. -/
theorem normB_succ_self (m : ℕ) : (normB (m + 1) m : ℝ) = 0 := by
  unfold normB
  simp [Elem.sqrt]

/-- coefficient of `cos φ P̄_{l-1,m}`. -/
theorem K1 (m n : ℕ) :
    nrm (m + n + 1) m * ((2 * ((m : ℝ) + n) + 1) / ((n : ℝ) + 1)) = normA (m + n + 1) m * nrm (m + n) m := by
  apply eq_of_sq_eq
  · exact mul_nonneg (nrm_nonneg _ _ (by omega)) (by positivity)
  · exact mul_nonneg (normA_nonneg _ _) (nrm_nonneg _ _ (by omega))
  · rw [mul_pow, mul_pow, normA_sq, nrm_sq m n, show m + n + 1 = m + (n + 1) by omega, nrm_sq m (n + 1)]
    rw [show 2 * m + (n + 1) = (2 * m + n) + 1 by omega, Nat.factorial_succ n, Nat.factorial_succ (2 * m + n)]
    have h1 : (n.factorial : ℝ) ≠ 0 := by positivity
    have h2 : ((2 * m + n).factorial : ℝ) ≠ 0 := by positivity
    push_cast
    field_simp
    ring

/-- coefficient of `P̄_{l-2,m}`. -/
theorem K2 (m n : ℕ) :
    nrm (m + n + 2) m * ((2 * (m : ℝ) + n + 1) / ((n : ℝ) + 2)) =
      normA (m + n + 2) m * normB (m + n + 2) m * nrm (m + n) m := by
  apply eq_of_sq_eq
  · exact mul_nonneg (nrm_nonneg _ _ (by omega)) (by positivity)
  · exact mul_nonneg (mul_nonneg (normA_nonneg _ _) (normB_nonneg _ _)) (nrm_nonneg _ _ (by omega))
  · rw [mul_pow, mul_pow, mul_pow, normB_sq, show m + n + 2 = m + (n + 1) + 1 by omega, normA_sq, nrm_sq m n,
      show m + (n + 1) + 1 = m + (n + 2) by omega, nrm_sq m (n + 2)]
    rw [show 2 * m + (n + 2) = (2 * m + n) + 1 + 1 by omega, Nat.factorial_succ (n + 1), Nat.factorial_succ n,
      Nat.factorial_succ (2 * m + n + 1), Nat.factorial_succ (2 * m + n)]
    have h1 : (n.factorial : ℝ) ≠ 0 := by positivity
    have h2 : ((2 * m + n).factorial : ℝ) ≠ 0 := by positivity
    push_cast
    field_simp
    ring

/-! ## the normalised recurrences hold for `pbar` -/

theorem pbar_zero_zero (s c : ℝ) : pbar s c 0 0 = √(1 / (4 * π)) := by
  simp [pbar, nrm, pleg_zero, k00]

/-- sectoral step: `P̄_{m+1,m+1} = d_{m+1} sin φ P̄_mm`. -/
theorem pbar_diag_succ (s c : ℝ) (m : ℕ) :
    pbar s c (m + 1) (m + 1) = normD (m + 1) * s * pbar s c m m := by
  have key : nrm (m + 1) (m + 1) * (2 * (m : ℝ) + 1) = normD (m + 1) * nrm m m := by
    apply eq_of_sq_eq
    · exact mul_nonneg (nrm_nonneg _ _ (Nat.le_refl _)) (by positivity)
    · refine mul_nonneg ?_ (nrm_nonneg _ _ (Nat.le_refl _))
      unfold normD; split <;> (simp only [Elem.sqrt]; exact Real.sqrt_nonneg _)
    · have h0 := nrm_sq (m + 1) 0
      have h1 := nrm_sq m 0
      simp only [Nat.add_zero] at h0 h1
      rw [mul_pow, mul_pow, h0, h1]
      by_cases hm : m = 0
      · subst hm
        simp only [normD, ↓reduceIte, Elem.sqrt]
        rw [Real.sq_sqrt (by norm_num)]
        norm_num
        field_simp
      · have hm1 : m + 1 ≠ 1 := by omega
        simp only [normD, hm1, hm, ↓reduceIte, Elem.sqrt, Nat.add_eq_zero_iff, one_ne_zero, and_false]
        rw [Real.sq_sqrt (by positivity)]
        rw [show 2 * (m + 1) = (2 * m) + 1 + 1 by omega, Nat.factorial_succ (2 * m + 1),
          Nat.factorial_succ (2 * m), Nat.factorial_zero]
        have h2 : ((2 * m).factorial : ℝ) ≠ 0 := by positivity
        push_cast
        field_simp
        ring
  unfold pbar
  rw [pleg_succ_diag]
  calc nrm (m + 1) (m + 1) * (pleg s c m m * (2 * (m : ℝ) + 1) * s)
      = (nrm (m + 1) (m + 1) * (2 * (m : ℝ) + 1)) * (s * pleg s c m m) := by ring
    _ = normD (m + 1) * s * (nrm m m * pleg s c m m) := by rw [key]; ring

/-- `P̄_{l-2,m}` as it enters the step to degree `l`: `0` when there is no such degree. -/
noncomputable def pbarPrev (s c : ℝ) (l m : ℕ) : ℝ := if l = 0 then 0 else pbar s c (l - 1) m

/-- forward step: `P̄_{l+1,m} = a (cos φ P̄_{l,m} − b P̄_{l-1,m})`, `m ≤ l`. -/
theorem pbar_succ (s c : ℝ) (m n : ℕ) :
    pbar s c (m + n + 1) m =
      normA (m + n + 1) m * (c * pbar s c (m + n) m - normB (m + n + 1) m * pbarPrev s c (m + n) m) := by
  have hle : m ≤ m + n := by omega
  have e1 : (((m + n : ℕ) : ℝ) + 1 - (m : ℝ)) = (n : ℝ) + 1 := by push_cast; ring
  have e2 : (2 * ((m + n : ℕ) : ℝ) + 1) = 2 * ((m : ℝ) + n) + 1 := by push_cast; ring
  unfold pbar
  rw [pleg_succ_of_le s c (m + n) m hle, e1, e2]
  cases n with
  | zero =>
    -- l = m + 1: no second term
    simp only [Nat.add_zero, normB_succ_self, zero_mul, sub_zero]
    have hz : (if m = 0 then (0 : ℝ) else pleg s c (m - 1) m) = 0 := by
      split
      · rfl
      · exact pleg_eq_zero_of_lt s c (m - 1) m (by omega)
    rw [hz, mul_zero, sub_zero]
    have k := K1 m 0
    simp only [Nat.add_zero, Nat.cast_zero, add_zero] at k
    calc nrm (m + 1) m * ((2 * ((m : ℝ) + ((0 : ℕ) : ℝ)) + 1) / (((0 : ℕ) : ℝ) + 1) * c * pleg s c m m)
        = (nrm (m + 1) m * ((2 * (m : ℝ) + 1) / (0 + 1))) * (c * pleg s c m m) := by push_cast; ring
      _ = _ := by rw [k]; ring
  | succ n =>
    have hne : m + (n + 1) ≠ 0 := by omega
    simp only [hne, ↓reduceIte, pbarPrev, pbar]
    have k1 := K1 m (n + 1)
    have k2 := K2 m n
    have e3 : (((m + (n + 1) : ℕ) : ℝ) + (m : ℝ)) = 2 * (m : ℝ) + n + 1 := by push_cast; ring
    have e4 : m + (n + 1) - 1 = m + n := by omega
    rw [e3, e4]
    have k1' : nrm (m + (n + 1) + 1) m * ((2 * ((m : ℝ) + ((n + 1 : ℕ) : ℝ)) + 1) / (((n + 1 : ℕ) : ℝ) + 1)) =
        normA (m + (n + 1) + 1) m * nrm (m + (n + 1)) m := k1
    have k2' : nrm (m + (n + 1) + 1) m * ((2 * (m : ℝ) + n + 1) / ((n : ℝ) + 2)) =
        normA (m + (n + 1) + 1) m * normB (m + (n + 1) + 1) m * nrm (m + n) m := k2
    have e5 : (((n + 1 : ℕ) : ℝ) + 1) = (n : ℝ) + 2 := by push_cast; ring
    calc nrm (m + (n + 1) + 1) m *
          ((2 * ((m : ℝ) + ((n + 1 : ℕ) : ℝ)) + 1) / (((n + 1 : ℕ) : ℝ) + 1) * c * pleg s c (m + (n + 1)) m -
            (2 * (m : ℝ) + n + 1) / (((n + 1 : ℕ) : ℝ) + 1) * pleg s c (m + n) m)
        = (nrm (m + (n + 1) + 1) m * ((2 * ((m : ℝ) + ((n + 1 : ℕ) : ℝ)) + 1) / (((n + 1 : ℕ) : ℝ) + 1))) *
              (c * pleg s c (m + (n + 1)) m) -
            (nrm (m + (n + 1) + 1) m * ((2 * (m : ℝ) + n + 1) / ((n : ℝ) + 2))) * pleg s c (m + n) m := by
          rw [e5]; ring
      _ = _ := by rw [k1', k2']; ring

/-! ## the list program `ylmNorm` -/

theorem normDiag_eq (s c : ℝ) (m : ℕ) : normDiag s m = pbar s c m m := by
  induction m with
  | zero => simp [normDiag, pbar_zero_zero, Elem.sqrt, Elem.pi]
  | succ m ih => rw [normDiag, ih, pbar_diag_succ]

theorem pbarPrev_self (s c : ℝ) (m : ℕ) : pbarPrev s c m m = 0 := by
  unfold pbarPrev
  split
  · rfl
  · unfold pbar
    rw [pleg_eq_zero_of_lt s c (m - 1) m (by omega), mul_zero]

theorem normColumnFrom_eq (s c : ℝ) (m : ℕ) (cnt j : ℕ) :
    normColumnFrom c m cnt (m + j + 1) (pbar s c (m + j) m) (pbarPrev s c (m + j) m) =
      (List.range cnt).map (fun i => pbar s c (m + j + 1 + i) m) := by
  induction cnt generalizing j with
  | zero => simp [normColumnFrom]
  | succ cnt ih =>
    rw [normColumnFrom, ← pbar_succ s c m j]
    have hprev : pbarPrev s c (m + (j + 1)) m = pbar s c (m + j) m := by
      unfold pbarPrev
      have : m + (j + 1) ≠ 0 := by omega
      simp [this, show m + (j + 1) - 1 = m + j by omega]
    have := ih (j + 1)
    rw [hprev, show m + (j + 1) = m + j + 1 by omega] at this
    rw [this, List.range_succ_eq_map, List.map_cons, List.map_map]
    congr 1
    apply List.map_congr_left
    intro i _
    simp only [Function.comp, Nat.add_zero]
    congr 1
    omega

theorem normColumn_eq (s c : ℝ) (L m : ℕ) :
    normColumn s c L m = (List.range (L - m + 1)).map (fun i => pbar s c (m + i) m) := by
  unfold normColumn
  simp only
  have h := normColumnFrom_eq s c m (L - m) 0
  simp only [Nat.add_zero] at h
  rw [pbarPrev_self] at h
  rw [normDiag_eq s c m, Nat.cast_zero, h, List.range_succ_eq_map, List.map_cons, List.map_map]
  congr 1
  apply List.map_congr_left
  intro i _
  simp only [Function.comp]
  congr 1
  omega

theorem flatMap_congr' {α β : Type} {l : List α} {f g : α → List β} (h : ∀ a ∈ l, f a = g a) :
    l.flatMap f = l.flatMap g := by
  induction l with
  | nil => rfl
  | cons a t ih =>
    rw [List.flatMap_cons, List.flatMap_cons, h a (List.mem_cons_self ..),
      ih (fun b hb => h b (List.mem_cons_of_mem _ hb))]

/-- The entry `P̄_lm` read back from the table of columns. -/
theorem cols_lookup (s c : ℝ) (L l m : ℕ) (hm : m ≤ l) (hl : l ≤ L) :
    ((((List.range (L + 1)).map (fun m => normColumn s c L m)).getD m []).getD (l - m) (0 : ℝ)) =
      pbar s c l m := by
  have h1 : ((List.range (L + 1)).map (fun m => normColumn s c L m)).getD m [] = normColumn s c L m := by
    rw [List.getD_eq_getElem?_getD, List.getElem?_map, List.getElem?_range (by omega)]
    rfl
  rw [h1, normColumn_eq, List.getD_eq_getElem?_getD, List.getElem?_map, List.getElem?_range (by omega)]
  simp only [Option.map_some, Option.getD_some]
  congr 1
  omega

/-- **The normalised recursion and the code-shaped recursion define the same functions**, every
`l_max`, all angles. -/
theorem ylmNorm_eq_ylmCode (L : ℕ) (θ φ : ℝ) : ylmNorm L θ φ = ylmCode L θ φ := by
  rw [ylmCode_eq]
  unfold ylmNorm lmOrder
  simp only [Elem.sin, Elem.cos, Nat.cast_zero]
  rw [List.map_flatMap]
  apply flatMap_congr'
  intro l hl
  have hlL : l ≤ L := by have := List.mem_range.mp hl; omega
  rw [List.map_map]
  unfold mValues
  rw [List.map_cons, List.map_flatMap]
  congr 1
  · have h0 := cols_lookup (sin φ) (cos φ) L l 0 (Nat.zero_le _) hlL
    simp only [Nat.sub_zero] at h0
    rw [h0]
    simp [pbar, nrm, ylmSpec_zero]
  · apply flatMap_congr'
    intro x hx
    obtain ⟨hx1, hx2⟩ := List.mem_range'_1.mp hx
    simp only [List.map_cons, List.map_nil, Function.comp]
    rw [cols_lookup (sin φ) (cos φ) L l x (by omega) hlL, ylmSpec_pos _ _ _ _ _ (by omega),
      ylmSpec_neg _ _ _ _ _ (by omega)]
    have hx0 : x ≠ 0 := by omega
    simp only [pbar, nrm, hx0, ↓reduceIte]
    congr 1
    · ring
    · congr 1
      ring

end GridVerif.Harmonics
